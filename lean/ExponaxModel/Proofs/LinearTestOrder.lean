import ExponaxModel.Properties.C02
import ExponaxModel.Proofs.LinearTestOrderPhi
/-
C02 support — ORDER OF ACCURACY of ETDRK1–4 on the linear test family
`u' = λ u + N(u)`, `N(u) = μ u` (`λ, μ ∈ ℂ`; exact flow over a step: multiplication by `e^{(λ+μ)dt}`),
for the schemes with the EXACT Cox–Matthews coefficients written with the ENTIRE φ-functions
`ContourTail.phi1e/phi2e/phi3e` (so `λ = 0` and tiny `λ dt` are covered, no case distinction).

T1  amplification factors: `cm_p … (fun v => μ * v) u = R_p z (μ dt) * u` and the same for the
    regenerated stage formulas `Gen.Etdrk.E1step … E4step`; `R_p z w` are explicit polynomials in `w`
    of degree `p` with coefficients in `e^z, e^{z/2}, φ₁(z), φ₂(z), φ₃(z), φ₁(z/2)`.
T2  local order: `R_p(λt, μt) − e^{(λ+μ)t} = t^{p+1}·Q_p(t)` with an EXPLICIT continuous `Q_p`
    (a polynomial in `λ, μ, t` and the entire remainders `φ_{p+1}(λt), φ_{p+1}(λt/2), φ_{p+1}((λ+μ)t)`),
    hence `‖R_p(λt, μt) − e^{(λ+μ)t}‖ ≤ C t^{p+1}` on `[0,T]`.
(T3 global order: `LinearTestOrderGlobal.lean`; T4 sharpness: `LinearTestOrderSharp.lean`.)
-/
set_option linter.unusedVariables false
noncomputable section
namespace Exponax.LinearOrder
open Exponax Exponax.Spec Exponax.ContourTail Exponax.Gen.Etdrk

/-! ## T1: amplification factors -/

/-- ETDRK1: `R₁(z,w) = e^z + w φ₁(z)` -/
def R1 (z w : ℂ) : ℂ := Complex.exp z + w * phi1e z

/-- ETDRK2: `R₂(z,w) = e^z + w (φ₁ + (e^z − 1) φ₂) + w² φ₁ φ₂`  (φ's at `z`) -/
def R2 (z w : ℂ) : ℂ :=
  Complex.exp z + w * (phi1e z + (Complex.exp z - 1) * phi2e z) + w ^ 2 * (phi1e z * phi2e z)

/-- the three final-stage weight combinations of ETDRK3/4 (without the factor `dt`) -/
def wA (z : ℂ) : ℂ := phi1e z - 3 * phi2e z + 4 * phi3e z
def wB (z : ℂ) : ℂ := phi2e z - 2 * phi3e z
def wC (z : ℂ) : ℂ := 4 * phi3e z - phi2e z

/-- ETDRK3, with `α = φ₁−3φ₂+4φ₃`, `β = φ₂−2φ₃`, `γ = 4φ₃−φ₂` (at `z`), `ψ = φ₁(z/2)`:
    `R₃ = e^z + w (α + 4β e^{z/2} + γ e^z) + w² (2βψ + γ φ₁ (2e^{z/2} − 1)) + w³ γ φ₁ ψ` -/
def R3 (z w : ℂ) : ℂ :=
  Complex.exp z + w * (wA z + 4 * wB z * Complex.exp (z / 2) + wC z * Complex.exp z)
    + w ^ 2 * (2 * wB z * phi1e (z / 2) + wC z * phi1e z * (2 * Complex.exp (z / 2) - 1))
    + w ^ 3 * (wC z * phi1e z * phi1e (z / 2))

/-- ETDRK4, same abbreviations:
    `R₄ = e^z + w (α + 4β e^{z/2} + γ e^z) + w² (βψ(1+e^{z/2}) + γψ(3e^{z/2}−1)/2)
          + w³ ψ²(β + γ e^{z/2})/2 + w⁴ γψ³/4` -/
def R4 (z w : ℂ) : ℂ :=
  Complex.exp z + w * (wA z + 4 * wB z * Complex.exp (z / 2) + wC z * Complex.exp z)
    + w ^ 2 * (wB z * phi1e (z / 2) * (1 + Complex.exp (z / 2))
        + wC z * phi1e (z / 2) * (3 * Complex.exp (z / 2) - 1) / 2)
    + w ^ 3 * (phi1e (z / 2) ^ 2 * (wB z + wC z * Complex.exp (z / 2)) / 2)
    + w ^ 4 * (wC z * phi1e (z / 2) ^ 3 / 4)

/-- `R₂` in the form the scheme computes it: `R₂ = R₁ + w φ₂ (R₁ − 1)` -/
theorem R2_eq_stages (z w : ℂ) : R2 z w = R1 z w + w * phi2e z * (R1 z w - 1) := by
  simp only [R1, R2]; ring

/-- `R₃` in stage form: `A = e^{z/2} + (w/2)φ₁(z/2)`, `B = e^z + wφ₁(z)(2A − 1)`,
    `R₃ = e^z + wα + 4wβ A + wγ B` -/
theorem R3_eq_stages (z w : ℂ) :
    R3 z w = Complex.exp z + w * wA z
      + w * (4 * wB z) * (Complex.exp (z / 2) + w / 2 * phi1e (z / 2))
      + w * wC z * (Complex.exp z
          + w * phi1e z * (2 * (Complex.exp (z / 2) + w / 2 * phi1e (z / 2)) - 1)) := by
  simp only [R3]; ring

theorem exp_half_sq (z : ℂ) : Complex.exp (z / 2) * Complex.exp (z / 2) = Complex.exp z := by
  rw [← Complex.exp_add]; congr 1; ring

/-- `R₄` in stage form: `A = e^{z/2} + (w/2)ψ`, `B = e^{z/2} + (w/2)ψ A`,
    `C = e^{z/2} A + (w/2)ψ(2B − 1)`, `R₄ = e^z + wα + 2wβ(A + B) + wγ C` -/
theorem R4_eq_stages (z w : ℂ) :
    let A := Complex.exp (z / 2) + w / 2 * phi1e (z / 2)
    let B := Complex.exp (z / 2) + w / 2 * phi1e (z / 2) * A
    let C := Complex.exp (z / 2) * A + w / 2 * phi1e (z / 2) * (2 * B - 1)
    R4 z w = Complex.exp z + w * wA z + 2 * w * wB z * (A + B) + w * wC z * C := by
  intro A B C
  have h := exp_half_sq z
  simp only [R4, A, B, C]
  linear_combination (-(w * wC z)) * h

/-- **T1, ETDRK1** (`z = λ dt` in the application; any `z, dt, μ, u ∈ ℂ`) -/
theorem cm1_linear (z dt μ u : ℂ) :
    cm1 (Complex.exp z) (dt * phi1e z) (fun v => μ * v) u = R1 z (μ * dt) * u := by
  simp only [cm1, R1]; ring

/-- **T1, ETDRK2** -/
theorem cm2_linear (z dt μ u : ℂ) :
    cm2 (Complex.exp z) (dt * phi1e z) (dt * phi2e z) (fun v => μ * v) u = R2 z (μ * dt) * u := by
  simp only [cm2, R2]; ring

/-- **T1, ETDRK3** -/
theorem cm3_linear (z dt μ u : ℂ) :
    cm3 (Complex.exp z) (Complex.exp (z / 2)) (dt * (phi1e (z / 2) / 2)) (dt * phi1e z)
      (dt * (phi1e z - 3 * phi2e z + 4 * phi3e z)) (dt * (4 * phi2e z - 8 * phi3e z))
      (dt * (4 * phi3e z - phi2e z)) (fun v => μ * v) u = R3 z (μ * dt) * u := by
  simp only [cm3, R3, wA, wB, wC, lit_eq]; push_cast; ring

/-- **T1, ETDRK4** -/
theorem cm4_linear (z dt μ u : ℂ) :
    cm4 (Complex.exp z) (Complex.exp (z / 2)) (dt * (phi1e (z / 2) / 2))
      (dt * (phi1e z - 3 * phi2e z + 4 * phi3e z)) (dt * (phi2e z - 2 * phi3e z))
      (dt * (4 * phi3e z - phi2e z)) (fun v => μ * v) u = R4 z (μ * dt) * u := by
  have h := exp_half_sq z
  simp only [cm4, R4, wA, wB, wC, lit_eq]; push_cast
  linear_combination (μ * dt * (4 * phi3e z - phi2e z) * u) * h

/-- **T1 for the regenerated stage formulas** `Gen.Etdrk.E1step … E4step` with the exact coefficients -/
theorem E1step_linear (z dt μ u : ℂ) :
    E1step (Complex.exp z) (dt * phi1e z) (fun v => μ * v) u = R1 z (μ * dt) * u := by
  rw [C02_step_E1]; exact cm1_linear z dt μ u

theorem E2step_linear (z dt μ u : ℂ) :
    E2step (Complex.exp z) (dt * phi1e z) (dt * phi2e z) (fun v => μ * v) u = R2 z (μ * dt) * u := by
  rw [C02_step_E2]; exact cm2_linear z dt μ u

theorem E3step_linear (z dt μ u : ℂ) :
    E3step (Complex.exp z) (Complex.exp (z / 2)) (dt * (phi1e (z / 2) / 2)) (dt * phi1e z)
      (dt * (phi1e z - 3 * phi2e z + 4 * phi3e z)) (dt * (4 * phi2e z - 8 * phi3e z))
      (dt * (4 * phi3e z - phi2e z)) (fun v => μ * v) u = R3 z (μ * dt) * u := by
  rw [C02_step_E3]; exact cm3_linear z dt μ u

/-- ETDRK4 stores the half-step coefficient three times (`_coef_1 = _coef_2 = _coef_3`) -/
theorem E4step_linear (z dt μ u : ℂ) :
    E4step (Complex.exp z) (Complex.exp (z / 2)) (dt * (phi1e (z / 2) / 2))
      (dt * (phi1e (z / 2) / 2)) (dt * (phi1e (z / 2) / 2))
      (dt * (phi1e z - 3 * phi2e z + 4 * phi3e z)) (dt * (phi2e z - 2 * phi3e z))
      (dt * (4 * phi3e z - phi2e z)) (fun v => μ * v) u = R4 z (μ * dt) * u := by
  rw [C02_step_E4]; exact cm4_linear z dt μ u

/-! ## T2: local order

The quotients `Q_p`.  They were obtained by substituting the exact expansions
`φ_k(x) = Σ_{j<p+1−k} x^j/(k+j)! + x^{p+1−k} φ_{p+1}(x)` (`phiE_expand`) for `x = λt, λt/2, (λ+μ)t`
into `R_p(λt, μt) − e^{(λ+μ)t}`; all terms of degree `≤ p` in `t` cancel (the order conditions) and
`t^{p+1}` factors out.  The identities are checked by `ring` below. -/

/-- coefficient of `t^0` in `Q1` -/
def Q1c0 (l m a c : ℂ) : ℂ :=
   -m^2 * c - 2 * l * m * c - l^2 * c + l * m * a + l^2 * a

/-- `(R1(λt, μt) − e^{(λ+μ)t})/t^2` as a polynomial in `l = λ, m = μ, t` and the remainders
    `a = φ_2(λt)`, `c = φ_2((λ+μ)t)` -/
def Q1 (l m t a c : ℂ) : ℂ :=
  Q1c0 l m a c

/-- coefficient of `t^0` in `Q2` -/
def Q2c0 (l m a c : ℂ) : ℂ :=
   1/4 * l * m^2 + 1/4 * l^2 * m - m^3 * c - 3 * l * m^2 * c - 3 * l^2 * m * c - l^3 * c
      + l * m^2 * a + 2 * l^2 * m * a + l^3 * a

/-- coefficient of `t^1` in `Q2` -/
def Q2c1 (l m a c : ℂ) : ℂ :=
   l^2 * m^2 * a + l^3 * m * a

/-- coefficient of `t^2` in `Q2` -/
def Q2c2 (l m a c : ℂ) : ℂ :=
   l^3 * m^2 * a^2 + l^4 * m * a^2

/-- `(R2(λt, μt) − e^{(λ+μ)t})/t^3` as a polynomial in `l = λ, m = μ, t` and the remainders
    `a = φ_3(λt)`, `c = φ_3((λ+μ)t)` -/
def Q2 (l m t a c : ℂ) : ℂ :=
  Q2c0 l m a c + t * Q2c1 l m a c + t ^ 2 * Q2c2 l m a c

/-- coefficient of `t^0` in `Q3` -/
def Q3c0 (l m a b c : ℂ) : ℂ :=
   -1/24 * l * m^3 + 1/24 * l^3 * m - m^4 * c - 4 * l * m^3 * c - 6 * l^2 * m^2 * c
      - 4 * l^3 * m * c - l^4 * c + 4 * l * m^3 * a + 6 * l^2 * m^2 * a + 3 * l^3 * m * a + l^4 * a

/-- coefficient of `t^1` in `Q3` -/
def Q3c1 (l m a b c : ℂ) : ℂ :=
   -5/72 * l^2 * m^3 - 1/12 * l^3 * m^2 - 1/72 * l^4 * m + 1/24 * l^3 * m^2 * b + 1/24 * l^4 * m * b
      + 2 * l^2 * m^3 * a + 8/3 * l^3 * m^2 * a + 2/3 * l^4 * m * a

/-- coefficient of `t^2` in `Q3` -/
def Q3c2 (l m a b c : ℂ) : ℂ :=
   -13/288 * l^3 * m^3 - 13/288 * l^4 * m^2 + 1/48 * l^3 * m^3 * b + 1/16 * l^4 * m^2 * b
      + 1/24 * l^5 * m * b + 3/4 * l^3 * m^3 * a + 1/2 * l^4 * m^2 * a - 1/4 * l^5 * m * a
      - 1/2 * l^4 * m^2 * a * b - 1/2 * l^5 * m * a * b + 4 * l^4 * m^2 * a^2 + 4 * l^5 * m * a^2

/-- coefficient of `t^3` in `Q3` -/
def Q3c3 (l m a b c : ℂ) : ℂ :=
   -1/108 * l^4 * m^3 - 1/108 * l^5 * m^2 - 1/96 * l^4 * m^3 * b - 1/96 * l^5 * m^2 * b
      - 5/24 * l^4 * m^3 * a - 5/24 * l^5 * m^2 * a + 1/2 * l^4 * m^3 * a * b
      + 3/4 * l^5 * m^2 * a * b + 1/4 * l^6 * m * a * b + 4 * l^4 * m^3 * a^2 + 3 * l^5 * m^2 * a^2
      - l^6 * m * a^2

/-- coefficient of `t^4` in `Q3` -/
def Q3c4 (l m a b c : ℂ) : ℂ :=
   -1/864 * l^5 * m^3 - 1/864 * l^6 * m^2 - 1/144 * l^5 * m^3 * b - 1/144 * l^6 * m^2 * b
      - 5/72 * l^5 * m^3 * a - 5/72 * l^6 * m^2 * a + 1/8 * l^5 * m^3 * a * b
      + 1/8 * l^6 * m^2 * a * b

/-- coefficient of `t^5` in `Q3` -/
def Q3c5 (l m a b c : ℂ) : ℂ :=
   -1/288 * l^6 * m^3 * b - 1/288 * l^7 * m^2 * b - 1/72 * l^6 * m^3 * a - 1/72 * l^7 * m^2 * a
      + 1/24 * l^6 * m^3 * a * b + 1/24 * l^7 * m^2 * a * b - 1/12 * l^6 * m^3 * a^2
      - 1/12 * l^7 * m^2 * a^2

/-- coefficient of `t^6` in `Q3` -/
def Q3c6 (l m a b c : ℂ) : ℂ :=
   -1/24 * l^7 * m^3 * a * b - 1/24 * l^8 * m^2 * a * b - 1/24 * l^7 * m^3 * a^2
      - 1/24 * l^8 * m^2 * a^2 + 1/2 * l^7 * m^3 * a^2 * b + 1/2 * l^8 * m^2 * a^2 * b

/-- coefficient of `t^7` in `Q3` -/
def Q3c7 (l m a b c : ℂ) : ℂ :=
   -1/8 * l^8 * m^3 * a^2 * b - 1/8 * l^9 * m^2 * a^2 * b

/-- `(R3(λt, μt) − e^{(λ+μ)t})/t^4` as a polynomial in `l = λ, m = μ, t` and the remainders
    `a = φ_4(λt)`, `b = φ_4(λt/2)`, `c = φ_4((λ+μ)t)` -/
def Q3 (l m t a b c : ℂ) : ℂ :=
  Q3c0 l m a b c + t * Q3c1 l m a b c + t ^ 2 * Q3c2 l m a b c + t ^ 3 * Q3c3 l m a b c + t ^ 4 * Q3c4 l m a b c + t ^ 5 * Q3c5 l m a b c + t ^ 6 * Q3c6 l m a b c + t ^ 7 * Q3c7 l m a b c

/-- coefficient of `t^0` in `Q4` -/
def Q4c0 (l m a b c : ℂ) : ℂ :=
   1/32 * l * m^4 + 11/144 * l^2 * m^3 + 35/576 * l^3 * m^2 + 1/64 * l^4 * m - m^5 * c
      - 5 * l * m^4 * c - 10 * l^2 * m^3 * c - 10 * l^3 * m^2 * c - 5 * l^4 * m * c - l^5 * c
      + l^2 * m^3 * a + 3 * l^3 * m^2 * a + 3 * l^4 * m * a + l^5 * a

/-- coefficient of `t^1` in `Q4` -/
def Q4c1 (l m a b c : ℂ) : ℂ :=
   1/384 * l^2 * m^4 + 1/72 * l^3 * m^3 + 23/2304 * l^4 * m^2 - 1/384 * l^5 * m
      + 1/32 * l^4 * m^2 * b + 1/48 * l^5 * m * b + l^2 * m^4 * a + 3/2 * l^3 * m^3 * a
      + l^4 * m^2 * a + 2/3 * l^5 * m * a

/-- coefficient of `t^2` in `Q4` -/
def Q4c2 (l m a b c : ℂ) : ℂ :=
   -1/256 * l^3 * m^4 - 13/6912 * l^4 * m^3 + 25/27648 * l^5 * m^2 - 1/768 * l^6 * m
      + 1/48 * l^4 * m^3 * b + 7/192 * l^5 * m^2 * b + 1/96 * l^6 * m * b + 1/2 * l^3 * m^4 * a
      + 31/48 * l^4 * m^3 * a + 5/24 * l^5 * m^2 * a + 1/16 * l^6 * m * a

/-- coefficient of `t^3` in `Q4` -/
def Q4c3 (l m a b c : ℂ) : ℂ :=
   -11/4608 * l^4 * m^4 - 59/27648 * l^5 * m^3 - 1/18432 * l^6 * m^2 + 1/128 * l^4 * m^4 * b
      + 7/384 * l^5 * m^3 * b + 11/768 * l^6 * m^2 * b + 1/192 * l^7 * m * b + 1/8 * l^4 * m^4 * a
      + 5/32 * l^5 * m^3 * a + 1/32 * l^6 * m^2 * a - 7/96 * l^7 * m * a - 1/4 * l^7 * m * a * b
      + 4 * l^7 * m * a^2

/-- coefficient of `t^4` in `Q4` -/
def Q4c4 (l m a b c : ℂ) : ℂ :=
   -61/73728 * l^5 * m^4 - 89/110592 * l^6 * m^3 - 19/884736 * l^7 * m^2 + 1/256 * l^5 * m^4 * b
      + 7/1152 * l^6 * m^3 * b + 5/4608 * l^7 * m^2 * b + 1/64 * l^5 * m^4 * a
      + 23/1152 * l^6 * m^3 * a + 1/1152 * l^7 * m^2 * a + 1/8 * l^6 * m^3 * a * b
      + 5/16 * l^7 * m^2 * a * b + 1/8 * l^8 * m * a * b - l^8 * m * a^2

/-- coefficient of `t^5` in `Q4` -/
def Q4c5 (l m a b c : ℂ) : ℂ :=
   -523/2654208 * l^6 * m^4 - 65/331776 * l^7 * m^3 - 1/294912 * l^8 * m^2 - 5/6144 * l^6 * m^4 * b
      - 1/2048 * l^7 * m^3 * b + 1/36864 * l^8 * m^2 * b - 1/384 * l^6 * m^4 * a
      - 5/2304 * l^7 * m^3 * a - 1/4608 * l^8 * m^2 * a + 3/16 * l^6 * m^4 * a * b
      + 7/32 * l^7 * m^3 * a * b + 1/32 * l^8 * m^2 * a * b

/-- coefficient of `t^6` in `Q4` -/
def Q4c6 (l m a b c : ℂ) : ℂ :=
   -125/3538944 * l^7 * m^4 - 125/3538944 * l^8 * m^3 - 1/3538944 * l^9 * m^2
      - 3/4096 * l^7 * m^4 * b - 13/18432 * l^8 * m^3 * b - 1/36864 * l^9 * m^2 * b
      + 1/1536 * l^8 * m^3 * b^2 + 5/6144 * l^9 * m^2 * b^2 - 5/3072 * l^7 * m^4 * a
      - 59/36864 * l^8 * m^3 * a - 1/18432 * l^9 * m^2 * a + 3/64 * l^7 * m^4 * a * b
      + 5/96 * l^8 * m^3 * a * b + 1/384 * l^9 * m^2 * a * b

/-- coefficient of `t^7` in `Q4` -/
def Q4c7 (l m a b c : ℂ) : ℂ :=
   -103/21233664 * l^8 * m^4 - 103/21233664 * l^9 * m^3 - 37/147456 * l^8 * m^4 * b
      - 37/147456 * l^9 * m^3 * b - 1/147456 * l^10 * m^2 * b + 1/2048 * l^8 * m^4 * b^2
      + 1/1536 * l^9 * m^3 * b^2 + 1/6144 * l^10 * m^2 * b^2 - 23/55296 * l^8 * m^4 * a
      - 23/55296 * l^9 * m^3 * a - 1/147456 * l^10 * m^2 * a + 1/256 * l^8 * m^4 * a * b
      + 7/1536 * l^9 * m^3 * a * b

/-- coefficient of `t^8` in `Q4` -/
def Q4c8 (l m a b c : ℂ) : ℂ :=
   -83/169869312 * l^9 * m^4 - 83/169869312 * l^10 * m^3 - 17/294912 * l^9 * m^4 * b
      - 17/294912 * l^10 * m^3 * b + 1/8192 * l^9 * m^4 * b^2 + 1/8192 * l^10 * m^3 * b^2
      - 1/24576 * l^11 * m^2 * b^2 - 1/13824 * l^9 * m^4 * a - 1/13824 * l^10 * m^3 * a
      - 1/1024 * l^9 * m^4 * a * b - 1/1024 * l^10 * m^3 * a * b - 1/6144 * l^11 * m^2 * a * b
      + 1/256 * l^10 * m^3 * a * b^2 + 1/128 * l^11 * m^2 * a * b^2

/-- coefficient of `t^9` in `Q4` -/
def Q4c9 (l m a b c : ℂ) : ℂ :=
   -1/28311552 * l^10 * m^4 - 1/28311552 * l^11 * m^3 - 13/1572864 * l^10 * m^4 * b
      - 13/1572864 * l^11 * m^3 * b - 5/49152 * l^10 * m^4 * b^2 - 5/49152 * l^11 * m^3 * b^2
      - 5/589824 * l^10 * m^4 * a - 5/589824 * l^11 * m^3 * a - 1/1536 * l^10 * m^4 * a * b
      - 1/1536 * l^11 * m^3 * a * b + 3/256 * l^10 * m^4 * a * b^2 + 3/256 * l^11 * m^3 * a * b^2
      - 1/1024 * l^12 * m^2 * a * b^2

/-- coefficient of `t^10` in `Q4` -/
def Q4c10 (l m a b c : ℂ) : ℂ :=
   -1/679477248 * l^11 * m^4 - 1/679477248 * l^12 * m^3 - 1/1179648 * l^11 * m^4 * b
      - 1/1179648 * l^12 * m^3 * b - 11/393216 * l^11 * m^4 * b^2 - 11/393216 * l^12 * m^3 * b^2
      - 5/7077888 * l^11 * m^4 * a - 5/7077888 * l^12 * m^3 * a - 1/8192 * l^11 * m^4 * a * b
      - 1/8192 * l^12 * m^3 * a * b

/-- coefficient of `t^11` in `Q4` -/
def Q4c11 (l m a b c : ℂ) : ℂ :=
   -1/18874368 * l^12 * m^4 * b - 1/18874368 * l^13 * m^3 * b - 1/196608 * l^12 * m^4 * b^2
      - 1/196608 * l^13 * m^3 * b^2 + 1/98304 * l^12 * m^4 * b^3 + 1/98304 * l^13 * m^3 * b^3
      - 1/28311552 * l^12 * m^4 * a - 1/28311552 * l^13 * m^3 * a - 1/65536 * l^12 * m^4 * a * b
      - 1/65536 * l^13 * m^3 * a * b - 1/4096 * l^12 * m^4 * a * b^2 - 1/4096 * l^13 * m^3 * a * b^2

/-- coefficient of `t^12` in `Q4` -/
def Q4c12 (l m a b c : ℂ) : ℂ :=
   -1/1572864 * l^13 * m^4 * b^2 - 1/1572864 * l^14 * m^3 * b^2 - 1/786432 * l^13 * m^4 * a * b
      - 1/786432 * l^14 * m^3 * a * b - 1/16384 * l^13 * m^4 * a * b^2
      - 1/16384 * l^14 * m^3 * a * b^2

/-- coefficient of `t^13` in `Q4` -/
def Q4c13 (l m a b c : ℂ) : ℂ :=
   -1/393216 * l^14 * m^4 * b^3 - 1/393216 * l^15 * m^3 * b^3 - 1/65536 * l^14 * m^4 * a * b^2
      - 1/65536 * l^15 * m^3 * a * b^2 + 1/4096 * l^14 * m^4 * a * b^3
      + 1/4096 * l^15 * m^3 * a * b^3

/-- coefficient of `t^14` in `Q4` -/
def Q4c14 (l m a b c : ℂ) : ℂ :=
   -1/16384 * l^15 * m^4 * a * b^3 - 1/16384 * l^16 * m^3 * a * b^3

/-- `(R4(λt, μt) − e^{(λ+μ)t})/t^5` as a polynomial in `l = λ, m = μ, t` and the remainders
    `a = φ_5(λt)`, `b = φ_5(λt/2)`, `c = φ_5((λ+μ)t)` -/
def Q4 (l m t a b c : ℂ) : ℂ :=
  Q4c0 l m a b c + t * Q4c1 l m a b c + t ^ 2 * Q4c2 l m a b c + t ^ 3 * Q4c3 l m a b c + t ^ 4 * Q4c4 l m a b c + t ^ 5 * Q4c5 l m a b c + t ^ 6 * Q4c6 l m a b c + t ^ 7 * Q4c7 l m a b c + t ^ 8 * Q4c8 l m a b c + t ^ 9 * Q4c9 l m a b c + t ^ 10 * Q4c10 l m a b c + t ^ 11 * Q4c11 l m a b c + t ^ 12 * Q4c12 l m a b c + t ^ 13 * Q4c13 l m a b c + t ^ 14 * Q4c14 l m a b c

/-! ### expansions with exact remainder, specialised from `phiE_expand` -/

theorem exp_expand (n : ℕ) (x : ℂ) :
    Complex.exp x = (∑ j ∈ Finset.range n, x ^ j / ((0 + j).factorial : ℂ)) + x ^ n * phiE (0 + n) x :=
  phiE_expand 0 n x

theorem phi1e_expand (n : ℕ) (x : ℂ) :
    phi1e x = (∑ j ∈ Finset.range n, x ^ j / ((1 + j).factorial : ℂ)) + x ^ n * phiE (1 + n) x := by
  rw [← phiE_one]; exact phiE_expand 1 n x

theorem phi2e_expand (n : ℕ) (x : ℂ) :
    phi2e x = (∑ j ∈ Finset.range n, x ^ j / ((2 + j).factorial : ℂ)) + x ^ n * phiE (2 + n) x := by
  rw [← phiE_two]; exact phiE_expand 2 n x

theorem phi3e_expand (n : ℕ) (x : ℂ) :
    phi3e x = (∑ j ∈ Finset.range n, x ^ j / ((3 + j).factorial : ℂ)) + x ^ n * phiE (3 + n) x := by
  rw [← phiE_three]; exact phiE_expand 3 n x


/-! ### order 1 -/

/-- **the local error of ETDRK1 on the linear test family, exactly**:
    `R1(λt, μt) − e^{(λ+μ)t} = t^2 · Q1(…)` for ALL `λ, μ, t ∈ ℂ` -/
theorem R1_sub_exp (l m t : ℂ) :
    R1 (l * t) (m * t) - Complex.exp ((l + m) * t)
      = t ^ 2 * Q1 l m t (phiE 2 (l * t)) (phiE 2 ((l + m) * t)) := by
  have hE : Complex.exp (l * t) = 1 + (l * t) + (l * t) ^ 2 * phiE 2 (l * t) := by
    rw [exp_expand 2]; norm_num [Finset.sum_range_succ, Nat.factorial]
  have hs : Complex.exp ((l + m) * t) = 1 + ((l + m) * t) + ((l + m) * t) ^ 2 * phiE 2 ((l + m) * t) := by
    rw [exp_expand 2]; norm_num [Finset.sum_range_succ, Nat.factorial]
  have h1 : phi1e (l * t) = 1 + (l * t) * phiE 2 (l * t) := by
    rw [phi1e_expand 1]; norm_num [Finset.sum_range_succ, Nat.factorial]
  simp only [R1]
  rw [hE, hs, h1]
  generalize phiE 2 (l * t) = a
  generalize phiE 2 ((l + m) * t) = c
  unfold Q1 Q1c0
  ring1

/-! ### order 2 -/

/-- **the local error of ETDRK2 on the linear test family, exactly**:
    `R2(λt, μt) − e^{(λ+μ)t} = t^3 · Q2(…)` for ALL `λ, μ, t ∈ ℂ` -/
theorem R2_sub_exp (l m t : ℂ) :
    R2 (l * t) (m * t) - Complex.exp ((l + m) * t)
      = t ^ 3 * Q2 l m t (phiE 3 (l * t)) (phiE 3 ((l + m) * t)) := by
  have hE : Complex.exp (l * t) = 1 + (l * t) + (l * t) ^ 2 / 2 + (l * t) ^ 3 * phiE 3 (l * t) := by
    rw [exp_expand 3]; norm_num [Finset.sum_range_succ, Nat.factorial]
  have hs : Complex.exp ((l + m) * t) = 1 + ((l + m) * t) + ((l + m) * t) ^ 2 / 2 + ((l + m) * t) ^ 3 * phiE 3 ((l + m) * t) := by
    rw [exp_expand 3]; norm_num [Finset.sum_range_succ, Nat.factorial]
  have h1 : phi1e (l * t) = 1 + (l * t) / 2 + (l * t) ^ 2 * phiE 3 (l * t) := by
    rw [phi1e_expand 2]; norm_num [Finset.sum_range_succ, Nat.factorial]
  have h2 : phi2e (l * t) = 1 / 2 + (l * t) * phiE 3 (l * t) := by
    rw [phi2e_expand 1]; norm_num [Finset.sum_range_succ, Nat.factorial]
  simp only [R2]
  rw [hE, hs, h1, h2]
  generalize phiE 3 (l * t) = a
  generalize phiE 3 ((l + m) * t) = c
  unfold Q2 Q2c0 Q2c1 Q2c2
  ring1

/-! ### order 3 -/

/-- **the local error of ETDRK3 on the linear test family, exactly**:
    `R3(λt, μt) − e^{(λ+μ)t} = t^4 · Q3(…)` for ALL `λ, μ, t ∈ ℂ` -/
theorem R3_sub_exp (l m t : ℂ) :
    R3 (l * t) (m * t) - Complex.exp ((l + m) * t)
      = t ^ 4 * Q3 l m t (phiE 4 (l * t)) (phiE 4 (l * t / 2)) (phiE 4 ((l + m) * t)) := by
  have hE : Complex.exp (l * t) = 1 + (l * t) + (l * t) ^ 2 / 2 + (l * t) ^ 3 / 6 + (l * t) ^ 4 * phiE 4 (l * t) := by
    rw [exp_expand 4]; norm_num [Finset.sum_range_succ, Nat.factorial]
  have hs : Complex.exp ((l + m) * t) = 1 + ((l + m) * t) + ((l + m) * t) ^ 2 / 2 + ((l + m) * t) ^ 3 / 6 + ((l + m) * t) ^ 4 * phiE 4 ((l + m) * t) := by
    rw [exp_expand 4]; norm_num [Finset.sum_range_succ, Nat.factorial]
  have h1 : phi1e (l * t) = 1 + (l * t) / 2 + (l * t) ^ 2 / 6 + (l * t) ^ 3 * phiE 4 (l * t) := by
    rw [phi1e_expand 3]; norm_num [Finset.sum_range_succ, Nat.factorial]
  have h2 : phi2e (l * t) = 1 / 2 + (l * t) / 6 + (l * t) ^ 2 * phiE 4 (l * t) := by
    rw [phi2e_expand 2]; norm_num [Finset.sum_range_succ, Nat.factorial]
  have h3 : phi3e (l * t) = 1 / 6 + (l * t) * phiE 4 (l * t) := by
    rw [phi3e_expand 1]; norm_num [Finset.sum_range_succ, Nat.factorial]
  have hEh : Complex.exp (l * t / 2) = 1 + (l * t / 2) + (l * t / 2) ^ 2 / 2 + (l * t / 2) ^ 3 / 6 + (l * t / 2) ^ 4 * phiE 4 (l * t / 2) := by
    rw [exp_expand 4]; norm_num [Finset.sum_range_succ, Nat.factorial]
  have h1h : phi1e (l * t / 2) = 1 + (l * t / 2) / 2 + (l * t / 2) ^ 2 / 6 + (l * t / 2) ^ 3 * phiE 4 (l * t / 2) := by
    rw [phi1e_expand 3]; norm_num [Finset.sum_range_succ, Nat.factorial]
  simp only [R3, wA, wB, wC]
  rw [hE, hs, h1, h2, h3, hEh, h1h]
  generalize phiE 4 (l * t) = a
  generalize phiE 4 (l * t / 2) = b
  generalize phiE 4 ((l + m) * t) = c
  unfold Q3 Q3c0 Q3c1 Q3c2 Q3c3 Q3c4 Q3c5 Q3c6 Q3c7
  ring1

/-! ### order 4 -/

set_option maxRecDepth 8000 in
/-- **the local error of ETDRK4 on the linear test family, exactly**:
    `R4(λt, μt) − e^{(λ+μ)t} = t^5 · Q4(…)` for ALL `λ, μ, t ∈ ℂ` -/
theorem R4_sub_exp (l m t : ℂ) :
    R4 (l * t) (m * t) - Complex.exp ((l + m) * t)
      = t ^ 5 * Q4 l m t (phiE 5 (l * t)) (phiE 5 (l * t / 2)) (phiE 5 ((l + m) * t)) := by
  have hE : Complex.exp (l * t) = 1 + (l * t) + (l * t) ^ 2 / 2 + (l * t) ^ 3 / 6 + (l * t) ^ 4 / 24 + (l * t) ^ 5 * phiE 5 (l * t) := by
    rw [exp_expand 5]; norm_num [Finset.sum_range_succ, Nat.factorial]
  have hs : Complex.exp ((l + m) * t) = 1 + ((l + m) * t) + ((l + m) * t) ^ 2 / 2 + ((l + m) * t) ^ 3 / 6 + ((l + m) * t) ^ 4 / 24 + ((l + m) * t) ^ 5 * phiE 5 ((l + m) * t) := by
    rw [exp_expand 5]; norm_num [Finset.sum_range_succ, Nat.factorial]
  have h1 : phi1e (l * t) = 1 + (l * t) / 2 + (l * t) ^ 2 / 6 + (l * t) ^ 3 / 24 + (l * t) ^ 4 * phiE 5 (l * t) := by
    rw [phi1e_expand 4]; norm_num [Finset.sum_range_succ, Nat.factorial]
  have h2 : phi2e (l * t) = 1 / 2 + (l * t) / 6 + (l * t) ^ 2 / 24 + (l * t) ^ 3 * phiE 5 (l * t) := by
    rw [phi2e_expand 3]; norm_num [Finset.sum_range_succ, Nat.factorial]
  have h3 : phi3e (l * t) = 1 / 6 + (l * t) / 24 + (l * t) ^ 2 * phiE 5 (l * t) := by
    rw [phi3e_expand 2]; norm_num [Finset.sum_range_succ, Nat.factorial]
  have hEh : Complex.exp (l * t / 2) = 1 + (l * t / 2) + (l * t / 2) ^ 2 / 2 + (l * t / 2) ^ 3 / 6 + (l * t / 2) ^ 4 / 24 + (l * t / 2) ^ 5 * phiE 5 (l * t / 2) := by
    rw [exp_expand 5]; norm_num [Finset.sum_range_succ, Nat.factorial]
  have h1h : phi1e (l * t / 2) = 1 + (l * t / 2) / 2 + (l * t / 2) ^ 2 / 6 + (l * t / 2) ^ 3 / 24 + (l * t / 2) ^ 4 * phiE 5 (l * t / 2) := by
    rw [phi1e_expand 4]; norm_num [Finset.sum_range_succ, Nat.factorial]
  simp only [R4, wA, wB, wC]
  rw [hE, hs, h1, h2, h3, hEh, h1h]
  generalize phiE 5 (l * t) = a
  generalize phiE 5 (l * t / 2) = b
  generalize phiE 5 ((l + m) * t) = c
  unfold Q4 Q4c0 Q4c1 Q4c2 Q4c3 Q4c4 Q4c5 Q4c6 Q4c7 Q4c8 Q4c9 Q4c10 Q4c11 Q4c12 Q4c13 Q4c14
  ring1
/-! ## T2: from `g = tⁿ·Q` with `Q` continuous to `‖g‖ ≤ C tⁿ` on `[0,T]` -/

theorem exists_bound_of_eq_pow_mul (g Q : ℝ → ℂ) (n : ℕ) (hQ : Continuous Q)
    (h : ∀ t : ℝ, g t = (t : ℂ) ^ n * Q t) (T : ℝ) :
    ∃ C : ℝ, 0 ≤ C ∧ ∀ t : ℝ, 0 ≤ t → t ≤ T → ‖g t‖ ≤ C * t ^ n := by
  obtain ⟨C, hC⟩ := isCompact_Icc.exists_bound_of_continuousOn
    (hQ.continuousOn (s := Set.Icc (0 : ℝ) T))
  refine ⟨max C 0, le_max_right _ _, fun t h0 hT => ?_⟩
  rw [h t, norm_mul, norm_pow, Complex.norm_real, Real.norm_eq_abs, abs_of_nonneg h0, mul_comm]
  exact mul_le_mul_of_nonneg_right ((hC t ⟨h0, hT⟩).trans (le_max_left _ _)) (pow_nonneg h0 n)

theorem continuous_Q1_poly (l m : ℂ) :
    Continuous fun p : ℂ × ℂ × ℂ => Q1 l m p.1 p.2.1 p.2.2 := by
  unfold Q1 Q1c0
  fun_prop

/-- the quotient `Q1` along the real ray `t ↦ (λt, μt)` is continuous -/
theorem continuous_Q1 (l m : ℂ) :
    Continuous fun t : ℝ => Q1 l m t (phiE 2 (l * (t : ℂ))) (phiE 2 ((l + m) * (t : ℂ))) := by
  have hc : ∀ x : ℂ, Continuous fun t : ℝ => phiE 2 (x * (t : ℂ)) := fun x =>
    (continuous_phiE 2).comp (by fun_prop)
  have hh : Continuous fun t : ℝ => phiE 2 (l * (t : ℂ) / 2) :=
    (continuous_phiE 2).comp (by fun_prop)
  have ht : Continuous fun t : ℝ => ((t : ℂ), phiE 2 (l * (t : ℂ)), phiE 2 ((l + m) * (t : ℂ))) :=
    Complex.continuous_ofReal.prodMk ((hc l).prodMk (hc (l + m)))
  have h := (continuous_Q1_poly l m).comp ht
  exact h

/-- **T2, ETDRK1: local error `O(t^2)`** on the linear test family, for all `λ, μ ∈ ℂ` (also `λ = 0`)
    and every `T`; `C` depends only on `λ, μ, T` -/
theorem R1_local_order (l m : ℂ) (T : ℝ) :
    ∃ C : ℝ, 0 ≤ C ∧ ∀ t : ℝ, 0 ≤ t → t ≤ T →
      ‖R1 (l * t) (m * t) - Complex.exp ((l + m) * t)‖ ≤ C * t ^ 2 :=
  exists_bound_of_eq_pow_mul _ _ 2 (continuous_Q1 l m) (fun t => R1_sub_exp l m t) T

theorem continuous_Q2_poly (l m : ℂ) :
    Continuous fun p : ℂ × ℂ × ℂ => Q2 l m p.1 p.2.1 p.2.2 := by
  unfold Q2 Q2c0 Q2c1 Q2c2
  fun_prop

/-- the quotient `Q2` along the real ray `t ↦ (λt, μt)` is continuous -/
theorem continuous_Q2 (l m : ℂ) :
    Continuous fun t : ℝ => Q2 l m t (phiE 3 (l * (t : ℂ))) (phiE 3 ((l + m) * (t : ℂ))) := by
  have hc : ∀ x : ℂ, Continuous fun t : ℝ => phiE 3 (x * (t : ℂ)) := fun x =>
    (continuous_phiE 3).comp (by fun_prop)
  have hh : Continuous fun t : ℝ => phiE 3 (l * (t : ℂ) / 2) :=
    (continuous_phiE 3).comp (by fun_prop)
  have ht : Continuous fun t : ℝ => ((t : ℂ), phiE 3 (l * (t : ℂ)), phiE 3 ((l + m) * (t : ℂ))) :=
    Complex.continuous_ofReal.prodMk ((hc l).prodMk (hc (l + m)))
  have h := (continuous_Q2_poly l m).comp ht
  exact h

/-- **T2, ETDRK2: local error `O(t^3)`** on the linear test family, for all `λ, μ ∈ ℂ` (also `λ = 0`)
    and every `T`; `C` depends only on `λ, μ, T` -/
theorem R2_local_order (l m : ℂ) (T : ℝ) :
    ∃ C : ℝ, 0 ≤ C ∧ ∀ t : ℝ, 0 ≤ t → t ≤ T →
      ‖R2 (l * t) (m * t) - Complex.exp ((l + m) * t)‖ ≤ C * t ^ 3 :=
  exists_bound_of_eq_pow_mul _ _ 3 (continuous_Q2 l m) (fun t => R2_sub_exp l m t) T

theorem continuous_Q3_poly (l m : ℂ) :
    Continuous fun p : ℂ × ℂ × ℂ × ℂ => Q3 l m p.1 p.2.1 p.2.2.1 p.2.2.2 := by
  unfold Q3 Q3c0 Q3c1 Q3c2 Q3c3 Q3c4 Q3c5 Q3c6 Q3c7
  fun_prop

/-- the quotient `Q3` along the real ray `t ↦ (λt, μt)` is continuous -/
theorem continuous_Q3 (l m : ℂ) :
    Continuous fun t : ℝ => Q3 l m t (phiE 4 (l * (t : ℂ))) (phiE 4 (l * (t : ℂ) / 2)) (phiE 4 ((l + m) * (t : ℂ))) := by
  have hc : ∀ x : ℂ, Continuous fun t : ℝ => phiE 4 (x * (t : ℂ)) := fun x =>
    (continuous_phiE 4).comp (by fun_prop)
  have hh : Continuous fun t : ℝ => phiE 4 (l * (t : ℂ) / 2) :=
    (continuous_phiE 4).comp (by fun_prop)
  have ht : Continuous fun t : ℝ => ((t : ℂ), phiE 4 (l * (t : ℂ)), phiE 4 (l * (t : ℂ) / 2), phiE 4 ((l + m) * (t : ℂ))) :=
    Complex.continuous_ofReal.prodMk ((hc l).prodMk (hh.prodMk (hc (l + m))))
  have h := (continuous_Q3_poly l m).comp ht
  exact h

/-- **T2, ETDRK3: local error `O(t^4)`** on the linear test family, for all `λ, μ ∈ ℂ` (also `λ = 0`)
    and every `T`; `C` depends only on `λ, μ, T` -/
theorem R3_local_order (l m : ℂ) (T : ℝ) :
    ∃ C : ℝ, 0 ≤ C ∧ ∀ t : ℝ, 0 ≤ t → t ≤ T →
      ‖R3 (l * t) (m * t) - Complex.exp ((l + m) * t)‖ ≤ C * t ^ 4 :=
  exists_bound_of_eq_pow_mul _ _ 4 (continuous_Q3 l m) (fun t => R3_sub_exp l m t) T

theorem continuous_Q4_poly (l m : ℂ) :
    Continuous fun p : ℂ × ℂ × ℂ × ℂ => Q4 l m p.1 p.2.1 p.2.2.1 p.2.2.2 := by
  unfold Q4 Q4c0 Q4c1 Q4c2 Q4c3 Q4c4 Q4c5 Q4c6 Q4c7 Q4c8 Q4c9 Q4c10 Q4c11 Q4c12 Q4c13 Q4c14
  fun_prop

/-- the quotient `Q4` along the real ray `t ↦ (λt, μt)` is continuous -/
theorem continuous_Q4 (l m : ℂ) :
    Continuous fun t : ℝ => Q4 l m t (phiE 5 (l * (t : ℂ))) (phiE 5 (l * (t : ℂ) / 2)) (phiE 5 ((l + m) * (t : ℂ))) := by
  have hc : ∀ x : ℂ, Continuous fun t : ℝ => phiE 5 (x * (t : ℂ)) := fun x =>
    (continuous_phiE 5).comp (by fun_prop)
  have hh : Continuous fun t : ℝ => phiE 5 (l * (t : ℂ) / 2) :=
    (continuous_phiE 5).comp (by fun_prop)
  have ht : Continuous fun t : ℝ => ((t : ℂ), phiE 5 (l * (t : ℂ)), phiE 5 (l * (t : ℂ) / 2), phiE 5 ((l + m) * (t : ℂ))) :=
    Complex.continuous_ofReal.prodMk ((hc l).prodMk (hh.prodMk (hc (l + m))))
  have h := (continuous_Q4_poly l m).comp ht
  exact h

/-- **T2, ETDRK4: local error `O(t^5)`** on the linear test family, for all `λ, μ ∈ ℂ` (also `λ = 0`)
    and every `T`; `C` depends only on `λ, μ, T` -/
theorem R4_local_order (l m : ℂ) (T : ℝ) :
    ∃ C : ℝ, 0 ≤ C ∧ ∀ t : ℝ, 0 ≤ t → t ≤ T →
      ‖R4 (l * t) (m * t) - Complex.exp ((l + m) * t)‖ ≤ C * t ^ 5 :=
  exists_bound_of_eq_pow_mul _ _ 5 (continuous_Q4 l m) (fun t => R4_sub_exp l m t) T

/-! ### sanity: classical limits of the amplification factors -/

/-- for `λ = 0` (no linear part) ETDRK`p` is a classical explicit `p`-stage Runge–Kutta method of order `p`:
    its amplification factor is the degree-`p` Taylor polynomial of `e^w` -/
theorem R_at_zero (w : ℂ) :
    R1 0 w = 1 + w ∧ R2 0 w = 1 + w + w ^ 2 / 2 ∧ R3 0 w = 1 + w + w ^ 2 / 2 + w ^ 3 / 6 ∧
    R4 0 w = 1 + w + w ^ 2 / 2 + w ^ 3 / 6 + w ^ 4 / 24 := by
  refine ⟨?_, ?_, ?_, ?_⟩
  · simp only [R1, Complex.exp_zero, phi1e_zero]; ring
  · simp only [R2, Complex.exp_zero, phi1e_zero, phi2e_zero]; ring
  · simp only [R3, wA, wB, wC, zero_div, Complex.exp_zero, phi1e_zero, phi2e_zero, phi3e_zero]; ring
  · simp only [R4, wA, wB, wC, zero_div, Complex.exp_zero, phi1e_zero, phi2e_zero, phi3e_zero]; ring

/-- for `μ = 0` (no nonlinearity) every ETDRK`p` is exact: `R_p(z, 0) = e^z` -/
theorem R_no_nonlinearity (z : ℂ) :
    R1 z 0 = Complex.exp z ∧ R2 z 0 = Complex.exp z ∧ R3 z 0 = Complex.exp z ∧
    R4 z 0 = Complex.exp z := by
  refine ⟨?_, ?_, ?_, ?_⟩
  · simp only [R1]; ring
  · simp only [R2]; ring
  · simp only [R3]; ring
  · simp only [R4]; ring

/-- **T2 for the regenerated step functions**: one step of size `t` from `u` against the exact flow -/
theorem E4step_local_order (l m : ℂ) (T : ℝ) :
    ∃ C : ℝ, 0 ≤ C ∧ ∀ (t : ℝ) (u : ℂ), 0 ≤ t → t ≤ T →
      ‖E4step (Complex.exp (l * t)) (Complex.exp (l * t / 2)) (t * (phi1e (l * t / 2) / 2))
          (t * (phi1e (l * t / 2) / 2)) (t * (phi1e (l * t / 2) / 2))
          (t * (phi1e (l * t) - 3 * phi2e (l * t) + 4 * phi3e (l * t)))
          (t * (phi2e (l * t) - 2 * phi3e (l * t)))
          (t * (4 * phi3e (l * t) - phi2e (l * t))) (fun v => m * v) u
        - Complex.exp ((l + m) * t) * u‖ ≤ C * t ^ 5 * ‖u‖ := by
  obtain ⟨C, hC, h⟩ := R4_local_order l m T
  refine ⟨C, hC, fun t u h0 hT => ?_⟩
  rw [E4step_linear (l * t) t m u, ← sub_mul, norm_mul]
  exact mul_le_mul_of_nonneg_right (h t h0 hT) (norm_nonneg u)

/-- **T1 with the closed-form coefficients of `C02_constant_nonlinearity_exact`** (`Spec.phi1/2/3`, valid for
    `z ≠ 0`): the same amplification factors -/
theorem cm_linear_closed_forms (z dt μ u : ℂ) (hz : z ≠ 0) :
    cm1 (Complex.exp z) (dt * phi1 z) (fun v => μ * v) u = R1 z (μ * dt) * u ∧
    cm2 (Complex.exp z) (dt * phi1 z) (dt * phi2 z) (fun v => μ * v) u = R2 z (μ * dt) * u ∧
    cm3 (Complex.exp z) (Complex.exp (z / 2)) (dt * (phi1 (z / 2) / 2)) (dt * phi1 z)
      (dt * (phi1 z - 3 * phi2 z + 4 * phi3 z)) (dt * (4 * phi2 z - 8 * phi3 z))
      (dt * (4 * phi3 z - phi2 z)) (fun v => μ * v) u = R3 z (μ * dt) * u ∧
    cm4 (Complex.exp z) (Complex.exp (z / 2)) (dt * (phi1 (z / 2) / 2))
      (dt * (phi1 z - 3 * phi2 z + 4 * phi3 z)) (dt * (phi2 z - 2 * phi3 z))
      (dt * (4 * phi3 z - phi2 z)) (fun v => μ * v) u = R4 z (μ * dt) * u := by
  have hz2 : z / 2 ≠ 0 := div_ne_zero hz (by norm_num)
  rw [← phi1e_of_ne z hz, ← phi2e_of_ne z hz, ← phi3e_of_ne z hz, ← phi1e_of_ne (z / 2) hz2]
  exact ⟨cm1_linear z dt μ u, cm2_linear z dt μ u, cm3_linear z dt μ u, cm4_linear z dt μ u⟩

/-! ### non-vacuity -/
example : (2 : ℂ) ≠ 0 := by norm_num
/-- the hypotheses of `exists_bound_of_eq_pow_mul` are met by `g t = t²·e^t` -/
example : ∃ C : ℝ, 0 ≤ C ∧ ∀ t : ℝ, 0 ≤ t → t ≤ 1 → ‖(t : ℂ) ^ 2 * Complex.exp t‖ ≤ C * t ^ 2 :=
  exists_bound_of_eq_pow_mul (fun t : ℝ => (t : ℂ) ^ 2 * Complex.exp t) (fun t : ℝ => Complex.exp t) 2
    (by fun_prop) (fun t => rfl) 1

end Exponax.LinearOrder
end
