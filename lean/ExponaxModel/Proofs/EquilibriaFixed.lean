import ExponaxModel.Proofs.EquilibriaReaction
import ExponaxModel.Proofs.EquilibriaStoredDefect
/-
C09 / B1 + B2 together — constant equilibria as fixed points of the regenerated ETDRK steps, whole spectrum.

`constSpectrum c u₀ : ℕ → ℂ` is the mode-indexed spectrum of the constant state `u₀` (`N^D u₀` at `h = 0`, `0` elsewhere);
`Conserve.liftNl c F` is the one-channel nonlinear function `F` as a map on such spectra.

  * `liftNl_constSpectrum`            : `liftNl c F û = (F (rfftn u₀))` read entrywise
  * `polynomial_equilibrium_spectrum` : `L(0)u₀ + p(u₀) = 0 ⟹ L·û + N(û) = 0` (functions on ℕ)
  * `const_equilibrium_fixed_E{1..4}` : fixed point of every order for ANY coefficient arrays whose two scalar defects
                                        vanish AT THE MEAN MODE (nothing is asked of the other modes)
  * `const_equilibrium_fixed_exact`   : … in particular for the exact φ-coefficients at the mean mode
  * `const_equilibrium_stored_E1`     : with the STORED coefficient the ETDRK1 step moves `û` by exactly
                                        `fpDefect dt L(0) M r · N^D u₀` in the mean mode and by `0` elsewhere
  * `transport_const_fixed_stored`    : constants are fixed points of every order with ALL coefficients stored when
                                        the nonlinear term vanishes on constants and `L(0) = 0`
                                        (convection / gradient-norm / vorticity steppers), any `M`, `r`
-/
set_option linter.unusedVariables false
namespace Exponax.Equilibria
open Exponax Exponax.Layout Exponax.Transform Exponax.DFT Exponax.Gen.Etdrk Exponax.Spec Finset
open Exponax.Nonlin (Cfg MC at2 tab2 tabC modes gridSize mask nfft nifft deriv polynomial polyEval reaction
  convection gradientNorm vorticity2d)
open Exponax.Conserve (liftNl)
open Exponax.EquilibriaStored

/-- mode-indexed spectrum of the one-channel constant state `u₀` -/
noncomputable def constSpectrum (c : Cfg ℂ) (u0 : ℂ) : ℕ → ℂ := fun h => at2 (constSpec c 1 (fun _ => u0)) 0 h

theorem constSpectrum_apply (c : Cfg ℂ) (hD : 0 < c.D) (hN : 0 < c.N) (u0 : ℂ) (h : ℕ) :
    constSpectrum c u0 h = if h = 0 then ((c.N ^ c.D : ℕ) : ℂ) * u0 else 0 :=
  at2_constSpec_all c hD hN 1 _ 0 h (by norm_num)

/-- storing the spectrum as the array of its `modes c` entries gives back `rfftn` of the constant state -/
theorem lift_constSpectrum (c : Cfg ℂ) (u0 : ℂ) :
    (#[tab (modes c) (constSpectrum c u0)] : MC ℂ) = constSpec c 1 (fun _ => u0) := by
  have r1 : Array.range 1 = #[0] := rfl
  have e : constSpec c 1 (fun _ => u0) = #[rfftnM c.D c.N (tab (gridSize c) (fun _ => u0))] := by
    simp [constSpec, tabC, tab, r1]
  have e2 : tab (modes c) (constSpectrum c u0) = rfftnM c.D c.N (tab (gridSize c) (fun _ => u0)) := by
    apply ExactLinear.array_ext_getD _ _ (modes c) (by simp) (rfftnM_size _ _ _)
    intro h hh
    rw [Nonlin.tab_getD _ _ _ _ hh]
    unfold constSpectrum
    rw [e]
    simp [at2]
  rw [e, e2]

theorem liftNl_constSpectrum (c : Cfg ℂ) (F : MC ℂ → MC ℂ) (u0 : ℂ) (h : ℕ) :
    liftNl c F (constSpectrum c u0) h = at2 (F (constSpec c 1 (fun _ => u0))) 0 h := by
  unfold liftNl
  rw [lift_constSpectrum]

/-- the equilibrium condition on the whole spectrum (polynomial reaction terms) -/
theorem polynomial_equilibrium_spectrum (c : Cfg ℂ) (hD : 0 < c.D) (hN : 0 < c.N) (hm : mask c 0 = 1)
    (coeffs : List ℂ) (L : ℕ → ℂ) (u0 : ℝ) (hroot : L 0 * (u0 : ℂ) + polyEval coeffs (u0 : ℂ) = 0) (h : ℕ) :
    L h * constSpectrum c (u0 : ℂ) h + liftNl c (polynomial c 1 coeffs) (constSpectrum c (u0 : ℂ)) h = 0 := by
  rw [liftNl_constSpectrum]
  exact polynomial_equilibrium c hD hN hm 1 coeffs (fun _ => L) (fun _ => u0) (fun _ _ => hroot) 0 h (by norm_num)

/-- a defect that vanishes at the mean mode annihilates the spectrum of a constant -/
theorem defect_mul_constSpectrum (c : Cfg ℂ) (hD : 0 < c.D) (hN : 0 < c.N) (d : ℕ → ℂ) (u0 : ℂ) (hd : d 0 = 0) :
    d * constSpectrum c u0 = 0 := by
  funext h
  simp only [Pi.mul_apply, Pi.zero_apply]
  rw [constSpectrum_apply c hD hN]
  split_ifs with h0
  · rw [h0, hd, zero_mul]
  · rw [mul_zero]

section fixed
variable (c : Cfg ℂ) (hD : 0 < c.D) (hN : 0 < c.N) (L : ℕ → ℂ) (Nl : (ℕ → ℂ) → ℕ → ℂ) (u0 : ℂ)
  (heq : ∀ h, L h * constSpectrum c u0 h + Nl (constSpectrum c u0) h = 0)
include hD hN heq

/-- ETDRK1: only the defect `E(0) − 1 − L(0)a₁(0)` at the mean mode matters -/
theorem const_equilibrium_fixed_E1 (E a1 : ℕ → ℂ) (hd : E 0 - 1 - L 0 * a1 0 = 0) :
    E1step E a1 Nl (constSpectrum c u0) = constSpectrum c u0 :=
  fixed_E1step_of_defect E a1 L _ Nl (funext heq)
    (defect_mul_constSpectrum c hD hN (E - 1 - L * a1) u0 (by simpa using hd))

theorem const_equilibrium_fixed_E2 (E a1 a2 : ℕ → ℂ) (hd : E 0 - 1 - L 0 * a1 0 = 0) :
    E2step E a1 a2 Nl (constSpectrum c u0) = constSpectrum c u0 :=
  fixed_E2step_of_defect E a1 a2 L _ Nl (funext heq)
    (defect_mul_constSpectrum c hD hN (E - 1 - L * a1) u0 (by simpa using hd))

/-- ETDRK3: `a₃ + a₄ + a₅ = a₂` as arrays (true for the exact AND for the stored coefficients) -/
theorem const_equilibrium_fixed_E3 (E Eh a1 a2 a3 a4 a5 : ℕ → ℂ) (hdh : Eh 0 - 1 - L 0 * a1 0 = 0)
    (hd : E 0 - 1 - L 0 * a2 0 = 0) (hsum : a3 + a4 + a5 = a2) :
    E3step E Eh a1 a2 a3 a4 a5 Nl (constSpectrum c u0) = constSpectrum c u0 :=
  fixed_E3step_of_defect E Eh a1 a2 a3 a4 a5 L _ Nl (funext heq)
    (defect_mul_constSpectrum c hD hN (Eh - 1 - L * a1) u0 (by simpa using hdh))
    (defect_mul_constSpectrum c hD hN (E - 1 - L * a2) u0 (by simpa using hd)) hsum

theorem const_equilibrium_fixed_E4 (E Eh a1 a4 a5 a6 : ℕ → ℂ) (hdh : Eh 0 - 1 - L 0 * a1 0 = 0)
    (hd : E 0 - 1 - L 0 * (a4 0 + 4 * a5 0 + a6 0) = 0) :
    E4step E Eh a1 a1 a1 a4 a5 a6 Nl (constSpectrum c u0) = constSpectrum c u0 :=
  fixed_E4step_of_defect E Eh a1 a1 a1 a4 a5 a6 L _ Nl (funext heq) rfl rfl
    (defect_mul_constSpectrum c hD hN (Eh - 1 - L * a1) u0 (by simpa using hdh))
    (defect_mul_constSpectrum c hD hN (E - 1 - L * (a4 + 4 * a5 + a6)) u0 (by
      have : (4 : ℕ → ℂ) 0 = 4 := rfl
      simpa [this] using hd))

end fixed

/-! ### the exact φ-coefficients have vanishing defects -/

theorem exact_defects (dt lam : ℂ) (hz : dt * lam ≠ 0) :
    Complex.exp (dt * lam) - 1 - lam * (dt * phi1 (dt * lam)) = 0 ∧
    Complex.exp (dt * lam / 2) - 1 - lam * (dt * (phi1 (dt * lam / 2) / 2)) = 0 ∧
    Complex.exp (dt * lam) - 1 - lam * (dt * (phi1 (dt * lam) - 3 * phi2 (dt * lam) + 4 * phi3 (dt * lam))
      + 4 * (dt * (phi2 (dt * lam) - 2 * phi3 (dt * lam))) + dt * (4 * phi3 (dt * lam) - phi2 (dt * lam))) = 0 := by
  have hdt : dt ≠ 0 := left_ne_zero_of_mul hz
  have hl : lam ≠ 0 := right_ne_zero_of_mul hz
  refine ⟨?_, ?_, ?_⟩
  · simp only [phi1, hasExp_complex]; field_simp; ring
  · simp only [phi1, hasExp_complex]; field_simp; ring
  · have : dt * (phi1 (dt * lam) - 3 * phi2 (dt * lam) + 4 * phi3 (dt * lam))
        + 4 * (dt * (phi2 (dt * lam) - 2 * phi3 (dt * lam))) + dt * (4 * phi3 (dt * lam) - phi2 (dt * lam))
        = dt * phi1 (dt * lam) := by ring
    rw [this]
    simp only [phi1, hasExp_complex]; field_simp; ring

/-- **constant equilibria of a polynomial reaction–diffusion stepper are fixed points of ETDRK4** when the coefficient
    arrays are the exact Cox–Matthews ones AT THE MEAN MODE (arbitrary at every other mode), `dt·L(0) ≠ 0` -/
theorem const_equilibrium_fixed_exact (c : Cfg ℂ) (hD : 0 < c.D) (hN : 0 < c.N) (hm : mask c 0 = 1)
    (coeffs : List ℂ) (L : ℕ → ℂ) (u0 : ℝ) (hroot : L 0 * (u0 : ℂ) + polyEval coeffs (u0 : ℂ) = 0)
    (dt : ℂ) (hz : dt * L 0 ≠ 0) (E Eh a1 a4 a5 a6 : ℕ → ℂ)
    (hE : E 0 = Complex.exp (dt * L 0)) (hEh : Eh 0 = Complex.exp (dt * L 0 / 2))
    (h1 : a1 0 = dt * (phi1 (dt * L 0 / 2) / 2))
    (h4 : a4 0 = dt * (phi1 (dt * L 0) - 3 * phi2 (dt * L 0) + 4 * phi3 (dt * L 0)))
    (h5 : a5 0 = dt * (phi2 (dt * L 0) - 2 * phi3 (dt * L 0)))
    (h6 : a6 0 = dt * (4 * phi3 (dt * L 0) - phi2 (dt * L 0))) :
    E4step E Eh a1 a1 a1 a4 a5 a6 (liftNl c (polynomial c 1 coeffs)) (constSpectrum c (u0 : ℂ))
      = constSpectrum c (u0 : ℂ) := by
  obtain ⟨-, e2, e3⟩ := exact_defects dt (L 0) hz
  apply const_equilibrium_fixed_E4 c hD hN L _ _
    (polynomial_equilibrium_spectrum c hD hN hm coeffs L u0 hroot) E Eh a1 a4 a5 a6
  · rw [hEh, h1]; exact e2
  · rw [hE, h4, h5, h6]; exact e3

/-! ### stored coefficients -/

/-- with the STORED `E1_coef_1` the ETDRK1 step displaces a constant equilibrium by exactly
    `fpDefect dt L(0) M r · N^D u₀` in the mean mode and leaves every other mode at `0` -/
theorem const_equilibrium_stored_E1 (c : Cfg ℂ) (hD : 0 < c.D) (hN : 0 < c.N) (hm : mask c 0 = 1)
    (coeffs : List ℂ) (L : ℕ → ℂ) (u0 : ℝ) (hroot : L 0 * (u0 : ℂ) + polyEval coeffs (u0 : ℂ) = 0)
    (dt r : ℂ) (M : ℕ) (h : ℕ) :
    E1step (fun h => exp_term dt (L h)) (fun h => E1_coef_1 dt (L h) M r) (liftNl c (polynomial c 1 coeffs))
        (constSpectrum c (u0 : ℂ)) h - constSpectrum c (u0 : ℂ) h
      = if h = 0 then fpDefect dt (L 0) M r * (((c.N ^ c.D : ℕ) : ℂ) * (u0 : ℂ)) else 0 := by
  rw [stored_E1step_sub dt r M L _ _ (polynomial_equilibrium_spectrum c hD hN hm coeffs L u0 hroot) h,
    constSpectrum_apply c hD hN]
  split_ifs with h0
  · rw [h0]
  · rw [mul_zero]

/-- … and all four orders, ALL coefficients stored, fix it as soon as the two scalar defects vanish at `L(0)` -/
theorem const_equilibrium_stored (c : Cfg ℂ) (hD : 0 < c.D) (hN : 0 < c.N) (hm : mask c 0 = 1)
    (coeffs : List ℂ) (L : ℕ → ℂ) (u0 : ℝ) (hroot : L 0 * (u0 : ℂ) + polyEval coeffs (u0 : ℂ) = 0)
    (dt r : ℂ) (M : ℕ) (hd : fpDefect dt (L 0) M r = 0) (hdh : fpDefectHalf dt (L 0) M r = 0) :
    E3step (fun h => exp_term dt (L h)) (fun h => E3_half_exp_term dt (L h) M r)
      (fun h => E3_coef_1 dt (L h) M r) (fun h => E3_coef_2 dt (L h) M r) (fun h => E3_coef_3 dt (L h) M r)
      (fun h => E3_coef_4 dt (L h) M r) (fun h => E3_coef_5 dt (L h) M r) (liftNl c (polynomial c 1 coeffs))
      (constSpectrum c (u0 : ℂ)) = constSpectrum c (u0 : ℂ) ∧
    E4step (fun h => exp_term dt (L h)) (fun h => E4_half_exp_term dt (L h) M r)
      (fun h => E4_coef_1 dt (L h) M r) (fun h => E4_coef_2 dt (L h) M r) (fun h => E4_coef_3 dt (L h) M r)
      (fun h => E4_coef_4 dt (L h) M r) (fun h => E4_coef_5 dt (L h) M r) (fun h => E4_coef_6 dt (L h) M r)
      (liftNl c (polynomial c 1 coeffs)) (constSpectrum c (u0 : ℂ)) = constSpectrum c (u0 : ℂ) := by
  have heq := polynomial_equilibrium_spectrum c hD hN hm coeffs L u0 hroot
  have supp : ∀ h, constSpectrum c (u0 : ℂ) h ≠ 0 → h = 0 := by
    intro h hne
    by_contra h0
    rw [constSpectrum_apply c hD hN, if_neg h0] at hne
    exact hne rfl
  exact ⟨stored_fixed_point_E3 dt r M L _ _ heq (fun h hu => by rw [supp h hu]; exact hd)
      (fun h hu => by rw [supp h hu]; exact hdh),
    stored_fixed_point_E4 dt r M L _ _ heq (fun h hu => by rw [supp h hu]; exact hd)
      (fun h hu => by rw [supp h hu]; exact hdh)⟩

/-! ### transport-type steppers: constants, ALL coefficients stored, any `M`, `r` -/

/-- if the nonlinear term vanishes on the spectrum of the constant `u₀` and the linear symbol vanishes at the mean mode
    (conservation-form operators: every term carries a derivative), the constant is a fixed point of every ETDRK order
    with the stored contour coefficients — no condition on `M`, `r`, `dt` -/
theorem transport_const_fixed_stored (c : Cfg ℂ) (hD : 0 < c.D) (hN : 0 < c.N) (F : MC ℂ → MC ℂ) (u0 : ℂ)
    (hF : ∀ h, at2 (F (constSpec c 1 (fun _ => u0))) 0 h = 0) (L : ℕ → ℂ) (hL : L 0 = 0) (dt r : ℂ) (M : ℕ) :
    E1step (fun h => exp_term dt (L h)) (fun h => E1_coef_1 dt (L h) M r) (liftNl c F) (constSpectrum c u0)
      = constSpectrum c u0 ∧
    E2step (fun h => exp_term dt (L h)) (fun h => E2_coef_1 dt (L h) M r) (fun h => E2_coef_2 dt (L h) M r)
      (liftNl c F) (constSpectrum c u0) = constSpectrum c u0 ∧
    E3step (fun h => exp_term dt (L h)) (fun h => E3_half_exp_term dt (L h) M r)
      (fun h => E3_coef_1 dt (L h) M r) (fun h => E3_coef_2 dt (L h) M r) (fun h => E3_coef_3 dt (L h) M r)
      (fun h => E3_coef_4 dt (L h) M r) (fun h => E3_coef_5 dt (L h) M r) (liftNl c F) (constSpectrum c u0)
      = constSpectrum c u0 ∧
    E4step (fun h => exp_term dt (L h)) (fun h => E4_half_exp_term dt (L h) M r)
      (fun h => E4_coef_1 dt (L h) M r) (fun h => E4_coef_2 dt (L h) M r) (fun h => E4_coef_3 dt (L h) M r)
      (fun h => E4_coef_4 dt (L h) M r) (fun h => E4_coef_5 dt (L h) M r) (fun h => E4_coef_6 dt (L h) M r)
      (liftNl c F) (constSpectrum c u0) = constSpectrum c u0 := by
  apply stored_fixed_point_of_symbol_zero dt r M L _ (liftNl c F)
  · intro h
    rw [liftNl_constSpectrum, hF h, add_zero, constSpectrum_apply c hD hN]
    split_ifs with h0
    · rw [h0, hL, zero_mul]
    · rw [mul_zero]
  · intro h hne
    by_contra h0
    have hh : h ≠ 0 := fun e => h0 (e ▸ hL)
    rw [constSpectrum_apply c hD hN, if_neg hh] at hne
    exact hne rfl

/-- Burgers / KdV / KS (all four convection variants), gradient-norm (KS combustion form) and 2-D vorticity steppers:
    the hypothesis `hF` of `transport_const_fixed_stored` holds -/
theorem transport_terms_vanish (c : Cfg ℂ) (hD : 0 < c.D) (hN : 0 < c.N) (scale : ℂ) (single cons zeroFix : Bool)
    (u0 : ℂ) (h : ℕ) :
    at2 (convection c 1 scale single cons (constSpec c 1 (fun _ => u0))) 0 h = 0 ∧
    at2 (gradientNorm c 1 scale zeroFix (constSpec c 1 (fun _ => u0))) 0 h = 0 ∧
    at2 (vorticity2d c scale none (constSpec c 1 (fun _ => u0))) 0 h = 0 := by
  have hu := constSpec_meanSpec c hD hN 1 (fun _ => u0)
  refine ⟨convection_const c hD hN 1 scale single cons _ hu 0 h, gradientNorm_const c hN 1 scale zeroFix _ hu 0 h, ?_⟩
  rw [vorticity2d_const c hN scale _ hu, Alias.at2_tab2_any]
  split_ifs <;> rfl

end Exponax.Equilibria
