import ExponaxModel.Proofs.ConserveVorticityFull
import ExponaxModel.Proofs.SymbolAlgebra
import ExponaxModel.Proofs.LoopsLemmas
/-
C11 support — the c2r transform `irfftnM` is a CONTRACTION from the weighted half-spectrum norm to the
grid 2-norm, for ANY stored half spectrum (Hermitian-consistent or not), every `D ≥ 1`, `N ≥ 1`.

  * `c2r_pythagoras`      : `N^{-D} Σ_h w_h |c_h|² = Σ_j irfftn(c)_j² + N^{-D} Σ_h w_h |c_h − rfftn(irfftn c)_h|²`
                            (the c2r transform is an orthogonal projection followed by an isometry);
  * `c2r_contraction`     : P1, `Σ_j irfftn(c)_j² ≤ N^{-D} Σ_h w_h |c_h|²`;
  * `c2r_isometry_iff`    : equality in P1 iff `c` is a fixed point of `rfftn ∘ irfftn` on the stored modes;
  * `linear_step_no_amplification` (+ `_exp_term`, `_E0step`) : P2;
  * `linear_rollout_no_amplification` (+ `repeatN`, `rollout` forms) : P3;
  * `linear_step_isometry_iff` : P4 (abstract form, any `D`); the concrete forms are in `C2RHermitian.lean`
    (general `D`) and `C2RExample.lean` (1-D, counterexample).
-/
set_option linter.unusedVariables false
set_option linter.unusedSimpArgs false
namespace Exponax.C2R
open Exponax Exponax.Layout Exponax.Transform Exponax.DFT Exponax.Conserve Finset

/-! ### basic facts -/

theorem herm_weight_pos (D N h : ℕ) : 0 < herm_weight D N h := by
  unfold herm_weight
  simp only
  split_ifs <;> norm_num

theorem herm_weight_pos_real (D N h : ℕ) : (0 : ℝ) < (herm_weight D N h : ℝ) := by
  exact_mod_cast herm_weight_pos D N h

/-- the c2r transform only reads the stored modes -/
theorem irfftnM_congr (D N : ℕ) (c c' : Array ℂ)
    (h : ∀ i < numModes D N, c.getD i 0 = c'.getD i 0) (hN : 0 < N) (j : ℕ) (hj : j < N ^ D) :
    (irfftnM D N c).getD j 0 = (irfftnM D N c').getD j 0 := by
  rw [irfftnM_getD D N hN c j hj, irfftnM_getD D N hN c' j hj]
  congr 1
  apply Finset.sum_congr rfl
  intro i hi
  rw [h i (Finset.mem_range.mp hi)]

/-- the r2c transform only reads the grid points `j < N^D` -/
theorem rfftnM_congr (D N : ℕ) (u u' : Array ℂ)
    (h : ∀ j < N ^ D, u.getD j 0 = u'.getD j 0) (hN : 0 < N) (i : ℕ) (hi : i < numModes D N) :
    (rfftnM D N u).getD i 0 = (rfftnM D N u').getD i 0 := by
  rw [rfftnM_getD D N hN u i hi, rfftnM_getD D N hN u' i hi]
  apply Finset.sum_congr rfl
  intro j hj
  rw [h j (Finset.mem_range.mp hj)]

theorem norm_sq_of_im_zero (z : ℂ) (hz : z.im = 0) : ‖z‖ ^ 2 = z.re ^ 2 := by
  rw [Complex.sq_norm, Complex.normSq_apply, hz]
  ring

theorem sum_norm_sq_real (G : ℕ) (u : Array ℂ) (hu : ∀ j < G, (u.getD j 0).im = 0) :
    ∑ j ∈ range G, ‖u.getD j 0‖ ^ 2 = ∑ j ∈ range G, (u.getD j 0).re ^ 2 :=
  Finset.sum_congr rfl (fun j hj => norm_sq_of_im_zero _ (hu j (Finset.mem_range.mp hj)))

/-! ### P1 — the Pythagorean identity of the c2r transform and the contraction -/

/-- grid energy of `irfftn c` as the weighted pairing of `c` with the spectrum of `irfftn c` -/
theorem c2r_energy_pairing (D N : ℕ) (hN : 0 < N) (c : Array ℂ) :
    ∑ j ∈ range (N ^ D), ((irfftnM D N c).getD j 0).re ^ 2
      = (1 / ((N ^ D : ℕ) : ℝ)) * ∑ h ∈ range (numModes D N), (herm_weight D N h : ℝ) *
          (c.getD h 0 * (starRingEnd ℂ) ((rfftnM D N (irfftnM D N c)).getD h 0)).re := by
  have hf : ∀ j < N ^ D, ((irfftnM D N c).getD j 0).im = 0 := fun j hj => irfftnM_real D N hN c j hj
  have h := real_inner_irfftn D N hN (irfftnM D N c) c hf
  apply Complex.ofReal_injective
  have hL : ((∑ j ∈ range (N ^ D), ((irfftnM D N c).getD j 0).re ^ 2 : ℝ) : ℂ)
      = ∑ j ∈ range (N ^ D), (irfftnM D N c).getD j 0 * (irfftnM D N c).getD j 0 := by
    rw [Complex.ofReal_sum]
    apply Finset.sum_congr rfl
    intro j hj
    have hj' := hf j (Finset.mem_range.mp hj)
    apply Complex.ext
    · rw [Complex.mul_re, hj', Complex.ofReal_re]; ring
    · rw [Complex.mul_im, hj', Complex.ofReal_im]; ring
  rw [hL, h]
  push_cast
  ring

/-- **Pythagoras for the c2r transform** (any `D ≥ 1`, `N ≥ 1`, ANY complex stored coefficients `c`):
    the weighted energy of `c` splits into the grid energy of `irfftn c` and the weighted energy of the
    discarded part `c − rfftn (irfftn c)`. -/
theorem c2r_pythagoras (D N : ℕ) (hD : 0 < D) (hN : 0 < N) (c : Array ℂ) :
    (1 / ((N ^ D : ℕ) : ℝ)) * ∑ h ∈ range (numModes D N), (herm_weight D N h : ℝ) * ‖c.getD h 0‖ ^ 2
      = ∑ j ∈ range (N ^ D), ((irfftnM D N c).getD j 0).re ^ 2
        + (1 / ((N ^ D : ℕ) : ℝ)) * ∑ h ∈ range (numModes D N), (herm_weight D N h : ℝ) *
            ‖c.getD h 0 - (rfftnM D N (irfftnM D N c)).getD h 0‖ ^ 2 := by
  have hf : ∀ j < N ^ D, ((irfftnM D N c).getD j 0).im = 0 := fun j hj => irfftnM_real D N hN c j hj
  have hP := parseval_nd D N hD hN (irfftnM D N c) hf
  rw [sum_norm_sq_real _ _ hf] at hP
  have hI := c2r_energy_pairing D N hN c
  have hexp : ∑ h ∈ range (numModes D N), (herm_weight D N h : ℝ) *
        ‖c.getD h 0 - (rfftnM D N (irfftnM D N c)).getD h 0‖ ^ 2
      = ∑ h ∈ range (numModes D N), (herm_weight D N h : ℝ) * ‖c.getD h 0‖ ^ 2
        + ∑ h ∈ range (numModes D N), (herm_weight D N h : ℝ) *
            ‖(rfftnM D N (irfftnM D N c)).getD h 0‖ ^ 2
        - 2 * ∑ h ∈ range (numModes D N), (herm_weight D N h : ℝ) *
            (c.getD h 0 * (starRingEnd ℂ) ((rfftnM D N (irfftnM D N c)).getD h 0)).re := by
    rw [Finset.mul_sum, ← Finset.sum_add_distrib, ← Finset.sum_sub_distrib]
    apply Finset.sum_congr rfl
    intro h _
    rw [Complex.sq_norm, Complex.sq_norm, Complex.sq_norm, Complex.normSq_sub]
    ring
  rw [hexp]
  have e1 : (1 / ((N ^ D : ℕ) : ℝ)) * (∑ h ∈ range (numModes D N), (herm_weight D N h : ℝ) * ‖c.getD h 0‖ ^ 2
        + ∑ h ∈ range (numModes D N), (herm_weight D N h : ℝ) *
            ‖(rfftnM D N (irfftnM D N c)).getD h 0‖ ^ 2
        - 2 * ∑ h ∈ range (numModes D N), (herm_weight D N h : ℝ) *
            (c.getD h 0 * (starRingEnd ℂ) ((rfftnM D N (irfftnM D N c)).getD h 0)).re)
      = (1 / ((N ^ D : ℕ) : ℝ)) * ∑ h ∈ range (numModes D N), (herm_weight D N h : ℝ) * ‖c.getD h 0‖ ^ 2
        + (1 / ((N ^ D : ℕ) : ℝ)) * ∑ h ∈ range (numModes D N), (herm_weight D N h : ℝ) *
            ‖(rfftnM D N (irfftnM D N c)).getD h 0‖ ^ 2
        - 2 * ((1 / ((N ^ D : ℕ) : ℝ)) * ∑ h ∈ range (numModes D N), (herm_weight D N h : ℝ) *
            (c.getD h 0 * (starRingEnd ℂ) ((rfftnM D N (irfftnM D N c)).getD h 0)).re) := by
    ring
  rw [e1, ← hP, ← hI]
  ring

/-- **P1 — the c2r transform is a contraction** (any `D ≥ 1`, `N ≥ 1`, ANY complex stored coefficients):
    `Σ_j irfftn(c)_j² ≤ N^{-D} Σ_h w_h |c_h|²`. -/
theorem c2r_contraction (D N : ℕ) (hD : 0 < D) (hN : 0 < N) (c : Array ℂ) :
    ∑ j ∈ range (N ^ D), ((irfftnM D N c).getD j 0).re ^ 2
      ≤ (1 / ((N ^ D : ℕ) : ℝ)) * ∑ h ∈ range (numModes D N),
          (herm_weight D N h : ℝ) * ‖c.getD h 0‖ ^ 2 := by
  rw [c2r_pythagoras D N hD hN c]
  apply le_add_of_nonneg_right
  apply mul_nonneg
  · positivity
  · apply Finset.sum_nonneg
    intro h _
    exact mul_nonneg (herm_weight_pos_real D N h).le (by positivity)

/-- the same with the norm of the (real) values of `irfftn c` -/
theorem c2r_contraction_norm (D N : ℕ) (hD : 0 < D) (hN : 0 < N) (c : Array ℂ) :
    ∑ j ∈ range (N ^ D), ‖(irfftnM D N c).getD j 0‖ ^ 2
      ≤ (1 / ((N ^ D : ℕ) : ℝ)) * ∑ h ∈ range (numModes D N),
          (herm_weight D N h : ℝ) * ‖c.getD h 0‖ ^ 2 := by
  rw [sum_norm_sq_real _ _ (fun j hj => irfftnM_real D N hN c j hj)]
  exact c2r_contraction D N hD hN c

/-- **equality in P1** holds exactly when `c` is a fixed point of `rfftn ∘ irfftn` on the stored modes
    (i.e. `c` is the half spectrum of a real field, see `fixed_iff_spectrum_of_real`). -/
theorem c2r_isometry_iff (D N : ℕ) (hD : 0 < D) (hN : 0 < N) (c : Array ℂ) :
    ∑ j ∈ range (N ^ D), ((irfftnM D N c).getD j 0).re ^ 2
        = (1 / ((N ^ D : ℕ) : ℝ)) * ∑ h ∈ range (numModes D N),
            (herm_weight D N h : ℝ) * ‖c.getD h 0‖ ^ 2
      ↔ ∀ h < numModes D N, (rfftnM D N (irfftnM D N c)).getD h 0 = c.getD h 0 := by
  have hG : (0 : ℝ) < 1 / ((N ^ D : ℕ) : ℝ) := by
    have : (0 : ℝ) < ((N ^ D : ℕ) : ℝ) := by exact_mod_cast pow_pos hN D
    positivity
  have hnn : ∀ h ∈ range (numModes D N), 0 ≤ (herm_weight D N h : ℝ) *
      ‖c.getD h 0 - (rfftnM D N (irfftnM D N c)).getD h 0‖ ^ 2 :=
    fun h _ => mul_nonneg (herm_weight_pos_real D N h).le (by positivity)
  rw [c2r_pythagoras D N hD hN c]
  constructor
  · intro heq h hh
    have h0 : (1 / ((N ^ D : ℕ) : ℝ)) * ∑ h ∈ range (numModes D N), (herm_weight D N h : ℝ) *
        ‖c.getD h 0 - (rfftnM D N (irfftnM D N c)).getD h 0‖ ^ 2 = 0 := by linarith
    have h1 := (mul_eq_zero.mp h0).resolve_left hG.ne'
    have h2 := (Finset.sum_eq_zero_iff_of_nonneg hnn).mp h1 h (Finset.mem_range.mpr hh)
    have h3 := (mul_eq_zero.mp h2).resolve_left (herm_weight_pos_real D N h).ne'
    have h4 : c.getD h 0 - (rfftnM D N (irfftnM D N c)).getD h 0 = 0 := by
      simpa using h3
    exact (sub_eq_zero.mp h4).symm
  · intro hfix
    have : ∑ h ∈ range (numModes D N), (herm_weight D N h : ℝ) *
        ‖c.getD h 0 - (rfftnM D N (irfftnM D N c)).getD h 0‖ ^ 2 = 0 := by
      apply Finset.sum_eq_zero
      intro h hh
      rw [hfix h (Finset.mem_range.mp hh), sub_self, norm_zero]
      ring
    rw [this, mul_zero, add_zero]

/-- fixed points of `rfftn ∘ irfftn` on the stored modes = half spectra of real grid fields -/
theorem fixed_iff_spectrum_of_real (D N : ℕ) (hD : 0 < D) (hN : 0 < N) (c : Array ℂ) :
    (∀ h < numModes D N, (rfftnM D N (irfftnM D N c)).getD h 0 = c.getD h 0)
      ↔ ∃ v : Array ℂ, (∀ j < N ^ D, (v.getD j 0).im = 0) ∧
          ∀ h < numModes D N, c.getD h 0 = (rfftnM D N v).getD h 0 := by
  constructor
  · intro hfix
    exact ⟨irfftnM D N c, fun j hj => irfftnM_real D N hN c j hj, fun h hh => (hfix h hh).symm⟩
  · rintro ⟨v, hv, hc⟩ h hh
    rw [hc h hh]
    apply rfftnM_congr D N _ _ _ hN h hh
    intro j hj
    rw [irfftnM_congr D N c (rfftnM D N v) hc hN j hj]
    exact irfftn_rfftn D N hD hN v hv j hj

/-! ### P2 — one step of a linear stepper never amplifies a real state -/

/-- **P2.** For real `u` and per-mode factors `|E_h| ≤ 1` (only the stored modes matter),
    `‖irfftn (E ⊙ rfftn u)‖₂ ≤ ‖u‖₂`.  `E ⊙ rfftn u` need not be Hermitian-consistent. -/
theorem linear_step_no_amplification (D N : ℕ) (hD : 0 < D) (hN : 0 < N) (u : Array ℂ)
    (hu : ∀ j < N ^ D, (u.getD j 0).im = 0) (E : ℕ → ℂ) (hE : ∀ h < numModes D N, ‖E h‖ ≤ 1) :
    ∑ j ∈ range (N ^ D),
        ((irfftnM D N (tab (numModes D N) (fun h => E h * (rfftnM D N u).getD h 0))).getD j 0).re ^ 2
      ≤ ∑ j ∈ range (N ^ D), (u.getD j 0).re ^ 2 := by
  refine (c2r_contraction D N hD hN _).trans ?_
  rw [← sum_norm_sq_real _ _ hu, parseval_nd D N hD hN u hu]
  apply mul_le_mul_of_nonneg_left _ (by positivity)
  apply Finset.sum_le_sum
  intro h hh
  have hh' := Finset.mem_range.mp hh
  rw [DFT.tab_getD _ _ _ _ hh', norm_mul, mul_pow]
  apply mul_le_mul_of_nonneg_left _ (herm_weight_pos_real D N h).le
  have h1 := hE h hh'
  have h2 : ‖E h‖ ^ 2 ≤ 1 := by
    have := norm_nonneg (E h)
    nlinarith
  have h3 : 0 ≤ ‖(rfftnM D N u).getD h 0‖ ^ 2 := by positivity
  calc ‖E h‖ ^ 2 * ‖(rfftnM D N u).getD h 0‖ ^ 2 ≤ 1 * ‖(rfftnM D N u).getD h 0‖ ^ 2 :=
        mul_le_mul_of_nonneg_right h2 h3
    _ = ‖(rfftnM D N u).getD h 0‖ ^ 2 := one_mul _

/-- P2 for the regenerated ETDRK0 stage `Gen.Etdrk.E0step` with any coefficient array `|E_h| ≤ 1` -/
theorem linear_step_no_amplification_E0step (D N : ℕ) (hD : 0 < D) (hN : 0 < N) (u : Array ℂ)
    (hu : ∀ j < N ^ D, (u.getD j 0).im = 0) (E : ℕ → ℂ) (hE : ∀ h < numModes D N, ‖E h‖ ≤ 1) :
    ∑ j ∈ range (N ^ D),
        ((irfftnM D N (tab (numModes D N)
          (fun h => Gen.Etdrk.E0step (E h) ((rfftnM D N u).getD h 0)))).getD j 0).re ^ 2
      ≤ ∑ j ∈ range (N ^ D), (u.getD j 0).re ^ 2 :=
  linear_step_no_amplification D N hD hN u hu E hE

/-- P2 for the exact exponential propagator `E_h = exp_term dt (L h)` with `Re L_h ≤ 0`, any `dt ≥ 0`
    (however large), through `Gen.Etdrk.E0step` -/
theorem linear_step_no_amplification_exp_term (D N : ℕ) (hD : 0 < D) (hN : 0 < N) (u : Array ℂ)
    (hu : ∀ j < N ^ D, (u.getD j 0).im = 0) (dt : ℝ) (hdt : 0 ≤ dt) (L : ℕ → ℂ)
    (hL : ∀ h < numModes D N, (L h).re ≤ 0) :
    ∑ j ∈ range (N ^ D),
        ((irfftnM D N (tab (numModes D N)
          (fun h => Gen.Etdrk.E0step (Gen.Etdrk.exp_term (dt : ℂ) (L h))
            ((rfftnM D N u).getD h 0)))).getD j 0).re ^ 2
      ≤ ∑ j ∈ range (N ^ D), (u.getD j 0).re ^ 2 :=
  linear_step_no_amplification D N hD hN u hu (fun h => Gen.Etdrk.exp_term (dt : ℂ) (L h))
    (fun h hh => norm_exp_term_le_one dt (L h) hdt (hL h hh))

/-! ### P3 — rollouts -/

/-- one grid-space step `u ↦ irfftn (E ⊙ rfftn u)` of a linear stepper (abbreviation used to state P3) -/
noncomputable def linStep (D N : ℕ) (E : ℕ → ℂ) (u : Array ℂ) : Array ℂ :=
  irfftnM D N (tab (numModes D N) (fun h => E h * (rfftnM D N u).getD h 0))

theorem linStep_eq (D N : ℕ) (E : ℕ → ℂ) (u : Array ℂ) :
    linStep D N E u
      = irfftnM D N (tab (numModes D N) (fun h => Gen.Etdrk.E0step (E h) ((rfftnM D N u).getD h 0))) := rfl

theorem linStep_real (D N : ℕ) (hN : 0 < N) (E : ℕ → ℂ) (u : Array ℂ) (j : ℕ) (hj : j < N ^ D) :
    ((linStep D N E u).getD j 0).im = 0 :=
  irfftnM_real D N hN _ j hj

/-- **P3, time-dependent factors.**  `n` steps with (possibly different) per-mode factors
    `|E_k h| ≤ 1` at step `k`: the state after any number of steps is real and its grid 2-norm never
    exceeds that of the real initial state. -/
theorem linear_rollout_no_amplification_var (D N : ℕ) (hD : 0 < D) (hN : 0 < N) (E : ℕ → ℕ → ℂ)
    (hE : ∀ k, ∀ h < numModes D N, ‖E k h‖ ≤ 1) (U : ℕ → Array ℂ)
    (hU : ∀ k, U (k + 1) = linStep D N (E k) (U k))
    (hu : ∀ j < N ^ D, ((U 0).getD j 0).im = 0) (n : ℕ) :
    (∀ j < N ^ D, ((U n).getD j 0).im = 0) ∧
    ∑ j ∈ range (N ^ D), ((U n).getD j 0).re ^ 2 ≤ ∑ j ∈ range (N ^ D), ((U 0).getD j 0).re ^ 2 := by
  induction n with
  | zero => exact ⟨hu, le_rfl⟩
  | succ n ih =>
    refine ⟨fun j hj => by rw [hU n]; exact linStep_real D N hN _ _ j hj, ?_⟩
    rw [hU n]
    exact (linear_step_no_amplification D N hD hN (U n) ih.1 (E n) (hE n)).trans ih.2

/-- **P3.**  The `n`-fold iterate of a linear step with `|E_h| ≤ 1` never exceeds the initial norm. -/
theorem linear_rollout_no_amplification (D N : ℕ) (hD : 0 < D) (hN : 0 < N) (E : ℕ → ℂ)
    (hE : ∀ h < numModes D N, ‖E h‖ ≤ 1) (u : Array ℂ) (hu : ∀ j < N ^ D, (u.getD j 0).im = 0) (n : ℕ) :
    ∑ j ∈ range (N ^ D), (((linStep D N E)^[n] u).getD j 0).re ^ 2
      ≤ ∑ j ∈ range (N ^ D), (u.getD j 0).re ^ 2 :=
  (linear_rollout_no_amplification_var D N hD hN (fun _ => E) (fun _ => hE)
    (fun k => (linStep D N E)^[k] u) (fun k => Function.iterate_succ_apply' _ _ _) hu n).2

/-- P3 for the model's `repeat` (`Loops.repeatN`) -/
theorem linear_repeatN_no_amplification (D N : ℕ) (hD : 0 < D) (hN : 0 < N) (E : ℕ → ℂ)
    (hE : ∀ h < numModes D N, ‖E h‖ ≤ 1) (u : Array ℂ) (hu : ∀ j < N ^ D, (u.getD j 0).im = 0) (n : ℕ) :
    ∑ j ∈ range (N ^ D), ((Loops.repeatN (linStep D N E) n u).getD j 0).re ^ 2
      ≤ ∑ j ∈ range (N ^ D), (u.getD j 0).re ^ 2 := by
  rw [Loops.repeatN_eq_iterate]
  exact linear_rollout_no_amplification D N hD hN E hE u hu n

/-- P3 for the model's `rollout` (`Loops.rollout`, with or without the initial state): EVERY state of
    the trajectory has grid 2-norm at most that of the initial state. -/
theorem linear_rollout_states_no_amplification (D N : ℕ) (hD : 0 < D) (hN : 0 < N) (E : ℕ → ℂ)
    (hE : ∀ h < numModes D N, ‖E h‖ ≤ 1) (u : Array ℂ) (hu : ∀ j < N ^ D, (u.getD j 0).im = 0)
    (n : ℕ) (inc : Bool) (v : Array ℂ) (hv : v ∈ Loops.rollout (linStep D N E) n inc u) :
    ∑ j ∈ range (N ^ D), (v.getD j 0).re ^ 2 ≤ ∑ j ∈ range (N ^ D), (u.getD j 0).re ^ 2 := by
  have hscan : ∀ w ∈ Loops.scanStates (linStep D N E) n u,
      ∑ j ∈ range (N ^ D), (w.getD j 0).re ^ 2 ≤ ∑ j ∈ range (N ^ D), (u.getD j 0).re ^ 2 := by
    intro w hw
    rw [Loops.scanStates_eq_map] at hw
    obtain ⟨i, _, rfl⟩ := List.mem_map.mp hw
    exact linear_rollout_no_amplification D N hD hN E hE u hu (i + 1)
  unfold Loops.rollout at hv
  cases inc with
  | false => exact hscan v (by simpa using hv)
  | true =>
    rcases List.mem_cons.mp (by simpa using hv) with rfl | h
    · exact le_rfl
    · exact hscan v h

/-! ### P4 — the isometry case, abstract form (any `D ≥ 1`) -/

/-- **P4 (abstract form).**  If `|E_h| = 1` on all stored modes, the step preserves the grid 2-norm of
    the real state `u` EXACTLY WHEN `E ⊙ rfftn u` is a fixed point of `rfftn ∘ irfftn`, i.e.
    (`fixed_iff_spectrum_of_real`) the half spectrum of a real field.  The concrete form of this
    condition is `C2R.linear_step_isometry_iff_herm` (general `D`) / `linear_step_isometry_iff_1d`. -/
theorem linear_step_isometry_iff (D N : ℕ) (hD : 0 < D) (hN : 0 < N) (u : Array ℂ)
    (hu : ∀ j < N ^ D, (u.getD j 0).im = 0) (E : ℕ → ℂ) (hE : ∀ h < numModes D N, ‖E h‖ = 1) :
    ∑ j ∈ range (N ^ D),
        ((irfftnM D N (tab (numModes D N) (fun h => E h * (rfftnM D N u).getD h 0))).getD j 0).re ^ 2
        = ∑ j ∈ range (N ^ D), (u.getD j 0).re ^ 2
      ↔ ∀ h < numModes D N,
          (rfftnM D N (irfftnM D N (tab (numModes D N) (fun h => E h * (rfftnM D N u).getD h 0)))).getD h 0
            = E h * (rfftnM D N u).getD h 0 := by
  have hen : (1 / ((N ^ D : ℕ) : ℝ)) * ∑ h ∈ range (numModes D N), (herm_weight D N h : ℝ) *
        ‖(tab (numModes D N) (fun h => E h * (rfftnM D N u).getD h 0)).getD h 0‖ ^ 2
      = ∑ j ∈ range (N ^ D), (u.getD j 0).re ^ 2 := by
    rw [← sum_norm_sq_real _ _ hu, parseval_nd D N hD hN u hu]
    congr 1
    apply Finset.sum_congr rfl
    intro h hh
    have hh' := Finset.mem_range.mp hh
    rw [DFT.tab_getD _ _ _ _ hh', norm_mul, hE h hh', one_mul]
  rw [← hen, c2r_isometry_iff D N hD hN]
  constructor
  · intro H h hh
    rw [H h hh, DFT.tab_getD _ _ _ _ hh]
  · intro H h hh
    rw [H h hh, DFT.tab_getD _ _ _ _ hh]

/-! ### non-vacuity of the hypotheses -/

/-- a real state, factors of modulus ≤ 1 (here: a non-real factor at every mode, `E_h = i`) -/
example : ∃ (D N : ℕ) (u : Array ℂ) (E : ℕ → ℂ), 0 < D ∧ 0 < N ∧
    (∀ j < N ^ D, (u.getD j 0).im = 0) ∧ (∀ h < numModes D N, ‖E h‖ ≤ 1) ∧
    (∀ h < numModes D N, ‖E h‖ = 1) :=
  ⟨1, 2, #[1, -1], fun _ => Complex.I, by norm_num, by norm_num,
    by
      intro j hj
      have : j = 0 ∨ j = 1 := by omega
      rcases this with rfl | rfl <;> simp,
    fun _ _ => by simp, fun _ _ => by simp⟩

/-- `dt ≥ 0`, `Re L ≤ 0` -/
example : ∃ (dt : ℝ) (L : ℕ → ℂ), 0 ≤ dt ∧ ∀ h, (L h).re ≤ 0 :=
  ⟨1, fun h => -(h : ℂ) + Complex.I, by norm_num, fun h => by simp⟩

/-- a trajectory as in `linear_rollout_no_amplification_var` -/
example (D N : ℕ) (E : ℕ → ℕ → ℂ) (u : Array ℂ) :
    ∃ U : ℕ → Array ℂ, U 0 = u ∧ ∀ k, U (k + 1) = linStep D N (E k) (U k) :=
  ⟨fun n => Nat.rec u (fun k s => linStep D N (E k) s) n, rfl, fun _ => rfl⟩

end Exponax.C2R
