import ExponaxModel.Proofs.AxisPermTerms
/-
C08, T2 (multi-channel convection) — the `D`-channel convection terms `Σ_j u_j ∂_j u_i` and
`½ Σ_j ∂_j (u_j u_i)` (`single_channel = False`, `C = D` velocity channels) commute with a permutation `σ` of
the spatial axes TOGETHER WITH THE SAME PERMUTATION OF THE VELOCITY CHANNELS:
the transformed vector field is `u'_{σ i}(x) = u_i(x ∘ σ)` (`chanMap σ` on channel indices).

  `MCSpecPerm c σ (chanMap σ) uh uh' → MCSpecPerm c σ (chanMap σ) (convection c D b false cons uh) (… uh')`

Hypotheses as in `AxisPermTerms.lean` (`PermCfg c`, real scale, Nyquist-free inputs).
-/
set_option linter.unusedVariables false
namespace Exponax.AxisPerm
open Exponax Exponax.Layout Exponax.Transform Exponax.DFT Exponax.AliasND Exponax.Nonlin Exponax.Alias Finset

/-- the permutation of the axes acting on channel indices (identity beyond the `D` velocity channels) -/
def chanMap {D : ℕ} (σ : Equiv.Perm (Fin D)) (ch : ℕ) : ℕ := if h : ch < D then (σ ⟨ch, h⟩ : ℕ) else ch

theorem chanMap_fin {D : ℕ} (σ : Equiv.Perm (Fin D)) (i : Fin D) : chanMap σ i = (σ i : ℕ) := by
  simp [chanMap, i.2]

theorem chanMap_lt_iff {D : ℕ} (σ : Equiv.Perm (Fin D)) : ∀ ch, chanMap σ ch < D ↔ ch < D := by
  intro ch
  unfold chanMap
  split_ifs with h
  · exact ⟨fun _ => h, fun _ => (σ ⟨ch, h⟩).2⟩
  · exact Iff.rfl

theorem idx_lemma (D : ℕ) (hD : 0 < D) (i e : Fin D) :
    ((i : ℕ) * D + (e : ℕ)) % D = e ∧ ((i : ℕ) * D + (e : ℕ)) / D = i ∧ (i : ℕ) * D + (e : ℕ) < D * D := by
  refine ⟨?_, ?_, ?_⟩
  · rw [Nat.add_comm, Nat.add_mul_mod_self_right, Nat.mod_eq_of_lt e.2]
  · rw [Nat.add_comm, Nat.add_mul_div_right _ _ hD, Nat.div_eq_of_lt e.2, zero_add]
  · calc (i : ℕ) * D + (e : ℕ) < (i : ℕ) * D + D := by have := e.2; omega
      _ = ((i : ℕ) + 1) * D := by ring
      _ ≤ D * D := Nat.mul_le_mul_right _ i.2

/-- **T2, multi-channel convection, non-conservative** (`−b Σ_j u_j ∂_j u_i`) -/
theorem convection_multi_noncons_mcSpecPerm (c : Cfg ℂ) (hc : PermCfg c) (σ : Equiv.Perm (Fin c.D))
    (scale : ℂ) (hsc : scale.im = 0) (uh uh' : MC ℂ) (h : MCSpecPerm c σ (chanMap σ) uh uh') :
    MCSpecPerm c σ (chanMap σ) (convection c c.D scale false false uh) (convection c c.D scale false false uh') := by
  have hD := hc.hD
  have hu := mcFieldPerm_nifft c hc.hD hc.hN σ (chanMap σ) c.D (chanMap_lt_iff σ) uh uh' h
  have hr := mcReal_nifft c hc.hN c.D uh
  have hnabval : ∀ (vh : MC ℂ) (i e : Fin c.D) x,
      at2 (tabC (c.D * c.D) fun ij => nifft c (tab (modes c) fun m =>
        Nonlin.deriv c (ij % c.D) m * at2 vh (ij / c.D) m)) ((i : ℕ) * c.D + (e : ℕ)) x
      = (nifft c (tab (modes c) fun m => Nonlin.deriv c e m * at2 vh i m)).getD x 0 := by
    intro vh i e x
    obtain ⟨e1, e2, e3⟩ := idx_lemma c.D hD i e
    rw [at2_tabC_any, if_pos e3, e1, e2]
  unfold convection
  simp only [↓reduceIte, Bool.false_eq_true]
  generalize (tabC c.D fun ch => nifft c (uh.getD ch #[])) = U at hu hr ⊢
  generalize (tabC c.D fun ch => nifft c (uh'.getD ch #[])) = U' at hu ⊢
  generalize hNAB : (tabC (c.D * c.D) fun ij => nifft c (tab (modes c) fun m =>
    Nonlin.deriv c (ij % c.D) m * at2 uh (ij / c.D) m)) = NAB at hnabval ⊢
  generalize hNAB' : (tabC (c.D * c.D) fun ij => nifft c (tab (modes c) fun m =>
    Nonlin.deriv c (ij % c.D) m * at2 uh' (ij / c.D) m)) = NAB' at hnabval ⊢
  have hnr : ∀ (i e : Fin c.D) x, x < gridSize c → (at2 NAB ((i : ℕ) * c.D + (e : ℕ)) x).im = 0 := by
    intro i e x hx
    rw [← hNAB, hnabval uh i e x]
    exact nifft_isRealND c hc.hN _ x hx
  have hnp : ∀ (i e : Fin c.D) x, x < gridSize c →
      at2 NAB' ((σ i : ℕ) * c.D + (σ e : ℕ)) x = at2 NAB ((i : ℕ) * c.D + (e : ℕ)) (permIdx c.D c.N σ x) := by
    intro i e x hx
    rw [← hNAB, ← hNAB', hnabval uh' (σ i) (σ e) x, hnabval uh i e _]
    have hch := mcSpecPerm_chan c hc.hN σ (chanMap σ) uh uh' h i
    rw [chanMap_fin] at hch
    exact deriv_fields_perm c hc σ _ _ hch e x hx
  have hconv : ∀ i : Fin c.D, SpecPerm c.D c.N σ
      (nfft c (tab (gridSize c) fun x => sumList ((List.range c.D).map fun j =>
        at2 U j x * at2 NAB ((i : ℕ) * c.D + j) x)))
      (nfft c (tab (gridSize c) fun x => sumList ((List.range c.D).map fun j =>
        at2 U' j x * at2 NAB' ((σ i : ℕ) * c.D + j) x))) := by
    intro i
    apply nfft_tab_specPerm c hc σ
    · intro x hx
      apply im_sumList_real
      intro d hd
      exact im_mul_real (hr d x hx) (hnr i ⟨d, hd⟩ x hx)
    · intro x hx
      rw [sumList_axes_eq, sumList_axes_eq, ← Equiv.sum_comp σ]
      apply Finset.sum_congr rfl
      intro e _
      have hue := hu e x hx
      rw [chanMap_fin] at hue
      rw [hue, hnp i e x hx]
  refine mcSpecPerm_tab2 c hc.hN σ (chanMap σ) c.D (chanMap_lt_iff σ) _ _ (fun ch hch => ?_)
  have key := specPerm_smul c.D c.N hc.hD hc.hN σ (-scale) (by rw [Complex.neg_im, hsc, neg_zero]) _ _
    (hconv ⟨ch, hch⟩)
  refine specPerm_congr c.D c.N hc.hN σ _ _ _ _ ?_ ?_ key
  · intro m hm
    have hm' : m < modes c := hm
    rw [DFT.tab_getD _ _ _ _ hm, DFT.tab_getD _ _ _ _ hm', at2_tabC_any, if_pos hch]
  · intro m hm
    have hm' : m < modes c := hm
    have hτ : chanMap σ ch = (σ ⟨ch, hch⟩ : ℕ) := chanMap_fin σ ⟨ch, hch⟩
    rw [DFT.tab_getD _ _ _ _ hm, DFT.tab_getD _ _ _ _ hm', at2_tabC_any, if_pos ((chanMap_lt_iff σ ch).mpr hch), hτ]

/-- **T2, multi-channel convection, conservative** (`−b ½ Σ_j ∂_j (u_j u_i)`) -/
theorem convection_multi_cons_mcSpecPerm (c : Cfg ℂ) (hc : PermCfg c) (σ : Equiv.Perm (Fin c.D))
    (scale : ℂ) (hsc : scale.im = 0) (uh uh' : MC ℂ) (h : MCSpecPerm c σ (chanMap σ) uh uh') :
    MCSpecPerm c σ (chanMap σ) (convection c c.D scale false true uh) (convection c c.D scale false true uh') := by
  have hD := hc.hD
  have hu := mcFieldPerm_nifft c hc.hD hc.hN σ (chanMap σ) c.D (chanMap_lt_iff σ) uh uh' h
  have hr := mcReal_nifft c hc.hN c.D uh
  unfold convection
  simp only [↓reduceIte, Bool.false_eq_true]
  generalize (tabC c.D fun ch => nifft c (uh.getD ch #[])) = U at hu hr ⊢
  generalize (tabC c.D fun ch => nifft c (uh'.getD ch #[])) = U' at hu ⊢
  have houtval : ∀ (V : MC ℂ) (i e : Fin c.D) m,
      at2 (tabC (c.D * c.D) fun ij => nfft c (tab (gridSize c) fun x =>
        at2 V (ij % c.D) x * at2 V (ij / c.D) x)) ((i : ℕ) * c.D + (e : ℕ)) m
      = (nfft c (tab (gridSize c) fun x => at2 V e x * at2 V i x)).getD m 0 := by
    intro V i e m
    obtain ⟨e1, e2, e3⟩ := idx_lemma c.D hD i e
    rw [at2_tabC_any, if_pos e3, e1, e2]
  have hout : ∀ i e : Fin c.D, SpecPerm c.D c.N σ
      (nfft c (tab (gridSize c) fun x => at2 U e x * at2 U i x))
      (nfft c (tab (gridSize c) fun x => at2 U' (σ e) x * at2 U' (σ i) x)) := by
    intro i e
    apply nfft_tab_specPerm c hc σ
    · intro x hx
      exact im_mul_real (hr e x hx) (hr i x hx)
    · intro x hx
      have h1 := hu e x hx
      have h2 := hu i x hx
      rw [chanMap_fin] at h1 h2
      rw [h1, h2]
  generalize hOUT : (tabC (c.D * c.D) fun ij => nfft c (tab (gridSize c) fun x =>
    at2 U (ij % c.D) x * at2 U (ij / c.D) x)) = OUT at houtval ⊢
  generalize hOUT' : (tabC (c.D * c.D) fun ij => nfft c (tab (gridSize c) fun x =>
    at2 U' (ij % c.D) x * at2 U' (ij / c.D) x)) = OUT' at houtval ⊢
  refine mcSpecPerm_tab2 c hc.hN σ (chanMap σ) c.D (chanMap_lt_iff σ) _ _ (fun ch hch => ?_)
  have hτ : chanMap σ ch = (σ ⟨ch, hch⟩ : ℕ) := chanMap_fin σ ⟨ch, hch⟩
  -- summand `e` ↔ summand `σ e`
  have hsum := specPerm_sum_axes c.D c.N hc.hN σ
    (fun e m => derivFn c e (kvec c.D c.N m) * at2 OUT (ch * c.D + (e : ℕ)) m)
    (fun e m => derivFn c e (kvec c.D c.N m) * at2 OUT' ((σ ⟨ch, hch⟩ : ℕ) * c.D + (e : ℕ)) m)
    (fun e => by
      have key := specPerm_mul c.D c.N hc.hD hc.hN σ (derivFn c e) (derivFn_neg c hc.hs e) _ _ (hout ⟨ch, hch⟩ e)
      refine specPerm_congr c.D c.N hc.hN σ _ _ _ _ ?_ ?_ key
      · intro m hm
        rw [DFT.tab_getD _ _ _ _ hm, DFT.tab_getD _ _ _ _ hm, ← hOUT, houtval U ⟨ch, hch⟩ e m]
      · intro m hm
        rw [DFT.tab_getD _ _ _ _ hm, DFT.tab_getD _ _ _ _ hm, ← hOUT', houtval U' (σ ⟨ch, hch⟩) (σ e) m,
          derivFn_comp])
  have hr2 : (-scale * qlit 1 2 : ℂ).im = 0 := by
    apply im_mul_real
    · rw [Complex.neg_im, hsc, neg_zero]
    · simp
  have key := specPerm_smul c.D c.N hc.hD hc.hN σ (-scale * qlit 1 2) hr2 _ _ hsum
  refine specPerm_congr c.D c.N hc.hN σ _ _ _ _ ?_ ?_ key
  · intro m hm
    have hm' : m < modes c := hm
    rw [DFT.tab_getD _ _ _ _ hm, DFT.tab_getD _ _ _ _ hm, DFT.tab_getD _ _ _ _ hm', sumList_axes_eq]
    simp only [deriv_eq_derivFn]
    ring
  · intro m hm
    have hm' : m < modes c := hm
    rw [DFT.tab_getD _ _ _ _ hm, DFT.tab_getD _ _ _ _ hm, DFT.tab_getD _ _ _ _ hm', sumList_axes_eq, hτ]
    simp only [deriv_eq_derivFn]
    ring

/-! ## non-vacuity -/

example (c : Cfg ℂ) (hN : 0 < c.N) (σ : Equiv.Perm (Fin c.D)) : ∃ uh uh', MCSpecPerm c σ (chanMap σ) uh uh' :=
  ⟨#[], #[], fun ch => specPerm_zero c.D c.N hN σ _ _
    (fun m hm => by rw [DFT.tab_getD _ _ _ _ (show m < modes c from hm)]; simp [at2])
    (fun m hm => by rw [DFT.tab_getD _ _ _ _ (show m < modes c from hm)]; simp [at2])⟩

example : chanMap (Equiv.swap (0 : Fin 3) 2) 0 = 2 ∧ chanMap (Equiv.swap (0 : Fin 3) 2) 5 = 5 := by decide

end Exponax.AxisPerm
