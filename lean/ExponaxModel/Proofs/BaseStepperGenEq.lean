import ExponaxModel.Generated.BaseStepperGen
import ExponaxModel.Proofs.InterfaceAssembly
import ExponaxModel.Proofs.SpectralOpsEq
import ExponaxModel.Proofs.GuardsGenEq
import Mathlib.Tactic
/-
`BaseStepper` glue (`exponax/_base_stepper.py`), REGENERATED in `Generated/BaseStepperGen.lean` by
`harness/translate_base.py`, proved equal to the hand-written assembly the older theorems are about:

* `BaseStepper_step_fourier_eq`      — constructor order dispatch + `step_fourier` = `Interface.etdrkStep` of the user's
                                        `order`, `dt`, `num_circle_points`, `circle_radius` (orders 0..4; `none` otherwise)
* `BaseStepper_step_fourier_baseStep` — … = `Interface.baseStep` when the symbol / the nonlinear function are built from the
                                        derivative operator of `BaseStepper_init_derivative_operator_args`
* `BaseStepper_step_eq`               — `step` = model `irfftn ∘ step_fourier ∘ rfftn`, channel by channel
* `BaseStepper_call_eq`               — `__call__` = `step` on exactly the configured shape, a refusal otherwise
* pins of the attribute copies, the builder calls and the integrator classes (`rfl`)
* `build_ic_set` (key threading) and `mean_metric` (mean of the per-member metric)
-/
set_option linter.unusedVariables false
namespace Exponax.BaseStepperGenEq
open Exponax Exponax.Layout Exponax.Transform Exponax.Nonlin Exponax.Gen.Etdrk Exponax.Gen.StepperWiring
open Exponax.Gen.Base Exponax.Interface Exponax.Gen.SpectralOps Exponax.Gen.Guards
open Exponax.EquivND (liftTermND)

/-! ## pins: what `__init__` stores and forwards -/

theorem copies_pinned :
    BaseStepper_init_copies =
      [("num_spatial_dims", "num_spatial_dims"), ("domain_extent", "domain_extent"), ("num_points", "num_points"),
       ("dt", "dt"), ("num_channels", "num_channels")] := rfl

theorem builders_pinned :
    BaseStepper_init_builders =
      [("linear_operator", "_build_linear_operator"), ("nonlinear_fun", "_build_nonlinear_fun")] := rfl

theorem other_locals_pinned :
    BaseStepper_init_other_locals =
      [("single_channel_shape", "(1,) + wavenumber_shape(self.num_spatial_dims, self.num_points)"),
       ("multi_channel_shape", "(self.num_channels,) + wavenumber_shape(self.num_spatial_dims, self.num_points)")] := rfl

theorem generated_defs_pinned :
    Exponax.Gen.Base.generated_defs =
      ["BaseStepper_step_fourier", "BaseStepper_step", "BaseStepper_call", "build_ic_set", "mean_metric",
       "BaseStepper_init_attr_num_spatial_dims", "BaseStepper_init_attr_domain_extent",
       "BaseStepper_init_attr_num_points", "BaseStepper_init_attr_dt", "BaseStepper_init_attr_num_channels",
       "BaseStepper_init_attr_dx"] := rfl

/-- only `Wave` defines its own `step_fourier` (regenerated and proved equal to the wave model in `Proofs/SpectralOpsEq.lean`);
    NO stepper class defines its own `step` or `__call__` -/
theorem stepper_overrides_pinned : stepper_overrides = [("Wave", ["step_fourier"])] := rfl

theorem no_stepper_overrides_step_or_call :
    ∀ p ∈ stepper_overrides, "step" ∉ p.2 ∧ "__call__" ∉ p.2 := by
  decide

/-- the derivative operator handed to both builders is that of the user's `(D, L, N)`, default `"ij"` indexing -/
theorem derivative_operator_args (a : BaseStepperArgs ℂ) :
    BaseStepper_init_derivative_operator_args a = (a.num_spatial_dims, a.domain_extent, a.num_points, "ij") := rfl

/-- the stored attributes are the user's arguments; `dx = L / N` -/
theorem attrs (a : BaseStepperArgs ℂ) :
    BaseStepper_init_attr_num_spatial_dims a = a.num_spatial_dims ∧
    BaseStepper_init_attr_domain_extent a = a.domain_extent ∧
    BaseStepper_init_attr_num_points a = a.num_points ∧
    BaseStepper_init_attr_dt a = a.dt ∧
    BaseStepper_init_attr_num_channels a = a.num_channels ∧
    BaseStepper_init_attr_dx a = a.domain_extent / (a.num_points : ℂ) :=
  ⟨rfl, rfl, rfl, rfl, rfl, rfl⟩

/-- order `p` builds `ETDRKp`, for `p = 0..4`, and nothing else -/
theorem integrator_class (p : ℕ) :
    BaseStepper_init_integrator_class p = if p ≤ 4 then some s!"ETDRK{p}" else none := by
  rcases p with _ | _ | _ | _ | _ | p
  · rfl
  · rfl
  · rfl
  · rfl
  · rfl
  · have : ¬ (p + 1 + 1 + 1 + 1 + 1 ≤ 4) := by omega
    simp [BaseStepper_init_integrator_class, this]

/-! ## order dispatch + `step_fourier` -/

/-- the array with entries `f (lam ch h)` -/
def entrywiseOf (lam : Spec) : (ℂ → ℂ) → Spec := fun f ch h => f (lam ch h)

/-- THE GLUE: what `BaseStepper.__init__` builds for `order` and `step_fourier` then evaluates is the ETDRK step of
    that order with the USER's `dt`, `num_circle_points`, `circle_radius`, the class's linear operator and nonlinear
    function; other orders raise -/
theorem BaseStepper_step_fourier_eq (a : BaseStepperArgs ℂ) (lam : Spec) (N : Spec → Spec) (u : Spec) :
    BaseStepper_step_fourier a (entrywiseOf lam) N u
      = if a.order ≤ 4 then some (etdrkStep a.order a.dt lam a.num_circle_points a.circle_radius N u) else none := by
  obtain ⟨D, L, Np, dt, C, p, M, r⟩ := a
  simp only
  rcases p with _ | _ | _ | _ | _ | p
  · rfl
  · rfl
  · rfl
  · rfl
  · rfl
  · have : ¬ (p + 1 + 1 + 1 + 1 + 1 ≤ 4) := by omega
    simp [BaseStepper_step_fourier, this]

theorem BaseStepper_step_fourier_some (a : BaseStepperArgs ℂ) (h : a.order ≤ 4) (lam : Spec) (N : Spec → Spec)
    (u : Spec) :
    BaseStepper_step_fourier a (entrywiseOf lam) N u
      = some (etdrkStep a.order a.dt lam a.num_circle_points a.circle_radius N u) := by
  rw [BaseStepper_step_fourier_eq, if_pos h]

theorem BaseStepper_step_fourier_raises (a : BaseStepperArgs ℂ) (h : 4 < a.order) (lam : Spec) (N : Spec → Spec)
    (u : Spec) : BaseStepper_step_fourier a (entrywiseOf lam) N u = none := by
  rw [BaseStepper_step_fourier_eq, if_neg (by omega)]

/-- accepted orders are exactly those the regenerated constructor guard accepts -/
theorem BaseStepper_step_fourier_isSome_iff (a : BaseStepperArgs ℂ) (lam : Spec) (N : Spec → Spec) (u : Spec) :
    (BaseStepper_step_fourier a (entrywiseOf lam) N u).isSome = true ↔ a.order ≤ 4 := by
  rw [BaseStepper_step_fourier_eq]
  split <;> simp [*]

/-- … and it is `Interface.baseStep` (the assembly the C13 theorems are about) when the class builds symbol and
    nonlinear function from the derivative operator of the user's `(D, L, N)` -/
theorem BaseStepper_step_fourier_baseStep (b : BaseStepperArgs ℂ) (h : b.order ≤ 4) (linop : List ℂ → ℂ)
    (nonlin : Cfg ℂ → MC ℂ → MC ℂ) (u : Spec) :
    BaseStepper_step_fourier b
        (entrywiseOf (fun _ h => linop (kappa (baseCfg b.num_spatial_dims b.num_points b.domain_extent) h)))
        (liftTermND (baseCfg b.num_spatial_dims b.num_points b.domain_extent) b.num_channels
          (nonlin (baseCfg b.num_spatial_dims b.num_points b.domain_extent))) u
      = some (baseStep b linop nonlin u) := by
  rw [BaseStepper_step_fourier_some b h]
  rfl

/-! ## `step` and `__call__` -/

/-- `BaseStepper.step` = inverse model transform of `step_fourier` of the forward model transform, per channel -/
theorem BaseStepper_step_eq (a : BaseStepperArgs ℂ) (hD : 1 ≤ a.num_spatial_dims)
    (sf : MC ℂ → Option (MC ℂ)) (u : MC ℂ) :
    BaseStepper_step a sf u
      = (sf (tabC a.num_channels (fun i => rfftnM a.num_spatial_dims a.num_points (u.getD i #[])))).map
          (fun v => tabC a.num_channels (fun i => irfftnM a.num_spatial_dims a.num_points (v.getD i #[]))) := by
  unfold BaseStepper_step
  rw [(SpectralOpsEq.fft_eq a.num_channels a.num_spatial_dims a.num_points hD u).1]
  simp only
  cases hs : sf (tabC a.num_channels (fun i => rfftnM a.num_spatial_dims a.num_points (u.getD i #[]))) with
  | none => simp
  | some v =>
    simp only [Option.map_some]
    rw [(SpectralOpsEq.ifft_eq a.num_channels a.num_spatial_dims a.num_points hD v).1]

/-- `__call__` refuses every shape but `(C,) + (N,)*D` and is `step` on that one -/
theorem BaseStepper_call_eq (a : BaseStepperArgs ℂ) (sf : MC ℂ → Option (MC ℂ)) (shape : List ℕ) (u : MC ℂ) :
    BaseStepper_call a sf shape u
      = if shape = a.num_channels :: List.replicate a.num_spatial_dims a.num_points then BaseStepper_step a sf u
        else none := by
  unfold BaseStepper_call
  by_cases h : shape = a.num_channels :: List.replicate a.num_spatial_dims a.num_points
  · rw [if_pos h, if_pos ((BaseStepper_call_accepts_iff _ _ _ _).2 h)]
  · rw [if_neg h, if_neg (fun hh => h ((BaseStepper_call_accepts_iff _ _ _ _).1 hh))]

/-! ## `build_ic_set`: the key is threaded, sample `i` sees the `i`-th sub-key -/

section ic
variable {Key IC : Type}

/-- the carried key after `i` samples -/
def carried (split : Key → Key × Key) (key : Key) : ℕ → Key
  | 0 => key
  | i + 1 => (split (carried split key i)).1

theorem build_ic_set_fold (split : Key → Key × Key) (g : ℕ → Key → IC) (n S : ℕ) (key : Key) :
    (List.range S).foldl (fun (acc : Key × List IC) _ =>
        ((split acc.1).1, acc.2 ++ [g n (split acc.1).2])) (key, [])
      = (carried split key S, (List.range S).map (fun i => g n (split (carried split key i)).2)) := by
  induction S with
  | zero => rfl
  | succ S ih =>
    rw [List.range_succ, List.foldl_append, ih]
    simp [carried]

/-- `build_ic_set(gen, num_points=n, num_samples=S, key=key)[i] = gen(n, key = second half of the split of the key carried
    after i samples)` — a deterministic function of the key, `S` samples, sample `i` independent of `S` -/
theorem build_ic_set_eq (split : Key → Key × Key) (g : ℕ → Key → IC) (n S : ℕ) (key : Key) :
    build_ic_set split g n S key = (List.range S).map (fun i => g n (split (carried split key i)).2) := by
  unfold build_ic_set
  have := build_ic_set_fold split g n S key
  simp only at this ⊢
  rw [this]

theorem build_ic_set_length (split : Key → Key × Key) (g : ℕ → Key → IC) (n S : ℕ) (key : Key) :
    (build_ic_set split g n S key).length = S := by
  simp [build_ic_set_eq]

/-- a longer set extends a shorter one (same key): the first `S` samples do not depend on `num_samples` -/
theorem build_ic_set_prefix (split : Key → Key × Key) (g : ℕ → Key → IC) (n S S' : ℕ) (h : S ≤ S') (key : Key) :
    (build_ic_set split g n S' key).take S = build_ic_set split g n S key := by
  simp only [build_ic_set_eq, ← List.map_take]
  congr 1
  rw [List.take_range, Nat.min_eq_left h]

end ic

/-! ## `mean_metric` -/

theorem mean_metric_eq {S : Type} (f : S → ℂ) (args : List S) :
    mean_metric f args = (args.map f).sum / (args.length : ℂ) := by
  unfold mean_metric
  congr 1
  rw [← List.sum_eq_foldl]

/-- one batch member: the metric itself -/
theorem mean_metric_single {S : Type} (f : S → ℂ) (x : S) : mean_metric f [x] = f x := by
  simp [mean_metric_eq]

/-- a batch of identical members: the metric of one -/
theorem mean_metric_replicate {S : Type} (f : S → ℂ) (x : S) (n : ℕ) (hn : n ≠ 0) :
    mean_metric f (List.replicate n x) = f x := by
  have : (n : ℂ) ≠ 0 := by exact_mod_cast hn
  simp [mean_metric_eq, List.map_replicate, List.sum_replicate]
  field_simp

end Exponax.BaseStepperGenEq
