import ExponaxModel.Properties.C10
import ExponaxModel.Proofs.EquivarianceNDSteps
/-
SmallGaps, part G7 (C10 instantiation).

`C10_step_preserves` / `C10_rollout_preserves` take "N has divergence-free output at EVERY index h"
as a hypothesis, `C10_proj3d_divfree` concludes it for the stored modes `h < modes c`.  Bridge: the
model output is a `tab2 3 (modes c) …`, so every entry read beyond the stored modes is `0` and the
divergence there vanishes trivially (`projected3d_divfree_all`).  The model term is read as a map on
mode-first spectra `U : mode → channel → ℂ` (the convention of `C10.DivFree`) through the existing
lift `EquivND.liftTermND` (the lift of C08) and a transposition (`liftModeFirst`).

Headlines: `velocity_step_preserves`, `velocity_rollout_preserves` — every ETDRK-p step and every
rollout of the 3-D velocity stepper (N := projected3d with or without injection) maps divergence-free
spectra to divergence-free spectra.
-/
set_option linter.unusedVariables false
namespace Exponax.SmallGaps
open Exponax Exponax.Layout Exponax.Transform Exponax.Nonlin Exponax.Gen.Etdrk

/-- **bridge.** the divergence of the output of `projected3d` vanishes at EVERY index `h`
    (stored or not), with or without the injection -/
theorem projected3d_divfree_all (c : Cfg ℂ) (s : ℝ) (hs : c.s = (s : ℂ)) (hs0 : s ≠ 0) (hD : c.D ≤ 3)
    (inj : Option (ℕ × ℂ)) (uh : MC ℂ) (h : ℕ) :
    sumList ((List.range c.D).map (fun d => deriv c d h * at2 (projected3d c inj uh) d h)) = 0 := by
  rcases Nat.lt_or_ge h (modes c) with hh | hh
  · exact C10_proj3d_divfree c s hs hs0 hD inj uh h hh
  · apply Alias.sumList_range_zero
    intro d
    have : at2 (projected3d c inj uh) d h = 0 := by
      unfold projected3d
      exact at2_tab2_of_le_idx _ _ _ d h hh
    rw [this, mul_zero]

/-- transposition between the mode-first convention of `C10.DivFree` and the channel-first one of
    `EquivND.liftTermND` -/
def tr (U : ℕ → ℕ → ℂ) : ℕ → ℕ → ℂ := fun a b => U b a

/-- a model term with `C` input channels as a map on mode-first spectra `mode → channel → ℂ` -/
noncomputable def liftModeFirst (c : Cfg ℂ) (C : ℕ) (T : MC ℂ → MC ℂ) (U : ℕ → ℕ → ℂ) : ℕ → ℕ → ℂ :=
  tr (EquivND.liftTermND c C T (tr U))

/-- at a stored mode the lift reads the model term on the tabulated spectrum, `0` beyond -/
theorem liftModeFirst_apply (c : Cfg ℂ) (C : ℕ) (T : MC ℂ → MC ℂ) (U : ℕ → ℕ → ℂ) (h d : ℕ) :
    liftModeFirst c C T U h d
      = if h < modes c then at2 (T (tab2 C (modes c) (fun ch m => U m ch))) d h else 0 := rfl

/-- the hypothesis `hN` of `C10_step_preserves` holds for the 3-D rotational convection term -/
theorem projected3d_lift_divFree (c : Cfg ℂ) (s : ℝ) (hs : c.s = (s : ℂ)) (hs0 : s ≠ 0) (hD : c.D ≤ 3)
    (inj : Option (ℕ × ℂ)) (V : ℕ → ℕ → ℂ) :
    DivFree c (liftModeFirst c 3 (projected3d c inj) V) := by
  intro h
  unfold vecDiv
  rcases Nat.lt_or_ge h (modes c) with hh | hh
  · have e : ∀ d, liftModeFirst c 3 (projected3d c inj) V h d
        = at2 (projected3d c inj (tab2 3 (modes c) (fun ch m => V m ch))) d h := by
      intro d; rw [liftModeFirst_apply, if_pos hh]
    simp only [e]
    rw [← sumList_range_eq]
    exact C10_proj3d_divfree c s hs hs0 hD inj _ h hh
  · apply Finset.sum_eq_zero
    intro d _
    rw [liftModeFirst_apply, if_neg (by omega), mul_zero]

/-- **G7 (one step).** every ETDRK-p step (`p = 0..4`, any coefficient arrays shared by the
    channels) of the 3-D velocity stepper — nonlinear term `projected3d`, with or without the
    Kolmogorov injection — maps divergence-free spectra to divergence-free spectra -/
theorem velocity_step_preserves (c : Cfg ℂ) (s : ℝ) (hs : c.s = (s : ℂ)) (hs0 : s ≠ 0) (hD : c.D ≤ 3)
    (inj : Option (ℕ × ℂ)) (e eh a1 a2 a3 a4 a5 a6 : ℕ → ℂ) (U : ℕ → ℕ → ℂ) (hU : DivFree c U) :
    let b := fun (x : ℕ → ℂ) => (fun h (_ : ℕ) => x h)
    let N := liftModeFirst c 3 (projected3d c inj)
    DivFree c (E0step (b e) U) ∧
    DivFree c (E1step (b e) (b a1) N U) ∧
    DivFree c (E2step (b e) (b a1) (b a2) N U) ∧
    DivFree c (E3step (b e) (b eh) (b a1) (b a2) (b a3) (b a4) (b a5) N U) ∧
    DivFree c (E4step (b e) (b eh) (b a1) (b a2) (b a3) (b a4) (b a5) (b a6) N U) :=
  C10_step_preserves c e eh a1 a2 a3 a4 a5 a6 _ (projected3d_lift_divFree c s hs hs0 hD inj) U hU

/-- **G7 (rollout).** … and so does every rollout of any length, for every order -/
theorem velocity_rollout_preserves (c : Cfg ℂ) (s : ℝ) (hs : c.s = (s : ℂ)) (hs0 : s ≠ 0) (hD : c.D ≤ 3)
    (inj : Option (ℕ × ℂ)) (e eh a1 a2 a3 a4 a5 a6 : ℕ → ℂ) (n : ℕ) (U : ℕ → ℕ → ℂ) (hU : DivFree c U) :
    let b := fun (x : ℕ → ℂ) => (fun h (_ : ℕ) => x h)
    let N := liftModeFirst c 3 (projected3d c inj)
    DivFree c ((E0step (b e))^[n] U) ∧
    DivFree c ((E1step (b e) (b a1) N)^[n] U) ∧
    DivFree c ((E2step (b e) (b a1) (b a2) N)^[n] U) ∧
    DivFree c ((E3step (b e) (b eh) (b a1) (b a2) (b a3) (b a4) (b a5) N)^[n] U) ∧
    DivFree c ((E4step (b e) (b eh) (b a1) (b a2) (b a3) (b a4) (b a5) (b a6) N)^[n] U) := by
  intro b N
  have S := fun W hW => velocity_step_preserves c s hs hs0 hD inj e eh a1 a2 a3 a4 a5 a6 W hW
  exact ⟨C10_rollout_preserves c _ (fun W hW => (S W hW).1) n U hU,
    C10_rollout_preserves c _ (fun W hW => (S W hW).2.1) n U hU,
    C10_rollout_preserves c _ (fun W hW => (S W hW).2.2.1) n U hU,
    C10_rollout_preserves c _ (fun W hW => (S W hW).2.2.2.1) n U hU,
    C10_rollout_preserves c _ (fun W hW => (S W hW).2.2.2.2) n U hU⟩

/-! non-vacuity: a configuration satisfying the hypotheses, and a divergence-free spectrum (`0`;
a non-trivial one is any `leray` output, `C10_leray_divfree`) -/
example : ∃ c : Cfg ℂ, ∃ s : ℝ, c.s = (s : ℂ) ∧ s ≠ 0 ∧ c.D ≤ 3 ∧ DivFree c 0 :=
  ⟨{ D := 3, N := 4, s := ((1 : ℝ) : ℂ), fp := 2, fq := 3 }, 1, rfl, one_ne_zero, by decide,
    fun h => by unfold vecDiv; simp⟩

/-- a NON-trivial divergence-free spectrum: the mode-first read-off of any Leray output -/
theorem divFree_of_leray (c : Cfg ℂ) (s : ℝ) (hs : c.s = (s : ℂ)) (hs0 : s ≠ 0) (uh : MC ℂ) :
    DivFree c (fun h d => if h < modes c then at2 (leray c uh) d h else 0) := by
  intro h
  unfold vecDiv
  rcases Nat.lt_or_ge h (modes c) with hh | hh
  · simp only [if_pos hh]
    rw [← sumList_range_eq]
    exact C10_leray_divfree c s hs hs0 uh h hh
  · simp only [if_neg (Nat.not_lt.mpr hh), mul_zero, Finset.sum_const_zero]

end Exponax.SmallGaps
