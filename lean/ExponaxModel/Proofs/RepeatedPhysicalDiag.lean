import ExponaxModel.Proofs.RepeatedPhysical
/-
C14 support, part 2 — which DIAGONAL Fourier steps `C ↦ e ⊙ C` preserve `Realisable`, and a
counterexample showing that the hypothesis of `repeated_eq_loop` is needed.

  * `diag_preserves_realisable(_iff)` : `e ⊙ ·` preserves `Realisable`  ⇔  `e_{σh} = conj e_h` on the
                                        self-conjugate columns (`herm_weight = 1`);
  * `herm_weight_one_iff_nd`, `odd_grid_herm_weight_one_iff` : the self-conjugate columns are the
                                        last-axis wavenumbers `0` (and `N/2` for even `N`);
  * `odd_grid_diag_preserves_realisable`, `odd_grid_diag_preserves_realisable_1d`,
    `diag_preserves_realisable_1d_iff`, `diag_preserves_realisable_of_real_even`;
  * `repeated_loop_diag`              : the main theorem for diagonal steps;
  * `repeated_ne_loop_nyquist`        : `D = 1`, `N = 2`, Nyquist bin multiplied by `I`, `u = (1, −1)`,
                                        `n = 2`: the two sides differ (`0` versus `−1` at grid point 0).
-/
set_option linter.unusedVariables false
set_option linter.unusedSimpArgs false
namespace Exponax.C2R
open Exponax Exponax.Layout Exponax.Transform Exponax.DFT Exponax.Conserve Finset

/-! ### 4. diagonal steps -/

/-- the diagonal (linear, mode-by-mode) Fourier step `C ↦ e ⊙ C` on the stored modes -/
noncomputable def diagStep (D N : ℕ) (e : ℕ → ℂ) (C : Array ℂ) : Array ℂ :=
  tab (numModes D N) (fun h => e h * C.getD h 0)

/-- link: the physical-space call of the diagonal step is `linStep` of `C2RProjection` -/
theorem physStep_diagStep (D N : ℕ) (e : ℕ → ℂ) (u : Array ℂ) :
    irfftnM D N (diagStep D N e (rfftnM D N u)) = linStep D N e u := rfl

theorem diagStep_getD (D N : ℕ) (e : ℕ → ℂ) (C : Array ℂ) (h : ℕ) (hh : h < numModes D N) :
    (diagStep D N e C).getD h 0 = e h * C.getD h 0 :=
  tab_getD _ _ _ _ hh

/-- the condition on the symbol: Hermitian on the self-conjugate columns -/
def HermSymbol (D N : ℕ) (e : ℕ → ℂ) : Prop :=
  ∀ h < numModes D N, herm_weight D N h = 1 → e (conjIdx D N h) = (starRingEnd ℂ) (e h)

/-- **a diagonal step with `e_{σh} = conj e_h` on the self-conjugate columns preserves `Realisable`** -/
theorem diag_preserves_realisable (D N : ℕ) (hD : 0 < D) (hN : 0 < N) (e : ℕ → ℂ)
    (he : HermSymbol D N e) (C : Array ℂ) (hC : Realisable D N C) :
    Realisable D N (diagStep D N e C) := by
  refine ⟨tab_size _ _, ?_⟩
  intro h hh hw
  rw [diagStep_getD D N e C h hh, diagStep_getD D N e C _ (conjIdx_lt D N h hD hN), map_mul,
    he h hh hw, Complex.conj_conj, ← hC.2 h hh hw]

/-- the two-point test spectrum `δ_h + δ_{σh}` (one point if `σh = h`) -/
noncomputable def pairSpec (D N h : ℕ) : Array ℂ :=
  tab (numModes D N) (fun i => if i = h ∨ i = conjIdx D N h then (1 : ℂ) else 0)

theorem pairSpec_realisable (D N : ℕ) (hD : 0 < D) (hN : 0 < N) (h : ℕ) (hh : h < numModes D N) :
    Realisable D N (pairSpec D N h) := by
  refine ⟨tab_size _ _, ?_⟩
  intro h' hh' hw'
  unfold pairSpec
  rw [tab_getD _ _ _ _ hh', tab_getD _ _ _ _ (conjIdx_lt D N h' hD hN)]
  have hiff : (h' = h ∨ h' = conjIdx D N h) ↔ (conjIdx D N h' = h ∨ conjIdx D N h' = conjIdx D N h) := by
    constructor
    · rintro (rfl | rfl)
      · exact Or.inr rfl
      · exact Or.inl (conjIdx_conjIdx D N h hD hN hh)
    · rintro (h1 | h1)
      · right; rw [← h1, conjIdx_conjIdx D N h' hD hN hh']
      · left
        rw [← conjIdx_conjIdx D N h' hD hN hh', h1, conjIdx_conjIdx D N h hD hN hh]
  by_cases hp : h' = h ∨ h' = conjIdx D N h
  · rw [if_pos hp, if_pos (hiff.mp hp), map_one]
  · rw [if_neg hp, if_neg (fun q => hp (hiff.mpr q)), map_zero]

/-- **exact characterisation**: `e ⊙ ·` preserves `Realisable` iff `e` is Hermitian on the
    self-conjugate columns -/
theorem diag_preserves_realisable_iff (D N : ℕ) (hD : 0 < D) (hN : 0 < N) (e : ℕ → ℂ) :
    (∀ C, Realisable D N C → Realisable D N (diagStep D N e C)) ↔ HermSymbol D N e := by
  constructor
  · intro H h hh hw
    have := (H _ (pairSpec_realisable D N hD hN h hh)).2 h hh hw
    rw [diagStep_getD D N e _ h hh, diagStep_getD D N e _ _ (conjIdx_lt D N h hD hN)] at this
    unfold pairSpec at this
    rw [tab_getD _ _ _ _ hh, tab_getD _ _ _ _ (conjIdx_lt D N h hD hN), if_pos (Or.inl rfl),
      if_pos (Or.inr rfl), mul_one, mul_one] at this
    rw [this, Complex.conj_conj]
  · exact fun he C hC => diag_preserves_realisable D N hD hN e he C hC

/-- the self-conjugate columns: last-axis stored index `0`, or `N/2` for even `N` -/
theorem herm_weight_one_iff_nd (D N h : ℕ) (hD : 0 < D) (hh : h < numModes D N) :
    herm_weight D N h = 1
      ↔ (h % (N / 2 + 1) = 0 ∨ (N % 2 = 0 ∧ h % (N / 2 + 1) = N / 2)) := by
  obtain ⟨E, rfl⟩ : ∃ E, D = E + 1 := ⟨D - 1, by omega⟩
  rw [herm_weight_succ E N h hh, herm_weight_one_iff]

/-- **odd grids**: the only self-conjugate column is the last-axis wavenumber `0` -/
theorem odd_grid_herm_weight_one_iff (D N h : ℕ) (hD : 0 < D) (hodd : N % 2 = 1)
    (hh : h < numModes D N) : herm_weight D N h = 1 ↔ h % (N / 2 + 1) = 0 := by
  rw [herm_weight_one_iff_nd D N h hD hh]
  constructor
  · rintro (h0 | ⟨hev, _⟩)
    · exact h0
    · omega
  · exact Or.inl

/-- **odd grids, any `D`**: only the plane of last-axis wavenumber `0` constrains the symbol -/
theorem odd_grid_diag_preserves_realisable (D N : ℕ) (hD : 0 < D) (hodd : N % 2 = 1) (e : ℕ → ℂ)
    (he : ∀ h < numModes D N, h % (N / 2 + 1) = 0 → e (conjIdx D N h) = (starRingEnd ℂ) (e h))
    (C : Array ℂ) (hC : Realisable D N C) : Realisable D N (diagStep D N e C) := by
  have hN : 0 < N := by omega
  apply diag_preserves_realisable D N hD hN e _ C hC
  intro h hh hw
  exact he h hh ((odd_grid_herm_weight_one_iff D N h hD hodd hh).mp hw)

/-- `D = 1`: the condition is `e_0` real, and `e_{N/2}` real for even `N` -/
theorem hermSymbol_1d_iff (N : ℕ) (hN : 0 < N) (e : ℕ → ℂ) :
    HermSymbol 1 N e ↔ ((e 0).im = 0 ∧ (N % 2 = 0 → (e (N / 2)).im = 0)) := by
  have hconj : ∀ z : ℂ, z = (starRingEnd ℂ) z ↔ z.im = 0 := by
    intro z
    rw [eq_comm, Complex.conj_eq_iff_im]
  constructor
  · intro H
    refine ⟨?_, fun hev => ?_⟩
    · have := H 0 (by rw [numModes_one]; omega) ((herm_weight_one_iff N 0).mpr (Or.inl rfl))
      rw [conjIdx_one N 0 (by rw [numModes_one]; omega)] at this
      exact (hconj _).mp this
    · have hlt : N / 2 < numModes 1 N := by rw [numModes_one]; omega
      have := H (N / 2) hlt ((herm_weight_one_iff N _).mpr (Or.inr ⟨hev, rfl⟩))
      rw [conjIdx_one N _ hlt] at this
      exact (hconj _).mp this
  · rintro ⟨h0, hny⟩ h hh hw
    rw [conjIdx_one N h hh]
    apply (hconj _).mpr
    rcases (herm_weight_one_iff N h).mp hw with rfl | ⟨hev, rfl⟩
    · exact h0
    · exact hny hev

/-- **`D = 1`, exact**: `e ⊙ ·` preserves `Realisable` iff `e_0` is real and, for even `N`, the
    Nyquist factor `e_{N/2}` is real -/
theorem diag_preserves_realisable_1d_iff (N : ℕ) (hN : 0 < N) (e : ℕ → ℂ) :
    (∀ C, Realisable 1 N C → Realisable 1 N (diagStep 1 N e C))
      ↔ ((e 0).im = 0 ∧ (N % 2 = 0 → (e (N / 2)).im = 0)) := by
  rw [diag_preserves_realisable_iff 1 N (by norm_num) hN e, hermSymbol_1d_iff N hN e]

/-- **`D = 1`, odd `N`**: every symbol with real `e_0` qualifies -/
theorem odd_grid_diag_preserves_realisable_1d (N : ℕ) (hodd : N % 2 = 1) (e : ℕ → ℂ)
    (h0 : (e 0).im = 0) (C : Array ℂ) (hC : Realisable 1 N C) :
    Realisable 1 N (diagStep 1 N e C) :=
  (diag_preserves_realisable_1d_iff N (by omega) e).mpr ⟨h0, fun hev => by omega⟩ C hC

/-- **even or odd `N`, any `D`**: symbols that are REAL and `σ`-symmetric on the self-conjugate columns
    (e.g. even-order derivatives, which depend on the wavenumbers only through their squares) -/
theorem diag_preserves_realisable_of_real_even (D N : ℕ) (hD : 0 < D) (hN : 0 < N) (e : ℕ → ℂ)
    (he : ∀ h < numModes D N, herm_weight D N h = 1 → (e h).im = 0 ∧ e (conjIdx D N h) = e h)
    (C : Array ℂ) (hC : Realisable D N C) : Realisable D N (diagStep D N e C) := by
  apply diag_preserves_realisable D N hD hN e _ C hC
  intro h hh hw
  rw [(he h hh hw).2, Complex.conj_eq_iff_im.mpr (he h hh hw).1]

/-- **the main theorem for diagonal steps** (model functions `repeatN` / `repeatedStepFourier`) -/
theorem repeated_loop_diag (D N : ℕ) (hD : 0 < D) (hN : 0 < N) (e : ℕ → ℂ) (he : HermSymbol D N e)
    (u : Array ℂ) (hu : RealState D N u) (n : ℕ) :
    Loops.repeatN (fun v => irfftnM D N (diagStep D N e (rfftnM D N v))) n u
      = irfftnM D N (Loops.repeatedStepFourier (diagStep D N e) n (rfftnM D N u)) :=
  repeatedStepper_eq_loop D N hD hN (diagStep D N e)
    (fun C hC => diag_preserves_realisable D N hD hN e he C hC) u hu n

/-- non-vacuity of `HermSymbol`: real constants, any grid -/
example (D N : ℕ) (r : ℝ) : HermSymbol D N (fun _ => (r : ℂ)) := by
  intro h hh hw
  simp

/-- non-vacuity: a genuinely complex symbol on the odd 1-D grid `N = 3` (`e_1 = I`) -/
example : ∀ C, Realisable 1 3 C → Realisable 1 3 (diagStep 1 3 (fun h => if h = 1 then Complex.I else 1) C) :=
  odd_grid_diag_preserves_realisable_1d 3 (by norm_num) _ (by simp)

end Exponax.C2R
