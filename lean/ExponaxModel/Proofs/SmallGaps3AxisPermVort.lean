import ExponaxModel.Proofs.SmallGaps3AxisPerm
/-
SmallGaps3, part K4 (C08): the 2-D vorticity convection term `vorticity2d c scale none` under the TRANSPOSITION of the two
axes.  The vorticity is a pseudo-scalar: `u·∇ω` with `u = (∂₁ψ, −∂₀ψ)`, `ψ = Δ⁻¹ω`, changes sign when the two axes are swapped,
and it is even (quadratic) in `ω`.  Relation form (as in `AxisPermTerms`), `σ = swapσ` (swap of axes 0 and 1), `PermCfg c`,
Nyquist-free related spectra, real scale:

  * `vorticity2d_swap`       `MCSpecPerm c σ id ω̂ ω̂' → MCSpecPerm c σ id (T ω̂) (negMC (T ω̂'))`      i.e.  `T(P_σ ω) = −P_σ T(ω)`;
  * `vorticity2d_even`       `T(−ω̂) = T(ω̂)` at every stored entry;
  * `vorticity2d_swap_neg`   `MCSpecPerm c σ id ω̂ ω̂' → MCSpecPerm c σ id (T ω̂) (negMC (T (negMC ω̂')))`
                             i.e. the term commutes with `ω ↦ −P_σ ω`:  `T(−P_σ ω) = −P_σ T(ω)`.

The statements need only two axes to swap (`2 ≤ D`; `D = 2` is the model's use: then `σ` is THE transposition).  With the
Kolmogorov injection (which singles out axis 1) the term is NOT swap-equivariant; `none` only.
Step level: `SmallGaps3AxisPermVortSteps.lean`.
-/
set_option linter.unusedVariables false
namespace Exponax.SmallGaps3
open Exponax Exponax.Layout Exponax.Transform Exponax.DFT Exponax.AliasND Exponax.Nonlin Exponax.Alias Exponax.AxisPerm
open Finset

/-! ### negation through the transforms -/

/-- entrywise negation of a (one-channel) stored spectrum -/
noncomputable def negMC (c : Cfg ℂ) (uh : MC ℂ) : MC ℂ := tab2 1 (modes c) (fun ch h => -at2 uh ch h)

theorem at2_negMC (c : Cfg ℂ) (uh : MC ℂ) (h : ℕ) (hh : h < modes c) : at2 (negMC c uh) 0 h = -at2 uh 0 h :=
  Nonlin.at2_tab2 _ _ _ _ _ Nat.zero_lt_one hh

theorem at2_negMC_any (c : Cfg ℂ) (uh : MC ℂ) (ch h : ℕ) :
    at2 (negMC c uh) ch h = if ch < 1 ∧ h < modes c then -at2 uh ch h else 0 := at2_tab2_any _ _ _ _ _

theorem irfftnM_neg_getD (D N : ℕ) (hN : 0 < N) (f : ℕ → ℂ) (j : ℕ) (hj : j < N ^ D) :
    (irfftnM D N (tab (numModes D N) fun h => -f h)).getD j 0 = -(irfftnM D N (tab (numModes D N) f)).getD j 0 := by
  have e : (tab (numModes D N) fun h => -f h) = tab (numModes D N) fun h => (fun _ => (0 : ℂ)) h - f h :=
    Nonlin.tab_congr _ _ _ (fun m _ => by ring)
  rw [e, irfftnM_sub_getD D N hN _ _ j hj,
    irfftnM_zero_getD D N hN _ (fun m hm => DFT.tab_getD _ _ _ _ hm) j hj, zero_sub]

theorem nifft_tab_neg (c : Cfg ℂ) (hN : 0 < c.N) (f : ℕ → ℂ) (j : ℕ) (hj : j < c.N ^ c.D) :
    (nifft c (tab (modes c) fun h => -f h)).getD j 0 = -(nifft c (tab (modes c) f)).getD j 0 := by
  unfold nifft
  have e1 : (tab (modes c) fun h => mask c h * (tab (modes c) fun h => -f h).getD h 0)
      = tab (numModes c.D c.N) fun h => -(mask c h * f h) :=
    Nonlin.tab_congr _ _ _ (fun m hm => by rw [Nonlin.tab_getD _ _ _ _ hm]; ring)
  have e2 : (tab (modes c) fun h => mask c h * (tab (modes c) f).getD h 0)
      = tab (numModes c.D c.N) fun h => mask c h * f h :=
    Nonlin.tab_congr _ _ _ (fun m hm => by rw [Nonlin.tab_getD _ _ _ _ hm])
  rw [e1, e2, irfftnM_neg_getD c.D c.N hN _ j hj]

theorem rfftnM_neg_getD (D N : ℕ) (hN : 0 < N) (f : ℕ → ℂ) (h : ℕ) (hh : h < numModes D N) :
    (rfftnM D N (tab (N ^ D) fun x => -f x)).getD h 0 = -(rfftnM D N (tab (N ^ D) f)).getD h 0 := by
  rw [rfftnM_getD D N hN _ h hh, rfftnM_getD D N hN _ h hh, ← Finset.sum_neg_distrib]
  apply Finset.sum_congr rfl
  intro j hj
  rw [DFT.tab_getD _ _ _ _ (Finset.mem_range.mp hj), DFT.tab_getD _ _ _ _ (Finset.mem_range.mp hj)]
  ring

theorem nfft_tab_neg (c : Cfg ℂ) (hN : 0 < c.N) (f : ℕ → ℂ) (h : ℕ) (hh : h < modes c) :
    (nfft c (tab (gridSize c) fun x => -f x)).getD h 0 = -(nfft c (tab (gridSize c) f)).getD h 0 := by
  rw [nfft_getD c _ h hh, nfft_getD c _ h hh]
  show mask c h * (rfftnM c.D c.N (tab (c.N ^ c.D) fun x => -f x)).getD h 0 = _
  rw [rfftnM_neg_getD c.D c.N hN f h hh]
  show _ = -(mask c h * (rfftnM c.D c.N (tab (c.N ^ c.D) f)).getD h 0)
  ring

/-! ### the two axes and the fields of the model in multiplier form -/

def ax0 (c : Cfg ℂ) (hD : 2 ≤ c.D) : Fin c.D := ⟨0, by omega⟩
def ax1 (c : Cfg ℂ) (hD : 2 ≤ c.D) : Fin c.D := ⟨1, by omega⟩

/-- the transposition of axes 0 and 1 -/
def swapσ (c : Cfg ℂ) (hD : 2 ≤ c.D) : Equiv.Perm (Fin c.D) := Equiv.swap (ax0 c hD) (ax1 c hD)

theorem swapσ_ax0 (c : Cfg ℂ) (hD : 2 ≤ c.D) : swapσ c hD (ax0 c hD) = ax1 c hD := Equiv.swap_apply_left _ _
theorem swapσ_ax1 (c : Cfg ℂ) (hD : 2 ≤ c.D) : swapσ c hD (ax1 c hD) = ax0 c hD := Equiv.swap_apply_right _ _

/-- the symbol `(i s k_e)·Δ̂⁻¹` (guarded inverse `where(Δ̂ == 0, 1, 1/Δ̂)`) -/
noncomputable def wsym (c : Cfg ℂ) (e : Fin c.D) (k : Fin c.D → ℤ) : ℂ := derivFn c e k * invLapSym c k

theorem invLapSym_comp (c : Cfg ℂ) (σ : Equiv.Perm (Fin c.D)) (k : Fin c.D → ℤ) :
    invLapSym c (k ∘ σ) = invLapSym c k := by
  unfold invLapSym
  rw [lapsym_comp]

theorem wsym_neg (c : Cfg ℂ) (hs : c.s.im = 0) (e : Fin c.D) (k : Fin c.D → ℤ) :
    wsym c e (-k) = (starRingEnd ℂ) (wsym c e k) := by
  unfold wsym
  rw [map_mul, derivFn_neg c hs, conj_invLapSym c c.s.re (s_eq_re c hs)]

theorem wsym_comp (c : Cfg ℂ) (σ : Equiv.Perm (Fin c.D)) (e : Fin c.D) (k : Fin c.D → ℤ) :
    wsym c e (k ∘ σ) = wsym c (σ e) k := by
  unfold wsym
  rw [invLapSym_comp, derivFn_comp]

/-- `∂_e ψ = ifft(mask·(i s k_e) Δ̂⁻¹ ω̂)` -/
noncomputable def Wf (c : Cfg ℂ) (e : Fin c.D) (a : Array ℂ) : Array ℂ :=
  nifft c (tab (modes c) fun m => wsym c e (kvec c.D c.N m) * a.getD m 0)

/-- `∂_e ω = ifft(mask·(i s k_e) ω̂)` -/
noncomputable def Xf (c : Cfg ℂ) (e : Fin c.D) (a : Array ℂ) : Array ℂ :=
  nifft c (tab (modes c) fun m => Nonlin.deriv c e m * a.getD m 0)

/-- the convection integrand `u ∂₀ω + v ∂₁ω`, `u = ∂₁ψ`, `v = −∂₀ψ` -/
noncomputable def vortInt (c : Cfg ℂ) (hD : 2 ≤ c.D) (a : Array ℂ) (x : ℕ) : ℂ :=
  (Wf c (ax1 c hD) a).getD x 0 * (Xf c (ax0 c hD) a).getD x 0
    - (Wf c (ax0 c hD) a).getD x 0 * (Xf c (ax1 c hD) a).getD x 0

/-- **pipeline read-off** of `vorticity2d` without injection, any input -/
theorem vorticity2d_at2 (c : Cfg ℂ) (hD : 2 ≤ c.D) (hN : 0 < c.N) (scale : ℂ) (uh : MC ℂ) (h : ℕ) (hh : h < modes c) :
    at2 (vorticity2d c scale none uh) 0 h
      = -scale * (nfft c (tab (gridSize c) (vortInt c hD (uh.getD 0 #[])))).getD h 0 := by
  have eu : nifft c (tab (modes c) fun k => deriv c 1 k *
        (tab (modes c) fun k => invLapOne c k * at2 uh 0 k).getD k 0) = Wf c (ax1 c hD) (uh.getD 0 #[]) := by
    unfold Wf wsym
    apply EquivND.nifft_congr
    intro i hi
    have d1 : deriv c 1 i = derivFn c (ax1 c hD) (kvec c.D c.N i) := deriv_eq_derivFn c (ax1 c hD) i
    have a0 : at2 uh 0 i = (uh.getD 0 #[]).getD i 0 := rfl
    rw [Nonlin.tab_getD _ _ _ _ hi, Nonlin.tab_getD _ _ _ _ hi, Nonlin.tab_getD _ _ _ _ hi, invLapOne_eq_invLapSym,
      d1, a0]
    ring
  have ev : ∀ x, x < c.N ^ c.D → (nifft c (tab (modes c) fun k => -(deriv c 0 k) *
        (tab (modes c) fun k => invLapOne c k * at2 uh 0 k).getD k 0)).getD x 0
        = -(Wf c (ax0 c hD) (uh.getD 0 #[])).getD x 0 := by
    intro x hx
    unfold Wf
    rw [← nifft_tab_neg c hN _ x hx]
    refine congrArg (fun Z : Array ℂ => Z.getD x 0) ?_
    apply EquivND.nifft_congr
    intro i hi
    have d0 : deriv c 0 i = derivFn c (ax0 c hD) (kvec c.D c.N i) := deriv_eq_derivFn c (ax0 c hD) i
    have a0 : at2 uh 0 i = (uh.getD 0 #[]).getD i 0 := rfl
    rw [Nonlin.tab_getD _ _ _ _ hi, Nonlin.tab_getD _ _ _ _ hi, Nonlin.tab_getD _ _ _ _ hi, invLapOne_eq_invLapSym,
      d0, a0]
    unfold wsym
    ring
  unfold vorticity2d
  simp only []
  rw [Nonlin.at2_tab2 _ _ _ _ _ Nat.zero_lt_one hh, eu]
  refine congrArg (fun A : Array ℂ => -scale * (nfft c A).getD h 0) (Nonlin.tab_congr _ _ _ ?_)
  intro x hx
  rw [ev x hx]
  unfold vortInt
  show _ * (Xf c (ax0 c hD) (uh.getD 0 #[])).getD x 0 + _ * (Xf c (ax1 c hD) (uh.getD 0 #[])).getD x 0 = _
  ring

theorem vorticity2d_at2_out (c : Cfg ℂ) (scale : ℂ) (uh : MC ℂ) (ch h : ℕ) (hch : 1 ≤ ch) :
    at2 (vorticity2d c scale none uh) ch h = 0 := by
  unfold vorticity2d
  exact at2_tab2_of_le_ch _ _ _ _ _ hch

theorem vortInt_real (c : Cfg ℂ) (hD : 2 ≤ c.D) (hN : 0 < c.N) (a : Array ℂ) (x : ℕ) (hx : x < gridSize c) :
    (vortInt c hD a x).im = 0 := by
  unfold vortInt Wf Xf
  exact im_sub_real (im_mul_real (nifft_isRealND c hN _ x hx) (nifft_isRealND c hN _ x hx))
    (im_mul_real (nifft_isRealND c hN _ x hx) (nifft_isRealND c hN _ x hx))

/-! ### the swap -/

/-- the integrand of the transposed vorticity is MINUS the transposed integrand -/
theorem vortInt_swap (c : Cfg ℂ) (hc : PermCfg c) (hD : 2 ≤ c.D) (a a' : Array ℂ)
    (h : SpecPerm c.D c.N (swapσ c hD) a a') (x : ℕ) (hx : x < gridSize c) :
    vortInt c hD a' x = -vortInt c hD a (permIdx c.D c.N (swapσ c hD) x) := by
  have W : ∀ e : Fin c.D, FieldPerm c.D c.N (swapσ c hD) (Wf c e a) (Wf c (swapσ c hD e) a') := by
    intro e
    have key := nifft_mul_fieldPerm c hc.hD hc.hN (swapσ c hD) (wsym c e) (wsym_neg c hc.hs e) a a' h
    unfold Wf
    have e2 : (tab (modes c) fun m => wsym c (swapσ c hD e) (kvec c.D c.N m) * a'.getD m 0)
        = tab (modes c) fun m => wsym c e (kvec c.D c.N m ∘ swapσ c hD) * a'.getD m 0 :=
      Nonlin.tab_congr _ _ _ (fun m _ => by rw [wsym_comp])
    rw [e2]
    exact key
  have X : ∀ e : Fin c.D, FieldPerm c.D c.N (swapσ c hD) (Xf c e a) (Xf c (swapσ c hD e) a') :=
    fun e => nifft_deriv_fieldPerm c hc.hD hc.hN hc.hs (swapσ c hD) e a a' h
  have w0 := W (ax0 c hD) x hx
  have w1 := W (ax1 c hD) x hx
  have x0 := X (ax0 c hD) x hx
  have x1 := X (ax1 c hD) x hx
  rw [swapσ_ax0] at w0 x0
  rw [swapσ_ax1] at w1 x1
  unfold vortInt
  rw [w0, w1, x0, x1]
  ring

/-- **K4, vorticity, anti-equivariance**: `T(P_σ ω) = −P_σ T(ω)` for the transposition `σ` -/
theorem vorticity2d_swap (c : Cfg ℂ) (hc : PermCfg c) (hD : 2 ≤ c.D) (scale : ℂ) (hsc : scale.im = 0)
    (uh uh' : MC ℂ) (h : MCSpecPerm c (swapσ c hD) id uh uh') :
    MCSpecPerm c (swapσ c hD) id (vorticity2d c scale none uh) (negMC c (vorticity2d c scale none uh')) := by
  have h0 : SpecPerm c.D c.N (swapσ c hD) (uh.getD 0 #[]) (uh'.getD 0 #[]) :=
    mcSpecPerm_chan c hc.hN (swapσ c hD) id uh uh' h 0
  have hconv : SpecPerm c.D c.N (swapσ c hD)
      (nfft c (tab (gridSize c) (vortInt c hD (uh.getD 0 #[]))))
      (nfft c (tab (gridSize c) fun x => vortInt c hD (uh.getD 0 #[]) (permIdx c.D c.N (swapσ c hD) x))) :=
    nfft_tab_specPerm c hc (swapσ c hD) _ _ (fun x hx => vortInt_real c hD hc.hN _ x hx) (fun x hx => rfl)
  have key := specPerm_smul c.D c.N hc.hD hc.hN (swapσ c hD) (-scale) (by rw [Complex.neg_im, hsc, neg_zero]) _ _ hconv
  intro ch
  by_cases hch : ch = 0
  · subst hch
    refine specPerm_congr c.D c.N hc.hN (swapσ c hD) _ _ _ _ ?_ ?_ key
    · intro m hm
      have hm' : m < modes c := hm
      rw [DFT.tab_getD _ _ _ _ hm, DFT.tab_getD _ _ _ _ hm', vorticity2d_at2 c hD hc.hN scale uh m hm']
    · intro m hm
      have hm' : m < modes c := hm
      have e : (tab (gridSize c) (vortInt c hD (uh'.getD 0 #[])))
          = tab (gridSize c) fun x => -vortInt c hD (uh.getD 0 #[]) (permIdx c.D c.N (swapσ c hD) x) :=
        Nonlin.tab_congr _ _ _ (fun x hx => vortInt_swap c hc hD _ _ h0 x hx)
      rw [DFT.tab_getD _ _ _ _ hm, DFT.tab_getD _ _ _ _ hm']
      show _ = at2 (negMC c (vorticity2d c scale none uh')) 0 m
      rw [at2_negMC c _ m hm', vorticity2d_at2 c hD hc.hN scale uh' m hm', e, nfft_tab_neg c hc.hN _ m hm']
      ring
  · have hch1 : 1 ≤ ch := Nat.one_le_iff_ne_zero.mpr hch
    apply specPerm_zero c.D c.N hc.hN
    · intro m hm
      rw [DFT.tab_getD _ _ _ _ (show m < modes c from hm), vorticity2d_at2_out c scale uh ch m hch1]
    · intro m hm
      rw [DFT.tab_getD _ _ _ _ (show m < modes c from hm)]
      show at2 (negMC c _) ch m = 0
      unfold negMC
      exact at2_tab2_of_le_ch _ _ _ _ _ hch1

/-! ### evenness -/

theorem Wf_neg (c : Cfg ℂ) (hN : 0 < c.N) (e : Fin c.D) (a b : Array ℂ) (hab : ∀ m, m < modes c → b.getD m 0 = -a.getD m 0)
    (x : ℕ) (hx : x < c.N ^ c.D) : (Wf c e b).getD x 0 = -(Wf c e a).getD x 0 := by
  unfold Wf
  rw [← nifft_tab_neg c hN _ x hx]
  refine congrArg (fun Z : Array ℂ => Z.getD x 0) ?_
  apply EquivND.nifft_congr
  intro i hi
  rw [Nonlin.tab_getD _ _ _ _ hi, Nonlin.tab_getD _ _ _ _ hi, hab i hi]
  ring

theorem Xf_neg (c : Cfg ℂ) (hN : 0 < c.N) (e : Fin c.D) (a b : Array ℂ) (hab : ∀ m, m < modes c → b.getD m 0 = -a.getD m 0)
    (x : ℕ) (hx : x < c.N ^ c.D) : (Xf c e b).getD x 0 = -(Xf c e a).getD x 0 := by
  unfold Xf
  rw [← nifft_tab_neg c hN _ x hx]
  refine congrArg (fun Z : Array ℂ => Z.getD x 0) ?_
  apply EquivND.nifft_congr
  intro i hi
  rw [Nonlin.tab_getD _ _ _ _ hi, Nonlin.tab_getD _ _ _ _ hi, hab i hi]
  ring

/-- **K4, vorticity, evenness**: the (quadratic) term does not see the sign of the vorticity -/
theorem vorticity2d_even (c : Cfg ℂ) (hD : 2 ≤ c.D) (hN : 0 < c.N) (scale : ℂ) (uh : MC ℂ) (ch h : ℕ) :
    at2 (vorticity2d c scale none (negMC c uh)) ch h = at2 (vorticity2d c scale none uh) ch h := by
  rcases Nat.eq_zero_or_pos ch with rfl | hch
  · rcases Nat.lt_or_ge h (modes c) with hh | hh
    · rw [vorticity2d_at2 c hD hN scale _ h hh, vorticity2d_at2 c hD hN scale uh h hh]
      have hab : ∀ m, m < modes c → ((negMC c uh).getD 0 #[]).getD m 0 = -(uh.getD 0 #[]).getD m 0 :=
        fun m hm => at2_negMC c uh m hm
      have e : (tab (gridSize c) (vortInt c hD ((negMC c uh).getD 0 #[])))
          = tab (gridSize c) (vortInt c hD (uh.getD 0 #[])) := by
        apply Nonlin.tab_congr
        intro x hx
        unfold vortInt
        rw [Wf_neg c hN _ _ _ hab x hx, Wf_neg c hN _ _ _ hab x hx, Xf_neg c hN _ _ _ hab x hx,
          Xf_neg c hN _ _ _ hab x hx]
        ring
      rw [e]
    · have z : ∀ w : MC ℂ, at2 (vorticity2d c scale none w) 0 h = 0 := fun w => by
        unfold vorticity2d
        exact at2_tab2_of_le_idx _ _ _ _ _ hh
      rw [z, z]
  · rw [vorticity2d_at2_out c scale _ ch h hch, vorticity2d_at2_out c scale uh ch h hch]

/-- **K4, vorticity**: the term commutes with `ω ↦ −P_σ ω`, `σ` the transposition of the two axes:
    `T(−P_σ ω) = −P_σ T(ω)` -/
theorem vorticity2d_swap_neg (c : Cfg ℂ) (hc : PermCfg c) (hD : 2 ≤ c.D) (scale : ℂ) (hsc : scale.im = 0)
    (uh uh' : MC ℂ) (h : MCSpecPerm c (swapσ c hD) id uh uh') :
    MCSpecPerm c (swapσ c hD) id (vorticity2d c scale none uh)
      (negMC c (vorticity2d c scale none (negMC c uh'))) := by
  intro ch
  refine specPerm_congr c.D c.N hc.hN (swapσ c hD) _ _ _ _ (fun m hm => rfl) ?_
    (vorticity2d_swap c hc hD scale hsc uh uh' h ch)
  intro m hm
  have hm' : m < modes c := hm
  rw [DFT.tab_getD _ _ _ _ hm', DFT.tab_getD _ _ _ _ hm']
  show at2 (negMC c _) ch m = at2 (negMC c _) ch m
  rw [at2_negMC_any, at2_negMC_any]
  split_ifs
  · rw [vorticity2d_even c hD hc.hN scale uh' ch m]
  · rfl

/-! non-vacuity: `D = 2`, even grid with the 2/3 mask; the swap is not the identity -/
example : ∃ (c : Cfg ℂ) (hD : 2 ≤ c.D), PermCfg c ∧ c.D = 2 ∧ swapσ c hD (ax0 c hD) ≠ ax0 c hD := by
  refine ⟨⟨2, 8, 1, 2, 3⟩, le_refl 2, ⟨by norm_num, by norm_num, by simp, Or.inr ⟨by norm_num, by norm_num⟩⟩, rfl, ?_⟩
  rw [swapσ_ax0]
  intro h
  have := congrArg Fin.val h
  simp [ax0, ax1] at this
example (c : Cfg ℂ) (hc : PermCfg c) (hD : 2 ≤ c.D) : ∃ uh uh' : MC ℂ, MCSpecPerm c (swapσ c hD) id uh uh' :=
  ⟨#[], #[], fun ch => specPerm_zero c.D c.N hc.hN _ _ _
    (fun m hm => by rw [DFT.tab_getD _ _ _ _ (show m < modes c from hm)]; simp [at2])
    (fun m hm => by rw [DFT.tab_getD _ _ _ _ (show m < modes c from hm)]; simp [at2])⟩

end Exponax.SmallGaps3
