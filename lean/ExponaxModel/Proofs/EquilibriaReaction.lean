import ExponaxModel.Proofs.EquilibriaWhole
import ExponaxModel.Proofs.StepperSymbols
import ExponaxModel.Proofs.StepperWiringEq
/-
C09 / B1, continued — reaction terms on constant states, and the constant equilibria of the reaction steppers.

  * `polynomial_const_entry`, `polynomial_const` : `Nonlin.polynomial` maps the spectrum of the constant state `u₀`
        to the spectrum of the constant `p(u₀)` (whole array, every channel)
  * `reaction_const_entry`, `reaction_const`     : the same for `Nonlin.reaction` (Gray–Scott, BZ)
  * `polynomial_equilibrium`                     : `L(0) u₀ + p(u₀) = 0 ⟹ L(h) û(h) + N(û)(h) = 0` at EVERY index `h`
  * FisherKPP (`u₀ ∈ {0, 1}`), AllenCahn (`u₀ = 0` or `c₁ + c₃u₀² = 0`), SwiftHohenberg (`(r − k²)u₀ + p(u₀) = 0`),
    Gray–Scott (`(1, 0)` and every solution of `f(1−a) = ab²`, `(f+k)b = ab²`): stated with the REGENERATED linear
    operators (`Gen.Steppers.*_linear_operator (kappa c h) …`) and the REGENERATED wiring
    (`Gen.StepperWiring.*_stepper_nonlinear_fun`).
Hypothesis throughout: the dealiasing mask keeps the mean mode (`mask c 0 = 1`).
-/
set_option linter.unusedVariables false
namespace Exponax.Equilibria
open Exponax Exponax.Layout Exponax.Transform Exponax.DFT Finset
open Exponax.Nonlin (Cfg MC at2 tab2 tabC modes gridSize mask nfft nifft deriv polynomial polyEval reaction
  grayScottReact)
open Exponax.Gen.Steppers Exponax.Gen.StepperWiring Exponax.StepperWiringEq

/-! ### polynomial nonlinearity -/

theorem polynomial_const_entry (c : Cfg ℂ) (hD : 0 < c.D) (hN : 0 < c.N) (C : ℕ) (coeffs : List ℂ) (uh : MC ℂ)
    (hu : MeanSpec c uh) (ch h : ℕ) (hch : ch < C) :
    at2 (polynomial c C coeffs uh) ch h
      = if h = 0 then mask c 0 * (((c.N ^ c.D : ℕ) : ℂ) * polyEval coeffs (meanValue c uh ch)) else 0 := by
  unfold polynomial
  simp only []
  rw [Nonlin.at2_tabC _ _ _ _ hch]
  apply nfft_const c hD hN
  intro x hx
  rw [Nonlin.tab_getD _ _ _ _ hx, Nonlin.at2_tabC _ _ _ _ hch, nifft_channel_mean c hN uh hu ch x hx]

theorem nfft_size (c : Cfg ℂ) (v : Array ℂ) : (nfft c v).size = modes c := by
  unfold nfft
  simp

theorem tabC_ext (C n : ℕ) (f g : ℕ → Array ℂ) (hf : ∀ ch < C, (f ch).size = n) (hg : ∀ ch < C, (g ch).size = n)
    (h : ∀ ch < C, ∀ i < n, (f ch).getD i 0 = (g ch).getD i 0) : tabC C f = tabC C g := by
  unfold tabC
  apply Nonlin.tab_congr
  intro ch hch
  exact ExactLinear.array_ext_getD _ _ n (hf ch hch) (hg ch hch) (h ch hch)

/-- **polynomial term on a constant state (whole array).**  `N(rfftn(u₀)) = rfftn(p(u₀))`, channel by channel. -/
theorem polynomial_const (c : Cfg ℂ) (hD : 0 < c.D) (hN : 0 < c.N) (hm : mask c 0 = 1) (C : ℕ) (coeffs : List ℂ)
    (u0 : ℕ → ℝ) :
    polynomial c C coeffs (constSpec c C (fun k => (u0 k : ℂ)))
      = constSpec c C (fun k => polyEval coeffs (u0 k : ℂ)) := by
  have hu := constSpec_meanSpec c hD hN C (fun k => (u0 k : ℂ))
  have key : ∀ ch < C, ∀ h < modes c,
      at2 (polynomial c C coeffs (constSpec c C (fun k => (u0 k : ℂ)))) ch h
        = at2 (constSpec c C (fun k => polyEval coeffs (u0 k : ℂ))) ch h := by
    intro ch hch h hh
    rw [polynomial_const_entry c hD hN C coeffs _ hu ch h hch, at2_constSpec c hD hN C _ ch h hch hh,
      meanValue_constSpec c hD hN hm C u0 ch hch, hm, one_mul]
  have e1 : polynomial c C coeffs (constSpec c C (fun k => (u0 k : ℂ)))
      = tabC C (fun ch => (polynomial c C coeffs (constSpec c C (fun k => (u0 k : ℂ)))).getD ch #[]) := by
    unfold polynomial
    simp only []
    unfold tabC
    apply Nonlin.tab_congr
    intro ch hch
    rw [Nonlin.tab_getD _ _ _ _ hch]
  rw [e1]
  unfold constSpec
  apply tabC_ext C (modes c)
  · intro ch hch
    unfold polynomial
    simp only []
    unfold tabC
    rw [Nonlin.tab_getD _ _ _ _ hch]
    exact nfft_size c _
  · intro ch hch
    exact rfftnM_size _ _ _
  · intro ch hch h hh
    have := key ch hch h hh
    unfold constSpec at this
    rw [Nonlin.at2_tabC _ _ _ _ hch] at this
    exact this

/-! ### pointwise reaction terms -/

theorem nifft_masked_mean (c : Cfg ℂ) (hN : 0 < c.N) (hm : mask c 0 = 1) (uh : MC ℂ) (hu : MeanSpec c uh) (ch x : ℕ)
    (hx : x < gridSize c) :
    (nifft c (tab (modes c) (fun h => mask c h * at2 uh ch h))).getD x 0 = meanValue c uh ch := by
  rw [nifft_mean c hN _ (fun h h0 hh => by rw [Nonlin.tab_getD _ _ _ _ hh, hu ch h h0 hh, mul_zero]) x hx,
    Nonlin.tab_getD _ _ _ _ (Conserve.modes_pos c hN), hm, one_mul]
  unfold meanValue
  rw [hm, one_mul]

theorem reaction_const_entry (c : Cfg ℂ) (hD : 0 < c.D) (hN : 0 < c.N) (hm : mask c 0 = 1) (C : ℕ)
    (react : List ℂ → List ℂ) (uh : MC ℂ) (hu : MeanSpec c uh) (ch h : ℕ) (hch : ch < C) :
    at2 (reaction c C react uh) ch h
      = if h = 0 then ((c.N ^ c.D : ℕ) : ℂ) * (react ((List.range C).map (fun k => meanValue c uh k))).getD ch 0
        else 0 := by
  unfold reaction
  simp only []
  rw [Nonlin.at2_tabC _ _ _ _ hch,
    nfft_const c hD hN _ ((react ((List.range C).map (fun k => meanValue c uh k))).getD ch 0) ?_ h, hm, one_mul]
  intro x hx
  change at2 _ ch x = _
  rw [Nonlin.at2_tab2 _ _ _ _ _ hch hx]
  congr 2
  apply List.map_congr_left
  intro k hk
  have hk' : k < C := List.mem_range.mp hk
  rw [Nonlin.at2_tabC _ _ _ _ hk', nifft_masked_mean c hN hm uh hu k x hx]

/-- **reaction term on a constant state (whole array).**  `N(rfftn(u₀)) = rfftn(react(u₀))`. -/
theorem reaction_const (c : Cfg ℂ) (hD : 0 < c.D) (hN : 0 < c.N) (hm : mask c 0 = 1) (C : ℕ)
    (react : List ℂ → List ℂ) (u0 : ℕ → ℝ) :
    reaction c C react (constSpec c C (fun k => (u0 k : ℂ)))
      = constSpec c C (fun ch => (react ((List.range C).map (fun k => (u0 k : ℂ)))).getD ch 0) := by
  have hu := constSpec_meanSpec c hD hN C (fun k => (u0 k : ℂ))
  have hlist : (List.range C).map (fun k => meanValue c (constSpec c C (fun k => (u0 k : ℂ))) k)
      = (List.range C).map (fun k => (u0 k : ℂ)) := by
    apply List.map_congr_left
    intro k hk
    exact meanValue_constSpec c hD hN hm C u0 k (List.mem_range.mp hk)
  have key : ∀ ch < C, ∀ h < modes c,
      at2 (reaction c C react (constSpec c C (fun k => (u0 k : ℂ)))) ch h
        = at2 (constSpec c C (fun ch => (react ((List.range C).map (fun k => (u0 k : ℂ)))).getD ch 0)) ch h := by
    intro ch hch h hh
    rw [reaction_const_entry c hD hN hm C react _ hu ch h hch, at2_constSpec c hD hN C _ ch h hch hh, hlist]
  have e1 : reaction c C react (constSpec c C (fun k => (u0 k : ℂ)))
      = tabC C (fun ch => (reaction c C react (constSpec c C (fun k => (u0 k : ℂ)))).getD ch #[]) := by
    unfold reaction
    simp only []
    unfold tabC
    apply Nonlin.tab_congr
    intro ch hch
    rw [Nonlin.tab_getD _ _ _ _ hch]
  rw [e1]
  unfold constSpec
  apply tabC_ext C (modes c)
  · intro ch hch
    unfold reaction
    simp only []
    unfold tabC
    rw [Nonlin.tab_getD _ _ _ _ hch]
    exact nfft_size c _
  · intro ch hch
    exact rfftnM_size _ _ _
  · intro ch hch h hh
    have := key ch hch h hh
    unfold constSpec at this
    rw [Nonlin.at2_tabC _ _ _ _ hch] at this
    exact this

/-! ### equilibria: `L û + N(û) = 0` at every index -/

theorem at2_constSpec_out (c : Cfg ℂ) (C : ℕ) (u0 : ℕ → ℂ) (ch h : ℕ) (hh : modes c ≤ h) :
    at2 (constSpec c C u0) ch h = 0 := by
  unfold constSpec
  rw [Alias.at2_tabC_any]
  split_ifs
  · unfold rfftnM
    simp only []
    exact Nonlin.tab_getD_of_le _ _ _ _ hh
  · rfl

/-- entries of the spectrum of a constant state, every index -/
theorem at2_constSpec_all (c : Cfg ℂ) (hD : 0 < c.D) (hN : 0 < c.N) (C : ℕ) (u0 : ℕ → ℂ) (ch h : ℕ) (hch : ch < C) :
    at2 (constSpec c C u0) ch h = if h = 0 then ((c.N ^ c.D : ℕ) : ℂ) * u0 ch else 0 := by
  rcases Nat.lt_or_ge h (modes c) with hh | hh
  · exact at2_constSpec c hD hN C u0 ch h hch hh
  · rw [at2_constSpec_out c C u0 ch h hh, if_neg]
    have := Conserve.modes_pos c hN
    omega

/-- **polynomial reaction–diffusion equilibria.**  If the constant `u₀` is a root of `L(0)·x + p(x)` then the spectrum
    of the constant state satisfies `L(h)·û(h) + N(û)(h) = 0` at every index `h` (mean mode: `N^D(L(0)u₀ + p(u₀))`;
    elsewhere both terms vanish) — any symbol `L`, any `N`, `D`, any channel count. -/
theorem polynomial_equilibrium (c : Cfg ℂ) (hD : 0 < c.D) (hN : 0 < c.N) (hm : mask c 0 = 1) (C : ℕ)
    (coeffs : List ℂ) (L : ℕ → ℕ → ℂ) (u0 : ℕ → ℝ)
    (hroot : ∀ ch < C, L ch 0 * (u0 ch : ℂ) + polyEval coeffs (u0 ch : ℂ) = 0) (ch h : ℕ) (hch : ch < C) :
    L ch h * at2 (constSpec c C (fun k => (u0 k : ℂ))) ch h
      + at2 (polynomial c C coeffs (constSpec c C (fun k => (u0 k : ℂ)))) ch h = 0 := by
  rw [polynomial_const c hD hN hm C coeffs u0, at2_constSpec_all c hD hN C _ ch h hch,
    at2_constSpec_all c hD hN C _ ch h hch]
  split_ifs with h0
  · rw [h0]
    linear_combination ((c.N ^ c.D : ℕ) : ℂ) * hroot ch hch
  · ring

/-! ### the regenerated linear operators at the mean mode -/

theorem laplace_op_mean (c : Cfg ℂ) : laplace_op (kappa c 0) 2 = 0 := by
  rw [laplace_op_kappa, Conserve.laplace_zero_mode]

theorem FisherKPP_linear_operator_mean (c : Cfg ℂ) (ν r : ℂ) : FisherKPP_linear_operator (kappa c 0) ν r = r := by
  unfold FisherKPP_linear_operator
  simp only [laplace_op_mean]
  ring

theorem AllenCahn_linear_operator_mean (c : Cfg ℂ) (ν c1 : ℂ) : AllenCahn_linear_operator (kappa c 0) ν c1 = c1 := by
  unfold AllenCahn_linear_operator
  simp only [laplace_op_mean]
  ring

theorem SwiftHohenberg_linear_operator_mean (c : Cfg ℂ) (r k : ℂ) :
    SwiftHohenberg_linear_operator (kappa c 0) r k = r - k ^ 2 := by
  unfold SwiftHohenberg_linear_operator
  simp only [laplace_op_mean, npow_eq]
  ring

theorem GrayScott_linear_operator_mean (c : Cfg ℂ) (d1 d2 : ℂ) :
    GrayScott_linear_operator (kappa c 0) d1 d2 = [0, 0] := by
  unfold GrayScott_linear_operator
  simp only [laplace_op_mean, mul_zero]

/-! ### FisherKPP, AllenCahn, SwiftHohenberg, Gray–Scott (regenerated wiring) -/

/-- **FisherKPP** `u_t = νΔu + r u(1 − u)`: the constants `0` and `1` -/
theorem FisherKPP_equilibria (c : Cfg ℂ) (hD : 0 < c.D) (hN : 0 < c.N) (a : FisherKPPArgs ℂ)
    (hm : mask (withDF c a.dealiasing_fraction) 0 = 1) (u0 : ℝ) (hroot : u0 = 0 ∨ u0 = 1) (h : ℕ) :
    FisherKPP_linear_operator (kappa c h) a.diffusivity a.reactivity
        * at2 (constSpec c 1 (fun _ => (u0 : ℂ))) 0 h
      + at2 (FisherKPP_stepper_nonlinear_fun c a (constSpec c 1 (fun _ => (u0 : ℂ)))) 0 h = 0 := by
  rw [FisherKPP_stepper_nonlinear_fun_eq]
  refine polynomial_equilibrium (withDF c a.dealiasing_fraction) hD hN hm 1 _
    (fun _ h => FisherKPP_linear_operator (kappa c h) a.diffusivity a.reactivity) (fun _ => u0) ?_ 0 h
    (by norm_num)
  intro ch _
  rw [FisherKPP_linear_operator_mean, Alias.polyEval_quadratic]
  rcases hroot with h0 | h1
  · rw [h0]; simp
  · rw [h1]; simp

/-- **AllenCahn** `u_t = νΔu + c₁u + c₃u³`: `u₀ = 0` and the roots of `c₁ + c₃u₀² = 0` (`±1` for the defaults) -/
theorem AllenCahn_equilibria (c : Cfg ℂ) (hD : 0 < c.D) (hN : 0 < c.N) (a : AllenCahnArgs ℂ)
    (hm : mask (withDF c a.dealiasing_fraction) 0 = 1) (u0 : ℝ)
    (hroot : u0 = 0 ∨ a.first_order_coefficient + a.third_order_coefficient * (u0 : ℂ) ^ 2 = 0) (h : ℕ) :
    AllenCahn_linear_operator (kappa c h) a.diffusivity a.first_order_coefficient
        * at2 (constSpec c 1 (fun _ => (u0 : ℂ))) 0 h
      + at2 (AllenCahn_stepper_nonlinear_fun c a (constSpec c 1 (fun _ => (u0 : ℂ)))) 0 h = 0 := by
  rw [AllenCahn_stepper_nonlinear_fun_eq]
  refine polynomial_equilibrium (withDF c a.dealiasing_fraction) hD hN hm 1 _
    (fun _ h => AllenCahn_linear_operator (kappa c h) a.diffusivity a.first_order_coefficient) (fun _ => u0) ?_ 0 h
    (by norm_num)
  intro ch _
  rw [AllenCahn_linear_operator_mean]
  have hp : polyEval [0, 0, 0, a.third_order_coefficient] (u0 : ℂ) = a.third_order_coefficient * (u0 : ℂ) ^ 3 := by
    simp only [polyEval, List.foldl]; ring
  rw [hp]
  rcases hroot with h0 | h1
  · rw [h0]; simp
  · linear_combination (u0 : ℂ) * h1

/-- **SwiftHohenberg** `u_t = r u − (k + Δ)²u + p(u)`: every real root of `(r − k²)x + p(x)` (in particular `0` when
    `p(0) = 0`) -/
theorem SwiftHohenberg_equilibria (c : Cfg ℂ) (hD : 0 < c.D) (hN : 0 < c.N) (a : SwiftHohenbergArgs ℂ)
    (hm : mask (withDF c a.dealiasing_fraction) 0 = 1) (u0 : ℝ)
    (hroot : (a.reactivity - a.critical_number ^ 2) * (u0 : ℂ) + polyEval a.polynomial_coefficients (u0 : ℂ) = 0)
    (h : ℕ) :
    SwiftHohenberg_linear_operator (kappa c h) a.reactivity a.critical_number
        * at2 (constSpec c 1 (fun _ => (u0 : ℂ))) 0 h
      + at2 (SwiftHohenberg_stepper_nonlinear_fun c a (constSpec c 1 (fun _ => (u0 : ℂ)))) 0 h = 0 := by
  rw [SwiftHohenberg_stepper_nonlinear_fun_eq]
  refine polynomial_equilibrium (withDF c a.dealiasing_fraction) hD hN hm 1 _
    (fun _ h => SwiftHohenberg_linear_operator (kappa c h) a.reactivity a.critical_number) (fun _ => u0) ?_ 0 h
    (by norm_num)
  intro ch _
  rw [SwiftHohenberg_linear_operator_mean]
  exact hroot

/-- **Gray–Scott** `u_t = d₁Δu + f(1 − u) − uv²`, `v_t = d₂Δv − (f + k)v + uv²`: every real constant `(a, b)` with
    `f(1 − a) = ab²` and `(f + k)b = ab²` — both channels, every index (the linear symbol vanishes at the mean mode, so
    here even `N(û) = 0`) -/
theorem GrayScott_equilibria (c : Cfg ℂ) (hD : 0 < c.D) (hN : 0 < c.N) (g : GrayScottArgs ℂ)
    (hm : mask (withDF c g.dealiasing_fraction) 0 = 1) (a b : ℝ)
    (h1 : g.feed_rate * (1 - (a : ℂ)) = (a : ℂ) * ((b : ℂ) * (b : ℂ)))
    (h2 : (g.feed_rate + g.kill_rate) * (b : ℂ) = (a : ℂ) * ((b : ℂ) * (b : ℂ))) (ch h : ℕ) (hch : ch < 2) :
    (GrayScott_linear_operator (kappa c h) g.diffusivity_1 g.diffusivity_2).getD ch 0
        * at2 (constSpec c 2 (fun k => (([a, b] : List ℝ).getD k 0 : ℂ))) ch h
      + at2 (GrayScott_stepper_nonlinear_fun c g (constSpec c 2 (fun k => (([a, b] : List ℝ).getD k 0 : ℂ)))) ch h
      = 0 := by
  rw [GrayScott_stepper_nonlinear_fun_eq]
  have hc : constSpec c 2 (fun k => (([a, b] : List ℝ).getD k 0 : ℂ))
      = constSpec (withDF c g.dealiasing_fraction) 2 (fun k => (([a, b] : List ℝ).getD k 0 : ℂ)) := rfl
  rw [hc, reaction_const (withDF c g.dealiasing_fraction) hD hN hm 2 _ (fun k => ([a, b] : List ℝ).getD k 0),
    at2_constSpec_all (withDF c g.dealiasing_fraction) hD hN 2 _ ch h hch,
    at2_constSpec_all (withDF c g.dealiasing_fraction) hD hN 2 _ ch h hch]
  have hreact : grayScottReact g.feed_rate g.kill_rate
      ((List.range 2).map (fun k => (((fun k => ([a, b] : List ℝ).getD k 0) k : ℝ) : ℂ))) = [0, 0] := by
    simp only [grayScottReact, List.range_succ, List.range_zero, List.nil_append, List.cons_append, List.map_cons,
      List.map_nil, List.getD_cons_zero, List.getD_cons_succ]
    rw [show g.feed_rate * (1 - (a : ℂ)) - (a : ℂ) * ((b : ℂ) * (b : ℂ)) = 0 by linear_combination h1,
      show -(g.feed_rate + g.kill_rate) * (b : ℂ) + (a : ℂ) * ((b : ℂ) * (b : ℂ)) = 0 by linear_combination -h2]
  rw [hreact]
  split_ifs with h0
  · rw [h0, GrayScott_linear_operator_mean]
    interval_cases ch <;> simp
  · ring

/-- the trivial Gray–Scott state `(u, v) = (1, 0)` -/
theorem GrayScott_trivial_state (f k : ℂ) :
    f * (1 - ((1 : ℝ) : ℂ)) = ((1 : ℝ) : ℂ) * (((0 : ℝ) : ℂ) * ((0 : ℝ) : ℂ)) ∧
    (f + k) * ((0 : ℝ) : ℂ) = ((1 : ℝ) : ℂ) * (((0 : ℝ) : ℂ) * ((0 : ℝ) : ℂ)) := by
  constructor <;> simp

/-- a nontrivial Gray–Scott steady state: `f = 0.04`, `k = 0.06` (saddle-node point): `(u, v) = (1/2, 1/5)` -/
theorem GrayScott_nontrivial_state :
    ((0.04 : ℝ) : ℂ) * (1 - ((0.5 : ℝ) : ℂ)) = ((0.5 : ℝ) : ℂ) * (((0.2 : ℝ) : ℂ) * ((0.2 : ℝ) : ℂ)) ∧
    (((0.04 : ℝ) : ℂ) + ((0.06 : ℝ) : ℂ)) * ((0.2 : ℝ) : ℂ) = ((0.5 : ℝ) : ℂ) * (((0.2 : ℝ) : ℂ) * ((0.2 : ℝ) : ℂ)) := by
  constructor <;> · push_cast; norm_num

/-! ### non-vacuity -/

/-- without dealiasing (`fq = 0`) the mask keeps every mode -/
example (c : Cfg ℂ) (hq : c.fq = 0) : mask c 0 = 1 := by simp [mask, hq]

/-- the 2/3 rule on `N = 16` keeps the mean mode -/
example : mask (⟨1, 16, 1, 2, 3⟩ : Cfg ℂ) 0 = 1 := by
  simp [mask, dealiasMask, dealiasCutoff, lowPassSep, absLe, wnFlat, wnVec, wn, rfftfreq, unflatten, wavenumberShape,
    shapeSize, List.range_succ]

end Exponax.Equilibria
