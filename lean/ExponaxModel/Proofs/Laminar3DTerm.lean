import ExponaxModel.Proofs.Laminar3D
/-
C12 / PART A1, 3-D, assembly: `Nonlin.projected3d c none û = 0` (every channel, every stored mode) for
`û = (a δ_{(0,m,0)} + b δ_{(0,−m,0)}, 0, 0)`, arbitrary complex `a`, `b`; with the Kolmogorov injection on the same
mode the output is exactly the injection term (the response at rest).

FULL STATEMENT REQUESTED (A1, 3-D): `projected3d c none û = 0` for the spectrum `û = (rfftn f, 0, 0)` of EVERY real
velocity field `(f(x₁), 0, 0)`.  PROVED HERE (`…_partial`): the case where `û₀` is carried by the two stored modes
`(0, ±m, 0)`, `0 < m`, `2m < N` (added hypothesis `TwoMode c m û`) — but with ARBITRARY complex amplitudes, which is
exactly the invariant set of the Kolmogorov stepper (A2, 3-D needs nothing more).  Remark: for an arbitrary COMPLEX
spectrum on the line `(0, k₁, 0)` the statement is false when `N` is even and the Nyquist entry `k₁ = −N/2` carries a
coefficient with non-zero real and imaginary part (the grid mean of `u₀ ∂₁u₀` is then `s N² Re·Im ≠ 0` and survives the
Leray projection at the mean mode); it needs the Hermitian symmetry of a real field there.
-/
set_option linter.unusedVariables false
namespace Exponax.Laminar3D
open Exponax Exponax.Layout Exponax.Transform Exponax.DFT Exponax.ExactLinear Finset
open Exponax.Nonlin (Cfg MC at2 tab2 tabC modes gridSize mask nfft nifft projected3d leray kInt deriv proj3
  invLapZero laplace specDiv)
open scoped ComplexConjugate

/-- three-channel velocity spectrum `(û₀, 0, 0)` with `û₀` carried by the stored modes `(0, ±m, 0)` -/
def TwoMode (c : Cfg ℂ) (m : ℕ) (uh : MC ℂ) : Prop :=
  ∀ i h, h < modes c → (i ≠ 0 ∨ (h ≠ hP c m ∧ h ≠ hM c m)) → at2 uh i h = 0

theorem tab2_getD (nc n : ℕ) (f : ℕ → ℕ → ℂ) (i : ℕ) (hi : i < nc) : (tab2 nc n f).getD i #[] = tab n (f i) := by
  unfold tab2
  exact Nonlin.tab_getD _ _ _ _ hi

theorem phase_double (c : Cfg ℂ) (hD : c.D = 3) (m x : ℕ) :
    phaseK c.D c.N [0, 2 * (m : ℤ), 0] x = 2 * phaseK c.D c.N [0, (m : ℤ), 0] x := by
  rw [hD, ReadOff.phaseK_3d_axis1, ReadOff.phaseK_3d_axis1]; ring

theorem wph_sq (c : Cfg ℂ) (hD : c.D = 3) (m x : ℕ) :
    ((wph c m x)⁻¹) ^ 2 = zeta c.N ^ (-(phaseK c.D c.N [0, 2 * (m : ℤ), 0] x)) ∧
    (wph c m x) ^ 2 = zeta c.N ^ (phaseK c.D c.N [0, 2 * (m : ℤ), 0] x) := by
  unfold wph
  rw [phase_double c hD m x]
  constructor
  · rw [← zpow_neg, ← zpow_natCast, ← zpow_mul]
    congr 1; push_cast; ring
  · rw [← zpow_natCast, ← zpow_mul]
    congr 1; push_cast; ring

theorem proj3_cross_zero (a b : ℂ × ℂ × ℂ) :
    proj3 (Gen.Misc.cross_product_3d a b) 0 = a.2.1 * b.2.2 - a.2.2 * b.2.1 := by
  simp [proj3, Gen.Misc.cross_product_3d]

theorem proj3_cross_one (a b : ℂ × ℂ × ℂ) :
    proj3 (Gen.Misc.cross_product_3d a b) 1 = a.2.2 * b.1 - a.1 * b.2.2 := by
  simp [proj3, Gen.Misc.cross_product_3d]

theorem proj3_cross_two (a b : ℂ × ℂ × ℂ) :
    proj3 (Gen.Misc.cross_product_3d a b) 2 = a.1 * b.2.1 - a.2.1 * b.1 := by
  simp [proj3, Gen.Misc.cross_product_3d]

/-- channels 1, 2 of the velocity vanish on the grid -/
theorem vel_zero (c : Cfg ℂ) (hN : 0 < c.N) (m : ℕ) (uh : MC ℂ) (hu : TwoMode c m uh) (k : ℕ) (hk : k ≠ 0)
    (x : ℕ) : (nifft c (uh.getD k #[])).getD x 0 = 0 :=
  ReadOff.nifft_zero c hN _ (fun h hh => hu k h hh (Or.inl hk)) x

section term
variable (c : Cfg ℂ) (hD : c.D = 3) (m : ℕ) (hm : 2 * m < c.N) (uh : MC ℂ) (hu : TwoMode c m uh)
include hu

include hD hm in
/-- the spectral curl: channels 0, 1 vanish identically -/
theorem curl01_zero (i : ℕ) (hi : i < 2) (h : ℕ) (hh : h < modes c) :
    proj3 (Gen.Misc.cross_product_3d (deriv c 0 h, deriv c 1 h, deriv c 2 h)
      (at2 uh 0 h, at2 uh 1 h, at2 uh 2 h)) i = 0 := by
  have u1 : at2 uh 1 h = 0 := hu 1 h hh (Or.inl (by norm_num))
  have u2 : at2 uh 2 h = 0 := hu 2 h hh (Or.inl (by norm_num))
  have d2u0 : deriv c 2 h * at2 uh 0 h = 0 := by
    by_cases hP' : h = hP c m
    · rw [hP', Nonlin.deriv_eq_zero_of_k c 2 _ (kInt_hP c hD m hm).2.2, zero_mul]
    · by_cases hM' : h = hM c m
      · rw [hM', Nonlin.deriv_eq_zero_of_k c 2 _ (kInt_hM c hD m hm).2.2, zero_mul]
      · rw [hu 0 h hh (Or.inr ⟨hP', hM'⟩), mul_zero]
  interval_cases i
  · rw [proj3_cross_zero]
    simp only [u1, u2, mul_zero, sub_zero]
  · rw [proj3_cross_one]
    simp only [u2, mul_zero, sub_zero]
    exact d2u0

/-- the spectral curl, channel 2: `−d₁ û₀` -/
theorem curl2_eq (h : ℕ) (hh : h < modes c) :
    proj3 (Gen.Misc.cross_product_3d (deriv c 0 h, deriv c 1 h, deriv c 2 h)
      (at2 uh 0 h, at2 uh 1 h, at2 uh 2 h)) 2 = -(deriv c 1 h * at2 uh 0 h) := by
  have u1 : at2 uh 1 h = 0 := hu 1 h hh (Or.inl (by norm_num))
  rw [proj3_cross_two]
  simp only [u1, mul_zero, zero_sub]

end term

/-- **A1, 3-D (entries).**  The rotational term of a two-mode shear velocity vanishes: every channel, every stored
    mode, arbitrary complex amplitudes, any mask. -/
theorem projected3d_shear_none_partial (c : Cfg ℂ) (hD : c.D = 3) (s : ℝ) (hs : c.s = (s : ℂ)) (hs0 : s ≠ 0) (m : ℕ)
    (hm0 : 0 < m) (hm : 2 * m < c.N) (uh : MC ℂ) (hu : TwoMode c m uh) (i h : ℕ) (hi : i < 3)
    (hh : h < modes c) : at2 (projected3d c none uh) i h = 0 := by
  have hN : 0 < c.N := by omega
  have h3 : (0 : ℕ) < 3 := by norm_num
  have h13 : (1 : ℕ) < 3 := by norm_num
  have h23 : (2 : ℕ) < 3 := by norm_num
  have hG : ((c.N ^ c.D : ℕ) : ℂ) ≠ 0 := by
    have : 0 < c.N ^ c.D := pow_pos hN _
    exact_mod_cast this.ne'
  have hvel : ∀ k, k < 3 → ∀ j, at2 (tabC 3 (fun i => nifft c (uh.getD i #[]))) k j
      = (nifft c (uh.getD k #[])).getD j 0 := fun k hk j => Nonlin.at2_tabC _ _ _ _ hk
  have hcurl : ∀ k, k < 3 → ∀ j, at2 (tabC 3 (fun i => nifft c ((tab2 3 (modes c) (fun i h =>
      proj3 (Gen.Misc.cross_product_3d (deriv c 0 h, deriv c 1 h, deriv c 2 h)
        (at2 uh 0 h, at2 uh 1 h, at2 uh 2 h)) i)).getD i #[]))) k j
      = (nifft c (tab (modes c) (fun h => proj3 (Gen.Misc.cross_product_3d (deriv c 0 h, deriv c 1 h, deriv c 2 h)
        (at2 uh 0 h, at2 uh 1 h, at2 uh 2 h)) k))).getD j 0 := by
    intro k hk j
    rw [Nonlin.at2_tabC _ _ _ _ hk, tab2_getD _ _ _ _ hk]
  have hcurl1 : ∀ j, (nifft c (tab (modes c) (fun h => proj3 (Gen.Misc.cross_product_3d
      (deriv c 0 h, deriv c 1 h, deriv c 2 h) (at2 uh 0 h, at2 uh 1 h, at2 uh 2 h)) 1))).getD j 0 = 0 :=
    fun j => ReadOff.nifft_zero c hN _ (fun h'' hh'' => by
      rw [Nonlin.tab_getD _ _ _ _ hh'']
      exact curl01_zero c hD m hm uh hu 1 (by norm_num) h'' hh'') j
  unfold projected3d
  simp only []
  rw [Nonlin.at2_tab2 _ _ _ _ _ hi hh]
  apply leray_kills c hD s hs hs0 _ ?_ ?_ i h hi hh
  · -- channels 0 and 2 of the transformed product vanish
    intro h' hh'
    constructor
    · rw [Nonlin.at2_tabC _ _ _ _ h3]
      apply ReadOff.nfft_zero c hN
      intro j hj
      have hj' : j < gridSize c := hj
      rw [tab2_getD _ _ _ _ h3, Nonlin.tab_getD _ _ _ _ hj', proj3_cross_zero]
      simp only []
      rw [hvel 1 h13, hvel 2 h23, vel_zero c hN m uh hu 1 (by norm_num) j, vel_zero c hN m uh hu 2 (by norm_num) j]
      ring
    · rw [Nonlin.at2_tabC _ _ _ _ h23]
      apply ReadOff.nfft_zero c hN
      intro j hj
      have hj' : j < gridSize c := hj
      rw [tab2_getD _ _ _ _ h23, Nonlin.tab_getD _ _ _ _ hj', proj3_cross_two]
      simp only []
      rw [hvel 1 h13, vel_zero c hN m uh hu 1 (by norm_num) j, hcurl 1 h13, hcurl1 j]
      ring
  · -- channel 1: a pure (0, ±2m, 0) field
    intro h' hh' hne
    rw [Nonlin.at2_tabC _ _ _ _ h13] at hne
    refine two_exp_support c hD m hm0 hm
      ((c.s * (m : ℂ)) * Complex.I / (4 * ((c.N ^ c.D : ℕ) : ℂ) ^ 2)
        * (mask c (hP c m) * at2 uh 0 (hP c m) + conj (mask c (hM c m) * at2 uh 0 (hM c m))) ^ 2)
      (-((c.s * (m : ℂ)) * Complex.I) / (4 * ((c.N ^ c.D : ℕ) : ℂ) ^ 2)
        * (conj (mask c (hP c m) * at2 uh 0 (hP c m)) + mask c (hM c m) * at2 uh 0 (hM c m)) ^ 2)
      _ ?_ h' hh' hne
    intro j hj
    have hj' : j < gridSize c := hj
    rw [tab2_getD _ _ _ _ h13, Nonlin.tab_getD _ _ _ _ hj', proj3_cross_one]
    simp only []
    rw [hvel 2 h23, vel_zero c hN m uh hu 2 (by norm_num) j, hvel 0 h3, hcurl 2 h23]
    -- the two surviving grid fields
    have hv0 := nifft_two_mode c hD m hm0 hm (uh.getD 0 #[])
      (fun h'' hh'' n1 n2 => hu 0 h'' hh'' (Or.inr ⟨n1, n2⟩)) j hj'
    have hz2 : ∀ h'', h'' < modes c → h'' ≠ hP c m → h'' ≠ hM c m →
        (tab (modes c) (fun h => proj3 (Gen.Misc.cross_product_3d (deriv c 0 h, deriv c 1 h, deriv c 2 h)
          (at2 uh 0 h, at2 uh 1 h, at2 uh 2 h)) 2)).getD h'' 0 = 0 := by
      intro h'' hh'' n1 n2
      rw [Nonlin.tab_getD _ _ _ _ hh'', curl2_eq c m uh hu h'' hh'',
        hu 0 h'' hh'' (Or.inr ⟨n1, n2⟩), mul_zero, neg_zero]
    have hc2 := nifft_two_mode c hD m hm0 hm _ hz2 j hj'
    rw [Nonlin.tab_getD _ _ _ _ (hP_lt c hD m hm), Nonlin.tab_getD _ _ _ _ (hM_lt c hD m hm),
      curl2_eq c m uh hu _ (hP_lt c hD m hm), curl2_eq c m uh hu _ (hM_lt c hD m hm),
      Nonlin.deriv_eq, Nonlin.deriv_eq, (kInt_hP c hD m hm).2.1, (kInt_hM c hD m hm).2.1] at hc2
    have eP : mask c (hP c m) * -(Complex.I * (c.s * (((m : ℕ) : ℤ) : ℂ)) * at2 uh 0 (hP c m))
        = -(Complex.I * (c.s * (m : ℂ))) * (mask c (hP c m) * at2 uh 0 (hP c m)) := by push_cast; ring
    have eM : mask c (hM c m) * -(Complex.I * (c.s * ((-((m : ℕ) : ℤ) : ℤ) : ℂ)) * at2 uh 0 (hM c m))
        = (Complex.I * (c.s * (m : ℂ))) * (mask c (hM c m) * at2 uh 0 (hM c m)) := by push_cast; ring
    rw [eP, eM] at hc2
    have hσ : conj (c.s * (m : ℂ)) = c.s * (m : ℂ) := by
      rw [hs, map_mul, Complex.conj_ofReal, Complex.conj_natCast]
    have hprod := shear_product (mask c (hP c m) * at2 uh 0 (hP c m)) (mask c (hM c m) * at2 uh 0 (hM c m))
      (c.s * (m : ℂ)) ((c.N ^ c.D : ℕ) : ℂ) (wph c m j) (wph_ne c m j) (conj_wph c m j) hσ hG
    have hat : at2 uh 0 (hP c m) = (uh.getD 0 #[]).getD (hP c m) 0 := rfl
    have hat' : at2 uh 0 (hM c m) = (uh.getD 0 #[]).getD (hM c m) 0 := rfl
    rw [hv0, hc2, zero_mul, zero_sub, ← neg_mul, ← hat, ← hat', hprod, (wph_sq c hD m j).1, (wph_sq c hD m j).2]

/-- **A1, 3-D, with injection.**  On a two-mode shear velocity the forced term is exactly the injection term. -/
theorem projected3d_shear_partial (c : Cfg ℂ) (hD : c.D = 3) (s : ℝ) (hs : c.s = (s : ℂ)) (hs0 : s ≠ 0) (m : ℕ)
    (hm0 : 0 < m) (hm : 2 * m < c.N) (uh : MC ℂ) (hu : TwoMode c m uh) (m' : ℕ) (gam : ℂ) (i h : ℕ) (hi : i < 3)
    (hh : h < modes c) :
    at2 (projected3d c (some (m', gam)) uh) i h
      = if i = 0 ∧ kInt c 0 h = 0 ∧ kInt c 2 h = 0 ∧ kInt c 1 h = (m' : ℤ)
        then -Complex.I * gam * scaling c.D c.N 2 (unflatten (wavenumberShape c.D c.N) h)
        else if i = 0 ∧ kInt c 0 h = 0 ∧ kInt c 2 h = 0 ∧ kInt c 1 h = -(m' : ℤ)
        then Complex.I * gam * scaling c.D c.N 2 (unflatten (wavenumberShape c.D c.N) h)
        else 0 := by
  have := Nonlin.projected3d_injection_documented c m' gam uh i h hi hh
  rw [projected3d_shear_none_partial c hD s hs hs0 m hm0 hm uh hu i h hi hh, sub_zero] at this
  exact this

/-- the rest state is a two-mode shear velocity (for every `m`) -/
theorem twoMode_empty (c : Cfg ℂ) (m : ℕ) : TwoMode c m (#[] : MC ℂ) := fun i h _ _ => Laminar.at2_empty i h

end Exponax.Laminar3D
