import ExponaxModel.Proofs.AxisPermEmbedTerms
import ExponaxModel.Proofs.AxisPermStepRel
/-
C08, T4 (steps) — the `D`-dimensional ETDRK step (orders 0–4) of a state embedded along the LAST axis
is the embedding of the 1-D step:

  `physCh D N (step_D^n (rfftn_D (embed w))) = embed (physCh 1 N (step_1^n (rfftn_1 w)))`

for EVERY (real or complex, Nyquist content allowed) 1-D multi-channel state `w`, every `N ≥ 1`,
any dealiasing fraction, provided
 * the `D`-dimensional coefficient arrays restricted to the last axis `h ≤ N/2` are the 1-D coefficient
   arrays (`EmbCoef`; `embCoef_generalLinear` : true for every function of the isotropic `general_linear`
   symbol, with the order-0 coefficient counted `D` times — `C08_symbol_embedding`), and
 * the `D`-dimensional term restricted to last-axis spectra is the 1-D term (`TermEmbed`; proved for
   single-channel-type convection, polynomial, gradient norm, `general`).
-/
set_option linter.unusedVariables false
namespace Exponax.AxisPerm
open Exponax Exponax.Layout Exponax.Transform Exponax.Nonlin Exponax.AliasND Exponax.Alias Finset
open Exponax.Gen.Etdrk
open Exponax.EquivND (liftTermND specMC physCh liftTermND_apply)

/-- spectral states (channel → stored mode → value): `v` is `N^{D-1}·v₁` on the last axis, else `0` -/
def EmbMC (c : Cfg ℂ) (v v1 : ℕ → ℕ → ℂ) : Prop :=
  ∀ ch h, h < modes c → v ch h = if h < c.N / 2 + 1 then embScale c * v1 ch h else 0

/-- coefficient arrays: the `D`-dimensional array restricted to the last axis is the 1-D array -/
def EmbCoef (c : Cfg ℂ) (e e1 : ℕ → ℕ → ℂ) : Prop := ∀ ch h, h < c.N / 2 + 1 → e ch h = e1 ch h

/-- the `D`-dimensional term restricted to last-axis spectra is the 1-D term -/
def TermEmbed (c : Cfg ℂ) (T T1 : MC ℂ → MC ℂ) : Prop :=
  ∀ uh uh1 : MC ℂ, MCEmbSpec c uh uh1 → MCEmbSpec c (T uh) (T1 uh1)

theorem embMC_stepRel (c : Cfg ℂ) : StepRel (EmbMC c) (EmbCoef c) where
  add := by
    intro a a' b b' h1 h2 ch h hh
    show a ch h + a' ch h = if h < c.N / 2 + 1 then embScale c * (b ch h + b' ch h) else 0
    rw [h1 ch h hh, h2 ch h hh]
    split_ifs <;> ring
  sub := by
    intro a a' b b' h1 h2 ch h hh
    show a ch h - a' ch h = if h < c.N / 2 + 1 then embScale c * (b ch h - b' ch h) else 0
    rw [h1 ch h hh, h2 ch h hh]
    split_ifs <;> ring
  mul := by
    intro e e' a b he h1 ch h hh
    show e ch h * a ch h = if h < c.N / 2 + 1 then embScale c * (e' ch h * b ch h) else 0
    rw [h1 ch h hh]
    split_ifs with hlt
    · rw [he ch h hlt]; ring
    · rw [mul_zero]
  two := fun _ _ _ => rfl

theorem mcEmbSpec_of_embMC (c : Cfg ℂ) (C : ℕ) (v v1 : ℕ → ℕ → ℂ) (h : EmbMC c v v1) :
    MCEmbSpec c (tab2 C (modes c) v) (tab2 C (modes (cfg1 c)) v1) :=
  mcEmbSpec_tab2 c C v v1 (fun ch _ m hm => h ch m hm)

theorem liftTermND_embed (c : Cfg ℂ) (C : ℕ) (T T1 : MC ℂ → MC ℂ) (hT : TermEmbed c T T1)
    (v v1 : ℕ → ℕ → ℂ) (h : EmbMC c v v1) :
    EmbMC c (liftTermND c C T v) (liftTermND (cfg1 c) C T1 v1) := by
  intro ch m hm
  rw [liftTermND_apply c C T v ch m hm, hT _ _ (mcEmbSpec_of_embMC c C v v1 h) ch m hm]
  split_ifs with hlt
  · rw [liftTermND_apply (cfg1 c) C T1 v1 ch m (by rw [modes_cfg1]; exact hlt)]
  · rfl

/-! ### every single-channel-type model term -/

theorem convection_cons_termEmbed (c : Cfg ℂ) (hD : 0 < c.D) (hN : 0 < c.N) (C : ℕ) (scale : ℂ) :
    TermEmbed c (convection c C scale true true) (convection (cfg1 c) C scale true true) :=
  fun uh uh1 h => convection_cons_embed c hD hN C scale uh uh1 h

theorem convection_noncons_termEmbed (c : Cfg ℂ) (hD : 0 < c.D) (hN : 0 < c.N) (C : ℕ) (scale : ℂ) :
    TermEmbed c (convection c C scale true false) (convection (cfg1 c) C scale true false) :=
  fun uh uh1 h => convection_noncons_embed c hD hN C scale uh uh1 h

theorem polynomial_termEmbed (c : Cfg ℂ) (hD : 0 < c.D) (hN : 0 < c.N) (C : ℕ) (coeffs : List ℂ) :
    TermEmbed c (polynomial c C coeffs) (polynomial (cfg1 c) C coeffs) :=
  fun uh uh1 h => polynomial_embed c hD hN C coeffs uh uh1 h

theorem gradientNorm_termEmbed (c : Cfg ℂ) (hD : 0 < c.D) (hN : 0 < c.N) (C : ℕ) (scale : ℂ)
    (zeroFix : Bool) :
    TermEmbed c (gradientNorm c C scale zeroFix) (gradientNorm (cfg1 c) C scale zeroFix) :=
  fun uh uh1 h => gradientNorm_embed c hD hN C scale zeroFix uh uh1 h

theorem general_termEmbed (c : Cfg ℂ) (hD : 0 < c.D) (hN : 0 < c.N) (C : ℕ) (s0 s1 s2 : ℂ)
    (zeroFix : Bool) :
    TermEmbed c (general c C s0 s1 s2 zeroFix) (general (cfg1 c) C s0 s1 s2 zeroFix) :=
  fun uh uh1 h => general_embed c hD hN C s0 s1 s2 zeroFix uh uh1 h

/-! ### the coefficient arrays of an isotropic `general_linear` symbol -/

/-- **the coefficient hypothesis holds for every function `F` (e.g. `exp(dt·)`, the ETDRK `φ`-type
    coefficients) of the isotropic `general_linear` symbol**: on the last axis the `D`-dimensional symbol
    is the 1-D symbol with coefficients `(D·a₀, a₁, a₂, …)` (`C08_symbol_embedding`) -/
theorem embCoef_generalLinear (c : Cfg ℂ) (hD : 0 < c.D) (hN : 0 < c.N) (a : List ℂ) (F : ℂ → ℂ) :
    EmbCoef c (fun _ h => F (polySymbol c (generalLinear c.D a) h))
      (fun _ h => F (polySymbol (cfg1 c) (generalLinear (cfg1 c).D (Symmetry.embedCoefs c.D a)) h)) := by
  intro ch h hh
  show F _ = F _
  congr 1
  obtain ⟨D, N, s, fp, fq⟩ := c
  obtain ⟨E, rfl⟩ : ∃ E, D = E + 1 := ⟨D - 1, by simp only at hD; omega⟩
  refine Symmetry.polySymbol_generalLinear_embed ⟨E + 1, N, s, fp, fq⟩ (cfg1 ⟨E + 1, N, s, fp, fq⟩) rfl rfl
    E h h (by simp) ?_ ?_ a
  · intro e he hne
    have := kvec_lastAxis E N h hN hh ⟨e, he⟩
    rw [if_neg hne] at this
    exact this
  · have := kvec_lastAxis E N h hN hh (Fin.last E)
    rw [if_pos (by simp)] at this
    show (wnFlat 1 N h).getD 0 0 = (wnFlat (E + 1) N h).getD E 0
    rw [DFT.wnFlat_one]
    exact this.symm

/-! ## one step of every order -/

section Steps
variable (c : Cfg ℂ) (C : ℕ) (T T1 : MC ℂ → MC ℂ) (hT : TermEmbed c T T1)
include hT

omit hT in
theorem E0step_embed {E u E' u' : ℕ → ℕ → ℂ} (hE : EmbCoef c E E') (hu : EmbMC c u u') :
    EmbMC c (E0step E u) (E0step E' u') :=
  E0step_rel (embMC_stepRel c) hE hu

theorem E1step_embed {E c1 u E' c1' u' : ℕ → ℕ → ℂ} (hE : EmbCoef c E E') (h1 : EmbCoef c c1 c1')
    (hu : EmbMC c u u') :
    EmbMC c (E1step E c1 (liftTermND c C T) u) (E1step E' c1' (liftTermND (cfg1 c) C T1) u') :=
  E1step_rel (embMC_stepRel c) (liftTermND_embed c C T T1 hT) hE h1 hu

theorem E2step_embed {E c1 c2 u E' c1' c2' u' : ℕ → ℕ → ℂ} (hE : EmbCoef c E E') (h1 : EmbCoef c c1 c1')
    (h2 : EmbCoef c c2 c2') (hu : EmbMC c u u') :
    EmbMC c (E2step E c1 c2 (liftTermND c C T) u) (E2step E' c1' c2' (liftTermND (cfg1 c) C T1) u') :=
  E2step_rel (embMC_stepRel c) (liftTermND_embed c C T T1 hT) hE h1 h2 hu

theorem E3step_embed {E Eh c1 c2 c3 c4 c5 u E' Eh' c1' c2' c3' c4' c5' u' : ℕ → ℕ → ℂ}
    (hE : EmbCoef c E E') (hEh : EmbCoef c Eh Eh') (h1 : EmbCoef c c1 c1') (h2 : EmbCoef c c2 c2')
    (h3 : EmbCoef c c3 c3') (h4 : EmbCoef c c4 c4') (h5 : EmbCoef c c5 c5') (hu : EmbMC c u u') :
    EmbMC c (E3step E Eh c1 c2 c3 c4 c5 (liftTermND c C T) u)
      (E3step E' Eh' c1' c2' c3' c4' c5' (liftTermND (cfg1 c) C T1) u') :=
  E3step_rel (embMC_stepRel c) (liftTermND_embed c C T T1 hT) hE hEh h1 h2 h3 h4 h5 hu

theorem E4step_embed {E Eh c1 c2 c3 c4 c5 c6 u E' Eh' c1' c2' c3' c4' c5' c6' u' : ℕ → ℕ → ℂ}
    (hE : EmbCoef c E E') (hEh : EmbCoef c Eh Eh') (h1 : EmbCoef c c1 c1') (h2 : EmbCoef c c2 c2')
    (h3 : EmbCoef c c3 c3') (h4 : EmbCoef c c4 c4') (h5 : EmbCoef c c5 c5') (h6 : EmbCoef c c6 c6')
    (hu : EmbMC c u u') :
    EmbMC c (E4step E Eh c1 c2 c3 c4 c5 c6 (liftTermND c C T) u)
      (E4step E' Eh' c1' c2' c3' c4' c5' c6' (liftTermND (cfg1 c) C T1) u') :=
  E4step_rel (embMC_stepRel c) (liftTermND_embed c C T T1 hT) hE hEh h1 h2 h3 h4 h5 h6 hu

end Steps

/-! ## physical space -/

/-- every channel of the 1-D multi-channel state embedded along the last axis -/
def embedMC (c : Cfg ℂ) (u1 : MC ℂ) : MC ℂ := u1.map (embedAxis c.D c.N (c.D - 1))

/-- **forward transform of an embedded multi-channel state** (any complex 1-D state) -/
theorem specMC_embedMC (c : Cfg ℂ) (hD : 0 < c.D) (hN : 0 < c.N) (u1 : MC ℂ) :
    EmbMC c (specMC c.D c.N (embedMC c u1)) (specMC 1 c.N u1) := by
  obtain ⟨E, hE⟩ : ∃ E, c.D = E + 1 := ⟨c.D - 1, by omega⟩
  intro ch h hh
  have hh' : h < numModes (E + 1) c.N := by rw [← hE]; exact hh
  have key : (rfftnM c.D c.N ((embedMC c u1).getD ch #[])).getD h 0
      = (rfftnM (E + 1) c.N (embedAxis (E + 1) c.N E (u1.getD ch #[]))).getD h 0 := by
    rw [hE]
    congr 1
    apply EquivND.rfftnM_congr
    intro j hj
    rw [embedLast_getD E c.N _ j hj]
    unfold embedMC
    rw [EquivND.getD_map]
    split_ifs with hc
    · rw [hE, Nat.add_sub_cancel, embedLast_getD E c.N _ j hj]
    · simp [Array.getD]
  show (rfftnM c.D c.N ((embedMC c u1).getD ch #[])).getD h 0
    = if h < c.N / 2 + 1 then embScale c * (rfftnM 1 c.N (u1.getD ch #[])).getD h 0 else 0
  rw [key, rfftn_embedLast E c.N hN _ h hh']
  simp only [embScale, hE, Nat.add_sub_cancel]

/-- **inverse transform of a last-axis spectral state** -/
theorem physCh_embed (c : Cfg ℂ) (hD : 0 < c.D) (hN : 0 < c.N) (v v1 : ℕ → ℕ → ℂ) (h : EmbMC c v v1)
    (ch : ℕ) :
    physCh c.D c.N v ch = embedAxis c.D c.N (c.D - 1) (physCh 1 c.N v1 ch) := by
  obtain ⟨E, hE⟩ : ∃ E, c.D = E + 1 := ⟨c.D - 1, by omega⟩
  unfold physCh
  rw [hE, Nat.add_sub_cancel]
  apply irfftn_embedLast E c.N hN
  intro m hm
  have hm' : m < modes c := by rw [← hE] at hm; exact hm
  rw [DFT.tab_getD _ _ _ _ hm, h ch m hm']
  split_ifs with hlt
  · rw [DFT.tab_getD _ _ _ _ (by rw [DFT.numModes_one]; exact hlt)]
    simp only [embScale, hE, Nat.add_sub_cancel]
  · rfl

/-- **T4, physical space, any pair of step maps preserving the embedding relation** -/
theorem physical_embed (c : Cfg ℂ) (hD : 0 < c.D) (hN : 0 < c.N)
    (step step1 : (ℕ → ℕ → ℂ) → (ℕ → ℕ → ℂ))
    (hstep : ∀ v v1, EmbMC c v v1 → EmbMC c (step v) (step1 v1)) (n : ℕ) (u1 : MC ℂ) (ch : ℕ) :
    physCh c.D c.N (step^[n] (specMC c.D c.N (embedMC c u1))) ch
      = embedAxis c.D c.N (c.D - 1) (physCh 1 c.N (step1^[n] (specMC 1 c.N u1)) ch) :=
  physCh_embed c hD hN _ _
    (iterate_rel (EmbMC c) step step1 hstep n _ _ (specMC_embedMC c hD hN u1)) ch

section Physical
variable (c : Cfg ℂ) (hD : 0 < c.D) (hN : 0 < c.N) (C : ℕ) (T T1 : MC ℂ → MC ℂ) (hT : TermEmbed c T T1)
include hD hN hT

omit hT in
/-- **T4, linear steppers (ETDRK0), EVERY state** -/
theorem E0_embed_physical {E E' : ℕ → ℕ → ℂ} (hE : EmbCoef c E E') (n : ℕ) (u1 : MC ℂ) (ch : ℕ) :
    physCh c.D c.N ((E0step E)^[n] (specMC c.D c.N (embedMC c u1))) ch
      = embedAxis c.D c.N (c.D - 1) (physCh 1 c.N ((E0step E')^[n] (specMC 1 c.N u1)) ch) :=
  physical_embed c hD hN _ _ (fun _ _ hv => E0step_embed c hE hv) n u1 ch

/-- **T4, ETDRK1** -/
theorem E1_embed_physical {E c1 E' c1' : ℕ → ℕ → ℂ} (hE : EmbCoef c E E') (h1 : EmbCoef c c1 c1')
    (n : ℕ) (u1 : MC ℂ) (ch : ℕ) :
    physCh c.D c.N ((E1step E c1 (liftTermND c C T))^[n] (specMC c.D c.N (embedMC c u1))) ch
      = embedAxis c.D c.N (c.D - 1)
          (physCh 1 c.N ((E1step E' c1' (liftTermND (cfg1 c) C T1))^[n] (specMC 1 c.N u1)) ch) :=
  physical_embed c hD hN _ _ (fun _ _ hv => E1step_embed c C T T1 hT hE h1 hv) n u1 ch

/-- **T4, ETDRK2** -/
theorem E2_embed_physical {E c1 c2 E' c1' c2' : ℕ → ℕ → ℂ} (hE : EmbCoef c E E') (h1 : EmbCoef c c1 c1')
    (h2 : EmbCoef c c2 c2') (n : ℕ) (u1 : MC ℂ) (ch : ℕ) :
    physCh c.D c.N ((E2step E c1 c2 (liftTermND c C T))^[n] (specMC c.D c.N (embedMC c u1))) ch
      = embedAxis c.D c.N (c.D - 1)
          (physCh 1 c.N ((E2step E' c1' c2' (liftTermND (cfg1 c) C T1))^[n] (specMC 1 c.N u1)) ch) :=
  physical_embed c hD hN _ _ (fun _ _ hv => E2step_embed c C T T1 hT hE h1 h2 hv) n u1 ch

/-- **T4, ETDRK3** -/
theorem E3_embed_physical {E Eh c1 c2 c3 c4 c5 E' Eh' c1' c2' c3' c4' c5' : ℕ → ℕ → ℂ}
    (hE : EmbCoef c E E') (hEh : EmbCoef c Eh Eh') (h1 : EmbCoef c c1 c1') (h2 : EmbCoef c c2 c2')
    (h3 : EmbCoef c c3 c3') (h4 : EmbCoef c c4 c4') (h5 : EmbCoef c c5 c5') (n : ℕ) (u1 : MC ℂ) (ch : ℕ) :
    physCh c.D c.N ((E3step E Eh c1 c2 c3 c4 c5 (liftTermND c C T))^[n]
        (specMC c.D c.N (embedMC c u1))) ch
      = embedAxis c.D c.N (c.D - 1)
          (physCh 1 c.N ((E3step E' Eh' c1' c2' c3' c4' c5' (liftTermND (cfg1 c) C T1))^[n]
            (specMC 1 c.N u1)) ch) :=
  physical_embed c hD hN _ _
    (fun _ _ hv => E3step_embed c C T T1 hT hE hEh h1 h2 h3 h4 h5 hv) n u1 ch

/-- **T4, ETDRK4**: `n` steps of the `D`-dimensional stepper applied to the embedded state are the
    embedding of `n` steps of the 1-D stepper -/
theorem E4_embed_physical {E Eh c1 c2 c3 c4 c5 c6 E' Eh' c1' c2' c3' c4' c5' c6' : ℕ → ℕ → ℂ}
    (hE : EmbCoef c E E') (hEh : EmbCoef c Eh Eh') (h1 : EmbCoef c c1 c1') (h2 : EmbCoef c c2 c2')
    (h3 : EmbCoef c c3 c3') (h4 : EmbCoef c c4 c4') (h5 : EmbCoef c c5 c5') (h6 : EmbCoef c c6 c6')
    (n : ℕ) (u1 : MC ℂ) (ch : ℕ) :
    physCh c.D c.N ((E4step E Eh c1 c2 c3 c4 c5 c6 (liftTermND c C T))^[n]
        (specMC c.D c.N (embedMC c u1))) ch
      = embedAxis c.D c.N (c.D - 1)
          (physCh 1 c.N ((E4step E' Eh' c1' c2' c3' c4' c5' c6' (liftTermND (cfg1 c) C T1))^[n]
            (specMC 1 c.N u1)) ch) :=
  physical_embed c hD hN _ _
    (fun _ _ hv => E4step_embed c C T T1 hT hE hEh h1 h2 h3 h4 h5 h6 hv) n u1 ch

end Physical

/-- **Capstone (T4)**: ETDRK4 with the `general_linear` symbol `(a₀, a₁, …)` (coefficients ANY functions
    `F_i` of `dt·λ`) and the `general` nonlinearity in `D` dimensions, applied to a 1-D state embedded
    along the last axis, is the embedding of the 1-D stepper with linear coefficients `(D·a₀, a₁, …)`;
    written out on the model's transforms. -/
theorem E4_general_embed (c : Cfg ℂ) (hD : 0 < c.D) (hN : 0 < c.N) (a : List ℂ)
    (F Fh F1 F2 F3 F4 F5 F6 : ℂ → ℂ) (s0 s1 s2 : ℂ) (zeroFix : Bool) (n : ℕ) (w : Array ℂ) :
    irfftnM c.D c.N (tab (numModes c.D c.N)
        (((E4step (fun _ h => F (polySymbol c (generalLinear c.D a) h))
            (fun _ h => Fh (polySymbol c (generalLinear c.D a) h))
            (fun _ h => F1 (polySymbol c (generalLinear c.D a) h))
            (fun _ h => F2 (polySymbol c (generalLinear c.D a) h))
            (fun _ h => F3 (polySymbol c (generalLinear c.D a) h))
            (fun _ h => F4 (polySymbol c (generalLinear c.D a) h))
            (fun _ h => F5 (polySymbol c (generalLinear c.D a) h))
            (fun _ h => F6 (polySymbol c (generalLinear c.D a) h))
            (liftTermND c 1 (general c 1 s0 s1 s2 zeroFix)))^[n]
          (fun ch h => (rfftnM c.D c.N ((#[embedAxis c.D c.N (c.D - 1) w] : MC ℂ).getD ch #[])).getD h 0)) 0))
      = embedAxis c.D c.N (c.D - 1) (irfftnM 1 c.N (tab (numModes 1 c.N)
        (((E4step
            (fun _ h => F (polySymbol (cfg1 c) (generalLinear 1 (Symmetry.embedCoefs c.D a)) h))
            (fun _ h => Fh (polySymbol (cfg1 c) (generalLinear 1 (Symmetry.embedCoefs c.D a)) h))
            (fun _ h => F1 (polySymbol (cfg1 c) (generalLinear 1 (Symmetry.embedCoefs c.D a)) h))
            (fun _ h => F2 (polySymbol (cfg1 c) (generalLinear 1 (Symmetry.embedCoefs c.D a)) h))
            (fun _ h => F3 (polySymbol (cfg1 c) (generalLinear 1 (Symmetry.embedCoefs c.D a)) h))
            (fun _ h => F4 (polySymbol (cfg1 c) (generalLinear 1 (Symmetry.embedCoefs c.D a)) h))
            (fun _ h => F5 (polySymbol (cfg1 c) (generalLinear 1 (Symmetry.embedCoefs c.D a)) h))
            (fun _ h => F6 (polySymbol (cfg1 c) (generalLinear 1 (Symmetry.embedCoefs c.D a)) h))
            (liftTermND (cfg1 c) 1 (general (cfg1 c) 1 s0 s1 s2 zeroFix)))^[n]
          (fun ch h => (rfftnM 1 c.N ((#[w] : MC ℂ).getD ch #[])).getD h 0)) 0))) := by
  have h := E4_embed_physical c hD hN 1 _ _ (general_termEmbed c hD hN 1 s0 s1 s2 zeroFix)
    (embCoef_generalLinear c hD hN a F) (embCoef_generalLinear c hD hN a Fh)
    (embCoef_generalLinear c hD hN a F1) (embCoef_generalLinear c hD hN a F2)
    (embCoef_generalLinear c hD hN a F3) (embCoef_generalLinear c hD hN a F4)
    (embCoef_generalLinear c hD hN a F5) (embCoef_generalLinear c hD hN a F6) n #[w] 0
  have e : embedMC c #[w] = #[embedAxis c.D c.N (c.D - 1) w] := by simp [embedMC]
  rw [e] at h
  exact h

/-! ## non-vacuity -/

example (c : Cfg ℂ) (hD : 0 < c.D) (hN : 0 < c.N) : ∃ T T1 : MC ℂ → MC ℂ, TermEmbed c T T1 :=
  ⟨_, _, general_termEmbed c hD hN 1 1 1 1 true⟩

example (c : Cfg ℂ) (hD : 0 < c.D) (hN : 0 < c.N) : ∃ E E' : ℕ → ℕ → ℂ, EmbCoef c E E' :=
  ⟨_, _, embCoef_generalLinear c hD hN [1, 0, 1] Complex.exp⟩

example (c : Cfg ℂ) (hD : 0 < c.D) (hN : 0 < c.N) (u1 : MC ℂ) : ∃ v v1, EmbMC c v v1 :=
  ⟨_, _, specMC_embedMC c hD hN u1⟩

end Exponax.AxisPerm
