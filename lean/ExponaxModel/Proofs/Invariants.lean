import ExponaxModel.Proofs.AliasND2Vort
import ExponaxModel.Proofs.ConserveVorticityFull
/-
C09 (invariants), part 1 — generic tools.

  * `triV`                      the triad sum `Σ_{a+b+c=0, a,b,c ∈ box} w(a,b,c)·Y_a Y_b Y_c` over box
                                vectors of `ℤ^D`, its symmetries, and the two antisymmetry lemmas
                                (`triV_eq_zero_of_antisymm13`, `…12`);
  * `sum_trunc_conv_eq_triV`    the "first slot × linear convolution" form is a triad sum;
  * `inner_irfftn_nfft`         the band projection `P_K = irfftn ∘ mask ∘ rfftn` is self-adjoint and is
                                the identity on band-limited fields:
                                `Σ_j f_j · irfftn(r·mask·rfftn g)_j = r · Σ_j f_j g_j`;
  * `sum_mul_band`              `Σ_j y_j g_j = N^{-D} Σ_{m ∈ box} Y(m) G(−m)` for band-limited `y`.
-/
set_option linter.unusedVariables false
set_option linter.unusedSimpArgs false
namespace Exponax.Invariants
open Exponax Exponax.Layout Exponax.Transform Exponax.DFT Exponax.Nonlin Exponax.Alias Exponax.AliasND Exponax.Conserve Finset

/-! ### triad sums over the box -/

/-- `Σ_{a,b,c ∈ box(K), a+b+c=0} w(a,b,c) · Y_a Y_b Y_c` -/
noncomputable def triV {D : ℕ} (K : ℤ) (Y : (Fin D → ℤ) → ℂ)
    (w : (Fin D → ℤ) → (Fin D → ℤ) → (Fin D → ℤ) → ℂ) : ℂ :=
  ∑ a ∈ box D K, ∑ b ∈ box D K, ∑ c ∈ box D K,
    if a + b + c = 0 then w a b c * (Y a * Y b * Y c) else 0

theorem sum3_rev {ι : Type} (S : Finset ι) (f : ι → ι → ι → ℂ) :
    ∑ x ∈ S, ∑ y ∈ S, ∑ z ∈ S, f z y x = ∑ x ∈ S, ∑ y ∈ S, ∑ z ∈ S, f x y z := by
  rw [Finset.sum_comm]
  have : ∀ y ∈ S, ∑ x ∈ S, ∑ z ∈ S, f z y x = ∑ z ∈ S, ∑ x ∈ S, f z y x :=
    fun y _ => Finset.sum_comm
  rw [Finset.sum_congr rfl this, Finset.sum_comm]

theorem triV_swap13 {D : ℕ} (K : ℤ) (Y : (Fin D → ℤ) → ℂ)
    (w : (Fin D → ℤ) → (Fin D → ℤ) → (Fin D → ℤ) → ℂ) :
    triV K Y (fun a b c => w c b a) = triV K Y w := by
  unfold triV
  rw [← sum3_rev (box D K) (fun a b c => if a + b + c = 0 then w a b c * (Y a * Y b * Y c) else 0)]
  apply Finset.sum_congr rfl; intro a _
  apply Finset.sum_congr rfl; intro b _
  apply Finset.sum_congr rfl; intro c _
  have e : a + b + c = 0 ↔ c + b + a = 0 := by
    rw [add_comm c b, add_comm (b + c) a, add_assoc]
  by_cases h : a + b + c = 0
  · rw [if_pos h, if_pos (e.mp h)]; ring
  · rw [if_neg h, if_neg (fun h' => h (e.mpr h'))]

theorem triV_swap12 {D : ℕ} (K : ℤ) (Y : (Fin D → ℤ) → ℂ)
    (w : (Fin D → ℤ) → (Fin D → ℤ) → (Fin D → ℤ) → ℂ) :
    triV K Y (fun a b c => w b a c) = triV K Y w := by
  unfold triV
  rw [Finset.sum_comm]
  apply Finset.sum_congr rfl; intro a _
  apply Finset.sum_congr rfl; intro b _
  apply Finset.sum_congr rfl; intro c _
  have e : b + a + c = 0 ↔ a + b + c = 0 := by rw [add_comm b a]
  by_cases h : a + b + c = 0
  · rw [if_pos h, if_pos (e.mpr h)]; ring
  · rw [if_neg h, if_neg (fun h' => h (e.mp h'))]

theorem triV_congr {D : ℕ} (K : ℤ) (Y : (Fin D → ℤ) → ℂ)
    (w w' : (Fin D → ℤ) → (Fin D → ℤ) → (Fin D → ℤ) → ℂ)
    (h : ∀ a b c, a + b + c = 0 → w a b c = w' a b c) : triV K Y w = triV K Y w' := by
  unfold triV
  apply Finset.sum_congr rfl; intro a _
  apply Finset.sum_congr rfl; intro b _
  apply Finset.sum_congr rfl; intro c _
  by_cases h0 : a + b + c = 0
  · rw [if_pos h0, if_pos h0, h a b c h0]
  · rw [if_neg h0, if_neg h0]

theorem triV_neg {D : ℕ} (K : ℤ) (Y : (Fin D → ℤ) → ℂ)
    (w : (Fin D → ℤ) → (Fin D → ℤ) → (Fin D → ℤ) → ℂ) :
    triV K Y (fun a b c => -w a b c) = -triV K Y w := by
  unfold triV
  simp only [← Finset.sum_neg_distrib]
  apply Finset.sum_congr rfl; intro a _
  apply Finset.sum_congr rfl; intro b _
  apply Finset.sum_congr rfl; intro c _
  split_ifs
  · ring
  · ring

theorem triV_add {D : ℕ} (K : ℤ) (Y : (Fin D → ℤ) → ℂ)
    (w1 w2 : (Fin D → ℤ) → (Fin D → ℤ) → (Fin D → ℤ) → ℂ) :
    triV K Y w1 + triV K Y w2 = triV K Y (fun a b c => w1 a b c + w2 a b c) := by
  unfold triV
  simp only [← Finset.sum_add_distrib]
  apply Finset.sum_congr rfl; intro a _
  apply Finset.sum_congr rfl; intro b _
  apply Finset.sum_congr rfl; intro c _
  split_ifs
  · ring
  · ring

theorem eq_zero_of_eq_neg_self (z : ℂ) (h : z = -z) : z = 0 := by
  have : (2 : ℂ) * z = 0 := by linear_combination h
  exact (mul_eq_zero.mp this).resolve_left (by norm_num)

/-- a weight antisymmetric under the exchange of the first and third index (on the constraint surface
    `a + b + c = 0`) gives a vanishing triad sum -/
theorem triV_eq_zero_of_antisymm13 {D : ℕ} (K : ℤ) (Y : (Fin D → ℤ) → ℂ)
    (w : (Fin D → ℤ) → (Fin D → ℤ) → (Fin D → ℤ) → ℂ)
    (h : ∀ a b c, a + b + c = 0 → w c b a = -w a b c) : triV K Y w = 0 := by
  apply eq_zero_of_eq_neg_self
  rw [← triV_neg, ← triV_swap13 K Y w]
  exact triV_congr K Y _ _ h

/-- the same for the exchange of the first and second index -/
theorem triV_eq_zero_of_antisymm12 {D : ℕ} (K : ℤ) (Y : (Fin D → ℤ) → ℂ)
    (w : (Fin D → ℤ) → (Fin D → ℤ) → (Fin D → ℤ) → ℂ)
    (h : ∀ a b c, a + b + c = 0 → w b a c = -w a b c) : triV K Y w = 0 := by
  apply eq_zero_of_eq_neg_self
  rw [← triV_neg, ← triV_swap12 K Y w]
  exact triV_congr K Y _ _ h

/-! ### from the convolution form to the triad sum -/

theorem box_neg_mem {D : ℕ} {K : ℤ} {p : Fin D → ℤ} (hp : p ∈ box D K) : -p ∈ box D K := by
  rw [mem_box] at hp ⊢
  intro d
  rw [Pi.neg_apply, abs_neg]
  exact hp d

/-- the box is symmetric: `Σ_{m ∈ box} f(m) = Σ_{m ∈ box} f(−m)` -/
theorem sum_box_neg {D : ℕ} (K : ℤ) (f : (Fin D → ℤ) → ℂ) :
    ∑ m ∈ box D K, f m = ∑ m ∈ box D K, f (-m) := by
  apply Finset.sum_nbij' (fun m => -m) (fun m => -m)
  · intro m hm; exact box_neg_mem hm
  · intro m hm; exact box_neg_mem hm
  · intro m _; exact neg_neg m
  · intro m _; exact neg_neg m
  · intro m _; rw [neg_neg]

/-- a truncated lattice function read through the box window -/
theorem truncV_eq_sum_ite {D : ℕ} (K : ℤ) (G : (Fin D → ℤ) → ℂ) (p q : Fin D → ℤ) :
    truncV K G (-p - q) = ∑ r ∈ box D K, if p + q + r = 0 then G r else 0 := by
  have e : ∀ r : Fin D → ℤ, (p + q + r = 0) ↔ (r = -p - q) := by
    intro r
    constructor
    · intro h
      have : r = -(p + q) := eq_neg_of_add_eq_zero_right h
      rw [this, neg_add, sub_eq_add_neg]
    · intro h
      rw [h]; abel
  simp only [e]
  rw [Finset.sum_ite_eq']
  unfold truncV
  by_cases hmem : -p - q ∈ box D K
  · rw [if_pos hmem, if_pos (mem_box.mp hmem)]
  · rw [if_neg hmem, if_neg (fun h => hmem (mem_box.mpr h))]

/-- **convolution form = triad form.**  For lattice multipliers `lam, μ, ν` and any `X`:
    `Σ_{k ∈ box} lam(−k) X̃(−k) · Σ_{q ∈ box} μ(q) X̃(q) · ν(k−q) X̃(k−q)
       = Σ_{p+q+r=0 in the box} lam(p) μ(q) ν(r) · X_p X_q X_r`  (`X̃` the box truncation of `X`). -/
theorem sum_trunc_conv_eq_triV {D : ℕ} (K : ℤ) (lam μ ν X : (Fin D → ℤ) → ℂ) :
    ∑ k ∈ box D K, truncV K (fun p => lam p * X p) (-k) *
        ∑ q ∈ box D K, truncV K (fun p => μ p * X p) q * truncV K (fun p => ν p * X p) (k - q)
      = triV K X (fun p q r => lam p * μ q * ν r) := by
  rw [sum_box_neg]
  unfold triV
  apply Finset.sum_congr rfl; intro p hp
  rw [neg_neg, Finset.mul_sum]
  apply Finset.sum_congr rfl; intro q hq
  rw [truncV_of_le _ _ _ (mem_box.mp hp), truncV_of_le _ _ _ (mem_box.mp hq),
    truncV_eq_sum_ite K (fun p => ν p * X p) p q, Finset.mul_sum, Finset.mul_sum]
  apply Finset.sum_congr rfl; intro r _
  split_ifs
  · ring
  · ring

/-- the same with `linConv` (which carries the normalisation `N^{-D}`) -/
theorem sum_trunc_linConv_eq_triV {D : ℕ} (N : ℕ) (K : ℤ) (lam μ ν X : (Fin D → ℤ) → ℂ) :
    ∑ k ∈ box D K, truncV K (fun p => lam p * X p) (-k) *
        linConv D N K (fun p => μ p * X p) (fun p => ν p * X p) k
      = (1 / ((N ^ D : ℕ) : ℂ)) * triV K X (fun p q r => lam p * μ q * ν r) := by
  rw [← sum_trunc_conv_eq_triV, Finset.mul_sum]
  apply Finset.sum_congr rfl; intro k _
  unfold linConv
  ring

/-! ### the band projection is self-adjoint, and the identity on band-limited fields -/

/-- **adjointness.**  `f` a real grid field band-limited to the box `Kc` (e.g. any `nifft c ·`), `g` a
    real grid field, `r` real, `C` a stored spectrum with `C_h = r · (nfft c g)_h = r·mask_h·ĝ_h`.
    Then `Σ_j f_j · irfftn(C)_j = r · Σ_j f_j g_j`: the mask applied after the forward transform is
    invisible to a band-limited test field.  Only `2·Kc < N` is used. -/
theorem inner_irfftn_nfft (c : Cfg ℂ) (hD : 0 < c.D) (hq : c.fq ≠ 0) (hN : 0 < c.N)
    (h2 : 2 * Kc c < (c.N : ℤ)) (f g : Array ℂ) (hf : IsRealND c.D c.N f) (hg : IsRealND c.D c.N g)
    (hbf : BandLimitedV c.D c.N (Kc c) f) (r : ℝ) (C : Array ℂ)
    (hC : ∀ h, h < numModes c.D c.N → C.getD h 0 = (r : ℂ) * (nfft c g).getD h 0) :
    ∑ j ∈ range (c.N ^ c.D), f.getD j 0 * (irfftnM c.D c.N C).getD j 0
      = (r : ℂ) * ∑ j ∈ range (c.N ^ c.D), f.getD j 0 * g.getD j 0 := by
  have hGne : ((c.N ^ c.D : ℕ) : ℝ) ≠ 0 := by exact_mod_cast (pow_pos hN c.D).ne'
  rw [real_inner_irfftn c.D c.N hN f C hf, parseval_cross_nd_complex c.D c.N hD hN f g hf hg]
  have hstored := stored_of_bandLimitedV c.D c.N hD hN (Kc c) h2 f hbf
  have hterm : ∀ h ∈ range (numModes c.D c.N),
      (herm_weight c.D c.N h : ℝ) * (C.getD h 0 * (starRingEnd ℂ) ((rfftnM c.D c.N f).getD h 0)).re
      = r * ((herm_weight c.D c.N h : ℝ) *
          ((rfftnM c.D c.N f).getD h 0 * (starRingEnd ℂ) ((rfftnM c.D c.N g).getD h 0)).re) := by
    intro h hh
    have hh' := Finset.mem_range.mp hh
    rw [hC h hh', nfft_getD c g h hh']
    by_cases hk : ∀ d, |kvec c.D c.N h d| ≤ Kc c
    · rw [(mask_nd_eq_one_iff c hq h).mpr hk, one_mul, mul_assoc, Complex.re_ofReal_mul]
      have : ((rfftnM c.D c.N g).getD h 0 * (starRingEnd ℂ) ((rfftnM c.D c.N f).getD h 0)).re
          = ((rfftnM c.D c.N f).getD h 0 * (starRingEnd ℂ) ((rfftnM c.D c.N g).getD h 0)).re := by
        simp only [Complex.mul_re, Complex.conj_re, Complex.conj_im]
        ring
      rw [this]
      ring
    · have hz : (rfftnM c.D c.N f).getD h 0 = 0 := by
        apply hstored h hh'
        by_contra hno
        exact hk (fun d => not_lt.mp (fun hlt => hno ⟨d, hlt⟩))
      rw [hz]
      simp
  rw [Finset.sum_congr rfl hterm, ← Finset.mul_sum]
  push_cast
  field_simp

/-! ### grid sums through the full spectrum -/

/-- `Σ_j y_j g_j = N^{-D} Σ_{m ∈ box} Y(m) G(−m)` for `y` band-limited to the box `K`, `2K < N` -/
theorem sum_mul_band (D N : ℕ) (hN : 0 < N) (K : ℤ) (hK : 2 * K < (N : ℤ)) (y g : Array ℂ)
    (hy : BandLimitedV D N K y) :
    ∑ j ∈ range (N ^ D), y.getD j 0 * g.getD j 0
      = (1 / ((N ^ D : ℕ) : ℂ)) * ∑ m ∈ box D K, dftV D N y m * dftV D N g (-m) := by
  rw [← dftV_zero_eq_sum D N (fun j => y.getD j 0 * g.getD j 0), dftV_mul_band D N hN K hK y g hy]
  congr 1
  apply Finset.sum_congr rfl
  intro m _
  rw [zero_sub]

/-- **the test field may be left untruncated.**  If the stored spectrum `C` vanishes at the dropped modes
    (every output of a dealiased nonlinear term does), a real field `x` and its band truncation
    `P_K x = ifft(mask·rfftn x)` have the same grid inner product with `irfftn(C)`. -/
theorem inner_irfftn_trunc (c : Cfg ℂ) (hD : 0 < c.D) (hq : c.fq ≠ 0) (hN : 0 < c.N)
    (h2 : 2 * Kc c < (c.N : ℤ)) (x : Array ℂ) (hx : IsRealND c.D c.N x) (C : Array ℂ)
    (hC : ∀ h, h < numModes c.D c.N → mask c h = 0 → C.getD h 0 = 0) :
    ∑ j ∈ range (c.N ^ c.D), x.getD j 0 * (irfftnM c.D c.N C).getD j 0
      = ∑ j ∈ range (c.N ^ c.D), (nifft c (rfftnM c.D c.N x)).getD j 0 * (irfftnM c.D c.N C).getD j 0 := by
  rw [real_inner_irfftn c.D c.N hN x C hx,
    real_inner_irfftn c.D c.N hN _ C (nifft_isRealND c hN (rfftnM c.D c.N x))]
  congr 2
  apply Finset.sum_congr rfl
  intro h hh
  have hh' := Finset.mem_range.mp hh
  rw [rfftn_nifft_rfftn c hD hq hN h2 x hx h hh']
  rcases Conserve.mask_zero_or_one c h with hm | hm
  · rw [hm, one_mul]
  · rw [hC h hh' hm, zero_mul, zero_mul]

/-! ### non-vacuity of the hypotheses -/

/-- the antisymmetry hypotheses are satisfiable by a non-zero weight (`D = 1`, `w(a,b,c) = a − c`, resp.
    `a − b`) -/
example : ∀ a b c : Fin 1 → ℤ, a + b + c = 0 →
    (fun a b c : Fin 1 → ℤ => ((a 0 : ℤ) : ℂ) - ((c 0 : ℤ) : ℂ)) c b a
      = -(fun a b c : Fin 1 → ℤ => ((a 0 : ℤ) : ℂ) - ((c 0 : ℤ) : ℂ)) a b c := by
  intro a b c _; ring

example : ∀ a b c : Fin 1 → ℤ, a + b + c = 0 →
    (fun a b c : Fin 1 → ℤ => ((a 0 : ℤ) : ℂ) - ((b 0 : ℤ) : ℂ)) b a c
      = -(fun a b c : Fin 1 → ℤ => ((a 0 : ℤ) : ℂ) - ((b 0 : ℤ) : ℂ)) a b c := by
  intro a b c _; ring

/-- hypotheses of `inner_irfftn_nfft` / `sum_mul_band` / `inner_irfftn_trunc`: any `f = nifft c ûh` is real
    and band-limited, `C = r·nfft c g` tabulated is admissible, and it vanishes at the dropped modes -/
example (c : Cfg ℂ) (hq : c.fq ≠ 0) (hN : 0 < c.N) (uh g : Array ℂ) (r : ℝ) :
    IsRealND c.D c.N (nifft c uh) ∧ BandLimitedV c.D c.N (Kc c) (nifft c uh) ∧
    (∀ h, h < numModes c.D c.N →
      (tab (numModes c.D c.N) fun h => (r : ℂ) * (nfft c g).getD h 0).getD h 0
        = (r : ℂ) * (nfft c g).getD h 0) ∧
    (∀ h, h < numModes c.D c.N → mask c h = 0 →
      (tab (numModes c.D c.N) fun h => (r : ℂ) * (nfft c g).getD h 0).getD h 0 = 0) :=
  ⟨nifft_isRealND c hN uh, nifft_bandLimitedV c hq hN uh, fun h hh => DFT.tab_getD _ _ _ _ hh,
    fun h hh hm => by rw [DFT.tab_getD _ _ _ _ hh, nfft_getD_of_mask_zero c g h hm, mul_zero]⟩

end Exponax.Invariants
