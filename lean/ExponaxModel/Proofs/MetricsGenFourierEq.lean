import Mathlib.Analysis.SpecialFunctions.Pow.Real
import Mathlib.Analysis.SpecialFunctions.Pow.Complex
import Mathlib.Tactic
import ExponaxModel.Proofs.MetricsAlgebra
import ExponaxModel.Proofs.MetricsGenEq
import ExponaxModel.Proofs.GenInstances
set_option linter.unusedVariables false

namespace Exponax.Gen.MetricsGen
open Exponax Exponax.Layout Exponax.Transform Exponax.DFT Exponax.Gen Exponax.Gen.Prelude Exponax.Metrics

/-- the band of `Metrics.fourierAggregator` that the optional limits `low`, `high` denote (defaults `0`, `N/2+1`) -/
def bandOf (N : ℕ) (low high : Option ℕ) : Option (ℕ × ℕ) :=
  if low.isSome = true ∨ high.isSome = true then some (low.getD 0, high.getD (N / 2 + 1)) else none

/-! ### scalar facts at `ℂ` -/

theorem rpow_ofReal (a q : ℝ) : HasRpow.rpow ((a : ℝ) : ℂ) ((q : ℝ) : ℂ) = ((a ^ q : ℝ) : ℂ) := by
  simp [hasRpow_complex]

theorem floor_norm (z : ℂ) :
    ‖(bif HasLtB.ltb (HasAbs.abs z) (qlit 1 100000) then (0 : ℂ) else z)‖
      = if ‖z‖ < 1 / 100000 then 0 else ‖z‖ := by
  have h : (HasLtB.ltb (HasAbs.abs z) (qlit 1 100000 : ℂ) = true) ↔ ‖z‖ < 1 / 100000 := by
    rw [hasLtB_complex, hasAbs_complex, decide_eq_true_eq]
    have : ((qlit 1 100000 : ℂ)).re = 1 / 100000 := by
      simp only [qlit, lit]
      norm_num
    rw [this, Complex.ofReal_re]
  by_cases hz : ‖z‖ < 1 / 100000
  · rw [h.2 hz, cond_true, if_pos hz, norm_zero]
  · rw [Bool.eq_false_iff.mpr (fun hh => hz (h.1 hh)), cond_false, if_neg hz]

theorem term_cast (z : ℂ) (p r : ℝ) :
    HasRpow.rpow (HasAbs.abs z) (p : ℂ) / (r : ℂ) = ((‖z‖ ^ p / r : ℝ) : ℂ) := by
  rw [hasAbs_complex, rpow_ofReal, Complex.ofReal_div]

theorem scale_cast (L : ℝ) (N D : ℕ) : npow ((L : ℂ) / lit N) D = (((L / (N : ℝ)) ^ D : ℝ) : ℂ) := by
  rw [npow_eq, lit_eq]; push_cast; rfl

theorem recon_cast (D N h : ℕ) (hh : h < numModes D N) :
    (ext_build_scaling_array D N "reconstruction" : Array ℂ).getD h 0 = ((reconScale D N h : ℝ) : ℂ) := by
  unfold ext_build_scaling_array reconScale
  rw [tab_getD _ _ _ _ hh]
  have hc : scaling_mode_code "reconstruction" = 1 := by decide
  rw [hc, Layout.scaling_eq, Layout.scaling_eq]
  push_cast
  rfl

theorem mag_getD (D N : ℕ) (u : Array ℝ) (h : ℕ) (hh : h < numModes D N) :
    (magnitudes D N u).getD h 0 = ‖(rfftnM D N (toComplex u)).getD h 0‖ := by
  unfold magnitudes; rw [tab_getD _ _ _ _ hh]

/-- one aggregate `((L/N)^D Σ_h |A_h|^p / scaling_h)^q` of the regenerated code, as a real number -/
theorem agg_cast (D N : ℕ) (L p q : ℝ) (A : Array ℂ) (w : ℕ → ℝ)
    (hA : ∀ h, h < numModes D N → ‖A.getD h 0‖ = w h) (hsz : A.size = numModes D N) :
    HasRpow.rpow (npow ((L : ℂ) / lit N) D *
        sumRange A.size fun h => (tab A.size fun h => HasRpow.rpow (HasAbs.abs (A.getD h 0)) (p : ℂ) /
          (ext_build_scaling_array D N "reconstruction").getD h 0).getD h 0) (q : ℂ)
      = (((((L / (N : ℝ)) ^ D * ∑ h ∈ Finset.range (numModes D N), w h ^ p / reconScale D N h) ^ q : ℝ)) : ℂ) := by
  rw [hsz, sumRange_tab_getD', scale_cast, DFT.sumRange_eq, ← rpow_ofReal]
  congr 1
  push_cast
  congr 1
  apply Finset.sum_congr rfl
  intro h hh
  have hh' := Finset.mem_range.mp hh
  rw [recon_cast D N h hh', term_cast, hA h hh']
  push_cast; rfl

/-- the derivative weight: `|(i·s·k)^m| = |s·k|^m`, and `0` at `k = 0` when `m ≠ 0` -/
theorem deriv_norm (L m : ℝ) (hm : m ≠ 0) (k : ℤ) :
    ‖HasCpow.cpow (HasI.I * ((lit 2 * HasPi.pi / (L : ℂ)) * (IntCast.intCast k : ℂ))) ((m : ℝ) : ℂ)‖
      = if k = 0 then 0 else |2 * Real.pi / L * ((k : ℤ) : ℝ)| ^ m := by
  rw [hasCpow_complex, Complex.norm_cpow_real, hasI_complex, hasPi_complex, lit_eq]
  have e : (Complex.I * (((2 : ℕ) : ℂ) * (Real.pi : ℂ) / (L : ℂ) * (IntCast.intCast k : ℂ)))
      = Complex.I * ((2 * Real.pi / L * (k : ℝ) : ℝ) : ℂ) := by
    push_cast; rfl
  rw [e, norm_mul, Complex.norm_I, one_mul, Complex.norm_real, Real.norm_eq_abs]
  by_cases hk : k = 0
  · rw [if_pos hk, hk]; simp [Real.zero_rpow hm]
  · rw [if_neg hk]

theorem dop_map {β : Type} (D N : ℕ) (L : ℂ) (F : Array ℂ → β) :
    List.map F (ext_build_derivative_operator D L N)
      = (List.range D).map (fun d => F (tab (numModes D N) (fun h =>
          HasI.I * ((lit 2 * HasPi.pi / L) * (IntCast.intCast ((wnFlat D N h).getD d 0) : ℂ))))) := by
  unfold ext_build_derivative_operator
  rw [List.map_map]; rfl

/-- **`fourier_aggregator` with a derivative order `m ≠ 0`** is the model aggregator on the magnitudes.
    (`_partial`: for `m = 0` the two differ, see `fourier_aggregator_deriv_zero`.) -/
theorem fourier_aggregator_deriv_eq_model_partial (D N : ℕ) (u : Array ℝ) (L p q m : ℝ) (hm : m ≠ 0)
    (low high : Option ℕ) :
    fourier_aggregator (K := ℂ) D N (toComplex u) none (L : ℂ) none (p : ℂ) (some (q : ℂ)) low high (some (m : ℂ))
      = ((Metrics.fourierAggregator D N L (2 * Real.pi / L) p q (bandOf N low high) (some m) (1 / 100000)
          (Metrics.magnitudes D N u) : ℝ) : ℂ) := by
  rw [fourierAggregator_some]
  unfold fourier_aggregator
  rcases low with _ | lo <;> rcases high with _ | hi
  all_goals
    simp only [ext_fft, rfftnM_size, tab_size, lp_size, List.map_map, Option.isSome_none, Option.isSome_some,
      or_self, or_true, true_or, if_true, if_false, Bool.false_eq_true]
    rw [dop_map, sumList_eq, DFT.list_range_map_sum, Complex.ofReal_sum]
    apply Finset.sum_congr rfl
    intro d hd
    simp only [Function.comp]
    apply agg_cast
    · intro h hh
      simp only [tab_size, tab_getD _ _ _ _ hh, lp_getD _ _ _ _ hh, norm_mul, floor_norm, deriv_norm L m hm, keptVal, bandOf,
        derivFactor, mag_getD _ _ _ _ hh, bandMask, Option.getD_none, Option.getD_some, Nat.cast_zero,
        Option.isSome_none, Option.isSome_some, or_self, or_true, true_or, if_true, if_false, Bool.false_eq_true]
      try (cases (!lowPassSep (wnFlat D N h) _ 1 && lowPassSep (wnFlat D N h) _ 1) <;> simp)
    · simp

/-- **`fourier_aggregator` without derivative** (floor `1e-5`, optional band with the default limits `0`,
    `N/2+1`, reconstruction scaling, cell volume, exponents) is the model aggregator on the magnitudes `|û_h|` -/
theorem fourier_aggregator_eq_model (D N : ℕ) (u : Array ℝ) (L p q : ℝ) (low high : Option ℕ) :
    fourier_aggregator (K := ℂ) D N (toComplex u) none (L : ℂ) none (p : ℂ) (some (q : ℂ)) low high none
      = ((Metrics.fourierAggregator D N L (2 * Real.pi / L) p q (bandOf N low high) none (1 / 100000)
          (Metrics.magnitudes D N u) : ℝ) : ℂ) := by
  rw [fourierAggregator_none]
  unfold fourier_aggregator
  simp only [ext_fft, rfftnM_size, tab_size, lp_size]
  simp only [List.map_cons, List.map_nil, sumList, List.foldl_cons, List.foldl_nil, zero_add]
  apply agg_cast
  · intro h hh
    rcases low with _ | lo <;> rcases high with _ | hi <;>
      simp only [Option.isSome_none, Option.isSome_some, or_self, or_true, true_or, if_true, if_false,
        Bool.false_eq_true, tab_getD _ _ _ _ hh, lp_getD _ _ _ _ hh, norm_mul, floor_norm, keptVal, bandOf,
        mag_getD _ _ _ _ hh, bandMask, Option.getD_none, Option.getD_some, Nat.cast_zero]
    all_goals first
      | rfl
      | (cases (!lowPassSep (wnFlat D N h) _ 1 && lowPassSep (wnFlat D N h) _ 1) <;> simp)
  · split_ifs <;> simp

theorem cpow_zero_norm (z : ℂ) : ‖HasCpow.cpow z (((0 : ℝ)) : ℂ)‖ = 1 := by
  rw [hasCpow_complex]; simp

/-- **discrepancy at `derivative_order = 0`**: the source computes `D` times the plain aggregate (`z ** 0 = 1` also
    at `z = 0`), whereas `Metrics.fourierAggregator … (some 0) …` drops the modes with `k_d = 0` -/
theorem fourier_aggregator_deriv_zero (D N : ℕ) (u : Array ℝ) (L p q : ℝ) (low high : Option ℕ) :
    fourier_aggregator (K := ℂ) D N (toComplex u) none (L : ℂ) none (p : ℂ) (some (q : ℂ)) low high
        (some (((0 : ℝ)) : ℂ))
      = (D : ℂ) * ((Metrics.fourierAggregator D N L (2 * Real.pi / L) p q (bandOf N low high) none (1 / 100000)
          (Metrics.magnitudes D N u) : ℝ) : ℂ) := by
  rw [fourierAggregator_none]
  unfold fourier_aggregator
  rcases low with _ | lo <;> rcases high with _ | hi
  all_goals
    simp only [ext_fft, rfftnM_size, tab_size, lp_size, List.map_map, Option.isSome_none, Option.isSome_some,
      or_self, or_true, true_or, if_true, if_false, Bool.false_eq_true]
    rw [dop_map, sumList_eq, DFT.list_range_map_sum]
    rw [show ∀ X : ℂ, (D : ℂ) * X = ∑ d ∈ Finset.range D, X from fun X => by simp]
    apply Finset.sum_congr rfl
    intro d hd
    simp only [Function.comp]
    apply agg_cast
    · intro h hh
      simp only [tab_size, tab_getD _ _ _ _ hh, lp_getD _ _ _ _ hh, norm_mul, floor_norm, cpow_zero_norm, keptVal, bandOf,
        mag_getD _ _ _ _ hh, bandMask, Option.getD_none, Option.getD_some, Nat.cast_zero, mul_one,
        Option.isSome_none, Option.isSome_some, or_self, or_true, true_or, if_true, if_false, Bool.false_eq_true]
      try (cases (!lowPassSep (wnFlat D N h) _ 1 && lowPassSep (wnFlat D N h) _ 1) <;> simp)
    · simp

/-! ### transfer to `fourier_norm` and its wrappers: complex-embedded real states -/

/-- a list of real channels, embedded into `ℂ` -/
noncomputable def toComplexL (us : List (Array ℝ)) : List (Array ℂ) := us.map toComplex

/-- the per-channel MODEL aggregates (`Metrics.fourierAggregator` on the magnitudes) -/
noncomputable def modelFAgg (D N : ℕ) (L p q : ℝ) (low high : Option ℕ) (m : Option ℝ) (us : List (Array ℝ)) : List ℝ :=
  us.map (fun s => Metrics.fourierAggregator D N L (2 * Real.pi / L) p q (bandOf N low high) m (1 / 100000)
    (Metrics.magnitudes D N s))

theorem toComplex_tab (n : ℕ) (f : ℕ → ℝ) : toComplex (tab n f) = tab n (fun j => ((f j : ℝ) : ℂ)) := by
  apply Array.ext
  · simp [toComplex]
  · intro i h1 h2
    have hi : i < n := by simpa using h2
    simp [toComplex, tab_getElem]

theorem chanSub_toComplexL (u r : List (Array ℝ)) :
    chanSub (toComplexL u) (toComplexL r) = toComplexL (chanSub u r) := by
  unfold chanSub toComplexL
  rw [List.zipWith_map, List.map_zipWith]
  congr 1
  funext a b
  rw [toComplex_tab]
  have hs : (toComplex a).size = a.size := by simp [toComplex]
  rw [hs]
  apply tab_congr
  intro i _
  rw [toComplex_getD, toComplex_getD]
  push_cast; rfl

theorem sum_map_ofReal (l : List ℝ) : (l.map (fun x : ℝ => (x : ℂ))).sum = ((l.sum : ℝ) : ℂ) := by
  induction l with
  | nil => simp
  | cons x xs ih => simp [ih]

theorem chanFAgg_toComplexL (D N : ℕ) (L p q : ℝ) (low high : Option ℕ) (m : Option ℝ) (hm : m ≠ some 0)
    (us : List (Array ℝ)) :
    chanFAgg D N (L : ℂ) (p : ℂ) (q : ℂ) low high (m.map (fun x : ℝ => (x : ℂ))) (toComplexL us)
      = (modelFAgg D N L p q low high m us).map (fun x : ℝ => (x : ℂ)) := by
  unfold chanFAgg modelFAgg toComplexL
  rw [List.map_map, List.map_map]
  apply List.map_congr_left
  intro s _
  simp only [Function.comp]
  rcases m with _ | m
  · exact fourier_aggregator_eq_model D N s L p q low high
  · exact fourier_aggregator_deriv_eq_model_partial D N s L p q m (fun h => hm (by rw [h])) low high

theorem combine_cast (code : ℕ) (hc : code = 0 ∨ code = 1) (a b : List ℝ) (hab : a.length ≤ b.length) :
    Metrics.combine code (a.map (fun x : ℝ => (x : ℂ))) (b.map (fun x : ℝ => (x : ℂ))) []
      = ((Metrics.combine code a b [] : ℝ) : ℂ) := by
  rcases hc with rfl | rfl
  · rw [combine_zero, combine_zero, sumList_eq, sumList_eq, sum_map_ofReal]
  · rw [combine_one _ _ _ (by simpa using hab), combine_one _ _ _ hab, sumList_eq, sumList_eq]
    induction a generalizing b with
    | nil => simp
    | cons x xs ih =>
      cases b with
      | nil => simp at hab
      | cons y ys =>
        simp only [List.map_cons, List.zipWith_cons_cons, List.sum_cons]
        rw [ih ys (by simpa using hab)]
        push_cast; rfl

/-- **`fourier_norm` on complex-embedded real states** is the model combination of the model aggregates
    (`_partial`: derivative order `≠ 0`) -/
theorem fourier_norm_eq_model_partial (D N : ℕ) (u r : List (Array ℝ)) (mode : String) (L p q : ℝ)
    (low high : Option ℕ) (m : Option ℝ) (hm : m ≠ some 0) :
    fourier_norm (K := ℂ) D N (toComplexL u) (some (toComplexL r)) mode (L : ℂ) (p : ℂ) (some (q : ℂ)) low high
        (m.map (fun x : ℝ => (x : ℂ)))
      = some (((Metrics.combine (fmodeCode mode) (modelFAgg D N L p q low high m (chanSub u r))
          (modelFAgg D N L p q low high m r) [] : ℝ)) : ℂ) := by
  rw [fourier_norm_eq, chanSub_toComplexL,
    chanFAgg_toComplexL _ _ _ _ _ _ _ _ hm, chanFAgg_toComplexL _ _ _ _ _ _ _ _ hm, combine_cast]
  · unfold fmodeCode; split_ifs <;> simp
  · simp [modelFAgg, chanSub_length]


/-- the MODEL value of a Fourier metric -/
noncomputable def fourierModel (code D N : ℕ) (L p q : ℝ) (low high : Option ℕ) (m : Option ℝ)
    (u r : List (Array ℝ)) : ℝ :=
  Metrics.combine code (modelFAgg D N L p q low high m (chanSub u r)) (modelFAgg D N L p q low high m r) []

theorem fourierGen_eq_model_partial (code : ℕ) (hc : code = 0 ∨ code = 1) (D N : ℕ) (L p q : ℝ)
    (low high : Option ℕ) (m : Option ℝ) (hm : m ≠ some 0) (u r : List (Array ℝ)) :
    fourierGen code D N (L : ℂ) (p : ℂ) (q : ℂ) low high (m.map (fun x : ℝ => (x : ℂ))) (toComplexL u) (toComplexL r)
      = ((fourierModel code D N L p q low high m u r : ℝ) : ℂ) := by
  unfold fourierGen fourierModel
  rw [chanSub_toComplexL, chanFAgg_toComplexL _ _ _ _ _ _ _ _ hm, chanFAgg_toComplexL _ _ _ _ _ _ _ _ hm,
    combine_cast _ hc]
  simp [modelFAgg, chanSub_length]

theorem lit_one_cast : (lit 1 : ℂ) = ((1 : ℝ) : ℂ) := by simp
theorem lit_two_cast : (lit 2 : ℂ) = ((2 : ℝ) : ℂ) := by simp
theorem qlit_half_cast : (qlit 1 2 : ℂ) = (((1 / 2 : ℝ)) : ℂ) := by simp

section wrappers
variable (D N : ℕ) (u r : List (Array ℝ)) (L : ℝ) (low high : Option ℕ) (m : Option ℝ) (hm : m ≠ some 0)
include hm

theorem fourier_MAE_eq_model_partial :
    fourier_MAE (K := ℂ) D N (toComplexL u) (some (toComplexL r)) (L : ℂ) low high (m.map (fun x : ℝ => (x : ℂ)))
      = some ((fourierModel 0 D N L 1 1 low high m u r : ℝ) : ℂ) := by
  rw [fourier_MAE_eq, lit_one_cast,
    fourierGen_eq_model_partial 0 (Or.inl rfl) _ _ _ _ _ _ _ _ hm _ _]
theorem fourier_nMAE_eq_model_partial :
    fourier_nMAE (K := ℂ) D N (toComplexL u) (toComplexL r) (L : ℂ) low high (m.map (fun x : ℝ => (x : ℂ)))
      = some ((fourierModel 1 D N L 1 1 low high m u r : ℝ) : ℂ) := by
  rw [fourier_nMAE_eq, lit_one_cast,
    fourierGen_eq_model_partial 1 (Or.inr rfl) _ _ _ _ _ _ _ _ hm _ _]
theorem fourier_MSE_eq_model_partial :
    fourier_MSE (K := ℂ) D N (toComplexL u) (some (toComplexL r)) (L : ℂ) low high (m.map (fun x : ℝ => (x : ℂ)))
      = some ((fourierModel 0 D N L 2 1 low high m u r : ℝ) : ℂ) := by
  rw [fourier_MSE_eq, lit_one_cast, lit_two_cast,
    fourierGen_eq_model_partial 0 (Or.inl rfl) _ _ _ _ _ _ _ _ hm _ _]
theorem fourier_nMSE_eq_model_partial :
    fourier_nMSE (K := ℂ) D N (toComplexL u) (toComplexL r) (L : ℂ) low high (m.map (fun x : ℝ => (x : ℂ)))
      = some ((fourierModel 1 D N L 2 1 low high m u r : ℝ) : ℂ) := by
  rw [fourier_nMSE_eq, lit_one_cast, lit_two_cast,
    fourierGen_eq_model_partial 1 (Or.inr rfl) _ _ _ _ _ _ _ _ hm _ _]
theorem fourier_RMSE_eq_model_partial :
    fourier_RMSE (K := ℂ) D N (toComplexL u) (some (toComplexL r)) (L : ℂ) low high (m.map (fun x : ℝ => (x : ℂ)))
      = some ((fourierModel 0 D N L 2 (1 / 2) low high m u r : ℝ) : ℂ) := by
  rw [fourier_RMSE_eq, qlit_half_cast, lit_two_cast,
    fourierGen_eq_model_partial 0 (Or.inl rfl) _ _ _ _ _ _ _ _ hm _ _]
theorem fourier_nRMSE_eq_model_partial :
    fourier_nRMSE (K := ℂ) D N (toComplexL u) (toComplexL r) (L : ℂ) low high (m.map (fun x : ℝ => (x : ℂ)))
      = some ((fourierModel 1 D N L 2 (1 / 2) low high m u r : ℝ) : ℂ) := by
  rw [fourier_nRMSE_eq, qlit_half_cast, lit_two_cast,
    fourierGen_eq_model_partial 1 (Or.inr rfl) _ _ _ _ _ _ _ _ hm _ _]
end wrappers

theorem some_one_ne : (some (1 : ℝ)) ≠ some 0 := by simp
theorem none_ne : (none : Option ℝ) ≠ some 0 := by simp

/-! ### the Sobolev metrics: `H1_X = model(no derivative) + model(derivative order 1)` (no hypothesis: `1 ≠ 0`) -/
section sobolev
variable (D N : ℕ) (u r : List (Array ℝ)) (L : ℝ) (low high : Option ℕ)

theorem H1_generic (code : ℕ) (hc : code = 0 ∨ code = 1) (p q : ℝ) :
    fourierGen code D N (L : ℂ) (p : ℂ) (q : ℂ) low high none (toComplexL u) (toComplexL r)
        + fourierGen code D N (L : ℂ) (p : ℂ) (q : ℂ) low high (some (lit 1)) (toComplexL u) (toComplexL r)
      = ((fourierModel code D N L p q low high none u r + fourierModel code D N L p q low high (some 1) u r : ℝ) : ℂ) := by
  have h0 := fourierGen_eq_model_partial code hc D N L p q low high none none_ne u r
  have h1 := fourierGen_eq_model_partial code hc D N L p q low high (some 1) some_one_ne u r
  simp only [Option.map_none, Option.map_some] at h0 h1
  rw [lit_one_cast, h0, h1]; push_cast; rfl

theorem H1_MAE_eq_model :
    H1_MAE (K := ℂ) D N (toComplexL u) (some (toComplexL r)) (L : ℂ) low high
      = some ((fourierModel 0 D N L 1 1 low high none u r + fourierModel 0 D N L 1 1 low high (some 1) u r : ℝ) : ℂ) := by
  rw [H1_MAE_eq, ← H1_generic D N u r L low high 0 (Or.inl rfl)]
  simp only [lit_one_cast]
theorem H1_nMAE_eq_model :
    H1_nMAE (K := ℂ) D N (toComplexL u) (toComplexL r) (L : ℂ) low high
      = some ((fourierModel 1 D N L 1 1 low high none u r + fourierModel 1 D N L 1 1 low high (some 1) u r : ℝ) : ℂ) := by
  rw [H1_nMAE_eq, ← H1_generic D N u r L low high 1 (Or.inr rfl)]
  simp only [lit_one_cast]
theorem H1_MSE_eq_model :
    H1_MSE (K := ℂ) D N (toComplexL u) (some (toComplexL r)) (L : ℂ) low high
      = some ((fourierModel 0 D N L 2 1 low high none u r + fourierModel 0 D N L 2 1 low high (some 1) u r : ℝ) : ℂ) := by
  rw [H1_MSE_eq, ← H1_generic D N u r L low high 0 (Or.inl rfl)]
  simp only [lit_one_cast, lit_two_cast]
theorem H1_nMSE_eq_model :
    H1_nMSE (K := ℂ) D N (toComplexL u) (toComplexL r) (L : ℂ) low high
      = some ((fourierModel 1 D N L 2 1 low high none u r + fourierModel 1 D N L 2 1 low high (some 1) u r : ℝ) : ℂ) := by
  rw [H1_nMSE_eq, ← H1_generic D N u r L low high 1 (Or.inr rfl)]
  simp only [lit_one_cast, lit_two_cast]
theorem H1_RMSE_eq_model :
    H1_RMSE (K := ℂ) D N (toComplexL u) (some (toComplexL r)) (L : ℂ) low high
      = some ((fourierModel 0 D N L 2 (1 / 2) low high none u r
          + fourierModel 0 D N L 2 (1 / 2) low high (some 1) u r : ℝ) : ℂ) := by
  rw [H1_RMSE_eq, ← H1_generic D N u r L low high 0 (Or.inl rfl)]
  simp only [lit_one_cast, lit_two_cast, qlit_half_cast]
theorem H1_nRMSE_eq_model :
    H1_nRMSE (K := ℂ) D N (toComplexL u) (toComplexL r) (L : ℂ) low high
      = some ((fourierModel 1 D N L 2 (1 / 2) low high none u r
          + fourierModel 1 D N L 2 (1 / 2) low high (some 1) u r : ℝ) : ℂ) := by
  rw [H1_nRMSE_eq, ← H1_generic D N u r L low high 1 (Or.inr rfl)]
  simp only [lit_one_cast, lit_two_cast, qlit_half_cast]
end sobolev

/-! ### `_correlation.py` at `ℝ` -/

/-- `_correlation(u, v)` (2-norms without the cell volume) is the model correlation (aggregators WITH the cell
    volume `(L/N)^D`, which cancels) — `_partial`: a positive cell volume and fields on the `N^D` grid -/
theorem priv_correlation_eq_model_partial (D N : ℕ) (L : ℝ) (hL : 0 < L) (hN : 0 < N) (u v : Array ℝ)
    (hu : u.size = N ^ D) (hv : v.size = N ^ D) :
    priv_correlation u v = Metrics.correlationChannel D N L u v := by
  rw [correlationChannel_eq D N L u v hu hv]
  unfold priv_correlation jnp_linalg_norm
  simp only [tab_size, hu, hv, hasSqrt_real]
  rw [DFT.sumRange_eq, DFT.sumRange_eq, DFT.sumRange_eq]
  have hc : 0 < (L / (N : ℝ)) ^ D := cell_pos D N L hL hN
  set c := (L / (N : ℝ)) ^ D with hcdef
  set Su := ∑ j ∈ Finset.range (N ^ D), u.getD j 0 * u.getD j 0 with hSu
  set Sv := ∑ j ∈ Finset.range (N ^ D), v.getD j 0 * v.getD j 0 with hSv
  have e1 : ∀ j ∈ Finset.range (N ^ D),
      (tab (N ^ D) fun j => u.getD j 0 / Real.sqrt Su).getD j 0 * (tab (N ^ D) fun j => v.getD j 0 / Real.sqrt Sv).getD j 0
        = (u.getD j 0 * v.getD j 0) / (Real.sqrt Su * Real.sqrt Sv) := by
    intro j hj
    have hj' := Finset.mem_range.mp hj
    rw [tab_getD _ _ _ _ hj', tab_getD _ _ _ _ hj', div_mul_div_comm]
  rw [Finset.sum_congr rfl e1, ← Finset.sum_div]
  have e2 : ∑ j ∈ Finset.range (N ^ D), u.getD j 0 ^ 2 = Su := by
    rw [hSu]; exact Finset.sum_congr rfl (fun j _ => by ring)
  have e3 : ∑ j ∈ Finset.range (N ^ D), v.getD j 0 ^ 2 = Sv := by
    rw [hSv]; exact Finset.sum_congr rfl (fun j _ => by ring)
  rw [e2, e3, Real.sqrt_mul hc.le, Real.sqrt_mul hc.le]
  have e4 : Real.sqrt c * Real.sqrt Su * (Real.sqrt c * Real.sqrt Sv) = c * (Real.sqrt Su * Real.sqrt Sv) := by
    have := Real.mul_self_sqrt hc.le
    calc Real.sqrt c * Real.sqrt Su * (Real.sqrt c * Real.sqrt Sv)
        = (Real.sqrt c * Real.sqrt c) * (Real.sqrt Su * Real.sqrt Sv) := by ring
      _ = c * (Real.sqrt Su * Real.sqrt Sv) := by rw [this]
  rw [e4, mul_div_mul_left _ _ hc.ne']

/-- `correlation`: the channel mean of the model correlations -/
theorem correlation_eq_model_partial (D N : ℕ) (L : ℝ) (hL : 0 < L) (hN : 0 < N) (u r : List (Array ℝ))
    (hu : ∀ a ∈ u, a.size = N ^ D) (hr : ∀ a ∈ r, a.size = N ^ D) :
    correlation u r = (List.zipWith (Metrics.correlationChannel D N L) u r).sum
      / ((List.zipWith (Metrics.correlationChannel D N L) u r).length : ℝ) := by
  have h : List.zipWith (fun (a b : Array ℝ) => priv_correlation a b) u r
      = List.zipWith (Metrics.correlationChannel D N L) u r := by
    induction u generalizing r with
    | nil => simp
    | cons a as ih =>
      cases r with
      | nil => simp
      | cons b bs =>
        simp only [List.zipWith_cons_cons]
        rw [priv_correlation_eq_model_partial D N L hL hN a b (hu a List.mem_cons_self) (hr b List.mem_cons_self),
          ih bs (fun x hx => hu x (List.mem_cons_of_mem _ hx)) (fun x hx => hr x (List.mem_cons_of_mem _ hx))]
  rw [correlation_eq, h, sumList_eq, lit_eq]

end Exponax.Gen.MetricsGen
