import ExponaxModel.Proofs.AliasNDBasic
/-
C03 in general dimension `D ≥ 1`, part 2 (N1, abstract form over the full spectrum `dftV`):

  * `dftV_mul`            circular convolution theorem in `D` dimensions,
  * `BandLimitedV`, `truncV`, `box`
  * `dftV_mul_band`       band-limited first factor, `2K < N`: the circular sum is a sum over the box,
  * `dftV_mul_no_alias'`  `3K < N`: the product spectrum on the box is the LINEAR convolution of the
                          truncated spectra (no wrapped-around contribution),
  * `dftV_mul3_no_alias'` cubic version with `4K < N`,
  * `sum_box_trunc_eq_pairs` the same right-hand side written as `Σ_{p+q=k, p,q ∈ box} F(p) G(q)`.
-/
namespace Exponax.AliasND
open Exponax Exponax.Layout Exponax.Transform Exponax.DFT Finset

/-! ### circular convolution theorem -/

/-- **Circular convolution theorem in `D` dimensions.**  The spectrum of a pointwise product is
    `N^{-D}` times the circular convolution of the spectra (sum over one period, indexed by the
    flat index `a` whose digits are the wavenumber components). -/
theorem dftV_mul (D N : ℕ) (hN : 0 < N) (u v : Array ℂ) (k : Fin D → ℤ) :
    dftV D N (tab (N ^ D) fun j => u.getD j 0 * v.getD j 0) k
      = (1 / ((N ^ D : ℕ) : ℂ)) * ∑ a ∈ range (N ^ D),
          dftV D N u (digZ D N a) * dftV D N v (k - digZ D N a) := by
  have hNne : ((N ^ D : ℕ) : ℂ) ≠ 0 := by exact_mod_cast (pow_pos hN D).ne'
  have key := dotPhase_cross D N hN (fun j => u.getD j 0) (fun j => v.getD j 0 * zeta N ^ vdot D N k j)
  have hR : ∀ a ∈ range (N ^ D),
      dftV D N u (digZ D N a) * dftV D N v (k - digZ D N a)
      = (∑ j ∈ range (N ^ D), u.getD j 0 * zeta N ^ (dotPhase D N a j)) *
        (∑ j ∈ range (N ^ D), v.getD j 0 * zeta N ^ vdot D N k j * zeta N ^ (-(dotPhase D N a j))) := by
    intro a _
    unfold dftV
    congr 1
    · apply Finset.sum_congr rfl
      intro j _
      rw [vdot_digits]
    · apply Finset.sum_congr rfl
      intro j _
      rw [vdot_sub, vdot_digits, sub_eq_add_neg, zpow_add₀ (zeta_ne_zero N), mul_assoc]
  rw [Finset.sum_congr rfl hR, key, dftV_tab]
  rw [← mul_assoc, one_div, inv_mul_cancel₀ hNne, one_mul]
  exact Finset.sum_congr rfl (fun j _ => by ring)

/-! ### band-limited fields -/

/-- the full spectrum of `u` is supported on the box `|m_d| ≤ K` (every axis) modulo `N`
    (`K < 0`: the spectrum vanishes identically) -/
def BandLimitedV (D N : ℕ) (K : ℤ) (u : Array ℂ) : Prop :=
  ∀ a : Fin D → ℤ, (¬ ∃ m : Fin D → ℤ, (∀ d, |m d| ≤ K) ∧ VCongr D N a m) → dftV D N u a = 0

/-- box truncation of a lattice function `F : ℤ^D → ℂ` (NOT periodised): keep `|m_d| ≤ K` on every axis -/
noncomputable def truncV {D : ℕ} (K : ℤ) (F : (Fin D → ℤ) → ℂ) (m : Fin D → ℤ) : ℂ :=
  if ∀ d, |m d| ≤ K then F m else 0

theorem truncV_of_le {D : ℕ} (K : ℤ) (F : (Fin D → ℤ) → ℂ) (m : Fin D → ℤ) (h : ∀ d, |m d| ≤ K) :
    truncV K F m = F m := if_pos h

theorem truncV_of_not {D : ℕ} (K : ℤ) (F : (Fin D → ℤ) → ℂ) (m : Fin D → ℤ) (h : ¬ ∀ d, |m d| ≤ K) :
    truncV K F m = 0 := if_neg h

/-- a vector with all components `≤ L` in modulus, some component `> K`, `K + L < N`, is not
    congruent to a vector of the box `K` -/
theorem not_congr_box {D N : ℕ} (K L : ℤ) (hKL : K + L < (N : ℤ)) (n : Fin D → ℤ)
    (hn1 : ¬ ∀ d, |n d| ≤ K) (hn2 : ∀ d, |n d| ≤ L) :
    ¬ ∃ m : Fin D → ℤ, (∀ d, |m d| ≤ K) ∧ VCongr D N n m := by
  rintro ⟨m, hm, hc⟩
  apply hn1
  intro d
  have h1 := abs_le.mp (hm d)
  have h2 := abs_le.mp (hn2 d)
  have : n d - m d = 0 := by
    apply Int.eq_zero_of_abs_lt_dvd (hc d)
    rw [abs_lt]; constructor <;> omega
  rw [show n d = m d by omega]
  exact hm d

/-- on vectors with components bounded by `L`, `K + L < N`, a band-limited spectrum equals its
    (non-periodic) truncation -/
theorem BandLimitedV.eq_truncV {D N : ℕ} {K : ℤ} {u : Array ℂ} (hu : BandLimitedV D N K u)
    (L : ℤ) (hKL : K + L < (N : ℤ)) (n : Fin D → ℤ) (hn2 : ∀ d, |n d| ≤ L) :
    dftV D N u n = truncV K (dftV D N u) n := by
  by_cases hn : ∀ d, |n d| ≤ K
  · rw [truncV_of_le _ _ _ hn]
  · rw [truncV_of_not _ _ _ hn, hu n (not_congr_box K L hKL n hn hn2)]

/-- **circular = box sum.**  If `u` is band-limited to the box `K` and `2K < N` then for EVERY
    wavenumber vector `k` and every `v` the circular convolution reduces to the sum over the box. -/
theorem dftV_mul_band (D N : ℕ) (hN : 0 < N) (K : ℤ) (hK : 2 * K < (N : ℤ)) (u v : Array ℂ)
    (hu : BandLimitedV D N K u) (k : Fin D → ℤ) :
    dftV D N (tab (N ^ D) fun j => u.getD j 0 * v.getD j 0) k
      = (1 / ((N ^ D : ℕ) : ℂ)) * ∑ m ∈ box D K, dftV D N u m * dftV D N v (k - m) := by
  rw [dftV_mul D N hN]
  congr 1
  refine sum_flat_eq_sum_box D N hN K hK (fun a => dftV D N u a * dftV D N v (k - a)) ?_ ?_
  · intro a b hab
    show dftV D N u a * dftV D N v (k - a) = dftV D N u b * dftV D N v (k - b)
    rw [dftV_of_congr u hab, dftV_of_congr v ((VCongr.refl D N k).sub hab)]
  · intro a ha
    show dftV D N u a * dftV D N v (k - a) = 0
    rw [hu a ha, zero_mul]

theorem two_lt_of_three (N : ℕ) (K : ℤ) (h3 : 3 * K < (N : ℤ)) : 2 * K < (N : ℤ) := by
  rcases lt_or_ge K 0 with hneg | hpos <;> omega

theorem two_lt_of_four (N : ℕ) (K : ℤ) (h4 : 4 * K < (N : ℤ)) : 2 * K < (N : ℤ) := by
  rcases lt_or_ge K 0 with hneg | hpos <;> omega

theorem three_lt_of_four (N : ℕ) (K : ℤ) (h4 : 4 * K < (N : ℤ)) : 3 * K < (N : ℤ) := by
  rcases lt_or_ge K 0 with hneg | hpos <;> omega

/-- **N1 (abstract form, quadratic).**  `u`, `v` band-limited to the box `K`, `3K < N`, `k` in the
    box:  `F[u·v](k) = N^{-D} Σ_{m ∈ box} U(m) V(k − m)` where `V(k − m)` may be replaced by the
    truncated (non-periodised) spectrum — the linear convolution, no aliased contribution. -/
theorem dftV_mul_no_alias' (D N : ℕ) (hN : 0 < N) (K : ℤ) (hK : 3 * K < (N : ℤ)) (u v : Array ℂ)
    (hu : BandLimitedV D N K u) (hv : BandLimitedV D N K v) (k : Fin D → ℤ) (hk : ∀ d, |k d| ≤ K) :
    dftV D N (tab (N ^ D) fun j => u.getD j 0 * v.getD j 0) k
      = (1 / ((N ^ D : ℕ) : ℂ)) * ∑ m ∈ box D K,
          truncV K (dftV D N u) m * truncV K (dftV D N v) (k - m) := by
  rw [dftV_mul_band D N hN K (two_lt_of_three N K hK) u v hu k]
  congr 1
  apply Finset.sum_congr rfl
  intro m hm
  rw [mem_box] at hm
  rw [truncV_of_le _ _ _ hm]
  congr 1
  apply hv.eq_truncV (2 * K) (by omega)
  intro d
  have h1 := abs_le.mp (hk d)
  have h2 := abs_le.mp (hm d)
  rw [Pi.sub_apply, abs_le]
  constructor <;> omega

/-- N1 in the un-truncated form (same hypotheses) -/
theorem dftV_mul_no_alias (D N : ℕ) (hN : 0 < N) (K : ℤ) (hK : 3 * K < (N : ℤ)) (u v : Array ℂ)
    (hu : BandLimitedV D N K u) (k : Fin D → ℤ) :
    dftV D N (tab (N ^ D) fun j => u.getD j 0 * v.getD j 0) k
      = (1 / ((N ^ D : ℕ) : ℂ)) * ∑ m ∈ box D K, dftV D N u m * dftV D N v (k - m) :=
  dftV_mul_band D N hN K (two_lt_of_three N K hK) u v hu k

/-! ### three factors -/

/-- cubic: reduction of the double circular sum to the box of `u` and `v` (`2K < N`), every `k` -/
theorem dftV_mul3_band (D N : ℕ) (hN : 0 < N) (K : ℤ) (hK : 2 * K < (N : ℤ)) (u v w : Array ℂ)
    (hu : BandLimitedV D N K u) (hv : BandLimitedV D N K v) (k : Fin D → ℤ) :
    dftV D N (tab (N ^ D) fun j => u.getD j 0 * v.getD j 0 * w.getD j 0) k
      = (1 / ((N ^ D : ℕ) : ℂ)) ^ 2 * ∑ a ∈ box D K, ∑ b ∈ box D K,
          dftV D N u a * dftV D N v b * dftV D N w (k - a - b) := by
  have e1 : dftV D N (tab (N ^ D) fun j => u.getD j 0 * v.getD j 0 * w.getD j 0) k
      = dftV D N (tab (N ^ D) fun j =>
          u.getD j 0 * (tab (N ^ D) fun i => v.getD i 0 * w.getD i 0).getD j 0) k := by
    apply dftV_congr
    intro j hj
    rw [DFT.tab_getD _ _ _ _ hj, DFT.tab_getD _ _ _ _ hj, DFT.tab_getD _ _ _ _ hj, mul_assoc]
  rw [e1, dftV_mul_band D N hN K hK u _ hu k]
  simp only [dftV_mul_band D N hN K hK v w hv, Finset.mul_sum]
  apply Finset.sum_congr rfl
  intro a _
  apply Finset.sum_congr rfl
  intro b _
  ring

/-- **N1 (abstract form, cubic).**  Three fields band-limited to the box `K`, `4K < N`, `k` in the
    box: the spectrum of the triple product is the double LINEAR convolution of the truncated spectra. -/
theorem dftV_mul3_no_alias' (D N : ℕ) (hN : 0 < N) (K : ℤ) (hK : 4 * K < (N : ℤ)) (u v w : Array ℂ)
    (hu : BandLimitedV D N K u) (hv : BandLimitedV D N K v) (hw : BandLimitedV D N K w)
    (k : Fin D → ℤ) (hk : ∀ d, |k d| ≤ K) :
    dftV D N (tab (N ^ D) fun j => u.getD j 0 * v.getD j 0 * w.getD j 0) k
      = (1 / ((N ^ D : ℕ) : ℂ)) ^ 2 * ∑ a ∈ box D K, ∑ b ∈ box D K,
          truncV K (dftV D N u) a * truncV K (dftV D N v) b * truncV K (dftV D N w) (k - a - b) := by
  rw [dftV_mul3_band D N hN K (two_lt_of_four N K hK) u v w hu hv k]
  congr 1
  apply Finset.sum_congr rfl
  intro a ha
  apply Finset.sum_congr rfl
  intro b hb
  rw [mem_box] at ha hb
  rw [truncV_of_le _ _ _ ha, truncV_of_le _ _ _ hb]
  congr 1
  apply hw.eq_truncV (3 * K) (by omega)
  intro d
  have h1 := abs_le.mp (hk d)
  have h2 := abs_le.mp (ha d)
  have h3 := abs_le.mp (hb d)
  rw [Pi.sub_apply, Pi.sub_apply, abs_le]
  constructor <;> omega

/-- cubic, un-truncated form -/
theorem dftV_mul3_no_alias (D N : ℕ) (hN : 0 < N) (K : ℤ) (hK : 4 * K < (N : ℤ)) (u v w : Array ℂ)
    (hu : BandLimitedV D N K u) (hv : BandLimitedV D N K v) (k : Fin D → ℤ) :
    dftV D N (tab (N ^ D) fun j => u.getD j 0 * v.getD j 0 * w.getD j 0) k
      = (1 / ((N ^ D : ℕ) : ℂ)) ^ 2 * ∑ a ∈ box D K, ∑ b ∈ box D K,
          dftV D N u a * dftV D N v b * dftV D N w (k - a - b) :=
  dftV_mul3_band D N hN K (two_lt_of_four N K hK) u v w hu hv k

/-! ### inversion; a band-limited field is a trigonometric polynomial sampled on the grid -/

/-- **inversion of the full `D`-dimensional DFT** -/
theorem dftV_inversion (D N : ℕ) (hN : 0 < N) (u : Array ℂ) (j : ℕ) (hj : j < N ^ D) :
    u.getD j 0 = (1 / ((N ^ D : ℕ) : ℂ)) * ∑ a ∈ range (N ^ D),
      dftV D N u (digZ D N a) * zeta N ^ (-(vdot D N (digZ D N a) j)) := by
  have hNne : ((N ^ D : ℕ) : ℂ) ≠ 0 := by exact_mod_cast (pow_pos hN D).ne'
  have h1 : ∀ a ∈ range (N ^ D), dftV D N u (digZ D N a) * zeta N ^ (-(vdot D N (digZ D N a) j))
      = ∑ i ∈ range (N ^ D), u.getD i 0 * zeta N ^ (dotPhase D N a i - dotPhase D N a j) := by
    intro a _
    unfold dftV
    rw [Finset.sum_mul]
    apply Finset.sum_congr rfl
    intro i _
    rw [vdot_digits, vdot_digits, mul_assoc, ← zpow_add₀ (zeta_ne_zero N), sub_eq_add_neg]
  rw [Finset.sum_congr rfl h1, Finset.sum_comm]
  have h2 : ∀ i ∈ range (N ^ D),
      ∑ a ∈ range (N ^ D), u.getD i 0 * zeta N ^ (dotPhase D N a i - dotPhase D N a j)
        = u.getD i 0 * (if i = j then ((N ^ D : ℕ) : ℂ) else 0) := by
    intro i hi
    rw [← Finset.mul_sum, dotPhase_orth N hN D i j (Finset.mem_range.mp hi) hj]
  rw [Finset.sum_congr rfl h2]
  simp only [mul_ite, mul_zero, Finset.sum_ite_eq', Finset.mem_range, hj, if_true]
  field_simp

/-- a field band-limited to the box `K` (`2K < N`) IS the trigonometric polynomial
    `N^{-D} Σ_{m ∈ box} U(m) e^{+2πi m·j/N}` sampled on the grid (`ζ^{-m·j} = e^{+2πi m·j/N}`) -/
theorem bandLimitedV_grid (D N : ℕ) (hN : 0 < N) (K : ℤ) (hK : 2 * K < (N : ℤ)) (u : Array ℂ)
    (hu : BandLimitedV D N K u) (j : ℕ) (hj : j < N ^ D) :
    u.getD j 0 = (1 / ((N ^ D : ℕ) : ℂ)) * ∑ m ∈ box D K,
      dftV D N u m * zeta N ^ (-(vdot D N m j)) := by
  rw [dftV_inversion D N hN u j hj]
  congr 1
  refine sum_flat_eq_sum_box D N hN K hK (fun a => dftV D N u a * zeta N ^ (-(vdot D N a j))) ?_ ?_
  · intro a b hab
    show dftV D N u a * zeta N ^ (-(vdot D N a j)) = dftV D N u b * zeta N ^ (-(vdot D N b j))
    rw [dftV_of_congr u hab, zeta_zpow_eq_of_modEq N ((vdot_modEq hab j).neg)]
  · intro a ha
    show dftV D N u a * _ = 0
    rw [hu a ha, zero_mul]

/-! ### the linear convolution written as a sum over pairs `p + q = k` -/

/-- the right-hand side of N1 is literally `Σ_{p + q = k, |p_d| ≤ K, |q_d| ≤ K} F(p) G(q)` -/
theorem sum_box_trunc_eq_pairs {D : ℕ} (K : ℤ) (F G : (Fin D → ℤ) → ℂ) (k : Fin D → ℤ) :
    ∑ m ∈ box D K, truncV K F m * truncV K G (k - m)
      = ∑ pq ∈ (box D K ×ˢ box D K).filter (fun pq => pq.1 + pq.2 = k), F pq.1 * G pq.2 := by
  rw [Finset.sum_filter, Finset.sum_product]
  apply Finset.sum_congr rfl
  intro p hp
  have hp' := mem_box.mp hp
  rw [truncV_of_le _ _ _ hp']
  have hiff : ∀ q : Fin D → ℤ, (p + q = k) ↔ (q = k - p) := by
    intro q
    constructor
    · intro h; rw [← h]; simp
    · intro h; rw [h]; simp
  simp only [hiff]
  rw [Finset.sum_ite_eq']
  unfold truncV
  by_cases hq : k - p ∈ box D K
  · rw [if_pos hq, if_pos (mem_box.mp hq)]
  · rw [if_neg hq, if_neg (fun h => hq (mem_box.mpr h)), mul_zero]

end Exponax.AliasND
