import Mathlib.Tactic
import ExponaxModel.Proofs.BatchLemmas
import ExponaxModel.Proofs.LoopsGenEq
/-
C06 for the REGENERATED loops (`Generated/LoopsGen.lean`, translated from `exponax/_utils.py`): the batch laws of
`Proofs/BatchLemmas.lean` transferred through the `*_eq` lemmas of `Proofs/LoopsGenEq.lean`, plus the aux variants.
A batch of states is a `List S`, `vmap f` is `List.map f`; a stepper with an auxiliary input mapped over both
arguments is `fun us as => List.zipWith f us as`.
-/
set_option linter.unusedVariables false
namespace Exponax.Loops

variable {S A : Type}

/-- column `t` of a list of rows (rows too short to have an entry `t` are skipped) -/
def column {X : Type} (rows : List (List X)) (t : ℕ) : List X := rows.filterMap (fun r => r[t]?)

theorem column_length {X : Type} (rows : List (List X)) (t : ℕ) (h : ∀ r ∈ rows, t < r.length) :
    (column rows t).length = rows.length := by
  induction rows with
  | nil => rfl
  | cons r rs ih =>
    have hr : t < r.length := h r (by simp)
    simp only [column, List.filterMap_cons, List.getElem?_eq_getElem hr, List.length_cons]
    exact congrArg (· + 1) (ih (fun x hx => h x (by simp [hx])))

theorem column_take {X : Type} (rows : List (List X)) (t k : ℕ) (h : ∀ r ∈ rows, t < r.length) :
    column (rows.take k) t = (column rows t).take k := by
  induction rows generalizing k with
  | nil => simp [column]
  | cons r rs ih =>
    have hr : t < r.length := h r (by simp)
    cases k with
    | zero => simp [column]
    | succ k =>
      simp only [column, List.take_succ_cons, List.filterMap_cons, List.getElem?_eq_getElem hr]
      exact congrArg (r[t] :: ·) (ih k (fun x hx => h x (by simp [hx])))

/-- the batched rollout IS the transpose of the list of per-member rollouts: its time entry `t` is column `t` -/
theorem rollout_map_eq_columns (f : S → S) (n : ℕ) (incl : Bool) (us : List S) :
    rollout (List.map f) n incl us
      = (List.range (trjLen n incl)).map (fun t => column (us.map (rollout f n incl)) t) := by
  rw [rollout_eq_map]
  apply List.map_congr_left
  intro t ht
  have ht' : t < trjLen n incl := List.mem_range.mp ht
  rw [iterate_map, column, List.filterMap_map]
  induction us with
  | nil => rfl
  | cons u us ih =>
    rw [List.map_cons, List.filterMap_cons, ← ih]
    simp only [Function.comp_apply, rollout_getElem?', if_pos ht']

/-! ### time-varying aux: closed form and the batched fold -/

/-- entry `t` of a rollout with an aux sequence of exactly `n` entries (every `t`; `none` beyond the end) -/
theorem rolloutAux_getElem?' (f : S → A → S) (n : ℕ) (incl : Bool) (u0 : S) (aux : List A)
    (h : aux.length = n) (t : ℕ) :
    (rolloutAux f n incl false u0 aux)[t]?
      = if t < trjLen n incl then some ((aux.take (trjPow incl t)).foldl f u0) else none := by
  cases incl
  · simp only [trjLen, trjPow, Bool.false_eq_true, if_false]
    split_ifs with ht
    · exact rolloutAux_false_getElem? f n u0 aux (by omega) t ht
    · rw [List.getElem?_eq_none]
      rw [rolloutAux_false_length f n u0 aux (by omega)]; omega
  · simp only [trjLen, trjPow, if_true]
    split_ifs with ht
    · exact rolloutAux_true_getElem? f n u0 aux (by omega) t (by omega)
    · rw [List.getElem?_eq_none]
      rw [rolloutAux_true_length f n u0 aux (by omega)]; omega

/-- member `b` of the fold of the batched stepper over a time-major aux array is the fold of the stepper over
    column `b` of that array -/
theorem foldl_zipWith_getElem? (f : S → A → S) (xs : List (List A)) (us : List S) (b : ℕ)
    (h : ∀ x ∈ xs, us.length ≤ x.length) :
    (xs.foldl (fun us as => List.zipWith f us as) us)[b]?
      = (us[b]?).map (fun u => (column xs b).foldl f u) := by
  induction xs generalizing us with
  | nil => simp [column]
  | cons a rest ih =>
    have ha : us.length ≤ a.length := h a (by simp)
    rw [List.foldl_cons, ih (List.zipWith f us a) (fun x hx => by
      rw [List.length_zipWith]
      exact le_trans (Nat.min_le_left _ _) (h x (by simp [hx])))]
    rw [List.getElem?_zipWith]
    rcases Nat.lt_or_ge b us.length with hb | hb
    · have hb' : b < a.length := by omega
      simp [column, List.getElem?_eq_getElem hb, List.getElem?_eq_getElem hb']
    · rw [List.getElem?_eq_none hb]
      cases a[b]? <;> rfl

end Exponax.Loops

namespace Exponax.Gen.LoopsGen
open Exponax Exponax.Loops

variable {S A : Type}

theorem rollout_noaux_fun_eq (f : S → S) (n : ℕ) (incl : Bool) :
    rollout_noaux f n incl = Loops.rollout f n incl := funext (rollout_noaux_eq f n incl)

theorem repeat_noaux_fun_eq (f : S → S) (n : ℕ) : repeat_noaux f n = Loops.repeatN f n :=
  funext (repeat_noaux_eq f n)

/-! ### no aux -/

/-- `repeat(vmap f, n) = vmap(repeat(f, n))` for the regenerated `repeat` -/
theorem repeat_noaux_map (f : S → S) (n : ℕ) (us : List S) :
    repeat_noaux (List.map f) n us = us.map (repeat_noaux f n) := by
  rw [repeat_noaux_eq, repeat_noaux_fun_eq]; exact repeatN_map f n us

/-- entry `[t][b]` of the regenerated rollout of the mapped stepper = entry `[b][t]` of the mapped rollout -/
theorem rollout_noaux_map_transpose (f : S → S) (n : ℕ) (incl : Bool) (us : List S) (t b : ℕ) :
    ((rollout_noaux (List.map f) n incl us)[t]?).bind (fun x => x[b]?)
      = ((us.map (rollout_noaux f n incl))[b]?).bind (fun x => x[t]?) := by
  rw [rollout_noaux_eq, rollout_noaux_fun_eq]; exact rollout_map_transpose f n incl us t b

/-- whole-array form: time entry `t` of the regenerated batched rollout is column `t` of the per-member rollouts -/
theorem rollout_noaux_map_eq_columns (f : S → S) (n : ℕ) (incl : Bool) (us : List S) :
    rollout_noaux (List.map f) n incl us
      = (List.range (trjLen n incl)).map (fun t => column (us.map (rollout_noaux f n incl)) t) := by
  rw [rollout_noaux_eq, rollout_noaux_fun_eq]; exact rollout_map_eq_columns f n incl us

theorem rollout_noaux_map_length (f : S → S) (n : ℕ) (incl : Bool) (us : List S) :
    (rollout_noaux (List.map f) n incl us).length = trjLen n incl := by
  rw [rollout_noaux_eq]; exact rollout_map_length f n incl us

theorem rollout_noaux_map_entry_length (f : S → S) (n : ℕ) (incl : Bool) (us : List S) (x : List S)
    (hx : x ∈ rollout_noaux (List.map f) n incl us) : x.length = us.length := by
  rw [rollout_noaux_eq] at hx; exact rollout_map_entry_length f n incl us x hx

/-- value form -/
theorem rollout_noaux_map_value (f : S → S) (n : ℕ) (incl : Bool) (us : List S) (t b : ℕ)
    (ht : t < trjLen n incl) (hb : b < us.length) :
    ((rollout_noaux (List.map f) n incl us)[t]?).bind (fun x => x[b]?)
      = some (f^[trjPow incl t] us[b]) := by
  rw [rollout_noaux_eq]; exact rollout_map_value f n incl us t b ht hb

/-- row `b` depends only on member `b` -/
theorem rollout_noaux_map_row_congr (f : S → S) (n : ℕ) (incl : Bool) (us vs : List S) (b : ℕ)
    (h : us[b]? = vs[b]?) (t : ℕ) :
    ((rollout_noaux (List.map f) n incl us)[t]?).bind (fun x => x[b]?)
      = ((rollout_noaux (List.map f) n incl vs)[t]?).bind (fun x => x[b]?) := by
  rw [rollout_noaux_eq, rollout_noaux_eq]; exact rollout_map_row_congr f n incl us vs b h t

theorem rollout_noaux_map_row_set (f : S → S) (n : ℕ) (incl : Bool) (us : List S) (b b' : ℕ)
    (hb : b' ≠ b) (x : S) (t : ℕ) :
    ((rollout_noaux (List.map f) n incl (us.set b' x))[t]?).bind (fun y => y[b]?)
      = ((rollout_noaux (List.map f) n incl us)[t]?).bind (fun y => y[b]?) := by
  rw [rollout_noaux_eq, rollout_noaux_eq]; exact rollout_map_row_set f n incl us b b' hb x t

theorem repeat_noaux_map_row_congr (f : S → S) (n : ℕ) (us vs : List S) (b : ℕ) (h : us[b]? = vs[b]?) :
    (repeat_noaux (List.map f) n us)[b]? = (repeat_noaux (List.map f) n vs)[b]? := by
  rw [repeat_noaux_eq, repeat_noaux_eq]; exact repeatN_map_row_congr f n us vs b h

/-! ### constant aux per member -/

theorem zipWith_eq_sweep (f : S → A → S) (as : List A) :
    (fun us => List.zipWith f us as)
      = List.zipWith (fun g u => g u) (as.map (fun (a : A) (u : S) => f u a)) := by
  funext us
  rw [zipWith_map_mk, List.zipWith_comm]

/-- entry `[t][b]` of the regenerated constant-aux rollout of the stepper mapped over (state, aux) is entry `t` of
    the regenerated constant-aux rollout of member `b` with its own aux -/
theorem rollout_aux_constant_batched_entry (f : S → A → S) (n : ℕ) (incl : Bool) (us : List S) (as : List A)
    (hl : us.length ≤ as.length) (t b : ℕ) :
    (((rollout_aux_constant (fun us as => List.zipWith f us as) n incl us as).bind (fun x => x[t]?)).bind
        (fun x => x[b]?))
      = (as[b]?).bind (fun a => (us[b]?).bind (fun u =>
          (rollout_aux_constant f n incl u a).bind (fun x => x[t]?))) := by
  rw [rollout_aux_constant_eq, rolloutAux_constant, Option.bind_some, zipWith_eq_sweep,
    rollout_sweep_entry (fun (a : A) (u : S) => f u a) as n incl us hl t b]
  cases as[b]? with
  | none => rfl
  | some a =>
    cases us[b]? with
    | none => rfl
    | some u =>
      simp only [Option.bind_some, rollout_aux_constant_eq, rolloutAux_constant]

/-! ### time-varying aux per member (time-major for the batched stepper, column `b` for member `b`) -/

/-- entry `[t][b]` of the regenerated aux-sequence rollout of the stepper mapped over (state, aux), fed the
    time-major aux array `auxT` (`n` entries, each a batch of aux), is entry `t` of the regenerated aux-sequence
    rollout of member `b` fed column `b` of `auxT` -/
theorem rollout_aux_sequence_batched_entry (f : S → A → S) (n : ℕ) (incl : Bool) (us : List S)
    (auxT : List (List A)) (hn : auxT.length = n) (hl : ∀ x ∈ auxT, us.length ≤ x.length) (t b : ℕ) :
    (((rollout_aux_sequence (fun us as => List.zipWith f us as) n incl us auxT).bind (fun x => x[t]?)).bind
        (fun x => x[b]?))
      = (us[b]?).bind (fun u => (rollout_aux_sequence f n incl u (column auxT b)).bind (fun x => x[t]?)) := by
  rw [rollout_aux_sequence_eq_partial _ n incl us auxT hn, Option.bind_some,
    rolloutAux_getElem?' _ n incl us auxT hn t]
  rcases Nat.lt_or_ge b us.length with hb | hb
  · have hcol : ∀ x ∈ auxT, b < x.length := fun x hx => lt_of_lt_of_le hb (hl x hx)
    have hlen : (column auxT b).length = n := by rw [column_length auxT b hcol, hn]
    rw [List.getElem?_eq_getElem hb, Option.bind_some,
      rollout_aux_sequence_eq_partial f n incl us[b] (column auxT b) hlen, Option.bind_some,
      rolloutAux_getElem?' f n incl us[b] (column auxT b) hlen t]
    split_ifs with ht
    · rw [Option.bind_some, foldl_zipWith_getElem? f _ us b (fun x hx => hl x (List.mem_of_mem_take hx)),
        List.getElem?_eq_getElem hb, Option.map_some, column_take auxT b _ hcol]
    · rfl
  · rw [List.getElem?_eq_none hb, Option.bind_none]
    split_ifs with ht
    · rw [Option.bind_some, foldl_zipWith_getElem? f _ us b (fun x hx => hl x (List.mem_of_mem_take hx)),
        List.getElem?_eq_none hb, Option.map_none]
    · rfl

end Exponax.Gen.LoopsGen
