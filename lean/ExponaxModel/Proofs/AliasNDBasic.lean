import ExponaxModel.Proofs.DFTnD
import ExponaxModel.Proofs.LayoutLemmas
import ExponaxModel.Proofs.AliasConv
/-
C03 in general dimension `D ≥ 1`, part 1 (pure lattice / DFT facts):

  * `digit` bijection between flat grid indices `j < N^D` and digit vectors `Fin D → [0,N)`,
  * the full `D`-dimensional DFT `dftV D N u k` at an INTEGER wavenumber vector `k : Fin D → ℤ`
    (`N`-periodic in every component), and the link to the model: the stored coefficient
    `(rfftnM D N u)[h]` is `dftV D N u (kvec D N h)`,
  * orthogonality, linearity, Hermitian symmetry for real fields,
  * sums of `N`-periodic lattice functions over one period: flat index = centred window = band box.
-/
namespace Exponax.AliasND
open Exponax Exponax.Layout Exponax.Transform Exponax.DFT Finset

/-! ### digits of a flat index -/

theorem digit_lt (D N j d : ℕ) (hN : 0 < N) : digit D N j d < N := Nat.mod_lt _ hN

theorem digit_zero (D N d : ℕ) : digit D N 0 d = 0 := by simp [digit]

/-- a flat index with prescribed digits exists -/
theorem exists_digits (N : ℕ) (hN : 0 < N) : ∀ (E : ℕ) (p : ℕ → ℕ), (∀ d < E, p d < N) →
    ∃ a, a < N ^ E ∧ ∀ d < E, digit E N a d = p d
  | 0, _, _ => ⟨0, by simp, fun d hd => absurd hd (Nat.not_lt_zero _)⟩
  | E + 1, p, hp => by
    obtain ⟨a, ha, hda⟩ := exists_digits N hN E p (fun d hd => hp d (by omega))
    have hpE : p E < N := hp E (by omega)
    refine ⟨a * N + p E, ?_, ?_⟩
    · calc a * N + p E < a * N + N := by omega
        _ = (a + 1) * N := by ring
        _ ≤ N ^ E * N := Nat.mul_le_mul_right _ ha
        _ = N ^ (E + 1) := (pow_succ _ _).symm
    · intro d hd
      rcases Nat.lt_or_ge d E with h | h
      · rw [digit_succ_of_lt _ _ _ _ h]
        have : (a * N + p E) / N = a := by
          rw [Nat.add_comm, Nat.add_mul_div_right _ _ hN, Nat.div_eq_of_lt hpE, zero_add]
        rw [this, hda d h]
      · have hdE : d = E := by omega
        subst hdE
        rw [digit_succ_last, Nat.add_comm, Nat.add_mul_mod_self_right, Nat.mod_eq_of_lt hpE]

/-- the digits determine the flat index -/
theorem digits_inj (N : ℕ) : ∀ (E a b : ℕ), a < N ^ E → b < N ^ E →
    (∀ d < E, digit E N a d = digit E N b d) → a = b
  | 0, a, b, ha, hb, _ => by
    simp only [pow_zero, Nat.lt_one_iff] at ha hb
    omega
  | E + 1, a, b, ha, hb, h => by
    have ha' : a / N < N ^ E := Nat.div_lt_of_lt_mul (by rw [pow_succ'] at ha; exact ha)
    have hb' : b / N < N ^ E := Nat.div_lt_of_lt_mul (by rw [pow_succ'] at hb; exact hb)
    have h1 : a / N = b / N := digits_inj N E _ _ ha' hb' (fun d hd => by
      have := h d (by omega)
      rwa [digit_succ_of_lt _ _ _ _ hd, digit_succ_of_lt _ _ _ _ hd] at this)
    have h2 : a % N = b % N := by
      have := h E (by omega)
      rwa [digit_succ_last, digit_succ_last] at this
    rw [← Nat.div_add_mod a N, ← Nat.div_add_mod b N, h1, h2]

/-- **digit bijection**: a sum over the flat index is the sum over all digit vectors -/
theorem sum_digits {M : Type} [AddCommMonoid M] (D N : ℕ) (hN : 0 < N) (Ψ : (Fin D → ℕ) → M) :
    ∑ j ∈ range (N ^ D), Ψ (fun d => digit D N j d)
      = ∑ p ∈ Fintype.piFinset (fun _ : Fin D => range N), Ψ p := by
  apply Finset.sum_bij (fun j _ => fun d : Fin D => digit D N j d)
  · intro j _
    rw [Fintype.mem_piFinset]
    intro d
    exact mem_range.mpr (digit_lt D N j d hN)
  · intro a ha b hb hab
    exact digits_inj N D a b (mem_range.mp ha) (mem_range.mp hb)
      (fun d hd => congrFun hab ⟨d, hd⟩)
  · intro p hp
    rw [Fintype.mem_piFinset] at hp
    obtain ⟨a, ha, hda⟩ := exists_digits N hN D (fun d => if h : d < D then p ⟨d, h⟩ else 0)
      (fun d hd => by
        simp only [hd, dif_pos]
        exact mem_range.mp (hp ⟨d, hd⟩))
    refine ⟨a, mem_range.mpr ha, funext fun d => ?_⟩
    have := hda d d.2
    simpa using this
  · intro j _
    rfl

/-! ### the full `D`-dimensional DFT at an integer wavenumber vector -/

/-- `k·j = Σ_d k_d j_d` for a wavenumber vector `k` and the flat grid index `j` -/
def vdot (D N : ℕ) (k : Fin D → ℤ) (j : ℕ) : ℤ := ∑ d : Fin D, k d * (digit D N j d : ℤ)

/-- the full spectrum of a grid field: `F(k) = Σ_{j<N^D} u_j e^{-2πi k·j/N}`, `k ∈ ℤ^D` -/
noncomputable def dftV (D N : ℕ) (u : Array ℂ) (k : Fin D → ℤ) : ℂ :=
  ∑ j ∈ range (N ^ D), u.getD j 0 * zeta N ^ vdot D N k j

/-- the wavenumber vector of the stored (half-layout) flat mode index `h` -/
def kvec (D N h : ℕ) : Fin D → ℤ := fun d => (wnFlat D N h).getD d 0

theorem vdot_add (D N : ℕ) (k k' : Fin D → ℤ) (j : ℕ) :
    vdot D N (k + k') j = vdot D N k j + vdot D N k' j := by
  simp only [vdot, Pi.add_apply, add_mul, Finset.sum_add_distrib]

theorem vdot_neg (D N : ℕ) (k : Fin D → ℤ) (j : ℕ) : vdot D N (-k) j = -vdot D N k j := by
  simp only [vdot, Pi.neg_apply, neg_mul, Finset.sum_neg_distrib]

theorem vdot_sub (D N : ℕ) (k k' : Fin D → ℤ) (j : ℕ) :
    vdot D N (k - k') j = vdot D N k j - vdot D N k' j := by
  rw [sub_eq_add_neg, vdot_add, vdot_neg, sub_eq_add_neg]

theorem vdot_zero_index (D N : ℕ) (k : Fin D → ℤ) : vdot D N k 0 = 0 := by
  simp [vdot, digit_zero]

/-- the digit vector of a flat index, as an integer wavenumber vector -/
def digZ (D N a : ℕ) : Fin D → ℤ := fun d => (digit D N a d : ℤ)

theorem vdot_digits (D N a j : ℕ) :
    vdot D N (digZ D N a) j = dotPhase D N a j := by
  unfold vdot dotPhase digZ
  rw [Finset.sum_range]

theorem phaseK_kvec (D N h j : ℕ) : phaseK D N (wnFlat D N h) j = vdot D N (kvec D N h) j := by
  rw [phaseK_eq_sum, Finset.sum_range]
  rfl

/-- **link to the model**: the stored coefficient is the full spectrum at the stored wavenumber vector -/
theorem rfftn_eq_dftV (D N : ℕ) (hN : 0 < N) (u : Array ℂ) (h : ℕ) (hh : h < numModes D N) :
    (rfftnM D N u).getD h 0 = dftV D N u (kvec D N h) := by
  rw [rfftnM_getD D N hN u h hh, dftV]
  apply Finset.sum_congr rfl
  intro j _
  rw [twiddle_eq_zpow, phaseK_kvec]

/-- componentwise congruence modulo `N` -/
def VCongr (D N : ℕ) (a b : Fin D → ℤ) : Prop := ∀ d, (N : ℤ) ∣ a d - b d

theorem VCongr.refl (D N : ℕ) (a : Fin D → ℤ) : VCongr D N a a := fun d => by simp

theorem VCongr.symm {D N : ℕ} {a b : Fin D → ℤ} (h : VCongr D N a b) : VCongr D N b a := fun d => by
  have := (h d).neg_right
  rwa [neg_sub] at this

theorem VCongr.trans {D N : ℕ} {a b c : Fin D → ℤ} (h1 : VCongr D N a b) (h2 : VCongr D N b c) :
    VCongr D N a c := fun d => by
  have := (h1 d).add (h2 d)
  rwa [sub_add_sub_cancel] at this

theorem VCongr.neg {D N : ℕ} {a b : Fin D → ℤ} (h : VCongr D N a b) : VCongr D N (-a) (-b) := fun d => by
  have := (h d).neg_right
  simpa [Pi.neg_apply, sub_eq_add_neg, add_comm] using this

theorem VCongr.sub {D N : ℕ} {a b a' b' : Fin D → ℤ} (h : VCongr D N a b) (h' : VCongr D N a' b') :
    VCongr D N (a - a') (b - b') := fun d => by
  have := (h d).sub (h' d)
  rwa [show a d - b d - (a' d - b' d) = (a - a') d - (b - b') d by simp only [Pi.sub_apply]; ring] at this

theorem vdot_modEq {D N : ℕ} {a b : Fin D → ℤ} (h : VCongr D N a b) (j : ℕ) :
    vdot D N a j ≡ vdot D N b j [ZMOD (N : ℤ)] := by
  apply Int.ModEq.symm
  rw [Int.modEq_iff_dvd]
  unfold vdot
  rw [← Finset.sum_sub_distrib]
  apply Finset.dvd_sum
  intro d _
  rw [← sub_mul]
  exact Dvd.dvd.mul_right (h d) _

/-- `dftV` is `N`-periodic in every component of the wavenumber vector -/
theorem dftV_of_congr {D N : ℕ} (u : Array ℂ) {a b : Fin D → ℤ} (h : VCongr D N a b) :
    dftV D N u a = dftV D N u b := by
  unfold dftV
  apply Finset.sum_congr rfl
  intro j _
  rw [zeta_zpow_eq_of_modEq N (vdot_modEq h j)]

/-- `dftV` only looks at the entries `j < N^D` -/
theorem dftV_congr (D N : ℕ) (u v : Array ℂ) (huv : ∀ j < N ^ D, u.getD j 0 = v.getD j 0)
    (k : Fin D → ℤ) : dftV D N u k = dftV D N v k := by
  unfold dftV
  exact Finset.sum_congr rfl (fun j hj => by rw [huv j (Finset.mem_range.mp hj)])

theorem dftV_tab (D N : ℕ) (f : ℕ → ℂ) (k : Fin D → ℤ) :
    dftV D N (tab (N ^ D) f) k = ∑ j ∈ range (N ^ D), f j * zeta N ^ vdot D N k j := by
  unfold dftV
  exact Finset.sum_congr rfl (fun j hj => by rw [DFT.tab_getD _ _ _ _ (Finset.mem_range.mp hj)])

theorem dftV_self_tab (D N : ℕ) (u : Array ℂ) (k : Fin D → ℤ) :
    dftV D N (tab (N ^ D) fun j => u.getD j 0) k = dftV D N u k :=
  dftV_congr D N _ _ (fun _ hj => DFT.tab_getD _ _ _ _ hj) k

theorem dftV_add (D N : ℕ) (f g : ℕ → ℂ) (k : Fin D → ℤ) :
    dftV D N (tab (N ^ D) fun j => f j + g j) k
      = dftV D N (tab (N ^ D) f) k + dftV D N (tab (N ^ D) g) k := by
  simp only [dftV_tab, ← Finset.sum_add_distrib, add_mul]

theorem dftV_smul (D N : ℕ) (a : ℂ) (f : ℕ → ℂ) (k : Fin D → ℤ) :
    dftV D N (tab (N ^ D) fun j => a * f j) k = a * dftV D N (tab (N ^ D) f) k := by
  simp only [dftV_tab, Finset.mul_sum, mul_assoc]

/-- real grid field: all `N^D` samples have zero imaginary part -/
def IsRealND (D N : ℕ) (x : Array ℂ) : Prop := ∀ j < N ^ D, (x.getD j 0).im = 0

/-- for real input the full spectrum is Hermitian -/
theorem conj_dftV (D N : ℕ) (u : Array ℂ) (hu : IsRealND D N u) (k : Fin D → ℤ) :
    (starRingEnd ℂ) (dftV D N u k) = dftV D N u (-k) := by
  unfold dftV
  rw [map_sum]
  apply Finset.sum_congr rfl
  intro j hj
  rw [map_mul, conj_zeta_zpow, Complex.conj_eq_iff_im.mpr (hu j (Finset.mem_range.mp hj)), vdot_neg]

/-! ### orthogonality -/

theorem zeta_zpow_sum {ι : Type} (N : ℕ) (s : Finset ι) (e : ι → ℤ) :
    zeta N ^ (∑ d ∈ s, e d) = ∏ d ∈ s, zeta N ^ e d := by
  classical
  induction s using Finset.induction_on with
  | empty => simp
  | insert a s ha ih => rw [Finset.sum_insert ha, Finset.prod_insert ha, zpow_add₀ (zeta_ne_zero N), ih]

/-- **`D`-dimensional orthogonality**: `Σ_j ζ^{k·j} = N^D` if `N ∣ k_d` for every `d`, else `0` -/
theorem sum_zeta_vdot (D N : ℕ) (hN : 0 < N) (k : Fin D → ℤ) :
    ∑ j ∈ range (N ^ D), zeta N ^ vdot D N k j
      = if ∀ d, (N : ℤ) ∣ k d then ((N ^ D : ℕ) : ℂ) else 0 := by
  have h1 : ∀ j ∈ range (N ^ D), zeta N ^ vdot D N k j
      = (fun p : Fin D → ℕ => ∏ d : Fin D, zeta N ^ (k d * (p d : ℤ))) (fun d => digit D N j d) := by
    intro j _
    unfold vdot
    rw [zeta_zpow_sum]
  rw [Finset.sum_congr rfl h1,
    sum_digits D N hN (fun p : Fin D → ℕ => ∏ d : Fin D, zeta N ^ (k d * (p d : ℤ))),
    ← Finset.prod_univ_sum (fun _ : Fin D => range N) (fun (d : Fin D) (i : ℕ) => zeta N ^ (k d * (i : ℤ)))]
  simp only [zeta_sum_zpow N hN]
  rw [Finset.prod_ite_zero]
  simp only [Finset.mem_univ, forall_true_left, Finset.prod_const, Finset.card_univ, Fintype.card_fin]
  push_cast
  rfl

/-- the spectrum of a constant field -/
theorem dftV_const (D N : ℕ) (hN : 0 < N) (a : ℂ) (k : Fin D → ℤ) :
    dftV D N (tab (N ^ D) fun _ => a) k
      = if ∀ d, (N : ℤ) ∣ k d then a * ((N ^ D : ℕ) : ℂ) else 0 := by
  rw [dftV_tab, ← Finset.mul_sum, sum_zeta_vdot D N hN]
  split_ifs <;> simp

/-! ### sums of `N`-periodic lattice functions over one period -/

/-- the centred window of one axis: the values of `fftfreq N` -/
noncomputable def win (N : ℕ) : Finset ℤ := Finset.Icc (-((N / 2 : ℕ) : ℤ)) (((N - 1) / 2 : ℕ) : ℤ)

/-- the band box `|p_d| ≤ K` on every axis -/
noncomputable def box (D : ℕ) (K : ℤ) : Finset (Fin D → ℤ) := Fintype.piFinset (fun _ : Fin D => Finset.Icc (-K) K)

theorem mem_box {D : ℕ} {K : ℤ} {p : Fin D → ℤ} : p ∈ box D K ↔ ∀ d, |p d| ≤ K := by
  unfold box
  rw [Fintype.mem_piFinset]
  simp only [Finset.mem_Icc, abs_le]

theorem fftfreq_mem_win (N i : ℕ) (hN : 0 < N) (hi : i < N) : fftfreq N i ∈ win N := by
  unfold win fftfreq
  rw [Finset.mem_Icc]
  split_ifs <;> constructor <;> omega

/-- a sum of an `N`-periodic lattice function over the flat index is the sum over the centred window -/
theorem sum_flat_eq_sum_win (D N : ℕ) (hN : 0 < N) (Φ : (Fin D → ℤ) → ℂ)
    (hper : ∀ a b, VCongr D N a b → Φ a = Φ b) :
    ∑ j ∈ range (N ^ D), Φ (digZ D N j)
      = ∑ q ∈ Fintype.piFinset (fun _ : Fin D => win N), Φ q := by
  have h0 := sum_digits D N hN (fun p : Fin D → ℕ => Φ (fun d => (p d : ℤ)))
  unfold digZ
  rw [h0]
  apply Finset.sum_bij' (fun (p : Fin D → ℕ) _ => fun d => fftfreq N (p d))
    (fun (q : Fin D → ℤ) _ => fun d => fftfreqInv N (q d))
  · intro p hp
    rw [Fintype.mem_piFinset] at hp ⊢
    intro d
    exact fftfreq_mem_win N _ hN (mem_range.mp (hp d))
  · intro q hq
    rw [Fintype.mem_piFinset] at hq ⊢
    intro d
    have := hq d
    unfold win at this
    rw [Finset.mem_Icc] at this
    rw [mem_range]
    unfold fftfreqInv
    split_ifs <;> omega
  · intro p hp
    rw [Fintype.mem_piFinset] at hp
    funext d
    exact fftfreqInv_fftfreq N _ (mem_range.mp (hp d))
  · intro q hq
    rw [Fintype.mem_piFinset] at hq
    funext d
    have := hq d
    unfold win at this
    rw [Finset.mem_Icc] at this
    show fftfreq N (fftfreqInv N (q d)) = q d
    unfold fftfreq fftfreqInv
    split_ifs <;> omega
  · intro p _
    apply hper
    intro d
    exact Int.modEq_iff_dvd.mp (fftfreq_modEq N (p d))

/-- … and if the function vanishes at the window points outside the band box (`2K < N`) it is the
    sum over the band box -/
theorem sum_flat_eq_sum_box (D N : ℕ) (hN : 0 < N) (K : ℤ) (hK : 2 * K < (N : ℤ))
    (Φ : (Fin D → ℤ) → ℂ) (hper : ∀ a b, VCongr D N a b → Φ a = Φ b)
    (hsupp : ∀ a : Fin D → ℤ, (¬ ∃ m : Fin D → ℤ, (∀ d, |m d| ≤ K) ∧ VCongr D N a m) → Φ a = 0) :
    ∑ j ∈ range (N ^ D), Φ (digZ D N j) = ∑ p ∈ box D K, Φ p := by
  rw [sum_flat_eq_sum_win D N hN Φ hper]
  symm
  apply Finset.sum_subset
  · intro p hp
    rw [mem_box] at hp
    rw [Fintype.mem_piFinset]
    intro d
    have := abs_le.mp (hp d)
    unfold win
    rw [Finset.mem_Icc]
    omega
  · intro q hq hnq
    apply hsupp
    rintro ⟨m, hm, hc⟩
    apply hnq
    rw [mem_box]
    intro d
    rw [Fintype.mem_piFinset] at hq
    have hqd := hq d
    unfold win at hqd
    rw [Finset.mem_Icc] at hqd
    have hmd := abs_le.mp (hm d)
    have : q d - m d = 0 := by
      apply Int.eq_zero_of_abs_lt_dvd (hc d)
      rw [abs_lt]; constructor <;> omega
    rw [show q d = m d by omega]
    exact hm d

end Exponax.AliasND
