import ExponaxModel.Proofs.AliasMultiProduct
import Mathlib.Analysis.SpecialFunctions.ExpDeriv
import Mathlib.Analysis.Complex.RealDeriv
import Mathlib.Analysis.SpecialFunctions.Complex.Arg
/-
C03, T1 (continuous part, every `D`): trigonometric polynomials as FUNCTIONS on `ℝ^D` (period `L = 2π/s` in every
coordinate), their products and partial derivatives.

  * `tpoly s K F ξ = Σ_{p ∈ box K} F_p · e^{i Σ_d (s p_d) ξ_d}`        (`tpoly_eq_sum`),
  * **`tpoly_mul`, `tpoly_mul3`**   pointwise product of functions = linear convolution of coefficient families,
  * **`hasDerivAt_tpoly`**           `∂/∂ξ_d` multiplies the coefficient family by `i·s·p_d` (`dcoef`),
  * **`tpoly_coeff_unique`** (`s ≠ 0`) the function determines the coefficient family,
  * `sampleTP_eq_tpoly`              the grid samples of `Proofs/AliasMultiProduct` are the values at the grid points
                                     `ξ_j = (L/N)·(j_0, …, j_{D-1})`  (`gridPt`),
  * `tpoly_real`                     Hermitian coefficient family ⇒ real-valued function.
-/
set_option linter.unusedVariables false
namespace Exponax.AliasMulti
open Exponax Exponax.Layout Exponax.Transform Exponax.DFT Exponax.AliasND Finset

/-! ### the torus over physical space -/

/-- the point `(e^{i s ξ_d})_d` of the complex torus over the physical point `ξ ∈ ℝ^D` (`s = 2π/L`) -/
noncomputable def torusPt {D : ℕ} (s : ℝ) (ξ : Fin D → ℝ) : Fin D → ℂ :=
  fun d => Complex.exp (Complex.I * ((s * ξ d : ℝ) : ℂ))

theorem torusPt_ne_zero {D : ℕ} (s : ℝ) (ξ : Fin D → ℝ) (d : Fin D) : torusPt s ξ d ≠ 0 :=
  Complex.exp_ne_zero _

theorem norm_torusPt {D : ℕ} (s : ℝ) (ξ : Fin D → ℝ) (d : Fin D) : ‖torusPt s ξ d‖ = 1 := by
  unfold torusPt
  rw [mul_comm]
  exact Complex.norm_exp_ofReal_mul_I _

/-- on the torus the monomial is the Fourier mode `e^{i Σ_d (s p_d) ξ_d}` with physical wavenumbers `s·p_d = 2π p_d/L` -/
theorem mono_torusPt {D : ℕ} (s : ℝ) (ξ : Fin D → ℝ) (p : Fin D → ℤ) :
    mono (torusPt s ξ) p = Complex.exp (Complex.I * ((∑ d, s * (p d : ℝ) * ξ d : ℝ) : ℂ)) := by
  unfold mono torusPt
  rw [Complex.ofReal_sum, Finset.mul_sum, Complex.exp_sum]
  apply Finset.prod_congr rfl
  intro d _
  rw [← Complex.exp_int_mul]
  congr 1
  push_cast
  ring

/-- every point of the torus `|z_d| = 1` lies over a physical point (`s ≠ 0`) -/
theorem exists_torusPt {D : ℕ} (s : ℝ) (hs : s ≠ 0) (z : Fin D → ℂ) (hz : ∀ d, ‖z d‖ = 1) :
    ∃ ξ : Fin D → ℝ, z = torusPt s ξ := by
  refine ⟨fun d => Complex.arg (z d) / s, ?_⟩
  funext d
  have h1 := Complex.norm_mul_exp_arg_mul_I (z d)
  rw [hz d, Complex.ofReal_one, one_mul] at h1
  unfold torusPt
  rw [mul_div_cancel₀ _ hs, mul_comm]
  exact h1.symm

/-! ### trigonometric polynomials as functions on `ℝ^D` -/

/-- the trigonometric polynomial `ξ ↦ Σ_{p ∈ box K} F_p e^{i Σ_d (s p_d) ξ_d}` -/
noncomputable def tpoly {D : ℕ} (s : ℝ) (K : ℤ) (F : (Fin D → ℤ) → ℂ) (ξ : Fin D → ℝ) : ℂ :=
  trigEval K F (torusPt s ξ)

theorem tpoly_eq_sum {D : ℕ} (s : ℝ) (K : ℤ) (F : (Fin D → ℤ) → ℂ) (ξ : Fin D → ℝ) :
    tpoly s K F ξ
      = ∑ p ∈ box D K, F p * Complex.exp (Complex.I * ((∑ d, s * (p d : ℝ) * ξ d : ℝ) : ℂ)) := by
  unfold tpoly trigEval
  exact Finset.sum_congr rfl (fun p _ => by rw [mono_torusPt])

/-- **T1 (functions on `ℝ^D`), quadratic**: `f·g` is the trigonometric polynomial whose coefficient family is the
    linear convolution of those of `f` and `g` -/
theorem tpoly_mul {D : ℕ} (s : ℝ) (K L : ℤ) (F G : (Fin D → ℤ) → ℂ) (ξ : Fin D → ℝ) :
    tpoly s K F ξ * tpoly s L G ξ = tpoly s (K + L) (conv K L F G) ξ :=
  trigEval_mul K L F G _ (torusPt_ne_zero s ξ)

/-- **T1 (functions on `ℝ^D`), cubic** -/
theorem tpoly_mul3 {D : ℕ} (s : ℝ) (K : ℤ) (F G H : (Fin D → ℤ) → ℂ) (ξ : Fin D → ℝ) :
    tpoly s K F ξ * tpoly s K G ξ * tpoly s K H ξ = tpoly s (K + K + K) (conv3 K F G H) ξ :=
  trigEval_mul3 K F G H _ (torusPt_ne_zero s ξ)

/-- **the coefficient family is determined by the function** (`s ≠ 0`) -/
theorem tpoly_coeff_unique {D : ℕ} (s : ℝ) (hs : s ≠ 0) (K : ℤ) (A B : (Fin D → ℤ) → ℂ)
    (h : ∀ ξ : Fin D → ℝ, tpoly s K A ξ = tpoly s K B ξ) (k : Fin D → ℤ) (hk : ∀ d, |k d| ≤ K) :
    A k = B k := by
  apply trigEval_coeff_unique K A B _ k hk
  intro z hz
  obtain ⟨ξ, rfl⟩ := exists_torusPt s hs z hz
  exact h ξ

/-! linearity in the coefficient family -/

theorem tpoly_add {D : ℕ} (s : ℝ) (K : ℤ) (F G : (Fin D → ℤ) → ℂ) (ξ : Fin D → ℝ) :
    tpoly s K (fun p => F p + G p) ξ = tpoly s K F ξ + tpoly s K G ξ := by
  unfold tpoly trigEval
  rw [← Finset.sum_add_distrib]
  exact Finset.sum_congr rfl (fun p _ => add_mul _ _ _)

theorem tpoly_smul {D : ℕ} (s : ℝ) (K : ℤ) (a : ℂ) (F : (Fin D → ℤ) → ℂ) (ξ : Fin D → ℝ) :
    tpoly s K (fun p => a * F p) ξ = a * tpoly s K F ξ := by
  unfold tpoly trigEval
  rw [Finset.mul_sum]
  exact Finset.sum_congr rfl (fun p _ => mul_assoc _ _ _)

theorem tpoly_sum {D : ℕ} {ι : Type} (S : Finset ι) (s : ℝ) (K : ℤ) (F : ι → (Fin D → ℤ) → ℂ)
    (ξ : Fin D → ℝ) :
    tpoly s K (fun p => ∑ i ∈ S, F i p) ξ = ∑ i ∈ S, tpoly s K (F i) ξ := by
  unfold tpoly trigEval
  rw [Finset.sum_comm]
  exact Finset.sum_congr rfl (fun p _ => Finset.sum_mul _ _ _)

theorem tpoly_congr {D : ℕ} (s : ℝ) (K : ℤ) (F G : (Fin D → ℤ) → ℂ)
    (h : ∀ p, (∀ d, |p d| ≤ K) → F p = G p) (ξ : Fin D → ℝ) : tpoly s K F ξ = tpoly s K G ξ := by
  unfold tpoly trigEval
  exact Finset.sum_congr rfl (fun p hp => by rw [h p (mem_box.mp hp)])

/-! ### partial derivatives -/

/-- the coefficient family of `∂f/∂ξ_d`: multiply by `i·s·p_d` -/
noncomputable def dcoef {D : ℕ} (s : ℝ) (d : Fin D) (F : (Fin D → ℤ) → ℂ) : (Fin D → ℤ) → ℂ :=
  fun p => Complex.I * ((s : ℂ) * ((p d : ℤ) : ℂ)) * F p

theorem hasDerivAt_mode {D : ℕ} (s : ℝ) (p : Fin D → ℤ) (ξ : Fin D → ℝ) (d : Fin D) :
    HasDerivAt (fun t : ℝ => mono (torusPt s (Function.update ξ d t)) p)
      (Complex.I * ((s : ℂ) * ((p d : ℤ) : ℂ)) * mono (torusPt s ξ) p) (ξ d) := by
  set C : ℝ := ∑ e ∈ Finset.univ.erase d, s * (p e : ℝ) * ξ e with hC
  have hf : (fun t : ℝ => mono (torusPt s (Function.update ξ d t)) p)
      = fun t : ℝ => Complex.exp (Complex.I * ((s * (p d : ℝ) * t + C : ℝ) : ℂ)) := by
    funext t
    rw [mono_torusPt, ← Finset.add_sum_erase Finset.univ _ (Finset.mem_univ d), Function.update_self]
    congr 4
    apply Finset.sum_congr rfl
    intro e he
    rw [Function.update_of_ne (Finset.ne_of_mem_erase he)]
  have hval : mono (torusPt s ξ) p
      = Complex.exp (Complex.I * ((s * (p d : ℝ) * ξ d + C : ℝ) : ℂ)) := by
    rw [mono_torusPt, ← Finset.add_sum_erase Finset.univ _ (Finset.mem_univ d)]
  rw [hf, hval]
  have h1 : HasDerivAt (fun t : ℝ => s * (p d : ℝ) * t + C) (s * (p d : ℝ) * 1) (ξ d) :=
    ((hasDerivAt_id (ξ d)).const_mul (s * (p d : ℝ))).add_const C
  have h2 := (h1.ofReal_comp).const_mul Complex.I
  have h3 := h2.cexp
  convert h3 using 1
  push_cast
  ring

/-- **partial derivative of a trigonometric polynomial**: `∂/∂ξ_d tpoly s K F = tpoly s K (i s p_d · F)` -/
theorem hasDerivAt_tpoly {D : ℕ} (s : ℝ) (K : ℤ) (F : (Fin D → ℤ) → ℂ) (ξ : Fin D → ℝ) (d : Fin D) :
    HasDerivAt (fun t : ℝ => tpoly s K F (Function.update ξ d t)) (tpoly s K (dcoef s d F) ξ) (ξ d) := by
  unfold tpoly trigEval dcoef
  have h := HasDerivAt.fun_sum (u := box D K)
    (A := fun p (t : ℝ) => F p * mono (torusPt s (Function.update ξ d t)) p)
    (A' := fun p => F p * (Complex.I * ((s : ℂ) * ((p d : ℤ) : ℂ)) * mono (torusPt s ξ) p))
    (x := ξ d) (fun p _ => (hasDerivAt_mode s p ξ d).const_mul (F p))
  have e : ∑ p ∈ box D K, Complex.I * ((s : ℂ) * ((p d : ℤ) : ℂ)) * F p * mono (torusPt s ξ) p
      = ∑ p ∈ box D K, F p * (Complex.I * ((s : ℂ) * ((p d : ℤ) : ℂ)) * mono (torusPt s ξ) p) :=
    Finset.sum_congr rfl (fun p _ => by ring)
  rw [e]
  exact h

/-! ### the grid points -/

/-- the physical grid point `ξ_j`, `(ξ_j)_d = (L/N)·j_d` with `L = 2π/s` -/
noncomputable def gridPt (s : ℝ) (D N j : ℕ) : Fin D → ℝ :=
  fun d => 2 * Real.pi * (digit D N j d : ℝ) / ((N : ℝ) * s)

theorem gridZ_eq_torusPt (D N j : ℕ) (s : ℝ) (ξ : Fin D → ℝ)
    (hξ : ∀ d, s * ξ d = 2 * Real.pi * (digit D N j d : ℝ) / (N : ℝ)) : gridZ D N j = torusPt s ξ := by
  funext d
  unfold gridZ torusPt
  rw [zeta_zpow_eq_exp, hξ d]
  congr 1
  push_cast
  ring

theorem gridZ_eq_torusPt_gridPt (D N j : ℕ) (hN : 0 < N) (s : ℝ) (hs : s ≠ 0) :
    gridZ D N j = torusPt s (gridPt s D N j) := by
  apply gridZ_eq_torusPt
  intro d
  unfold gridPt
  have : (N : ℝ) ≠ 0 := by exact_mod_cast hN.ne'
  field_simp

/-- the samples on the `N^D` grid are the values of the function at the grid points -/
theorem sampleTP_eq_tpoly (D N : ℕ) (hN : 0 < N) (s : ℝ) (hs : s ≠ 0) (K : ℤ) (F : (Fin D → ℤ) → ℂ)
    (j : ℕ) (hj : j < N ^ D) : (sampleTP D N K F).getD j 0 = tpoly s K F (gridPt s D N j) := by
  rw [sampleTP_getD D N K F j hj, gridZ_eq_torusPt_gridPt D N j hN s hs]
  rfl

/-! ### real-valued trigonometric polynomials -/

/-- a Hermitian coefficient family (`F(−p) = conj F(p)`) gives a REAL-valued function -/
theorem tpoly_real {D : ℕ} (s : ℝ) (K : ℤ) (F : (Fin D → ℤ) → ℂ)
    (hF : ∀ p, (starRingEnd ℂ) (F p) = F (-p)) (ξ : Fin D → ℝ) :
    (starRingEnd ℂ) (tpoly s K F ξ) = tpoly s K F ξ := by
  rw [tpoly_eq_sum, map_sum]
  have hneg : ∑ p ∈ box D K, F p * Complex.exp (Complex.I * ((∑ d, s * (p d : ℝ) * ξ d : ℝ) : ℂ))
      = ∑ p ∈ box D K, F (-p) * Complex.exp (Complex.I * ((∑ d, s * ((-p) d : ℝ) * ξ d : ℝ) : ℂ)) := by
    apply Finset.sum_nbij' (fun p => -p) (fun p => -p)
    · intro p hp
      rw [mem_box] at hp ⊢
      intro d
      rw [Pi.neg_apply, abs_neg]
      exact hp d
    · intro p hp
      rw [mem_box] at hp ⊢
      intro d
      rw [Pi.neg_apply, abs_neg]
      exact hp d
    · intro p _; exact neg_neg p
    · intro p _; exact neg_neg p
    · intro p _
      rw [neg_neg]
  rw [hneg]
  apply Finset.sum_congr rfl
  intro p _
  rw [map_mul, hF p, ← Complex.exp_conj]
  congr 2
  rw [map_mul, Complex.conj_I, Complex.conj_ofReal]
  simp only [Pi.neg_apply, Int.cast_neg, mul_neg, neg_mul, Finset.sum_neg_distrib, Complex.ofReal_neg]

/-! ### non-vacuity -/

example : ∃ (D : ℕ) (s : ℝ) (K : ℤ) (k : Fin D → ℤ), s ≠ 0 ∧ 0 < D ∧ (∀ d, |k d| ≤ K) :=
  ⟨2, 1, 1, fun _ => 1, one_ne_zero, by decide, fun _ => by show |(1 : ℤ)| ≤ 1; decide⟩

example : ∃ (D : ℕ) (F : (Fin D → ℤ) → ℂ), 0 < D ∧ (∀ p, (starRingEnd ℂ) (F p) = F (-p)) ∧ F ≠ 0 :=
  ⟨2, fun _ => 1, by decide, fun _ => map_one _, fun h => one_ne_zero (congrFun h 0)⟩

end Exponax.AliasMulti
