import Mathlib.Analysis.SpecialFunctions.Exponential
import Mathlib.Analysis.SpecialFunctions.Trigonometric.Basic
import Mathlib.Analysis.SpecialFunctions.Pow.Real
import Mathlib.Tactic
import ExponaxModel.Model.Ops
/-
Proof interpretation of the operation-only classes: `K := ℂ` (and `ℝ`) with
Mathlib's canonical structure.  No second copy of any model formula exists.
-/
namespace Exponax

noncomputable instance : HasExp ℂ := ⟨Complex.exp⟩
noncomputable instance : HasRe ℂ := ⟨fun z => (z.re : ℂ)⟩
noncomputable instance : HasIm ℂ := ⟨fun z => (z.im : ℂ)⟩
noncomputable instance : HasConj ℂ := ⟨fun z => (starRingEnd ℂ) z⟩
noncomputable instance : HasSqrt ℂ := ⟨fun z => z ^ ((1 : ℂ) / 2)⟩
noncomputable instance : HasAbs ℂ := ⟨fun z => ((‖z‖ : ℝ) : ℂ)⟩
noncomputable instance : HasI ℂ := ⟨Complex.I⟩
noncomputable instance : HasPi ℂ := ⟨(Real.pi : ℂ)⟩
noncomputable instance : HasIsZero ℂ := ⟨fun z => decide (z = 0)⟩

noncomputable instance : HasExp ℝ := ⟨Real.exp⟩
noncomputable instance : HasSqrt ℝ := ⟨Real.sqrt⟩
noncomputable instance : HasAbs ℝ := ⟨fun x => |x|⟩
noncomputable instance : HasPi ℝ := ⟨Real.pi⟩

@[simp] theorem hasExp_complex (z : ℂ) : HasExp.exp z = Complex.exp z := rfl
@[simp] theorem hasExp_real (x : ℝ) : HasExp.exp x = Real.exp x := rfl
@[simp] theorem hasRe_complex (z : ℂ) : HasRe.re z = (z.re : ℂ) := rfl
@[simp] theorem hasI_complex : (HasI.I : ℂ) = Complex.I := rfl
@[simp] theorem hasPi_complex : (HasPi.pi : ℂ) = (Real.pi : ℂ) := rfl

section
variable {K : Type} [Semiring K]

@[simp] theorem lit_eq (n : ℕ) : (lit n : K) = (n : K) := rfl

@[simp] theorem npow_eq (x : K) (n : ℕ) : npow x n = x ^ n := by
  induction n with
  | zero => simp [npow]
  | succ n ih => simp [npow, ih, pow_succ]

theorem sumList_eq (l : List K) : sumList l = l.sum := by
  unfold sumList
  have h : ∀ (a : K) (l : List K), List.foldl (· + ·) a l = a + l.sum := by
    intro a l
    induction l generalizing a with
    | nil => simp
    | cons x xs ih => simp [ih, add_assoc]
  simpa using h 0 l

end

section
variable {K : Type} [DivisionRing K]
@[simp] theorem qlit_eq (p q : ℕ) : (qlit p q : K) = (p : K) / (q : K) := rfl

theorem zpowK_eq (x : K) (e : ℤ) : zpowK x e = x ^ e := by
  cases e with
  | ofNat n => simp [zpowK]
  | negSucc n => simp [zpowK, zpow_negSucc]
end

theorem foldAdd_eq {K : Type} [AddCommMonoid K] (init : K) (f : K → K) (xs : List K) :
    foldAdd init f xs = init + (xs.map f).sum := by
  unfold foldAdd
  induction xs generalizing init with
  | nil => simp
  | cons x xs ih => simp [ih, add_assoc]

end Exponax
