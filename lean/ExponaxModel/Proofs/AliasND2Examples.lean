import ExponaxModel.Proofs.AliasNDExamples
import ExponaxModel.Proofs.AliasND2Vort
import ExponaxModel.Proofs.AliasND2React
/-
Non-vacuity of the hypotheses of the theorems of `AliasND2*.lean` (G1–G5): concrete witnesses
(`D = 2`, `D = 3`, `N = 8` even, `N = 9` odd; fractions 2/3 and 1/2; real scale `s = 1`), and
instantiations of the headline theorems at these witnesses.
-/
namespace Exponax.AliasND
open Exponax Exponax.Layout Exponax.Transform Exponax.DFT Exponax.Nonlin Exponax.Alias Finset

/-- the witness configurations have the real scale `s = 1` -/
theorem cfg23_s (D : ℕ) : (cfg23 D).s = ((1 : ℝ) : ℂ) := by simp [cfg23]
theorem cfg12_s (D : ℕ) : (cfg12 D).s = ((1 : ℝ) : ℂ) := by simp [cfg12]
theorem cfg23odd_s (D : ℕ) : (cfg23odd D).s = ((1 : ℝ) : ℂ) := by simp [cfg23odd]

/-! ### `AliasND2` -/

-- `box_congr_eq`, `box_congr_eq_neg`
example : ∃ (D N : ℕ) (K : ℤ) (m : Fin D → ℤ) (h : ℕ), 0 < D ∧ 0 < N ∧ 2 * K < (N : ℤ) ∧
    (∀ d, |m d| ≤ K) ∧ h < numModes D N ∧
    (∀ d, (N : ℤ) ∣ m d - kvec D N h d) ∧ (∀ d, (N : ℤ) ∣ m d + kvec D N h d) :=
  ⟨2, 8, 1, 0, 0, by norm_num, by norm_num, by norm_num, fun d => by simp, by decide,
    fun d => by rw [kvec_zero]; simp, fun d => by rw [kvec_zero]; simp⟩

-- `dftV_nifft_of_hermitian`: the stored spectrum of a real field with `F = dftV x` satisfies `hF`
example : ∃ (c : Cfg ℂ) (uh : Array ℂ) (F : (Fin c.D → ℤ) → ℂ) (m : Fin c.D → ℤ),
    0 < c.D ∧ c.fq ≠ 0 ∧ 0 < c.N ∧ 2 * Kc c < (c.N : ℤ) ∧
    (∀ h, h < numModes c.D c.N → (∀ d, |kvec c.D c.N h d| ≤ Kc c) →
      uh.getD h 0 = F (kvec c.D c.N h) ∧ (starRingEnd ℂ) (uh.getD h 0) = F (-kvec c.D c.N h)) ∧
    (∀ d, |m d| ≤ Kc c) :=
  ⟨cfg23 3, rfftnM 3 8 (ramp (8 ^ 3)), dftV 3 8 (ramp (8 ^ 3)), fun _ => 1,
    by decide, by decide, by decide, by decide,
    fun h hh _ => by
      have e := rfftn_eq_dftV 3 8 (by norm_num) (ramp (8 ^ 3)) h hh
      exact ⟨e, by rw [e]; exact conj_dftV 3 8 _ (ramp_real 3 8) _⟩,
    fun d => by rw [Kc_cfg23]; simp⟩

-- `dftV_nifft_mult`, `truncV_dftV_nifft_mult`: a Hermitian multiplier and a matching stored symbol
example : ∃ (c : Cfg ℂ) (x : Array ℂ) (μ : (Fin c.D → ℤ) → ℂ) (σ : ℕ → ℂ) (m : Fin c.D → ℤ),
    0 < c.D ∧ c.fq ≠ 0 ∧ 0 < c.N ∧ 2 * Kc c < (c.N : ℤ) ∧ IsRealND c.D c.N x ∧
    (∀ k, (starRingEnd ℂ) (μ k) = μ (-k)) ∧
    (∀ h, h < numModes c.D c.N → (∀ d, |kvec c.D c.N h d| ≤ Kc c) → σ h = μ (kvec c.D c.N h)) ∧
    (∀ d, |m d| ≤ Kc c) :=
  ⟨cfg23 2, ramp (8 ^ 2), dsym (cfg23 2) 1, deriv (cfg23 2) 1, fun _ => 1,
    by decide, by decide, by decide, by decide, ramp_real 2 8,
    conj_dsym (cfg23 2) 1 (cfg23_s 2) 1,
    fun h _ _ => deriv_eq_dsym (cfg23 2) 1 (by decide) h,
    fun d => by rw [Kc_cfg23]; simp⟩

-- G1 (`dftV_nifft_deriv_pow`, `nifft_deriv_pow_spec`, `dftV_nifft_deriv`, `dftV_nifft_deriv_npow`):
-- real scale, real state, axis `d < D`, box vector (the order `n : ℕ` is unconstrained)
example : ∃ (c : Cfg ℂ) (s : ℝ) (x : Array ℂ) (d : ℕ) (m : Fin c.D → ℤ),
    0 < c.D ∧ c.fq ≠ 0 ∧ 0 < c.N ∧ 2 * Kc c < (c.N : ℤ) ∧ c.s = (s : ℂ) ∧ IsRealND c.D c.N x ∧
    d < c.D ∧ (∀ d, |m d| ≤ Kc c) :=
  ⟨cfg23odd 3, 1, ramp (9 ^ 3), 2, fun _ => -1, by decide, by decide, by decide, by decide,
    cfg23odd_s 3, ramp_real 3 9, by decide, fun d => by rw [Kc_cfg23odd]; simp⟩

-- `dftV_mul_of_box`
example : ∃ (D N : ℕ) (K : ℤ) (f g : Array ℂ) (F G : (Fin D → ℤ) → ℂ) (k : Fin D → ℤ),
    0 < N ∧ 3 * K < (N : ℤ) ∧ BandLimitedV D N K f ∧ BandLimitedV D N K g ∧
    (∀ p : Fin D → ℤ, (∀ d, |p d| ≤ K) → dftV D N f p = F p) ∧
    (∀ p : Fin D → ℤ, (∀ d, |p d| ≤ K) → dftV D N g p = G p) ∧ ∀ d, |k d| ≤ K :=
  ⟨3, 8, 2, _, _, _, _, 0, by norm_num, by norm_num,
    const_bandLimitedV 3 8 (by norm_num) 2 (by norm_num),
    const_bandLimitedV 3 8 (by norm_num) 2 (by norm_num), fun _ _ => rfl, fun _ _ => rfl,
    fun d => by simp⟩

-- `dftV_sub_const`: `0 < N`
example : (0 : ℕ) < 8 := by norm_num

/-! ### G2–G4: the hypotheses, with a retained AND a dropped mode -/

/-- G2 / G3 (single channel): `D = 3`, even `N`, 2/3 rule, `s = 1` -/
example : ∃ (c : Cfg ℂ) (s : ℝ) (x : Array ℂ) (h h' : ℕ),
    0 < c.D ∧ c.fq ≠ 0 ∧ c.fp = 2 ∧ c.fq = 3 ∧ 3 * Kc c < (c.N : ℤ) ∧ 0 < c.N ∧ c.s = (s : ℂ) ∧
    IsRealND c.D c.N x ∧ h < numModes c.D c.N ∧ mask c h = 1 ∧ h' < numModes c.D c.N ∧ mask c h' = 0 :=
  ⟨cfg23 3, 1, ramp (8 ^ 3), 0, 2, by decide, by decide, rfl, rfl, by decide, by decide, cfg23_s 3,
    ramp_real 3 8, by decide, mask_zero_mode _ (by decide) (by decide), by decide, by
      unfold mask
      rw [if_neg (by decide), if_neg (by decide)]⟩

/-- G3 (multi channel): `C = D = 2`, two real states, odd `N` -/
example : ∃ (c : Cfg ℂ) (s : ℝ) (C : ℕ) (uh : MC ℂ) (xs : ℕ → Array ℂ) (i h h' : ℕ),
    0 < c.D ∧ c.fq ≠ 0 ∧ 3 * Kc c < (c.N : ℤ) ∧ 0 < c.N ∧ c.s = (s : ℂ) ∧ C ≤ c.D ∧
    (∀ ch, ch < C → IsRealND c.D c.N (xs ch)) ∧
    (∀ ch, ch < C → uh.getD ch #[] = rfftnM c.D c.N (xs ch)) ∧ i < C ∧ h < numModes c.D c.N ∧
    mask c h = 1 ∧ h' < numModes c.D c.N ∧ mask c h' = 0 :=
  ⟨cfg23odd 2, 1, 2, #[rfftnM 2 9 (ramp (9 ^ 2)), rfftnM 2 9 (ramp (9 ^ 2))], fun _ => ramp (9 ^ 2),
    1, 0, 3, by decide, by decide, by decide, by decide, cfg23odd_s 2, by decide,
    fun _ _ => ramp_real 2 9, fun ch hch => by interval_cases ch <;> rfl, by norm_num, by decide,
    mask_zero_mode _ (by decide) (by decide), by decide, by
      unfold mask
      rw [if_neg (by decide), if_neg (by decide)]⟩

/-- G4: `D = 2` -/
example : ∃ (c : Cfg ℂ) (s : ℝ) (x : Array ℂ) (h h' : ℕ),
    c.D = 2 ∧ c.fq ≠ 0 ∧ 3 * Kc c < (c.N : ℤ) ∧ 0 < c.N ∧ c.s = (s : ℂ) ∧
    IsRealND c.D c.N x ∧ h < numModes c.D c.N ∧ mask c h = 1 ∧ h' < numModes c.D c.N ∧ mask c h' = 0 :=
  ⟨cfg23 2, 1, ramp (8 ^ 2), 0, 4, rfl, by decide, by decide, by decide, cfg23_s 2,
    ramp_real 2 8, by decide, mask_zero_mode _ (by decide) (by decide), by decide, by
      unfold mask
      rw [if_neg (by decide), if_neg (by decide)]⟩

/-- G5: 1/2 rule, `D = 3`, two real states -/
example : ∃ (c : Cfg ℂ) (xa xb : Array ℂ) (h h' : ℕ),
    0 < c.D ∧ c.fq ≠ 0 ∧ c.fp = 1 ∧ c.fq = 2 ∧ 4 * Kc c < (c.N : ℤ) ∧ 0 < c.N ∧
    IsRealND c.D c.N xa ∧ IsRealND c.D c.N xb ∧
    h < numModes c.D c.N ∧ mask c h = 1 ∧ h' < numModes c.D c.N ∧ mask c h' = 0 :=
  ⟨cfg12 3, ramp (8 ^ 3), tab (8 ^ 3) (fun _ => (1 : ℂ)), 0, 2, by decide, by decide, rfl, rfl,
    by decide, by decide, ramp_real 3 8, const_real 3 8, by decide,
    mask_zero_mode _ (by decide) (by decide), by decide, by
      unfold mask
      rw [if_neg (by decide), if_neg (by decide)]⟩

/-! ### the headline theorems instantiated at the witnesses -/

/-- G1 at `D = 3`, odd `N`, second derivative along axis `2` -/
example (m : Fin 3 → ℤ) (hm : ∀ d, |m d| ≤ Kc (cfg23odd 3)) :=
  dftV_nifft_deriv_pow (cfg23odd 3) (by decide) (by decide) (by decide) (by decide) 1 (cfg23odd_s 3)
    _ (ramp_real 3 9) 2 (by decide) 2 m hm

example :=
  nifft_deriv_pow_spec (cfg23odd 3) (by decide) (by decide) (by decide) (by decide) 1 (cfg23odd_s 3)
    _ (ramp_real 3 9) 2 (by decide) 2

/-- G2 at `D = 3`, 2/3 rule, both values of the zero-mode fix -/
example (scale : ℂ) (zeroFix : Bool) (h : ℕ) (hh : h < numModes 3 8) :=
  gradientNorm_alias_free_nd_two_thirds (cfg23 3) (by decide) rfl rfl (by decide) 1 (cfg23_s 3) scale
    zeroFix _ (ramp_real 3 8) h hh

example (scale : ℂ) (zeroFix : Bool) (h : ℕ) (hh : h < numModes 3 8) :=
  gradientNorm_alias_free_nd_explicit (cfg23 3) (by decide) (by decide) (by decide) (by decide) 1
    (cfg23_s 3) scale zeroFix _ (ramp_real 3 8) h hh

/-- G3 at `C = D = 2`, odd `N` -/
example (scale : ℂ) (i : ℕ) (hi : i < 2) (h : ℕ) (hh : h < numModes 2 9) :=
  convection_multi_nc_alias_free_nd (cfg23odd 2) (by decide) (by decide) (by decide) (by decide) 1
    (cfg23odd_s 2) 2 (by decide) scale #[rfftnM 2 9 (ramp (9 ^ 2)), rfftnM 2 9 (ramp (9 ^ 2))]
    (fun _ => ramp (9 ^ 2)) (fun _ _ => ramp_real 2 9)
    (fun ch hch => by interval_cases ch <;> rfl) i hi h hh

/-- G3 at `C = D = 3` with explicit sums -/
example (scale : ℂ) (i : ℕ) (hi : i < 3) (h : ℕ) (hh : h < numModes 3 8) :=
  convection_multi_nc_alias_free_nd_explicit (cfg23 3) (by decide) (by decide) (by decide) (by decide) 1
    (cfg23_s 3) scale
    #[rfftnM 3 8 (ramp (8 ^ 3)), rfftnM 3 8 (ramp (8 ^ 3)), rfftnM 3 8 (ramp (8 ^ 3))]
    (fun _ => ramp (8 ^ 3)) (fun _ _ => ramp_real 3 8)
    (fun ch hch => by
      have hch' : ch < 3 := hch
      interval_cases ch <;> rfl) i hi h hh

/-- single-channel non-conservative convection at `D = 3` -/
example (scale : ℂ) (h : ℕ) (hh : h < numModes 3 8) :=
  convection_single_nc_alias_free_nd (cfg23 3) (by decide) (by decide) (by decide) (by decide) 1
    (cfg23_s 3) 1 (by norm_num) scale #[rfftnM 3 8 (ramp (8 ^ 3))] (ramp (8 ^ 3)) (ramp_real 3 8) rfl h hh

/-- G4 at `N = 8`, 2/3 rule -/
example (scale : ℂ) (h : ℕ) (hh : h < numModes 2 8) :=
  vorticity2d_alias_free_two_thirds (cfg23 2) rfl rfl rfl (by decide) 1 (cfg23_s 2) scale _
    (ramp_real 2 8) h hh

/-- G5 at `D = 3`, 1/2 rule -/
example (feed kill : ℂ) (h : ℕ) (hh : h < numModes 3 8) :=
  grayScott_alias_free_nd_half (cfg12 3) (by decide) rfl rfl (by decide) feed kill _ _
    (ramp_real 3 8) (const_real 3 8) h hh

end Exponax.AliasND
