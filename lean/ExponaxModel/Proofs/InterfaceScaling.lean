import ExponaxModel.Proofs.AliasNonlin
import ExponaxModel.Proofs.StepperSymbols
import ExponaxModel.Properties.C13
/-
C13 support, part 1 (T1): how the MODEL's linear symbol and nonlinear terms depend on the domain extent.

A configuration `c : Nonlin.Cfg ℂ` enters the symbols and the nonlinear terms only through the
derivative-operator entry `Nonlin.deriv c d h = i·s·k_d(h)`, `s = 2π/L`.  With `withS c s'` the configuration whose scale
is replaced by `s'` and `cfgOf D N L df` the configuration of a stepper on a domain of extent `L`:

 * `deriv_withS_div`, `deriv_cfgOf`          `deriv (s/L) = deriv (s) / L`                      (EVERY complex `L`)
 * `polySymbol_generalLinear_scaling`        `dt · Σ_j a_j Σ_d (i k_d s/L)^j = Σ_j α_j Σ_d (i k_d s)^j`,
                                             `α = normalize_coefficients a L dt`                 (EVERY complex `L, dt`)
 * `convection_scaling`                      `dt · convection(s/ℓ; b) = convection(s; b dt/ℓ)`   (all four variants)
 * `gradientNorm_scaling`                    `dt · gradientNorm(s/ℓ; b) = gradientNorm(s; b dt/ℓ²)`
 * `polynomial_scaling`                      `dt · polynomial(coeffs) = polynomial(coeffs · dt)` (independent of `s`)
 * `general_scaling`                         the three together, componentwise

at EVERY channel and EVERY index (no range restriction), any `D`, `N` (also `N = 0`), any dealiasing fraction, arbitrary
complex input spectra, arbitrary complex `dt` and scales.  NO non-vanishing hypothesis is needed (`x / 0 = 0`
makes both sides agree for `ℓ = 0`); the domain extent of the NONLINEAR statements is REAL (`ℓ : ℝ`): `irfftn` takes
real parts, so the statements for the non-conservative convection and the gradient norm are FALSE for non-real `L`
(the derivative is applied before `irfftn`): counterexamples `gradientNorm_scaling_false_of_complex_extent`,
`convection_scaling_false_of_complex_extent` in `Proofs/InterfaceCounterexample.lean` (`L = i`).
-/
set_option linter.unusedVariables false
namespace Exponax.Interface
open Exponax Exponax.Layout Exponax.Transform Exponax.Nonlin Exponax.Gen.Convert Exponax.Alias Finset

/-! ## configurations -/

/-- the configuration `c` with its scale (`s = 2π/L`) replaced by `s'` -/
def withS (c : Cfg ℂ) (s' : ℂ) : Cfg ℂ := { c with s := s' }

/-- the configuration of a stepper with `D` dimensions, `N` points per axis on a domain of extent `L`
    (`build_derivative_operator(D, L, N)`: `s = 2π/L`) and dealiasing fraction `df = (fp, fq)` -/
noncomputable def cfgOf (D N : ℕ) (L : ℂ) (df : ℕ × ℕ) : Cfg ℂ :=
  { D := D, N := N, s := 2 * (Real.pi : ℂ) / L, fp := df.1, fq := df.2 }

@[simp] theorem withS_D (c : Cfg ℂ) (s' : ℂ) : (withS c s').D = c.D := rfl
@[simp] theorem withS_N (c : Cfg ℂ) (s' : ℂ) : (withS c s').N = c.N := rfl
@[simp] theorem withS_s (c : Cfg ℂ) (s' : ℂ) : (withS c s').s = s' := rfl
@[simp] theorem cfgOf_D (D N : ℕ) (L : ℂ) (df : ℕ × ℕ) : (cfgOf D N L df).D = D := rfl
@[simp] theorem cfgOf_N (D N : ℕ) (L : ℂ) (df : ℕ × ℕ) : (cfgOf D N L df).N = N := rfl

/-- the physical configuration is the normalised one (`L = 1`) with its scale divided by `L` -/
theorem cfgOf_eq_withS (D N : ℕ) (L : ℂ) (df : ℕ × ℕ) :
    cfgOf D N L df = withS (cfgOf D N 1 df) ((cfgOf D N 1 df).s / L) := by
  simp [cfgOf, withS]

/-- `cfgOf` is the derivative operator of the source: entry `(d, h)` of the translated boundary function
    `build_derivative_operator(D, L, N)` is `Nonlin.deriv (cfgOf D N L df) d h` -/
theorem deriv_cfgOf_eq_build (D N : ℕ) (L : ℂ) (df : ℕ × ℕ) (d h : ℕ) (hd : d < D) (hh : h < numModes D N) :
    Nonlin.deriv (cfgOf D N L df) d h
      = (((List.range D).map (fun d => tab (numModes D N) (fun h =>
          (HasI.I : ℂ) * ((lit 2 * HasPi.pi / L) * (IntCast.intCast ((wnFlat D N h).getD d 0) : ℂ))))).getD d
            #[]).getD h 0 := by
  rw [List.getD_eq_getElem?_getD, List.getElem?_map, List.getElem?_range hd]
  simp only [Option.map_some, Option.getD_some]
  rw [DFT.tab_getD _ _ _ _ hh]
  simp [Nonlin.deriv, cfgOf]

/-! ## T1 — the derivative operator -/

/-- **T1.** dividing the scale by `L` divides the derivative-operator entry by `L` (every complex `L`) -/
theorem deriv_withS_div (c : Cfg ℂ) (L : ℂ) (d h : ℕ) :
    Nonlin.deriv (withS c (c.s / L)) d h = Nonlin.deriv c d h / L := by
  simp only [Nonlin.deriv, withS]
  ring

/-- **T1.** `deriv (s = 2π/L) = deriv (s = 2π) / L` -/
theorem deriv_cfgOf (D N : ℕ) (L : ℂ) (df : ℕ × ℕ) (d h : ℕ) :
    Nonlin.deriv (cfgOf D N L df) d h = Nonlin.deriv (cfgOf D N 1 df) d h / L := by
  rw [cfgOf_eq_withS, deriv_withS_div]

theorem deriv_withS_mul (c : Cfg ℂ) (z : ℂ) (d h : ℕ) :
    Nonlin.deriv (withS c (z * c.s)) d h = z * Nonlin.deriv c d h := by
  simp only [Nonlin.deriv, withS]
  ring

/-! ## T1 — the linear symbol of the general family -/

/-- the general linear symbol as a double sum: `Σ_j a_j Σ_d (i s k_d)^j` -/
theorem polySymbol_generalLinear_sum (c : Cfg ℂ) (a : List ℂ) (h : ℕ) :
    polySymbol c (generalLinear c.D a) h
      = ∑ j ∈ range a.length, a.getD j 0 * ∑ d ∈ range c.D, Nonlin.deriv c d h ^ j := by
  rw [polySymbol_eq_polyAt]
  have h1 := polyAt_generalLinear (kappa c h) a
  rw [kappa_length] at h1
  rw [h1]
  apply Finset.sum_congr rfl
  intro j _
  congr 1
  apply Finset.sum_congr rfl
  intro d hd
  rw [kappa_getD c h d (Finset.mem_range.mp hd)]

theorem normalize_coefficients_length (a : List ℂ) (L dt : ℂ) :
    (normalize_coefficients a L dt).length = a.length := by
  rw [C13_normalize_coefficients_formula]; simp

theorem normalize_coefficients_getD (a : List ℂ) (L dt : ℂ) (j : ℕ) (hj : j < a.length) :
    (normalize_coefficients a L dt).getD j 0 = a.getD j 0 * dt / L ^ j := by
  rw [C13_normalize_coefficients_formula]
  simp [List.getD_eq_getElem?_getD, hj]

/-- **T1, linear symbol.**  `dt · Σ_j a_j Σ_d (i k_d s/L)^j = Σ_j α_j Σ_d (i k_d s)^j` with
    `α_j = a_j dt / L^j` (`normalize_coefficients`); every complex `L`, `dt`, every stored mode. -/
theorem polySymbol_generalLinear_scaling (c : Cfg ℂ) (L dt : ℂ) (a : List ℂ) (h : ℕ) :
    dt * polySymbol (withS c (c.s / L)) (generalLinear c.D a) h
      = polySymbol c (generalLinear c.D (normalize_coefficients a L dt)) h := by
  have h1 := polySymbol_generalLinear_sum (withS c (c.s / L)) a h
  rw [withS_D] at h1
  rw [h1, polySymbol_generalLinear_sum, normalize_coefficients_length, Finset.mul_sum]
  apply Finset.sum_congr rfl
  intro j hj
  rw [normalize_coefficients_getD a L dt j (Finset.mem_range.mp hj)]
  simp only [deriv_withS_div, div_pow, ← Finset.sum_div]
  ring

/-- the same on `cfgOf`: the symbol of the physical stepper `(L, dt, a)` times `dt` is the symbol of the
    normalised stepper (`L = 1`) with `α = normalize_coefficients a L dt` -/
theorem polySymbol_generalLinear_cfgOf (D N : ℕ) (L dt : ℂ) (df : ℕ × ℕ) (a : List ℂ) (h : ℕ) :
    dt * polySymbol (cfgOf D N L df) (generalLinear D a) h
      = polySymbol (cfgOf D N 1 df) (generalLinear D (normalize_coefficients a L dt)) h := by
  rw [cfgOf_eq_withS]
  exact polySymbol_generalLinear_scaling (cfgOf D N 1 df) L dt a h

/-- the documented form: `Σ_j a_j (i k s/L)^j = (1/dt) · Σ_j α_j (i k s)^j` (`dt ≠ 0`) -/
theorem polySymbol_generalLinear_cfgOf_div (D N : ℕ) (L dt : ℂ) (hdt : dt ≠ 0) (df : ℕ × ℕ) (a : List ℂ) (h : ℕ) :
    polySymbol (cfgOf D N L df) (generalLinear D a) h
      = (1 / dt) * polySymbol (cfgOf D N 1 df) (generalLinear D (normalize_coefficients a L dt)) h := by
  rw [← polySymbol_generalLinear_cfgOf]
  field_simp

example : ∃ dt : ℂ, dt ≠ 0 := ⟨1, one_ne_zero⟩

/-! ## homogeneity of the transforms (relation forms; no hypothesis on `N`) -/

theorem sumList_scale (l : List ℕ) (z : ℂ) (f g : ℕ → ℂ) (hfg : ∀ j, g j = z * f j) :
    sumList (l.map g) = z * sumList (l.map f) := by
  rw [sumList_eq, sumList_eq]
  induction l with
  | nil => simp
  | cons x xs ih => simp only [List.map_cons, List.sum_cons, ih, hfg x]; ring

theorem sumRange_scale (n : ℕ) (z : ℂ) (f g : ℕ → ℂ) (hfg : ∀ j, j < n → g j = z * f j) :
    sumRange n g = z * sumRange n f := by
  rw [DFT.sumRange_eq, DFT.sumRange_eq, Finset.mul_sum]
  exact Finset.sum_congr rfl (fun j hj => hfg j (Finset.mem_range.mp hj))

/-- `rfftn` is homogeneous for every complex scalar, at every index -/
theorem rfftnM_scale (D N : ℕ) (z : ℂ) (u v : Array ℂ) (huv : ∀ j, j < N ^ D → v.getD j 0 = z * u.getD j 0)
    (h : ℕ) : (rfftnM D N v).getD h 0 = z * (rfftnM D N u).getD h 0 := by
  unfold rfftnM
  simp only []
  rcases Nat.lt_or_ge h (numModes D N) with hh | hh
  · rw [DFT.tab_getD _ _ _ _ hh, DFT.tab_getD _ _ _ _ hh]
    apply sumRange_scale
    intro j hj
    rw [huv j hj]
    ring
  · rw [DFT.tab_getD_of_le _ _ _ _ hh, DFT.tab_getD_of_le _ _ _ _ hh, mul_zero]

/-- `irfftn` is homogeneous for REAL scalars (it takes real parts), at every index -/
theorem irfftnM_scale_real (D N : ℕ) (r : ℝ) (a b : Array ℂ)
    (hab : ∀ h, h < numModes D N → b.getD h 0 = (r : ℂ) * a.getD h 0) (j : ℕ) :
    (irfftnM D N b).getD j 0 = (r : ℂ) * (irfftnM D N a).getD j 0 := by
  unfold irfftnM
  simp only []
  rcases Nat.lt_or_ge j (N ^ D) with hj | hj
  · rw [DFT.tab_getD _ _ _ _ hj, DFT.tab_getD _ _ _ _ hj, ← mul_div_assoc]
    congr 1
    apply sumRange_scale
    intro h hh
    rw [hab h hh]
    simp only [hasRe_complex, mul_assoc, Complex.re_ofReal_mul]
    push_cast
    ring
  · rw [DFT.tab_getD_of_le _ _ _ _ hj, DFT.tab_getD_of_le _ _ _ _ hj, mul_zero]

/-- `BaseNonlinearFun.fft` is homogeneous for every complex scalar -/
theorem nfft_scale (c : Cfg ℂ) (z : ℂ) (u v : Array ℂ)
    (huv : ∀ j, j < gridSize c → v.getD j 0 = z * u.getD j 0) (h : ℕ) :
    (nfft c v).getD h 0 = z * (nfft c u).getD h 0 := by
  unfold nfft
  simp only []
  rcases Nat.lt_or_ge h (modes c) with hh | hh
  · rw [DFT.tab_getD _ _ _ _ hh, DFT.tab_getD _ _ _ _ hh, rfftnM_scale c.D c.N z u v huv h]
    ring
  · rw [DFT.tab_getD_of_le _ _ _ _ hh, DFT.tab_getD_of_le _ _ _ _ hh, mul_zero]

/-- `BaseNonlinearFun.ifft` is homogeneous for real scalars -/
theorem nifft_scale_real (c : Cfg ℂ) (r : ℝ) (a b : Array ℂ)
    (hab : ∀ h, h < modes c → b.getD h 0 = (r : ℂ) * a.getD h 0) (j : ℕ) :
    (nifft c b).getD j 0 = (r : ℂ) * (nifft c a).getD j 0 := by
  unfold nifft
  apply irfftnM_scale_real
  intro h hh
  have hh' : h < modes c := hh
  rw [DFT.tab_getD _ _ _ _ hh', DFT.tab_getD _ _ _ _ hh', hab h hh']
  ring

/-- scaled tabulated spectra / fields -/
theorem tab_scale (n : ℕ) (z : ℂ) (f g : ℕ → ℂ) (hfg : ∀ i, i < n → g i = z * f i) (i : ℕ) :
    (tab n g).getD i 0 = z * (tab n f).getD i 0 := by
  rcases Nat.lt_or_ge i n with hi | hi
  · rw [DFT.tab_getD _ _ _ _ hi, DFT.tab_getD _ _ _ _ hi, hfg i hi]
  · rw [DFT.tab_getD_of_le _ _ _ _ hi, DFT.tab_getD_of_le _ _ _ _ hi, mul_zero]

/-- channelwise scaled `tabC` -/
theorem at2_tabC_scale (nc : ℕ) (z : ℂ) (F G : ℕ → Array ℂ)
    (hFG : ∀ k, k < nc → ∀ x, (G k).getD x 0 = z * (F k).getD x 0) (k x : ℕ) :
    at2 (tabC nc G) k x = z * at2 (tabC nc F) k x := by
  rw [at2_tabC_any, at2_tabC_any]
  split_ifs with hk
  · exact hFG k hk x
  · rw [mul_zero]

/-- entrywise scaled `tab2` -/
theorem at2_tab2_scale (nc n : ℕ) (z : ℂ) (f g : ℕ → ℕ → ℂ)
    (hfg : ∀ k, k < nc → ∀ x, x < n → g k x = z * f k x) (k x : ℕ) :
    at2 (tab2 nc n g) k x = z * at2 (tab2 nc n f) k x := by
  rw [at2_tab2_any, at2_tab2_any]
  split_ifs with hk
  · exact hfg k hk.1 x hk.2
  · rw [mul_zero]

/-! ## T1 — convection -/

/-- the convection term is linear in its scale (all four variants) -/
theorem convection_scale_mul (c : Cfg ℂ) (C : ℕ) (z b : ℂ) (single conservative : Bool) (uh : MC ℂ)
    (ch h : ℕ) :
    at2 (convection c C (z * b) single conservative uh) ch h
      = z * at2 (convection c C b single conservative uh) ch h := by
  unfold convection
  simp only []
  cases single <;> cases conservative <;> simp only [↓reduceIte, Bool.false_eq_true] <;>
    exact at2_tab2_scale _ _ z _ _ (fun k _ x _ => by ring) ch h

/-- multiplying the scale `s = 2π/L` by a REAL factor `r` multiplies the convection term by `r`
    (all four variants: one derivative) -/
theorem convection_withS_real (c : Cfg ℂ) (r : ℝ) (C : ℕ) (b : ℂ) (single conservative : Bool)
    (uh : MC ℂ) (ch h : ℕ) :
    at2 (convection (withS c ((r : ℂ) * c.s)) C b single conservative uh) ch h
      = (r : ℂ) * at2 (convection c C b single conservative uh) ch h := by
  have hd : ∀ d m, Nonlin.deriv (withS c ((r : ℂ) * c.s)) d m = (r : ℂ) * Nonlin.deriv c d m :=
    fun d m => deriv_withS_mul c r d m
  have e1 : nifft (withS c ((r : ℂ) * c.s)) = nifft c := rfl
  have e2 : nfft (withS c ((r : ℂ) * c.s)) = nfft c := rfl
  have e3 : gridSize (withS c ((r : ℂ) * c.s)) = gridSize c := rfl
  have e4 : modes (withS c ((r : ℂ) * c.s)) = modes c := rfl
  unfold convection
  simp only [e1, e2, e3, e4, withS_D, hd]
  generalize (tabC C fun ch => nifft c (uh.getD ch #[])) = U
  cases single <;> cases conservative <;> simp only [↓reduceIte, Bool.false_eq_true]
  · -- multi-channel, non-conservative
    have hnab : ∀ k x,
        at2 (tabC (C * C) fun ij => nifft c (tab (modes c) fun m =>
          (r : ℂ) * Nonlin.deriv c (ij % C) m * at2 uh (ij / C) m)) k x
        = (r : ℂ) * at2 (tabC (C * C) fun ij => nifft c (tab (modes c) fun m =>
          Nonlin.deriv c (ij % C) m * at2 uh (ij / C) m)) k x :=
      at2_tabC_scale _ _ _ _ (fun k _ x => nifft_scale_real c r _ _
        (fun m _ => tab_scale _ _ _ _ (fun m _ => by ring) m) x)
    generalize (tabC (C * C) fun ij => nifft c (tab (modes c) fun m =>
      (r : ℂ) * Nonlin.deriv c (ij % C) m * at2 uh (ij / C) m)) = NAB' at hnab ⊢
    generalize (tabC (C * C) fun ij => nifft c (tab (modes c) fun m =>
      Nonlin.deriv c (ij % C) m * at2 uh (ij / C) m)) = NAB at hnab ⊢
    have hconv : ∀ i m,
        at2 (tabC C fun i => nfft c (tab (gridSize c) fun x =>
          sumList ((List.range C).map fun j => at2 U j x * at2 NAB' (i * C + j) x))) i m
        = (r : ℂ) * at2 (tabC C fun i => nfft c (tab (gridSize c) fun x =>
          sumList ((List.range C).map fun j => at2 U j x * at2 NAB (i * C + j) x))) i m :=
      at2_tabC_scale _ _ _ _ (fun i _ m => nfft_scale c r _ _
        (fun x _ => tab_scale _ _ _ _ (fun x _ => sumList_scale _ _ _ _
          (fun j => by rw [hnab]; ring)) x) m)
    refine at2_tab2_scale _ _ _ _ _ (fun i _ m _ => ?_) ch h
    rw [hconv]
    ring
  · -- multi-channel, conservative
    refine at2_tab2_scale _ _ _ _ _ (fun i _ m _ => ?_) ch h
    rw [sumList_scale (List.range C) (r : ℂ)
      (fun j => Nonlin.deriv c j m * at2 (tabC (C * C) fun ij => nfft c (tab (gridSize c) fun x =>
        at2 U (ij % C) x * at2 U (ij / C) x)) (i * C + j) m) _ (fun j => by ring)]
    ring
  · -- single channel, non-conservative
    have hnab : ∀ k x,
        at2 (tabC c.D fun d => nifft c (tab (modes c) fun m =>
          (r : ℂ) * Nonlin.deriv c d m * at2 uh 0 m)) k x
        = (r : ℂ) * at2 (tabC c.D fun d => nifft c (tab (modes c) fun m =>
          Nonlin.deriv c d m * at2 uh 0 m)) k x :=
      at2_tabC_scale _ _ _ _ (fun k _ x => nifft_scale_real c r _ _
        (fun m _ => tab_scale _ _ _ _ (fun m _ => by ring) m) x)
    generalize (tabC c.D fun d => nifft c (tab (modes c) fun m =>
      (r : ℂ) * Nonlin.deriv c d m * at2 uh 0 m)) = NAB' at hnab ⊢
    generalize (tabC c.D fun d => nifft c (tab (modes c) fun m =>
      Nonlin.deriv c d m * at2 uh 0 m)) = NAB at hnab ⊢
    have hconv : ∀ m,
        (nfft c (tab (gridSize c) fun j =>
          sumList ((List.range c.D).map fun d => at2 U 0 j * at2 NAB' d j))).getD m 0
        = (r : ℂ) * (nfft c (tab (gridSize c) fun j =>
          sumList ((List.range c.D).map fun d => at2 U 0 j * at2 NAB d j))).getD m 0 :=
      fun m => nfft_scale c r _ _
        (fun x _ => tab_scale _ _ _ _ (fun x _ => sumList_scale _ _ _ _
          (fun j => by rw [hnab]; ring)) x) m
    refine at2_tab2_scale _ _ _ _ _ (fun i _ m _ => ?_) ch h
    rw [hconv]
    ring
  · -- single channel, conservative
    refine at2_tab2_scale _ _ _ _ _ (fun i _ m _ => ?_) ch h
    rw [sumList_scale (List.range c.D) (r : ℂ) (fun d => Nonlin.deriv c d m) _ (fun j => rfl)]
    ring

/-- **T1, convection.**  `dt · convection(L = ℓ; b) = convection(L = 1; b dt / ℓ)`: all four variants, every channel
    and index, any `D`, `N`, dealiasing fraction, arbitrary complex spectrum; `normalize_convection_scale` is the
    regenerated conversion. -/
theorem convection_scaling (c : Cfg ℂ) (ℓ : ℝ) (dt b : ℂ) (C : ℕ) (single conservative : Bool) (uh : MC ℂ)
    (ch h : ℕ) :
    dt * at2 (convection (withS c (c.s / (ℓ : ℂ))) C b single conservative uh) ch h
      = at2 (convection c C (normalize_convection_scale b (ℓ : ℂ) dt) single conservative uh) ch h := by
  have e1 : withS c (c.s / (ℓ : ℂ)) = withS c (((ℓ⁻¹ : ℝ) : ℂ) * c.s) := by
    simp only [withS]; congr 1; push_cast; ring
  have e2 : normalize_convection_scale b (ℓ : ℂ) dt = (dt * ((ℓ⁻¹ : ℝ) : ℂ)) * b := by
    simp only [normalize_convection_scale]; push_cast; ring
  rw [e1, e2, convection_withS_real, convection_scale_mul]
  ring

/-! ## T1 — gradient norm -/

/-- the gradient-norm term is linear in its scale -/
theorem gradientNorm_scale_mul (c : Cfg ℂ) (C : ℕ) (z b : ℂ) (zeroFix : Bool) (uh : MC ℂ) (ch h : ℕ) :
    at2 (gradientNorm c C (z * b) zeroFix uh) ch h = z * at2 (gradientNorm c C b zeroFix uh) ch h := by
  unfold gradientNorm
  simp only []
  exact at2_tab2_scale _ _ z _ _ (fun k _ x _ => by ring) ch h

/-- multiplying the scale `s = 2π/L` by a REAL factor `r` multiplies the gradient-norm term by `r²`
    (two derivatives, applied before `irfftn`), with or without the mean fix -/
theorem gradientNorm_withS_real (c : Cfg ℂ) (r : ℝ) (C : ℕ) (b : ℂ) (zeroFix : Bool) (uh : MC ℂ) (ch h : ℕ) :
    at2 (gradientNorm (withS c ((r : ℂ) * c.s)) C b zeroFix uh) ch h
      = ((r : ℂ) * (r : ℂ)) * at2 (gradientNorm c C b zeroFix uh) ch h := by
  have hd : ∀ d m, Nonlin.deriv (withS c ((r : ℂ) * c.s)) d m = (r : ℂ) * Nonlin.deriv c d m :=
    fun d m => deriv_withS_mul c r d m
  have e1 : nifft (withS c ((r : ℂ) * c.s)) = nifft c := rfl
  have e2 : nfft (withS c ((r : ℂ) * c.s)) = nfft c := rfl
  have e3 : gridSize (withS c ((r : ℂ) * c.s)) = gridSize c := rfl
  have e4 : modes (withS c ((r : ℂ) * c.s)) = modes c := rfl
  unfold gradientNorm
  simp only [e1, e2, e3, e4, withS_D, hd]
  have hg : ∀ k x,
      at2 (tabC (C * c.D) fun cd => nifft c (tab (modes c) fun m =>
        (r : ℂ) * Nonlin.deriv c (cd % c.D) m * at2 uh (cd / c.D) m)) k x
      = (r : ℂ) * at2 (tabC (C * c.D) fun cd => nifft c (tab (modes c) fun m =>
        Nonlin.deriv c (cd % c.D) m * at2 uh (cd / c.D) m)) k x :=
    at2_tabC_scale _ _ _ _ (fun k _ x => nifft_scale_real c r _ _
      (fun m _ => tab_scale _ _ _ _ (fun m _ => by ring) m) x)
  generalize (tabC (C * c.D) fun cd => nifft c (tab (modes c) fun m =>
    (r : ℂ) * Nonlin.deriv c (cd % c.D) m * at2 uh (cd / c.D) m)) = G' at hg ⊢
  generalize (tabC (C * c.D) fun cd => nifft c (tab (modes c) fun m =>
    Nonlin.deriv c (cd % c.D) m * at2 uh (cd / c.D) m)) = G at hg ⊢
  have hq : ∀ k x,
      at2 (tab2 C (gridSize c) fun ch x =>
        sumList ((List.range c.D).map fun d => at2 G' (ch * c.D + d) x * at2 G' (ch * c.D + d) x)) k x
      = ((r : ℂ) * (r : ℂ)) * at2 (tab2 C (gridSize c) fun ch x =>
        sumList ((List.range c.D).map fun d => at2 G (ch * c.D + d) x * at2 G (ch * c.D + d) x)) k x :=
    at2_tab2_scale _ _ _ _ _ (fun k _ x _ => sumList_scale _ _ _ _ (fun d => by rw [hg]; ring))
  generalize (tab2 C (gridSize c) fun ch x =>
    sumList ((List.range c.D).map fun d => at2 G' (ch * c.D + d) x * at2 G' (ch * c.D + d) x)) = Q' at hq ⊢
  generalize (tab2 C (gridSize c) fun ch x =>
    sumList ((List.range c.D).map fun d => at2 G (ch * c.D + d) x * at2 G (ch * c.D + d) x)) = Q at hq ⊢
  have hmean : ∀ k,
      (tab C fun ch => sumRange (gridSize c) (fun x => at2 Q' ch x) / lit (gridSize c)).getD k 0
      = ((r : ℂ) * (r : ℂ)) *
        (tab C fun ch => sumRange (gridSize c) (fun x => at2 Q ch x) / lit (gridSize c)).getD k 0 :=
    tab_scale _ _ _ _ (fun k _ => by
      rw [sumRange_scale _ ((r : ℂ) * (r : ℂ)) (fun x => at2 Q k x) _ (fun x _ => hq k x)]
      ring)
  generalize (tab C fun ch => sumRange (gridSize c) (fun x => at2 Q' ch x) / lit (gridSize c)) = Mn' at hmean ⊢
  generalize (tab C fun ch => sumRange (gridSize c) (fun x => at2 Q ch x) / lit (gridSize c)) = Mn at hmean ⊢
  have hq2 : ∀ k x,
      at2 (tab2 C (gridSize c) fun ch x =>
        if zeroFix = true then at2 Q' ch x - Mn'.getD ch 0 else at2 Q' ch x) k x
      = ((r : ℂ) * (r : ℂ)) * at2 (tab2 C (gridSize c) fun ch x =>
        if zeroFix = true then at2 Q ch x - Mn.getD ch 0 else at2 Q ch x) k x :=
    at2_tab2_scale _ _ _ _ _ (fun k _ x _ => by
      cases zeroFix
      · simp only [Bool.false_eq_true, ↓reduceIte, hq]
      · simp only [↓reduceIte, hq, hmean]; ring)
  generalize (tab2 C (gridSize c) fun ch x =>
    if zeroFix = true then at2 Q' ch x - Mn'.getD ch 0 else at2 Q' ch x) = Q2' at hq2 ⊢
  generalize (tab2 C (gridSize c) fun ch x =>
    if zeroFix = true then at2 Q ch x - Mn.getD ch 0 else at2 Q ch x) = Q2 at hq2 ⊢
  have hqh : ∀ k m,
      at2 (tabC C fun ch => nfft c (Q2'.getD ch #[])) k m
      = ((r : ℂ) * (r : ℂ)) * at2 (tabC C fun ch => nfft c (Q2.getD ch #[])) k m :=
    at2_tabC_scale _ _ _ _ (fun k _ m => nfft_scale c _ _ _ (fun x _ => hq2 k x) m)
  refine at2_tab2_scale _ _ _ _ _ (fun i _ m _ => ?_) ch h
  rw [hqh]
  ring

/-- **T1, gradient norm.**  `dt · gradientNorm(L = ℓ; b) = gradientNorm(L = 1; b dt / ℓ²)`; with or without the mean
    fix, every channel and index; `normalize_gradient_norm_scale` is the regenerated conversion. -/
theorem gradientNorm_scaling (c : Cfg ℂ) (ℓ : ℝ) (dt b : ℂ) (C : ℕ) (zeroFix : Bool) (uh : MC ℂ) (ch h : ℕ) :
    dt * at2 (gradientNorm (withS c (c.s / (ℓ : ℂ))) C b zeroFix uh) ch h
      = at2 (gradientNorm c C (normalize_gradient_norm_scale b (ℓ : ℂ) dt) zeroFix uh) ch h := by
  have e1 : withS c (c.s / (ℓ : ℂ)) = withS c (((ℓ⁻¹ : ℝ) : ℂ) * c.s) := by
    simp only [withS]; congr 1; push_cast; ring
  have e2 : normalize_gradient_norm_scale b (ℓ : ℂ) dt
      = (dt * (((ℓ⁻¹ : ℝ) : ℂ) * ((ℓ⁻¹ : ℝ) : ℂ))) * b := by
    simp only [normalize_gradient_norm_scale, npow_eq]; push_cast; ring
  rw [e1, e2, gradientNorm_withS_real, gradientNorm_scale_mul]
  ring

/-! ## T1 — polynomial -/

/-- the polynomial term does not see the domain extent -/
theorem polynomial_withS (c : Cfg ℂ) (s' : ℂ) (C : ℕ) (coeffs : List ℂ) (uh : MC ℂ) :
    polynomial (withS c s') C coeffs uh = polynomial c C coeffs uh := rfl

theorem polyEval_foldl_scale (dt u : ℂ) (coeffs : List ℂ) (a1 a2 : ℂ) :
    ((coeffs.map (fun co => co * dt)).foldl
        (fun (acc : ℂ × ℂ) co => (acc.1 + co * acc.2, acc.2 * u)) (dt * a1, a2)).1
      = dt * (coeffs.foldl (fun (acc : ℂ × ℂ) co => (acc.1 + co * acc.2, acc.2 * u)) (a1, a2)).1 := by
  induction coeffs generalizing a1 a2 with
  | nil => rfl
  | cons co cs ih =>
    simp only [List.map_cons, List.foldl_cons]
    have e : dt * a1 + co * dt * a2 = dt * (a1 + co * a2) := by ring
    rw [e]
    exact ih _ _

/-- the Horner-like loop is linear in the coefficient list -/
theorem polyEval_scale (dt u : ℂ) (coeffs : List ℂ) :
    polyEval (coeffs.map (fun co => co * dt)) u = dt * polyEval coeffs u := by
  unfold polyEval
  have h := polyEval_foldl_scale dt u coeffs 0 1
  rw [mul_zero] at h
  exact h

/-- **T1, polynomial.**  `dt · polynomial(coeffs) = polynomial(coeffs · dt)` (`normalize_polynomial_scales`), every
    complex `dt`, every channel and index. -/
theorem polynomial_scaling (c : Cfg ℂ) (L dt : ℂ) (C : ℕ) (coeffs : List ℂ) (uh : MC ℂ) (ch h : ℕ) :
    dt * at2 (polynomial c C coeffs uh) ch h
      = at2 (polynomial c C (normalize_polynomial_scales coeffs L dt) uh) ch h := by
  unfold polynomial normalize_polynomial_scales
  simp only []
  exact (at2_tabC_scale _ dt _ _ (fun k _ m => nfft_scale c dt _ _
    (fun x _ => tab_scale _ _ _ _ (fun x _ => polyEval_scale dt _ coeffs) x) m) ch h).symm

/-! ## T1 — the general nonlinear term -/

/-- **T1, general nonlinear term** (quadratic + single-channel conservative convection + gradient norm),
    componentwise: `dt · general(L = ℓ; b₀, b₁, b₂) = general(L = 1; b₀ dt, b₁ dt/ℓ, b₂ dt/ℓ²)`. -/
theorem general_scaling (c : Cfg ℂ) (ℓ : ℝ) (dt b0 b1 b2 : ℂ) (C : ℕ) (zeroFix : Bool) (uh : MC ℂ) (ch h : ℕ) :
    dt * at2 (general (withS c (c.s / (ℓ : ℂ))) C b0 b1 b2 zeroFix uh) ch h
      = at2 (general c C (b0 * dt) (normalize_convection_scale b1 (ℓ : ℂ) dt)
          (normalize_gradient_norm_scale b2 (ℓ : ℂ) dt) zeroFix uh) ch h := by
  have e4 : modes (withS c (c.s / (ℓ : ℂ))) = modes c := rfl
  have hp : normalize_polynomial_scales [0, 0, b0] (ℓ : ℂ) dt = [0, 0, b0 * dt] := by
    simp [normalize_polynomial_scales]
  have hc : normalize_convection_scale (-b1) (ℓ : ℂ) dt = -normalize_convection_scale b1 (ℓ : ℂ) dt := by
    simp only [normalize_convection_scale]; ring
  have hg : normalize_gradient_norm_scale (-b2) (ℓ : ℂ) dt
      = -normalize_gradient_norm_scale b2 (ℓ : ℂ) dt := by
    simp only [normalize_gradient_norm_scale]; ring
  unfold general
  simp only [e4, polynomial_withS]
  rw [at2_tab2_any, at2_tab2_any]
  split_ifs with hk
  · rw [mul_add, mul_add, polynomial_scaling c (ℓ : ℂ) dt, convection_scaling, gradientNorm_scaling, hp, hc, hg]
  · rw [mul_zero]

/-! ## the same on `cfgOf` (physical stepper `L = ℓ` against the normalised one `L = 1`) -/

theorem convection_scaling_cfgOf (D N : ℕ) (df : ℕ × ℕ) (ℓ : ℝ) (dt b : ℂ) (C : ℕ) (single conservative : Bool)
    (uh : MC ℂ) (ch h : ℕ) :
    dt * at2 (convection (cfgOf D N (ℓ : ℂ) df) C b single conservative uh) ch h
      = at2 (convection (cfgOf D N 1 df) C (normalize_convection_scale b (ℓ : ℂ) dt) single conservative uh)
          ch h := by
  rw [cfgOf_eq_withS]; exact convection_scaling _ ℓ dt b C single conservative uh ch h

theorem gradientNorm_scaling_cfgOf (D N : ℕ) (df : ℕ × ℕ) (ℓ : ℝ) (dt b : ℂ) (C : ℕ) (zeroFix : Bool)
    (uh : MC ℂ) (ch h : ℕ) :
    dt * at2 (gradientNorm (cfgOf D N (ℓ : ℂ) df) C b zeroFix uh) ch h
      = at2 (gradientNorm (cfgOf D N 1 df) C (normalize_gradient_norm_scale b (ℓ : ℂ) dt) zeroFix uh) ch h := by
  rw [cfgOf_eq_withS]; exact gradientNorm_scaling _ ℓ dt b C zeroFix uh ch h

theorem polynomial_scaling_cfgOf (D N : ℕ) (df : ℕ × ℕ) (L dt : ℂ) (C : ℕ) (coeffs : List ℂ) (uh : MC ℂ)
    (ch h : ℕ) :
    dt * at2 (polynomial (cfgOf D N L df) C coeffs uh) ch h
      = at2 (polynomial (cfgOf D N 1 df) C (normalize_polynomial_scales coeffs L dt) uh) ch h := by
  rw [cfgOf_eq_withS, polynomial_withS]; exact polynomial_scaling _ L dt C coeffs uh ch h

theorem general_scaling_cfgOf (D N : ℕ) (df : ℕ × ℕ) (ℓ : ℝ) (dt b0 b1 b2 : ℂ) (C : ℕ) (zeroFix : Bool)
    (uh : MC ℂ) (ch h : ℕ) :
    dt * at2 (general (cfgOf D N (ℓ : ℂ) df) C b0 b1 b2 zeroFix uh) ch h
      = at2 (general (cfgOf D N 1 df) C (b0 * dt) (normalize_convection_scale b1 (ℓ : ℂ) dt)
          (normalize_gradient_norm_scale b2 (ℓ : ℂ) dt) zeroFix uh) ch h := by
  rw [cfgOf_eq_withS]; exact general_scaling _ ℓ dt b0 b1 b2 C zeroFix uh ch h

/-! ## non-vacuity of the hypotheses of the relation lemmas -/

/-- `sumList_scale`, `sumRange_scale`, `tab_scale`, `at2_tab2_scale`, `at2_tabC_scale` -/
example : ∃ (z : ℂ) (f g : ℕ → ℂ), ∀ j, g j = z * f j := ⟨2, fun j => j, fun j => 2 * j, fun _ => rfl⟩

/-- `rfftnM_scale`, `nfft_scale`, `irfftnM_scale_real`, `nifft_scale_real`: scaled arrays exist -/
example : ∃ (r : ℝ) (u v : Array ℂ), ∀ j, j < 4 ^ 2 → v.getD j 0 = (r : ℂ) * u.getD j 0 :=
  ⟨3, tab 16 (fun j => (j : ℂ)), tab 16 (fun j => ((3 : ℝ) : ℂ) * (j : ℂ)), fun j hj => by
    have hj' : j < 16 := by simpa using hj
    rw [DFT.tab_getD _ _ _ _ hj', DFT.tab_getD _ _ _ _ hj']⟩

end Exponax.Interface
