import ExponaxModel.Proofs.NonlinFunsBasic
import ExponaxModel.Proofs.DFTBasic
import Mathlib.Analysis.Calculus.ContDiff.Basic
import Mathlib.Analysis.Calculus.ContDiff.Operations
import Mathlib.Analysis.Calculus.FDeriv.Mul
import Mathlib.Analysis.Calculus.FDeriv.Add
import Mathlib.Analysis.Complex.Basic
/-
C07 support — T1, the general lemma.

Every pseudo-spectral term of `Model/Nonlin.lean` is assembled from
  * ℝ-linear array operations (`rfftnM`, `irfftnM`, masks, multiplication by a fixed symbol, sums, `Re`), and
  * pointwise products of arrays.
We make this precise ENTRYWISE: an `X`-indexed family of arrays `f : X → Array ℂ` is described by its entry
functions `x ↦ (f x).getD i 0 : X → ℂ`, and we carry a relation `R g g'` between a "primal" entry function
`g : X → ℂ` and a "tangent" entry function `g' : Y → ℂ` through the model:

  * `FunMod₂ R`   : `R` is closed under `0`, `+`, multiplication by a constant and `Re` (the linear calculus);
  * `FunAlg₂ R u` : in addition constants and the PRODUCT RULE at the base point `u`:
                    `R f f' → R g g' → R (f·g) (v ↦ f u · g' v + f' v · g u)`.

Instances (below): `R g g' := P g` for `P = ContDiff ℝ n`, `Differentiable ℝ`, `Continuous`;  `R g g' := IsLinearMap ℝ g`
(linear calculus only); and `R g g' := HasFD g g' u` : "`g` is Fréchet differentiable at `u` and its derivative is the
map `g'`" (both calculi).  The transforms of the model preserve every `FunMod₂` relation (this file); the terms preserve
every `FunAlg₂` relation, with the tangent given by the JVP written in model vocabulary (`DiffTermsConv` etc.).
-/
set_option linter.unusedVariables false
namespace Exponax.DiffTerms
open Exponax Exponax.Layout Exponax.Transform Exponax.Nonlin

section Rel
variable {X Y : Type}

/-- the linear calculus -/
structure FunMod₂ (R : (X → ℂ) → (Y → ℂ) → Prop) : Prop where
  zero : R (fun _ => 0) (fun _ => 0)
  add : ∀ {f g : X → ℂ} {f' g' : Y → ℂ}, R f f' → R g g' → R (fun x => f x + g x) (fun v => f' v + g' v)
  smul : ∀ (a : ℂ) {f : X → ℂ} {f' : Y → ℂ}, R f f' → R (fun x => a * f x) (fun v => a * f' v)
  re : ∀ {f : X → ℂ} {f' : Y → ℂ}, R f f' → R (fun x => (((f x).re : ℝ) : ℂ)) (fun v => (((f' v).re : ℝ) : ℂ))

/-- the linear calculus + constants + the product rule at the base point `u` -/
structure FunAlg₂ (R : (X → ℂ) → (Y → ℂ) → Prop) (u : X) : Prop extends FunMod₂ R where
  const : ∀ a : ℂ, R (fun _ => a) (fun _ => 0)
  mul : ∀ {f g : X → ℂ} {f' g' : Y → ℂ}, R f f' → R g g' →
    R (fun x => f x * g x) (fun v => f u * g' v + f' v * g u)

namespace FunMod₂
variable {R : (X → ℂ) → (Y → ℂ) → Prop} (hR : FunMod₂ R)
include hR

theorem mul_const (a : ℂ) {f : X → ℂ} {f' : Y → ℂ} (h : R f f') : R (fun x => f x * a) (fun v => f' v * a) := by
  have := hR.smul a h
  simpa only [mul_comm] using this

theorem neg {f : X → ℂ} {f' : Y → ℂ} (h : R f f') : R (fun x => -f x) (fun v => -f' v) := by
  have := hR.smul (-1) h
  simpa only [neg_one_mul] using this

theorem sub {f g : X → ℂ} {f' g' : Y → ℂ} (h : R f f') (k : R g g') :
    R (fun x => f x - g x) (fun v => f' v - g' v) := by
  have := hR.add h (hR.neg k)
  simpa only [← sub_eq_add_neg] using this

theorem div_const (a : ℂ) {f : X → ℂ} {f' : Y → ℂ} (h : R f f') : R (fun x => f x / a) (fun v => f' v / a) := by
  have := hR.mul_const a⁻¹ h
  simpa only [← div_eq_mul_inv] using this

theorem finsum {ι : Type} (s : Finset ι) (g : ι → X → ℂ) (g' : ι → Y → ℂ) (h : ∀ i ∈ s, R (g i) (g' i)) :
    R (fun x => ∑ i ∈ s, g i x) (fun v => ∑ i ∈ s, g' i v) := by
  classical
  induction s using Finset.induction_on with
  | empty => simpa using hR.zero
  | insert a s ha ih =>
    have h1 := hR.add (h a (Finset.mem_insert_self a s)) (ih (fun i hi => h i (Finset.mem_insert_of_mem hi)))
    simpa only [Finset.sum_insert ha] using h1

/-- `sumList ((List.range n).map …)` -/
theorem sumList_range (n : ℕ) (g : X → ℕ → ℂ) (g' : Y → ℕ → ℂ) (h : ∀ d, d < n → R (fun x => g x d) (fun v => g' v d)) :
    R (fun x => sumList ((List.range n).map (g x))) (fun v => sumList ((List.range n).map (g' v))) := by
  have e1 : (fun x => sumList ((List.range n).map (g x))) = fun x => ∑ d ∈ Finset.range n, g x d :=
    funext fun x => by rw [sumList_eq, DFT.list_range_map_sum]
  have e2 : (fun v => sumList ((List.range n).map (g' v))) = fun v => ∑ d ∈ Finset.range n, g' v d :=
    funext fun v => by rw [sumList_eq, DFT.list_range_map_sum]
  rw [e1, e2]
  exact hR.finsum _ (fun d x => g x d) (fun d v => g' v d) (fun d hd => h d (Finset.mem_range.mp hd))

theorem sumRange_rel (n : ℕ) (g : X → ℕ → ℂ) (g' : Y → ℕ → ℂ) (h : ∀ d, d < n → R (fun x => g x d) (fun v => g' v d)) :
    R (fun x => sumRange n (g x)) (fun v => sumRange n (g' v)) :=
  hR.sumList_range n g g' h

/-- entries of a tabulated array -/
theorem tab_rel (n : ℕ) (g : X → ℕ → ℂ) (g' : Y → ℕ → ℂ) (h : ∀ i, i < n → R (fun x => g x i) (fun v => g' v i)) (i : ℕ) :
    R (fun x => (tab n (g x)).getD i 0) (fun v => (tab n (g' v)).getD i 0) := by
  by_cases hi : i < n
  · have e1 : (fun x => (Transform.tab n (g x)).getD i 0) = fun x => g x i := funext fun x => tab_getD _ _ _ _ hi
    have e2 : (fun v => (Transform.tab n (g' v)).getD i 0) = fun v => g' v i := funext fun v => tab_getD _ _ _ _ hi
    rw [e1, e2]; exact h i hi
  · have e1 : (fun x => (Transform.tab n (g x)).getD i 0) = fun _ => 0 :=
      funext fun x => tab_getD_of_le _ _ _ _ (not_lt.mp hi)
    have e2 : (fun v => (Transform.tab n (g' v)).getD i 0) = fun _ => 0 :=
      funext fun v => tab_getD_of_le _ _ _ _ (not_lt.mp hi)
    rw [e1, e2]; exact hR.zero

/-- entries of a tabulated multi-channel array (channels given as whole arrays) -/
theorem tabC_rel (nc : ℕ) (g : X → ℕ → Array ℂ) (g' : Y → ℕ → Array ℂ)
    (h : ∀ ch, ch < nc → ∀ i, R (fun x => (g x ch).getD i 0) (fun v => (g' v ch).getD i 0)) (ch i : ℕ) :
    R (fun x => at2 (tabC nc (g x)) ch i) (fun v => at2 (tabC nc (g' v)) ch i) := by
  by_cases hc : ch < nc
  · have e1 : (fun x => at2 (Nonlin.tabC nc (g x)) ch i) = fun x => (g x ch).getD i 0 :=
      funext fun x => by unfold at2 Nonlin.tabC; rw [tab_getD _ _ _ _ hc]
    have e2 : (fun v => at2 (Nonlin.tabC nc (g' v)) ch i) = fun v => (g' v ch).getD i 0 :=
      funext fun v => by unfold at2 Nonlin.tabC; rw [tab_getD _ _ _ _ hc]
    rw [e1, e2]; exact h ch hc i
  · have e1 : (fun x => at2 (Nonlin.tabC nc (g x)) ch i) = fun _ => 0 :=
      funext fun x => by unfold at2 Nonlin.tabC; rw [tab_getD_of_le _ _ _ _ (not_lt.mp hc)]; rfl
    have e2 : (fun v => at2 (Nonlin.tabC nc (g' v)) ch i) = fun _ => 0 :=
      funext fun v => by unfold at2 Nonlin.tabC; rw [tab_getD_of_le _ _ _ _ (not_lt.mp hc)]; rfl
    rw [e1, e2]; exact hR.zero

/-- entries of a tabulated multi-channel array (given entrywise) -/
theorem tab2_rel (nc n : ℕ) (g : X → ℕ → ℕ → ℂ) (g' : Y → ℕ → ℕ → ℂ)
    (h : ∀ ch, ch < nc → ∀ i, i < n → R (fun x => g x ch i) (fun v => g' v ch i)) (ch i : ℕ) :
    R (fun x => at2 (tab2 nc n (g x)) ch i) (fun v => at2 (tab2 nc n (g' v)) ch i) :=
  hR.tabC_rel nc (fun x ch => Transform.tab n (g x ch)) (fun v ch => Transform.tab n (g' v ch))
    (fun ch hc i => hR.tab_rel n (fun x => g x ch) (fun v => g' v ch) (fun i hi => h ch hc i hi) i) ch i

/-- **`rfftnM` preserves the relation** (it is a fixed linear combination of the entries) -/
theorem rfftnM_rel (D N : ℕ) (a : X → Array ℂ) (a' : Y → Array ℂ)
    (h : ∀ j, R (fun x => (a x).getD j 0) (fun v => (a' v).getD j 0)) (m : ℕ) :
    R (fun x => (rfftnM D N (a x)).getD m 0) (fun v => (rfftnM D N (a' v)).getD m 0) := by
  unfold Transform.rfftnM
  exact hR.tab_rel _ _ _ (fun m _ => hR.sumRange_rel _ _ _ (fun j _ => hR.mul_const _ (h j))) m

/-- **`irfftnM` preserves the relation** (`Re` is ℝ-linear) -/
theorem irfftnM_rel (D N : ℕ) (a : X → Array ℂ) (a' : Y → Array ℂ)
    (h : ∀ m, R (fun x => (a x).getD m 0) (fun v => (a' v).getD m 0)) (j : ℕ) :
    R (fun x => (irfftnM D N (a x)).getD j 0) (fun v => (irfftnM D N (a' v)).getD j 0) := by
  unfold Transform.irfftnM
  exact hR.tab_rel _ _ _ (fun j _ => hR.div_const _
    (hR.sumRange_rel _ _ _ (fun m _ => hR.smul _ (hR.re (hR.mul_const _ (h m)))))) j

/-- multiplication by a fixed symbol, entrywise -/
theorem diag_rel (n : ℕ) (σ : ℕ → ℂ) (a : X → Array ℂ) (a' : Y → Array ℂ)
    (h : ∀ m, R (fun x => (a x).getD m 0) (fun v => (a' v).getD m 0)) (m : ℕ) :
    R (fun x => (Transform.tab n (fun k => σ k * (a x).getD k 0)).getD m 0)
      (fun v => (Transform.tab n (fun k => σ k * (a' v).getD k 0)).getD m 0) :=
  hR.tab_rel _ _ _ (fun k _ => hR.smul _ (h k)) m

/-- **`nfft` (transform, then mask) preserves the relation** -/
theorem nfft_rel (c : Cfg ℂ) (a : X → Array ℂ) (a' : Y → Array ℂ)
    (h : ∀ j, R (fun x => (a x).getD j 0) (fun v => (a' v).getD j 0)) (m : ℕ) :
    R (fun x => (nfft c (a x)).getD m 0) (fun v => (nfft c (a' v)).getD m 0) := by
  unfold Nonlin.nfft
  exact hR.tab_rel _ _ _ (fun k _ => hR.smul _ (hR.rfftnM_rel c.D c.N a a' h k)) m

/-- **`nifft` (mask, then inverse transform) preserves the relation** -/
theorem nifft_rel (c : Cfg ℂ) (a : X → Array ℂ) (a' : Y → Array ℂ)
    (h : ∀ m, R (fun x => (a x).getD m 0) (fun v => (a' v).getD m 0)) (j : ℕ) :
    R (fun x => (nifft c (a x)).getD j 0) (fun v => (nifft c (a' v)).getD j 0) := by
  unfold Nonlin.nifft
  exact hR.irfftnM_rel c.D c.N _ _ (fun m => hR.diag_rel _ _ a a' h m) j

end FunMod₂

/-- multi-channel families related entrywise -/
def RelM (R : (X → ℂ) → (Y → ℂ) → Prop) (f : X → MC ℂ) (f' : Y → MC ℂ) : Prop :=
  ∀ ch i, R (fun x => at2 (f x) ch i) (fun v => at2 (f' v) ch i)

/-- single arrays related entrywise -/
def RelA (R : (X → ℂ) → (Y → ℂ) → Prop) (f : X → Array ℂ) (f' : Y → Array ℂ) : Prop :=
  ∀ i, R (fun x => (f x).getD i 0) (fun v => (f' v).getD i 0)

theorem RelM.row {R : (X → ℂ) → (Y → ℂ) → Prop} {f : X → MC ℂ} {f' : Y → MC ℂ} (h : RelM R f f') (ch : ℕ) :
    RelA R (fun x => (f x).getD ch #[]) (fun v => (f' v).getD ch #[]) := fun i => h ch i

end Rel

/-! ### instances of the calculi -/

section Unary
variable {X : Type}

/-- a predicate on entry functions, seen as a relation that ignores the tangent slot -/
def lift₁ (P : (X → ℂ) → Prop) : (X → ℂ) → (X → ℂ) → Prop := fun g _ => P g

end Unary

section Smooth
variable {X : Type} [NormedAddCommGroup X] [NormedSpace ℝ X]

theorem contDiff_re_ofReal {n : WithTop ℕ∞} {f : X → ℂ} (h : ContDiff ℝ n f) :
    ContDiff ℝ n (fun x => (((f x).re : ℝ) : ℂ)) :=
  Complex.ofRealCLM.contDiff.comp (Complex.reCLM.contDiff.comp h)

/-- `ContDiff ℝ n` is closed under both calculi -/
theorem funAlg₂_contDiff (n : WithTop ℕ∞) (u : X) : FunAlg₂ (lift₁ (fun g : X → ℂ => ContDiff ℝ n g)) u where
  zero := contDiff_const
  add := fun h k => ContDiff.add h k
  smul := fun a _ _ h => ContDiff.mul contDiff_const h
  re := fun h => contDiff_re_ofReal h
  const := fun a => contDiff_const
  mul := fun h k => ContDiff.mul h k

/-- `Continuous` is closed under both calculi -/
theorem funAlg₂_continuous {X : Type} [TopologicalSpace X] (u : X) :
    FunAlg₂ (lift₁ (fun g : X → ℂ => Continuous g)) u where
  zero := continuous_const
  add := fun h k => Continuous.add h k
  smul := fun a _ _ h => Continuous.mul continuous_const h
  re := fun h => Complex.continuous_ofReal.comp (Complex.continuous_re.comp h)
  const := fun a => continuous_const
  mul := fun h k => Continuous.mul h k

end Smooth

section Linear
variable {X : Type} [AddCommGroup X] [Module ℝ X]

/-- ℝ-linearity of the entry functions is closed under the linear calculus -/
theorem funMod₂_linear : FunMod₂ (lift₁ (fun g : X → ℂ => IsLinearMap ℝ g)) where
  zero := ⟨fun _ _ => (add_zero 0).symm, fun _ _ => (smul_zero _).symm⟩
  add := fun {f g _ _} h k =>
    ⟨fun x y => by simp only [h.map_add, k.map_add]; ring, fun r x => by simp only [h.map_smul, k.map_smul, smul_add]⟩
  smul := fun a {f _} h =>
    ⟨fun x y => by simp only [h.map_add, mul_add], fun r x => by
      simp only [h.map_smul, Complex.real_smul]; ring⟩
  re := fun {f _} h =>
    ⟨fun x y => by simp only [h.map_add, Complex.add_re, Complex.ofReal_add], fun r x => by
      simp only [h.map_smul, Complex.real_smul, Complex.re_ofReal_mul, Complex.ofReal_mul]⟩

end Linear

/-! ### the derivative calculus -/

section FD
variable {X : Type} [NormedAddCommGroup X] [NormedSpace ℝ X]

/-- "`g` is Fréchet differentiable (over ℝ) at `u`, and its derivative is the map `g'`" -/
def HasFD (u : X) (g g' : X → ℂ) : Prop := ∃ L : X →L[ℝ] ℂ, HasFDerivAt g L u ∧ ∀ v, L v = g' v

theorem HasFD.congr {u : X} {g g' g'' : X → ℂ} (h : HasFD u g g') (e : ∀ v, g' v = g'' v) : HasFD u g g'' := by
  obtain ⟨L, hL, hv⟩ := h
  exact ⟨L, hL, fun v => (hv v).trans (e v)⟩

/-- a continuous ℝ-linear functional is its own derivative -/
theorem HasFD.of_clm (u : X) (L : X →L[ℝ] ℂ) : HasFD u (fun x => L x) (fun v => L v) :=
  ⟨L, L.hasFDerivAt, fun _ => rfl⟩

/-- **the derivative calculus**: `HasFD u` is closed under the linear calculus, constants, and the product rule -/
theorem funAlg₂_hasFD (u : X) : FunAlg₂ (HasFD u) u where
  zero := ⟨0, hasFDerivAt_const 0 u, fun _ => rfl⟩
  add := by
    rintro f g f' g' ⟨L, hL, hv⟩ ⟨L', hL', hv'⟩
    exact ⟨L + L', hL.add hL', fun v => by simp only [_root_.add_apply, hv, hv']⟩
  smul := by
    rintro a f f' ⟨L, hL, hv⟩
    exact ⟨a • L, hL.const_smul a, fun v => by
      simp only [_root_.smul_apply, hv, smul_eq_mul]⟩
  re := by
    rintro f f' ⟨L, hL, hv⟩
    refine ⟨Complex.ofRealCLM.comp (Complex.reCLM.comp L), ?_, fun v => ?_⟩
    · exact (Complex.ofRealCLM.hasFDerivAt.comp u (Complex.reCLM.hasFDerivAt.comp u hL))
    · simp only [ContinuousLinearMap.comp_apply, hv, Complex.reCLM_apply, Complex.ofRealCLM_apply]
  const := fun a => ⟨0, hasFDerivAt_const a u, fun _ => rfl⟩
  mul := by
    rintro f g f' g' ⟨L, hL, hv⟩ ⟨L', hL', hv'⟩
    refine ⟨f u • L' + g u • L, hL.mul hL', fun v => ?_⟩
    simp only [_root_.add_apply, _root_.smul_apply, hv, hv', smul_eq_mul]
    ring

end FD

end Exponax.DiffTerms
