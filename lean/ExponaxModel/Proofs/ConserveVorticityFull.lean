import ExponaxModel.Proofs.ConserveVorticity
/-
C09 (part K1 f, full) — the 2-D vorticity convection has no mean, for EVERY input spectrum.

  * `real_inner_irfftn`  : adjointness of the c2r transform w.r.t. the weighted half-spectrum pairing
                           (any dimension);
  * `rfftn_irfftn_2d`    : what `rfftn ∘ irfftn` does to an arbitrary stored half spectrum in 2-D
                           (identity off the self-conjugate columns, Hermitian part on them);
  * `vorticity2d_mean`   : the mean mode of `vorticity2d c scale none ûh` is `0`.
-/
set_option linter.unusedVariables false
set_option linter.unusedSimpArgs false
namespace Exponax.Conserve
open Exponax Exponax.Layout Exponax.Transform Exponax.DFT Exponax.Nonlin Exponax.Alias Finset

/-! ### A. adjointness of the c2r transform (any dimension) -/

/-- `Σ_j f_j · irfftn(C)_j = N^{-D} Σ_h w_h Re(C_h · conj f̂_h)` for a real grid field `f` and ANY
    stored half spectrum `C` -/
theorem real_inner_irfftn (D N : ℕ) (hN : 0 < N) (f C : Array ℂ)
    (hf : ∀ j < N ^ D, (f.getD j 0).im = 0) :
    ∑ j ∈ range (N ^ D), f.getD j 0 * (irfftnM D N C).getD j 0
      = ((∑ h ∈ range (numModes D N), (herm_weight D N h : ℝ) *
            (C.getD h 0 * (starRingEnd ℂ) ((rfftnM D N f).getD h 0)).re : ℝ) : ℂ)
          / ((N ^ D : ℕ) : ℂ) := by
  have hterm : ∀ j ∈ range (N ^ D), f.getD j 0 * (irfftnM D N C).getD j 0
      = ((∑ h ∈ range (numModes D N), (herm_weight D N h : ℝ) *
          (C.getD h 0 * (f.getD j 0 * twiddle N (-(phaseK D N (wnFlat D N h) j)))).re : ℝ) : ℂ)
          / ((N ^ D : ℕ) : ℂ) := by
    intro j hj
    have hj' := Finset.mem_range.mp hj
    obtain ⟨r, hr⟩ : ∃ r : ℝ, f.getD j 0 = (r : ℂ) :=
      ⟨(f.getD j 0).re, Complex.ext (Complex.ofReal_re _).symm (by rw [Complex.ofReal_im, hf j hj'])⟩
    rw [irfftnM_getD D N hN C j hj', hr, mul_div_assoc']
    congr 1
    push_cast
    rw [Finset.mul_sum]
    apply Finset.sum_congr rfl
    intro h _
    rw [show C.getD h 0 * ((r : ℂ) * twiddle N (-(phaseK D N (wnFlat D N h) j)))
        = (r : ℂ) * (C.getD h 0 * twiddle N (-(phaseK D N (wnFlat D N h) j))) by ring,
      Complex.re_ofReal_mul]
    push_cast
    ring
  rw [Finset.sum_congr rfl hterm, ← Finset.sum_div, ← Complex.ofReal_sum]
  congr 2
  rw [Finset.sum_comm]
  apply Finset.sum_congr rfl
  intro h hh
  rw [← Finset.mul_sum, ← Complex.re_sum, ← Finset.mul_sum]
  congr 3
  rw [rfftnM_getD D N hN f h (Finset.mem_range.mp hh), map_sum]
  apply Finset.sum_congr rfl
  intro j hj
  rw [map_mul, conj_twiddle, Complex.conj_eq_iff_im.mpr (hf j (Finset.mem_range.mp hj))]

/-! ### B. `rfftn ∘ irfftn` in 2-D -/

/-- the 2-D phase in `(a, l; J)` coordinates: `a·(J / N) + l·(J % N)` -/
noncomputable def phi2 (N a l J : ℕ) : ℤ := dotPhase 1 N a (J / N) + (l : ℤ) * ((J % N : ℕ) : ℤ)

theorem dotPhase_one (N a b : ℕ) :
    dotPhase 1 N a b = ((a % N : ℕ) : ℤ) * ((b % N : ℕ) : ℤ) := by
  simp [dotPhase, digit]

theorem sum_zeta_phi2 (N : ℕ) (hN : 0 < N) (a l a' l' : ℕ) (sg : ℤ) :
    ∑ J ∈ range (N ^ (1 + 1)), zeta N ^ (phi2 N a l J + sg * phi2 N a' l' J)
      = (if (N : ℤ) ∣ ((a % N : ℕ) : ℤ) + sg * ((a' % N : ℕ) : ℤ) then (N : ℂ) else 0)
        * (if (N : ℤ) ∣ (l : ℤ) + sg * (l' : ℤ) then (N : ℂ) else 0) := by
  have key := sum_range_mul_div_mod N N (fun x y : ℕ =>
    zeta N ^ ((((a % N : ℕ) : ℤ) + sg * ((a' % N : ℕ) : ℤ)) * (x : ℤ))
      * zeta N ^ (((l : ℤ) + sg * (l' : ℤ)) * (y : ℤ)))
  rw [← zeta_sum_zpow N hN, ← zeta_sum_zpow N hN, Finset.sum_mul_sum, ← key,
    show N ^ (1 + 1) = N * N by ring]
  apply Finset.sum_congr rfl
  intro J hJ
  rw [← zpow_add₀ (zeta_ne_zero N)]
  congr 1
  unfold phi2
  rw [dotPhase_one, dotPhase_one]
  have : (J / N) % N = J / N :=
    Nat.mod_eq_of_lt (Nat.div_lt_of_lt_mul (Finset.mem_range.mp hJ))
  rw [this]
  ring

/-- reflection `a ↦ −a (mod N)` of a leading-axis index -/
def sigA (N a : ℕ) : ℕ := (N - a) % N

theorem sigA_zero (N : ℕ) : sigA N 0 = 0 := by simp [sigA]

theorem sigA_pos (N a : ℕ) (ha0 : 0 < a) (ha : a < N) : sigA N a = N - a := by
  unfold sigA; exact Nat.mod_eq_of_lt (by omega)

theorem sigA_lt (N a : ℕ) (hN : 0 < N) : sigA N a < N := Nat.mod_lt _ hN

theorem sigA_sigA (N a : ℕ) (ha : a < N) : sigA N (sigA N a) = a := by
  rcases Nat.eq_zero_or_pos a with h0 | h0
  · subst h0; rw [sigA_zero, sigA_zero]
  · rw [sigA_pos N a h0 ha, sigA_pos N (N - a) (by omega) (by omega)]; omega

theorem dvd_sub_iff_eq (N a a' : ℕ) (ha : a < N) (ha' : a' < N) :
    (N : ℤ) ∣ (a : ℤ) + (-1) * (a' : ℤ) ↔ a = a' := by
  constructor
  · intro hd
    have := Int.eq_zero_of_abs_lt_dvd hd (by rw [abs_lt]; constructor <;> omega)
    omega
  · rintro rfl; simp

theorem dvd_add_iff_sigA (N a a' : ℕ) (hN : 0 < N) (ha : a < N) (ha' : a' < N) :
    (N : ℤ) ∣ (a : ℤ) + 1 * (a' : ℤ) ↔ a' = sigA N a := by
  rcases Nat.eq_zero_or_pos a with h0 | h0
  · subst h0
    rw [sigA_zero]
    constructor
    · intro hd
      have := Int.eq_zero_of_abs_lt_dvd hd (by rw [abs_lt]; constructor <;> push_cast <;> omega)
      push_cast at this; omega
    · rintro rfl; simp
  · rw [sigA_pos N a h0 ha]
    constructor
    · intro hd
      have hd' : (N : ℤ) ∣ (a : ℤ) + 1 * (a' : ℤ) - (N : ℤ) := Dvd.dvd.sub hd (dvd_refl _)
      have := Int.eq_zero_of_abs_lt_dvd hd' (by rw [abs_lt]; constructor <;> omega)
      omega
    · intro h
      subst h
      refine ⟨1, ?_⟩
      push_cast [Nat.cast_sub ha.le]
      ring

/-- on the last axis `N ∣ l + l'` only on the self-conjugate columns -/
theorem dvd_last_add_iff (N l l' : ℕ) (hN : 0 < N) (hl : l ≤ N / 2) (hl' : l' ≤ N / 2) :
    (N : ℤ) ∣ (l : ℤ) + 1 * (l' : ℤ) ↔ (l' = l ∧ (l = 0 ∨ (N % 2 = 0 ∧ l = N / 2))) := by
  constructor
  · intro hd
    rcases Nat.eq_zero_or_pos (l + l') with h0 | h0
    · exact ⟨by omega, Or.inl (by omega)⟩
    · have hd' : (N : ℤ) ∣ (l : ℤ) + 1 * (l' : ℤ) - (N : ℤ) := Dvd.dvd.sub hd (dvd_refl _)
      have := Int.eq_zero_of_abs_lt_dvd hd' (by rw [abs_lt]; constructor <;> omega)
      exact ⟨by omega, Or.inr ⟨by omega, by omega⟩⟩
  · rintro ⟨rfl, h | ⟨h1, h2⟩⟩
    · subst h; simp
    · refine ⟨1, ?_⟩
      have : (l' : ℤ) + (l' : ℤ) = (N : ℤ) := by omega
      linear_combination this

/-- the stored index of the conjugate wavenumber `(−k₀, k₁)` -/
def sigma (N h : ℕ) : ℕ := sigA N (h / (N / 2 + 1)) * (N / 2 + 1) + h % (N / 2 + 1)

theorem sigma_div (N h : ℕ) : sigma N h / (N / 2 + 1) = sigA N (h / (N / 2 + 1)) := by
  unfold sigma
  rw [show sigA N (h / (N / 2 + 1)) * (N / 2 + 1) + h % (N / 2 + 1)
      = h % (N / 2 + 1) + (N / 2 + 1) * sigA N (h / (N / 2 + 1)) by ring,
    Nat.add_mul_div_left _ _ (by omega), Nat.div_eq_of_lt (Nat.mod_lt _ (by omega)), zero_add]

theorem sigma_mod (N h : ℕ) : sigma N h % (N / 2 + 1) = h % (N / 2 + 1) := by
  unfold sigma
  rw [show sigA N (h / (N / 2 + 1)) * (N / 2 + 1) + h % (N / 2 + 1)
      = h % (N / 2 + 1) + (N / 2 + 1) * sigA N (h / (N / 2 + 1)) by ring,
    Nat.add_mul_mod_self_left, Nat.mod_mod]

theorem sigma_lt (N h : ℕ) (hN : 0 < N) : sigma N h < N * (N / 2 + 1) := by
  unfold sigma
  have h1 := sigA_lt N (h / (N / 2 + 1)) hN
  have h2 : h % (N / 2 + 1) < N / 2 + 1 := Nat.mod_lt _ (by omega)
  calc sigA N (h / (N / 2 + 1)) * (N / 2 + 1) + h % (N / 2 + 1)
      < sigA N (h / (N / 2 + 1)) * (N / 2 + 1) + (N / 2 + 1) := by omega
    _ = (sigA N (h / (N / 2 + 1)) + 1) * (N / 2 + 1) := by ring
    _ ≤ N * (N / 2 + 1) := Nat.mul_le_mul_right _ h1

theorem eq_of_div_mod (n h h' : ℕ) (hd : h' / n = h / n) (hm : h' % n = h % n) : h' = h := by
  rw [← Nat.div_add_mod h n, ← Nat.div_add_mod h' n, hd, hm]

theorem sigma_sigma (N h : ℕ) (hh : h < N * (N / 2 + 1)) : sigma N (sigma N h) = h := by
  have ha : h / (N / 2 + 1) < N := Nat.div_lt_of_lt_mul (by rw [mul_comm]; exact hh)
  apply eq_of_div_mod (N / 2 + 1)
  · rw [sigma_div, sigma_div, sigA_sigA N _ ha]
  · rw [sigma_mod, sigma_mod]

theorem ite_mul_ite_zero (p q : Prop) [Decidable p] [Decidable q] (x y : ℂ) (h : ¬ (p ∧ q)) :
    (if p then x else 0) * (if q then y else 0) = 0 := by
  by_cases hp : p <;> by_cases hq : q <;> simp_all

theorem re_term (N : ℕ) (w G c : ℂ) (E E' : ℤ) :
    w * (((c * zeta N ^ (-E')).re : ℝ) : ℂ) * zeta N ^ E / G
      = w / 2 / G * (c * zeta N ^ (E + (-1) * E') + (starRingEnd ℂ) c * zeta N ^ (E + 1 * E')) := by
  rw [Complex.re_eq_add_conj, map_mul, conj_zeta_zpow, neg_neg,
    show E + (-1) * E' = -E' + E by ring, show E + 1 * E' = E' + E by ring,
    zpow_add₀ (zeta_ne_zero N), zpow_add₀ (zeta_ne_zero N)]
  ring

/-- **`rfftn ∘ irfftn` in 2-D, any stored half spectrum `C`.**  Off the self-conjugate columns
    (`w = 2`) the stored coefficient comes back; on them (`w = 1`: last-axis DC and Nyquist) the
    c2r transform has kept only the Hermitian part `(C_h + conj C_{σh})/2`, `σh` the stored index
    of the conjugate wavenumber. -/
theorem rfftn_irfftn_2d (N : ℕ) (hN : 0 < N) (C : Array ℂ) (h : ℕ) (hh : h < N * (N / 2 + 1)) :
    (rfftnM (1 + 1) N (irfftnM (1 + 1) N C)).getD h 0
      = ((herm_weight 1 N (h % (N / 2 + 1)) : ℂ) / 2) * C.getD h 0
        + ((2 - (herm_weight 1 N (h % (N / 2 + 1)) : ℂ)) / 2)
            * (starRingEnd ℂ) (C.getD (sigma N h) 0) := by
  have hM : h < numModes (1 + 1) N := by rw [numModes_succ, pow_one]; exact hh
  have ha : h / (N / 2 + 1) < N := Nat.div_lt_of_lt_mul (by rw [mul_comm]; exact hh)
  have hl : h % (N / 2 + 1) < N / 2 + 1 := Nat.mod_lt _ (by omega)
  have hNne : (N : ℂ) ≠ 0 := by exact_mod_cast hN.ne'
  rw [rfftn_getD 1 N hN _ h hM, dftn]
  have hterm : ∀ J ∈ range (N ^ (1 + 1)),
      (irfftnM (1 + 1) N C).getD J 0 * zeta N ^ (dotPhase 1 N (h / (N / 2 + 1)) (J / N)
          + ((h % (N / 2 + 1) : ℕ) : ℤ) * ((J % N : ℕ) : ℤ))
        = ∑ h' ∈ range (N ^ 1 * (N / 2 + 1)),
            ((herm_weight 1 N (h' % (N / 2 + 1)) : ℂ) / 2) / ((N ^ (1 + 1) : ℕ) : ℂ) *
            (C.getD h' 0 * zeta N ^ (phi2 N (h / (N / 2 + 1)) (h % (N / 2 + 1)) J
                + (-1) * phi2 N (h' / (N / 2 + 1)) (h' % (N / 2 + 1)) J)
              + (starRingEnd ℂ) (C.getD h' 0) * zeta N ^ (phi2 N (h / (N / 2 + 1)) (h % (N / 2 + 1)) J
                + 1 * phi2 N (h' / (N / 2 + 1)) (h' % (N / 2 + 1)) J)) := by
    intro J hJ
    rw [irfftn_getD 1 N hN C J (Finset.mem_range.mp hJ), div_mul_eq_mul_div, Finset.sum_mul,
      Finset.sum_div]
    apply Finset.sum_congr rfl
    intro h' _
    exact re_term N _ _ _ _ _
  rw [Finset.sum_congr rfl hterm, Finset.sum_comm]
  have hper : ∀ h' ∈ range (N ^ 1 * (N / 2 + 1)),
      ∑ J ∈ range (N ^ (1 + 1)),
          ((herm_weight 1 N (h' % (N / 2 + 1)) : ℂ) / 2) / ((N ^ (1 + 1) : ℕ) : ℂ) *
            (C.getD h' 0 * zeta N ^ (phi2 N (h / (N / 2 + 1)) (h % (N / 2 + 1)) J
                + (-1) * phi2 N (h' / (N / 2 + 1)) (h' % (N / 2 + 1)) J)
              + (starRingEnd ℂ) (C.getD h' 0) * zeta N ^ (phi2 N (h / (N / 2 + 1)) (h % (N / 2 + 1)) J
                + 1 * phi2 N (h' / (N / 2 + 1)) (h' % (N / 2 + 1)) J))
        = ((herm_weight 1 N (h' % (N / 2 + 1)) : ℂ) / 2) / ((N ^ (1 + 1) : ℕ) : ℂ) *
            (C.getD h' 0 *
              ((if (N : ℤ) ∣ ((h / (N / 2 + 1) : ℕ) : ℤ) + (-1) * ((h' / (N / 2 + 1) : ℕ) : ℤ)
                  then (N : ℂ) else 0)
                * (if (N : ℤ) ∣ ((h % (N / 2 + 1) : ℕ) : ℤ) + (-1) * ((h' % (N / 2 + 1) : ℕ) : ℤ)
                  then (N : ℂ) else 0)))
          + ((herm_weight 1 N (h' % (N / 2 + 1)) : ℂ) / 2) / ((N ^ (1 + 1) : ℕ) : ℂ) *
            ((starRingEnd ℂ) (C.getD h' 0) *
              ((if (N : ℤ) ∣ ((h / (N / 2 + 1) : ℕ) : ℤ) + 1 * ((h' / (N / 2 + 1) : ℕ) : ℤ)
                  then (N : ℂ) else 0)
                * (if (N : ℤ) ∣ ((h % (N / 2 + 1) : ℕ) : ℤ) + 1 * ((h' % (N / 2 + 1) : ℕ) : ℤ)
                  then (N : ℂ) else 0))) := by
    intro h' hh'
    have ha' : h' / (N / 2 + 1) < N :=
      Nat.div_lt_of_lt_mul (by
        have := Finset.mem_range.mp hh'; rw [pow_one] at this; rw [mul_comm]; exact this)
    rw [← Finset.mul_sum, Finset.sum_add_distrib, ← Finset.mul_sum, ← Finset.mul_sum,
      sum_zeta_phi2 N hN, sum_zeta_phi2 N hN, Nat.mod_eq_of_lt ha, Nat.mod_eq_of_lt ha', mul_add]
  rw [Finset.sum_congr rfl hper, Finset.sum_add_distrib]
  -- the direct term: only `h' = h`
  have h1 : ∑ h' ∈ range (N ^ 1 * (N / 2 + 1)),
        ((herm_weight 1 N (h' % (N / 2 + 1)) : ℂ) / 2) / ((N ^ (1 + 1) : ℕ) : ℂ) *
            (C.getD h' 0 *
              ((if (N : ℤ) ∣ ((h / (N / 2 + 1) : ℕ) : ℤ) + (-1) * ((h' / (N / 2 + 1) : ℕ) : ℤ)
                  then (N : ℂ) else 0)
                * (if (N : ℤ) ∣ ((h % (N / 2 + 1) : ℕ) : ℤ) + (-1) * ((h' % (N / 2 + 1) : ℕ) : ℤ)
                  then (N : ℂ) else 0)))
      = ((herm_weight 1 N (h % (N / 2 + 1)) : ℂ) / 2) * C.getD h 0 := by
    rw [Finset.sum_eq_single_of_mem h (by rw [pow_one]; exact Finset.mem_range.mpr hh)]
    · rw [if_pos ((dvd_sub_iff_eq N _ _ ha ha).mpr rfl),
        if_pos ((dvd_sub_iff_eq N _ _ (by omega) (by omega)).mpr rfl)]
      push_cast
      field_simp
    · intro h' hh' hne
      have ha' : h' / (N / 2 + 1) < N :=
        Nat.div_lt_of_lt_mul (by
        have := Finset.mem_range.mp hh'; rw [pow_one] at this; rw [mul_comm]; exact this)
      have hl' : h' % (N / 2 + 1) < N / 2 + 1 := Nat.mod_lt _ (by omega)
      rw [ite_mul_ite_zero, mul_zero, mul_zero]
      rintro ⟨ca, cl⟩
      apply hne
      exact eq_of_div_mod (N / 2 + 1) h h'
        ((dvd_sub_iff_eq N _ _ ha ha').mp ca).symm
        ((dvd_sub_iff_eq N _ _ (by omega) (by omega)).mp cl).symm
  -- the conjugate term: only `h' = σh`, and only on the self-conjugate columns
  have h2 : ∑ h' ∈ range (N ^ 1 * (N / 2 + 1)),
        ((herm_weight 1 N (h' % (N / 2 + 1)) : ℂ) / 2) / ((N ^ (1 + 1) : ℕ) : ℂ) *
            ((starRingEnd ℂ) (C.getD h' 0) *
              ((if (N : ℤ) ∣ ((h / (N / 2 + 1) : ℕ) : ℤ) + 1 * ((h' / (N / 2 + 1) : ℕ) : ℤ)
                  then (N : ℂ) else 0)
                * (if (N : ℤ) ∣ ((h % (N / 2 + 1) : ℕ) : ℤ) + 1 * ((h' % (N / 2 + 1) : ℕ) : ℤ)
                  then (N : ℂ) else 0)))
      = ((2 - (herm_weight 1 N (h % (N / 2 + 1)) : ℂ)) / 2)
            * (starRingEnd ℂ) (C.getD (sigma N h) 0) := by
    by_cases sp : h % (N / 2 + 1) = 0 ∨ (N % 2 = 0 ∧ h % (N / 2 + 1) = N / 2)
    · rw [Finset.sum_eq_single_of_mem (sigma N h)
        (by rw [pow_one]; exact Finset.mem_range.mpr (sigma_lt N h hN))]
      · rw [sigma_div, sigma_mod,
          if_pos ((dvd_add_iff_sigA N _ _ hN ha (sigA_lt N _ hN)).mpr rfl),
          if_pos ((dvd_last_add_iff N _ _ hN (by omega) (by omega)).mpr ⟨rfl, sp⟩),
          herm_weight_one, if_pos sp]
        push_cast
        field_simp
        ring
      · intro h' hh' hne
        have ha' : h' / (N / 2 + 1) < N :=
          Nat.div_lt_of_lt_mul (by
        have := Finset.mem_range.mp hh'; rw [pow_one] at this; rw [mul_comm]; exact this)
        have hl' : h' % (N / 2 + 1) < N / 2 + 1 := Nat.mod_lt _ (by omega)
        rw [ite_mul_ite_zero, mul_zero, mul_zero]
        rintro ⟨ca, cl⟩
        apply hne
        apply eq_of_div_mod (N / 2 + 1)
        · rw [sigma_div]; exact (dvd_add_iff_sigA N _ _ hN ha ha').mp ca
        · rw [sigma_mod]; exact ((dvd_last_add_iff N _ _ hN (by omega) (by omega)).mp cl).1
    · rw [herm_weight_one, if_neg sp]
      rw [Finset.sum_eq_zero]
      · push_cast; ring
      · intro h' hh'
        have hl' : h' % (N / 2 + 1) < N / 2 + 1 := Nat.mod_lt _ (by omega)
        rw [ite_mul_ite_zero, mul_zero, mul_zero]
        rintro ⟨_, cl⟩
        exact sp ((dvd_last_add_iff N _ _ hN (by omega) (by omega)).mp cl).2
  rw [h1, h2]

theorem rfftn_irfftn_2d' (N : ℕ) (hN : 0 < N) (C : Array ℂ) (h : ℕ) (hh : h < N * (N / 2 + 1)) :
    (rfftnM 2 N (irfftnM 2 N C)).getD h 0
      = ((herm_weight 1 N (h % (N / 2 + 1)) : ℂ) / 2) * C.getD h 0
        + ((2 - (herm_weight 1 N (h % (N / 2 + 1)) : ℂ)) / 2)
            * (starRingEnd ℂ) (C.getD (sigma N h) 0) :=
  rfftn_irfftn_2d N hN C h hh

theorem numModes_two (N : ℕ) : numModes 2 N = N * (N / 2 + 1) := by
  rw [show (2 : ℕ) = 1 + 1 from rfl, numModes_succ, pow_one]

theorem herm_weight_two (N h : ℕ) (hh : h < N * (N / 2 + 1)) :
    herm_weight 2 N h = herm_weight 1 N (h % (N / 2 + 1)) :=
  herm_weight_succ 1 N h (by rw [numModes_succ, pow_one]; exact hh)

/-! ### C. the abstract cancellation: two products of c2r fields -/

/-- If mode by mode `A_U·conj C_X + A_V·conj C_Y = 0` and the conjugate-pair terms are odd under
    `h ↦ σh`, the grid sum `Σ_J (u·w_x + v·w_y)_J` of the four c2r fields vanishes — for ARBITRARY
    (not necessarily Hermitian) stored spectra. -/
theorem mean_pair_cancel (N : ℕ) (hN : 0 < N) (AU AV CX CY : ℕ → ℂ)
    (hcore : ∀ h, h < N * (N / 2 + 1) →
      AU h * (starRingEnd ℂ) (CX h) + AV h * (starRingEnd ℂ) (CY h) = 0)
    (hT : ∀ h, h < N * (N / 2 + 1) →
      AU (sigma N h) * CX h + AV (sigma N h) * CY h
        = -(AU h * CX (sigma N h) + AV h * CY (sigma N h))) :
    ∑ J ∈ range (N ^ 2),
      ((irfftnM 2 N (tab (N * (N / 2 + 1)) AU)).getD J 0 * (irfftnM 2 N (tab (N * (N / 2 + 1)) CX)).getD J 0
        + (irfftnM 2 N (tab (N * (N / 2 + 1)) AV)).getD J 0
            * (irfftnM 2 N (tab (N * (N / 2 + 1)) CY)).getD J 0) = 0 := by
  have hGne : ((N ^ 2 : ℕ) : ℂ) ≠ 0 := by exact_mod_cast (pow_pos hN 2).ne'
  rw [Finset.sum_add_distrib]
  have e1 : ∀ (A B : Array ℂ), ∑ J ∈ range (N ^ 2), (irfftnM 2 N A).getD J 0 * (irfftnM 2 N B).getD J 0
      = ∑ J ∈ range (N ^ 2), (irfftnM 2 N B).getD J 0 * (irfftnM 2 N A).getD J 0 :=
    fun A B => Finset.sum_congr rfl (fun J _ => mul_comm _ _)
  rw [e1 (tab (N * (N / 2 + 1)) AU), e1 (tab (N * (N / 2 + 1)) AV),
    real_inner_irfftn 2 N hN _ _ (irfftnM_real 2 N hN _),
    real_inner_irfftn 2 N hN _ _ (irfftnM_real 2 N hN _), ← add_div, ← Complex.ofReal_add,
    ← Finset.sum_add_distrib, numModes_two]
  -- per stored mode
  have hmode : ∀ h ∈ range (N * (N / 2 + 1)),
      (herm_weight 2 N h : ℝ) * ((tab (N * (N / 2 + 1)) AU).getD h 0 * (starRingEnd ℂ)
          ((rfftnM 2 N (irfftnM 2 N (tab (N * (N / 2 + 1)) CX))).getD h 0)).re
        + (herm_weight 2 N h : ℝ) * ((tab (N * (N / 2 + 1)) AV).getD h 0 * (starRingEnd ℂ)
          ((rfftnM 2 N (irfftnM 2 N (tab (N * (N / 2 + 1)) CY))).getD h 0)).re
      = ((herm_weight 1 N (h % (N / 2 + 1)) : ℝ) * ((2 - (herm_weight 1 N (h % (N / 2 + 1)) : ℝ)) / 2))
          * (AU h * CX (sigma N h) + AV h * CY (sigma N h)).re := by
    intro h hh
    have hh' := Finset.mem_range.mp hh
    have hs' := sigma_lt N h hN
    rw [rfftn_irfftn_2d' N hN _ h hh', rfftn_irfftn_2d' N hN _ h hh', herm_weight_two N h hh',
      DFT.tab_getD _ _ _ _ hh', DFT.tab_getD _ _ _ _ hh', DFT.tab_getD _ _ _ _ hh',
      DFT.tab_getD _ _ _ _ hh', DFT.tab_getD _ _ _ _ hs', DFT.tab_getD _ _ _ _ hs',
      ← mul_add, ← Complex.add_re]
    have hw : (starRingEnd ℂ) ((herm_weight 1 N (h % (N / 2 + 1)) : ℕ) : ℂ)
        = ((herm_weight 1 N (h % (N / 2 + 1)) : ℕ) : ℂ) := map_natCast _ _
    have key : AU h * (starRingEnd ℂ) (((herm_weight 1 N (h % (N / 2 + 1)) : ℕ) : ℂ) / 2 * CX h
            + (2 - ((herm_weight 1 N (h % (N / 2 + 1)) : ℕ) : ℂ)) / 2 * (starRingEnd ℂ) (CX (sigma N h)))
          + AV h * (starRingEnd ℂ) (((herm_weight 1 N (h % (N / 2 + 1)) : ℕ) : ℂ) / 2 * CY h
            + (2 - ((herm_weight 1 N (h % (N / 2 + 1)) : ℕ) : ℂ)) / 2 * (starRingEnd ℂ) (CY (sigma N h)))
        = (((2 - (herm_weight 1 N (h % (N / 2 + 1)) : ℝ)) / 2 : ℝ) : ℂ)
            * (AU h * CX (sigma N h) + AV h * CY (sigma N h)) := by
      simp only [map_add, map_mul, map_sub, map_div₀, hw, Complex.conj_conj, map_ofNat]
      push_cast
      linear_combination (((herm_weight 1 N (h % (N / 2 + 1)) : ℕ) : ℂ) / 2) * hcore h hh'
    rw [key, Complex.re_ofReal_mul]
    ring
  rw [Finset.sum_congr rfl hmode]
  -- the conjugate-pair terms cancel under the involution σ
  set g : ℕ → ℝ := fun h => (herm_weight 1 N (h % (N / 2 + 1)) : ℝ)
    * ((2 - (herm_weight 1 N (h % (N / 2 + 1)) : ℝ)) / 2) with hg
  set T : ℕ → ℂ := fun h => AU h * CX (sigma N h) + AV h * CY (sigma N h) with hTdef
  have hrefl : ∑ h ∈ range (N * (N / 2 + 1)), g h * (T h).re
      = ∑ h ∈ range (N * (N / 2 + 1)), g (sigma N h) * (T (sigma N h)).re := by
    apply Finset.sum_nbij' (sigma N) (sigma N)
    · intro h _; exact Finset.mem_range.mpr (sigma_lt N h hN)
    · intro h _; exact Finset.mem_range.mpr (sigma_lt N h hN)
    · intro h hh; exact sigma_sigma N h (Finset.mem_range.mp hh)
    · intro h hh; exact sigma_sigma N h (Finset.mem_range.mp hh)
    · intro h hh; rw [sigma_sigma N h (Finset.mem_range.mp hh)]
  have hneg : ∑ h ∈ range (N * (N / 2 + 1)), g (sigma N h) * (T (sigma N h)).re
      = -∑ h ∈ range (N * (N / 2 + 1)), g h * (T h).re := by
    rw [← Finset.sum_neg_distrib]
    apply Finset.sum_congr rfl
    intro h hh
    have hh' := Finset.mem_range.mp hh
    have e1 : g (sigma N h) = g h := by simp only [hg, sigma_mod]
    have e2 : T (sigma N h) = -T h := by
      simp only [hTdef]
      rw [sigma_sigma N h hh']
      exact hT h hh'
    rw [e1, e2, Complex.neg_re]
    ring
  have hzero : ∑ h ∈ range (N * (N / 2 + 1)), g h * (T h).re = 0 := by linarith
  rw [hzero]
  simp

/-! ### D. the symbols under the reflection `σ` -/

theorem fftfreq_sigA (N a : ℕ) (ha : a < N) :
    fftfreq N (sigA N a) = -fftfreq N a ∨ fftfreq N (sigA N a) = fftfreq N a := by
  rcases Nat.eq_zero_or_pos a with h0 | h0
  · subst h0; rw [sigA_zero]; right; rfl
  · rw [sigA_pos N a h0 ha]
    unfold fftfreq
    split_ifs <;> first | (left; push_cast [Nat.cast_sub ha.le]; omega) | (right; push_cast [Nat.cast_sub ha.le]; omega)

/-- the two wavenumbers of a stored 2-D mode -/
theorem kInt_two (c : Cfg ℂ) (hD : c.D = 2) (h : ℕ) (hh : h < c.N * (c.N / 2 + 1)) :
    kInt c 0 h = fftfreq c.N (h / (c.N / 2 + 1)) ∧ kInt c 1 h = ((h % (c.N / 2 + 1) : ℕ) : ℤ) := by
  obtain ⟨D, N, s, fp, fq⟩ := c
  simp only at hD hh ⊢
  subst hD
  have ha : h / (N / 2 + 1) < N := Nat.div_lt_of_lt_mul (by rw [mul_comm]; exact hh)
  have hh1 : h < N ^ 1 * (N / 2 + 1) := by rw [pow_one]; exact hh
  unfold kInt
  simp only []
  constructor
  · rw [DFT.wnFlat_getD 2 N h 0 (by norm_num), wn_leading 2 N _ 0 (by norm_num),
      show (2 : ℕ) = 1 + 1 from rfl, wavenumberShape_succ,
      unflatten_rep_getD_lt N (N / 2 + 1) 1 h 0 (by norm_num) hh1]
    simp only [Nat.sub_self, pow_zero, one_mul]
    rw [Nat.mod_eq_of_lt ha]
  · rw [DFT.wnFlat_getD 2 N h 1 (by norm_num), wn_last 2 N _ 1 (by norm_num),
      show (2 : ℕ) = 1 + 1 from rfl, wavenumberShape_succ,
      unflatten_rep_getD_last N (N / 2 + 1) 1 h hh1]

/-- the guarded inverse Laplacian is even under `k ↦ −k` -/
theorem invLapOne_sigma (c : Cfg ℂ) (hD : c.D = 2) (hN : 0 < c.N) (h : ℕ)
    (hh : h < c.N * (c.N / 2 + 1)) : invLapOne c (sigma c.N h) = invLapOne c h := by
  have hs' := sigma_lt c.N h hN
  have ha : h / (c.N / 2 + 1) < c.N := Nat.div_lt_of_lt_mul (by rw [mul_comm]; exact hh)
  obtain ⟨k0, k1⟩ := kInt_two c hD h hh
  obtain ⟨k0', k1'⟩ := kInt_two c hD (sigma c.N h) hs'
  rw [sigma_div] at k0'
  rw [sigma_mod] at k1'
  have hl : laplace c 2 (sigma c.N h) = laplace c 2 h := by
    rw [laplace_two_eq, laplace_two_eq]
    congr 3
    unfold kSq
    rw [hD, Finset.sum_range_succ, Finset.sum_range_one, Finset.sum_range_succ, Finset.sum_range_one,
      k0, k1, k0', k1']
    rcases fftfreq_sigA c.N _ ha with e | e <;> (rw [e]; try ring)
  rw [invLapOne_eq, invLapOne_eq, hl]

/-! ### E. K1 (f), full -/

/-- **K1(f), full.**  `VorticityConvection2d` without injection has no mean: for EVERY input
    spectrum `ûh` (Hermitian or not), every `N ≥ 1`, every dealiasing setting (including none),
    real `s`:  the stored mean mode of `−b·fft(u ω_x + v ω_y)` is exactly `0`. -/
theorem vorticity2d_mean (c : Cfg ℂ) (hD : c.D = 2) (hN : 0 < c.N) (s : ℝ) (hs : c.s = (s : ℂ))
    (scale : ℂ) (uh : MC ℂ) : at2 (vorticity2d c scale none uh) 0 0 = 0 := by
  obtain ⟨uH, vH, wxH, wyH, hout, huH, hvH, hwxH, hwyH⟩ := vorticity2d_spec c scale uh
  obtain ⟨e, he, he0, -⟩ := hout none 0 (modes_pos c hN)
  rw [he, he0 rfl, add_zero, nfft_zero_mode c hN]
  have hM : modes c = c.N * (c.N / 2 + 1) := by unfold modes; rw [hD, numModes_two]
  have hG : gridSize c = c.N ^ 2 := by unfold gridSize; rw [hD]
  -- the four masked spectra as functions of the stored index
  set AU : ℕ → ℂ := fun h => mask c h * (deriv c 1 h * (invLapOne c h * at2 uh 0 h)) with hAU
  set AV : ℕ → ℂ := fun h => mask c h * (-(deriv c 0 h) * (invLapOne c h * at2 uh 0 h)) with hAV
  set CX : ℕ → ℂ := fun h => mask c h * (deriv c 0 h * at2 uh 0 h) with hCX
  set CY : ℕ → ℂ := fun h => mask c h * (deriv c 1 h * at2 uh 0 h) with hCY
  have eU : nifft c uH = irfftnM 2 c.N (tab (c.N * (c.N / 2 + 1)) AU) := by
    unfold nifft; rw [hD, hM]
    congr 1
    exact Nonlin.tab_congr _ _ _ (fun i hi => by rw [huH i (by rw [hM]; exact hi)])
  have eV : nifft c vH = irfftnM 2 c.N (tab (c.N * (c.N / 2 + 1)) AV) := by
    unfold nifft; rw [hD, hM]
    congr 1
    exact Nonlin.tab_congr _ _ _ (fun i hi => by rw [hvH i (by rw [hM]; exact hi)])
  have eX : nifft c wxH = irfftnM 2 c.N (tab (c.N * (c.N / 2 + 1)) CX) := by
    unfold nifft; rw [hD, hM]
    congr 1
    exact Nonlin.tab_congr _ _ _ (fun i hi => by rw [hwxH i (by rw [hM]; exact hi)])
  have eY : nifft c wyH = irfftnM 2 c.N (tab (c.N * (c.N / 2 + 1)) CY) := by
    unfold nifft; rw [hD, hM]
    congr 1
    exact Nonlin.tab_congr _ _ _ (fun i hi => by rw [hwyH i (by rw [hM]; exact hi)])
  have hsum : ∑ j ∈ range (gridSize c),
        (tab (gridSize c) fun x => (nifft c uH).getD x 0 * (nifft c wxH).getD x 0
          + (nifft c vH).getD x 0 * (nifft c wyH).getD x 0).getD j 0 = 0 := by
    have : ∀ j ∈ range (gridSize c),
        (tab (gridSize c) fun x => (nifft c uH).getD x 0 * (nifft c wxH).getD x 0
          + (nifft c vH).getD x 0 * (nifft c wyH).getD x 0).getD j 0
        = (irfftnM 2 c.N (tab (c.N * (c.N / 2 + 1)) AU)).getD j 0
            * (irfftnM 2 c.N (tab (c.N * (c.N / 2 + 1)) CX)).getD j 0
          + (irfftnM 2 c.N (tab (c.N * (c.N / 2 + 1)) AV)).getD j 0
            * (irfftnM 2 c.N (tab (c.N * (c.N / 2 + 1)) CY)).getD j 0 := by
      intro j hj
      rw [DFT.tab_getD _ _ _ _ (Finset.mem_range.mp hj), eU, eV, eX, eY]
    rw [Finset.sum_congr rfl this, hG]
    apply mean_pair_cancel c.N hN AU AV CX CY
    · intro h hh
      exact vorticity2d_mean_spectral c s hs h (mask c h) (invLapOne c h * at2 uh 0 h) (at2 uh 0 h)
    · intro h hh
      simp only [hAU, hAV, hCX, hCY]
      rw [invLapOne_sigma c hD hN h hh]
      ring
  rw [hsum]
  ring

/-- the same with the Kolmogorov injection switched on: the forcing lives on the modes
    `k = (0, m)` and is proportional to `k₁`, so it never touches the mean mode -/
theorem vorticity2d_mean_inj (c : Cfg ℂ) (hD : c.D = 2) (hN : 0 < c.N) (s : ℝ) (hs : c.s = (s : ℂ))
    (scale : ℂ) (inj : Option (ℕ × ℂ)) (uh : MC ℂ) :
    at2 (vorticity2d c scale inj uh) 0 0 = 0 := by
  have hnone := vorticity2d_mean c hD hN s hs scale uh
  obtain ⟨uH, vH, wxH, wyH, hout, -, -, -, -⟩ := vorticity2d_spec c scale uh
  obtain ⟨e0, he0, hz0, -⟩ := hout none 0 (modes_pos c hN)
  obtain ⟨e, he, hz, hsome⟩ := hout inj 0 (modes_pos c hN)
  rw [he0, hz0 rfl, add_zero] at hnone
  rw [he, hnone, zero_add]
  cases inj with
  | none => exact hz rfl
  | some mg =>
    obtain ⟨m, gam⟩ := mg
    rw [hsome m gam rfl, kInt_zero_mode c 1]
    split_ifs <;> simp

end Exponax.Conserve
