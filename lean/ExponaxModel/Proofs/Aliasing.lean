import ExponaxModel.Proofs.AliasConv
import ExponaxModel.Proofs.AliasMask
import ExponaxModel.Proofs.AliasNonlin
import ExponaxModel.Proofs.AliasMore
/-
Entry point for property C03 — "the pseudo-spectral nonlinear terms return the Fourier coefficients
of the documented operator applied to the band-truncated state, computed WITHOUT ALIASING ERROR on
the retained band, and zero outside it" — 1-D core, about `Model/Nonlin.lean` at `K := ℂ`.

  * `AliasConv`   : A1 `dft_mul` (circular convolution), A2 `dft_mul3`, A3 `BandLimited`,
                    `dft_mul_no_alias(')`, `dft_mul3_no_alias(')`, `band_no_alias_quadratic/cubic`,
                    trigonometric-polynomial interpretation (`sum_trunc_conv_eq_mul`, `bandLimited_grid`)
  * `AliasMask`   : A4 `mask_one_eq`, `mask_one`, `Kc`, `Kc_two_thirds`, `Kc_half`, `Kc_two_lt`,
                    `Kc_mono`, `Kc_of_effective` (effective / float-derived fractions);
                    A5 `dft_irfft`, `nifft_bandLimited`, `dft_nifft_band`, `dft_nifft_rfft(_off)`
  * `AliasNonlin` : A6 `convection_one_readoff`, `convection_one_alias_free(')`;
                    A7 `polynomial_quadratic_alias_free`, `polynomial_cubic_alias_free`,
                    `*_zero_off_band` (any `D`, any channel count)
  * `AliasMore`   : `nifft_rfft_grid`, `dft_nifft_deriv`, non-conservative convection,
                    gradient norm, the multi-channel code paths with one channel, Cahn–Hilliard
-/
