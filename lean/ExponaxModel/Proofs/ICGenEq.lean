import Mathlib.Tactic
import Mathlib.Analysis.SpecialFunctions.Pow.Real
import ExponaxModel.Proofs.GenPreludeLemmas
import ExponaxModel.Proofs.GenInstances
import ExponaxModel.Model.IC
import ExponaxModel.Generated.ICGen
/-
The definitions regenerated from `exponax/ic/*.py` (`Generated/ICGen.lean`) are equal to the hand-written model
(`Model/IC.lean`).  The equalities are stated over an arbitrary scalar type with the few laws they need spelled
out as hypotheses (`AbsLaw`, `ShiftLaw`, `MaskLaw`, commutativity), and then instantiated at `ℝ` / `ℂ`.
-/
set_option linter.unusedVariables false
set_option linter.unusedSectionVars false
namespace Exponax.Gen.ICGen
open Exponax Exponax.Layout Exponax.Transform Exponax.DFT Exponax.Gen Exponax.Gen.Prelude

/-- the list of regenerated functions / methods is the one this file has theorems for -/
theorem generated_ic_pinned : generated_ic =
    ["normalize_ic", "ClampingICGenerator.__call__", "ScaledIC.__call__", "ScaledICGenerator.__call__",
     "RandomTruncatedFourierSeries.__call__"] := rfl

section
variable {K : Type} [Add K] [Sub K] [Mul K] [Div K] [Neg K] [Zero K] [One K] [NatCast K] [IntCast K]
  [HasSqrt K] [HasAbs K] [HasLtB K]

/-! ### the `jnp` reductions of the prelude are the model's -/

theorem jnp_mean_eq (u : Array K) : jnp_mean u = IC.mean u := by
  unfold jnp_mean IC.mean
  rw [sumRange_size_getD u 0 (fun x => x), List.map_id']

theorem jnp_std_eq (u : Array K) : jnp_std u = IC.std u := by
  unfold jnp_std IC.std
  simp only [jnp_mean_eq]
  rw [sumRange_size_getD u 0 (fun x => (x - IC.mean u) * (x - IC.mean u))]

theorem jnp_max_eq (u : Array K) : jnp_max u = IC.maxOf u := rfl
theorem jnp_min_eq (u : Array K) : jnp_min u = IC.minOf u := rfl

/-- the only fact about `<` and `|·|` that `normalize_ic` needs: a modulus that is not `> 0` is `0` -/
def AbsLaw (K : Type) [Zero K] [HasAbs K] [HasLtB K] : Prop :=
  ∀ x : K, HasLtB.ltb (0 : K) (HasAbs.abs x) = false → HasAbs.abs x = 0

/-- `jnp.max(jnp.abs(u))` (fold started at the first entry) is the model's `maxAbs` (fold started at `0`) -/
theorem jnp_max_abs_eq (hlaw : AbsLaw K) (u : Array K) :
    jnp_max (tab u.size (fun j => HasAbs.abs (u.getD j 0))) = IC.maxAbs u := by
  rw [tab_size_getD_eq_map u 0 (fun x => HasAbs.abs x)]
  unfold jnp_max IC.maxAbs
  rw [Array.toList_map]
  rcases u with ⟨l⟩
  cases l with
  | nil => simp [Array.getD]
  | cons x xs =>
    have h0 : (Array.map (fun x => HasAbs.abs x) ⟨x :: xs⟩).getD 0 0 = HasAbs.abs x := by
      simp [Array.getD]
    rw [h0]
    simp only [List.map_cons, List.foldl_cons]
    have h1 : (if HasLtB.ltb (HasAbs.abs x) (HasAbs.abs x) = true then HasAbs.abs x else HasAbs.abs x)
        = HasAbs.abs x := by split_ifs <;> rfl
    have h2 : (if HasLtB.ltb (0 : K) (HasAbs.abs x) = true then HasAbs.abs x else 0) = HasAbs.abs x := by
      by_cases h : HasLtB.ltb (0 : K) (HasAbs.abs x) = true
      · rw [if_pos h]
      · rw [if_neg h, hlaw x (by simpa using h)]
    rw [h1, h2, List.foldl_map]

theorem tab_sub_const (u : Array K) (c : K) : tab u.size (fun j => u.getD j 0 - c) = u.map (fun x => x - c) :=
  tab_size_getD_eq_map u 0 (fun x => x - c)
theorem tab_div_const (u : Array K) (c : K) : tab u.size (fun j => u.getD j 0 / c) = u.map (fun x => x / c) :=
  tab_size_getD_eq_map u 0 (fun x => x / c)

/-- **`normalize_ic`** -/
theorem normalize_ic_eq (hlaw : AbsLaw K) (u : Array K) (zm so mo : Bool) :
    normalize_ic u zm so mo = IC.normalizeIc zm so mo u := by
  unfold normalize_ic IC.normalizeIc
  simp only [jnp_mean_eq, jnp_std_eq, jnp_max_abs_eq hlaw]
  cases zm <;> cases so <;> cases mo <;>
    simp only [Bool.false_eq_true, if_false, if_true, tab_sub_const, tab_div_const]

/-! ### `ClampingICGenerator.__call__` -/

/-- `<` is invariant under a common shift -/
def ShiftLaw (K : Type) [Sub K] [HasLtB K] : Prop :=
  ∀ a b c : K, HasLtB.ltb (a - c) (b - c) = HasLtB.ltb a b

theorem foldl_max_shift (hs : ShiftLaw K) (c : K) (l : List K) (i : K) :
    (l.map (fun x => x - c)).foldl (fun acc a => if HasLtB.ltb acc a then a else acc) (i - c)
      = l.foldl (fun acc a => if HasLtB.ltb acc a then a else acc) i - c := by
  induction l generalizing i with
  | nil => rfl
  | cons x xs ih =>
    have hs' : ∀ a b c : K, HasLtB.ltb (a - c) (b - c) = HasLtB.ltb a b := hs
    simp only [List.map_cons, List.foldl_cons, hs']
    by_cases h : HasLtB.ltb i x = true
    · simp only [h, if_true]; exact ih x
    · simp only [h, if_false]; exact ih i

/-- **`ClampingICGenerator.__call__`**: the affine map onto the limits (`max(u − min u) = max u − min u`) -/
theorem ClampingICGenerator_call_eq (hs : ShiftLaw K) (lo hi : K) (u : Array K) :
    ClampingICGenerator_call (lo, hi) u = IC.clamp lo hi u := by
  unfold ClampingICGenerator_call IC.clamp
  simp only [jnp_min_eq]
  rw [tab_size_getD_eq_map u 0 (fun x => x - IC.minOf u)]
  have hmax : u.size ≠ 0 → jnp_max (u.map (fun x => x - IC.minOf u)) = IC.maxOf u - IC.minOf u := by
    intro hne
    unfold jnp_max IC.maxOf
    have h0 : (u.map (fun x => x - IC.minOf u)).getD 0 0 = u.getD 0 0 - IC.minOf u := by
      have : 0 < u.size := Nat.pos_of_ne_zero hne
      simp [Array.getD, this]
    rw [h0, Array.toList_map, foldl_max_shift hs]
  by_cases hsz : u.size = 0
  · have : u = #[] := Array.eq_empty_of_size_eq_zero hsz
    subst this
    simp [tab]
  · simp only [hmax hsz]
    rw [tab_size_getD_eq_map _ 0 (fun x => x / (IC.maxOf u - IC.minOf u)),
      tab_size_getD_eq_map _ 0 (fun x => x * (hi - lo) + lo), Array.map_map, Array.map_map]
    rfl

/-! ### `ScaledICGenerator.__call__`, `ScaledIC.__call__` -/

/-- **`ScaledICGenerator.__call__`** (`ic * scale`; the model writes `scale * ic`) -/
theorem ScaledICGenerator_call_eq (hcomm : ∀ x y : K, x * y = y * x) (a : K) (u : Array K) :
    ScaledICGenerator_call a u = IC.scale a u := by
  unfold ScaledICGenerator_call IC.scale
  rw [tab_size_getD_eq_map u 0 (fun x => x * a)]
  congr 1
  funext x
  exact hcomm x a

/-- **`ScaledIC.__call__`** on the grid values of the inner function -/
theorem ScaledIC_call_eq (hcomm : ∀ x y : K, x * y = y * x) (a : K) (u : Array K) :
    ScaledIC_call a u = IC.scale a u := by
  unfold ScaledIC_call IC.scale
  rw [tab_size_getD_eq_map u 0 (fun x => x * a)]
  congr 1
  funext x
  exact hcomm x a

end

/-! ### `RandomTruncatedFourierSeries.__call__` (the random draws `noise`, `offset` are inputs) -/
section
variable {K : Type} [Add K] [Sub K] [Mul K] [Div K] [Neg K] [Zero K] [One K] [NatCast K] [IntCast K]
  [HasSqrt K] [HasAbs K] [HasLtB K] [HasExp K] [HasI K] [HasPi K] [HasRe K] [HasIsZero K]

/-- multiplying by a boolean mask entry (`x * 1 = x`, `x * 0 = 0`) -/
def MaskLaw (K : Type) [Mul K] [Zero K] [One K] : Prop := (∀ x : K, x * 1 = x) ∧ (∀ x : K, x * 0 = 0)

/-- the deterministic part up to the inverse transform: low-pass, offset into the mean mode, `ifft` -/
theorem truncated_spectrum_eq (hm : MaskLaw K) (D N cutoff : ℕ) (offset : K) (noise : Array K) :
    (tab (ext_fft D N noise).size (fun h => (ext_fft D N noise).getD h 0 *
        (bif (ext_low_pass_filter_mask D N (cutoff : Int) true).getD h false then 1 else 0))).setIfInBounds 0
          (offset * lit (N ^ D))
      = tab (numModes D N) (fun h =>
          if h = 0 then offset * lit (N ^ D)
          else if lowPassSep (wnFlat D N h) (cutoff : Int) 1 then (rfftnM D N noise).getD h 0 else 0) := by
  unfold ext_fft
  rw [rfftnM_size']
  apply Array.ext
  · simp
  · intro i h1 h2
    have hi : i < numModes D N := by simpa using h2
    rw [Array.getElem_setIfInBounds (by simpa using hi), tab_getElem, tab_getElem]
    by_cases h0 : i = 0
    · subst h0; simp
    · rw [if_neg (Ne.symm h0), if_neg h0, lp_getD _ _ _ _ hi]
      cases lowPassSep (wnFlat D N i) (cutoff : Int) 1
      · simp [hm.2]
      · simp [hm.1]

/-- **`RandomTruncatedFourierSeries.__call__`** = `normalizeIc ∘ truncatedSeries` -/
theorem RandomTruncatedFourierSeries_call_eq (hlaw : AbsLaw K) (hm : MaskLaw K) (D cutoff : ℕ) (orange : K × K)
    (so mo : Bool) (N : ℕ) (noise : Array K) (offset : K) :
    RandomTruncatedFourierSeries_call D cutoff orange so mo N noise offset
      = IC.normalizeIc (HasIsZero.isZero orange.1 && HasIsZero.isZero orange.2) so mo
          (IC.truncatedSeries D N cutoff offset noise) := by
  unfold RandomTruncatedFourierSeries_call IC.truncatedSeries
  simp only [normalize_ic_eq hlaw, truncated_spectrum_eq hm, Bool.decide_eq_true]
  rfl

end

/-! ### the laws at `ℝ` and `ℂ` -/

theorem absLaw_real : AbsLaw ℝ := by
  intro x h
  have : ¬ (0 < |x|) := by simpa [hasLtB_real] using h
  have h2 : |x| ≤ 0 := not_lt.mp this
  exact le_antisymm h2 (abs_nonneg x)

theorem absLaw_complex : AbsLaw ℂ := by
  intro x h
  have : ¬ (0 < ‖x‖) := by simpa [hasLtB_complex, hasAbs_complex] using h
  have h2 : ‖x‖ = 0 := le_antisymm (not_lt.mp this) (norm_nonneg x)
  rw [hasAbs_complex, h2]; rfl

theorem shiftLaw_real : ShiftLaw ℝ := by
  intro a b c; simp [hasLtB_real]

theorem shiftLaw_complex : ShiftLaw ℂ := by
  intro a b c; simp [hasLtB_complex]

theorem maskLaw_of_mulZeroOneClass {K : Type} [MulZeroOneClass K] : MaskLaw K := ⟨mul_one, mul_zero⟩

/-- `normalize_ic` at `ℝ` (where `Proofs/ICAlgebra.lean` states the documented options) -/
theorem normalize_ic_real (u : Array ℝ) (zm so mo : Bool) :
    normalize_ic u zm so mo = IC.normalizeIc zm so mo u := normalize_ic_eq absLaw_real u zm so mo

theorem ClampingICGenerator_call_real (lo hi : ℝ) (u : Array ℝ) :
    ClampingICGenerator_call (lo, hi) u = IC.clamp lo hi u := ClampingICGenerator_call_eq shiftLaw_real lo hi u

theorem ScaledICGenerator_call_real (a : ℝ) (u : Array ℝ) : ScaledICGenerator_call a u = IC.scale a u :=
  ScaledICGenerator_call_eq mul_comm a u

theorem ScaledIC_call_real (a : ℝ) (u : Array ℝ) : ScaledIC_call a u = IC.scale a u :=
  ScaledIC_call_eq mul_comm a u

/-- the whole generator at `ℂ` (where `Proofs/ICAlgebra.lean` reads the spectrum of `truncatedSeries` off) -/
theorem RandomTruncatedFourierSeries_call_complex (D cutoff : ℕ) (orange : ℂ × ℂ) (so mo : Bool) (N : ℕ)
    (noise : Array ℂ) (offset : ℂ) :
    RandomTruncatedFourierSeries_call D cutoff orange so mo N noise offset
      = IC.normalizeIc (HasIsZero.isZero orange.1 && HasIsZero.isZero orange.2) so mo
          (IC.truncatedSeries D N cutoff offset noise) :=
  RandomTruncatedFourierSeries_call_eq absLaw_complex maskLaw_of_mulZeroOneClass D cutoff orange so mo N noise offset

end Exponax.Gen.ICGen
