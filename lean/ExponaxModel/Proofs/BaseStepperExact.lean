import ExponaxModel.Proofs.BaseStepperGenEq
import ExponaxModel.Proofs.ExactLinear
import ExponaxModel.Proofs.ExactLinearSemigroup
import Mathlib.Tactic
/-
C01 support — the regenerated `BaseStepper.__call__` (`Generated/BaseStepperGen.lean`) of a ONE-CHANNEL, ORDER-0 stepper
is `ExactLinear.linStep` (the map the C01 capstones `C01_exact_state`, `C01_exact_every_band_limited_state` are about).

The regenerated `BaseStepper_step_fourier` acts on whole spectra as functions `Spec = ℕ → ℕ → ℂ` (channel, stored mode),
the regenerated `BaseStepper_step` / `BaseStepper_call` on arrays `MC ℂ = Array (Array ℂ)`.  The bridge:

* `specOfMC uh`            — the array read as a function: entry `(ch, h)`, zero outside the array
* `mcOfSpec C M v`         — the function tabulated to `C` channels of `M` stored modes
* `liftStepFourier C M F`  — `uh ↦ (F (specOfMC uh)).map (mcOfSpec C M)`: a step on `Spec` run on stored arrays

* `BaseStepper_call_linear` — `__call__(#[u]) = some #[linStep D N lam dt u]` for every symbol array `lam`
* `BaseStepper_call_linear_refuses` — every other shape is refused
-/
set_option linter.unusedVariables false
namespace Exponax.BaseStepperExact
open Exponax Exponax.Layout Exponax.Transform Exponax.Nonlin Exponax.Gen.Etdrk Exponax.Gen.StepperWiring
open Exponax.Gen.Base Exponax.Interface Exponax.BaseStepperGenEq Exponax.ExactLinear

/-- a stored multi-channel spectrum read as a function of (channel, stored mode); zero outside the array -/
noncomputable def specOfMC (uh : MC ℂ) : Spec := fun ch h => at2 uh ch h

/-- a function of (channel, stored mode) tabulated to `C` channels of `M` stored modes -/
noncomputable def mcOfSpec (C M : ℕ) (v : Spec) : MC ℂ := tab2 C M v

/-- a (partial) step on `Spec` run on stored `(C, M)` arrays: read the array, step, tabulate -/
noncomputable def liftStepFourier (C M : ℕ) (F : Spec → Option Spec) : MC ℂ → Option (MC ℂ) :=
  fun uh => (F (specOfMC uh)).map (mcOfSpec C M)

theorem tabC_one (f : ℕ → Array ℂ) : tabC 1 f = #[f 0] := by
  apply Array.ext
  · simp [tabC, tab]
  · intro i h1 h2
    have hi : i < 1 := by simpa [tabC, tab] using h1
    interval_cases i
    simp [tabC, tab]

theorem mcOfSpec_one (M : ℕ) (v : Spec) : mcOfSpec 1 M v = #[tab M (v 0)] := by
  unfold mcOfSpec tab2
  exact tabC_one (fun ch => tab M (v ch))

theorem specOfMC_singleton (x : Array ℂ) (h : ℕ) : specOfMC #[x] 0 h = x.getD h 0 := rfl

/-- the round trip of the bridge on stored arrays of the right shape is the identity on the entries -/
theorem specOfMC_mcOfSpec (C M : ℕ) (v : Spec) (ch h : ℕ) (hc : ch < C) (hh : h < M) :
    specOfMC (mcOfSpec C M v) ch h = v ch h := by
  unfold specOfMC mcOfSpec
  rw [Exponax.SpectralOpsEq.at2_tab2_row C M v ch h hc, Nonlin.tab_getD _ _ _ _ hh]

/-- **`__call__` of a one-channel order-0 stepper with symbol array `lam` is `linStep`**: the shape guard accepts
    `(1,) + (N,)*D`, `step` transforms forward, `step_fourier` (ETDRK0 built by `__init__` from `dt` and `lam`) multiplies
    by `exp(dt·lam)`, `step` transforms back.  Whatever the nonlinear function and the contour parameters are. -/
theorem BaseStepper_call_linear (a : BaseStepperArgs ℂ) (h0 : a.order = 0) (hC : a.num_channels = 1)
    (hD : 1 ≤ a.num_spatial_dims) (lam : ℕ → ℂ) (Nl : Spec → Spec) (u : Array ℂ) :
    BaseStepper_call a
        (liftStepFourier 1 (numModes a.num_spatial_dims a.num_points)
          (BaseStepper_step_fourier a (entrywiseOf (fun _ h => lam h)) Nl))
        (1 :: List.replicate a.num_spatial_dims a.num_points) #[u]
      = some #[linStep a.num_spatial_dims a.num_points lam a.dt u] := by
  rw [BaseStepper_call_eq, if_pos (by rw [hC]), BaseStepper_step_eq a hD, hC, tabC_one]
  unfold liftStepFourier
  rw [BaseStepper_step_fourier_some a (by omega), h0]
  simp only [Option.map_some]
  rw [tabC_one, mcOfSpec_one]
  rfl

/-- … and every other shape is refused (`none` = the `ValueError` of `__call__`) -/
theorem BaseStepper_call_linear_refuses (a : BaseStepperArgs ℂ) (hC : a.num_channels = 1)
    (sf : MC ℂ → Option (MC ℂ)) (shape : List ℕ)
    (hs : shape ≠ 1 :: List.replicate a.num_spatial_dims a.num_points) (u : MC ℂ) :
    BaseStepper_call a sf shape u = none := by
  rw [BaseStepper_call_eq, if_neg (by rw [hC]; exact hs)]

end Exponax.BaseStepperExact
