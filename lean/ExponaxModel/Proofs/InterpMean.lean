import ExponaxModel.Proofs.InterpBasic
import ExponaxModel.Proofs.ConserveVorticityFull
/-
C15 support — I1: `map_between_resolutions` preserves the mean (any `D ≥ 1`, any `N_old, N_new ≥ 1`,
both values of `oddballZero`).
-/
set_option linter.unusedVariables false
set_option linter.unusedSimpArgs false
namespace Exponax.Interp
open Exponax Exponax.Layout Exponax.Transform Exponax.DFT Finset

theorem digit_zero' (E N d : ℕ) : digit E N 0 d = 0 := by
  simp [digit]

theorem dotPhase_zero_right (E N a : ℕ) : dotPhase E N a 0 = 0 := by
  unfold dotPhase
  apply Finset.sum_eq_zero
  intro d _
  rw [digit_zero']; simp

theorem dotPhase_comm (E N a b : ℕ) : dotPhase E N a b = dotPhase E N b a := by
  unfold dotPhase
  apply Finset.sum_congr rfl
  intro d _
  ring

theorem sum_zeta_dotPhase (E N : ℕ) (hN : 0 < N) (a : ℕ) (ha : a < N ^ E) :
    ∑ j ∈ range (N ^ E), zeta N ^ (dotPhase E N a j) = if a = 0 then ((N ^ E : ℕ) : ℂ) else 0 := by
  have := dotPhase_orth N hN E a 0 ha (pow_pos hN E)
  simp only [dotPhase_zero_right, sub_zero] at this
  rw [← this]
  apply Finset.sum_congr rfl
  intro j _
  rw [dotPhase_comm]

/-- the spectrum of the constant field `1` -/
theorem rfftnM_ones (D N : ℕ) (hD : 0 < D) (hN : 0 < N) (h : ℕ) (hh : h < numModes D N) :
    (rfftnM D N (tab (N ^ D) (fun _ => (1 : ℂ)))).getD h 0 = if h = 0 then ((N ^ D : ℕ) : ℂ) else 0 := by
  obtain ⟨E, rfl⟩ : ∃ E, D = E + 1 := ⟨D - 1, by omega⟩
  have hh' := hh
  rw [numModes_succ] at hh'
  have hpos : 0 < N / 2 + 1 := by omega
  rw [rfftn_getD E N hN _ h hh, dftn_eq E N hN]
  have hterm : ∀ j' ∈ range (N ^ E), ∀ i ∈ range N,
      (tab (N ^ (E + 1)) (fun _ => (1 : ℂ))).getD (j' * N + i) 0 *
        zeta N ^ (dotPhase E N (h / (N / 2 + 1)) j' + ((h % (N / 2 + 1) : ℕ) : ℤ) * (i : ℤ))
      = zeta N ^ (dotPhase E N (h / (N / 2 + 1)) j') * zeta N ^ (((h % (N / 2 + 1) : ℕ) : ℤ) * (i : ℤ)) := by
    intro j' hj' i hi
    have hj'' := Finset.mem_range.mp hj'
    have hi' := Finset.mem_range.mp hi
    rw [tab_getD _ _ _ _ (by rw [pow_succ]; nlinarith), one_mul, zpow_add₀ (zeta_ne_zero N)]
  rw [Finset.sum_congr rfl (fun j' hj' => Finset.sum_congr rfl (hterm j' hj')), ← Finset.sum_mul_sum,
    sum_zeta_dotPhase E N hN _ (Nat.div_lt_of_lt_mul (by rw [mul_comm]; exact hh')),
    zeta_sum_zpow N hN]
  have hl : h % (N / 2 + 1) < N / 2 + 1 := Nat.mod_lt _ hpos
  have hdvd : ((N : ℤ) ∣ ((h % (N / 2 + 1) : ℕ) : ℤ)) ↔ h % (N / 2 + 1) = 0 := by
    constructor
    · intro hd
      have := Int.eq_zero_of_abs_lt_dvd hd (by rw [abs_lt]; constructor <;> omega)
      exact_mod_cast this
    · intro h0; rw [h0]; simp
  simp only [hdvd]
  have hiff : h = 0 ↔ (h / (N / 2 + 1) = 0 ∧ h % (N / 2 + 1) = 0) := by
    constructor
    · rintro rfl; simp
    · rintro ⟨e1, e2⟩
      rw [← Nat.div_add_mod h (N / 2 + 1), e1, e2]
      simp
  by_cases h0 : h = 0
  · subst h0; simp [pow_succ]
  · rw [if_neg h0]
    have := (not_congr hiff).mp h0
    by_cases hq : h / (N / 2 + 1) = 0
    · rw [if_neg (fun hr => this ⟨hq, hr⟩)]; simp
    · rw [if_neg hq]; simp

/-- the grid sum of the c2r transform of ANY stored half spectrum is the real part of its DC entry -/
theorem sum_irfftnM (D N : ℕ) (hD : 0 < D) (hN : 0 < N) (C : Array ℂ) :
    ∑ j ∈ range (N ^ D), (irfftnM D N C).getD j 0 = (((C.getD 0 0).re : ℝ) : ℂ) := by
  have hf : ∀ j < N ^ D, ((tab (N ^ D) (fun _ => (1 : ℂ))).getD j 0).im = 0 := by
    intro j hj; rw [tab_getD _ _ _ _ hj]; simp
  have h := Conserve.real_inner_irfftn D N hN (tab (N ^ D) (fun _ => (1 : ℂ))) C hf
  have hl : ∑ j ∈ range (N ^ D), (tab (N ^ D) (fun _ => (1 : ℂ))).getD j 0 * (irfftnM D N C).getD j 0
      = ∑ j ∈ range (N ^ D), (irfftnM D N C).getD j 0 := by
    apply Finset.sum_congr rfl
    intro j hj
    rw [tab_getD _ _ _ _ (Finset.mem_range.mp hj), one_mul]
  rw [hl] at h
  rw [h]
  have hmpos : 0 < numModes D N := shapeSize_pos _ (wavenumberShape_pos D N hN)
  have hsum : ∑ h ∈ range (numModes D N), (herm_weight D N h : ℝ) *
      (C.getD h 0 * (starRingEnd ℂ) ((rfftnM D N (tab (N ^ D) (fun _ => (1 : ℂ)))).getD h 0)).re
      = (C.getD 0 0).re * ((N ^ D : ℕ) : ℝ) := by
    rw [Finset.sum_eq_single_of_mem 0 (Finset.mem_range.mpr hmpos)]
    · rw [rfftnM_ones D N hD hN 0 hmpos, if_pos rfl]
      have hw : herm_weight D N 0 = 1 := by
        unfold herm_weight
        simp only [unflatten_zero_getD, true_or, if_true]
      rw [hw, Complex.conj_natCast, mul_comm (C.getD 0 0), ← Complex.ofReal_natCast, Complex.re_ofReal_mul]
      push_cast
      ring
    · intro h hh h0
      rw [rfftnM_ones D N hD hN h (Finset.mem_range.mp hh), if_neg h0]
      simp
  rw [hsum]
  have : ((N : ℂ) ^ D) ≠ 0 := pow_ne_zero _ (by exact_mod_cast hN.ne')
  push_cast
  field_simp

/-- the DC entry of every axis is copied from the DC entry -/
theorem srcAxis_zero (m lenNew lenOld : ℕ) (isLast : Bool) (hl : 0 < lenNew) (hm : m / 2 < lenNew) :
    srcAxis m lenNew lenOld isLast 0 = some 0 := by
  unfold srcAxis
  cases isLast
  · simp only [Bool.false_eq_true, if_false]
    rcases Nat.eq_zero_or_pos (m / 2) with h0 | hpos
    · rw [h0, pySlice_negZero_none, pySlice_negZero_none]
      simp [hl]
    · rw [pySlice_someNeg_none lenNew (m / 2) hpos]
      have : ¬ (lenNew - min (m / 2) lenNew ≤ 0 ∧ 0 < lenNew) := by omega
      simp only [this, if_false]
      have hleft : 0 < (pySlice lenNew none (some (if m % 2 = 0 then ((m / 2 : ℕ) : ℤ) else ((m / 2 : ℕ) : ℤ) + 1))).2 := by
        split_ifs with he
        · rw [pySlice_none_some]; simp only; omega
        · have : (((m / 2 : ℕ) : ℤ) + 1) = ((m / 2 + 1 : ℕ) : ℤ) := by push_cast; ring
          rw [this, pySlice_none_some]; simp only; omega
      rw [if_pos hleft]
  · simp only [if_true]
    have : (((m / 2 : ℕ) : ℤ) + 1) = ((m / 2 + 1 : ℕ) : ℤ) := by push_cast; ring
    rw [this, pySlice_none_some]
    simp only
    rw [if_pos (by omega)]

theorem srcIndex_foldr_zero (m : ℕ) (shpN shpO : List ℕ) (D : ℕ) (h' : List ℕ) (L : List ℕ)
    (hL : ∀ d ∈ L, srcAxis m (shpN.getD d 0) (shpO.getD d 0) (d + 1 == D) (h'.getD d 0) = some 0) :
    L.foldr (fun d acc =>
      match acc, srcAxis m (shpN.getD d 0) (shpO.getD d 0) (d + 1 == D) (h'.getD d 0) with
      | some l, some i => some (i :: l)
      | _, _ => none) (some []) = some (List.replicate L.length 0) := by
  induction L with
  | nil => rfl
  | cons d L ih =>
    rw [List.foldr_cons, ih (fun d' hd' => hL d' (List.mem_cons_of_mem _ hd')), hL d (List.mem_cons_self ..)]
    rfl

theorem flatten_zeros (shape : List ℕ) (n : ℕ) : flatten shape (List.replicate n 0) = 0 := by
  induction shape generalizing n with
  | nil => rfl
  | cons a rest ih =>
    cases n with
    | zero => have := ih 0; simp only [List.replicate_zero] at this; simp [flatten, this]
    | succ n => simp [flatten, List.replicate_succ, ih n]

theorem srcIndex_zero (D Nold Nnew : ℕ) (hD : 0 < D) (hNn : 0 < Nnew) (h' : List ℕ)
    (h0 : ∀ d, h'.getD d 0 = 0) :
    srcIndex D Nold Nnew h' = some (List.replicate D 0) := by
  unfold srcIndex
  simp only []
  have := srcIndex_foldr_zero (min Nold Nnew) (wavenumberShape D Nnew) (wavenumberShape D Nold) D h'
    (List.range D) (by
      intro d hd
      have hd' := List.mem_range.mp hd
      rw [h0 d, wavenumberShape_getD D Nnew d hd']
      apply srcAxis_zero
      · split_ifs <;> omega
      · split_ifs <;> omega)
  rw [List.length_range] at this
  exact this

theorem oddball_zero_mode (D N : ℕ) (hN : 0 < N) : oddball N (wnFlat D N 0) = true := by
  by_cases he : N % 2 = 0
  · rw [oddball_even_iff N _ he]
    intro kd hkd
    obtain ⟨d, hd, rfl⟩ := (mem_wnVec D N _ kd).1 hkd
    have : wn D N (unflatten (wavenumberShape D N) 0) d = 0 := by
      unfold wn
      rw [unflatten_zero_getD]
      simp [rfftfreq, fftfreq]
    rw [this]
    simp
    omega
  · exact oddball_odd N _ (by omega)

/-- the DC entry of the new half spectrum -/
theorem mapSpectrum_zero_mode (D Nold Nnew : ℕ) (hD : 0 < D) (hNo : 0 < Nold) (hNn : 0 < Nnew) (ob : Bool)
    (uh : Array ℂ) :
    (mapSpectrum D Nold Nnew ob uh).getD 0 0 = uh.getD 0 0 / (Nold : ℂ) ^ D * (Nnew : ℂ) ^ D := by
  have hmn : 0 < numModes D Nnew := shapeSize_pos _ (wavenumberShape_pos D Nnew hNn)
  have hmo : 0 < numModes D Nold := shapeSize_pos _ (wavenumberShape_pos D Nold hNo)
  rw [mapSpectrum_getD D Nold Nnew ob uh 0 hmn, oddball_zero_mode D Nnew hNn,
    srcIndex_zero D Nold Nnew hD hNn _ (unflatten_zero_getD _)]
  simp only [flatten_zeros, Bool.true_eq_false, and_false, if_false]
  unfold oldSpec
  rw [if_pos hmo, oddball_zero_mode D Nold hNo]
  simp

/-- grid sum of the mapped field, ANY (possibly complex) input, `N_old ≠ N_new` -/
theorem mapBetween_sum (D Nold Nnew : ℕ) (hD : 0 < D) (hNo : 0 < Nold) (hNn : 0 < Nnew)
    (hne : Nold ≠ Nnew) (ob : Bool) (u : Array ℂ) :
    ∑ j ∈ range (Nnew ^ D), (mapBetween D Nold Nnew ob u).getD j 0
      = (((∑ j ∈ range (Nold ^ D), u.getD j 0).re : ℝ) : ℂ) / (Nold : ℂ) ^ D * (Nnew : ℂ) ^ D := by
  unfold mapBetween
  rw [if_neg hne, sum_irfftnM D Nnew hD hNn, mapSpectrum_zero_mode D Nold Nnew hD hNo hNn,
    Conserve.rfftnM_zero_mode D Nold hNo]
  set S := ∑ j ∈ range (Nold ^ D), u.getD j 0
  have : S / (Nold : ℂ) ^ D * (Nnew : ℂ) ^ D
      = (((Nnew : ℝ) ^ D / (Nold : ℝ) ^ D : ℝ) : ℂ) * S := by push_cast; ring
  rw [this, Complex.re_ofReal_mul]
  push_cast
  ring

/-- **I1 (mean preservation).** For every real field `u` on the `N_old^D` grid, every `D ≥ 1`,
    `N_old ≥ 1`, `N_new ≥ 1` and both values of `oddballZero`, the mean of
    `map_between_resolutions(u)` equals the mean of `u`. -/
theorem mapBetween_mean (D Nold Nnew : ℕ) (hD : 0 < D) (hNo : 0 < Nold) (hNn : 0 < Nnew)
    (ob : Bool) (u : Array ℂ) (hu : ∀ j < Nold ^ D, (u.getD j 0).im = 0) :
    (∑ j ∈ range (Nnew ^ D), (mapBetween D Nold Nnew ob u).getD j 0) / (Nnew : ℂ) ^ D
      = (∑ j ∈ range (Nold ^ D), u.getD j 0) / (Nold : ℂ) ^ D := by
  by_cases hne : Nold = Nnew
  · subst hne; simp [mapBetween]
  · rw [mapBetween_sum D Nold Nnew hD hNo hNn hne]
    have hre : (((∑ j ∈ range (Nold ^ D), u.getD j 0).re : ℝ) : ℂ) = ∑ j ∈ range (Nold ^ D), u.getD j 0 := by
      apply Complex.ext
      · simp
      · rw [Complex.ofReal_im, Complex.im_sum]
        exact (Finset.sum_eq_zero (fun j hj => hu j (Finset.mem_range.mp hj))).symm
    rw [hre]
    have : ((Nnew : ℂ) ^ D) ≠ 0 := pow_ne_zero _ (by exact_mod_cast hNn.ne')
    field_simp

/-- the 1-D instance of I1 -/
theorem mapBetween_mean_one (Nold Nnew : ℕ) (hNo : 0 < Nold) (hNn : 0 < Nnew)
    (ob : Bool) (u : Array ℂ) (hu : ∀ j < Nold, (u.getD j 0).im = 0) :
    (∑ j ∈ range Nnew, (mapBetween 1 Nold Nnew ob u).getD j 0) / (Nnew : ℂ)
      = (∑ j ∈ range Nold, u.getD j 0) / (Nold : ℂ) := by
  have := mapBetween_mean 1 Nold Nnew Nat.one_pos hNo hNn ob u (by simpa using hu)
  simpa using this

/-! non-vacuity -/
example : ∃ (D Nold Nnew : ℕ) (u : Array ℂ), 0 < D ∧ 0 < Nold ∧ 0 < Nnew ∧ Nold ≠ Nnew ∧
    ∀ j < Nold ^ D, (u.getD j 0).im = 0 :=
  ⟨2, 4, 6, #[], by norm_num, by norm_num, by norm_num, by norm_num, fun j _ => by simp⟩

end Exponax.Interp
