import Mathlib.Tactic
import ExponaxModel.Proofs.GenPreludeLemmas
import ExponaxModel.Model.Metrics
import ExponaxModel.Generated.MetricsGen
/-
The definitions regenerated from `exponax/metrics/*.py` (`Generated/MetricsGen.lean`) are equal to the
hand-written model (`Model/Metrics.lean`).  Part 1: the spatial family — equalities over an ARBITRARY scalar
type (no algebraic law is used, so they hold for the IEEE scalar of the driver as well).
-/
set_option linter.unusedVariables false
set_option linter.unusedSectionVars false
namespace Exponax.Gen.MetricsGen
open Exponax Exponax.Layout Exponax.Transform Exponax.DFT Exponax.Gen Exponax.Gen.Prelude

/-- the list of regenerated metric functions is the one this file has theorems for -/
theorem generated_metrics_pinned : generated_metrics =
    ["H1_MAE", "H1_MSE", "H1_RMSE", "H1_nMAE", "H1_nMSE", "H1_nRMSE", "MAE", "MSE", "RMSE", "_correlation",
     "correlation", "fourier_MAE", "fourier_MSE", "fourier_RMSE", "fourier_aggregator", "fourier_nMAE",
     "fourier_nMSE", "fourier_nRMSE", "fourier_norm", "nMAE", "nMSE", "nRMSE", "sMAE", "sMSE", "sRMSE",
     "spatial_aggregator", "spatial_norm"] := rfl

section
variable {K : Type} [Add K] [Sub K] [Mul K] [Div K] [Neg K] [Zero K] [One K] [NatCast K] [IntCast K]
  [HasRpow K] [HasAbs K] [HasLtB K] [HasSqrt K]

/-! ### `spatial_aggregator` -/

/-- `spatial_aggregator` with all defaults resolved is the model aggregator -/
theorem spatial_aggregator_eq (D N : ℕ) (u : Array K) (nsd : Option ℕ) (L : K) (np : Option ℕ) (p : K)
    (oq : Option K) :
    spatial_aggregator D N u nsd L np p oq
      = Metrics.spatialAggregator (nsd.getD D) (np.getD N) L p (oq.getD (lit 1 / p)) u := by
  unfold spatial_aggregator Metrics.spatialAggregator
  rw [sumRange_size_getD u 0 (fun x => HasRpow.rpow (HasAbs.abs x) p)]
  cases nsd <;> cases np <;> cases oq <;> rfl

/-- the call made by `spatial_norm` (`num_spatial_dims`, `num_points` inferred from the array) -/
theorem spatial_aggregator_inferred (D N : ℕ) (u : Array K) (L p q : K) :
    spatial_aggregator D N u none L none p (some q) = Metrics.spatialAggregator D N L p q u := by
  rw [spatial_aggregator_eq]; rfl

/-- documented default of the outer exponent: `q = 1/p` -/
theorem spatial_aggregator_default_outer (D N : ℕ) (u : Array K) (L p : K) :
    spatial_aggregator D N u none L none p none = Metrics.spatialAggregator D N L p (lit 1 / p) u := by
  rw [spatial_aggregator_eq]; rfl

/-! ### `spatial_norm` -/

/-- `state - state_ref` channel by channel, entry by entry -/
def chanSub (u r : List (Array K)) : List (Array K) :=
  List.zipWith (fun (a : Array K) (b : Array K) => tab a.size (fun j => a.getD j 0 - b.getD j 0)) u r

theorem chanSub_length (u r : List (Array K)) : (chanSub u r).length = min u.length r.length := by
  simp [chanSub]

/-- mode string ↦ the mode code of `Metrics.combine` -/
def modeCode (mode : String) : ℕ := if mode = "normalized" then 1 else if mode = "symmetric" then 2 else 0

/-- per-channel model aggregates -/
def chanAgg (D N : ℕ) (L p q : K) (us : List (Array K)) : List K :=
  us.map (Metrics.spatialAggregator D N L p q)

theorem combine_zero (dn rn sn : List K) : Metrics.combine 0 dn rn sn = sumList dn := by
  unfold Metrics.combine
  simp only [show ¬ ((0 : ℕ) = 1) by decide, show ¬ ((0 : ℕ) = 2) by decide, if_false]
  rw [list_range_map_getD]

theorem combine_one (dn rn sn : List K) (h : dn.length ≤ rn.length) :
    Metrics.combine 1 dn rn sn = sumList (List.zipWith (fun a b => a / b) dn rn) := by
  unfold Metrics.combine
  simp only [if_true]
  rw [zipWith_eq_range_map _ dn rn 0 0 h]

theorem combine_two (dn rn sn : List K) (h1 : dn.length ≤ rn.length) (h2 : dn.length ≤ sn.length) :
    Metrics.combine 2 dn rn sn
      = sumList (List.zipWith (fun a b => a / b) (List.map (fun a => lit 2 * a) dn)
          (List.zipWith (fun a b => a + b) sn rn)) := by
  unfold Metrics.combine
  simp only [show ¬ ((2 : ℕ) = 1) by decide, if_false, if_true]
  rw [zipWith_eq_range_map _ (List.map (fun a => lit 2 * a) dn) _ 0 0 (by simp; omega)]
  congr 1
  rw [List.length_map]
  apply List.map_congr_left
  intro c hc
  have hc' : c < dn.length := List.mem_range.mp hc
  have hr : c < rn.length := lt_of_lt_of_le hc' h1
  have hs : c < sn.length := lt_of_lt_of_le hc' h2
  simp [List.getD_eq_getElem?_getD, hc', hr, hs]

/-- `spatial_norm` with a reference state: the model combination of the per-channel model aggregates of the
    difference, the reference and the state -/
theorem spatial_norm_eq (D N : ℕ) (u r : List (Array K)) (mode : String) (L p q : K) :
    spatial_norm D N u (some r) mode L p (some q)
      = some (Metrics.combine (modeCode mode) (chanAgg D N L p q (chanSub u r)) (chanAgg D N L p q r)
          (chanAgg D N L p q u)) := by
  have hd : (chanAgg D N L p q (chanSub u r)).length ≤ (chanAgg D N L p q r).length := by
    simp [chanAgg, chanSub_length]
  have hs : (chanAgg D N L p q (chanSub u r)).length ≤ (chanAgg D N L p q u).length := by
    simp [chanAgg, chanSub_length]
  unfold spatial_norm modeCode
  simp only [Option.bind_some, spatial_aggregator_inferred]
  have hne : ¬ ("symmetric" = "normalized") := by decide
  by_cases h1 : mode = "normalized"
  · subst h1
    simp only [if_true, Option.bind_some]
    rw [combine_one _ _ _ hd]; rfl
  · by_cases h2 : mode = "symmetric"
    · subst h2
      simp only [hne, if_true, if_false, Option.bind_some]
      rw [combine_two _ _ _ hd hs]; rfl
    · simp only [h1, h2, if_false, Option.bind_some]
      rw [combine_zero]; rfl

/-- `spatial_norm` without a reference state: the relative modes raise, the absolute mode aggregates the state -/
theorem spatial_norm_none (D N : ℕ) (u : List (Array K)) (mode : String) (L p q : K) :
    spatial_norm D N u none mode L p (some q)
      = if mode = "normalized" ∨ mode = "symmetric" then none
        else some (Metrics.combine 0 (chanAgg D N L p q u) [] []) := by
  unfold spatial_norm
  by_cases h1 : mode = "normalized"
  · subst h1; simp
  · by_cases h2 : mode = "symmetric"
    · subst h2; simp
    · simp only [h1, h2, if_false, or_self, Option.bind_some, spatial_aggregator_inferred]
      rw [combine_zero]; rfl

/-! ### the thin wrappers of `_spatial.py`: mode code, inner exponent `p`, outer exponent `q` -/

/-- the model value of a spatial metric: `combine` of the per-channel aggregates -/
def spatialModel (code D N : ℕ) (L p q : K) (u r : List (Array K)) : K :=
  Metrics.combine code (chanAgg D N L p q (chanSub u r)) (chanAgg D N L p q r) (chanAgg D N L p q u)

theorem MAE_eq (D N : ℕ) (u r : List (Array K)) (L : K) :
    MAE D N u (some r) L = some (spatialModel 0 D N L (lit 1) (lit 1) u r) := by
  unfold MAE; rw [spatial_norm_eq D N u r _ L _ _]; rfl
theorem nMAE_eq (D N : ℕ) (u r : List (Array K)) (L : K) :
    nMAE D N u r L = some (spatialModel 1 D N L (lit 1) (lit 1) u r) := by
  unfold nMAE; rw [spatial_norm_eq D N u r _ L _ _]; rfl
theorem sMAE_eq (D N : ℕ) (u r : List (Array K)) (L : K) :
    sMAE D N u r L = some (spatialModel 2 D N L (lit 1) (lit 1) u r) := by
  unfold sMAE; rw [spatial_norm_eq D N u r _ L _ _]; rfl
theorem MSE_eq (D N : ℕ) (u r : List (Array K)) (L : K) :
    MSE D N u (some r) L = some (spatialModel 0 D N L (lit 2) (lit 1) u r) := by
  unfold MSE; rw [spatial_norm_eq D N u r _ L _ _]; rfl
theorem nMSE_eq (D N : ℕ) (u r : List (Array K)) (L : K) :
    nMSE D N u r L = some (spatialModel 1 D N L (lit 2) (lit 1) u r) := by
  unfold nMSE; rw [spatial_norm_eq D N u r _ L _ _]; rfl
theorem sMSE_eq (D N : ℕ) (u r : List (Array K)) (L : K) :
    sMSE D N u r L = some (spatialModel 2 D N L (lit 2) (lit 1) u r) := by
  unfold sMSE; rw [spatial_norm_eq D N u r _ L _ _]; rfl
theorem RMSE_eq (D N : ℕ) (u r : List (Array K)) (L : K) :
    RMSE D N u (some r) L = some (spatialModel 0 D N L (lit 2) (qlit 1 2) u r) := by
  unfold RMSE; rw [spatial_norm_eq D N u r _ L _ _]; rfl
theorem nRMSE_eq (D N : ℕ) (u r : List (Array K)) (L : K) :
    nRMSE D N u r L = some (spatialModel 1 D N L (lit 2) (qlit 1 2) u r) := by
  unfold nRMSE; rw [spatial_norm_eq D N u r _ L _ _]; rfl
theorem sRMSE_eq (D N : ℕ) (u r : List (Array K)) (L : K) :
    sRMSE D N u r L = some (spatialModel 2 D N L (lit 2) (qlit 1 2) u r) := by
  unfold sRMSE; rw [spatial_norm_eq D N u r _ L _ _]; rfl

/-- without a reference the absolute metrics are the norms of the state itself -/
theorem MAE_none (D N : ℕ) (u : List (Array K)) (L : K) :
    MAE D N u none L = some (Metrics.combine 0 (chanAgg D N L (lit 1) (lit 1) u) [] []) := by
  unfold MAE; rw [spatial_norm_none]; rfl
theorem MSE_none (D N : ℕ) (u : List (Array K)) (L : K) :
    MSE D N u none L = some (Metrics.combine 0 (chanAgg D N L (lit 2) (lit 1) u) [] []) := by
  unfold MSE; rw [spatial_norm_none]; rfl
theorem RMSE_none (D N : ℕ) (u : List (Array K)) (L : K) :
    RMSE D N u none L = some (Metrics.combine 0 (chanAgg D N L (lit 2) (qlit 1 2) u) [] []) := by
  unfold RMSE; rw [spatial_norm_none]; rfl

end

/-! ## Part 2: the Fourier family, structure (arbitrary scalar type) -/
section
variable {K : Type} [Add K] [Sub K] [Mul K] [Div K] [Neg K] [Zero K] [One K] [NatCast K] [IntCast K]
  [HasRpow K] [HasAbs K] [HasLtB K] [HasSqrt K] [HasExp K] [HasI K] [HasPi K] [HasCpow K]

/-- explicit `num_spatial_dims = D`, `num_points = N` are the inferred ones -/
theorem fourier_aggregator_explicit_shape (D N : ℕ) (u : Array K) (L p : K) (oq : Option K) (lo hi : Option ℕ)
    (m : Option K) :
    fourier_aggregator D N u (some D) L (some N) p oq lo hi m = fourier_aggregator D N u none L none p oq lo hi m :=
  rfl

/-- documented default of the outer exponent: `q = 1/p` -/
theorem fourier_aggregator_default_outer (D N : ℕ) (u : Array K) (nsd : Option ℕ) (L : K) (np : Option ℕ) (p : K)
    (lo hi : Option ℕ) (m : Option K) :
    fourier_aggregator D N u nsd L np p none lo hi m
      = fourier_aggregator D N u nsd L np p (some (lit 1 / p)) lo hi m := rfl

/-- per-channel regenerated Fourier aggregates (the call made by `fourier_norm`) -/
def chanFAgg (D N : ℕ) (L p q : K) (lo hi : Option ℕ) (m : Option K) (us : List (Array K)) : List K :=
  us.map (fun s => fourier_aggregator D N s none L none p (some q) lo hi m)

/-- mode string ↦ mode code for `fourier_norm` (no symmetric mode there) -/
def fmodeCode (mode : String) : ℕ := if mode = "normalized" then 1 else 0

/-- `fourier_norm` with a reference state is the model combination (`Metrics.combine`) of the per-channel
    regenerated aggregates -/
theorem fourier_norm_eq (D N : ℕ) (u r : List (Array K)) (mode : String) (L p q : K) (lo hi : Option ℕ)
    (m : Option K) :
    fourier_norm D N u (some r) mode L p (some q) lo hi m
      = some (Metrics.combine (fmodeCode mode) (chanFAgg D N L p q lo hi m (chanSub u r))
          (chanFAgg D N L p q lo hi m r) []) := by
  have hd : (chanFAgg D N L p q lo hi m (chanSub u r)).length ≤ (chanFAgg D N L p q lo hi m r).length := by
    simp [chanFAgg, chanSub_length]
  unfold fourier_norm fmodeCode
  simp only [Option.bind_some]
  by_cases h1 : mode = "normalized"
  · subst h1
    simp only [if_true, Option.bind_some]
    rw [combine_one _ _ _ hd]; rfl
  · simp only [h1, if_false, Option.bind_some]
    rw [combine_zero]; rfl

theorem fourier_norm_none (D N : ℕ) (u : List (Array K)) (mode : String) (L p q : K) (lo hi : Option ℕ)
    (m : Option K) :
    fourier_norm D N u none mode L p (some q) lo hi m
      = if mode = "normalized" then none
        else some (Metrics.combine 0 (chanFAgg D N L p q lo hi m u) [] []) := by
  unfold fourier_norm
  by_cases h1 : mode = "normalized"
  · subst h1; simp
  · simp only [h1, if_false, Option.bind_some]
    rw [combine_zero]; rfl

/-- the value of a Fourier metric: `combine` of the per-channel regenerated aggregates -/
def fourierGen (code D N : ℕ) (L p q : K) (lo hi : Option ℕ) (m : Option K) (u r : List (Array K)) : K :=
  Metrics.combine code (chanFAgg D N L p q lo hi m (chanSub u r)) (chanFAgg D N L p q lo hi m r) []

theorem fourier_MAE_eq (D N : ℕ) (u r : List (Array K)) (L : K) (lo hi : Option ℕ) (m : Option K)
    :
    fourier_MAE D N u (some r) L lo hi m = some (fourierGen 0 D N L (lit 1) (lit 1) lo hi m u r) := by
  unfold fourier_MAE; rw [fourier_norm_eq D N u r _ L _ _ lo hi m]; rfl
theorem fourier_nMAE_eq (D N : ℕ) (u r : List (Array K)) (L : K) (lo hi : Option ℕ) (m : Option K)
    :
    fourier_nMAE D N u r L lo hi m = some (fourierGen 1 D N L (lit 1) (lit 1) lo hi m u r) := by
  unfold fourier_nMAE; rw [fourier_norm_eq D N u r _ L _ _ lo hi m]; rfl
theorem fourier_MSE_eq (D N : ℕ) (u r : List (Array K)) (L : K) (lo hi : Option ℕ) (m : Option K)
    :
    fourier_MSE D N u (some r) L lo hi m = some (fourierGen 0 D N L (lit 2) (lit 1) lo hi m u r) := by
  unfold fourier_MSE; rw [fourier_norm_eq D N u r _ L _ _ lo hi m]; rfl
theorem fourier_nMSE_eq (D N : ℕ) (u r : List (Array K)) (L : K) (lo hi : Option ℕ) (m : Option K)
    :
    fourier_nMSE D N u r L lo hi m = some (fourierGen 1 D N L (lit 2) (lit 1) lo hi m u r) := by
  unfold fourier_nMSE; rw [fourier_norm_eq D N u r _ L _ _ lo hi m]; rfl
theorem fourier_RMSE_eq (D N : ℕ) (u r : List (Array K)) (L : K) (lo hi : Option ℕ) (m : Option K)
    :
    fourier_RMSE D N u (some r) L lo hi m = some (fourierGen 0 D N L (lit 2) (qlit 1 2) lo hi m u r) := by
  unfold fourier_RMSE; rw [fourier_norm_eq D N u r _ L _ _ lo hi m]; rfl
theorem fourier_nRMSE_eq (D N : ℕ) (u r : List (Array K)) (L : K) (lo hi : Option ℕ) (m : Option K)
    :
    fourier_nRMSE D N u r L lo hi m = some (fourierGen 1 D N L (lit 2) (qlit 1 2) lo hi m u r) := by
  unfold fourier_nRMSE; rw [fourier_norm_eq D N u r _ L _ _ lo hi m]; rfl

/-! ### `_derivative.py`: `H1_X = fourier_X(derivative_order=None) + fourier_X(derivative_order=1)` -/

theorem H1_MAE_eq (D N : ℕ) (u r : List (Array K)) (L : K) (lo hi : Option ℕ) :
    H1_MAE D N u (some r) L lo hi = some (fourierGen 0 D N L (lit 1) (lit 1) lo hi none u r
      + fourierGen 0 D N L (lit 1) (lit 1) lo hi (some (lit 1)) u r) := by
  unfold H1_MAE; rw [fourier_MAE_eq, fourier_MAE_eq]; rfl
theorem H1_nMAE_eq (D N : ℕ) (u r : List (Array K)) (L : K) (lo hi : Option ℕ) :
    H1_nMAE D N u r L lo hi = some (fourierGen 1 D N L (lit 1) (lit 1) lo hi none u r
      + fourierGen 1 D N L (lit 1) (lit 1) lo hi (some (lit 1)) u r) := by
  unfold H1_nMAE; rw [fourier_nMAE_eq, fourier_nMAE_eq]; rfl
theorem H1_MSE_eq (D N : ℕ) (u r : List (Array K)) (L : K) (lo hi : Option ℕ) :
    H1_MSE D N u (some r) L lo hi = some (fourierGen 0 D N L (lit 2) (lit 1) lo hi none u r
      + fourierGen 0 D N L (lit 2) (lit 1) lo hi (some (lit 1)) u r) := by
  unfold H1_MSE; rw [fourier_MSE_eq, fourier_MSE_eq]; rfl
theorem H1_nMSE_eq (D N : ℕ) (u r : List (Array K)) (L : K) (lo hi : Option ℕ) :
    H1_nMSE D N u r L lo hi = some (fourierGen 1 D N L (lit 2) (lit 1) lo hi none u r
      + fourierGen 1 D N L (lit 2) (lit 1) lo hi (some (lit 1)) u r) := by
  unfold H1_nMSE; rw [fourier_nMSE_eq, fourier_nMSE_eq]; rfl
theorem H1_RMSE_eq (D N : ℕ) (u r : List (Array K)) (L : K) (lo hi : Option ℕ) :
    H1_RMSE D N u (some r) L lo hi = some (fourierGen 0 D N L (lit 2) (qlit 1 2) lo hi none u r
      + fourierGen 0 D N L (lit 2) (qlit 1 2) lo hi (some (lit 1)) u r) := by
  unfold H1_RMSE; rw [fourier_RMSE_eq, fourier_RMSE_eq]; rfl
theorem H1_nRMSE_eq (D N : ℕ) (u r : List (Array K)) (L : K) (lo hi : Option ℕ) :
    H1_nRMSE D N u r L lo hi = some (fourierGen 1 D N L (lit 2) (qlit 1 2) lo hi none u r
      + fourierGen 1 D N L (lit 2) (qlit 1 2) lo hi (some (lit 1)) u r) := by
  unfold H1_nRMSE; rw [fourier_nRMSE_eq, fourier_nRMSE_eq]; rfl

end

/-! ### `_correlation.py`: the channel mean -/
section
variable {K : Type} [Add K] [Sub K] [Mul K] [Div K] [Neg K] [Zero K] [One K] [NatCast K] [IntCast K] [HasSqrt K]

theorem correlation_eq (u r : List (Array K)) :
    correlation u r = sumList (List.zipWith (fun a b => priv_correlation a b) u r)
      / lit (List.zipWith (fun (a b : Array K) => priv_correlation a b) u r).length := rfl

end
end Exponax.Gen.MetricsGen
