import Mathlib.Analysis.Calculus.Deriv.Mul
import Mathlib.Analysis.Calculus.Deriv.Add
import Mathlib.Analysis.Calculus.IteratedDeriv.Defs
import Mathlib.Analysis.SpecialFunctions.ExpDeriv
import Mathlib.Analysis.Complex.RealDeriv
import ExponaxModel.Proofs.Instances
import ExponaxModel.Model.Nonlin
import ExponaxModel.Generated.Etdrk
/-
Algebra of the linear symbols (`Nonlin.deriv`, `Nonlin.polySymbol`) and of the
regenerated linear propagator (`Gen.Etdrk.exp_term`, `E0step`) at `K := ℂ`.

S0  foldl-forms = `List.prod`/`List.sum`, closed form of `deriv` and its powers
S1  `polyAt`, zero mode, conjugate symmetry, plane waves
S2  real parts of the documented linear symbols (general `D`)
S3  propagator facts
-/
set_option linter.unusedVariables false
namespace Exponax
open Exponax.Layout Exponax.Nonlin Exponax.Gen.Etdrk
open scoped ComplexConjugate

/-! ## S0 -/

theorem prodList_eq {K : Type} [Monoid K] (l : List K) : prodList l = l.prod := by
  unfold prodList
  have h : ∀ (a : K) (l : List K), List.foldl (· * ·) a l = a * l.prod := by
    intro a l
    induction l generalizing a with
    | nil => simp
    | cons x xs ih => simp [ih, mul_assoc]
  simpa using h 1 l

theorem sumList_eq' {K : Type} [Semiring K] (l : List K) : sumList l = l.sum := sumList_eq l

/-- list sums / products over `List.range` are the `Finset.range` big operators -/
theorem list_range_sum {M : Type} [AddCommMonoid M] (n : ℕ) (f : ℕ → M) :
    ((List.range n).map f).sum = ∑ i ∈ Finset.range n, f i := rfl

theorem list_range_prod {M : Type} [CommMonoid M] (n : ℕ) (f : ℕ → M) :
    ((List.range n).map f).prod = ∏ i ∈ Finset.range n, f i := rfl

/-- the integer wavenumber of stored mode `h` along axis `d` -/
def wnAt (c : Cfg ℂ) (d h : ℕ) : ℤ := (wnFlat c.D c.N h).getD d 0

theorem wnAt_def (c : Cfg ℂ) (d h : ℕ) : wnAt c d h = (wnFlat c.D c.N h).getD d 0 := rfl

/-- `deriv = i·(s·k_d)` with a real scale `s` -/
theorem deriv_eq (c : Cfg ℂ) (s : ℝ) (hs : c.s = (s : ℂ)) (d h : ℕ) :
    Nonlin.deriv c d h = Complex.I * ((s * (wnAt c d h : ℝ) : ℝ) : ℂ) := by
  unfold Nonlin.deriv wnAt
  rw [hs]
  push_cast
  rfl

theorem deriv_pow (c : Cfg ℂ) (s : ℝ) (hs : c.s = (s : ℂ)) (d h n : ℕ) :
    (Nonlin.deriv c d h) ^ n = Complex.I ^ n * (((s * (wnAt c d h : ℝ)) ^ n : ℝ) : ℂ) := by
  rw [deriv_eq c s hs, mul_pow]
  push_cast
  rfl

/-- real part of `(i x)^n`, `x` real -/
theorem I_mul_real_pow_re (x : ℝ) (n : ℕ) :
    ((Complex.I * (x : ℂ)) ^ n).re = if Even n then (-1) ^ (n / 2) * x ^ n else 0 := by
  rw [mul_pow, ← Complex.ofReal_pow]
  rcases Nat.even_or_odd' n with ⟨m, rfl | rfl⟩
  · have h1 : Complex.I ^ (2 * m) = (((-1 : ℝ) ^ m : ℝ) : ℂ) := by
      rw [pow_mul, Complex.I_sq]; push_cast; rfl
    rw [h1, ← Complex.ofReal_mul, Complex.ofReal_re]
    simp
  · have h1 : Complex.I ^ (2 * m + 1) = (((-1 : ℝ) ^ m : ℝ) : ℂ) * Complex.I := by
      rw [pow_succ, pow_mul, Complex.I_sq]; push_cast; rfl
    rw [h1]
    have : ¬ Even (2 * m + 1) := by simp
    rw [if_neg this, mul_assoc, Complex.re_ofReal_mul]
    simp [-Complex.ofReal_pow]

/-- imaginary part of `(i x)^n`, `x` real -/
theorem I_mul_real_pow_im (x : ℝ) (n : ℕ) :
    ((Complex.I * (x : ℂ)) ^ n).im = if Even n then 0 else (-1) ^ (n / 2) * x ^ n := by
  rw [mul_pow, ← Complex.ofReal_pow]
  rcases Nat.even_or_odd' n with ⟨m, rfl | rfl⟩
  · have h1 : Complex.I ^ (2 * m) = (((-1 : ℝ) ^ m : ℝ) : ℂ) := by
      rw [pow_mul, Complex.I_sq]; push_cast; rfl
    rw [h1, ← Complex.ofReal_mul, Complex.ofReal_im]
    simp
  · have h1 : Complex.I ^ (2 * m + 1) = (((-1 : ℝ) ^ m : ℝ) : ℂ) * Complex.I := by
      rw [pow_succ, pow_mul, Complex.I_sq]; push_cast; rfl
    rw [h1]
    have : ¬ Even (2 * m + 1) := by simp
    rw [if_neg this, mul_assoc, Complex.im_ofReal_mul]
    have h2 : (2 * m + 1) / 2 = m := by omega
    simp [h2, -Complex.ofReal_pow]

theorem deriv_pow_re (c : Cfg ℂ) (s : ℝ) (hs : c.s = (s : ℂ)) (d h n : ℕ) :
    ((Nonlin.deriv c d h) ^ n).re =
      if Even n then (-1) ^ (n / 2) * (s * (wnAt c d h : ℝ)) ^ n else 0 := by
  rw [deriv_eq c s hs]; exact I_mul_real_pow_re _ n

theorem deriv_pow_re_odd (c : Cfg ℂ) (s : ℝ) (hs : c.s = (s : ℂ)) (d h n : ℕ) (hn : Odd n) :
    ((Nonlin.deriv c d h) ^ n).re = 0 := by
  rw [deriv_pow_re c s hs, if_neg (Nat.not_even_iff_odd.mpr hn)]

theorem deriv_pow_re_even (c : Cfg ℂ) (s : ℝ) (hs : c.s = (s : ℂ)) (d h n : ℕ) (hn : Even n) :
    ((Nonlin.deriv c d h) ^ n).re = (-1) ^ (n / 2) * (s * (wnAt c d h : ℝ)) ^ n := by
  rw [deriv_pow_re c s hs, if_pos hn]

/-! ## S1  `polyAt` -/

/-- monomial `Π_d κ_d^{α_d}` over the entries of `κ` (missing exponents count as `0`) -/
noncomputable def monoAt (κ : List ℂ) (α : List ℕ) : ℂ :=
  ((List.range κ.length).map (fun d => κ.getD d 0 ^ α.getD d 0)).prod

/-- `Σ coef · Π_d κ_d^{α_d}` -/
noncomputable def polyAt (κ : List ℂ) (terms : List (ℂ × List ℕ)) : ℂ :=
  (terms.map (fun t => t.1 * monoAt κ t.2)).sum

/-- the vector `(i s k_d)_d` of derivative symbols at stored mode `h` -/
noncomputable def kappa (c : Cfg ℂ) (h : ℕ) : List ℂ := (List.range c.D).map (fun d => Nonlin.deriv c d h)

@[simp] theorem kappa_length (c : Cfg ℂ) (h : ℕ) : (kappa c h).length = c.D := by simp [kappa]

theorem kappa_getD (c : Cfg ℂ) (h d : ℕ) (hd : d < c.D) : (kappa c h).getD d 0 = Nonlin.deriv c d h := by
  simp [kappa, List.getD_eq_getElem?_getD, hd]

theorem monoAt_eq_prod (κ : List ℂ) (α : List ℕ) :
    monoAt κ α = ∏ d ∈ Finset.range κ.length, κ.getD d 0 ^ α.getD d 0 := rfl

theorem polyAt_nil (κ : List ℂ) : polyAt κ [] = 0 := rfl

theorem polyAt_cons (κ : List ℂ) (t : ℂ × List ℕ) (ts : List (ℂ × List ℕ)) :
    polyAt κ (t :: ts) = t.1 * monoAt κ t.2 + polyAt κ ts := by
  simp [polyAt]

theorem polyAt_append (κ : List ℂ) (a b : List (ℂ × List ℕ)) :
    polyAt κ (a ++ b) = polyAt κ a + polyAt κ b := by
  simp [polyAt]

theorem polySymbol_eq_polyAt (c : Cfg ℂ) (terms : List (ℂ × List ℕ)) (h : ℕ) :
    polySymbol c terms h = polyAt (kappa c h) terms := by
  unfold polySymbol polyAt
  rw [sumList_eq]
  congr 1
  apply List.map_congr_left
  intro t _
  rw [prodList_eq, monoAt_eq_prod, kappa_length, list_range_prod]
  congr 1
  apply Finset.prod_congr rfl
  intro d hd
  rw [npow_eq, kappa_getD c h d (Finset.mem_range.mp hd)]

/-- sum form of `polySymbol` -/
theorem polySymbol_eq_sum (c : Cfg ℂ) (terms : List (ℂ × List ℕ)) (h : ℕ) :
    polySymbol c terms h
      = (terms.map (fun t => t.1 * ∏ d ∈ Finset.range c.D, Nonlin.deriv c d h ^ t.2.getD d 0)).sum := by
  rw [polySymbol_eq_polyAt]
  unfold polyAt
  congr 1
  apply List.map_congr_left
  intro t _
  rw [monoAt_eq_prod, kappa_length]
  congr 1
  apply Finset.prod_congr rfl
  intro d hd
  rw [kappa_getD c h d (Finset.mem_range.mp hd)]

/-! ### S1(a) zero mode -/

/-- the exponent vector vanishes on the first `D` axes: the monomial is the constant `1` -/
def isConstTerm (D : ℕ) (α : List ℕ) : Bool := (List.range D).all (fun d => α.getD d 0 == 0)

theorem isConstTerm_iff (D : ℕ) (α : List ℕ) : isConstTerm D α = true ↔ ∀ d < D, α.getD d 0 = 0 := by
  simp [isConstTerm]

theorem monoAt_zero (κ : List ℂ) (hκ : ∀ d < κ.length, κ.getD d 0 = 0) (α : List ℕ) :
    monoAt κ α = if isConstTerm κ.length α then 1 else 0 := by
  rw [monoAt_eq_prod]
  split_ifs with h
  · rw [isConstTerm_iff] at h
    apply Finset.prod_eq_one
    intro d hd
    rw [h d (Finset.mem_range.mp hd), pow_zero]
  · rw [isConstTerm_iff] at h
    push Not at h
    obtain ⟨d, hd, hne⟩ := h
    apply Finset.prod_eq_zero (Finset.mem_range.mpr hd)
    rw [hκ d hd, zero_pow hne]

theorem polyAt_zero (κ : List ℂ) (hκ : ∀ d < κ.length, κ.getD d 0 = 0) (terms : List (ℂ × List ℕ)) :
    polyAt κ terms = ((terms.filter (fun t => isConstTerm κ.length t.2)).map Prod.fst).sum := by
  induction terms with
  | nil => simp [polyAt]
  | cons t ts ih =>
    rw [polyAt_cons, ih, monoAt_zero κ hκ, List.filter_cons]
    split_ifs <;> simp

theorem deriv_of_wn_zero (c : Cfg ℂ) (d h : ℕ) (hk : wnAt c d h = 0) : Nonlin.deriv c d h = 0 := by
  unfold Nonlin.deriv
  rw [← wnAt_def, hk]
  show Complex.I * (c.s * ((0 : ℤ) : ℂ)) = 0
  simp

/-- ZERO MODE: at a mode all of whose wavenumbers vanish the symbol is the sum of the coefficients
    of the derivative-free terms -/
theorem polySymbol_zero_mode (c : Cfg ℂ) (terms : List (ℂ × List ℕ)) (h : ℕ)
    (hk : ∀ d < c.D, wnAt c d h = 0) :
    polySymbol c terms h = ((terms.filter (fun t => isConstTerm c.D t.2)).map Prod.fst).sum := by
  rw [polySymbol_eq_polyAt, polyAt_zero, kappa_length]
  intro d hd
  rw [kappa_length] at hd
  rw [kappa_getD c h d hd, deriv_of_wn_zero c d h (hk d hd)]

/-- the spatial mean is conserved by the linear part of an operator without zeroth-order term -/
theorem polySymbol_zero_mode_eq_zero (c : Cfg ℂ) (terms : List (ℂ × List ℕ)) (h : ℕ)
    (hk : ∀ d < c.D, wnAt c d h = 0) (hpos : ∀ t ∈ terms, ∃ d < c.D, 0 < t.2.getD d 0) :
    polySymbol c terms h = 0 := by
  rw [polySymbol_zero_mode c terms h hk]
  have : terms.filter (fun t => isConstTerm c.D t.2) = [] := by
    rw [List.filter_eq_nil_iff]
    intro t ht hc
    rw [isConstTerm_iff] at hc
    obtain ⟨d, hd, hp⟩ := hpos t ht
    rw [hc d hd] at hp
    exact lt_irrefl 0 hp
  rw [this]; rfl

/-! ### S1(b) conjugate symmetry -/

theorem getD_map_neg (κ : List ℂ) (d : ℕ) : (κ.map (fun z => -z)).getD d 0 = -(κ.getD d 0) := by
  simp only [List.getD_eq_getElem?_getD, List.getElem?_map]
  cases κ[d]? <;> simp

theorem getD_mem_of_lt (κ : List ℂ) (d : ℕ) (hd : d < κ.length) : κ.getD d 0 ∈ κ := by
  simp [List.getD_eq_getElem?_getD, List.getElem?_eq_getElem hd]

theorem conj_eq_neg_of_re_zero (z : ℂ) (hz : z.re = 0) : conj z = -z := by
  apply Complex.ext <;> simp [hz]

theorem monoAt_neg_eq_conj (κ : List ℂ) (hκ : ∀ z ∈ κ, z.re = 0) (α : List ℕ) :
    monoAt (κ.map (fun z => -z)) α = conj (monoAt κ α) := by
  rw [monoAt_eq_prod, monoAt_eq_prod, map_prod, List.length_map]
  apply Finset.prod_congr rfl
  intro d hd
  rw [map_pow, getD_map_neg, conj_eq_neg_of_re_zero _ (hκ _ (getD_mem_of_lt κ d (Finset.mem_range.mp hd)))]

/-- CONJUGATE SYMMETRY: for real coefficients and purely imaginary `κ_d`, negating every `κ_d`
    conjugates the symbol -/
theorem polyAt_neg_eq_conj (κ : List ℂ) (terms : List (ℂ × List ℕ))
    (hκ : ∀ z ∈ κ, z.re = 0) (hc : ∀ t ∈ terms, t.1.im = 0) :
    polyAt (κ.map (fun z => -z)) terms = conj (polyAt κ terms) := by
  induction terms with
  | nil => simp [polyAt]
  | cons t ts ih =>
    rw [polyAt_cons, polyAt_cons, map_add, map_mul, monoAt_neg_eq_conj κ hκ,
      ih (fun t ht => hc t (List.mem_cons_of_mem _ ht))]
    have : conj t.1 = t.1 := Complex.conj_eq_iff_im.mpr (hc t List.mem_cons_self)
    rw [this]

/-- Hermitian symmetry of the symbol: if mode `h'` carries the negated wavenumbers of mode `h`
    then (real scale, real coefficients) `λ(h') = conj λ(h)` -/
theorem polySymbol_neg_wn_eq_conj (c : Cfg ℂ) (s : ℝ) (hs : c.s = (s : ℂ)) (terms : List (ℂ × List ℕ))
    (h h' : ℕ) (hk : ∀ d < c.D, wnAt c d h' = - wnAt c d h) (hc : ∀ t ∈ terms, t.1.im = 0) :
    polySymbol c terms h' = conj (polySymbol c terms h) := by
  rw [polySymbol_eq_polyAt, polySymbol_eq_polyAt]
  have h1 : kappa c h' = (kappa c h).map (fun z => -z) := by
    unfold kappa
    rw [List.map_map]
    apply List.map_congr_left
    intro d hd
    have hd' : d < c.D := List.mem_range.mp hd
    simp only [Function.comp]
    rw [deriv_eq c s hs, deriv_eq c s hs, hk d hd']
    push_cast
    ring
  rw [h1]
  apply polyAt_neg_eq_conj _ _ _ hc
  intro z hz
  unfold kappa at hz
  rw [List.mem_map] at hz
  obtain ⟨d, _, rfl⟩ := hz
  rw [deriv_eq c s hs]
  simp

/-! ### S1(c) plane waves -/

/-- the propagated mode `û(t) = exp(t λ) û₀` solves `û' = λ û` (complex time) -/
theorem hasDerivAt_exp_mode (lam u0 t : ℂ) :
    HasDerivAt (fun t : ℂ => Complex.exp (t * lam) * u0) (lam * (Complex.exp (t * lam) * u0)) t := by
  have h1 : HasDerivAt (fun t : ℂ => t * lam) lam t := by
    simpa using HasDerivAt.mul_const (hasDerivAt_id t) lam
  have h2 := HasDerivAt.mul_const (HasDerivAt.cexp h1) u0
  have h3 : lam * (Complex.exp (t * lam) * u0) = Complex.exp (t * lam) * lam * u0 := by ring
  rw [h3]
  exact h2

/-- real time -/
theorem hasDerivAt_exp_mode_real (lam u0 : ℂ) (t : ℝ) :
    HasDerivAt (fun t : ℝ => Complex.exp ((t : ℂ) * lam) * u0)
      (lam * (Complex.exp ((t : ℂ) * lam) * u0)) t :=
  HasDerivAt.comp_ofReal (hasDerivAt_exp_mode lam u0 (t : ℂ))

/-- PLANE WAVES / "ETDRK0 is exact": with `λ = polyAt κ terms`, `κ_d = i x_d`, the map
    `t ↦ E0step (exp_term t λ) û₀` is the solution of `û' = λ û`, `û(0) = û₀` -/
theorem E0step_exact (x : List ℝ) (terms : List (ℂ × List ℕ)) (u0 : ℂ) (t : ℝ) :
    let lam := polyAt (x.map (fun r : ℝ => Complex.I * (r : ℂ))) terms
    HasDerivAt (fun t : ℝ => E0step (exp_term (t : ℂ) lam) u0) (lam * E0step (exp_term (t : ℂ) lam) u0) t
      ∧ E0step (exp_term ((0 : ℝ) : ℂ) lam) u0 = u0 := by
  intro lam
  constructor
  · simpa [E0step, exp_term] using hasDerivAt_exp_mode_real lam u0 t
  · simp [E0step, exp_term]

/-- the same for the model symbol of any stored mode -/
theorem E0step_exact_polySymbol (c : Cfg ℂ) (terms : List (ℂ × List ℕ)) (h : ℕ) (u0 : ℂ) (t : ℝ) :
    HasDerivAt (fun t : ℝ => E0step (exp_term (t : ℂ) (polySymbol c terms h)) u0)
      (polySymbol c terms h * E0step (exp_term (t : ℂ) (polySymbol c terms h)) u0) t
      ∧ E0step (exp_term ((0 : ℝ) : ℂ) (polySymbol c terms h)) u0 = u0 := by
  constructor
  · simpa [E0step, exp_term] using hasDerivAt_exp_mode_real (polySymbol c terms h) u0 t
  · simp [E0step, exp_term]

/-! ## S3  propagator facts (regenerated `exp_term`, `E0step`) -/

theorem exp_term_eq (dt lam : ℂ) : exp_term dt lam = Complex.exp (dt * lam) := by
  simp [exp_term]

theorem norm_exp_term (dt lam : ℂ) :
    ‖exp_term dt lam‖ = Real.exp (dt.re * lam.re - dt.im * lam.im) := by
  rw [exp_term_eq, Complex.norm_exp, Complex.mul_re]

theorem norm_exp_term_real (dt : ℝ) (lam : ℂ) :
    ‖exp_term (dt : ℂ) lam‖ = Real.exp (dt * lam.re) := by
  rw [norm_exp_term]; simp

theorem norm_exp_term_le_one (dt : ℝ) (lam : ℂ) (hdt : 0 ≤ dt) (hl : lam.re ≤ 0) :
    ‖exp_term (dt : ℂ) lam‖ ≤ 1 := by
  rw [norm_exp_term_real, Real.exp_le_one_iff]
  exact mul_nonpos_of_nonneg_of_nonpos hdt hl

theorem norm_exp_term_eq_one (dt : ℝ) (lam : ℂ) (hl : lam.re = 0) :
    ‖exp_term (dt : ℂ) lam‖ = 1 := by
  rw [norm_exp_term_real, hl, mul_zero, Real.exp_zero]

theorem norm_exp_term_lt_one (dt : ℝ) (lam : ℂ) (hdt : 0 < dt) (hl : lam.re < 0) :
    ‖exp_term (dt : ℂ) lam‖ < 1 := by
  rw [norm_exp_term_real, Real.exp_lt_one_iff]
  exact mul_neg_of_pos_of_neg hdt hl

/-- one linear step does not increase (resp. preserves, strictly decreases) the modulus of a mode -/
theorem norm_E0step_le (dt : ℝ) (lam u : ℂ) (hdt : 0 ≤ dt) (hl : lam.re ≤ 0) :
    ‖E0step (exp_term (dt : ℂ) lam) u‖ ≤ ‖u‖ := by
  have h := norm_exp_term_le_one dt lam hdt hl
  have : E0step (exp_term (dt : ℂ) lam) u = exp_term (dt : ℂ) lam * u := by simp [E0step]
  rw [this, norm_mul]
  exact mul_le_of_le_one_left (norm_nonneg u) h

theorem norm_E0step_eq (dt : ℝ) (lam u : ℂ) (hl : lam.re = 0) :
    ‖E0step (exp_term (dt : ℂ) lam) u‖ = ‖u‖ := by
  have : E0step (exp_term (dt : ℂ) lam) u = exp_term (dt : ℂ) lam * u := by simp [E0step]
  rw [this, norm_mul, norm_exp_term_eq_one dt lam hl, one_mul]

/-- semigroup property -/
theorem exp_term_pow (dt lam : ℂ) (n : ℕ) : (exp_term dt lam) ^ n = exp_term ((n : ℂ) * dt) lam := by
  rw [exp_term_eq, exp_term_eq, mul_assoc, Complex.exp_nat_mul]

theorem exp_term_add (dt1 dt2 lam : ℂ) :
    exp_term (dt1 + dt2) lam = exp_term dt2 lam * exp_term dt1 lam := by
  rw [exp_term_eq, exp_term_eq, exp_term_eq, ← Complex.exp_add]; congr 1; ring

/-- `n` applications of `E0step` with `dt` equal one application with `n·dt` -/
theorem E0step_iterate (dt lam u : ℂ) (n : ℕ) :
    (E0step (exp_term dt lam))^[n] u = E0step (exp_term ((n : ℂ) * dt) lam) u := by
  rw [← exp_term_pow]
  induction n generalizing u with
  | zero => simp [E0step]
  | succ n ih =>
    rw [Function.iterate_succ_apply', ih]
    simp only [E0step]
    ring

theorem E0step_add (dt1 dt2 lam u : ℂ) :
    E0step (exp_term dt2 lam) (E0step (exp_term dt1 lam) u) = E0step (exp_term (dt1 + dt2) lam) u := by
  rw [exp_term_add]
  simp only [E0step]
  ring

theorem exp_term_neg_mul (dt lam : ℂ) : exp_term (-dt) lam * exp_term dt lam = 1 := by
  rw [exp_term_eq, exp_term_eq, ← Complex.exp_add]
  simp

/-- a step with `−dt` undoes a step with `dt` -/
theorem E0step_neg (dt lam u : ℂ) : E0step (exp_term (-dt) lam) (E0step (exp_term dt lam) u) = u := by
  have h := exp_term_neg_mul dt lam
  have : E0step (exp_term (-dt) lam) (E0step (exp_term dt lam) u)
      = (exp_term (-dt) lam * exp_term dt lam) * u := by
    simp only [E0step]; ring
  rw [this, h, one_mul]

theorem exp_term_ne_zero (dt lam : ℂ) : exp_term dt lam ≠ 0 := by
  rw [exp_term_eq]; exact Complex.exp_ne_zero _

/-- Hermitian symmetry of the propagated spectrum is preserved (real `dt`) -/
theorem exp_term_conj (dt : ℝ) (lam : ℂ) :
    exp_term (dt : ℂ) (conj lam) = conj (exp_term (dt : ℂ) lam) := by
  rw [exp_term_eq, exp_term_eq, ← Complex.exp_conj, map_mul, Complex.conj_ofReal]

theorem E0step_conj (dt : ℝ) (lam u : ℂ) :
    E0step (exp_term (dt : ℂ) (conj lam)) (conj u) = conj (E0step (exp_term (dt : ℂ) lam) u) := by
  rw [exp_term_conj]
  simp [E0step]

/-! ## S2  the documented linear symbols

Lean mirrors of the term-list builders of the Python-side specification table
(`harness/props/steppers.py`: `e`, `lap`, `const`, `grad_inner`, `pscale`, `pmul`,
`quad_terms`, `general_linear`). -/

/-- `e(D, d, p)`: `p` at position `d`, zeros elsewhere -/
def eVec (D d p : ℕ) : List ℕ := (List.replicate D 0).set d p

/-- `grad_inner(D, v, order)`: `Σ_d v_d ∂_d^order` -/
def gradInner (D : ℕ) (v : ℕ → ℂ) (order : ℕ) : List (ℂ × List ℕ) :=
  (List.range D).map (fun d => (v d, eVec D d order))

/-- `lap(D, coef, order)`: `coef · Σ_d ∂_d^order` -/
def lapT (D : ℕ) (coef : ℂ) (order : ℕ) : List (ℂ × List ℕ) :=
  (List.range D).map (fun d => (coef, eVec D d order))

/-- `const(D, coef)` -/
def constT (D : ℕ) (coef : ℂ) : List (ℂ × List ℕ) := [(coef, List.replicate D 0)]

/-- `pscale(s, a)` -/
noncomputable def pscale (s : ℂ) (a : List (ℂ × List ℕ)) : List (ℂ × List ℕ) :=
  a.map (fun t => (s * t.1, t.2))

/-- `out[k] = out.get(k, 0.0) + c` on an insertion-ordered dictionary -/
noncomputable def insertTerm (c : ℂ) (k : List ℕ) : List (ℂ × List ℕ) → List (ℂ × List ℕ)
  | [] => [(0 + c, k)]
  | t :: r => if t.2 = k then (t.1 + c, t.2) :: r else t :: insertTerm c k r

/-- all pairwise products, before merging equal exponent vectors -/
noncomputable def pmulRaw (a b : List (ℂ × List ℕ)) : List (ℂ × List ℕ) :=
  a.flatMap (fun ta => b.map (fun tb => (ta.1 * tb.1, List.zipWith (· + ·) ta.2 tb.2)))

/-- `pmul(a, b)`: product of two operators, equal exponent vectors merged -/
noncomputable def pmul (a b : List (ℂ × List ℕ)) : List (ℂ × List ℕ) :=
  (pmulRaw a b).foldl (fun acc t => insertTerm t.1 t.2 acc) []

/-- `quad_terms(D, A)`: `Σ_ij A_ij ∂_i ∂_j` -/
def quadTerms (D : ℕ) (A : ℕ → ℕ → ℂ) : List (ℂ × List ℕ) :=
  (List.range D).flatMap (fun i => (List.range D).map (fun j =>
    (A i j, (eVec D i 1).set j ((eVec D i 1).getD j 0 + 1))))

/-- `general_linear(D, coefs)`: `Σ_j a_j Σ_d ∂_d^j` (`a_0` enters `D` times) -/
def generalLinear (D : ℕ) (coefs : List ℂ) : List (ℂ × List ℕ) :=
  (coefs.mapIdx (fun j a =>
    if j = 0 then List.replicate D (a, List.replicate D 0) else lapT D a j)).flatten

theorem lapT_eq_gradInner (D : ℕ) (coef : ℂ) (order : ℕ) :
    lapT D coef order = gradInner D (fun _ => coef) order := rfl

/-! ### evaluation of the builders -/

theorem eVec_length (D d p : ℕ) : (eVec D d p).length = D := by simp [eVec]

theorem eVec_getD (D d p j : ℕ) : (eVec D d p).getD j 0 = if j = d ∧ d < D then p else 0 := by
  simp only [eVec, List.getD_eq_getElem?_getD, List.getElem?_set, List.length_replicate,
    List.getElem?_replicate]
  split_ifs <;> simp_all

theorem monoAt_eVec (κ : List ℂ) (d p : ℕ) (hd : d < κ.length) :
    monoAt κ (eVec κ.length d p) = κ.getD d 0 ^ p := by
  rw [monoAt_eq_prod, Finset.prod_eq_single d]
  · rw [eVec_getD]; simp [hd]
  · intro j _ hj
    rw [eVec_getD, if_neg (by tauto), pow_zero]
  · intro h; exact absurd (Finset.mem_range.mpr hd) h

theorem monoAt_replicate_zero (κ : List ℂ) (n : ℕ) : monoAt κ (List.replicate n 0) = 1 := by
  rw [monoAt_eq_prod]
  apply Finset.prod_eq_one
  intro d _
  have : (List.replicate n 0).getD d 0 = 0 := by
    simp only [List.getD_eq_getElem?_getD, List.getElem?_replicate]
    split_ifs <;> simp
  rw [this, pow_zero]

theorem polyAt_gradInner (κ : List ℂ) (v : ℕ → ℂ) (p : ℕ) :
    polyAt κ (gradInner κ.length v p) = ∑ d ∈ Finset.range κ.length, v d * κ.getD d 0 ^ p := by
  unfold polyAt gradInner
  rw [List.map_map, list_range_sum]
  apply Finset.sum_congr rfl
  intro d hd
  simp only [Function.comp]
  rw [monoAt_eVec κ d p (Finset.mem_range.mp hd)]

theorem polyAt_lapT (κ : List ℂ) (coef : ℂ) (p : ℕ) :
    polyAt κ (lapT κ.length coef p) = coef * ∑ d ∈ Finset.range κ.length, κ.getD d 0 ^ p := by
  rw [lapT_eq_gradInner, polyAt_gradInner, Finset.mul_sum]

theorem polyAt_constT (κ : List ℂ) (D : ℕ) (coef : ℂ) : polyAt κ (constT D coef) = coef := by
  simp [polyAt, constT, monoAt_replicate_zero]

theorem polyAt_pscale (κ : List ℂ) (s : ℂ) (a : List (ℂ × List ℕ)) :
    polyAt κ (pscale s a) = s * polyAt κ a := by
  induction a with
  | nil => simp [polyAt, pscale]
  | cons t ts ih =>
    have : pscale s (t :: ts) = (s * t.1, t.2) :: pscale s ts := rfl
    rw [this, polyAt_cons, polyAt_cons, ih]
    ring

theorem polyAt_insertTerm (κ : List ℂ) (c : ℂ) (k : List ℕ) (acc : List (ℂ × List ℕ)) :
    polyAt κ (insertTerm c k acc) = c * monoAt κ k + polyAt κ acc := by
  induction acc with
  | nil => simp [insertTerm, polyAt]
  | cons t r ih =>
    unfold insertTerm
    split_ifs with h
    · rw [polyAt_cons, polyAt_cons]
      simp only
      rw [h]; ring
    · rw [polyAt_cons, polyAt_cons, ih]; ring

theorem polyAt_foldl_insertTerm (κ : List ℂ) (l acc : List (ℂ × List ℕ)) :
    polyAt κ (l.foldl (fun acc t => insertTerm t.1 t.2 acc) acc) = polyAt κ acc + polyAt κ l := by
  induction l generalizing acc with
  | nil => simp [polyAt]
  | cons t ts ih =>
    rw [List.foldl_cons, ih, polyAt_insertTerm, polyAt_cons]; ring

/-- merging equal exponent vectors does not change the symbol -/
theorem polyAt_pmul_eq_raw (κ : List ℂ) (a b : List (ℂ × List ℕ)) :
    polyAt κ (pmul a b) = polyAt κ (pmulRaw a b) := by
  unfold pmul
  rw [polyAt_foldl_insertTerm, polyAt_nil, zero_add]

theorem monoAt_zipWith_add (κ : List ℂ) (α β : List ℕ) (hα : κ.length ≤ α.length)
    (hβ : κ.length ≤ β.length) :
    monoAt κ (List.zipWith (· + ·) α β) = monoAt κ α * monoAt κ β := by
  rw [monoAt_eq_prod, monoAt_eq_prod, monoAt_eq_prod, ← Finset.prod_mul_distrib]
  apply Finset.prod_congr rfl
  intro d hd
  have hd' := Finset.mem_range.mp hd
  have h1 : d < α.length := lt_of_lt_of_le hd' hα
  have h2 : d < β.length := lt_of_lt_of_le hd' hβ
  have h3 : (List.zipWith (· + ·) α β).getD d 0 = α.getD d 0 + β.getD d 0 := by
    simp [List.getD_eq_getElem?_getD, List.getElem?_zipWith, List.getElem?_eq_getElem h1,
      List.getElem?_eq_getElem h2]
  rw [h3, pow_add]

theorem polyAt_flatMap {ι : Type} (κ : List ℂ) (l : List ι) (f : ι → List (ℂ × List ℕ)) :
    polyAt κ (l.flatMap f) = (l.map (fun i => polyAt κ (f i))).sum := by
  induction l with
  | nil => simp [polyAt]
  | cons x xs ih => rw [List.flatMap_cons, polyAt_append, ih]; simp

/-- the symbol of a product of operators is the product of the symbols -/
theorem polyAt_pmul (κ : List ℂ) (a b : List (ℂ × List ℕ))
    (ha : ∀ t ∈ a, κ.length ≤ t.2.length) (hb : ∀ t ∈ b, κ.length ≤ t.2.length) :
    polyAt κ (pmul a b) = polyAt κ a * polyAt κ b := by
  rw [polyAt_pmul_eq_raw]
  unfold pmulRaw
  induction a with
  | nil => simp [polyAt]
  | cons ta as ih =>
    rw [List.flatMap_cons, polyAt_append, ih (fun t ht => ha t (List.mem_cons_of_mem _ ht)),
      polyAt_cons]
    have hta := ha ta List.mem_cons_self
    have : polyAt κ (b.map (fun tb => (ta.1 * tb.1, List.zipWith (· + ·) ta.2 tb.2)))
        = ta.1 * monoAt κ ta.2 * polyAt κ b := by
      clear ih
      induction b with
      | nil => simp [polyAt]
      | cons tb bs ihb =>
        rw [List.map_cons, polyAt_cons, polyAt_cons,
          ihb (fun t ht => hb t (List.mem_cons_of_mem _ ht))]
        simp only
        rw [monoAt_zipWith_add κ _ _ hta (hb tb List.mem_cons_self)]
        ring
    rw [this]; ring

theorem gradInner_wf (D : ℕ) (v : ℕ → ℂ) (p : ℕ) : ∀ t ∈ gradInner D v p, D ≤ t.2.length := by
  intro t ht
  unfold gradInner at ht
  rw [List.mem_map] at ht
  obtain ⟨d, _, rfl⟩ := ht
  simp [eVec_length]

theorem lapT_wf (D : ℕ) (coef : ℂ) (p : ℕ) : ∀ t ∈ lapT D coef p, D ≤ t.2.length :=
  gradInner_wf D _ p

theorem polyAt_quadTerms (κ : List ℂ) (A : ℕ → ℕ → ℂ) :
    polyAt κ (quadTerms κ.length A)
      = ∑ i ∈ Finset.range κ.length, ∑ j ∈ Finset.range κ.length,
          A i j * (κ.getD i 0 * κ.getD j 0) := by
  unfold quadTerms
  rw [polyAt_flatMap, list_range_sum]
  apply Finset.sum_congr rfl
  intro i hi
  have hi' := Finset.mem_range.mp hi
  unfold polyAt
  rw [List.map_map, list_range_sum]
  apply Finset.sum_congr rfl
  intro j hj
  have hj' := Finset.mem_range.mp hj
  simp only [Function.comp]
  congr 1
  have hset : (eVec κ.length i 1).set j ((eVec κ.length i 1).getD j 0 + 1)
      = List.zipWith (· + ·) (eVec κ.length i 1) (eVec κ.length j 1) := by
    apply List.ext_getElem
    · simp [eVec_length]
    · intro l h1 h2
      have hl : l < κ.length := by simpa [eVec_length] using h1
      have e1 : ∀ (a p : ℕ) (h : l < (eVec κ.length a p).length),
          (eVec κ.length a p)[l] = (eVec κ.length a p).getD l 0 := by
        intro a p h
        simp [List.getD_eq_getElem?_getD, List.getElem?_eq_getElem h]
      rw [List.getElem_set, List.getElem_zipWith, e1, e1]
      simp only [eVec_getD]
      by_cases hjl : j = l
      · subst hjl; simp [hj']
      · have : ¬ l = j := fun h => hjl h.symm
        simp [hjl, this]
  rw [hset, monoAt_zipWith_add κ _ _ (by simp [eVec_length]) (by simp [eVec_length]),
    monoAt_eVec κ i 1 hi', monoAt_eVec κ j 1 hj', pow_one, pow_one]

theorem polyAt_generalLinear (κ : List ℂ) (coefs : List ℂ) :
    polyAt κ (generalLinear κ.length coefs)
      = ∑ j ∈ Finset.range coefs.length,
          coefs.getD j 0 * ∑ d ∈ Finset.range κ.length, κ.getD d 0 ^ j := by
  unfold generalLinear
  have hm : coefs.mapIdx (fun j a =>
      if j = 0 then List.replicate κ.length (a, List.replicate κ.length 0) else lapT κ.length a j)
      = (List.range coefs.length).map (fun j => lapT κ.length (coefs.getD j 0) j) := by
    apply List.ext_getElem
    · simp
    · intro j h1 h2
      have hj : j < coefs.length := by simpa using h1
      rw [List.getElem_mapIdx, List.getElem_map, List.getElem_range]
      have hg : coefs.getD j 0 = coefs[j] := by
        simp [List.getD_eq_getElem?_getD, List.getElem?_eq_getElem hj]
      rw [hg]
      split_ifs with h0
      · subst h0
        unfold lapT
        apply List.ext_getElem
        · simp
        · intro d hd1 hd2
          simp [eVec]
      · rfl
  rw [hm, ← List.flatMap_def, polyAt_flatMap, list_range_sum]
  apply Finset.sum_congr rfl
  intro j _
  rw [polyAt_lapT]

/-! ### purely imaginary `κ` -/

/-- the vector `(i y_d)_{d<D}` -/
noncomputable def imagVec (D : ℕ) (y : ℕ → ℝ) : List ℂ :=
  (List.range D).map (fun d => Complex.I * (y d : ℂ))

@[simp] theorem imagVec_length (D : ℕ) (y : ℕ → ℝ) : (imagVec D y).length = D := by simp [imagVec]

theorem imagVec_getD (D : ℕ) (y : ℕ → ℝ) (d : ℕ) (hd : d < D) :
    (imagVec D y).getD d 0 = Complex.I * (y d : ℂ) := by
  simp [imagVec, List.getD_eq_getElem?_getD, hd]

theorem imagVec_re_zero (D : ℕ) (y : ℕ → ℝ) : ∀ z ∈ imagVec D y, z.re = 0 := by
  intro z hz
  unfold imagVec at hz
  rw [List.mem_map] at hz
  obtain ⟨d, _, rfl⟩ := hz
  simp

theorem imagVec_neg (D : ℕ) (y : ℕ → ℝ) :
    imagVec D (fun d => -y d) = (imagVec D y).map (fun z => -z) := by
  unfold imagVec
  rw [List.map_map]
  apply List.map_congr_left
  intro d _
  simp

/-- a list `x` of reals as `imagVec` -/
theorem map_I_mul_eq_imagVec (x : List ℝ) :
    x.map (fun r : ℝ => Complex.I * (r : ℂ)) = imagVec x.length (fun d => x.getD d 0) := by
  apply List.ext_getElem
  · simp
  · intro d h1 h2
    have hd : d < x.length := by simpa using h1
    simp [imagVec, List.getD_eq_getElem?_getD, List.getElem?_eq_getElem hd]

/-- the real vector `(s k_d)_d` of stored mode `h` -/
noncomputable def skAt (c : Cfg ℂ) (s : ℝ) (h : ℕ) (d : ℕ) : ℝ := s * (wnAt c d h : ℝ)

theorem kappa_eq_imagVec (c : Cfg ℂ) (s : ℝ) (hs : c.s = (s : ℂ)) (h : ℕ) :
    kappa c h = imagVec c.D (skAt c s h) := by
  unfold kappa imagVec skAt
  apply List.map_congr_left
  intro d _
  rw [deriv_eq c s hs]

theorem polySymbol_eq_polyAt_imag (c : Cfg ℂ) (s : ℝ) (hs : c.s = (s : ℂ))
    (terms : List (ℂ × List ℕ)) (h : ℕ) :
    polySymbol c terms h = polyAt (imagVec c.D (skAt c s h)) terms := by
  rw [polySymbol_eq_polyAt, kappa_eq_imagVec c s hs]

theorem I_pow_re (n : ℕ) : (Complex.I ^ n).re = if Even n then (-1) ^ (n / 2) else 0 := by
  have := I_mul_real_pow_re 1 n
  simpa using this

theorem I_pow_im (n : ℕ) : (Complex.I ^ n).im = if Even n then 0 else (-1) ^ (n / 2) := by
  have := I_mul_real_pow_im 1 n
  simpa using this

theorem polyAt_imag_gradInner (D : ℕ) (y v : ℕ → ℝ) (p : ℕ) :
    polyAt (imagVec D y) (gradInner D (fun d => (v d : ℂ)) p)
      = Complex.I ^ p * ((∑ d ∈ Finset.range D, v d * y d ^ p : ℝ) : ℂ) := by
  have h := polyAt_gradInner (imagVec D y) (fun d => (v d : ℂ)) p
  rw [imagVec_length] at h
  rw [h]
  push_cast
  rw [Finset.mul_sum]
  apply Finset.sum_congr rfl
  intro d hd
  rw [imagVec_getD D y d (Finset.mem_range.mp hd), mul_pow]
  ring

theorem polyAt_imag_lapT (D : ℕ) (y : ℕ → ℝ) (a : ℝ) (p : ℕ) :
    polyAt (imagVec D y) (lapT D (a : ℂ) p)
      = Complex.I ^ p * ((a * ∑ d ∈ Finset.range D, y d ^ p : ℝ) : ℂ) := by
  rw [lapT_eq_gradInner, polyAt_imag_gradInner D y (fun _ => a) p, Finset.mul_sum]

theorem polyAt_imag_quadTerms (D : ℕ) (y : ℕ → ℝ) (A : ℕ → ℕ → ℝ) :
    polyAt (imagVec D y) (quadTerms D (fun i j => (A i j : ℂ)))
      = -((∑ i ∈ Finset.range D, ∑ j ∈ Finset.range D, A i j * (y i * y j) : ℝ) : ℂ) := by
  have h := polyAt_quadTerms (imagVec D y) (fun i j => (A i j : ℂ))
  rw [imagVec_length] at h
  rw [h]
  push_cast
  rw [← Finset.sum_neg_distrib]
  apply Finset.sum_congr rfl
  intro i hi
  rw [← Finset.sum_neg_distrib]
  apply Finset.sum_congr rfl
  intro j hj
  rw [imagVec_getD D y i (Finset.mem_range.mp hi), imagVec_getD D y j (Finset.mem_range.mp hj)]
  linear_combination ((A i j : ℂ) * (y i : ℂ) * (y j : ℂ)) * Complex.I_sq

theorem polyAt_imag_generalLinear (D : ℕ) (y : ℕ → ℝ) (a : List ℝ) :
    polyAt (imagVec D y) (generalLinear D (a.map (fun r : ℝ => (r : ℂ))))
      = ∑ j ∈ Finset.range a.length,
          Complex.I ^ j * ((a.getD j 0 * ∑ d ∈ Finset.range D, y d ^ j : ℝ) : ℂ) := by
  have h := polyAt_generalLinear (imagVec D y) (a.map (fun r : ℝ => (r : ℂ)))
  rw [imagVec_length, List.length_map] at h
  rw [h]
  apply Finset.sum_congr rfl
  intro j hj
  have hg : (a.map (fun r : ℝ => (r : ℂ))).getD j 0 = ((a.getD j 0 : ℝ) : ℂ) := by
    simp only [List.getD_eq_getElem?_getD, List.getElem?_map]
    cases a[j]? <;> simp
  rw [hg]
  push_cast
  rw [Finset.mul_sum, Finset.mul_sum, Finset.mul_sum]
  apply Finset.sum_congr rfl
  intro d hd
  rw [imagVec_getD D y d (Finset.mem_range.mp hd), mul_pow]
  ring

/-! ### the documented symbols at a stored mode (`k_d = wnAt c d h`, real scale `s`) -/

theorem I_pow_three' : Complex.I ^ 3 = -Complex.I := by
  rw [pow_succ, Complex.I_sq]; ring

theorem I_pow_four' : Complex.I ^ 4 = 1 := by
  have : Complex.I ^ 4 = (Complex.I ^ 2) ^ 2 := by ring
  rw [this, Complex.I_sq]; ring

section S2
variable (c : Cfg ℂ) (s : ℝ) (hs : c.s = (s : ℂ)) (h : ℕ)
include hs

omit hs in
theorem sum_skAt_pow (v : ℕ → ℝ) (p : ℕ) :
    ∑ d ∈ Finset.range c.D, v d * skAt c s h d ^ p
      = s ^ p * ∑ d ∈ Finset.range c.D, v d * (wnAt c d h : ℝ) ^ p := by
  rw [Finset.mul_sum]
  apply Finset.sum_congr rfl
  intro d _
  unfold skAt
  ring

omit hs in
theorem sum_skAt_pow' (p : ℕ) :
    ∑ d ∈ Finset.range c.D, skAt c s h d ^ p
      = s ^ p * ∑ d ∈ Finset.range c.D, (wnAt c d h : ℝ) ^ p := by
  rw [Finset.mul_sum]
  apply Finset.sum_congr rfl
  intro d _
  unfold skAt
  ring

/-- ADVECTION `−v·∇`: `λ = −i s (v·k)` -/
theorem advection_symbol (v : ℕ → ℝ) :
    polySymbol c (pscale (-1) (gradInner c.D (fun d => (v d : ℂ)) 1)) h
      = -(Complex.I * ((s * ∑ d ∈ Finset.range c.D, v d * (wnAt c d h : ℝ) : ℝ) : ℂ)) := by
  rw [polySymbol_eq_polyAt_imag c s hs, polyAt_pscale, polyAt_imag_gradInner, sum_skAt_pow c s h]
  simp only [pow_one]
  ring

theorem advection_symbol_re (v : ℕ → ℝ) :
    (polySymbol c (pscale (-1) (gradInner c.D (fun d => (v d : ℂ)) 1)) h).re = 0 := by
  rw [advection_symbol c s hs h v]
  simp only [Complex.neg_re, Complex.I_mul_re, Complex.ofReal_im, neg_zero]

/-- DIFFUSION `∇·(A∇)`: `λ = −s² kᵀAk` (real for every real `A`) -/
theorem diffusion_symbol (A : ℕ → ℕ → ℝ) :
    polySymbol c (quadTerms c.D (fun i j => (A i j : ℂ))) h
      = ((-(s ^ 2 * ∑ i ∈ Finset.range c.D, ∑ j ∈ Finset.range c.D,
            A i j * ((wnAt c i h : ℝ) * (wnAt c j h : ℝ))) : ℝ) : ℂ) := by
  rw [polySymbol_eq_polyAt_imag c s hs, polyAt_imag_quadTerms, ← Complex.ofReal_neg]
  congr 2
  rw [Finset.mul_sum]
  apply Finset.sum_congr rfl
  intro i _
  rw [Finset.mul_sum]
  apply Finset.sum_congr rfl
  intro j _
  unfold skAt
  ring

theorem diffusion_symbol_re (A : ℕ → ℕ → ℝ) :
    (polySymbol c (quadTerms c.D (fun i j => (A i j : ℂ))) h).re
      = -(s ^ 2 * ∑ i ∈ Finset.range c.D, ∑ j ∈ Finset.range c.D,
            A i j * ((wnAt c i h : ℝ) * (wnAt c j h : ℝ))) := by
  rw [diffusion_symbol c s hs h A, Complex.ofReal_re]

theorem diffusion_symbol_im (A : ℕ → ℕ → ℝ) :
    (polySymbol c (quadTerms c.D (fun i j => (A i j : ℂ))) h).im = 0 := by
  rw [diffusion_symbol c s hs h A, Complex.ofReal_im]

/-- positive semidefinite `A` ⇒ `Re λ ≤ 0` -/
theorem diffusion_symbol_re_nonpos (A : ℕ → ℕ → ℝ)
    (hA : ∀ x : Fin c.D → ℝ, 0 ≤ ∑ i : Fin c.D, ∑ j : Fin c.D, A i j * x i * x j) :
    (polySymbol c (quadTerms c.D (fun i j => (A i j : ℂ))) h).re ≤ 0 := by
  rw [diffusion_symbol_re c s hs h A]
  have h1 := hA (fun i => (wnAt c i h : ℝ))
  have h2 : ∑ i ∈ Finset.range c.D, ∑ j ∈ Finset.range c.D,
      A i j * ((wnAt c i h : ℝ) * (wnAt c j h : ℝ))
      = ∑ i : Fin c.D, ∑ j : Fin c.D, A i j * (wnAt c i h : ℝ) * (wnAt c j h : ℝ) := by
    rw [Finset.sum_range]
    apply Finset.sum_congr rfl
    intro i _
    rw [Finset.sum_range]
    apply Finset.sum_congr rfl
    intro j _
    ring
  rw [h2]
  have : 0 ≤ s ^ 2 := sq_nonneg s
  nlinarith [mul_nonneg this h1]

/-- isotropic diffusion `ν Δ`: `λ = −ν s² |k|²` -/
theorem diffusion_iso_symbol (ν : ℝ) :
    polySymbol c (lapT c.D (ν : ℂ) 2) h
      = ((-(ν * s ^ 2 * ∑ d ∈ Finset.range c.D, (wnAt c d h : ℝ) ^ 2) : ℝ) : ℂ) := by
  rw [polySymbol_eq_polyAt_imag c s hs, polyAt_imag_lapT, sum_skAt_pow' c s h, Complex.I_sq]
  push_cast
  ring

theorem diffusion_iso_symbol_re_nonpos (ν : ℝ) (hν : 0 ≤ ν) :
    (polySymbol c (lapT c.D (ν : ℂ) 2) h).re ≤ 0 ∧ (polySymbol c (lapT c.D (ν : ℂ) 2) h).im = 0 := by
  rw [diffusion_iso_symbol c s hs h ν, Complex.ofReal_re, Complex.ofReal_im]
  refine ⟨?_, rfl⟩
  have h1 : 0 ≤ ∑ d ∈ Finset.range c.D, (wnAt c d h : ℝ) ^ 2 :=
    Finset.sum_nonneg (fun d _ => sq_nonneg _)
  have h2 : 0 ≤ ν * s ^ 2 := mul_nonneg hν (sq_nonneg s)
  nlinarith [mul_nonneg h2 h1]

/-- DISPERSION `ξ·∇³ = Σ ξ_d ∂_d³`: `λ = −i s³ Σ ξ_d k_d³` -/
theorem dispersion_symbol (ξ : ℕ → ℝ) :
    polySymbol c (gradInner c.D (fun d => (ξ d : ℂ)) 3) h
      = -(Complex.I * ((s ^ 3 * ∑ d ∈ Finset.range c.D, ξ d * (wnAt c d h : ℝ) ^ 3 : ℝ) : ℂ)) := by
  rw [polySymbol_eq_polyAt_imag c s hs, polyAt_imag_gradInner, sum_skAt_pow c s h, I_pow_three']
  ring

theorem dispersion_symbol_re (ξ : ℕ → ℝ) :
    (polySymbol c (gradInner c.D (fun d => (ξ d : ℂ)) 3) h).re = 0 := by
  rw [dispersion_symbol c s hs h ξ]
  simp only [Complex.neg_re, Complex.I_mul_re, Complex.ofReal_im, neg_zero]

/-- DISPERSION, mixed form `(ξ·∇)(∇·∇)`: `λ = −i s³ (ξ·k) |k|²` -/
theorem dispersion_mixed_symbol (ξ : ℕ → ℝ) :
    polySymbol c (pmul (gradInner c.D (fun d => (ξ d : ℂ)) 1) (lapT c.D 1 2)) h
      = -(Complex.I * ((s ^ 3 * (∑ d ∈ Finset.range c.D, ξ d * (wnAt c d h : ℝ))
            * ∑ d ∈ Finset.range c.D, (wnAt c d h : ℝ) ^ 2 : ℝ) : ℂ)) := by
  rw [polySymbol_eq_polyAt_imag c s hs, polyAt_pmul _ _ _
    (by rw [imagVec_length]; exact gradInner_wf _ _ _) (by rw [imagVec_length]; exact lapT_wf _ _ _)]
  have h1 : (1 : ℂ) = ((1 : ℝ) : ℂ) := by simp
  rw [h1, polyAt_imag_gradInner, polyAt_imag_lapT, sum_skAt_pow c s h, sum_skAt_pow' c s h,
    Complex.I_sq]
  simp only [pow_one]
  push_cast
  ring

theorem dispersion_mixed_symbol_re (ξ : ℕ → ℝ) :
    (polySymbol c (pmul (gradInner c.D (fun d => (ξ d : ℂ)) 1) (lapT c.D 1 2)) h).re = 0 := by
  rw [dispersion_mixed_symbol c s hs h ξ]
  simp only [Complex.neg_re, Complex.I_mul_re, Complex.ofReal_im, neg_zero]

/-- HYPER-DIFFUSION `−μ Σ ∂_d⁴`: `λ = −μ s⁴ Σ k_d⁴` -/
theorem hyper_symbol (μ : ℝ) :
    polySymbol c (lapT c.D ((-μ : ℝ) : ℂ) 4) h
      = ((-(μ * s ^ 4 * ∑ d ∈ Finset.range c.D, (wnAt c d h : ℝ) ^ 4) : ℝ) : ℂ) := by
  rw [polySymbol_eq_polyAt_imag c s hs, polyAt_imag_lapT, sum_skAt_pow' c s h, I_pow_four']
  push_cast
  ring

/-- HYPER-DIFFUSION, mixed form `−μ (∇·∇)²`: `λ = −μ s⁴ |k|⁴` -/
theorem hyper_mixed_symbol (μ : ℝ) :
    polySymbol c (pscale ((-μ : ℝ) : ℂ) (pmul (lapT c.D 1 2) (lapT c.D 1 2))) h
      = ((-(μ * s ^ 4 * (∑ d ∈ Finset.range c.D, (wnAt c d h : ℝ) ^ 2) ^ 2) : ℝ) : ℂ) := by
  rw [polySymbol_eq_polyAt_imag c s hs, polyAt_pscale, polyAt_pmul _ _ _
    (by rw [imagVec_length]; exact lapT_wf _ _ _) (by rw [imagVec_length]; exact lapT_wf _ _ _)]
  have h1 : (1 : ℂ) = ((1 : ℝ) : ℂ) := by simp
  rw [h1, polyAt_imag_lapT, sum_skAt_pow' c s h, Complex.I_sq]
  push_cast
  ring

omit hs in
theorem sum_wn_pow_pos (p : ℕ) (hp : Even p) (hk : ∃ d < c.D, wnAt c d h ≠ 0) :
    0 < ∑ d ∈ Finset.range c.D, (wnAt c d h : ℝ) ^ p := by
  obtain ⟨d, hd, hne⟩ := hk
  apply Finset.sum_pos'
  · intro i _; exact hp.pow_nonneg _
  · refine ⟨d, Finset.mem_range.mpr hd, ?_⟩
    have : (wnAt c d h : ℝ) ≠ 0 := by exact_mod_cast hne
    exact hp.pow_pos this

theorem hyper_symbol_sign (μ : ℝ) :
    (polySymbol c (lapT c.D ((-μ : ℝ) : ℂ) 4) h).im = 0
    ∧ (0 ≤ μ → (polySymbol c (lapT c.D ((-μ : ℝ) : ℂ) 4) h).re ≤ 0)
    ∧ (0 < μ → s ≠ 0 → (∃ d < c.D, wnAt c d h ≠ 0) →
        (polySymbol c (lapT c.D ((-μ : ℝ) : ℂ) 4) h).re < 0) := by
  rw [hyper_symbol c s hs h μ, Complex.ofReal_re, Complex.ofReal_im]
  have hs4 : 0 ≤ s ^ 4 := (by decide : Even 4).pow_nonneg s
  refine ⟨rfl, ?_, ?_⟩
  · intro hμ
    have h1 : 0 ≤ ∑ d ∈ Finset.range c.D, (wnAt c d h : ℝ) ^ 4 :=
      Finset.sum_nonneg (fun d _ => (by decide : Even 4).pow_nonneg _)
    have := mul_nonneg (mul_nonneg hμ hs4) h1
    linarith
  · intro hμ hs0 hk
    have h1 := sum_wn_pow_pos c h 4 (by decide) hk
    have hs4' : 0 < s ^ 4 := (by decide : Even 4).pow_pos hs0
    have := mul_pos (mul_pos hμ hs4') h1
    linarith

theorem hyper_mixed_symbol_sign (μ : ℝ) :
    (polySymbol c (pscale ((-μ : ℝ) : ℂ) (pmul (lapT c.D 1 2) (lapT c.D 1 2))) h).im = 0
    ∧ (0 ≤ μ → (polySymbol c (pscale ((-μ : ℝ) : ℂ) (pmul (lapT c.D 1 2) (lapT c.D 1 2))) h).re ≤ 0)
    ∧ (0 < μ → s ≠ 0 → (∃ d < c.D, wnAt c d h ≠ 0) →
        (polySymbol c (pscale ((-μ : ℝ) : ℂ) (pmul (lapT c.D 1 2) (lapT c.D 1 2))) h).re < 0) := by
  rw [hyper_mixed_symbol c s hs h μ, Complex.ofReal_re, Complex.ofReal_im]
  have hs4 : 0 ≤ s ^ 4 := (by decide : Even 4).pow_nonneg s
  refine ⟨rfl, ?_, ?_⟩
  · intro hμ
    have := mul_nonneg (mul_nonneg hμ hs4)
      (sq_nonneg (∑ d ∈ Finset.range c.D, (wnAt c d h : ℝ) ^ 2))
    linarith
  · intro hμ hs0 hk
    have h1 := sum_wn_pow_pos c h 2 (by decide) hk
    have hs4' : 0 < s ^ 4 := (by decide : Even 4).pow_pos hs0
    have := mul_pos (mul_pos hμ hs4') (pow_pos h1 2)
    linarith

/-- GENERAL ISOTROPIC LINEAR STEPPER `Σ_j a_j Σ_d ∂_d^j`: closed form -/
theorem general_linear_symbol (a : List ℝ) :
    polySymbol c (generalLinear c.D (a.map (fun r : ℝ => (r : ℂ)))) h
      = ∑ j ∈ Finset.range a.length,
          Complex.I ^ j * ((a.getD j 0 * (s ^ j * ∑ d ∈ Finset.range c.D, (wnAt c d h : ℝ) ^ j) : ℝ) : ℂ) := by
  rw [polySymbol_eq_polyAt_imag c s hs, polyAt_imag_generalLinear]
  apply Finset.sum_congr rfl
  intro j _
  rw [sum_skAt_pow' c s h]

/-- `Re λ = Σ_{j even} a_j (−1)^{j/2} s^j Σ_d k_d^j` -/
theorem general_linear_symbol_re (a : List ℝ) :
    (polySymbol c (generalLinear c.D (a.map (fun r : ℝ => (r : ℂ)))) h).re
      = ∑ j ∈ Finset.range a.length,
          if Even j then a.getD j 0 * (-1) ^ (j / 2) * s ^ j * ∑ d ∈ Finset.range c.D, (wnAt c d h : ℝ) ^ j
          else 0 := by
  rw [general_linear_symbol c s hs h a, Complex.re_sum]
  apply Finset.sum_congr rfl
  intro j _
  rw [Complex.re_mul_ofReal, I_pow_re]
  split_ifs <;> ring

/-- `Im λ = Σ_{j odd} a_j (−1)^{(j−1)/2} s^j Σ_d k_d^j` -/
theorem general_linear_symbol_im (a : List ℝ) :
    (polySymbol c (generalLinear c.D (a.map (fun r : ℝ => (r : ℂ)))) h).im
      = ∑ j ∈ Finset.range a.length,
          if Even j then 0
          else a.getD j 0 * (-1) ^ (j / 2) * s ^ j * ∑ d ∈ Finset.range c.D, (wnAt c d h : ℝ) ^ j := by
  rw [general_linear_symbol c s hs h a, Complex.im_sum]
  apply Finset.sum_congr rfl
  intro j _
  rw [Complex.im_mul_ofReal, I_pow_im]
  split_ifs <;> ring

omit hs in
theorem polySymbol_append (a b : List (ℂ × List ℕ)) :
    polySymbol c (a ++ b) h = polySymbol c a h + polySymbol c b h := by
  rw [polySymbol_eq_polyAt, polySymbol_eq_polyAt, polySymbol_eq_polyAt, polyAt_append]

omit hs in
theorem polySymbol_pscale (r : ℂ) (a : List (ℂ × List ℕ)) :
    polySymbol c (pscale r a) h = r * polySymbol c a h := by
  rw [polySymbol_eq_polyAt, polySymbol_eq_polyAt, polyAt_pscale]

omit hs in
/-- the symbol of a product of operators (`pmul`) is the product of the symbols -/
theorem polySymbol_pmul (a b : List (ℂ × List ℕ))
    (ha : ∀ t ∈ a, c.D ≤ t.2.length) (hb : ∀ t ∈ b, c.D ≤ t.2.length) :
    polySymbol c (pmul a b) h = polySymbol c a h * polySymbol c b h := by
  rw [polySymbol_eq_polyAt, polySymbol_eq_polyAt, polySymbol_eq_polyAt,
    polyAt_pmul _ _ _ (by rw [kappa_length]; exact ha) (by rw [kappa_length]; exact hb)]

/-- ADVECTION–DIFFUSION `−v·∇ + ∇·(A∇)`: `Re λ = −s² kᵀAk`, `Im λ = −s (v·k)` -/
theorem advection_diffusion_symbol (v : ℕ → ℝ) (A : ℕ → ℕ → ℝ) :
    polySymbol c (pscale (-1) (gradInner c.D (fun d => (v d : ℂ)) 1)
        ++ quadTerms c.D (fun i j => (A i j : ℂ))) h
      = -(Complex.I * ((s * ∑ d ∈ Finset.range c.D, v d * (wnAt c d h : ℝ) : ℝ) : ℂ))
        + ((-(s ^ 2 * ∑ i ∈ Finset.range c.D, ∑ j ∈ Finset.range c.D,
            A i j * ((wnAt c i h : ℝ) * (wnAt c j h : ℝ))) : ℝ) : ℂ) := by
  rw [polySymbol_append, advection_symbol c s hs h v, diffusion_symbol c s hs h A]

theorem advection_diffusion_symbol_re (v : ℕ → ℝ) (A : ℕ → ℕ → ℝ) :
    (polySymbol c (pscale (-1) (gradInner c.D (fun d => (v d : ℂ)) 1)
        ++ quadTerms c.D (fun i j => (A i j : ℂ))) h).re
      = -(s ^ 2 * ∑ i ∈ Finset.range c.D, ∑ j ∈ Finset.range c.D,
            A i j * ((wnAt c i h : ℝ) * (wnAt c j h : ℝ))) := by
  rw [polySymbol_append, Complex.add_re, advection_symbol_re c s hs h v,
    diffusion_symbol_re c s hs h A, zero_add]

/-! ### `Nonlin.laplace` -/

omit hs in
theorem laplace_zero : laplace c 0 h = 1 := by simp [laplace]

omit hs in
theorem laplace_eq_sum (order : ℕ) (ho : order ≠ 0) :
    laplace c order h = ∑ d ∈ Finset.range c.D, Nonlin.deriv c d h ^ order := by
  unfold laplace
  rw [if_neg ho, sumList_eq, ← list_range_sum]
  congr 1
  apply List.map_congr_left
  intro d _
  rw [npow_eq]

omit hs in
/-- `build_laplace_operator(order)` is the symbol of `Σ_d ∂_d^order` -/
theorem laplace_eq_polySymbol (order : ℕ) (ho : order ≠ 0) :
    laplace c order h = polySymbol c (lapT c.D 1 order) h := by
  rw [laplace_eq_sum c h order ho, polySymbol_eq_polyAt]
  have h1 := polyAt_lapT (kappa c h) 1 order
  rw [kappa_length] at h1
  rw [h1, one_mul]
  apply Finset.sum_congr rfl
  intro d hd
  rw [kappa_getD c h d (Finset.mem_range.mp hd)]

/-- `Δ̂ = −s² |k|²` -/
theorem laplace_two :
    laplace c 2 h = ((-(s ^ 2 * ∑ d ∈ Finset.range c.D, (wnAt c d h : ℝ) ^ 2) : ℝ) : ℂ) := by
  rw [laplace_eq_polySymbol c h 2 (by norm_num)]
  have h1 := diffusion_iso_symbol c s hs h 1
  rw [Complex.ofReal_one] at h1
  rw [h1]
  congr 2
  ring

/-- the Laplace symbol vanishes exactly at the mean mode (`s ≠ 0`) -/
theorem laplace_two_eq_zero_iff (hs0 : s ≠ 0) :
    laplace c 2 h = 0 ↔ ∀ d < c.D, wnAt c d h = 0 := by
  rw [laplace_two c s hs h]
  constructor
  · intro h0
    by_contra hne
    push Not at hne
    have hpos := sum_wn_pow_pos c h 2 (by decide) hne
    have hs2 : 0 < s ^ 2 := by positivity
    have : (-(s ^ 2 * ∑ d ∈ Finset.range c.D, (wnAt c d h : ℝ) ^ 2) : ℝ) = 0 := by
      exact_mod_cast h0
    have := mul_pos hs2 hpos
    linarith
  · intro hk
    have : ∑ d ∈ Finset.range c.D, (wnAt c d h : ℝ) ^ 2 = 0 := by
      apply Finset.sum_eq_zero
      intro d hd
      rw [hk d (Finset.mem_range.mp hd)]
      simp
    rw [this]
    simp

end S2


/-! ### plane waves in physical space: `polyAt κ terms` is the symbol of `Σ c ∂^α` -/

theorem hasDerivAt_planeWave (κ : ℂ) (x : ℝ) :
    HasDerivAt (fun x : ℝ => Complex.exp (κ * (x : ℂ))) (κ * Complex.exp (κ * (x : ℂ))) x := by
  have h1 : HasDerivAt (fun z : ℂ => κ * z) κ (x : ℂ) := by
    simpa using HasDerivAt.const_mul κ (hasDerivAt_id (x : ℂ))
  have h2 := HasDerivAt.congr_deriv (HasDerivAt.cexp h1) (mul_comm _ _)
  exact HasDerivAt.comp_ofReal h2

/-- `∂ₓⁿ e^{κx} = κⁿ e^{κx}`: `κ = i s k` is the symbol of `∂ₓ` on the Fourier mode `e^{i s k x}` -/
theorem iteratedDeriv_planeWave (κ : ℂ) (n : ℕ) :
    iteratedDeriv n (fun x : ℝ => Complex.exp (κ * (x : ℂ)))
      = fun x : ℝ => κ ^ n * Complex.exp (κ * (x : ℂ)) := by
  induction n with
  | zero => simp
  | succ n ih =>
    rw [iteratedDeriv_succ, ih]
    funext x
    have := HasDerivAt.const_mul (κ ^ n) (hasDerivAt_planeWave κ x)
    rw [this.deriv]
    ring

/-- partial derivative along axis `d` of a function of the coordinates `x : ℕ → ℝ` -/
noncomputable def pderiv (d : ℕ) (f : (ℕ → ℝ) → ℂ) : (ℕ → ℝ) → ℂ :=
  fun x => deriv (fun r : ℝ => f (Function.update x d r)) (x d)

/-- `∂^α = Π_{d<D} ∂_d^{α_d}` -/
noncomputable def pderivMulti (D : ℕ) (α : List ℕ) (f : (ℕ → ℝ) → ℂ) : (ℕ → ℝ) → ℂ :=
  (List.range D).foldr (fun d g => (pderiv d)^[α.getD d 0] g) f

/-- the constant-coefficient operator `Σ c ∂^α` given by a term list -/
noncomputable def applyOp (D : ℕ) (terms : List (ℂ × List ℕ)) (f : (ℕ → ℝ) → ℂ) : (ℕ → ℝ) → ℂ :=
  fun x => (terms.map (fun t => t.1 * pderivMulti D t.2 f x)).sum

/-- the plane wave `x ↦ exp(Σ_d κ_d x_d)` (`κ_d = i s k_d`: the Fourier mode `e^{i s k·x}`) -/
noncomputable def planeWave (κ : List ℂ) : (ℕ → ℝ) → ℂ :=
  fun x => Complex.exp (∑ d ∈ Finset.range κ.length, κ.getD d 0 * (x d : ℂ))

theorem planeWave_update (κ : List ℂ) (x : ℕ → ℝ) (d : ℕ) (hd : d < κ.length) (r : ℝ) :
    planeWave κ (Function.update x d r)
      = planeWave κ x * Complex.exp (κ.getD d 0 * ((r : ℂ) - (x d : ℂ))) := by
  unfold planeWave
  rw [← Complex.exp_add]
  congr 1
  have hm : d ∈ Finset.range κ.length := Finset.mem_range.mpr hd
  rw [← Finset.add_sum_erase _ _ hm, ← Finset.add_sum_erase (Finset.range κ.length) _ hm]
  have : ∑ j ∈ (Finset.range κ.length).erase d, κ.getD j 0 * ((Function.update x d r j : ℝ) : ℂ)
      = ∑ j ∈ (Finset.range κ.length).erase d, κ.getD j 0 * ((x j : ℝ) : ℂ) := by
    apply Finset.sum_congr rfl
    intro j hj
    rw [Function.update_of_ne (Finset.ne_of_mem_erase hj)]
  rw [this, Function.update_self]
  ring

theorem pderiv_planeWave (κ : List ℂ) (a : ℂ) (d : ℕ) (hd : d < κ.length) :
    pderiv d (fun x => a * planeWave κ x) = fun x => (κ.getD d 0 * a) * planeWave κ x := by
  funext x
  unfold pderiv
  have hf : (fun r : ℝ => a * planeWave κ (Function.update x d r))
      = fun r : ℝ => (a * planeWave κ x * Complex.exp (-(κ.getD d 0 * (x d : ℂ))))
          * Complex.exp (κ.getD d 0 * (r : ℂ)) := by
    funext r
    rw [planeWave_update κ x d hd r, mul_sub, sub_eq_add_neg, Complex.exp_add]
    ring
  rw [hf]
  have h1 := HasDerivAt.const_mul (a * planeWave κ x * Complex.exp (-(κ.getD d 0 * (x d : ℂ))))
    (hasDerivAt_planeWave (κ.getD d 0) (x d))
  rw [h1.deriv]
  have h2 : Complex.exp (-(κ.getD d 0 * (x d : ℂ))) * Complex.exp (κ.getD d 0 * (x d : ℂ)) = 1 := by
    rw [← Complex.exp_add]; simp
  linear_combination (a * planeWave κ x * κ.getD d 0) * h2

theorem pderiv_iterate_planeWave (κ : List ℂ) (a : ℂ) (d : ℕ) (hd : d < κ.length) (n : ℕ) :
    (pderiv d)^[n] (fun x => a * planeWave κ x)
      = fun x => (κ.getD d 0 ^ n * a) * planeWave κ x := by
  induction n generalizing a with
  | zero => simp
  | succ n ih =>
    rw [Function.iterate_succ_apply, pderiv_planeWave κ a d hd, ih]
    funext x; ring

theorem pderivMulti_planeWave (κ : List ℂ) (a : ℂ) (α : List ℕ) :
    pderivMulti κ.length α (fun x => a * planeWave κ x)
      = fun x => (monoAt κ α * a) * planeWave κ x := by
  unfold pderivMulti monoAt
  have key : ∀ l : List ℕ, (∀ d ∈ l, d < κ.length) →
      l.foldr (fun d g => (pderiv d)^[α.getD d 0] g) (fun x => a * planeWave κ x)
        = fun x => ((l.map (fun d => κ.getD d 0 ^ α.getD d 0)).prod * a) * planeWave κ x := by
    intro l hl
    induction l with
    | nil => simp
    | cons d ds ih =>
      rw [List.foldr_cons, ih (fun j hj => hl j (List.mem_cons_of_mem _ hj)),
        pderiv_iterate_planeWave κ _ d (hl d List.mem_cons_self)]
      funext x
      rw [List.map_cons, List.prod_cons]
      ring
  exact key (List.range κ.length) (fun d hd => List.mem_range.mp hd)

/-- plane waves are eigenfunctions of `Σ c ∂^α` with eigenvalue `polyAt κ terms` -/
theorem applyOp_planeWave (κ : List ℂ) (terms : List (ℂ × List ℕ)) (a : ℂ) (x : ℕ → ℝ) :
    applyOp κ.length terms (fun x => a * planeWave κ x) x
      = polyAt κ terms * (a * planeWave κ x) := by
  unfold applyOp polyAt
  rw [← List.sum_map_mul_right]
  congr 1
  apply List.map_congr_left
  intro t _
  rw [pderivMulti_planeWave]
  ring

/-- PLANE WAVES: `u(t, x) = E0step (exp_term t λ) û₀ · e^{κ·x}` with `λ = polyAt κ terms`
    solves the PDE `∂ₜu = Σ c ∂^α u` — the linear ETDRK0 step is exact on every Fourier mode -/
theorem planeWave_solves (κ : List ℂ) (terms : List (ℂ × List ℕ)) (u0 : ℂ) (x : ℕ → ℝ) (t : ℝ) :
    HasDerivAt (fun t : ℝ => E0step (exp_term (t : ℂ) (polyAt κ terms)) u0 * planeWave κ x)
      (applyOp κ.length terms
        (fun x => E0step (exp_term (t : ℂ) (polyAt κ terms)) u0 * planeWave κ x) x) t := by
  rw [applyOp_planeWave]
  have h := HasDerivAt.mul_const (hasDerivAt_exp_mode_real (polyAt κ terms) u0 t) (planeWave κ x)
  have e : ∀ t : ℝ, E0step (exp_term (t : ℂ) (polyAt κ terms)) u0
      = Complex.exp ((t : ℂ) * polyAt κ terms) * u0 := by
    intro t; simp [E0step, exp_term]
  simp only [e]
  exact HasDerivAt.congr_deriv h (by ring)

/-! ### non-vacuity of the hypotheses -/

example : ∃ (c : Cfg ℂ) (s : ℝ), c.s = (s : ℂ) ∧ 0 < s ∧ 0 < c.D :=
  ⟨⟨2, 8, ((1 : ℝ) : ℂ), 2, 3⟩, 1, rfl, one_pos, by norm_num⟩

/-- a mode with a non-zero wavenumber, and the mean mode -/
example : wnAt ⟨1, 8, 1, 0, 0⟩ 0 3 = 3 ∧ wnAt ⟨2, 8, 1, 0, 0⟩ 0 0 = 0 ∧ wnAt ⟨2, 8, 1, 0, 0⟩ 1 0 = 0 := by
  refine ⟨?_, ?_, ?_⟩ <;> decide

/-- the identity matrix is positive semidefinite in the sense of `diffusion_symbol_re_nonpos` -/
example : ∀ x : Fin 2 → ℝ,
    0 ≤ ∑ i : Fin 2, ∑ j : Fin 2, (if (i : ℕ) = (j : ℕ) then (1 : ℝ) else 0) * x i * x j := by
  intro x
  simp [Fin.sum_univ_two]
  nlinarith [sq_nonneg (x 0), sq_nonneg (x 1)]

end Exponax
