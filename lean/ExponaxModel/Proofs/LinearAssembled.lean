import ExponaxModel.Proofs.ZeroStateAssembled
/-
C07 on the REGENERATED assembled steps: the linear steppers are ℂ-linear maps `Spec → Spec` (`Spec = ℕ → ℕ → ℂ`, pointwise
module structure), every rollout is, and a linear map is its own linearisation (`f (u + h) − f u = f h`).

* `etdrkStep 0 …` (the exact propagator, `E0step`) is linear for ANY symbol array, contour and nonlinear map (it is never
  evaluated);
* `etdrkStep p …` with a nonlinear map that is identically `0` is linear for EVERY order `p : ℕ`; the regenerated nonlinear
  function of the linear family (`zeroNonlin`) lifts to the identically-zero map;
* `baseStep` inherits both; the six assembled steps `GeneralLinearStepper_step`, `Advection_step`, `Diffusion_step`,
  `AdvectionDiffusion_step`, `Dispersion_step`, `HyperDiffusion_step` are instances (their regenerated base arguments fix
  `order = 0`; their regenerated nonlinear function is `zeroNonlin`, so the conclusion does not depend on that order).
-/
set_option linter.unusedVariables false
namespace Exponax.Interface
open Exponax Exponax.Layout Exponax.Transform Exponax.Nonlin Exponax.Gen.Convert Exponax.Gen.Etdrk
open Exponax.Gen.StepperWiring Exponax.Gen.Steppers Exponax.StepperWiringEq Exponax.SmallGaps
open Exponax.EquivND (liftTermND)

/-- ℂ-linearity of a map on whole stored spectra, in one equation (pointwise `•` and `+` on `ℕ → ℕ → ℂ`) -/
def SpecLinear (f : Spec → Spec) : Prop := ∀ (a : ℂ) (u v : Spec), f (a • u + v) = a • f u + f v

theorem SpecLinear.map_zero {f : Spec → Spec} (hf : SpecLinear f) : f 0 = 0 := by
  have h := hf 1 (0 : Spec) 0
  rw [one_smul, one_smul, add_zero] at h
  exact left_eq_add.mp h

theorem SpecLinear.map_add {f : Spec → Spec} (hf : SpecLinear f) (u v : Spec) : f (u + v) = f u + f v := by
  have h := hf 1 u v
  rwa [one_smul, one_smul] at h

theorem SpecLinear.map_smul {f : Spec → Spec} (hf : SpecLinear f) (a : ℂ) (u : Spec) : f (a • u) = a • f u := by
  have h := hf a u 0
  rwa [add_zero, hf.map_zero, add_zero] at h

/-- the one-equation form is Mathlib's `IsLinearMap ℂ` -/
theorem SpecLinear.isLinearMap {f : Spec → Spec} (hf : SpecLinear f) : IsLinearMap ℂ f :=
  ⟨hf.map_add, hf.map_smul⟩

theorem specLinear_of_isLinearMap {f : Spec → Spec} (hf : IsLinearMap ℂ f) : SpecLinear f := fun a u v => by
  rw [hf.map_add, hf.map_smul]

/-- **a linear map is its own linearisation**: the increment `f (u + h) − f u` is `f h`, exactly, for every base point
    `u` and every (not only small) increment `h` -/
theorem SpecLinear.increment {f : Spec → Spec} (hf : SpecLinear f) (u h : Spec) : f (u + h) - f u = f h := by
  rw [hf.map_add, add_sub_cancel_left]

theorem SpecLinear.id : SpecLinear (fun u => u) := fun _ _ _ => rfl

theorem SpecLinear.comp {f g : Spec → Spec} (hf : SpecLinear f) (hg : SpecLinear g) : SpecLinear (f ∘ g) :=
  fun a u v => by
    show f (g (a • u + v)) = a • f (g u) + f (g v)
    rw [hg a u v, hf a (g u) (g v)]

/-- every `n`-fold iterate of a linear map is linear -/
theorem SpecLinear.iterate {f : Spec → Spec} (hf : SpecLinear f) (n : ℕ) : SpecLinear (f^[n]) := by
  induction n with
  | zero => exact fun _ _ _ => rfl
  | succ n ih =>
    rw [Function.iterate_succ]
    exact ih.comp hf

/-! ### the stage formulas -/

/-- the exact propagator with ANY coefficient array -/
theorem E0step_specLinear (e : Spec) : SpecLinear (E0step e) := fun a u v => by
  funext ch k
  show e ch k * (a * u ch k + v ch k) = a * (e ch k * u ch k) + e ch k * v ch k
  ring

/-- all five regenerated stage formulas with the identically-zero nonlinear map are the exact propagator -/
theorem Estep_zeroN (e eh a1 a2 a3 a4 a5 a6 : Spec) (u : Spec) :
    E1step e a1 (fun _ => 0) u = E0step e u ∧ E2step e a1 a2 (fun _ => 0) u = E0step e u ∧
    E3step e eh a1 a2 a3 a4 a5 (fun _ => 0) u = E0step e u ∧
    E4step e eh a1 a2 a3 a4 a5 a6 (fun _ => 0) u = E0step e u := by
  refine ⟨?_, ?_, ?_, ?_⟩
  · simp only [E1step, E0step, mul_zero, add_zero]
  · simp only [E2step, E0step, mul_zero, add_zero, sub_zero]
  · simp only [E3step, E0step, mul_zero, add_zero]
  · simp only [E4step, E0step, mul_zero, add_zero]

/-! ### the assembled ETDRK step -/

/-- order 0: linear for ANY symbol array, contour and nonlinear map -/
theorem etdrkStep_order0_specLinear (dt : ℂ) (lam : Spec) (M : ℕ) (r : ℂ) (N : Spec → Spec) :
    SpecLinear (etdrkStep 0 dt lam M r N) :=
  E0step_specLinear _

/-- with the identically-zero nonlinear map the step of every order `1 … 4` IS the exact propagator of order 0 -/
theorem etdrkStep_zeroN_eq_order0 (p : ℕ) (hp : p ≤ 4) (dt : ℂ) (lam : Spec) (M : ℕ) (r : ℂ) (u : Spec) :
    etdrkStep p dt lam M r (fun _ => 0) u = etdrkStep 0 dt lam M r (fun _ => 0) u := by
  match p, hp with
  | 0, _ => rfl
  | 1, _ => rw [etdrkStep_order1]; exact (Estep_zeroN _ 0 _ 0 0 0 0 0 u).1
  | 2, _ => rw [etdrkStep_order2]; exact (Estep_zeroN _ 0 _ _ 0 0 0 0 u).2.1
  | 3, _ => rw [etdrkStep_order3]; exact (Estep_zeroN _ _ _ _ _ _ _ 0 u).2.2.1
  | 4, _ => rw [etdrkStep_order4]; exact (Estep_zeroN _ _ _ _ _ _ _ _ u).2.2.2

/-- … written out: every entry is multiplied by `exp_term dt λ` -/
theorem etdrkStep_zeroN_apply (p : ℕ) (hp : p ≤ 4) (dt : ℂ) (lam : Spec) (M : ℕ) (r : ℂ) (u : Spec) (ch k : ℕ) :
    etdrkStep p dt lam M r (fun _ => 0) u ch k = exp_term dt (lam ch k) * u ch k := by
  rw [etdrkStep_zeroN_eq_order0 p hp]; rfl

/-- EVERY order `p : ℕ` (0–4 the five methods; `≥ 5` the identity of the mirror): with the identically-zero nonlinear map
    the assembled step is linear -/
theorem etdrkStep_zeroN_specLinear (p : ℕ) (dt : ℂ) (lam : Spec) (M : ℕ) (r : ℂ) :
    SpecLinear (etdrkStep p dt lam M r (fun _ => 0)) := by
  by_cases hp : p ≤ 4
  · have e : etdrkStep p dt lam M r (fun _ => 0) = etdrkStep 0 dt lam M r (fun _ => 0) :=
      funext fun u => etdrkStep_zeroN_eq_order0 p hp dt lam M r u
    rw [e]
    exact etdrkStep_order0_specLinear _ _ _ _ _
  · obtain ⟨n, rfl⟩ : ∃ n, p = n + 5 := ⟨p - 5, by omega⟩
    exact fun _ _ _ => rfl

/-! ### the regenerated zero nonlinear function -/

/-- the zero nonlinear term (of any configuration and channel count) lifts to the identically-zero map on spectra -/
theorem liftTermND_zeroNonlin (c c' : Cfg ℂ) (C C' : ℕ) :
    liftTermND c C (fun _ => zeroNonlin c' C') = fun _ => 0 := by
  funext v ch k
  unfold liftTermND
  split_ifs
  · exact (isZeroMC_zeroMC C' (modes c')).at2 ch k
  · rfl

/-- any term that returns the zero spectrum lifts to the identically-zero map -/
theorem liftTermND_of_isZero (c : Cfg ℂ) (C : ℕ) (T : MC ℂ → MC ℂ) (hT : ∀ uh, IsZeroMC (T uh)) :
    liftTermND c C T = fun _ => 0 := by
  funext v ch k
  unfold liftTermND
  split_ifs
  · exact (hT _).at2 ch k
  · rfl

/-! ### `BaseStepper` -/

/-- `order = 0`: linear whatever the class's linear operator and nonlinear function -/
theorem baseStep_order0_specLinear (b : BaseStepperArgs ℂ) (hb : b.order = 0) (linop : List ℂ → ℂ)
    (nonlin : Cfg ℂ → MC ℂ → MC ℂ) : SpecLinear (baseStep b linop nonlin) := by
  unfold baseStep
  rw [hb]
  exact etdrkStep_order0_specLinear _ _ _ _ _

/-- EVERY order: linear as soon as the class's nonlinear function returns the zero spectrum -/
theorem baseStep_zeroNonlin_specLinear (b : BaseStepperArgs ℂ) (linop : List ℂ → ℂ) (nonlin : Cfg ℂ → MC ℂ → MC ℂ)
    (h : ∀ uh, IsZeroMC (nonlin (baseCfg b.num_spatial_dims b.num_points b.domain_extent) uh)) :
    SpecLinear (baseStep b linop nonlin) := by
  unfold baseStep
  rw [liftTermND_of_isZero _ _ _ h]
  exact etdrkStep_zeroN_specLinear _ _ _ _ _

/-- the regenerated nonlinear functions of the six linear classes return the zero spectrum -/
theorem linear_family_nonlin_isZero (c : Cfg ℂ) (uh : MC ℂ) :
    (∀ g : GeneralLinearStepperArgs ℂ, IsZeroMC (GeneralLinearStepper_stepper_nonlinear_fun c g uh)) ∧
    (∀ a : AdvectionArgs ℂ, IsZeroMC (Advection_stepper_nonlinear_fun c a uh)) ∧
    (∀ a : DiffusionArgs ℂ, IsZeroMC (Diffusion_stepper_nonlinear_fun c a uh)) ∧
    (∀ a : AdvectionDiffusionArgs ℂ, IsZeroMC (AdvectionDiffusion_stepper_nonlinear_fun c a uh)) ∧
    (∀ a : DispersionArgs ℂ, IsZeroMC (Dispersion_stepper_nonlinear_fun c a uh)) ∧
    (∀ a : HyperDiffusionArgs ℂ, IsZeroMC (HyperDiffusion_stepper_nonlinear_fun c a uh)) := by
  refine ⟨fun g => ?_, fun a => ?_, fun a => ?_, fun a => ?_, fun a => ?_, fun a => ?_⟩
  · rw [GeneralLinearStepper_stepper_nonlinear_fun_eq c g uh]; exact isZeroMC_zeroMC _ _
  · rw [Advection_stepper_nonlinear_fun_eq c a uh]; exact isZeroMC_zeroMC _ _
  · rw [Diffusion_stepper_nonlinear_fun_eq c a uh]; exact isZeroMC_zeroMC _ _
  · rw [AdvectionDiffusion_stepper_nonlinear_fun_eq c a uh]; exact isZeroMC_zeroMC _ _
  · rw [Dispersion_stepper_nonlinear_fun_eq c a uh]; exact isZeroMC_zeroMC _ _
  · rw [HyperDiffusion_stepper_nonlinear_fun_eq c a uh]; exact isZeroMC_zeroMC _ _

/-- **the regenerated zero nonlinear function under EVERY order.**  `BaseStepper` with ANY base arguments `b` (any
    `b.order : ℕ`, `dt`, contour, channel count, grid), ANY linear operator and the regenerated nonlinear function of
    `GeneralLinearStepper` is linear -/
theorem baseStep_GeneralLinear_nonlin_specLinear (b : BaseStepperArgs ℂ) (linop : List ℂ → ℂ)
    (g : GeneralLinearStepperArgs ℂ) :
    SpecLinear (baseStep b linop (fun c => GeneralLinearStepper_stepper_nonlinear_fun c g)) :=
  baseStep_zeroNonlin_specLinear b linop _ (fun uh => (linear_family_nonlin_isZero _ uh).1 g)

/-! ### the six assembled steps -/

theorem GeneralLinearStepper_step_specLinear (g : GeneralLinearStepperArgs ℂ) :
    SpecLinear (GeneralLinearStepper_step g) :=
  baseStep_zeroNonlin_specLinear _ _ _ (fun uh => (linear_family_nonlin_isZero _ uh).1 g)

theorem Advection_step_specLinear (a : AdvectionArgs ℂ) : SpecLinear (Advection_step a) :=
  baseStep_zeroNonlin_specLinear _ _ _ (fun uh => (linear_family_nonlin_isZero _ uh).2.1 a)

theorem Diffusion_step_specLinear (a : DiffusionArgs ℂ) : SpecLinear (Diffusion_step a) :=
  baseStep_zeroNonlin_specLinear _ _ _ (fun uh => (linear_family_nonlin_isZero _ uh).2.2.1 a)

theorem AdvectionDiffusion_step_specLinear (a : AdvectionDiffusionArgs ℂ) : SpecLinear (AdvectionDiffusion_step a) :=
  baseStep_zeroNonlin_specLinear _ _ _ (fun uh => (linear_family_nonlin_isZero _ uh).2.2.2.1 a)

theorem Dispersion_step_specLinear (a : DispersionArgs ℂ) : SpecLinear (Dispersion_step a) :=
  baseStep_zeroNonlin_specLinear _ _ _ (fun uh => (linear_family_nonlin_isZero _ uh).2.2.2.2.1 a)

theorem HyperDiffusion_step_specLinear (a : HyperDiffusionArgs ℂ) : SpecLinear (HyperDiffusion_step a) :=
  baseStep_zeroNonlin_specLinear _ _ _ (fun uh => (linear_family_nonlin_isZero _ uh).2.2.2.2.2 a)

/-- the same six through the OTHER route: the regenerated base arguments fix `order = 0`, so the nonlinear function is
    never evaluated (shown for Advection; the regenerated `*_base_args_eq` of the other five read the same) -/
theorem Advection_step_specLinear_by_order (a : AdvectionArgs ℂ) : SpecLinear (Advection_step a) := by
  unfold Advection_step
  rw [Advection_base_args_eq]
  exact baseStep_order0_specLinear _ rfl _ _

theorem linear_family_order_eq_zero :
    (∀ g : GeneralLinearStepperArgs ℂ, (GeneralLinearStepper_base_args g).order = 0) ∧
    (∀ a : AdvectionArgs ℂ, (Advection_base_args a).order = 0) ∧
    (∀ a : DiffusionArgs ℂ, (Diffusion_base_args a).order = 0) ∧
    (∀ a : AdvectionDiffusionArgs ℂ, (AdvectionDiffusion_base_args a).order = 0) ∧
    (∀ a : DispersionArgs ℂ, (Dispersion_base_args a).order = 0) ∧
    (∀ a : HyperDiffusionArgs ℂ, (HyperDiffusion_base_args a).order = 0) :=
  ⟨fun g => by rw [GeneralLinearStepper_base_args_eq], fun a => by rw [Advection_base_args_eq],
   fun a => by rw [Diffusion_base_args_eq], fun a => by rw [AdvectionDiffusion_base_args_eq],
   fun a => by rw [Dispersion_base_args_eq], fun a => by rw [HyperDiffusion_base_args_eq]⟩

/-! non-vacuity: a linear map that is not zero; a non-linear step (so `SpecLinear` is a real restriction): ETDRK1 with
`N u = u²`, `λ = 0`, `dt = 1` would need `N` linear — here simply the squaring map -/
example : ∃ f : Spec → Spec, SpecLinear f ∧ f 1 ≠ 0 :=
  ⟨E0step 1, E0step_specLinear 1, by
    intro h
    have := congrFun (congrFun h 0) 0
    simp [E0step] at this⟩

example : ¬ SpecLinear (fun u : Spec => u * u) := by
  intro h
  have h1 := congrFun (congrFun (h 2 1 0) 0) 0
  norm_num at h1

end Exponax.Interface
