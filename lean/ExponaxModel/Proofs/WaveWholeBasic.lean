import ExponaxModel.Proofs.ExactLinearBand
import ExponaxModel.Proofs.ExactLinearSemigroup
import ExponaxModel.Proofs.SpectralOpsEq
import ExponaxModel.Proofs.ReadOffND
import ExponaxModel.Proofs.MeanMode
/-
Whole-state wave stepper, part 1 (support for `WaveWholeState.lean`).

* `mulStep D N m u = irfftnM (m ⊙ rfftnM u)`: a REAL Fourier multiplier between the model transforms.  It is linear, and
  on a cosine mode strictly below Nyquist it multiplies the amplitude by the value of the multiplier at `±κ`
  (`mulStep_modeField`, `mulStep_stateOf`).
* `waveOmega`, `sincT`: the angular frequency `ω_κ = c (2π/L) |κ|` and `sin(ω t)/ω` continued by `t` at `ω = 0`.
* `stepMode_closed`: `Wave.stepMode` at the stored mode `h`, with the stored wavenumber norm `waveKn` and the DC flag
  `decide (h = 0)` that the regenerated `Wave.step_fourier` passes, is ONE real 2×2 matrix for every stored mode, the
  mean mode included:  `[[cos ωt, sincT ω t], [−ω sin ωt, cos ωt]]`.
-/
set_option linter.unusedVariables false
namespace Exponax.WaveWhole
open Exponax Exponax.Layout Exponax.Transform Exponax.DFT Exponax.ExactLinear Exponax.SpectralOpsEq
  Exponax.ReadOff Finset

/-! ### real Fourier multipliers -/

/-- `irfftn(m ⊙ rfftn(u))` for a real multiplier `m` given on the stored modes -/
noncomputable def mulStep (D N : ℕ) (m : ℕ → ℝ) (u : Array ℂ) : Array ℂ :=
  irfftnM D N (tab (numModes D N) (fun h => ((m h : ℝ) : ℂ) * (rfftnM D N u).getD h 0))

@[simp] theorem mulStep_size (D N : ℕ) (m : ℕ → ℝ) (u : Array ℂ) : (mulStep D N m u).size = N ^ D := by
  simp [mulStep]

theorem mulStep_vadd (D N : ℕ) (hN : 0 < N) (m : ℕ → ℝ) (u v : Array ℂ) :
    mulStep D N m (vadd (N ^ D) u v) = vadd (N ^ D) (mulStep D N m u) (mulStep D N m v) := by
  unfold mulStep
  rw [← irfftnM_vadd D N hN, rfftnM_vadd D N hN]
  congr 1
  apply array_ext_getD _ _ (numModes D N) (by simp) (by simp)
  intro h hh
  rw [DFT.tab_getD _ _ _ _ hh, vadd_getD _ _ _ _ hh, vadd_getD _ _ _ _ hh, DFT.tab_getD _ _ _ _ hh,
    DFT.tab_getD _ _ _ _ hh]
  ring

theorem mulStep_vzero (D N : ℕ) (hN : 0 < N) (m : ℕ → ℝ) : mulStep D N m (vzero (N ^ D)) = vzero (N ^ D) := by
  have e : tab (numModes D N) (fun h => ((m h : ℝ) : ℂ) * (vzero (numModes D N)).getD h 0)
      = vzero (numModes D N) := by
    apply array_ext_getD _ _ (numModes D N) (by simp) (by simp)
    intro h hh
    rw [DFT.tab_getD _ _ _ _ hh, vzero_getD, mul_zero]
  unfold mulStep
  rw [rfftnM_vzero D N hN, e, irfftnM_vzero D N hN]

theorem mulStep_vsum (D N : ℕ) (hN : 0 < N) (m : ℕ → ℝ) (us : List (Array ℂ)) :
    mulStep D N m (vsum (N ^ D) us) = vsum (N ^ D) (us.map (mulStep D N m)) := by
  induction us with
  | nil => simp [mulStep_vzero D N hN]
  | cons u us ih => rw [vsum_cons, mulStep_vadd D N hN, ih, List.map_cons, vsum_cons]

/-- the multipliers add -/
theorem mulStep_add (D N : ℕ) (hN : 0 < N) (m m' : ℕ → ℝ) (u : Array ℂ) :
    vadd (N ^ D) (mulStep D N m u) (mulStep D N m' u) = mulStep D N (fun h => m h + m' h) u := by
  unfold mulStep
  rw [← irfftnM_vadd D N hN]
  congr 1
  apply array_ext_getD _ _ (numModes D N) (by simp) (by simp)
  intro h hh
  rw [vadd_getD _ _ _ _ hh, DFT.tab_getD _ _ _ _ hh, DFT.tab_getD _ _ _ _ hh, DFT.tab_getD _ _ _ _ hh]
  push_cast
  ring

/-- a two-input multiplier is the sum of two one-input multipliers -/
theorem irfftnM_two (D N : ℕ) (hN : 0 < N) (m m' : ℕ → ℝ) (u v : Array ℂ) :
    irfftnM D N (tab (numModes D N) (fun h =>
        ((m h : ℝ) : ℂ) * (rfftnM D N u).getD h 0 + ((m' h : ℝ) : ℂ) * (rfftnM D N v).getD h 0))
      = vadd (N ^ D) (mulStep D N m u) (mulStep D N m' v) := by
  unfold mulStep
  rw [← irfftnM_vadd D N hN]
  congr 1
  apply array_ext_getD _ _ (numModes D N) (by simp) (by simp)
  intro h hh
  rw [vadd_getD _ _ _ _ hh, DFT.tab_getD _ _ _ _ hh, DFT.tab_getD _ _ _ _ hh, DFT.tab_getD _ _ _ _ hh]

theorem vsmul_modeField (D N : ℕ) (κ : List ℤ) (r a φ : ℝ) :
    vsmul (N ^ D) (r : ℂ) (modeField D N κ a φ) = modeField D N κ (a * r) φ := by
  apply array_ext_getD _ _ (N ^ D) (by simp) (by simp)
  intro j hj
  rw [vsmul_getD _ _ _ _ hj, modeField_getD _ _ _ _ _ j hj, modeField_getD _ _ _ _ _ j hj]
  push_cast
  ring

/-- **one mode**: a real multiplier with the value `r` at the stored copies of `±κ` multiplies the amplitude by `r` -/
theorem mulStep_modeField (D N : ℕ) (hD : 0 < D) (hN : 0 < N) (m : ℕ → ℝ) (κ : List ℤ)
    (hκ : BelowNyquist D N κ) (r : ℝ)
    (h1 : ∀ h < numModes D N, wnFlat D N h = κ → m h = r)
    (h2 : ∀ h < numModes D N, wnFlat D N h = negK κ → m h = r) (a φ : ℝ) :
    mulStep D N m (modeField D N κ a φ) = modeField D N κ (a * r) φ := by
  have e : tab (numModes D N) (fun h => ((m h : ℝ) : ℂ) * (rfftnM D N (modeField D N κ a φ)).getD h 0)
      = vsmul (numModes D N) (r : ℂ) (rfftnM D N (modeField D N κ a φ)) := by
    apply array_ext_getD _ _ (numModes D N) (by simp) (by simp)
    intro h hh
    rw [DFT.tab_getD _ _ _ _ hh, vsmul_getD _ _ _ _ hh, rfftnM_modeField D N hD hN κ hκ a φ h hh]
    by_cases hA : wnFlat D N h = κ
    · rw [h1 h hh hA]
    · by_cases hB : wnFlat D N h = negK κ
      · rw [h2 h hh hB]
      · rw [if_neg hA, if_neg hB]; ring
  unfold mulStep
  rw [e, irfftnM_vsmul_real D N hN]
  have hrt : irfftnM D N (rfftnM D N (modeField D N κ a φ)) = modeField D N κ a φ := by
    apply array_ext_getD _ _ (N ^ D) (by simp) (by simp)
    intro j hj
    exact irfftn_rfftn D N hD hN _ (modeField_real D N κ a φ) j hj
  rw [hrt, vsmul_modeField]

/-- **superpositions**: a real multiplier that is an even function `M` of the wave vector acts on every
    superposition of modes strictly below Nyquist amplitude by amplitude -/
theorem mulStep_stateOf (D N : ℕ) (hD : 0 < D) (hN : 0 < N) (m : ℕ → ℝ) (M : List ℤ → ℝ)
    (hm : ∀ h < numModes D N, m h = M (wnFlat D N h)) (hM : ∀ κ, M (negK κ) = M κ)
    (ms : Modes) (hms : ∀ q ∈ ms, BelowNyquist D N q.1) :
    mulStep D N m (stateOf D N ms) = stateOf D N (ms.map fun q => (q.1, q.2.1 * M q.1, q.2.2)) := by
  unfold stateOf
  rw [mulStep_vsum D N hN, List.map_map, List.map_map]
  congr 1
  apply List.map_congr_left
  intro q hq
  simp only [Function.comp]
  apply mulStep_modeField D N hD hN m q.1 (hms q hq)
  · intro h hh hk; rw [hm h hh, hk]
  · intro h hh hk; rw [hm h hh, hk, hM]

theorem stateOf_append (D N : ℕ) (l₁ l₂ : Modes) :
    stateOf D N (l₁ ++ l₂) = vadd (N ^ D) (stateOf D N l₁) (stateOf D N l₂) := by
  apply array_ext_getD _ _ (N ^ D) (by simp) (by simp)
  intro j hj
  rw [vadd_getD _ _ _ _ hj, stateOf_getD _ _ _ j hj, stateOf_getD _ _ _ j hj, stateOf_getD _ _ _ j hj,
    List.map_append, List.sum_append]
  push_cast
  rfl

/-! ### the wave multipliers -/

/-- `ω_κ = c·(2π/L)·|κ|` -/
noncomputable def waveOmega (D : ℕ) (c L : ℝ) (κ : List ℤ) : ℝ :=
  c * (2 * Real.pi / L * Real.sqrt ((kappaSq D κ : ℤ) : ℝ))

/-- `sin(ω t)/ω`, continued by its limit `t` at `ω = 0` -/
noncomputable def sincT (ω t : ℝ) : ℝ := if ω = 0 then t else Real.sin (ω * t) / ω

theorem waveOmega_negK (D : ℕ) (c L : ℝ) (κ : List ℤ) : waveOmega D c L (negK κ) = waveOmega D c L κ := by
  unfold waveOmega
  rw [kappaSq_negK]

theorem waveOmega_eq_zero_iff (D : ℕ) (c L : ℝ) (hc : c ≠ 0) (hL : 0 < L) (κ : List ℤ) :
    waveOmega D c L κ = 0 ↔ ∀ d < D, κ.getD d 0 = 0 := by
  unfold waveOmega
  have hk : (0 : ℝ) ≤ ((kappaSq D κ : ℤ) : ℝ) := by exact_mod_cast kappaSq_nonneg D κ
  have hp : (0 : ℝ) < 2 * Real.pi / L := by positivity
  rw [mul_eq_zero, mul_eq_zero, Real.sqrt_eq_zero hk, ← kappaSq_eq_zero_iff]
  constructor
  · rintro (h0 | h0 | h0)
    · exact absurd h0 hc
    · exact absurd h0 hp.ne'
    · exact_mod_cast h0
  · intro h0
    right; right
    exact_mod_cast h0

/-- a stored mode with the zero wave vector is the flat index `0` -/
theorem eq_zero_of_wnFlat_zero (D N : ℕ) (hD : 0 < D) (hN : 0 < N) (h : ℕ) (hh : h < numModes D N)
    (h0 : ∀ d < D, (wnFlat D N h).getD d 0 = 0) : h = 0 := by
  have hM : 0 < numModes D N := by omega
  apply wnFlat_inj D N hD hN h 0 hh hM
  apply list_ext_getD _ _ D (wnFlat_length D N h) (wnFlat_length D N 0)
  intro d hd
  rw [h0 d hd, wnFlat_zero]

/-- the stored wavenumber norm times `c` is `ω` of the stored wave vector -/
theorem waveKn_omega (D N : ℕ) (hD : 0 < D) (hN : 0 < N) (c L : ℝ) (hL : 0 < L) (h : ℕ) (hh : h < numModes D N) :
    waveKn D N (L : ℂ) h = ((2 * Real.pi / L * Real.sqrt ((kappaSq D (wnFlat D N h) : ℤ) : ℝ) : ℝ) : ℂ) := by
  rw [waveKn_real D N hD hN L hL h hh, kSq_of_wnFlat (cfg D N (L : ℂ)) h (wnFlat D N h) rfl]
  rfl

/-- **`Wave.stepMode` as the generated `step_fourier` calls it, every stored mode (mean mode included)**: the real
    matrix `[[cos ωt, sincT ω t], [−ω sin ωt, cos ωt]]`, `ω = c (2π/L) |k_h|` -/
theorem stepMode_closed (D N : ℕ) (hD : 0 < D) (hN : 0 < N) (c L dt : ℝ) (hc : c ≠ 0) (hL : 0 < L) (h : ℕ)
    (hh : h < numModes D N) (x y : ℂ) :
    Wave.stepMode (c : ℂ) (dt : ℂ) (waveKn D N (L : ℂ) h) (decide (h = 0)) x y
      = (((Real.cos (waveOmega D c L (wnFlat D N h) * dt) : ℝ) : ℂ) * x
            + ((sincT (waveOmega D c L (wnFlat D N h)) dt : ℝ) : ℂ) * y,
         ((-(waveOmega D c L (wnFlat D N h) * Real.sin (waveOmega D c L (wnFlat D N h) * dt)) : ℝ) : ℂ) * x
            + ((Real.cos (waveOmega D c L (wnFlat D N h) * dt) : ℝ) : ℂ) * y) := by
  have hc' : (c : ℂ) ≠ 0 := by exact_mod_cast hc
  rw [waveKn_omega D N hD hN c L hL h hh]
  by_cases h0 : h = 0
  · subst h0
    have hz : ∀ d < D, (wnFlat D N 0).getD d 0 = 0 := fun d _ => wnFlat_zero D N d
    have hω : waveOmega D c L (wnFlat D N 0) = 0 := (waveOmega_eq_zero_iff D c L hc hL _).2 hz
    have hk : kappaSq D (wnFlat D N 0) = 0 := (kappaSq_eq_zero_iff D _).2 hz
    rw [hω, hk]
    simp only [Int.cast_zero, Real.sqrt_zero, mul_zero, Complex.ofReal_zero, decide_true]
    rw [stepMode_DC (c : ℂ) (dt : ℂ) x y hc']
    simp [sincT]
  · have hne : ¬ ∀ d < D, (wnFlat D N h).getD d 0 = 0 := fun hz => h0 (eq_zero_of_wnFlat_zero D N hD hN h hh hz)
    have hω : waveOmega D c L (wnFlat D N h) ≠ 0 := fun e => hne ((waveOmega_eq_zero_iff D c L hc hL _).1 e)
    have hkn : 2 * Real.pi / L * Real.sqrt ((kappaSq D (wnFlat D N h) : ℤ) : ℝ) ≠ 0 := by
      intro e
      apply hω
      unfold waveOmega
      rw [e, mul_zero]
    rw [show decide (h = 0) = false from decide_eq_false h0, stepMode_nonDC_real c dt _ x y hc hkn]
    have e1 : waveOmega D c L (wnFlat D N h)
        = c * (2 * Real.pi / L * Real.sqrt ((kappaSq D (wnFlat D N h) : ℤ) : ℝ)) := rfl
    rw [sincT, if_neg hω, e1]
    refine Prod.ext ?_ ?_
    · simp only
    · simp only
      push_cast
      ring

/-! non-vacuity -/
example : ∃ M : List ℤ → ℝ, ∀ κ, M (negK κ) = M κ := ⟨fun _ => 1, fun _ => rfl⟩
example : (2 : ℝ) ≠ 0 ∧ (0 : ℝ) < 1 := by norm_num

end Exponax.WaveWhole
