import ExponaxModel.Proofs.ContourComplexBounded
/-
C02 / C19 support — T3: purely imaginary symbols, and what exactly happens at / near the sixteen
points `z = −ζ_j` where a contour node hits the removable singularity.

 * `excluded_of_re_eq_zero`     for `4 ∣ M` (default `M = 16`) NO purely imaginary `z` is in the exclusion
                                set (the node angles are odd multiples of `π/M`, the imaginary axis is at
                                an even multiple): advection / dispersion symbols need no side condition,
                                not even `|y| ≠ 1`.
 * `storedCoef_error_imaginary`, `norm_storedCoef_le_imaginary`   T1 / T2 on the imaginary axis.
 * `storedCoef_eq_rawMean`      every stored coefficient is `dt ×` the contour mean of its RAW closed form
                                `rawPhi` (total division), no hypothesis;
   `storedCoef_eq_entireMean`   off the exclusion set it is `dt ×` the contour mean `entireMean` of the ENTIRE
                                φ-combination, which is an entire function of `z` (`differentiable_entireMean`)
                                within `k_i·4.9·10⁻¹³·e^c` of the exact value for EVERY `z` with `Re z ≤ c`
                                (`entireMean_error`, no exclusion) — so the stored coefficient, as a function of
                                `λ`, is complex-differentiable at every `λ` with `λ·dt ∉ {−ζ_j}`
                                (`differentiableAt_storedCoef`): nothing happens NEAR a node (in exact
                                arithmetic), `‖z‖ = 1` plays no role.
 * `storedCoef_error_at_node`   AT one of the sixteen points the closed form is `0/0`; with Lean's `x/0 = 0`
                                every one of the fourteen stored coefficients is off by at least `‖dt‖/100`
                                (IEEE: NaN) — the exclusion set of T1 is exactly right:
   `halfplane_accuracy_iff`     for `dt ≠ 0`, `Re z ≤ 0`:  all fourteen errors `≤ 1.7·10⁻¹²‖dt‖`  ⇔  `z ∉ {−ζ_j}`.
-/
set_option linter.unusedVariables false
namespace Exponax.ContourComplex
open Exponax Exponax.Spec Exponax.Gen.Etdrk Exponax.ContourTail

/-! ## the imaginary axis contains no excluded point when `4 ∣ M` -/

theorem cos_nodeAngle_ne_zero (M j : ℕ) (hM : 0 < M) (h4 : M % 4 = 0) :
    Real.cos (Stiffness.nodeAngle M j) ≠ 0 := by
  intro h
  obtain ⟨n, hn⟩ := Real.cos_eq_zero_iff.mp h
  unfold Stiffness.nodeAngle at hn
  have hMne : (M : ℝ) ≠ 0 := by exact_mod_cast hM.ne'
  rw [div_eq_iff hMne] at hn
  have h1 : Real.pi * (2 * (2 * (j : ℝ) - 1)) = Real.pi * ((2 * (n : ℝ) + 1) * (M : ℝ)) := by
    linarith
  have h2 : 2 * (2 * (j : ℝ) - 1) = (2 * (n : ℝ) + 1) * (M : ℝ) :=
    mul_left_cancel₀ Real.pi_ne_zero h1
  have h3 : 2 * (2 * (j : ℤ) - 1) = (2 * n + 1) * (M : ℤ) := by exact_mod_cast h2
  obtain ⟨m, hm⟩ := Nat.dvd_of_mod_eq_zero h4
  rw [hm] at h3
  push_cast at h3
  have h5 : 2 * (2 * (j : ℤ) - 1) = 4 * ((2 * n + 1) * (m : ℤ)) := by rw [h3]; ring
  omega

/-- every node `ζ_j` has non-zero real part when `4 ∣ M` -/
theorem root_of_unity_re_ne_zero (M j : ℕ) (hM : 0 < M) (h4 : M % 4 = 0) :
    (root_of_unity M j : ℂ).re ≠ 0 := by
  rw [Stiffness.root_of_unity_re]
  exact cos_nodeAngle_ne_zero M j hM h4

/-- **T3 (imaginary axis).**  `Re z = 0`, `4 ∣ M`, real radius `r ≠ 0`: `z` is not an excluded point -/
theorem excluded_of_re_eq_zero (M : ℕ) (hM : 0 < M) (h4 : M % 4 = 0) (z : ℂ) (hz : z.re = 0) :
    ∀ ζ ∈ (roots_of_unity M : List ℂ), z ≠ -(1 * ζ) := by
  intro ζ hζ h
  obtain ⟨j, _, rfl⟩ := (mem_roots_iff M ζ).mp hζ
  have := congrArg Complex.re h
  rw [hz, one_mul, Complex.neg_re] at this
  exact root_of_unity_re_ne_zero M (j + 1) hM h4 (by linarith)

/-- e.g. `z = ± i` (`‖z‖ = 1`) is fine -/
example : ∀ ζ ∈ (roots_of_unity 16 : List ℂ), Complex.I ≠ -(1 * ζ) :=
  excluded_of_re_eq_zero 16 (by norm_num) (by norm_num) Complex.I Complex.I_re

/-- **T3 (T1 on the imaginary axis).**  Advection / dispersion / Schrödinger-type symbols,
    `Re (λ dt) = 0`: no side condition at all. -/
theorem storedCoef_error_imaginary (dt lam : ℂ) (hz : (lam * dt).re = 0) (i : Fin 14) :
    ‖storedCoef dt lam 16 1 i - dt * exactPhi (lam * dt) i‖ ≤ ‖dt‖ * 1.7e-12 :=
  storedCoef_error_halfplane dt lam hz.le
    (excluded_of_re_eq_zero 16 (by norm_num) (by norm_num) _ hz) i

/-- **T3 (T2 on the imaginary axis).** -/
theorem norm_storedCoef_le_imaginary (dt lam : ℂ) (hz : (lam * dt).re = 0) (i : Fin 14) :
    ‖storedCoef dt lam 16 1 i‖ ≤ ‖dt‖ * (coefWeight i + 1.7e-12) :=
  norm_storedCoef_le dt lam hz.le (excluded_of_re_eq_zero 16 (by norm_num) (by norm_num) _ hz) i

/-- the propagator is unitary there -/
theorem norm_exp_term_imaginary (dt lam : ℂ) (hz : (lam * dt).re = 0) : ‖exp_term dt lam‖ = 1 := by
  rw [norm_exp_term_eq, hz, Real.exp_zero]

/-- real `dt`, `λ = iω` (the form produced by odd-order derivatives), every `ω`, `dt` -/
theorem storedCoef_error_advection (dt ω : ℝ) (i : Fin 14) :
    ‖storedCoef (dt : ℂ) (Complex.I * ω) 16 1 i - (dt : ℂ) * exactPhi (Complex.I * ω * dt) i‖
      ≤ |dt| * 1.7e-12 := by
  have h := storedCoef_error_imaginary (dt : ℂ) (Complex.I * ω) (by simp) i
  rwa [Complex.norm_real, Real.norm_eq_abs] at h

/-! ## raw closed forms vs. entire φ-combinations -/

/-- the closed forms under the fourteen contour means, as written in the code (total division) -/
noncomputable def rawPhi (w : ℂ) : Fin 14 → ℂ :=
  ![phi1 w, phi1 w, phi2 w,
    phi1 (w / 2) / 2, phi1 w, phi1 w - 3 * phi2 w + 4 * phi3 w, 4 * phi2 w - 8 * phi3 w,
    4 * phi3 w - phi2 w,
    phi1 (w / 2) / 2, phi1 (w / 2) / 2, phi1 (w / 2) / 2, phi1 w - 3 * phi2 w + 4 * phi3 w,
    phi2 w - 2 * phi3 w, 4 * phi3 w - phi2 w]

/-- the limit values `Φ_i(0)` -/
noncomputable def phiAtZero : Fin 14 → ℂ :=
  ![1, 1, 1 / 2, 1 / 2, 1, 1 / 6, 2 / 3, 1 / 6, 1 / 2, 1 / 2, 1 / 2, 1 / 6, 1 / 6, 1 / 6]

/-- every stored coefficient is `dt ×` the contour mean of its raw closed form (no hypothesis) -/
theorem storedCoef_eq_rawMean (dt lam r : ℂ) (M : ℕ) (i : Fin 14) :
    storedCoef dt lam M r i
      = dt * contourMean (roots_of_unity M) r (fun w => rawPhi w i) (lam * dt) := by
  fin_cases i
  · exact C02_coef_E1_1 dt lam r M
  · exact C02_coef_E2_1 dt lam r M
  · exact C02_coef_E2_2 dt lam r M
  · exact C02_coef_E3_1 dt lam r M
  · exact C02_coef_E3_2 dt lam r M
  · exact C02_coef_E3_3 dt lam r M
  · exact C02_coef_E3_4 dt lam r M
  · exact C02_coef_E3_5 dt lam r M
  · exact C02_coef_E4_1 dt lam r M
  · exact C02_coef_E4_1 dt lam r M
  · exact C02_coef_E4_1 dt lam r M
  · exact C02_coef_E4_4 dt lam r M
  · exact C02_coef_E4_5 dt lam r M
  · exact C02_coef_E4_6 dt lam r M

theorem rawPhi_of_ne (w : ℂ) (hw : w ≠ 0) (i : Fin 14) : rawPhi w i = exactPhi w i := by
  have h2 : w / 2 ≠ 0 := div_ne_zero hw (by norm_num)
  fin_cases i <;>
    simp only [rawPhi, exactPhi, phi1e_of_ne _ hw, phi2e_of_ne _ hw, phi3e_of_ne _ hw,
      phi1e_of_ne _ h2]

/-- with Lean's `x / 0 = 0` every raw closed form evaluates to `0` at the singularity (IEEE: NaN) -/
theorem rawPhi_zero (i : Fin 14) : rawPhi 0 i = 0 := by
  fin_cases i <;> simp [rawPhi, phi1, phi2, phi3]

theorem exactPhi_zero (i : Fin 14) : exactPhi 0 i = phiAtZero i := by
  fin_cases i <;> simp [exactPhi, phiAtZero] <;> norm_num

theorem norm_phiAtZero_ge (i : Fin 14) : 1 / 6 ≤ ‖phiAtZero i‖ := by
  fin_cases i <;> simp [phiAtZero] <;> norm_num

/-- the contour mean of the ENTIRE φ-combination `i` centred at `z` -/
noncomputable def entireMean (M : ℕ) (r : ℂ) (i : Fin 14) (z : ℂ) : ℂ :=
  contourMean (roots_of_unity M) r (fun w => exactPhi w i) z

/-- **T3.** off the exclusion set the stored coefficient is `dt · entireMean (λ dt)` -/
theorem storedCoef_eq_entireMean (dt lam r : ℂ) (M : ℕ)
    (hnz : ∀ ζ ∈ (roots_of_unity M : List ℂ), lam * dt ≠ -(r * ζ)) (i : Fin 14) :
    storedCoef dt lam M r i = dt * entireMean M r i (lam * dt) := by
  rw [storedCoef_eq_rawMean, entireMean]
  congr 1
  exact contourMean_congr_nodes M r _ _ _
    (fun ζ hζ => rawPhi_of_ne _ ((nodes_ne_zero_iff M r _).mpr hnz ζ hζ) i)

theorem differentiable_exactPhi (i : Fin 14) : Differentiable ℂ (fun w => exactPhi w i) := by
  have d1 := differentiable_phi1e
  have d2 := differentiable_phi2e
  have d3 := differentiable_phi3e
  have dh := differentiable_half
  have dC : Differentiable ℂ (fun w => phi1e w - 3 * phi2e w + 4 * phi3e w) :=
    (d1.sub (d2.const_mul 3)).add (d3.const_mul 4)
  have dD : Differentiable ℂ (fun w => 4 * phi2e w - 8 * phi3e w) :=
    (d2.const_mul 4).sub (d3.const_mul 8)
  have dE : Differentiable ℂ (fun w => 4 * phi3e w - phi2e w) := (d3.const_mul 4).sub d2
  have dF : Differentiable ℂ (fun w => phi2e w - 2 * phi3e w) := d2.sub (d3.const_mul 2)
  fin_cases i
  exacts [d1, d1, d2, dh, d1, dC, dD, dE, dh, dh, dh, dC, dF, dE]

theorem differentiable_list_sum (l : List ℂ) (r : ℂ) (f : ℂ → ℂ) (hf : Differentiable ℂ f) :
    Differentiable ℂ (fun z => (l.map (fun ζ => f (r * ζ + z))).sum) := by
  induction l with
  | nil => simp
  | cons a l ih =>
    simp only [List.map_cons, List.sum_cons]
    exact (hf.comp ((differentiable_const _).add differentiable_id)).add ih

/-- the contour mean of an entire function is an entire function of the centre `z` -/
theorem differentiable_entireMean (M : ℕ) (r : ℂ) (i : Fin 14) :
    Differentiable ℂ (entireMean M r i) := by
  have h : entireMean M r i = fun z =>
      ((roots_of_unity M : List ℂ).map (fun ζ => exactPhi (r * ζ + z) i)).sum
        / ((roots_of_unity M : List ℂ).length : ℂ) := by
    funext z
    exact contourMean_eq _ r _ z
  rw [h]
  exact (differentiable_list_sum _ r _ (differentiable_exactPhi i)).div_const _

/-- **T3 (no exclusion).**  the entire mean is within `k_i·4.9·10⁻¹³·e^c` of the exact φ-combination for
    EVERY `z` with `Re z ≤ c` (`c ≥ −16`), defaults `M = 16`, `r = 1` -/
theorem entireMean_error (z : ℂ) (c : ℝ) (hc : -16 ≤ c) (hz : z.re ≤ c) (i : Fin 14) :
    ‖entireMean 16 1 i z - exactPhi z i‖ ≤ coefWeight i * (4.9e-13 * Real.exp c) := by
  have h : ‖entireMean 16 1 i z - exactPhi z i‖
      ≤ coefWeight i * Real.exp (max 0 (z.re + 16)) * (‖(1 : ℂ)‖ / 16) ^ 16
        / (1 - (‖(1 : ℂ)‖ / 16) ^ 16) := by
    refine norm_contourMean_sub_le_cauchy' 16 (by norm_num) 1 z (fun w => exactPhi w i) 16 _
      Set.univ (by rw [norm_one]; norm_num) (differentiable_exactPhi i).differentiableOn
      (Set.subset_univ _) ?_
    intro w hw
    exact (norm_exactPhi_le_max w i).trans (mul_le_mul_of_nonneg_left
      (max_one_exp_le _ _ (sphere_re_le z w 16 hw)) (coefWeight_nonneg i))
  have h' := strip_bound (entireMean 16 1 i z - exactPhi z i) 1 z (coefWeight i) c
    (coefWeight_nonneg i) hc hz (by rw [norm_one, one_mul]; rw [norm_one] at h; exact h)
  rwa [norm_one, one_mul] at h'

/-- **T3 (regularity in `λ`).**  at every `λ₀` with `λ₀ dt` outside the exclusion set, the stored
    coefficient is a complex-differentiable (in particular continuous) function of `λ` — `‖z‖ = ‖r‖`
    is irrelevant, only the `M` points themselves are singular. -/
theorem differentiableAt_storedCoef (dt r : ℂ) (M : ℕ) (lam0 : ℂ)
    (hnz : ∀ ζ ∈ (roots_of_unity M : List ℂ), lam0 * dt ≠ -(r * ζ)) (i : Fin 14) :
    DifferentiableAt ℂ (fun lam => storedCoef dt lam M r i) lam0 := by
  have hd : DifferentiableAt ℂ (fun lam => dt * entireMean M r i (lam * dt)) lam0 :=
    ((differentiable_entireMean M r i).comp
      (differentiable_id.mul_const dt)).differentiableAt.const_mul dt
  refine hd.congr_of_eventuallyEq ?_
  -- the complement of the (finite, hence closed) exclusion set is open
  let S : Set ℂ := {w | w ∈ (roots_of_unity M : List ℂ).map (fun ζ => -(r * ζ))}
  have hS : IsClosed S := (List.finite_toSet _).isClosed
  have hopen : IsOpen ((fun lam : ℂ => lam * dt) ⁻¹' Sᶜ) :=
    hS.isOpen_compl.preimage (continuous_id.mul continuous_const)
  have hmem : lam0 ∈ (fun lam : ℂ => lam * dt) ⁻¹' Sᶜ := by
    intro hin
    obtain ⟨ζ, hζ, h⟩ := List.mem_map.mp hin
    exact hnz ζ hζ h.symm
  refine Filter.eventuallyEq_of_mem (hopen.mem_nhds hmem) ?_
  intro lam hlam
  refine storedCoef_eq_entireMean dt lam r M ?_ i
  intro ζ hζ h
  exact hlam (List.mem_map.mpr ⟨ζ, hζ, h.symm⟩)

theorem continuousAt_storedCoef (dt r : ℂ) (M : ℕ) (lam0 : ℂ)
    (hnz : ∀ ζ ∈ (roots_of_unity M : List ℂ), lam0 * dt ≠ -(r * ζ)) (i : Fin 14) :
    ContinuousAt (fun lam => storedCoef dt lam M r i) lam0 :=
  (differentiableAt_storedCoef dt r M lam0 hnz i).continuousAt

/-! ## AT an excluded point: the bound fails for every coefficient -/

/-- the entire and the raw node sums differ by `n · Φ_i(0)`, `n` = number of vanishing nodes -/
theorem node_sums_diff (l : List ℂ) (r z : ℂ) (i : Fin 14) :
    ∃ n : ℕ, (l.map (fun ζ => exactPhi (r * ζ + z) i)).sum
        - (l.map (fun ζ => rawPhi (r * ζ + z) i)).sum = (n : ℂ) * phiAtZero i ∧
      ((∃ ζ ∈ l, r * ζ + z = 0) → 1 ≤ n) ∧ n ≤ l.length := by
  induction l with
  | nil => exact ⟨0, by simp, by simp, le_rfl⟩
  | cons a l ih =>
    obtain ⟨n, hn, hex, hlen⟩ := ih
    by_cases ha : r * a + z = 0
    · refine ⟨n + 1, ?_, fun _ => Nat.le_add_left 1 n, by simpa using hlen⟩
      simp only [List.map_cons, List.sum_cons, ha, rawPhi_zero, exactPhi_zero]
      push_cast
      linear_combination hn
    · refine ⟨n, ?_, ?_, by simp only [List.length_cons]; omega⟩
      · simp only [List.map_cons, List.sum_cons, rawPhi_of_ne _ ha]
        linear_combination hn
      · rintro ⟨ζ, hζ, h⟩
        rcases List.mem_cons.mp hζ with rfl | hζ'
        · exact absurd h ha
        · exact hex ⟨ζ, hζ', h⟩

/-- `e · 4.9·10⁻¹³ · 10/3 < 5·10⁻¹²` -/
theorem tail_at_node (i : Fin 14) : coefWeight i * (4.9e-13 * Real.exp 1) ≤ 5e-12 := by
  have h1 := coefWeight_le i
  have h2 := coefWeight_nonneg i
  have h3 := Real.exp_one_lt_d9
  have h4 := Real.exp_pos 1
  nlinarith

/-- **T3 (at a node).**  `z = λ dt = −ζ₀` for a node `ζ₀`: every one of the fourteen stored coefficients
    (as computed by the model with `x/0 = 0`; IEEE would give NaN) misses its exact value by at least
    `‖dt‖ · (|Φ_i(0)|/16 − 5·10⁻¹²) ≥ ‖dt‖/100`. -/
theorem storedCoef_error_at_node (dt lam ζ0 : ℂ) (hζ0 : ζ0 ∈ (roots_of_unity 16 : List ℂ))
    (hz : lam * dt = -(1 * ζ0)) (i : Fin 14) :
    ‖dt‖ * (‖phiAtZero i‖ / 16 - 5e-12)
      ≤ ‖storedCoef dt lam 16 1 i - dt * exactPhi (lam * dt) i‖ := by
  set z := lam * dt with hzdef
  have hnode : (1 : ℂ) * ζ0 + z = 0 := (node_eq_zero_iff 1 ζ0 z).mpr hz
  have hre : z.re ≤ 1 := by
    have hn : ‖z‖ = 1 := by
      rw [norm_eq_of_node_eq_zero 16 1 z ζ0 hζ0 hnode, norm_one]
    exact (Complex.re_le_norm z).trans hn.le
  obtain ⟨n, hn, hex, _⟩ := node_sums_diff (roots_of_unity 16 : List ℂ) 1 z i
  have hn1 : 1 ≤ n := hex ⟨ζ0, hζ0, hnode⟩
  -- entire mean − raw mean = n Φ(0) / 16
  have hdiff : entireMean 16 1 i z
      - contourMean (roots_of_unity 16) 1 (fun w => rawPhi w i) z = (n : ℂ) * phiAtZero i / 16 := by
    rw [entireMean, contourMean_eq, contourMean_eq, ← sub_div, hn, length_roots]
    norm_num
  have hE := entireMean_error z 1 (by norm_num) hre i
  have hE' := hE.trans (tail_at_node i)
  have hsplit : storedCoef dt lam 16 1 i - dt * exactPhi z i
      = dt * ((entireMean 16 1 i z - exactPhi z i) - (n : ℂ) * phiAtZero i / 16) := by
    rw [storedCoef_eq_rawMean, ← hdiff]
    ring
  rw [hsplit, norm_mul]
  refine mul_le_mul_of_nonneg_left ?_ (norm_nonneg dt)
  have hbig : ‖phiAtZero i‖ / 16 ≤ ‖(n : ℂ) * phiAtZero i / 16‖ := by
    rw [norm_div, norm_mul, Complex.norm_natCast]
    have h16 : ‖(16 : ℂ)‖ = 16 := by norm_num
    rw [h16]
    have : (1 : ℝ) ≤ n := by exact_mod_cast hn1
    have h0 := norm_nonneg (phiAtZero i)
    apply div_le_div_of_nonneg_right _ (by norm_num)
    nlinarith
  have htri := norm_sub_norm_le ((n : ℂ) * phiAtZero i / 16) (entireMean 16 1 i z - exactPhi z i)
  rw [← norm_neg (((n : ℂ) * phiAtZero i / 16) - (entireMean 16 1 i z - exactPhi z i)),
    neg_sub] at htri
  linarith

/-- … in particular by more than `‖dt‖/100` -/
theorem storedCoef_error_at_node' (dt lam ζ0 : ℂ) (hζ0 : ζ0 ∈ (roots_of_unity 16 : List ℂ))
    (hz : lam * dt = -(1 * ζ0)) (i : Fin 14) :
    ‖dt‖ * 0.01 ≤ ‖storedCoef dt lam 16 1 i - dt * exactPhi (lam * dt) i‖ := by
  refine le_trans (mul_le_mul_of_nonneg_left ?_ (norm_nonneg dt))
    (storedCoef_error_at_node dt lam ζ0 hζ0 hz i)
  have := norm_phiAtZero_ge i
  linarith

/-- **T1/T3 (the exclusion set is exactly right).**  `dt ≠ 0`, `Re (λ dt) ≤ 0`: all fourteen stored
    coefficients are `1.7·10⁻¹²‖dt‖`-accurate  iff  `λ dt` is none of the sixteen points `−ζ_j`. -/
theorem halfplane_accuracy_iff (dt lam : ℂ) (hdt : dt ≠ 0) (hz : (lam * dt).re ≤ 0) :
    (∀ i : Fin 14, ‖storedCoef dt lam 16 1 i - dt * exactPhi (lam * dt) i‖ ≤ ‖dt‖ * 1.7e-12)
      ↔ ∀ ζ ∈ (roots_of_unity 16 : List ℂ), lam * dt ≠ -(1 * ζ) := by
  constructor
  · intro h ζ hζ hzζ
    have h1 := storedCoef_error_at_node' dt lam ζ hζ hzζ 0
    have h2 := h 0
    have hpos : 0 < ‖dt‖ := norm_pos_iff.mpr hdt
    nlinarith
  · intro hnz i
    exact storedCoef_error_halfplane dt lam hz hnz i

/-! ## the library's situation: real `dt ≥ 0`, complex `λ` with `Re λ ≤ 0` -/

theorem re_mul_ofReal_nonpos (dt : ℝ) (lam : ℂ) (hdt : 0 ≤ dt) (hl : lam.re ≤ 0) :
    (lam * (dt : ℂ)).re ≤ 0 := by
  rw [Complex.re_mul_ofReal]
  exact mul_nonpos_iff.mpr (Or.inr ⟨hl, hdt⟩)

/-- **T1 for the library's inputs.** real time step `dt ≥ 0`, any complex symbol with `Re λ ≤ 0`
    (dissipative, dispersive or both), `λ dt ∉ {−ζ_j}` -/
theorem storedCoef_error_dissipative (dt : ℝ) (lam : ℂ) (hdt : 0 ≤ dt) (hl : lam.re ≤ 0)
    (hnz : ∀ ζ ∈ (roots_of_unity 16 : List ℂ), lam * (dt : ℂ) ≠ -(1 * ζ)) (i : Fin 14) :
    ‖storedCoef (dt : ℂ) lam 16 1 i - (dt : ℂ) * exactPhi (lam * (dt : ℂ)) i‖ ≤ |dt| * 1.7e-12 := by
  have h := storedCoef_error_halfplane (dt : ℂ) lam (re_mul_ofReal_nonpos dt lam hdt hl) hnz i
  rwa [Complex.norm_real, Real.norm_eq_abs] at h

/-- **T2 for the library's inputs.** -/
theorem norm_storedCoef_le_dissipative (dt : ℝ) (lam : ℂ) (hdt : 0 ≤ dt) (hl : lam.re ≤ 0)
    (hnz : ∀ ζ ∈ (roots_of_unity 16 : List ℂ), lam * (dt : ℂ) ≠ -(1 * ζ)) (i : Fin 14) :
    ‖storedCoef (dt : ℂ) lam 16 1 i‖ ≤ |dt| * (coefWeight i + 1.7e-12) := by
  have h := norm_storedCoef_le (dt : ℂ) lam (re_mul_ofReal_nonpos dt lam hdt hl) hnz i
  rwa [Complex.norm_real, Real.norm_eq_abs] at h

/-! ## non-vacuity -/

example : (0 : ℕ) < 16 ∧ 16 % 4 = 0 := by norm_num
example : (-16 : ℝ) ≤ 0 ∧ (Complex.I).re ≤ 0 := by simp
example : (1 : ℂ) ≠ 0 ∧ ((Complex.I * 3) * 1 : ℂ).re ≤ 0 := by simp
/-- a damped travelling wave `λ = −2 + 5i`, `dt = 1/10` (`‖λ dt‖ = √29/10 ≠ 1`) -/
example (i : Fin 14) :
    ‖storedCoef ((1 / 10 : ℝ) : ℂ) (-2 + 5 * Complex.I) 16 1 i‖
      ≤ |(1 / 10 : ℝ)| * (coefWeight i + 1.7e-12) := by
  refine norm_storedCoef_le_dissipative (1 / 10) (-2 + 5 * Complex.I) (by norm_num) (by simp)
    (excluded_of_norm_ne_one 16 _ ?_) i
  intro h
  have h2 : ‖(-2 + 5 * Complex.I) * ((1 / 10 : ℝ) : ℂ)‖ ^ 2 = 1 := by rw [h]; norm_num
  rw [← Complex.normSq_eq_norm_sq] at h2
  simp [Complex.normSq_apply] at h2
  norm_num at h2

/-- the excluded points exist and lie in the closed left half-plane or not, e.g. `−ζ_1` -/
example : ∃ lam dt : ℂ, dt ≠ 0 ∧ ∃ ζ0 ∈ (roots_of_unity 16 : List ℂ), lam * dt = -(1 * ζ0) :=
  ⟨-(1 * root_of_unity 16 1), 1, one_ne_zero, root_of_unity 16 1,
    (mem_roots_iff 16 _).mpr ⟨0, by norm_num, rfl⟩, by ring⟩

example (i : Fin 14) : DifferentiableAt ℂ (fun lam => storedCoef 1 lam 16 1 i) Complex.I :=
  differentiableAt_storedCoef 1 1 16 Complex.I
    (by rw [mul_one]; exact excluded_of_re_eq_zero 16 (by norm_num) (by norm_num) _ Complex.I_re) i

end Exponax.ContourComplex
