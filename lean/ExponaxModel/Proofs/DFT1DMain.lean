import ExponaxModel.Proofs.DFT1D
/-
Main 1-D theorems: inversion / round trip `irfftnM 1 N (rfftnM 1 N u) = u` for real `u`,
Parseval in the half layout, shift theorem, single-mode spectrum.
-/
namespace Exponax.DFT
open Exponax Exponax.Layout Exponax.Transform Finset

/-! ### 3d. round trip -/

/-- full-range inverse DFT -/
theorem dft_inversion (N : ℕ) (hN : 0 < N) (u : Array ℂ) (j : ℕ) (hj : j < N) :
    ∑ h ∈ range N, dft N u h * zeta N ^ (-((h : ℤ) * (j : ℤ))) = u.getD j 0 * (N : ℂ) := by
  unfold dft
  simp only [Finset.sum_mul]
  rw [Finset.sum_comm]
  have key : ∀ j' ∈ range N,
      ∑ h ∈ range N, u.getD j' 0 * zeta N ^ ((h : ℤ) * (j' : ℤ)) * zeta N ^ (-((h : ℤ) * (j : ℤ)))
        = u.getD j' 0 * (if j' = j then (N : ℂ) else 0) := by
    intro j' hj'
    rw [← zeta_sum_sub N hN j' j (Finset.mem_range.mp hj') hj, Finset.mul_sum]
    apply Finset.sum_congr rfl
    intro h _
    rw [mul_assoc, ← zpow_add₀ (zeta_ne_zero N)]
    congr 2
    ring
  rw [Finset.sum_congr rfl key]
  simp only [mul_ite, mul_zero, Finset.sum_ite_eq', Finset.mem_range, hj, if_true]

/-- the half-layout inversion sum: for real `u`,
    `Σ_{h ≤ N/2} w_h Re(F_h ζ^{-h j}) = N u_j` -/
theorem half_inversion (N : ℕ) (hN : 0 < N) (u : Array ℂ)
    (hu : ∀ j < N, (u.getD j 0).im = 0) (j : ℕ) (hj : j < N) :
    ∑ h ∈ range (N / 2 + 1), (herm_weight 1 N h : ℂ) *
        (((dft N u h * zeta N ^ (-((h : ℤ) * (j : ℤ)))).re : ℝ) : ℂ)
      = u.getD j 0 * (N : ℂ) := by
  rw [half_sum N hN (fun h : ℕ => (((dft N u h * zeta N ^ (-((h : ℤ) * (j : ℤ)))).re : ℝ) : ℂ))]
  · rw [← Complex.ofReal_sum, ← Complex.re_sum, dft_inversion N hN u j hj]
    have hre : u.getD j 0 = (((u.getD j 0).re : ℝ) : ℂ) := by
      apply Complex.ext
      · simp
      · rw [Complex.ofReal_im]; exact hu j hj
    obtain ⟨x, hx⟩ : ∃ x : ℝ, u.getD j 0 = (x : ℂ) := ⟨_, hre⟩
    rw [hx, show (x : ℂ) * (N : ℂ) = ((x * N : ℝ) : ℂ) by push_cast; rfl, Complex.ofReal_re]
  · intro h h0 hhN
    have : dft N u ((N - h : ℕ) : ℤ) * zeta N ^ (-(((N - h : ℕ) : ℤ) * (j : ℤ)))
        = (starRingEnd ℂ) (dft N u h * zeta N ^ (-((h : ℤ) * (j : ℤ)))) := by
      rw [map_mul, conj_dft N u hu, conj_zeta_zpow, Nat.cast_sub hhN.le]
      congr 1
      · rw [show (N : ℤ) - (h : ℤ) = -(h : ℤ) + (N : ℤ) * 1 by ring, dft_add_period]
      · rw [show -(((N : ℤ) - (h : ℤ)) * (j : ℤ)) = - -((h : ℤ) * (j : ℤ)) + (N : ℤ) * (-(j : ℤ)) by ring,
          zeta_zpow_add_mul]
    show (((dft N u ((N - h : ℕ) : ℤ) * zeta N ^ (-(((N - h : ℕ) : ℤ) * (j : ℤ)))).re : ℝ) : ℂ) = _
    rw [this, Complex.conj_re]

/-- **Round trip (entrywise).** For a real field `u` on `N ≥ 1` points (odd or even),
    `irfft (rfft u) = u`. -/
theorem irfft_rfft_1d (N : ℕ) (hN : 0 < N) (u : Array ℂ)
    (hu : ∀ j < N, (u.getD j 0).im = 0) (j : ℕ) (hj : j < N) :
    (irfftnM 1 N (rfftnM 1 N u)).getD j 0 = u.getD j 0 := by
  rw [irfft1_getD N hN _ j hj]
  have h1 : ∀ h ∈ range (N / 2 + 1),
      (herm_weight 1 N h : ℂ) *
        ((((rfftnM 1 N u).getD h 0 * zeta N ^ (-((h : ℤ) * (j : ℤ)))).re : ℝ) : ℂ)
      = (herm_weight 1 N h : ℂ) *
        (((dft N u h * zeta N ^ (-((h : ℤ) * (j : ℤ)))).re : ℝ) : ℂ) := by
    intro h hh
    rw [rfft1_getD N hN u h (by have := Finset.mem_range.mp hh; omega)]
  rw [Finset.sum_congr rfl h1, half_inversion N hN u hu j hj]
  have hNne : (N : ℂ) ≠ 0 := by exact_mod_cast hN.ne'
  field_simp

/-- **Round trip (array form).** -/
theorem irfft_rfft_1d_array (N : ℕ) (hN : 0 < N) (u : Array ℂ) (hsz : u.size = N)
    (hu : ∀ (j : ℕ) (hj : j < u.size), (u[j]).im = 0) :
    irfftnM 1 N (rfftnM 1 N u) = u := by
  have hu' : ∀ j < N, (u.getD j 0).im = 0 := by
    intro j hj
    have hj' : j < u.size := by omega
    simpa [Array.getD, hj'] using hu j hj'
  apply Array.ext
  · simp [hsz]
  · intro j h1 h2
    have hj : j < N := by omega
    have := irfft_rfft_1d N hN u hu' j hj
    simpa [Array.getD, h1, h2, hj] using this

/-- **Round trip** for arrays given as casts of real samples. -/
theorem irfft_rfft_1d_ofReal (N : ℕ) (hN : 0 < N) (x : ℕ → ℝ) :
    irfftnM 1 N (rfftnM 1 N (tab N (fun j => ((x j : ℝ) : ℂ)))) = tab N (fun j => ((x j : ℝ) : ℂ)) := by
  apply irfft_rfft_1d_array N hN _ (tab_size _ _)
  intro j hj
  rw [tab_getElem]
  simp

/-! ### 3e. Parseval -/

/-- cross-correlation identity behind Parseval -/
theorem dft_cross (N : ℕ) (hN : 0 < N) (a b : ℕ → ℂ) :
    ∑ h ∈ range N, (∑ j ∈ range N, a j * zeta N ^ ((h : ℤ) * (j : ℤ))) *
        (∑ j ∈ range N, b j * zeta N ^ (-((h : ℤ) * (j : ℤ))))
      = (N : ℂ) * ∑ j ∈ range N, a j * b j := by
  simp only [Finset.sum_mul_sum]
  rw [Finset.sum_comm]
  rw [Finset.mul_sum]
  apply Finset.sum_congr rfl
  intro j hj
  rw [Finset.sum_comm]
  have key : ∀ j' ∈ range N,
      ∑ h ∈ range N, a j * zeta N ^ ((h : ℤ) * (j : ℤ)) * (b j' * zeta N ^ (-((h : ℤ) * (j' : ℤ))))
        = a j * b j' * (if j = j' then (N : ℂ) else 0) := by
    intro j' hj'
    rw [← zeta_sum_sub N hN j j' (Finset.mem_range.mp hj) (Finset.mem_range.mp hj'), Finset.mul_sum]
    apply Finset.sum_congr rfl
    intro h _
    rw [show a j * zeta N ^ ((h : ℤ) * (j : ℤ)) * (b j' * zeta N ^ (-((h : ℤ) * (j' : ℤ))))
        = a j * b j' * (zeta N ^ ((h : ℤ) * (j : ℤ)) * zeta N ^ (-((h : ℤ) * (j' : ℤ)))) by ring,
      ← zpow_add₀ (zeta_ne_zero N)]
    congr 2
    ring
  rw [Finset.sum_congr rfl key]
  simp only [mul_ite, mul_zero, Finset.sum_ite_eq, hj, if_true]
  ring

theorem normsq_eq (z : ℂ) : (((‖z‖ ^ 2 : ℝ)) : ℂ) = z * (starRingEnd ℂ) z := by
  rw [Complex.mul_conj, Complex.normSq_eq_norm_sq]

theorem conj_dft_general (N : ℕ) (u : Array ℂ) (h : ℤ) :
    (starRingEnd ℂ) (dft N u h)
      = ∑ j ∈ range N, (starRingEnd ℂ) (u.getD j 0) * zeta N ^ (-(h * (j : ℤ))) := by
  unfold dft
  rw [map_sum]
  apply Finset.sum_congr rfl
  intro j _
  rw [map_mul, conj_zeta_zpow]

/-- Parseval over the full spectrum (any complex `u`) -/
theorem dft_parseval_full (N : ℕ) (hN : 0 < N) (u : Array ℂ) :
    ∑ h ∈ range N, ‖dft N u h‖ ^ 2 = (N : ℝ) * ∑ j ∈ range N, ‖u.getD j 0‖ ^ 2 := by
  apply Complex.ofReal_injective
  rw [Complex.ofReal_sum, Complex.ofReal_mul, Complex.ofReal_sum]
  simp only [normsq_eq]
  have := dft_cross N hN (fun j => u.getD j 0) (fun j => (starRingEnd ℂ) (u.getD j 0))
  rw [Complex.ofReal_natCast, ← this]
  apply Finset.sum_congr rfl
  intro h _
  rw [conj_dft_general]
  rfl

/-- half-layout Parseval for the extended DFT: `Σ_{h ≤ N/2} w_h |F_h|² = N Σ_j |u_j|²` (real `u`) -/
theorem half_parseval (N : ℕ) (hN : 0 < N) (u : Array ℂ) (hu : ∀ j < N, (u.getD j 0).im = 0) :
    ∑ h ∈ range (N / 2 + 1), (herm_weight 1 N h : ℝ) * ‖dft N u h‖ ^ 2
      = (N : ℝ) * ∑ j ∈ range N, ‖u.getD j 0‖ ^ 2 := by
  rw [half_sum N hN (fun h : ℕ => ‖dft N u h‖ ^ 2), dft_parseval_full N hN]
  intro h h0 hhN
  show ‖dft N u ((N - h : ℕ) : ℤ)‖ ^ 2 = ‖dft N u h‖ ^ 2
  rw [Nat.cast_sub hhN.le, show (N : ℤ) - (h : ℤ) = -(h : ℤ) + (N : ℤ) * 1 by ring, dft_add_period,
    ← conj_dft N u hu, Complex.norm_conj]

/-- **Parseval in the half layout** for a real field:
    `Σ_j |u_j|² = (1/N) Σ_{h ≤ N/2} w_h |û_h|²`, `w = herm_weight`. -/
theorem parseval_1d (N : ℕ) (hN : 0 < N) (u : Array ℂ) (hu : ∀ j < N, (u.getD j 0).im = 0) :
    ∑ j ∈ range N, ‖u.getD j 0‖ ^ 2
      = (1 / (N : ℝ)) * ∑ h ∈ range (N / 2 + 1),
          (herm_weight 1 N h : ℝ) * ‖(rfftnM 1 N u).getD h 0‖ ^ 2 := by
  have h1 : ∀ h ∈ range (N / 2 + 1),
      (herm_weight 1 N h : ℝ) * ‖(rfftnM 1 N u).getD h 0‖ ^ 2
        = (herm_weight 1 N h : ℝ) * ‖dft N u h‖ ^ 2 := by
    intro h hh
    rw [rfft1_getD N hN u h (by have := Finset.mem_range.mp hh; omega)]
  rw [Finset.sum_congr rfl h1, half_parseval N hN u hu]
  have hNne : (N : ℝ) ≠ 0 := by exact_mod_cast hN.ne'
  field_simp

/-! ### 3f. shift theorem -/

theorem sum_range_periodic_step (N : ℕ) (f : ℤ → ℂ) (hf : ∀ i, f (i + N) = f i) (c : ℤ) :
    ∑ j ∈ range N, f ((j : ℤ) + (c + 1)) = ∑ j ∈ range N, f ((j : ℤ) + c) := by
  have h1 := Finset.sum_range_succ' (fun j : ℕ => f ((j : ℤ) + c)) N
  have h2 := Finset.sum_range_succ (fun j : ℕ => f ((j : ℤ) + c)) N
  rw [h1] at h2
  have h3 : f (((0 : ℕ) : ℤ) + c) = f ((N : ℤ) + c) := by
    rw [show ((N : ℤ) + c) = (((0 : ℕ) : ℤ) + c) + N by push_cast; ring, hf]
  simp only [h3] at h2
  have h4 := add_right_cancel h2
  rw [← h4]
  apply Finset.sum_congr rfl
  intro j _
  congr 1
  push_cast
  ring

/-- the sum of an `N`-periodic function over a shifted window of length `N` -/
theorem sum_range_periodic_shift (N : ℕ) (f : ℤ → ℂ) (hf : ∀ i, f (i + N) = f i) (c : ℤ) :
    ∑ j ∈ range N, f ((j : ℤ) + c) = ∑ j ∈ range N, f (j : ℤ) := by
  induction c using Int.induction_on with
  | zero => simp
  | succ c ih => rw [sum_range_periodic_step N f hf, ih]
  | pred c ih =>
    rw [← ih, ← sum_range_periodic_step N f hf (-(c : ℤ) - 1)]
    simp

/-- `jnp.roll(u, s)` on `N` points: `roll(u,s)[j] = u[(j - s) mod N]` -/
def roll (N : ℕ) (u : Array ℂ) (s : ℤ) : Array ℂ :=
  tab N (fun j => u.getD (((j : ℤ) - s) % (N : ℤ)).toNat 0)

/-- **Shift theorem.** Rolling `u` by `s` multiplies `û_h` by `ζ^{h s} = e^{-2πi h s/N}`. -/
theorem rfft_roll_1d (N : ℕ) (hN : 0 < N) (u : Array ℂ) (s : ℤ) (h : ℕ) (hh : h ≤ N / 2) :
    (rfftnM 1 N (roll N u s)).getD h 0 = twiddle N ((h : ℤ) * s) * (rfftnM 1 N u).getD h 0 := by
  rw [rfft1_getD N hN _ h hh, rfft1_getD N hN _ h hh, twiddle_eq_zpow]
  unfold dft
  set ψ : ℤ → ℂ := fun i => u.getD (i % (N : ℤ)).toNat 0 * zeta N ^ ((h : ℤ) * i) with hψ
  have hper : ∀ i, ψ (i + N) = ψ i := by
    intro i
    simp only [hψ]
    rw [Int.add_emod_right, show (h : ℤ) * (i + N) = (h : ℤ) * i + (N : ℤ) * h by ring,
      zeta_zpow_add_mul]
  have hL : ∀ j ∈ range N, (roll N u s).getD j 0 * zeta N ^ ((h : ℤ) * (j : ℤ))
      = zeta N ^ ((h : ℤ) * s) * ψ ((j : ℤ) + (-s)) := by
    intro j hj
    rw [roll, tab_getD _ _ _ _ (Finset.mem_range.mp hj)]
    simp only [hψ]
    rw [← sub_eq_add_neg, mul_left_comm, ← zpow_add₀ (zeta_ne_zero N)]
    congr 2
    ring
  have hR : ∀ j ∈ range N, u.getD j 0 * zeta N ^ ((h : ℤ) * (j : ℤ)) = ψ (j : ℤ) := by
    intro j hj
    simp only [hψ]
    rw [Int.emod_eq_of_lt (by positivity) (by exact_mod_cast Finset.mem_range.mp hj), Int.toNat_natCast]
  rw [Finset.sum_congr rfl hL, Finset.sum_congr rfl hR, ← Finset.mul_sum,
    sum_range_periodic_shift N ψ hper]

/-! ### 3c. single mode -/

private theorem cos_mode (N : ℕ) (k j : ℕ) (a φ : ℝ) :
    (((a * Real.cos (2 * Real.pi * k * j / N + φ)) : ℝ) : ℂ)
      = (a / 2 : ℂ) * (Complex.exp (φ * Complex.I) * zeta N ^ (-((k : ℤ) * (j : ℤ)))
          + Complex.exp (-(φ * Complex.I)) * zeta N ^ ((k : ℤ) * (j : ℤ))) := by
  rw [zeta_zpow_eq_exp, zeta_zpow_eq_exp, ← Complex.exp_add, ← Complex.exp_add]
  set θ : ℂ := 2 * Real.pi * k * j / N + φ with hθ
  have hA : (φ : ℂ) * Complex.I + -(2 * (Real.pi : ℂ) * Complex.I * ((-((k : ℤ) * (j : ℤ)) : ℤ) : ℂ) / (N : ℂ))
      = θ * Complex.I := by
    rw [hθ]; push_cast; ring
  have hB : -((φ : ℂ) * Complex.I) + -(2 * (Real.pi : ℂ) * Complex.I * (((k : ℤ) * (j : ℤ) : ℤ) : ℂ) / (N : ℂ))
      = -θ * Complex.I := by
    rw [hθ]; push_cast; ring
  rw [hA, hB, ← Complex.two_cos]
  rw [hθ]
  push_cast
  ring

/-- **Single mode.** The spectrum of `u_j = a cos(2π k j/N + φ)`, `0 ≤ k ≤ N/2`, at the stored
    modes `h ≤ N/2`: `(a/2) e^{iφ} N` at `h = k` (`a cos φ · N` when `k` is DC or Nyquist), else 0. -/
theorem rfft_single_mode_1d (N : ℕ) (hN : 0 < N) (k h : ℕ) (hk : k ≤ N / 2) (hh : h ≤ N / 2)
    (a φ : ℝ) :
    (rfftnM 1 N (tab N (fun j => (((a * Real.cos (2 * Real.pi * k * j / N + φ)) : ℝ) : ℂ)))).getD h 0
      = if h = k then
          (if k = 0 ∨ 2 * k = N then (((a * Real.cos φ * N) : ℝ) : ℂ)
           else (a / 2 : ℂ) * Complex.exp (φ * Complex.I) * (N : ℂ))
        else 0 := by
  rw [rfft1_getD N hN _ h hh]
  unfold dft
  have hterm : ∀ j ∈ range N,
      (tab N (fun j => (((a * Real.cos (2 * Real.pi * k * j / N + φ)) : ℝ) : ℂ))).getD j 0
          * zeta N ^ ((h : ℤ) * (j : ℤ))
        = (a / 2 : ℂ) * Complex.exp (φ * Complex.I) * zeta N ^ (((h : ℤ) - (k : ℤ)) * (j : ℤ))
          + (a / 2 : ℂ) * Complex.exp (-(φ * Complex.I)) * zeta N ^ (((h : ℤ) + (k : ℤ)) * (j : ℤ)) := by
    intro j hj
    rw [tab_getD _ _ _ _ (Finset.mem_range.mp hj), cos_mode,
      show ((h : ℤ) - (k : ℤ)) * (j : ℤ) = -((k : ℤ) * (j : ℤ)) + (h : ℤ) * (j : ℤ) by ring,
      show ((h : ℤ) + (k : ℤ)) * (j : ℤ) = (k : ℤ) * (j : ℤ) + (h : ℤ) * (j : ℤ) by ring,
      zpow_add₀ (zeta_ne_zero N), zpow_add₀ (zeta_ne_zero N)]
    ring
  rw [Finset.sum_congr rfl hterm, Finset.sum_add_distrib, ← Finset.mul_sum, ← Finset.mul_sum,
    zeta_sum_zpow N hN, zeta_sum_zpow N hN]
  have d1 : (N : ℤ) ∣ (h : ℤ) - (k : ℤ) ↔ h = k := by
    constructor
    · intro hd
      have := Int.eq_zero_of_abs_lt_dvd hd (by rw [abs_lt]; constructor <;> omega)
      omega
    · rintro rfl; simp
  have d2 : (N : ℤ) ∣ (h : ℤ) + (k : ℤ) ↔ (h = k ∧ (k = 0 ∨ 2 * k = N)) := by
    constructor
    · intro hd
      by_cases h0 : h + k = 0
      · omega
      · have hd' : (N : ℤ) ∣ (h : ℤ) + (k : ℤ) - N := Dvd.dvd.sub hd (dvd_refl _)
        have := Int.eq_zero_of_abs_lt_dvd hd' (by rw [abs_lt]; constructor <;> omega)
        omega
    · rintro ⟨rfl, h0 | h0⟩
      · subst h0; simp
      · exact ⟨1, by omega⟩
  simp only [d1, d2]
  by_cases hhk : h = k
  · subst hhk
    by_cases hsp : h = 0 ∨ 2 * h = N
    · simp only [hsp, and_self, if_true]
      have := Complex.two_cos (φ : ℂ)
      push_cast
      rw [neg_mul] at this
      linear_combination ((a : ℂ) / 2 * (N : ℂ)) * this.symm
    · simp only [hsp, and_false, if_true, if_false]
      ring
  · simp [hhk]


/-! ### extras -/

/-- the index used by `roll` for a natural shift `s`, in `ℕ` arithmetic -/
theorem roll_nat_index (N j s : ℕ) (hN : 0 < N) :
    (((j : ℤ) - (s : ℤ)) % (N : ℤ)).toNat = (j + (N - s % N)) % N := by
  have hNz : (N : ℤ) ≠ 0 := by exact_mod_cast hN.ne'
  apply Int.ofNat_inj.mp
  rw [Int.toNat_of_nonneg (Int.emod_nonneg _ hNz)]
  push_cast [Nat.cast_sub (Nat.mod_lt s hN).le]
  have h1 := Int.emod_add_mul_ediv (s : ℤ) (N : ℤ)
  have : (j : ℤ) + ((N : ℤ) - (s : ℤ) % (N : ℤ)) = ((j : ℤ) - (s : ℤ)) + (N : ℤ) * (1 + (s : ℤ) / (N : ℤ)) := by
    linear_combination -h1
  rw [this, Int.add_mul_emod_self_left]

/-- shift theorem with the rolled array written in `ℕ` arithmetic (`s ≥ 0`) -/
theorem rfft_roll_1d_nat (N : ℕ) (hN : 0 < N) (u : Array ℂ) (s h : ℕ) (hh : h ≤ N / 2) :
    (rfftnM 1 N (tab N (fun j => u.getD ((j + (N - s % N)) % N) 0))).getD h 0
      = twiddle N ((h : ℤ) * (s : ℤ)) * (rfftnM 1 N u).getD h 0 := by
  rw [← rfft_roll_1d N hN u (s : ℤ) h hh, roll]
  simp only [roll_nat_index N _ s hN]

/-- for real input the DC coefficient is real -/
theorem rfft_dc_real (N : ℕ) (hN : 0 < N) (u : Array ℂ) (hu : ∀ j < N, (u.getD j 0).im = 0) :
    ((rfftnM 1 N u).getD 0 0).im = 0 := by
  rw [rfft1_getD N hN u 0 (Nat.zero_le _)]
  apply Complex.conj_eq_iff_im.mp
  rw [conj_dft N u hu]
  simp

/-- for real input and even `N` the Nyquist coefficient is real -/
theorem rfft_nyquist_real (N : ℕ) (hN : 0 < N) (hev : N % 2 = 0) (u : Array ℂ)
    (hu : ∀ j < N, (u.getD j 0).im = 0) :
    ((rfftnM 1 N u).getD (N / 2) 0).im = 0 := by
  rw [rfft1_getD N hN u (N / 2) le_rfl]
  apply Complex.conj_eq_iff_im.mp
  rw [conj_dft N u hu]
  have : -(((N / 2 : ℕ) : ℤ)) + (N : ℤ) * 1 = ((N / 2 : ℕ) : ℤ) := by
    have : (N : ℤ) = 2 * ((N / 2 : ℕ) : ℤ) := by
      have := Nat.div_add_mod N 2
      omega
    linarith
  rw [← dft_add_period N u _ 1, this]

end Exponax.DFT
