import ExponaxModel.Proofs.Instances
import ExponaxModel.Model.EtdrkSpec
import ExponaxModel.Generated.Etdrk
/-
E1 (DESIGN §4): algebra of the ETDRK closed forms over ℂ.
-/
namespace Exponax
open Exponax.Spec Exponax.Gen.Etdrk

/-- the classical recursion φ_{k+1}(z) = (φ_k(z) − 1/k!)/z, z ≠ 0 -/
theorem phi2_rec (z : ℂ) (hz : z ≠ 0) : phi2 z = (phi1 z - 1) / z := by
  unfold phi2 phi1; simp only [hasExp_complex]; field_simp

theorem phi3_rec (z : ℂ) (hz : z ≠ 0) : phi3 z = (phi2 z - 1 / 2) / z := by
  unfold phi3 phi2; simp only [hasExp_complex, lit_eq]; field_simp; ring

theorem phi1_rec (z : ℂ) (hz : z ≠ 0) : phi1 z = (Complex.exp z - 1) / z := rfl

end Exponax
