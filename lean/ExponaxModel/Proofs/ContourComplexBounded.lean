import ExponaxModel.Proofs.ContourComplex
/-
C19 support — T2: boundedness of the stored ETDRK coefficients, the propagators and one ETDRK-p step
(p = 1,2,3,4) for COMPLEX symbols `z = λ·dt` in the closed left half-plane (and in a strip
`Re z ≤ c`, `c ≥ 0`), code defaults `M = 16`, `r = 1`; `z` outside the 16-point exclusion set
`{−ζ_j}` (e.g. `‖z‖ ≠ 1`, or `z` real, or `z` purely imaginary — `ContourComplexNodes.lean`).

 * `norm_exactPhi_le`        ‖φ-combination_i (z)‖ ≤ k_i · e^c            (Re z ≤ c, c ≥ 0)
 * `norm_storedCoef_le`      ‖stored coefficient_i‖ ≤ ‖dt‖ · (k_i + 1.7·10⁻¹²)        (Re z ≤ 0)
 * `norm_storedCoef_le_strip`                       ≤ ‖dt‖ · (k_i + 1.7·10⁻¹²) · e^c  (Re z ≤ c)
 * `coefs_bounded_halfplane`  explicit fourteen-fold form
 * `norm_exp_term_le_one'`, `norm_E3_half_exp_term_le_one'`, `norm_E4_half_exp_term_le_one'`
 * `norm_E?step_stored_le`    one step of ETDRK1–4 on a VECTOR of modes `ι → ℂ` (the nonlinearity couples
   the modes) with the stored coefficients: `‖(step u)_i‖ ≤ ‖u_i‖ + ‖dt‖ · C_p · B` whenever
   `‖N(v)_i‖ ≤ B`;  `C_1 = 1.001`, `C_2 = 2.001`, `C_3 = C_4 = 7.67`.
-/
set_option linter.unusedVariables false
namespace Exponax.ContourComplex
open Exponax Exponax.Spec Exponax.Gen.Etdrk Exponax.ContourTail

/-! ## the exact φ-combinations are bounded by `k_i e^c` on `Re z ≤ c` -/

theorem max_one_exp_le_exp (x c : ℝ) (hc : 0 ≤ c) (hx : x ≤ c) : max 1 (Real.exp x) ≤ Real.exp c :=
  max_le (Real.one_le_exp hc) (Real.exp_le_exp.mpr hx)

/-- `‖exactPhi w i‖ ≤ k_i max(1, e^{Re w})` on all of `ℂ` -/
theorem norm_exactPhi_le_max (w : ℂ) (i : Fin 14) :
    ‖exactPhi w i‖ ≤ coefWeight i * max 1 (Real.exp w.re) := by
  have key : ∀ (a1 a2 a3 : ℂ) (k : ℝ), ‖a1‖ + ‖a2‖ / 2 + ‖a3‖ / 6 = k →
      ‖a1 * phi1e w + a2 * phi2e w + a3 * phi3e w‖ ≤ k * max 1 (Real.exp w.re) := by
    intro a1 a2 a3 k hk
    rw [← hk]
    exact norm_lincomb_le a1 a2 a3 w
  have hA : ‖phi1e w‖ ≤ (1 : ℝ) * max 1 (Real.exp w.re) := by
    have h := key 1 0 0 1 (by norm_num)
    rwa [show (1 : ℂ) * phi1e w + 0 * phi2e w + 0 * phi3e w = phi1e w by ring] at h
  have hB : ‖phi2e w‖ ≤ (1 / 2 : ℝ) * max 1 (Real.exp w.re) := by
    have h := key 0 1 0 (1 / 2) (by norm_num)
    rwa [show (0 : ℂ) * phi1e w + 1 * phi2e w + 0 * phi3e w = phi2e w by ring] at h
  have hH := norm_half_le w
  have hC : ‖phi1e w - 3 * phi2e w + 4 * phi3e w‖ ≤ (19 / 6 : ℝ) * max 1 (Real.exp w.re) := by
    have h := key 1 (-3) 4 (19 / 6) (by norm_num)
    rwa [show (1 : ℂ) * phi1e w + (-3) * phi2e w + 4 * phi3e w
      = phi1e w - 3 * phi2e w + 4 * phi3e w by ring] at h
  have hD : ‖4 * phi2e w - 8 * phi3e w‖ ≤ (10 / 3 : ℝ) * max 1 (Real.exp w.re) := by
    have h := key 0 4 (-8) (10 / 3) (by norm_num)
    rwa [show (0 : ℂ) * phi1e w + 4 * phi2e w + (-8) * phi3e w
      = 4 * phi2e w - 8 * phi3e w by ring] at h
  have hE : ‖4 * phi3e w - phi2e w‖ ≤ (7 / 6 : ℝ) * max 1 (Real.exp w.re) := by
    have h := key 0 (-1) 4 (7 / 6) (by norm_num)
    rwa [show (0 : ℂ) * phi1e w + (-1) * phi2e w + 4 * phi3e w
      = 4 * phi3e w - phi2e w by ring] at h
  have hF : ‖phi2e w - 2 * phi3e w‖ ≤ (5 / 6 : ℝ) * max 1 (Real.exp w.re) := by
    have h := key 0 1 (-2) (5 / 6) (by norm_num)
    rwa [show (0 : ℂ) * phi1e w + 1 * phi2e w + (-2) * phi3e w
      = phi2e w - 2 * phi3e w by ring] at h
  fin_cases i
  exacts [hA, hA, hB, hH, hA, hC, hD, hE, hH, hH, hH, hC, hF, hE]

/-- `‖exactPhi z i‖ ≤ k_i e^c` on `Re z ≤ c` (`c ≥ 0`) -/
theorem norm_exactPhi_le_strip (z : ℂ) (c : ℝ) (hc : 0 ≤ c) (hz : z.re ≤ c) (i : Fin 14) :
    ‖exactPhi z i‖ ≤ coefWeight i * Real.exp c :=
  (norm_exactPhi_le_max z i).trans
    (mul_le_mul_of_nonneg_left (max_one_exp_le_exp _ _ hc hz) (coefWeight_nonneg i))

/-- closed left half-plane: `‖exactPhi z i‖ ≤ k_i` -/
theorem norm_exactPhi_le (z : ℂ) (hz : z.re ≤ 0) (i : Fin 14) : ‖exactPhi z i‖ ≤ coefWeight i := by
  have h := norm_exactPhi_le_strip z 0 le_rfl hz i
  rwa [Real.exp_zero, mul_one] at h

/-! ## T2 — the stored coefficients are bounded -/

/-- **T2 (strip).**  `Re z ≤ c`, `c ≥ 0`, `z ∉ {−ζ_j}`:  `‖coef_i‖ ≤ ‖dt‖ (k_i + 1.7·10⁻¹²) e^c` -/
theorem norm_storedCoef_le_strip (dt lam : ℂ) (c : ℝ) (hc : 0 ≤ c) (hz : (lam * dt).re ≤ c)
    (hnz : ∀ ζ ∈ (roots_of_unity 16 : List ℂ), lam * dt ≠ -(1 * ζ)) (i : Fin 14) :
    ‖storedCoef dt lam 16 1 i‖ ≤ ‖dt‖ * ((coefWeight i + 1.7e-12) * Real.exp c) := by
  have h1 := storedCoef_error_strip dt lam c (by linarith) hz hnz i
  have h2 := norm_exactPhi_le_strip (lam * dt) c hc hz i
  have h3 : ‖dt * exactPhi (lam * dt) i‖ ≤ ‖dt‖ * (coefWeight i * Real.exp c) := by
    rw [norm_mul]
    exact mul_le_mul_of_nonneg_left h2 (norm_nonneg dt)
  have h4 : ‖storedCoef dt lam 16 1 i‖
      ≤ ‖storedCoef dt lam 16 1 i - dt * exactPhi (lam * dt) i‖ + ‖dt * exactPhi (lam * dt) i‖ := by
    have := norm_add_le (storedCoef dt lam 16 1 i - dt * exactPhi (lam * dt) i)
      (dt * exactPhi (lam * dt) i)
    rwa [sub_add_cancel] at this
  calc ‖storedCoef dt lam 16 1 i‖
      ≤ ‖dt‖ * (1.7e-12 * Real.exp c) + ‖dt‖ * (coefWeight i * Real.exp c) := by linarith
    _ = ‖dt‖ * ((coefWeight i + 1.7e-12) * Real.exp c) := by ring

/-- **T2 (closed left half-plane).**  `‖coef_i‖ ≤ ‖dt‖ (k_i + 1.7·10⁻¹²)`,
    `k = (1, 1, ½, ½, 1, 19/6, 10/3, 7/6, ½, ½, ½, 19/6, 5/6, 7/6)` -/
theorem norm_storedCoef_le (dt lam : ℂ) (hz : (lam * dt).re ≤ 0)
    (hnz : ∀ ζ ∈ (roots_of_unity 16 : List ℂ), lam * dt ≠ -(1 * ζ)) (i : Fin 14) :
    ‖storedCoef dt lam 16 1 i‖ ≤ ‖dt‖ * (coefWeight i + 1.7e-12) := by
  have h := norm_storedCoef_le_strip dt lam 0 le_rfl hz hnz i
  rwa [Real.exp_zero, mul_one] at h

/-- uniform absolute constant `B = 3.34` -/
theorem norm_storedCoef_le_uniform (dt lam : ℂ) (hz : (lam * dt).re ≤ 0)
    (hnz : ∀ ζ ∈ (roots_of_unity 16 : List ℂ), lam * dt ≠ -(1 * ζ)) (i : Fin 14) :
    ‖storedCoef dt lam 16 1 i‖ ≤ ‖dt‖ * 3.34 := by
  refine (norm_storedCoef_le dt lam hz hnz i).trans (mul_le_mul_of_nonneg_left ?_ (norm_nonneg dt))
  have := coefWeight_le i
  norm_num at this ⊢
  linarith

/-- **T2 headline, explicit.**  Every stored coefficient of ETDRK1–4 (defaults) is bounded by an
    absolute constant times `‖dt‖`, uniformly over the closed left half-plane minus `{−ζ_j}`
    (zero, tiny, stiff, imaginary, complex symbols alike). -/
theorem coefs_bounded_halfplane (dt lam : ℂ) (hz : (lam * dt).re ≤ 0)
    (hnz : ∀ ζ ∈ (roots_of_unity 16 : List ℂ), lam * dt ≠ -(1 * ζ)) :
    ‖E1_coef_1 dt lam 16 1‖ ≤ ‖dt‖ * (1 + 1.7e-12) ∧
    ‖E2_coef_1 dt lam 16 1‖ ≤ ‖dt‖ * (1 + 1.7e-12) ∧
    ‖E2_coef_2 dt lam 16 1‖ ≤ ‖dt‖ * (1 / 2 + 1.7e-12) ∧
    ‖E3_coef_1 dt lam 16 1‖ ≤ ‖dt‖ * (1 / 2 + 1.7e-12) ∧
    ‖E3_coef_2 dt lam 16 1‖ ≤ ‖dt‖ * (1 + 1.7e-12) ∧
    ‖E3_coef_3 dt lam 16 1‖ ≤ ‖dt‖ * (19 / 6 + 1.7e-12) ∧
    ‖E3_coef_4 dt lam 16 1‖ ≤ ‖dt‖ * (10 / 3 + 1.7e-12) ∧
    ‖E3_coef_5 dt lam 16 1‖ ≤ ‖dt‖ * (7 / 6 + 1.7e-12) ∧
    ‖E4_coef_1 dt lam 16 1‖ ≤ ‖dt‖ * (1 / 2 + 1.7e-12) ∧
    ‖E4_coef_2 dt lam 16 1‖ ≤ ‖dt‖ * (1 / 2 + 1.7e-12) ∧
    ‖E4_coef_3 dt lam 16 1‖ ≤ ‖dt‖ * (1 / 2 + 1.7e-12) ∧
    ‖E4_coef_4 dt lam 16 1‖ ≤ ‖dt‖ * (19 / 6 + 1.7e-12) ∧
    ‖E4_coef_5 dt lam 16 1‖ ≤ ‖dt‖ * (5 / 6 + 1.7e-12) ∧
    ‖E4_coef_6 dt lam 16 1‖ ≤ ‖dt‖ * (7 / 6 + 1.7e-12) := by
  have h := norm_storedCoef_le dt lam hz hnz
  exact ⟨h 0, h 1, h 2, h 3, h 4, h 5, h 6, h 7, h 8, h 9, h 10, h 11, h 12, h 13⟩

/-! ## the propagators -/

theorem norm_exp_term_eq (dt lam : ℂ) : ‖exp_term dt lam‖ = Real.exp (lam * dt).re := by
  rw [C02_exp_term, Complex.norm_exp, mul_comm]

theorem norm_E3_half_exp_term_eq (dt lam r : ℂ) (M : ℕ) :
    ‖E3_half_exp_term dt lam M r‖ = Real.exp ((lam * dt).re / 2) := by
  rw [C02_half_exp_term_E3, Complex.norm_exp, mul_comm]
  congr 1
  simp

theorem norm_E4_half_exp_term_eq (dt lam r : ℂ) (M : ℕ) :
    ‖E4_half_exp_term dt lam M r‖ = Real.exp ((lam * dt).re / 2) := by
  rw [C02_half_exp_term_E4, Complex.norm_exp, mul_comm]
  congr 1
  simp

/-- `‖exp_term dt λ‖ ≤ 1` for complex `dt`, `λ` with `Re (λ·dt) ≤ 0` -/
theorem norm_exp_term_le_one' (dt lam : ℂ) (hz : (lam * dt).re ≤ 0) : ‖exp_term dt lam‖ ≤ 1 := by
  rw [norm_exp_term_eq, Real.exp_le_one_iff]
  exact hz

theorem norm_exp_term_le_exp (dt lam : ℂ) (c : ℝ) (hz : (lam * dt).re ≤ c) :
    ‖exp_term dt lam‖ ≤ Real.exp c := by
  rw [norm_exp_term_eq]
  exact Real.exp_le_exp.mpr hz

theorem norm_E3_half_exp_term_le_one' (dt lam r : ℂ) (M : ℕ) (hz : (lam * dt).re ≤ 0) :
    ‖E3_half_exp_term dt lam M r‖ ≤ 1 := by
  rw [norm_E3_half_exp_term_eq, Real.exp_le_one_iff]
  linarith

theorem norm_E4_half_exp_term_le_one' (dt lam r : ℂ) (M : ℕ) (hz : (lam * dt).re ≤ 0) :
    ‖E4_half_exp_term dt lam M r‖ ≤ 1 := by
  rw [norm_E4_half_exp_term_eq, Real.exp_le_one_iff]
  linarith

/-! ## one step on a vector of modes (`ι → ℂ`, pointwise operations; `N` couples the modes)

Generic part: propagator bounded by `G`, coefficients by `K_j`, nonlinearity by `B` componentwise. -/

section generic
variable {ι : Type}

theorem norm_mul_le_of (a b : ℂ) (K B : ℝ) (ha : ‖a‖ ≤ K) (hb : ‖b‖ ≤ B) : ‖a * b‖ ≤ K * B := by
  rw [norm_mul]
  exact mul_le_mul ha hb (norm_nonneg _) (le_trans (norm_nonneg _) ha)

theorem norm_E1step_vec (E c1 : ι → ℂ) (N : (ι → ℂ) → ι → ℂ) (u : ι → ℂ) (G K1 B : ℝ)
    (hE : ∀ i, ‖E i‖ ≤ G) (h1 : ∀ i, ‖c1 i‖ ≤ K1) (hN : ∀ v i, ‖N v i‖ ≤ B) (i : ι) :
    ‖E1step E c1 N u i‖ ≤ G * ‖u i‖ + K1 * B := by
  simp only [E1step, Pi.add_apply, Pi.mul_apply]
  exact norm_add_le_of_le (norm_mul_le_of _ _ _ _ (hE i) le_rfl)
    (norm_mul_le_of _ _ _ _ (h1 i) (hN _ i))

theorem norm_E2step_vec (E c1 c2 : ι → ℂ) (N : (ι → ℂ) → ι → ℂ) (u : ι → ℂ) (G K1 K2 B : ℝ)
    (hE : ∀ i, ‖E i‖ ≤ G) (h1 : ∀ i, ‖c1 i‖ ≤ K1) (h2 : ∀ i, ‖c2 i‖ ≤ K2)
    (hN : ∀ v i, ‖N v i‖ ≤ B) (i : ι) :
    ‖E2step E c1 c2 N u i‖ ≤ G * ‖u i‖ + (K1 + 2 * K2) * B := by
  simp only [E2step, Pi.add_apply, Pi.mul_apply, Pi.sub_apply]
  have hd : ‖N (E * u + c1 * N u) i - N u i‖ ≤ 2 * B :=
    (norm_sub_le _ _).trans (by linarith [hN (E * u + c1 * N u) i, hN u i])
  have := norm_add_le_of_le (norm_add_le_of_le (norm_mul_le_of _ _ _ _ (hE i) (le_refl ‖u i‖))
    (norm_mul_le_of _ _ _ _ (h1 i) (hN u i))) (norm_mul_le_of _ _ _ _ (h2 i) hd)
  linarith

theorem norm_comb3 (E u c3 Nu c4 Na c5 Nb : ℂ) (G K3 K4 K5 B : ℝ) (hE : ‖E‖ ≤ G)
    (h3 : ‖c3‖ ≤ K3) (h4 : ‖c4‖ ≤ K4) (h5 : ‖c5‖ ≤ K5) (hu : ‖Nu‖ ≤ B) (ha : ‖Na‖ ≤ B)
    (hb : ‖Nb‖ ≤ B) :
    ‖E * u + c3 * Nu + c4 * Na + c5 * Nb‖ ≤ G * ‖u‖ + (K3 + K4 + K5) * B := by
  have := norm_add_le_of_le (norm_add_le_of_le (norm_add_le_of_le
    (norm_mul_le_of _ _ _ _ hE (le_refl ‖u‖))
    (norm_mul_le_of _ _ _ _ h3 hu)) (norm_mul_le_of _ _ _ _ h4 ha))
    (norm_mul_le_of _ _ _ _ h5 hb)
  linarith

theorem norm_E3step_vec (E Eh c1 c2 c3 c4 c5 : ι → ℂ) (N : (ι → ℂ) → ι → ℂ) (u : ι → ℂ)
    (G K3 K4 K5 B : ℝ) (hE : ∀ i, ‖E i‖ ≤ G) (h3 : ∀ i, ‖c3 i‖ ≤ K3) (h4 : ∀ i, ‖c4 i‖ ≤ K4)
    (h5 : ∀ i, ‖c5 i‖ ≤ K5) (hN : ∀ v i, ‖N v i‖ ≤ B) (i : ι) :
    ‖E3step E Eh c1 c2 c3 c4 c5 N u i‖ ≤ G * ‖u i‖ + (K3 + K4 + K5) * B := by
  simp only [E3step, Pi.add_apply, Pi.mul_apply]
  exact norm_comb3 _ _ _ _ _ _ _ _ G K3 K4 K5 B (hE i) (h3 i) (h4 i) (h5 i) (hN _ i) (hN _ i)
    (hN _ i)

theorem lit_two_apply (i : ι) : (lit 2 : ι → ℂ) i = 2 := by
  show ((2 : ℕ) : ℂ) = 2
  norm_num

theorem norm_comb4 (E u c4 Nu c5 Na Nb c6 Nc : ℂ) (G K4 K5 K6 B : ℝ) (hE : ‖E‖ ≤ G)
    (h4 : ‖c4‖ ≤ K4) (h5 : ‖c5‖ ≤ K5) (h6 : ‖c6‖ ≤ K6) (hu : ‖Nu‖ ≤ B) (ha : ‖Na‖ ≤ B)
    (hb : ‖Nb‖ ≤ B) (hc : ‖Nc‖ ≤ B) :
    ‖E * u + c4 * Nu + c5 * 2 * (Na + Nb) + c6 * Nc‖ ≤ G * ‖u‖ + (K4 + 4 * K5 + K6) * B := by
  have h52 : ‖c5 * 2‖ ≤ K5 * 2 := norm_mul_le_of _ _ _ _ h5 (by norm_num)
  have hs : ‖Na + Nb‖ ≤ 2 * B := (norm_add_le _ _).trans (by linarith)
  have := norm_add_le_of_le (norm_add_le_of_le (norm_add_le_of_le
    (norm_mul_le_of _ _ _ _ hE (le_refl ‖u‖))
    (norm_mul_le_of _ _ _ _ h4 hu)) (norm_mul_le_of _ _ _ _ h52 hs))
    (norm_mul_le_of _ _ _ _ h6 hc)
  linarith

theorem norm_E4step_vec (E Eh c1 c2 c3 c4 c5 c6 : ι → ℂ) (N : (ι → ℂ) → ι → ℂ) (u : ι → ℂ)
    (G K4 K5 K6 B : ℝ) (hE : ∀ i, ‖E i‖ ≤ G) (h4 : ∀ i, ‖c4 i‖ ≤ K4) (h5 : ∀ i, ‖c5 i‖ ≤ K5)
    (h6 : ∀ i, ‖c6 i‖ ≤ K6) (hN : ∀ v i, ‖N v i‖ ≤ B) (i : ι) :
    ‖E4step E Eh c1 c2 c3 c4 c5 c6 N u i‖ ≤ G * ‖u i‖ + (K4 + 4 * K5 + K6) * B := by
  simp only [E4step, Pi.add_apply, Pi.mul_apply, lit_two_apply]
  exact norm_comb4 _ _ _ _ _ _ _ _ _ G K4 K5 K6 B (hE i) (h4 i) (h5 i) (h6 i) (hN _ i) (hN _ i)
    (hN _ i) (hN _ i)

end generic

/-! ## one step with the STORED coefficients, `Re (λ_i dt) ≤ 0` for every mode -/

section stored
variable {ι : Type}

/-- **T2 (ETDRK1 step).** -/
theorem norm_E1step_stored_le (dt : ℂ) (lam : ι → ℂ) (N : (ι → ℂ) → ι → ℂ) (u : ι → ℂ) (B : ℝ)
    (hz : ∀ i, (lam i * dt).re ≤ 0)
    (hnz : ∀ i, ∀ ζ ∈ (roots_of_unity 16 : List ℂ), lam i * dt ≠ -(1 * ζ))
    (hN : ∀ v i, ‖N v i‖ ≤ B) (i : ι) :
    ‖E1step (fun i => exp_term dt (lam i)) (fun i => E1_coef_1 dt (lam i) 16 1) N u i‖
      ≤ ‖u i‖ + ‖dt‖ * (1.001 * B) := by
  have hB : 0 ≤ B := (norm_nonneg _).trans (hN u i)
  have h := norm_E1step_vec (fun i => exp_term dt (lam i)) (fun i => E1_coef_1 dt (lam i) 16 1)
    N u 1 _ B (fun i => norm_exp_term_le_one' dt (lam i) (hz i))
    (fun i => norm_storedCoef_le dt (lam i) (hz i) (hnz i) 0) hN i
  refine h.trans ?_
  rw [one_mul]
  have : ‖dt‖ * (coefWeight 0 + 1.7e-12) * B ≤ ‖dt‖ * (1.001 * B) := by
    rw [mul_assoc]
    refine mul_le_mul_of_nonneg_left (mul_le_mul_of_nonneg_right ?_ hB) (norm_nonneg dt)
    show (1 : ℝ) + 1.7e-12 ≤ 1.001
    norm_num
  linarith

/-- **T2 (ETDRK2 step).** -/
theorem norm_E2step_stored_le (dt : ℂ) (lam : ι → ℂ) (N : (ι → ℂ) → ι → ℂ) (u : ι → ℂ) (B : ℝ)
    (hz : ∀ i, (lam i * dt).re ≤ 0)
    (hnz : ∀ i, ∀ ζ ∈ (roots_of_unity 16 : List ℂ), lam i * dt ≠ -(1 * ζ))
    (hN : ∀ v i, ‖N v i‖ ≤ B) (i : ι) :
    ‖E2step (fun i => exp_term dt (lam i)) (fun i => E2_coef_1 dt (lam i) 16 1)
        (fun i => E2_coef_2 dt (lam i) 16 1) N u i‖
      ≤ ‖u i‖ + ‖dt‖ * (2.001 * B) := by
  have hB : 0 ≤ B := (norm_nonneg _).trans (hN u i)
  have h := norm_E2step_vec (fun i => exp_term dt (lam i)) (fun i => E2_coef_1 dt (lam i) 16 1)
    (fun i => E2_coef_2 dt (lam i) 16 1)
    N u 1 _ _ B (fun i => norm_exp_term_le_one' dt (lam i) (hz i))
    (fun i => norm_storedCoef_le dt (lam i) (hz i) (hnz i) 1)
    (fun i => norm_storedCoef_le dt (lam i) (hz i) (hnz i) 2) hN i
  refine h.trans ?_
  rw [one_mul]
  have : (‖dt‖ * (coefWeight 1 + 1.7e-12) + 2 * (‖dt‖ * (coefWeight 2 + 1.7e-12))) * B
      ≤ ‖dt‖ * (2.001 * B) := by
    have e : (‖dt‖ * (coefWeight 1 + 1.7e-12) + 2 * (‖dt‖ * (coefWeight 2 + 1.7e-12))) * B
        = ‖dt‖ * (((coefWeight 1 + 1.7e-12) + 2 * (coefWeight 2 + 1.7e-12)) * B) := by ring
    rw [e]
    refine mul_le_mul_of_nonneg_left (mul_le_mul_of_nonneg_right ?_ hB) (norm_nonneg dt)
    show ((1 : ℝ) + 1.7e-12) + 2 * (1 / 2 + 1.7e-12) ≤ 2.001
    norm_num
  linarith

/-- **T2 (ETDRK3 step).** -/
theorem norm_E3step_stored_le (dt : ℂ) (lam : ι → ℂ) (N : (ι → ℂ) → ι → ℂ) (u : ι → ℂ) (B : ℝ)
    (hz : ∀ i, (lam i * dt).re ≤ 0)
    (hnz : ∀ i, ∀ ζ ∈ (roots_of_unity 16 : List ℂ), lam i * dt ≠ -(1 * ζ))
    (hN : ∀ v i, ‖N v i‖ ≤ B) (i : ι) :
    ‖E3step (fun i => exp_term dt (lam i)) (fun i => E3_half_exp_term dt (lam i) 16 1)
        (fun i => E3_coef_1 dt (lam i) 16 1) (fun i => E3_coef_2 dt (lam i) 16 1)
        (fun i => E3_coef_3 dt (lam i) 16 1) (fun i => E3_coef_4 dt (lam i) 16 1)
        (fun i => E3_coef_5 dt (lam i) 16 1) N u i‖
      ≤ ‖u i‖ + ‖dt‖ * (7.67 * B) := by
  have hB : 0 ≤ B := (norm_nonneg _).trans (hN u i)
  have h := norm_E3step_vec (fun i => exp_term dt (lam i))
    (fun i => E3_half_exp_term dt (lam i) 16 1)
    (fun i => E3_coef_1 dt (lam i) 16 1) (fun i => E3_coef_2 dt (lam i) 16 1)
    (fun i => E3_coef_3 dt (lam i) 16 1) (fun i => E3_coef_4 dt (lam i) 16 1)
    (fun i => E3_coef_5 dt (lam i) 16 1)
    N u 1 _ _ _ B (fun i => norm_exp_term_le_one' dt (lam i) (hz i))
    (fun i => norm_storedCoef_le dt (lam i) (hz i) (hnz i) 5)
    (fun i => norm_storedCoef_le dt (lam i) (hz i) (hnz i) 6)
    (fun i => norm_storedCoef_le dt (lam i) (hz i) (hnz i) 7) hN i
  refine h.trans ?_
  rw [one_mul]
  have : (‖dt‖ * (coefWeight 5 + 1.7e-12) + ‖dt‖ * (coefWeight 6 + 1.7e-12)
      + ‖dt‖ * (coefWeight 7 + 1.7e-12)) * B ≤ ‖dt‖ * (7.67 * B) := by
    have e : (‖dt‖ * (coefWeight 5 + 1.7e-12) + ‖dt‖ * (coefWeight 6 + 1.7e-12)
        + ‖dt‖ * (coefWeight 7 + 1.7e-12)) * B
        = ‖dt‖ * (((coefWeight 5 + 1.7e-12) + (coefWeight 6 + 1.7e-12)
          + (coefWeight 7 + 1.7e-12)) * B) := by ring
    rw [e]
    refine mul_le_mul_of_nonneg_left (mul_le_mul_of_nonneg_right ?_ hB) (norm_nonneg dt)
    show ((19 / 6 : ℝ) + 1.7e-12) + (10 / 3 + 1.7e-12) + (7 / 6 + 1.7e-12) ≤ 7.67
    norm_num
  linarith

/-- **T2 (ETDRK4 step).** -/
theorem norm_E4step_stored_le (dt : ℂ) (lam : ι → ℂ) (N : (ι → ℂ) → ι → ℂ) (u : ι → ℂ) (B : ℝ)
    (hz : ∀ i, (lam i * dt).re ≤ 0)
    (hnz : ∀ i, ∀ ζ ∈ (roots_of_unity 16 : List ℂ), lam i * dt ≠ -(1 * ζ))
    (hN : ∀ v i, ‖N v i‖ ≤ B) (i : ι) :
    ‖E4step (fun i => exp_term dt (lam i)) (fun i => E4_half_exp_term dt (lam i) 16 1)
        (fun i => E4_coef_1 dt (lam i) 16 1) (fun i => E4_coef_2 dt (lam i) 16 1)
        (fun i => E4_coef_3 dt (lam i) 16 1) (fun i => E4_coef_4 dt (lam i) 16 1)
        (fun i => E4_coef_5 dt (lam i) 16 1) (fun i => E4_coef_6 dt (lam i) 16 1) N u i‖
      ≤ ‖u i‖ + ‖dt‖ * (7.67 * B) := by
  have hB : 0 ≤ B := (norm_nonneg _).trans (hN u i)
  have h := norm_E4step_vec (fun i => exp_term dt (lam i))
    (fun i => E4_half_exp_term dt (lam i) 16 1)
    (fun i => E4_coef_1 dt (lam i) 16 1) (fun i => E4_coef_2 dt (lam i) 16 1)
    (fun i => E4_coef_3 dt (lam i) 16 1) (fun i => E4_coef_4 dt (lam i) 16 1)
    (fun i => E4_coef_5 dt (lam i) 16 1) (fun i => E4_coef_6 dt (lam i) 16 1)
    N u 1 _ _ _ B (fun i => norm_exp_term_le_one' dt (lam i) (hz i))
    (fun i => norm_storedCoef_le dt (lam i) (hz i) (hnz i) 11)
    (fun i => norm_storedCoef_le dt (lam i) (hz i) (hnz i) 12)
    (fun i => norm_storedCoef_le dt (lam i) (hz i) (hnz i) 13) hN i
  refine h.trans ?_
  rw [one_mul]
  have : (‖dt‖ * (coefWeight 11 + 1.7e-12) + 4 * (‖dt‖ * (coefWeight 12 + 1.7e-12))
      + ‖dt‖ * (coefWeight 13 + 1.7e-12)) * B ≤ ‖dt‖ * (7.67 * B) := by
    have e : (‖dt‖ * (coefWeight 11 + 1.7e-12) + 4 * (‖dt‖ * (coefWeight 12 + 1.7e-12))
        + ‖dt‖ * (coefWeight 13 + 1.7e-12)) * B
        = ‖dt‖ * (((coefWeight 11 + 1.7e-12) + 4 * (coefWeight 12 + 1.7e-12)
          + (coefWeight 13 + 1.7e-12)) * B) := by ring
    rw [e]
    refine mul_le_mul_of_nonneg_left (mul_le_mul_of_nonneg_right ?_ hB) (norm_nonneg dt)
    show ((19 / 6 : ℝ) + 1.7e-12) + 4 * (5 / 6 + 1.7e-12) + (7 / 6 + 1.7e-12) ≤ 7.67
    norm_num
  linarith

/-- sup-norm form: a state bounded by `U` and a nonlinearity bounded by `B` give a new state bounded
    by `U + 7.67 ‖dt‖ B` (ETDRK4; the others are identical with their constants) -/
theorem norm_E4step_stored_le_sup (dt : ℂ) (lam : ι → ℂ) (N : (ι → ℂ) → ι → ℂ) (u : ι → ℂ)
    (U B : ℝ) (hz : ∀ i, (lam i * dt).re ≤ 0)
    (hnz : ∀ i, ∀ ζ ∈ (roots_of_unity 16 : List ℂ), lam i * dt ≠ -(1 * ζ))
    (hu : ∀ i, ‖u i‖ ≤ U) (hN : ∀ v i, ‖N v i‖ ≤ B) (i : ι) :
    ‖E4step (fun i => exp_term dt (lam i)) (fun i => E4_half_exp_term dt (lam i) 16 1)
        (fun i => E4_coef_1 dt (lam i) 16 1) (fun i => E4_coef_2 dt (lam i) 16 1)
        (fun i => E4_coef_3 dt (lam i) 16 1) (fun i => E4_coef_4 dt (lam i) 16 1)
        (fun i => E4_coef_5 dt (lam i) 16 1) (fun i => E4_coef_6 dt (lam i) 16 1) N u i‖
      ≤ U + ‖dt‖ * (7.67 * B) :=
  (norm_E4step_stored_le dt lam N u B hz hnz hN i).trans (by linarith [hu i])

end stored

/-! ## non-vacuity -/

/-- three modes with symbols `0`, `−10⁶`, `3i` (mean, very stiff, advective), `dt = 1/10`, and the
    bounded coupling nonlinearity `N(v)_i = v_0 / (1 + ‖v_0‖)` -/
example : (∀ i : Fin 3, ((![0, -1e6, 3 * Complex.I] : Fin 3 → ℂ) i * (1 / 10 : ℂ)).re ≤ 0) ∧
    (∀ (v : Fin 3 → ℂ) (i : Fin 3), ‖(fun (w : Fin 3 → ℂ) (_ : Fin 3) => w 0 / (1 + ‖w 0‖)) v i‖ ≤ 1) := by
  constructor
  · intro i
    fin_cases i
    all_goals simp
    all_goals norm_num
  · intro v i
    simp only []
    rw [norm_div]
    have h1 : ‖((1 : ℂ) + (‖v 0‖ : ℂ))‖ = 1 + ‖v 0‖ := by
      rw [show ((1 : ℂ) + (‖v 0‖ : ℂ)) = ((1 + ‖v 0‖ : ℝ) : ℂ) by push_cast; ring,
        Complex.norm_real, Real.norm_eq_abs, abs_of_nonneg (by positivity)]
    rw [h1, div_le_one (by positivity)]
    linarith [norm_nonneg (v 0)]

/-- a full instance of the step theorem: two modes (`λ = 0` and the advective `λ = 3i`), `dt = 1`,
    coupling nonlinearity `N(v)_i = v_0/(1 + ‖v_0‖)` bounded by `1` -/
example (u : Fin 2 → ℂ) (i : Fin 2) :
    ‖E4step (fun i => exp_term 1 ((![0, Complex.I * 3] : Fin 2 → ℂ) i))
        (fun i => E4_half_exp_term 1 ((![0, Complex.I * 3] : Fin 2 → ℂ) i) 16 1)
        (fun i => E4_coef_1 1 ((![0, Complex.I * 3] : Fin 2 → ℂ) i) 16 1)
        (fun i => E4_coef_2 1 ((![0, Complex.I * 3] : Fin 2 → ℂ) i) 16 1)
        (fun i => E4_coef_3 1 ((![0, Complex.I * 3] : Fin 2 → ℂ) i) 16 1)
        (fun i => E4_coef_4 1 ((![0, Complex.I * 3] : Fin 2 → ℂ) i) 16 1)
        (fun i => E4_coef_5 1 ((![0, Complex.I * 3] : Fin 2 → ℂ) i) 16 1)
        (fun i => E4_coef_6 1 ((![0, Complex.I * 3] : Fin 2 → ℂ) i) 16 1)
        (fun (w : Fin 2 → ℂ) (_ : Fin 2) => w 0 / (1 + ‖w 0‖)) u i‖
      ≤ ‖u i‖ + ‖(1 : ℂ)‖ * (7.67 * 1) := by
  refine norm_E4step_stored_le 1 _ _ u 1 ?_ ?_ ?_ i
  · intro j
    fin_cases j <;> simp
  · intro j
    refine excluded_of_norm_ne_one 16 _ ?_
    fin_cases j <;> simp
  · intro v j
    show ‖v 0 / (1 + (‖v 0‖ : ℂ))‖ ≤ 1
    rw [norm_div]
    have h1 : ‖((1 : ℂ) + (‖v 0‖ : ℂ))‖ = 1 + ‖v 0‖ := by
      rw [show ((1 : ℂ) + (‖v 0‖ : ℂ)) = ((1 + ‖v 0‖ : ℝ) : ℂ) by push_cast; ring,
        Complex.norm_real, Real.norm_eq_abs, abs_of_nonneg (by positivity)]
    rw [h1, div_le_one (by positivity)]
    linarith [norm_nonneg (v 0)]

example (i : Fin 14) : ‖storedCoef 1 (Complex.I * 3) 16 1 i‖ ≤ ‖(1 : ℂ)‖ * (coefWeight i + 1.7e-12) :=
  norm_storedCoef_le 1 (Complex.I * 3) (by simp) (excluded_of_norm_ne_one 16 _ (by simp)) i

end Exponax.ContourComplex
