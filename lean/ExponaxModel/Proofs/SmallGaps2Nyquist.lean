import ExponaxModel.Proofs.ExactLinearModes
import ExponaxModel.Proofs.ExactLinearIndex
import ExponaxModel.Proofs.LayoutLemmas
/-
H6 (C04) — the n-D single-mode read-off INCLUDING Nyquist components (`C04_single_mode_nd` excludes them; only the
1-D theorem `C04_single_mode_1d` covers `2k = N`).

For `κ` with `|κ_d| ≤ N/2` on every axis (`AtMostNyquist`), `u_j = a cos(2π κ·j/N + φ)`:

    û_h = (a/2) N^D e^{iφ} [k(h) = canonK κ] + (a/2) N^D e^{−iφ} [k(h) = canonK (−κ)]      (`rfftnM_modeField_nyquist`)

where `canonK D N κ` is the STORED representative of `κ` modulo `N`: a leading-axis component `+N/2` is stored as `−N/2`
(`fftfreq` puts the Nyquist row at `−N/2`), a last-axis component `−N/2` as `+N/2` (`rfftfreq` is non-negative); all
other components are unchanged, so `canonK κ = κ` strictly below Nyquist (`canonK_of_belowNyquist`: this IS
`C04_single_mode_nd` then).  Consequences:

 * every component in `{0, ±N/2}` (the real-symmetric waves `cos(π j_d …)`):  `canonK (−κ) = canonK κ`, both terms land
   on the SAME stored mode, which holds `a cos φ · N^D` — the n-D version of the 1-D `a·cos φ·N` (`…_selfconj`);
 * otherwise `canonK (−κ) ≠ canonK κ`: the two terms are at different stored modes (or not stored: a stored wave
   vector has a non-negative last component), each with `(a/2) N^D e^{±iφ}` as below Nyquist, but at the canonical index —
   e.g. `D = 2`, `κ = (N/2, 1)` is found at `k = (−N/2, 1)`, and `κ = (1, N/2)` at BOTH `k = (1, N/2)` (with `e^{iφ}`)
   and `k = (−1, N/2)` (with `e^{−iφ}`).
-/
set_option linter.unusedVariables false
namespace Exponax.SmallGaps2
open Exponax Exponax.Layout Exponax.Transform Exponax.DFT Exponax.ExactLinear Finset

/-- `|κ_d| ≤ N/2` on every axis: Nyquist components allowed -/
def AtMostNyquist (D N : ℕ) (κ : List ℤ) : Prop :=
  κ.length = D ∧ ∀ d < D, 2 * |κ.getD d 0| ≤ (N : ℤ)

theorem AtMostNyquist.negK {D N : ℕ} {κ : List ℤ} (hκ : AtMostNyquist D N κ) : AtMostNyquist D N (negK κ) := by
  refine ⟨by rw [negK_length]; exact hκ.1, ?_⟩
  intro d hd
  rw [negK_getD, abs_neg]
  exact hκ.2 d hd

theorem atMostNyquist_of_below {D N : ℕ} {κ : List ℤ} (hκ : BelowNyquist D N κ) : AtMostNyquist D N κ :=
  ⟨hκ.1, fun d hd => (hκ.2 d hd).le⟩

/-- one component of the stored representative: leading axes store `+N/2` as `−N/2`, the last axis `−N/2` as `+N/2` -/
def canonC (D N d : ℕ) (x : ℤ) : ℤ :=
  if d + 1 = D then (if 2 * x = -(N : ℤ) then -x else x) else (if 2 * x = (N : ℤ) then -x else x)

/-- the stored representative of `κ` modulo `N` -/
def canonK (D N : ℕ) (κ : List ℤ) : List ℤ := (List.range D).map (fun d => canonC D N d (κ.getD d 0))

@[simp] theorem canonK_length (D N : ℕ) (κ : List ℤ) : (canonK D N κ).length = D := by simp [canonK]

theorem canonK_getD (D N : ℕ) (κ : List ℤ) (d : ℕ) (hd : d < D) :
    (canonK D N κ).getD d 0 = canonC D N d (κ.getD d 0) := by
  simp [canonK, List.getD_eq_getElem?_getD, hd]

/-- strictly below Nyquist nothing changes -/
theorem canonK_of_belowNyquist (D N : ℕ) (κ : List ℤ) (hκ : BelowNyquist D N κ) : canonK D N κ = κ := by
  apply list_ext_getD _ _ D (canonK_length D N κ) hκ.1
  intro d hd
  rw [canonK_getD D N κ d hd]
  have h := hκ.2 d hd
  have h1 : 2 * κ.getD d 0 ≠ (N : ℤ) := by
    intro he
    have := le_abs_self (κ.getD d 0); omega
  have h2 : 2 * κ.getD d 0 ≠ -(N : ℤ) := by
    intro he
    have := neg_abs_le (κ.getD d 0); omega
  unfold canonC
  split_ifs <;> rfl

/-! ### the range of the stored wavenumbers -/

theorem stored_last_range (D N h : ℕ) (hD : 0 < D) (hN : 0 < N) (hh : h < numModes D N) :
    0 ≤ (wnFlat D N h).getD (D - 1) 0 ∧ 2 * (wnFlat D N h).getD (D - 1) 0 ≤ (N : ℤ) := by
  refine ⟨wnFlat_last_nonneg D N h hD, ?_⟩
  rw [wnFlat_getD' D N h (D - 1) (by omega), wn_last D N _ (D - 1) (by omega)]
  have := unflatten_getD_lt (wavenumberShape D N) (wavenumberShape_pos D N hN) h hh (D - 1)
    (by rw [wavenumberShape_length D N hD]; omega)
  rw [wavenumberShape_getD D N (D - 1) (by omega), if_pos (by omega)] at this
  omega

theorem stored_leading_range (D N h d : ℕ) (hD : 0 < D) (hN : 0 < N) (hh : h < numModes D N) (hd : d < D)
    (hdl : d + 1 ≠ D) :
    -(N : ℤ) ≤ 2 * (wnFlat D N h).getD d 0 ∧ 2 * (wnFlat D N h).getD d 0 < (N : ℤ) := by
  rw [wnFlat_getD' D N h d hd, wn_leading D N _ d hdl]
  have := unflatten_getD_lt (wavenumberShape D N) (wavenumberShape_pos D N hN) h hh d
    (by rw [wavenumberShape_length D N hD]; exact hd)
  rw [wavenumberShape_getD D N d hd, if_neg hdl] at this
  have h1 := fftfreq_lower N _ this
  have h2 := fftfreq_upper N _ this
  constructor <;> omega

/-! ### congruence modulo `N` is equality with the stored representative -/

theorem dvd_sub_iff_canon (D N : ℕ) (hD : 0 < D) (hN : 0 < N) (κ : List ℤ) (hκ : AtMostNyquist D N κ)
    (h : ℕ) (hh : h < numModes D N) :
    (∀ d < D, (N : ℤ) ∣ (wnFlat D N h).getD d 0 - κ.getD d 0) ↔ wnFlat D N h = canonK D N κ := by
  constructor
  · intro hdv
    apply list_ext_getD _ _ D (wnFlat_length D N h) (canonK_length D N κ)
    intro d hd
    rw [canonK_getD D N κ d hd]
    have hk := hκ.2 d hd
    have hk1 := le_abs_self (κ.getD d 0)
    have hk2 := neg_abs_le (κ.getD d 0)
    have hdvd := hdv d hd
    unfold canonC
    by_cases hl : d + 1 = D
    · have hdl : d = D - 1 := by omega
      have hr := stored_last_range D N h hD hN hh
      rw [← hdl] at hr
      rw [if_pos hl]
      by_cases hc : 2 * κ.getD d 0 = -(N : ℤ)
      · rw [if_pos hc]
        have h2 : (N : ℤ) ∣ (wnFlat D N h).getD d 0 - κ.getD d 0 - (N : ℤ) := dvd_sub hdvd (dvd_refl _)
        have := eq_zero_of_dvd_of_abs_lt N _ h2 (abs_lt.mpr ⟨by omega, by omega⟩)
        omega
      · rw [if_neg hc]
        have := eq_zero_of_dvd_of_abs_lt N _ hdvd (abs_lt.mpr ⟨by omega, by omega⟩)
        omega
    · have hr := stored_leading_range D N h d hD hN hh hd hl
      rw [if_neg hl]
      by_cases hc : 2 * κ.getD d 0 = (N : ℤ)
      · rw [if_pos hc]
        have h2 : (N : ℤ) ∣ (wnFlat D N h).getD d 0 - κ.getD d 0 + (N : ℤ) := dvd_add hdvd (dvd_refl _)
        have := eq_zero_of_dvd_of_abs_lt N _ h2 (abs_lt.mpr ⟨by omega, by omega⟩)
        omega
      · rw [if_neg hc]
        have := eq_zero_of_dvd_of_abs_lt N _ hdvd (abs_lt.mpr ⟨by omega, by omega⟩)
        omega
  · intro he d hd
    have e : (wnFlat D N h).getD d 0 = (canonK D N κ).getD d 0 := by rw [he]
    rw [canonK_getD D N κ d hd] at e
    rw [e]
    unfold canonC
    split_ifs with h1 h2 h2
    · have : -κ.getD d 0 - κ.getD d 0 = (N : ℤ) := by omega
      rw [this]
    · rw [sub_self]; exact dvd_zero _
    · have : -κ.getD d 0 - κ.getD d 0 = -(N : ℤ) := by omega
      rw [this]; exact (dvd_neg).mpr (dvd_refl _)
    · rw [sub_self]; exact dvd_zero _

theorem dvd_add_iff_canon (D N : ℕ) (hD : 0 < D) (hN : 0 < N) (κ : List ℤ) (hκ : AtMostNyquist D N κ)
    (h : ℕ) (hh : h < numModes D N) :
    (∀ d < D, (N : ℤ) ∣ (wnFlat D N h).getD d 0 + κ.getD d 0) ↔ wnFlat D N h = canonK D N (negK κ) := by
  rw [← dvd_sub_iff_canon D N hD hN (negK κ) hκ.negK h hh]
  simp only [negK_getD, sub_neg_eq_add]

/-! ### the read-off -/

/-- **single-mode read-off in `D` dimensions, Nyquist components included** (every `N ≥ 1`; a component with
    `2|κ_d| = N` exists only for even `N`) -/
theorem rfftnM_modeField_nyquist (D N : ℕ) (hD : 0 < D) (hN : 0 < N) (κ : List ℤ) (hκ : AtMostNyquist D N κ)
    (a φ : ℝ) (h : ℕ) (hh : h < numModes D N) :
    (rfftnM D N (modeField D N κ a φ)).getD h 0
      = (if wnFlat D N h = canonK D N κ then (a / 2 : ℂ) * ((N ^ D : ℕ) : ℂ) * Complex.exp (φ * Complex.I) else 0)
        + (if wnFlat D N h = canonK D N (negK κ)
            then (a / 2 : ℂ) * ((N ^ D : ℕ) : ℂ) * Complex.exp (-(φ * Complex.I)) else 0) := by
  rw [rfftnM_modeField_general D N hN κ a φ h hh]
  simp only [dvd_sub_iff_canon D N hD hN κ hκ h hh, dvd_add_iff_canon D N hD hN κ hκ h hh]
  congr 1
  · split_ifs <;> ring
  · split_ifs <;> ring

/-- every component is `0` or `±N/2`: the real-symmetric ("self-conjugate") waves -/
def SelfConj (D N : ℕ) (κ : List ℤ) : Prop :=
  ∀ d < D, κ.getD d 0 = 0 ∨ 2 * κ.getD d 0 = (N : ℤ) ∨ 2 * κ.getD d 0 = -(N : ℤ)

theorem canonK_negK_of_selfConj (D N : ℕ) (κ : List ℤ) (hs : SelfConj D N κ) :
    canonK D N (negK κ) = canonK D N κ := by
  apply list_ext_getD _ _ D (canonK_length D N _) (canonK_length D N κ)
  intro d hd
  rw [canonK_getD D N _ d hd, canonK_getD D N κ d hd, negK_getD]
  unfold canonC
  rcases hs d hd with h0 | h1 | h2 <;> split_ifs <;> omega

theorem canonK_negK_ne_of_not_selfConj (D N : ℕ) (κ : List ℤ) (hs : ¬ SelfConj D N κ) :
    canonK D N (negK κ) ≠ canonK D N κ := by
  intro he
  apply hs
  intro d hd
  have e : (canonK D N (negK κ)).getD d 0 = (canonK D N κ).getD d 0 := by rw [he]
  rw [canonK_getD D N _ d hd, canonK_getD D N κ d hd, negK_getD] at e
  unfold canonC at e
  split_ifs at e <;> omega

/-- **self-conjugate waves** (all components in `{0, ±N/2}`): the single stored mode `canonK κ` holds `a cos φ · N^D`,
    every other stored mode vanishes — the n-D form of the 1-D Nyquist / mean formula `a·cos φ·N` -/
theorem rfftnM_modeField_selfconj (D N : ℕ) (hD : 0 < D) (hN : 0 < N) (κ : List ℤ) (hκ : AtMostNyquist D N κ)
    (hs : SelfConj D N κ) (a φ : ℝ) (h : ℕ) (hh : h < numModes D N) :
    (rfftnM D N (modeField D N κ a φ)).getD h 0
      = if wnFlat D N h = canonK D N κ then (((a * Real.cos φ * ((N ^ D : ℕ) : ℝ)) : ℝ) : ℂ) else 0 := by
  rw [rfftnM_modeField_nyquist D N hD hN κ hκ a φ h hh, canonK_negK_of_selfConj D N κ hs]
  by_cases hk : wnFlat D N h = canonK D N κ
  · rw [if_pos hk, if_pos hk, if_pos hk]
    push_cast
    rw [Complex.cos]
    ring_nf
  · rw [if_neg hk, if_neg hk, if_neg hk, add_zero]

/-- **all other waves with Nyquist components**: the two contributions never share a stored mode -/
theorem rfftnM_modeField_nyquist_cases (D N : ℕ) (hD : 0 < D) (hN : 0 < N) (κ : List ℤ) (hκ : AtMostNyquist D N κ)
    (hs : ¬ SelfConj D N κ) (a φ : ℝ) (h : ℕ) (hh : h < numModes D N) :
    (wnFlat D N h = canonK D N κ →
      (rfftnM D N (modeField D N κ a φ)).getD h 0 = (a / 2 : ℂ) * ((N ^ D : ℕ) : ℂ) * Complex.exp (φ * Complex.I)) ∧
    (wnFlat D N h = canonK D N (negK κ) →
      (rfftnM D N (modeField D N κ a φ)).getD h 0
        = (a / 2 : ℂ) * ((N ^ D : ℕ) : ℂ) * Complex.exp (-(φ * Complex.I))) ∧
    (wnFlat D N h ≠ canonK D N κ → wnFlat D N h ≠ canonK D N (negK κ) →
      (rfftnM D N (modeField D N κ a φ)).getD h 0 = 0) := by
  have hne := canonK_negK_ne_of_not_selfConj D N κ hs
  rw [rfftnM_modeField_nyquist D N hD hN κ hκ a φ h hh]
  refine ⟨fun h1 => ?_, fun h2 => ?_, fun h1 h2 => ?_⟩
  · rw [if_pos h1, if_neg (fun h2 => hne (h2.symm.trans h1)), add_zero]
  · rw [if_neg (fun h1 => hne (h2.symm.trans h1)), if_pos h2, zero_add]
  · rw [if_neg h1, if_neg h2, add_zero]

/-- consistency with the 1-D theorem: `D = 1`, `κ = N/2` is self-conjugate and stored at `k = N/2` -/
theorem canonK_one_dim_nyquist (M : ℕ) (hM : 0 < M) :
    canonK 1 (2 * M) [(M : ℤ)] = [(M : ℤ)] ∧ canonK 1 (2 * M) (negK [(M : ℤ)]) = [(M : ℤ)] ∧
    SelfConj 1 (2 * M) [(M : ℤ)] ∧ AtMostNyquist 1 (2 * M) [(M : ℤ)] := by
  refine ⟨?_, ?_, ?_, ⟨rfl, ?_⟩⟩
  · simp [canonK, canonC]; omega
  · simp [canonK, canonC, negK]
  · intro d hd
    have : d = 0 := by omega
    subst this
    right; left
    simp
  · intro d hd
    have : d = 0 := by omega
    subst this
    simp [abs_of_nonneg]

/-! non-vacuity / the examples of the header on a 4 × 4 grid (`N/2 = 2`) -/
example : AtMostNyquist 2 4 [2, 1] ∧ ¬ SelfConj 2 4 [2, 1] ∧ canonK 2 4 [2, 1] = [-2, 1] ∧
    canonK 2 4 (negK [2, 1]) = [-2, -1] ∧ wnFlat 2 4 7 = [-2, 1] := by
  refine ⟨⟨rfl, by intro d hd; interval_cases d <;> simp⟩, ?_, by decide, by decide, by decide⟩
  intro h
  have := h 1 (by norm_num)
  simp at this
example : AtMostNyquist 2 4 [1, 2] ∧ canonK 2 4 [1, 2] = [1, 2] ∧ canonK 2 4 (negK [1, 2]) = [-1, 2] ∧
    wnFlat 2 4 5 = [1, 2] ∧ wnFlat 2 4 11 = [-1, 2] :=
  ⟨⟨rfl, by intro d hd; interval_cases d <;> simp⟩, by decide, by decide, by decide, by decide⟩
example : AtMostNyquist 2 4 [2, 2] ∧ SelfConj 2 4 [2, 2] ∧ canonK 2 4 [2, 2] = [-2, 2] ∧ wnFlat 2 4 8 = [-2, 2] := by
  refine ⟨⟨rfl, by intro d hd; interval_cases d <;> simp⟩, ?_, by decide, by decide⟩
  intro d hd
  interval_cases d <;> simp

end Exponax.SmallGaps2
