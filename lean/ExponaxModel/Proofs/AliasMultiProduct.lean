import ExponaxModel.Proofs.AliasND2
/-
C03, T1 (abstract part, every `D`): trigonometric polynomials in `D` variables, given by their coefficient families.

  * `mono z p = Π_d z_d^{p_d}` (on the torus `z_d = e^{iθ_d}` it is `e^{i p·θ}`), `trigEval K F z = Σ_{p ∈ box K} F_p z^p`,
  * `conv K L F G k = Σ_{p ∈ box K, k−p ∈ box L} F_p G_{k−p}`  the LINEAR convolution (`linConv = N^{-D}·conv K K`),
  * **`trigEval_mul`**   `f·g` is the trigonometric polynomial with coefficient family `conv K L F G` (band `K + L`);
    **`trigEval_mul3`**  cubic analogue (`conv3`, band `3K`),
  * `sampleTP D N K F`   the polynomial sampled on the `N^D` grid (`gridZ`),
  * **`dftV_sampleTP`**  the ALIASING FORMULA: the DFT of the samples at `k` is `N^D Σ_{p ∈ box K, p ≡ k (N)} F_p`,
    hence `N^D·F_k` for `K + |k| < N` (`dftV_sampleTP_box`), the samples are band limited (`sampleTP_bandLimitedV`),
  * **`trigEval_coeff_unique`** a trigonometric polynomial determines its coefficient family (so "THE coefficient family
    of `f·g`" is meaningful),
  * **`dftV_sampleTP_mul`** (`3K < N`): transforming the sampled pointwise product gives, at every `|k_d| ≤ K`, exactly
    `N^D ×` the coefficient `conv K K F G k` of the product polynomial; `dftV_sampleTP_mul_full` (`4K < N`): at every
    `|k_d| ≤ 2K`, i.e. the WHOLE spectrum of `f·g`; `dftV_sampleTP_mul_aliased`: the wrapped-around sum for any `N`;
    **`dftV_sampleTP_mul3`** (`4K < N`): the cubic analogue.
-/
set_option linter.unusedVariables false
namespace Exponax.AliasMulti
open Exponax Exponax.Layout Exponax.Transform Exponax.DFT Exponax.AliasND Finset

/-! ### monomials and trigonometric polynomials -/

/-- the Laurent monomial `z^p = Π_d z_d^{p_d}` -/
noncomputable def mono {D : ℕ} (z : Fin D → ℂ) (p : Fin D → ℤ) : ℂ := ∏ d, z d ^ p d

theorem mono_add {D : ℕ} (z : Fin D → ℂ) (hz : ∀ d, z d ≠ 0) (p q : Fin D → ℤ) :
    mono z (p + q) = mono z p * mono z q := by
  unfold mono
  rw [← Finset.prod_mul_distrib]
  apply Finset.prod_congr rfl
  intro d _
  rw [Pi.add_apply, zpow_add₀ (hz d)]

/-- the trigonometric (Laurent) polynomial with coefficient family `F` restricted to the box `|p_d| ≤ K` -/
noncomputable def trigEval {D : ℕ} (K : ℤ) (F : (Fin D → ℤ) → ℂ) (z : Fin D → ℂ) : ℂ :=
  ∑ p ∈ box D K, F p * mono z p

/-- un-normalised LINEAR convolution of the box-`K` truncation of `F` with the box-`L` truncation of `G` -/
noncomputable def conv {D : ℕ} (K L : ℤ) (F G : (Fin D → ℤ) → ℂ) (k : Fin D → ℤ) : ℂ :=
  ∑ p ∈ box D K, truncV K F p * truncV L G (k - p)

/-- un-normalised double linear convolution -/
noncomputable def conv3 {D : ℕ} (K : ℤ) (F G H : (Fin D → ℤ) → ℂ) (k : Fin D → ℤ) : ℂ :=
  ∑ a ∈ box D K, ∑ b ∈ box D K, truncV K F a * truncV K G b * truncV K H (k - a - b)

theorem linConv_eq_conv (D N : ℕ) (K : ℤ) (F G : (Fin D → ℤ) → ℂ) (k : Fin D → ℤ) :
    linConv D N K F G k = (1 / ((N ^ D : ℕ) : ℂ)) * conv K K F G k := rfl

theorem linConv3_eq_conv3 (D N : ℕ) (K : ℤ) (F G H : (Fin D → ℤ) → ℂ) (k : Fin D → ℤ) :
    linConv3 D N K F G H k = (1 / ((N ^ D : ℕ) : ℂ)) ^ 2 * conv3 K F G H k := rfl

/-- `conv` is literally the sum over pairs `p + q = k` inside the box -/
theorem conv_eq_pairs {D : ℕ} (K : ℤ) (F G : (Fin D → ℤ) → ℂ) (k : Fin D → ℤ) :
    conv K K F G k = ∑ pq ∈ (box D K ×ˢ box D K).filter (fun pq => pq.1 + pq.2 = k), F pq.1 * G pq.2 :=
  sum_box_trunc_eq_pairs K F G k

/-- re-indexing `r = p + q`: the sum over the big box of a shifted truncation is the sum over the small box -/
theorem sum_box_shift {D : ℕ} (K L : ℤ) (p : Fin D → ℤ) (hp : ∀ d, |p d| ≤ K) (φ ψ : (Fin D → ℤ) → ℂ) :
    ∑ r ∈ box D (K + L), truncV L φ (r - p) * ψ r = ∑ q ∈ box D L, φ q * ψ (p + q) := by
  have h1 : ∑ q ∈ box D L, φ q * ψ (p + q)
      = ∑ r ∈ (box D L).map (addLeftEmbedding p), truncV L φ (r - p) * ψ r := by
    rw [Finset.sum_map]
    apply Finset.sum_congr rfl
    intro q hq
    rw [addLeftEmbedding_apply, add_sub_cancel_left, truncV_of_le _ _ _ (mem_box.mp hq)]
  rw [h1]
  symm
  apply Finset.sum_subset
  · intro r hr
    rw [Finset.mem_map] at hr
    obtain ⟨q, hq, rfl⟩ := hr
    rw [mem_box]
    intro d
    have hqd := mem_box.mp hq d
    rw [addLeftEmbedding_apply, Pi.add_apply]
    exact (abs_add_le _ _).trans (add_le_add (hp d) hqd)
  · intro r _ hr
    rw [truncV_of_not, zero_mul]
    intro hb
    apply hr
    rw [Finset.mem_map]
    exact ⟨r - p, mem_box.mpr hb, by rw [addLeftEmbedding_apply, add_sub_cancel]⟩

/-- **T1, product identity (every `D`).**  The pointwise product of the trigonometric polynomials with coefficient
    families `F` (band `K`) and `G` (band `L`) IS the trigonometric polynomial with coefficient family
    `conv K L F G` — the LINEAR convolution `Σ_{p+q=k} F_p G_q` — and band `K + L`. -/
theorem trigEval_mul {D : ℕ} (K L : ℤ) (F G : (Fin D → ℤ) → ℂ) (z : Fin D → ℂ) (hz : ∀ d, z d ≠ 0) :
    trigEval K F z * trigEval L G z = trigEval (K + L) (conv K L F G) z := by
  unfold trigEval conv
  rw [Finset.sum_mul_sum]
  have hR : ∑ r ∈ box D (K + L), (∑ p ∈ box D K, truncV K F p * truncV L G (r - p)) * mono z r
      = ∑ p ∈ box D K, ∑ r ∈ box D (K + L), truncV K F p * (truncV L G (r - p) * mono z r) := by
    rw [Finset.sum_comm]
    apply Finset.sum_congr rfl
    intro r _
    rw [Finset.sum_mul]
    exact Finset.sum_congr rfl (fun p _ => mul_assoc _ _ _)
  rw [hR]
  apply Finset.sum_congr rfl
  intro p hp
  have hp' := mem_box.mp hp
  have hS : ∑ r ∈ box D (K + L), truncV K F p * (truncV L G (r - p) * mono z r)
      = F p * ∑ q ∈ box D L, G q * mono z (p + q) := by
    rw [← Finset.mul_sum, sum_box_shift K L p hp' G (mono z), truncV_of_le _ _ _ hp']
  rw [hS, Finset.mul_sum]
  apply Finset.sum_congr rfl
  intro q _
  rw [mono_add z hz]
  ring

/-- associativity bookkeeping: convolving `conv K K F G` (band `2K`) with `H` (band `K`) is the double convolution -/
theorem conv_conv_eq_conv3 {D : ℕ} (K : ℤ) (F G H : (Fin D → ℤ) → ℂ) (k : Fin D → ℤ) :
    conv (K + K) K (conv K K F G) H k = conv3 K F G H k := by
  unfold conv3
  have h1 : conv (K + K) K (conv K K F G) H k
      = ∑ r ∈ box D (K + K), ∑ a ∈ box D K, truncV K F a * (truncV K G (r - a) * truncV K H (k - r)) := by
    unfold conv
    apply Finset.sum_congr rfl
    intro r hr
    rw [truncV_of_le _ _ _ (mem_box.mp hr), Finset.sum_mul]
    exact Finset.sum_congr rfl (fun a _ => mul_assoc _ _ _)
  rw [h1, Finset.sum_comm]
  apply Finset.sum_congr rfl
  intro a ha
  have ha' := mem_box.mp ha
  have hS : ∑ r ∈ box D (K + K), truncV K F a * (truncV K G (r - a) * truncV K H (k - r))
      = truncV K F a * ∑ b ∈ box D K, G b * truncV K H (k - (a + b)) := by
    rw [← Finset.mul_sum, sum_box_shift K K a ha' G (fun r => truncV K H (k - r))]
  rw [hS, Finset.mul_sum]
  apply Finset.sum_congr rfl
  intro b hb
  rw [truncV_of_le _ _ _ (mem_box.mp hb), sub_sub, mul_assoc]

/-- **T1, cubic product identity**: `f·g·h` has coefficient family `conv3 K F G H` and band `3K` -/
theorem trigEval_mul3 {D : ℕ} (K : ℤ) (F G H : (Fin D → ℤ) → ℂ) (z : Fin D → ℂ) (hz : ∀ d, z d ≠ 0) :
    trigEval K F z * trigEval K G z * trigEval K H z = trigEval (K + K + K) (conv3 K F G H) z := by
  rw [trigEval_mul K K F G z hz, trigEval_mul (K + K) K _ H z hz]
  unfold trigEval
  exact Finset.sum_congr rfl (fun r _ => by rw [conv_conv_eq_conv3])

/-! ### sampling on the `N^D` grid -/

/-- grid point `j` (flat index, digits `j_d`) as a point of the torus: `z_d = e^{2πi j_d/N} = ζ_N^{-j_d}` -/
noncomputable def gridZ (D N j : ℕ) : Fin D → ℂ := fun d => zeta N ^ (-(digit D N j d : ℤ))

theorem gridZ_ne_zero (D N j : ℕ) (d : Fin D) : gridZ D N j d ≠ 0 := zpow_ne_zero _ (zeta_ne_zero N)

theorem norm_gridZ (D N j : ℕ) (d : Fin D) : ‖gridZ D N j d‖ = 1 := by
  unfold gridZ
  rw [norm_zpow, norm_zeta, one_zpow]

/-- on the grid the monomial is the inverse-DFT phase `e^{+2πi p·j/N} = ζ^{-p·j}` -/
theorem mono_gridZ (D N j : ℕ) (p : Fin D → ℤ) : mono (gridZ D N j) p = zeta N ^ (-(vdot D N p j)) := by
  unfold mono gridZ vdot
  rw [← Finset.sum_neg_distrib, zeta_zpow_sum]
  apply Finset.prod_congr rfl
  intro d _
  rw [← zpow_mul]
  congr 1
  ring

/-- the trigonometric polynomial sampled on the `N^D` grid -/
noncomputable def sampleTP (D N : ℕ) (K : ℤ) (F : (Fin D → ℤ) → ℂ) : Array ℂ :=
  tab (N ^ D) fun j => trigEval K F (gridZ D N j)

theorem sampleTP_getD (D N : ℕ) (K : ℤ) (F : (Fin D → ℤ) → ℂ) (j : ℕ) (hj : j < N ^ D) :
    (sampleTP D N K F).getD j 0 = trigEval K F (gridZ D N j) := DFT.tab_getD _ _ _ _ hj

/-- **aliasing formula.**  The DFT of the samples at `k` collects every coefficient congruent to `k` modulo `N`. -/
theorem dftV_sampleTP (D N : ℕ) (hN : 0 < N) (K : ℤ) (F : (Fin D → ℤ) → ℂ) (k : Fin D → ℤ) :
    dftV D N (sampleTP D N K F) k
      = ((N ^ D : ℕ) : ℂ) * ∑ p ∈ box D K, if (∀ d, (N : ℤ) ∣ k d - p d) then F p else 0 := by
  unfold sampleTP trigEval
  rw [dftV_tab]
  simp only [Finset.sum_mul]
  rw [Finset.sum_comm, Finset.mul_sum]
  apply Finset.sum_congr rfl
  intro p _
  have h1 : ∀ j ∈ range (N ^ D), F p * mono (gridZ D N j) p * zeta N ^ vdot D N k j
      = F p * zeta N ^ vdot D N (k - p) j := by
    intro j _
    rw [mono_gridZ, mul_assoc, ← zpow_add₀ (zeta_ne_zero N), vdot_sub]
    congr 2
    ring
  rw [Finset.sum_congr rfl h1, ← Finset.mul_sum, sum_zeta_vdot D N hN]
  simp only [Pi.sub_apply]
  split_ifs <;> ring

/-- the samples of a band-`K` polynomial are band limited (in the sense of `AliasND.BandLimitedV`) -/
theorem sampleTP_bandLimitedV (D N : ℕ) (hN : 0 < N) (K : ℤ) (F : (Fin D → ℤ) → ℂ) :
    BandLimitedV D N K (sampleTP D N K F) := by
  intro a ha
  rw [dftV_sampleTP D N hN]
  rw [Finset.sum_eq_zero, mul_zero]
  intro p hp
  rw [if_neg]
  intro hd
  exact ha ⟨p, mem_box.mp hp, hd⟩

/-- no aliasing when `K + L < N`: at `|k_d| ≤ L` the DFT of the samples is `N^D ×` the coefficient (zero outside the
    band `K`) -/
theorem dftV_sampleTP_box (D N : ℕ) (hN : 0 < N) (K L : ℤ) (hKL : K + L < (N : ℤ)) (F : (Fin D → ℤ) → ℂ)
    (k : Fin D → ℤ) (hk : ∀ d, |k d| ≤ L) :
    dftV D N (sampleTP D N K F) k = ((N ^ D : ℕ) : ℂ) * truncV K F k := by
  rw [dftV_sampleTP D N hN]
  congr 1
  have h1 : ∀ p ∈ box D K, (if (∀ d, (N : ℤ) ∣ k d - p d) then F p else 0) = if p = k then F p else 0 := by
    intro p hp
    have hp' := mem_box.mp hp
    by_cases hpk : p = k
    · subst hpk
      simp
    · rw [if_neg hpk, if_neg]
      intro hd
      apply hpk
      funext d
      have h1 := abs_le.mp (hp' d)
      have h2 := abs_le.mp (hk d)
      have : k d - p d = 0 := by
        apply Int.eq_zero_of_abs_lt_dvd (hd d)
        rw [abs_lt]; constructor <;> omega
      omega
  rw [Finset.sum_congr rfl h1, Finset.sum_ite_eq']
  unfold truncV
  by_cases hb : k ∈ box D K
  · rw [if_pos hb, if_pos (mem_box.mp hb)]
  · rw [if_neg hb, if_neg (fun h => hb (mem_box.mpr h))]

/-- **uniqueness of the coefficient family**: two band-`K` coefficient families that define the same function on the
    torus `|z_d| = 1` agree on the box -/
theorem trigEval_coeff_unique {D : ℕ} (K : ℤ) (A B : (Fin D → ℤ) → ℂ)
    (h : ∀ z : Fin D → ℂ, (∀ d, ‖z d‖ = 1) → trigEval K A z = trigEval K B z)
    (k : Fin D → ℤ) (hk : ∀ d, |k d| ≤ K) : A k = B k := by
  set N : ℕ := (2 * |K| + 1).toNat with hNdef
  have hN : 0 < N := by
    have := abs_nonneg K
    rw [hNdef]; omega
  have hNK : K + K < (N : ℤ) := by
    rw [hNdef, Int.toNat_of_nonneg (by positivity)]
    have := le_abs_self K
    omega
  have hs : sampleTP D N K A = sampleTP D N K B := by
    unfold sampleTP
    exact Nonlin.tab_congr _ _ _ (fun j _ => h _ (norm_gridZ D N j))
  have hA := dftV_sampleTP_box D N hN K K hNK A k hk
  have hB := dftV_sampleTP_box D N hN K K hNK B k hk
  rw [hs, hB, truncV_of_le _ _ _ hk, truncV_of_le _ _ _ hk] at hA
  have hne : ((N ^ D : ℕ) : ℂ) ≠ 0 := by exact_mod_cast (pow_pos hN D).ne'
  exact (mul_left_cancel₀ hne hA).symm

/-! ### the sampled pointwise product -/

/-- the sampled product is the sample of the product polynomial -/
theorem sampleTP_mul (D N : ℕ) (K L : ℤ) (F G : (Fin D → ℤ) → ℂ) :
    (tab (N ^ D) fun j => (sampleTP D N K F).getD j 0 * (sampleTP D N L G).getD j 0)
      = sampleTP D N (K + L) (conv K L F G) := by
  unfold sampleTP
  apply Nonlin.tab_congr
  intro j hj
  rw [DFT.tab_getD _ _ _ _ hj, DFT.tab_getD _ _ _ _ hj, trigEval_mul K L F G _ (gridZ_ne_zero D N j)]

theorem sampleTP_mul3 (D N : ℕ) (K : ℤ) (F G H : (Fin D → ℤ) → ℂ) :
    (tab (N ^ D) fun j => (sampleTP D N K F).getD j 0 * (sampleTP D N K G).getD j 0
        * (sampleTP D N K H).getD j 0)
      = sampleTP D N (K + K + K) (conv3 K F G H) := by
  unfold sampleTP
  apply Nonlin.tab_congr
  intro j hj
  rw [DFT.tab_getD _ _ _ _ hj, DFT.tab_getD _ _ _ _ hj, DFT.tab_getD _ _ _ _ hj,
    trigEval_mul3 K F G H _ (gridZ_ne_zero D N j)]

/-- any grid: the transform of the sampled product is the wrapped-around (aliased) sum of the product coefficients -/
theorem dftV_sampleTP_mul_aliased (D N : ℕ) (hN : 0 < N) (K : ℤ) (F G : (Fin D → ℤ) → ℂ) (k : Fin D → ℤ) :
    dftV D N (tab (N ^ D) fun j => (sampleTP D N K F).getD j 0 * (sampleTP D N K G).getD j 0) k
      = ((N ^ D : ℕ) : ℂ) * ∑ r ∈ box D (K + K),
          if (∀ d, (N : ℤ) ∣ k d - r d) then conv K K F G r else 0 := by
  rw [sampleTP_mul, dftV_sampleTP D N hN]

theorem box_le_double {D : ℕ} (K : ℤ) (k : Fin D → ℤ) (hk : ∀ d, |k d| ≤ K) : ∀ d, |k d| ≤ K + K := by
  intro d
  have := hk d
  have := abs_nonneg (k d)
  omega

/-- **T1, sampling statement (quadratic, `3K < N`).**  Sample `f`, `g` (band `K`) on a grid with `N > 3K`, multiply
    pointwise and transform: at every wavenumber vector of the band `|k_d| ≤ K` the result is `N^D ×` the coefficient
    `conv K K F G k = Σ_{p+q=k} F_p G_q` of the product polynomial `f·g` — no aliasing on the retained band. -/
theorem dftV_sampleTP_mul (D N : ℕ) (hN : 0 < N) (K : ℤ) (hK : 3 * K < (N : ℤ)) (F G : (Fin D → ℤ) → ℂ)
    (k : Fin D → ℤ) (hk : ∀ d, |k d| ≤ K) :
    dftV D N (tab (N ^ D) fun j => (sampleTP D N K F).getD j 0 * (sampleTP D N K G).getD j 0) k
      = ((N ^ D : ℕ) : ℂ) * conv K K F G k := by
  rw [sampleTP_mul, dftV_sampleTP_box D N hN (K + K) K (by omega) _ k hk,
    truncV_of_le _ _ _ (box_le_double K k hk)]

/-- with `4K < N` the WHOLE spectrum of the product (`|k_d| ≤ 2K`) is recovered -/
theorem dftV_sampleTP_mul_full (D N : ℕ) (hN : 0 < N) (K : ℤ) (hK : 4 * K < (N : ℤ)) (F G : (Fin D → ℤ) → ℂ)
    (k : Fin D → ℤ) (hk : ∀ d, |k d| ≤ K + K) :
    dftV D N (tab (N ^ D) fun j => (sampleTP D N K F).getD j 0 * (sampleTP D N K G).getD j 0) k
      = ((N ^ D : ℕ) : ℂ) * conv K K F G k := by
  rw [sampleTP_mul, dftV_sampleTP_box D N hN (K + K) (K + K) (by omega) _ k hk, truncV_of_le _ _ _ hk]

/-- **T1, sampling statement (cubic, `4K < N`).** -/
theorem dftV_sampleTP_mul3 (D N : ℕ) (hN : 0 < N) (K : ℤ) (hK : 4 * K < (N : ℤ)) (F G H : (Fin D → ℤ) → ℂ)
    (k : Fin D → ℤ) (hk : ∀ d, |k d| ≤ K) :
    dftV D N (tab (N ^ D) fun j => (sampleTP D N K F).getD j 0 * (sampleTP D N K G).getD j 0
        * (sampleTP D N K H).getD j 0) k
      = ((N ^ D : ℕ) : ℂ) * conv3 K F G H k := by
  have hk3 : ∀ d, |k d| ≤ K + K + K := by
    intro d
    have := hk d
    have := abs_nonneg (k d)
    omega
  rw [sampleTP_mul3, dftV_sampleTP_box D N hN (K + K + K) K (by omega) _ k hk, truncV_of_le _ _ _ hk3]

/-- **the same through the MODEL's transform** `rfftnM` at a retained stored mode `h` (`k(h) = kvec D N h`) -/
theorem rfftn_sampleTP_mul (D N : ℕ) (hN : 0 < N) (K : ℤ) (hK : 3 * K < (N : ℤ)) (F G : (Fin D → ℤ) → ℂ)
    (h : ℕ) (hh : h < numModes D N) (hk : ∀ d, |kvec D N h d| ≤ K) :
    (rfftnM D N (tab (N ^ D) fun j => (sampleTP D N K F).getD j 0 * (sampleTP D N K G).getD j 0)).getD h 0
      = ((N ^ D : ℕ) : ℂ) * conv K K F G (kvec D N h) := by
  rw [rfftn_eq_dftV D N hN _ h hh, dftV_sampleTP_mul D N hN K hK F G _ hk]

theorem rfftn_sampleTP_mul3 (D N : ℕ) (hN : 0 < N) (K : ℤ) (hK : 4 * K < (N : ℤ)) (F G H : (Fin D → ℤ) → ℂ)
    (h : ℕ) (hh : h < numModes D N) (hk : ∀ d, |kvec D N h d| ≤ K) :
    (rfftnM D N (tab (N ^ D) fun j => (sampleTP D N K F).getD j 0 * (sampleTP D N K G).getD j 0
        * (sampleTP D N K H).getD j 0)).getD h 0
      = ((N ^ D : ℕ) : ℂ) * conv3 K F G H (kvec D N h) := by
  rw [rfftn_eq_dftV D N hN _ h hh, dftV_sampleTP_mul3 D N hN K hK F G H _ hk]

/-! ### non-vacuity -/

example : ∃ (D N : ℕ) (K : ℤ) (k : Fin D → ℤ), 0 < N ∧ 3 * K < (N : ℤ) ∧ 0 < K ∧ (∀ d, |k d| ≤ K) :=
  ⟨2, 8, 2, fun _ => 1, by decide, by decide, by decide, fun _ => by show |(1 : ℤ)| ≤ 2; decide⟩

example : ∃ (D N : ℕ) (K : ℤ) (k : Fin D → ℤ), 0 < N ∧ 4 * K < (N : ℤ) ∧ 0 < K ∧ (∀ d, |k d| ≤ K + K) :=
  ⟨3, 9, 2, fun _ => 4, by decide, by decide, by decide, fun _ => by show |(4 : ℤ)| ≤ 2 + 2; decide⟩

example : ∃ (D N : ℕ) (K : ℤ) (h : ℕ), 0 < N ∧ 3 * K < (N : ℤ) ∧ 0 < K ∧ h < numModes D N ∧ 0 < h ∧
    ∀ d, |kvec D N h d| ≤ K :=
  ⟨2, 8, 2, 1, by decide, by decide, by decide, by decide, by decide, by decide⟩

example : ∃ (D : ℕ) (z : Fin D → ℂ), 0 < D ∧ (∀ d, z d ≠ 0) ∧ ∀ d, ‖z d‖ = 1 :=
  ⟨3, fun _ => 1, by decide, fun _ => one_ne_zero, fun _ => norm_one⟩

end Exponax.AliasMulti
