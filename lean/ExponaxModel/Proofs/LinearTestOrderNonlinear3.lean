import ExponaxModel.Proofs.LinearTestOrderNonlinearPrep
/-
C02 support — T8: ETDRK3 (Cox–Matthews) for a genuinely NONLINEAR `N : ℂ → ℂ`: classical order 3.

`u' = λ u + N(u)` on `[0,T]`, exact solution `u` a hypothesis, `f t := N (u t)`.  Hypotheses:
 * `LipschitzWith K N`;
 * Taylor expansion of `f` along the solution to second order with explicit remainder:
      `‖f(t+s) − f t − s·f₁ t − s²/2·f₂ t‖ ≤ G₃ s³/6`,   `‖f₁ t‖ ≤ M₁`, `‖f₂ t‖ ≤ M₂`   on `[0,T]`;
 * linearisation of `N` along the solution: real-linear maps `L τ : ℂ →ₗ[ℝ] ℂ` (`= N'(u τ)`) with
      `‖N y − N (u τ) − L τ (y − u τ)‖ ≤ H/2·‖y − u τ‖²`  (all `y`),   `‖L τ v‖ ≤ K‖v‖`,
      `‖L τ v − L τ' v‖ ≤ HL·|τ − τ'|·‖v‖`   (`τ, τ' ∈ [0,T]`).
The constants depend on `|λ|` (classical, non-stiff order): `Lam = ‖λ‖` enters `NL3.Cloc`.

 * `etd3_local_error`   one regenerated `E3step` with the exact coefficients from `u t`: `≤ Cloc·h⁴`
 * `etd3_stable`        Lipschitz constant `e^{ωh} + h·Θ`
 * `etd3_global_error`  `‖u(n dt) − Sⁿ(u 0)‖ ≤ T·Cloc·e^{(ω+Θ)T}·dt³`
-/
set_option linter.unusedVariables false
noncomputable section
namespace Exponax.LinearOrder
open Exponax Exponax.Spec Exponax.ContourTail Exponax.Gen.Etdrk

/-- the data entering the constants -/
structure NL3 where
  K : ℝ
  M1 : ℝ
  M2 : ℝ
  G3 : ℝ
  H : ℝ
  HL : ℝ
  Lam : ℝ
  ω : ℝ
  T : ℝ

namespace NL3
def W (c : NL3) : ℝ := Real.exp (c.ω * c.T)
/-- second-order Taylor constant of `f` -/
def G2 (c : NL3) : ℝ := c.M2 + c.G3 * c.T / 3
/-- `a − u(t+h/2) = −h²/8·f₁ + ε_a`, `‖ε_a‖ ≤ EA·h³` -/
def EA (c : NL3) : ℝ := c.W * (c.Lam * c.M1 + c.G2) / 48
def Ea2 (c : NL3) : ℝ := c.M1 / 8 + c.EA * c.T
/-- `b − u(t+h) = h²/2·f₁ + ε_b`, `‖ε_b‖ ≤ EB·h³` -/
def EB (c : NL3) : ℝ := c.W * (2 * c.Lam * c.M1 / 3 + 5 * c.G2 / 12 + 2 * c.K * c.Ea2)
def Eb2 (c : NL3) : ℝ := c.M1 / 2 + c.EB * c.T
/-- local error constant -/
def Cloc (c : NL3) : ℝ :=
  (10 * c.W / 3) * (c.G3 / 48) + (7 * c.W / 6) * (c.G3 / 6) + c.W * c.G3 / 24
    + (1 / 2) * ((7 * c.W / 6) * c.HL * c.M1 / 2 + c.Lam * (7 * c.W / 12) * c.K * c.M1)
    + (10 * c.W / 3) * (c.K * c.EA + c.H / 2 * c.Ea2 ^ 2 * c.T)
    + (7 * c.W / 6) * (c.K * c.EB + c.H / 2 * c.Eb2 ^ 2 * c.T)
end NL3

/-- stability constants of ETDRK3: `‖S x − S y‖ ≤ (e^{ωh} + h·Θ)‖x − y‖` for `0 ≤ h ≤ T` -/
def etd3Aa (K ω T : ℝ) : ℝ := Real.exp (ω * T) * (1 + K * T / 2)
def etd3Ab (K ω T : ℝ) : ℝ := Real.exp (ω * T) * (1 + T * K * (2 * etd3Aa K ω T + 1))
def etd3Θ (K ω T : ℝ) : ℝ :=
  K * Real.exp (ω * T) * (19 / 6 + 10 / 3 * etd3Aa K ω T + 7 / 6 * etd3Ab K ω T)
/-- global error constant of ETDRK3 -/
def NL3.Cglob (c : NL3) : ℝ := c.T * c.Cloc * Real.exp ((c.ω + etd3Θ c.K c.ω c.T) * c.T)

/-! ### φ-differences -/

theorem phi2e_sub_half (w : ℂ) : phi2e w - 1 / 2 = w * phiE 3 w := by
  have h := phiE_succ 2 w
  rw [phiE_two] at h
  rw [h]; norm_num [Nat.factorial]

theorem phi12_sub_half (w : ℂ) : phi1e w - phi2e w - 1 / 2 = w * (phi2e w - phi3e w) := by
  have h1 := phiE_succ 1 w
  have h2 := phiE_succ 2 w
  rw [phiE_one, phiE_two] at h1
  rw [phiE_two, phiE_three] at h2
  norm_num [Nat.factorial] at h1 h2
  linear_combination h1 - h2

theorem phi_gamma_sub_beta (w : ℂ) :
    (4 * phi3e w - phi2e w) - (phi2e w - 2 * phi3e w) = w * (6 * phiE 4 w - 2 * phi3e w) := by
  have h2 := phiE_succ 2 w
  have h3 := phiE_succ 3 w
  rw [phiE_two, phiE_three] at h2
  rw [phiE_three] at h3
  norm_num [Nat.factorial] at h2 h3
  linear_combination 6 * h3 - 2 * h2

theorem lin_real (L : ℂ →ₗ[ℝ] ℂ) (x d : ℂ) (r : ℝ) : L (x + (r : ℂ) * d) = L x + (r : ℂ) * L d := by
  rw [map_add, ← Complex.real_smul, map_smul, Complex.real_smul]

/-- the regenerated ETDRK3 step in stage form -/
theorem E3step_eq_stages (E Eh ch c1 cb1 cb2 cb3 : ℂ) (N : ℂ → ℂ) (x : ℂ) :
    E3step E Eh ch c1 cb1 cb2 cb3 N x
      = E * x + cb1 * N x + cb2 * N (Eh * x + ch * N x)
        + cb3 * N (E * x + c1 * (2 * N (Eh * x + ch * N x) - N x)) := by
  simp only [E3step, lit_eq]; push_cast; ring

/-! ### norm combinators (any normed ring: `ℂ`, or `ι → ℂ` with the sup norm) -/

theorem nrm_mul {V : Type} [NormedRing V] {x y : V} {X Y : ℝ} (hx : ‖x‖ ≤ X) (hy : ‖y‖ ≤ Y)
    (hX : 0 ≤ X) : ‖x * y‖ ≤ X * Y :=
  (norm_mul_le x y).trans (mul_le_mul hx hy (norm_nonneg _) hX)

theorem nrm_add {V : Type} [SeminormedAddCommGroup V] {x y : V} {X Y : ℝ} (hx : ‖x‖ ≤ X)
    (hy : ‖y‖ ≤ Y) : ‖x + y‖ ≤ X + Y := (norm_add_le _ _).trans (add_le_add hx hy)

theorem nrm_sub {V : Type} [SeminormedAddCommGroup V] {x y : V} {X Y : ℝ} (hx : ‖x‖ ≤ X)
    (hy : ‖y‖ ≤ Y) : ‖x - y‖ ≤ X + Y := (norm_sub_le _ _).trans (add_le_add hx hy)

theorem nrm_ofReal {r R : ℝ} (h0 : 0 ≤ r) (hR : r ≤ R) : ‖(r : ℂ)‖ ≤ R := by
  rwa [Complex.norm_real, Real.norm_eq_abs, abs_of_nonneg h0]

/-- **algebraic core of the ETDRK3 local error**: all quantities are complex numbers; the hypotheses are the
    expansions of the exact solution (`nρa, nρb, nρ3`), of `f` (`nσh, nτh, nτe`), the φ-bounds and the
    linearisation of `N` at the two stage times -/
theorem etd3_core (c : NL3) (N : ℂ → ℂ) (La Lb : ℂ →ₗ[ℝ] ℂ) (h : ℝ)
    (hK0 : 0 ≤ c.K) (hM10 : 0 ≤ c.M1) (hM20 : 0 ≤ c.M2) (hG3 : 0 ≤ c.G3) (hH : 0 ≤ c.H)
    (hHL : 0 ≤ c.HL) (hΛ0 : 0 ≤ c.Lam) (hω : 0 ≤ c.ω) (hT : 0 ≤ c.T) (hh : 0 ≤ h) (hhT : h ≤ c.T)
    (hNlip : ∀ x y, ‖N x - N y‖ ≤ c.K * ‖x - y‖)
    (u0 uh u1 d1 d2 E Eh p1 p2 p3 q1 q2 : ℂ)
    (bp1 : ‖p1‖ ≤ c.W) (d_q2 : ‖q2 - 1 / 2‖ ≤ c.Lam * h * c.W / 12)
    (d_p12 : ‖p1 - p2 - 1 / 2‖ ≤ c.Lam * h * (2 * c.W / 3))
    (d_gb : ‖(4 * p3 - p2) - (p2 - 2 * p3)‖ ≤ c.Lam * h * (7 * c.W / 12))
    (b4β : ‖4 * p2 - 8 * p3‖ ≤ 10 * c.W / 3) (bγ : ‖4 * p3 - p2‖ ≤ 7 * c.W / 6)
    (hd1M : ‖d1‖ ≤ c.M1)
    (nρa : ‖uh - (Eh * u0 + (h : ℂ) / 2 * q1 * N u0 + ((h : ℂ) / 2) ^ 2 * q2 * d1)‖
      ≤ c.W * c.G2 * h ^ 3 / 48)
    (nρb : ‖u1 - (E * u0 + (h : ℂ) * p1 * N u0 + (h : ℂ) ^ 2 * p2 * d1)‖ ≤ c.W * c.G2 * h ^ 3 / 6)
    (nρ3 : ‖u1 - (E * u0 + (h : ℂ) * p1 * N u0 + (h : ℂ) ^ 2 * p2 * d1 + (h : ℂ) ^ 3 * p3 * d2)‖
      ≤ c.W * c.G3 * h ^ 4 / 24)
    (nσh : ‖N uh - N u0 - (h : ℂ) / 2 * d1‖ ≤ c.G2 * h ^ 2 / 8)
    (nτh : ‖N uh - N u0 - (h : ℂ) / 2 * d1 - ((h : ℂ) / 2) ^ 2 / 2 * d2‖ ≤ c.G3 * h ^ 3 / 48)
    (nτe : ‖N u1 - N u0 - (h : ℂ) * d1 - (h : ℂ) ^ 2 / 2 * d2‖ ≤ c.G3 * h ^ 3 / 6)
    (hLaK : ∀ v, ‖La v‖ ≤ c.K * ‖v‖) (hLbK : ∀ v, ‖Lb v‖ ≤ c.K * ‖v‖)
    (hLina : ∀ y, ‖N y - N uh - La (y - uh)‖ ≤ c.H / 2 * ‖y - uh‖ ^ 2)
    (hLinb : ∀ y, ‖N y - N u1 - Lb (y - u1)‖ ≤ c.H / 2 * ‖y - u1‖ ^ 2)
    (hLab : ∀ v, ‖Lb v - La v‖ ≤ c.HL * (h / 2) * ‖v‖) :
    ‖u1 - (E * u0 + (h : ℂ) * (p1 - 3 * p2 + 4 * p3) * N u0
        + (h : ℂ) * (4 * p2 - 8 * p3) * N (Eh * u0 + (h : ℂ) * (q1 / 2) * N u0)
        + (h : ℂ) * (4 * p3 - p2)
          * N (E * u0 + (h : ℂ) * p1 * (2 * N (Eh * u0 + (h : ℂ) * (q1 / 2) * N u0) - N u0)))‖
      ≤ c.Cloc * h ^ 4 := by
  have hW1 : 1 ≤ c.W := Real.one_le_exp (mul_nonneg hω hT)
  have hW0 : 0 ≤ c.W := by linarith
  have hG20 : 0 ≤ c.G2 := by unfold NL3.G2; positivity
  have hEA0 : 0 ≤ c.EA := by unfold NL3.EA; positivity
  have hEa20 : 0 ≤ c.Ea2 := by unfold NL3.Ea2; positivity
  have hEB0 : 0 ≤ c.EB := by unfold NL3.EB; positivity
  have hEb20 : 0 ≤ c.Eb2 := by unfold NL3.Eb2; positivity
  have b2 : ‖(2 : ℂ)‖ ≤ 2 := by simp
  -- remainders as atoms
  obtain ⟨ρa, hρa⟩ : ∃ ρ, ρ = uh - (Eh * u0 + (h : ℂ) / 2 * q1 * N u0 + ((h : ℂ) / 2) ^ 2 * q2 * d1) :=
    ⟨_, rfl⟩
  obtain ⟨ρb, hρb⟩ : ∃ ρ, ρ = u1 - (E * u0 + (h : ℂ) * p1 * N u0 + (h : ℂ) ^ 2 * p2 * d1) := ⟨_, rfl⟩
  obtain ⟨ρ3, hρ3⟩ : ∃ ρ, ρ = u1 - (E * u0 + (h : ℂ) * p1 * N u0 + (h : ℂ) ^ 2 * p2 * d1
      + (h : ℂ) ^ 3 * p3 * d2) := ⟨_, rfl⟩
  obtain ⟨σh, hσh⟩ : ∃ σ, σ = N uh - N u0 - (h : ℂ) / 2 * d1 := ⟨_, rfl⟩
  obtain ⟨τh, hτh⟩ : ∃ τ, τ = N uh - N u0 - (h : ℂ) / 2 * d1 - ((h : ℂ) / 2) ^ 2 / 2 * d2 := ⟨_, rfl⟩
  obtain ⟨τe, hτe⟩ : ∃ τ, τ = N u1 - N u0 - (h : ℂ) * d1 - (h : ℂ) ^ 2 / 2 * d2 := ⟨_, rfl⟩
  rw [← hρa] at nρa
  rw [← hρb] at nρb
  rw [← hρ3] at nρ3
  rw [← hσh] at nσh
  rw [← hτh] at nτh
  rw [← hτe] at nτe
  -- stage a
  obtain ⟨a, ha⟩ : ∃ a, a = Eh * u0 + (h : ℂ) * (q1 / 2) * N u0 := ⟨_, rfl⟩
  rw [← ha]
  obtain ⟨εa, hεa⟩ : ∃ ε, ε = a - uh + ((h ^ 2 / 8 : ℝ) : ℂ) * d1 := ⟨_, rfl⟩
  have eεa : εa = -((h : ℂ) ^ 2 / 4 * (q2 - 1 / 2) * d1) - ρa := by
    rw [hεa, hρa, ha]; push_cast; ring
  have bh2 : ‖(h : ℂ) ^ 2 / 4‖ ≤ h ^ 2 / 4 := by
    rw [norm_div, norm_pow, Complex.norm_real, Real.norm_eq_abs, abs_of_nonneg hh]; simp
  have nεa : ‖εa‖ ≤ c.EA * h ^ 3 := by
    rw [eεa]
    have h1 : ‖(h : ℂ) ^ 2 / 4 * (q2 - 1 / 2) * d1‖ ≤ h ^ 2 / 4 * (c.Lam * h * c.W / 12) * c.M1 :=
      nrm_mul (nrm_mul bh2 d_q2 (by positivity)) hd1M (by positivity)
    have h2 : ‖-((h : ℂ) ^ 2 / 4 * (q2 - 1 / 2) * d1)‖ ≤ h ^ 2 / 4 * (c.Lam * h * c.W / 12) * c.M1 := by
      rwa [norm_neg]
    refine (nrm_sub h2 nρa).trans (le_of_eq ?_)
    unfold NL3.EA; ring
  have h3T : h ^ 3 ≤ c.T * h ^ 2 := by
    calc h ^ 3 = h * h ^ 2 := by ring
      _ ≤ c.T * h ^ 2 := mul_le_mul_of_nonneg_right hhT (sq_nonneg h)
  have nea : ‖a - uh‖ ≤ c.Ea2 * h ^ 2 := by
    have e1 : a - uh = εa - ((h ^ 2 / 8 : ℝ) : ℂ) * d1 := by rw [hεa]; ring
    rw [e1]
    have h1 : ‖((h ^ 2 / 8 : ℝ) : ℂ) * d1‖ ≤ h ^ 2 / 8 * c.M1 :=
      nrm_mul (nrm_ofReal (by positivity) le_rfl) hd1M (by positivity)
    refine (nrm_sub nεa h1).trans ?_
    have : c.EA * h ^ 3 ≤ c.EA * (c.T * h ^ 2) := mul_le_mul_of_nonneg_left h3T hEA0
    unfold NL3.Ea2
    linarith
  obtain ⟨δa, hδa⟩ : ∃ δ, δ = N a - N uh := ⟨_, rfl⟩
  have nδa : ‖δa‖ ≤ c.K * (c.Ea2 * h ^ 2) := by
    rw [hδa]; exact (hNlip a uh).trans (mul_le_mul_of_nonneg_left nea hK0)
  -- stage b
  obtain ⟨b, hb⟩ : ∃ b, b = E * u0 + (h : ℂ) * p1 * (2 * N a - N u0) := ⟨_, rfl⟩
  rw [← hb]
  obtain ⟨εb, hεb⟩ : ∃ ε, ε = b - u1 - ((h ^ 2 / 2 : ℝ) : ℂ) * d1 := ⟨_, rfl⟩
  have eεb : εb = (h : ℂ) ^ 2 * (p1 - p2 - 1 / 2) * d1 + 2 * ((h : ℂ) * p1 * σh)
      + 2 * ((h : ℂ) * p1 * δa) - ρb := by
    rw [hεb, hρb, hb, hσh, hδa]; push_cast; ring
  have bhc : ‖(h : ℂ)‖ ≤ h := nrm_ofReal hh le_rfl
  have bh2' : ‖(h : ℂ) ^ 2‖ ≤ h ^ 2 := by
    rw [norm_pow, Complex.norm_real, Real.norm_eq_abs, abs_of_nonneg hh]
  have nεb : ‖εb‖ ≤ c.EB * h ^ 3 := by
    rw [eεb]
    have h1 : ‖(h : ℂ) ^ 2 * (p1 - p2 - 1 / 2) * d1‖ ≤ h ^ 2 * (c.Lam * h * (2 * c.W / 3)) * c.M1 :=
      nrm_mul (nrm_mul bh2' d_p12 (by positivity)) hd1M (by positivity)
    have h2 : ‖2 * ((h : ℂ) * p1 * σh)‖ ≤ 2 * (h * c.W * (c.G2 * h ^ 2 / 8)) :=
      nrm_mul b2 (nrm_mul (nrm_mul bhc bp1 hh) nσh (by positivity)) (by norm_num)
    have h3 : ‖2 * ((h : ℂ) * p1 * δa)‖ ≤ 2 * (h * c.W * (c.K * (c.Ea2 * h ^ 2))) :=
      nrm_mul b2 (nrm_mul (nrm_mul bhc bp1 hh) nδa (by positivity)) (by norm_num)
    refine (nrm_sub (nrm_add (nrm_add h1 h2) h3) nρb).trans (le_of_eq ?_)
    unfold NL3.EB; ring
  have neb : ‖b - u1‖ ≤ c.Eb2 * h ^ 2 := by
    have e1 : b - u1 = εb + ((h ^ 2 / 2 : ℝ) : ℂ) * d1 := by rw [hεb]; ring
    rw [e1]
    have h1 : ‖((h ^ 2 / 2 : ℝ) : ℂ) * d1‖ ≤ h ^ 2 / 2 * c.M1 :=
      nrm_mul (nrm_ofReal (by positivity) le_rfl) hd1M (by positivity)
    refine (nrm_add nεb h1).trans ?_
    have : c.EB * h ^ 3 ≤ c.EB * (c.T * h ^ 2) := mul_le_mul_of_nonneg_left h3T hEB0
    unfold NL3.Eb2
    linarith
  -- linearisation of N at the two stage times
  obtain ⟨qa, hqa⟩ : ∃ q, q = N a - N uh - La (a - uh) := ⟨_, rfl⟩
  obtain ⟨qb, hqb⟩ : ∃ q, q = N b - N u1 - Lb (b - u1) := ⟨_, rfl⟩
  have nqa : ‖qa‖ ≤ c.H / 2 * (c.Ea2 * h ^ 2) ^ 2 := by
    rw [hqa]; refine (hLina a).trans ?_; gcongr
  have nqb : ‖qb‖ ≤ c.H / 2 * (c.Eb2 * h ^ 2) ^ 2 := by
    rw [hqb]; refine (hLinb b).trans ?_; gcongr
  have eLa : La (a - uh) = La εa + ((-(h ^ 2 / 8) : ℝ) : ℂ) * La d1 := by
    rw [← lin_real]; congr 1; rw [hεa]; push_cast; ring
  have eLb : Lb (b - u1) = Lb εb + ((h ^ 2 / 2 : ℝ) : ℂ) * Lb d1 := by
    rw [← lin_real]; congr 1; rw [hεb]; push_cast; ring
  have nA1 : ‖La εa‖ ≤ c.K * (c.EA * h ^ 3) :=
    (hLaK εa).trans (mul_le_mul_of_nonneg_left nεa hK0)
  have nB1 : ‖Lb εb‖ ≤ c.K * (c.EB * h ^ 3) :=
    (hLbK εb).trans (mul_le_mul_of_nonneg_left nεb hK0)
  have nA2 : ‖La d1‖ ≤ c.K * c.M1 := (hLaK d1).trans (mul_le_mul_of_nonneg_left hd1M hK0)
  have nBA : ‖Lb d1 - La d1‖ ≤ c.HL * (h / 2) * c.M1 :=
    (hLab d1).trans (mul_le_mul_of_nonneg_left hd1M (by positivity))
  generalize La εa = A1 at *
  generalize La d1 = A2 at *
  generalize Lb εb = B1 at *
  generalize Lb d1 = B2 at *
  -- the defect identity (this is where the quadrature exactness of the weights is used)
  have hid : u1 - (E * u0 + (h : ℂ) * (p1 - 3 * p2 + 4 * p3) * N u0 + (h : ℂ) * (4 * p2 - 8 * p3) * N a
        + (h : ℂ) * (4 * p3 - p2) * N b)
      = -((h : ℂ) * ((4 * p2 - 8 * p3) * τh + (4 * p3 - p2) * τe)
        + (h : ℂ) * ((4 * p2 - 8 * p3) * (A1 + qa) + (4 * p3 - p2) * (B1 + qb))
        + (h : ℂ) * ((h : ℂ) ^ 2 / 2 * ((4 * p3 - p2) * (B2 - A2)
            + ((4 * p3 - p2) - (p2 - 2 * p3)) * A2))
        - ρ3) := by
    have e1 : N a = N uh + (A1 + ((-(h ^ 2 / 8) : ℝ) : ℂ) * A2) + qa := by rw [hqa, eLa]; ring
    have e2 : N b = N u1 + (B1 + ((h ^ 2 / 2 : ℝ) : ℂ) * B2) + qb := by rw [hqb, eLb]; ring
    rw [e1, e2, hτh, hτe, hρ3]
    push_cast
    ring
  rw [hid, norm_neg]
  -- bounds of the four groups
  have g1 : ‖(h : ℂ) * ((4 * p2 - 8 * p3) * τh + (4 * p3 - p2) * τe)‖
      ≤ h * ((10 * c.W / 3) * (c.G3 * h ^ 3 / 48) + (7 * c.W / 6) * (c.G3 * h ^ 3 / 6)) :=
    nrm_mul bhc (nrm_add (nrm_mul b4β nτh (by positivity)) (nrm_mul bγ nτe (by positivity))) hh
  have g2 : ‖(h : ℂ) * ((4 * p2 - 8 * p3) * (A1 + qa) + (4 * p3 - p2) * (B1 + qb))‖
      ≤ h * ((10 * c.W / 3) * (c.K * (c.EA * h ^ 3) + c.H / 2 * (c.Ea2 * h ^ 2) ^ 2)
          + (7 * c.W / 6) * (c.K * (c.EB * h ^ 3) + c.H / 2 * (c.Eb2 * h ^ 2) ^ 2)) :=
    nrm_mul bhc (nrm_add (nrm_mul b4β (nrm_add nA1 nqa) (by positivity))
      (nrm_mul bγ (nrm_add nB1 nqb) (by positivity))) hh
  have bh22 : ‖(h : ℂ) ^ 2 / 2‖ ≤ h ^ 2 / 2 := by
    rw [norm_div, norm_pow, Complex.norm_real, Real.norm_eq_abs, abs_of_nonneg hh]; simp
  have g3 : ‖(h : ℂ) * ((h : ℂ) ^ 2 / 2 * ((4 * p3 - p2) * (B2 - A2)
        + ((4 * p3 - p2) - (p2 - 2 * p3)) * A2))‖
      ≤ h * (h ^ 2 / 2 * ((7 * c.W / 6) * (c.HL * (h / 2) * c.M1)
          + c.Lam * h * (7 * c.W / 12) * (c.K * c.M1))) :=
    nrm_mul bhc (nrm_mul bh22 (nrm_add (nrm_mul bγ nBA (by positivity))
      (nrm_mul d_gb nA2 (by positivity))) (by positivity)) hh
  refine (nrm_sub (nrm_add (nrm_add g1 g2) g3) nρ3).trans ?_
  -- collect
  have hfin : h * ((10 * c.W / 3) * (c.G3 * h ^ 3 / 48) + (7 * c.W / 6) * (c.G3 * h ^ 3 / 6))
      + h * ((10 * c.W / 3) * (c.K * (c.EA * h ^ 3) + c.H / 2 * (c.Ea2 * h ^ 2) ^ 2)
          + (7 * c.W / 6) * (c.K * (c.EB * h ^ 3) + c.H / 2 * (c.Eb2 * h ^ 2) ^ 2))
      + h * (h ^ 2 / 2 * ((7 * c.W / 6) * (c.HL * (h / 2) * c.M1)
          + c.Lam * h * (7 * c.W / 12) * (c.K * c.M1)))
      + c.W * c.G3 * h ^ 4 / 24
      = ((10 * c.W / 3) * (c.G3 / 48) + (7 * c.W / 6) * (c.G3 / 6) + c.W * c.G3 / 24
          + (1 / 2) * ((7 * c.W / 6) * c.HL * c.M1 / 2 + c.Lam * (7 * c.W / 12) * c.K * c.M1)
          + (10 * c.W / 3) * (c.K * c.EA + c.H / 2 * c.Ea2 ^ 2 * h)
          + (7 * c.W / 6) * (c.K * c.EB + c.H / 2 * c.Eb2 ^ 2 * h)) * h ^ 4 := by ring
  rw [hfin]
  unfold NL3.Cloc
  gcongr


/-- the φ-bounds used by the ETDRK3/4 proofs, for `z = λh`, `0 ≤ h ≤ T`, `W = e^{ωT}` -/
theorem etd_phi_bounds (l : ℂ) (ω h T : ℝ) (hω : 0 ≤ ω) (hl : l.re ≤ ω) (hh : 0 ≤ h) (hhT : h ≤ T) :
    ‖phi1e (l * h)‖ ≤ Real.exp (ω * T) ∧ ‖phi2e (l * h)‖ ≤ Real.exp (ω * T) / 2 ∧
    ‖phi3e (l * h)‖ ≤ Real.exp (ω * T) / 6 ∧ ‖phiE 4 (l * h)‖ ≤ Real.exp (ω * T) / 24 ∧
    ‖phi1e (l * h / 2)‖ ≤ Real.exp (ω * T) ∧ ‖phi2e (l * h / 2)‖ ≤ Real.exp (ω * T) / 2 ∧
    ‖phiE 3 (l * h / 2)‖ ≤ Real.exp (ω * T) / 6 ∧
    ‖Complex.exp (l * h)‖ ≤ Real.exp (ω * T) ∧ ‖Complex.exp (l * h / 2)‖ ≤ Real.exp (ω * T) := by
  have hwz := max_exp_le_W l ω h T hω hl hh hhT
  have hwz2 := max_exp_le_W_half l ω h T hω hl hh hhT
  refine ⟨?_, ?_, ?_, ?_, ?_, ?_, ?_, norm_exp_le_W _ _ hwz, norm_exp_le_W _ _ hwz2⟩
  · have := norm_phiE_le_W 0 (l * h) _ hwz; rw [phiE_one] at this; simpa using this
  · have := norm_phiE_le_W 1 (l * h) _ hwz; rw [phiE_two] at this; simpa [Nat.factorial] using this
  · have := norm_phiE_le_W 2 (l * h) _ hwz; rw [phiE_three] at this
    norm_num [Nat.factorial] at this; exact this
  · have := norm_phiE_le_W 3 (l * h) _ hwz
    norm_num [Nat.factorial] at this; exact this
  · have := norm_phiE_le_W 0 (l * h / 2) _ hwz2; rw [phiE_one] at this; simpa using this
  · have := norm_phiE_le_W 1 (l * h / 2) _ hwz2; rw [phiE_two] at this; simpa [Nat.factorial] using this
  · have := norm_phiE_le_W 2 (l * h / 2) _ hwz2
    norm_num [Nat.factorial] at this; exact this

/-- the φ-difference bounds (this is where `‖λ‖` enters) -/
theorem etd3_phi_diffs (l : ℂ) (ω h T : ℝ) (hω : 0 ≤ ω) (hl : l.re ≤ ω) (hh : 0 ≤ h) (hhT : h ≤ T) :
    ‖phi2e (l * h / 2) - 1 / 2‖ ≤ ‖l‖ * h * Real.exp (ω * T) / 12 ∧
    ‖phi1e (l * h) - phi2e (l * h) - 1 / 2‖ ≤ ‖l‖ * h * (2 * Real.exp (ω * T) / 3) ∧
    ‖(4 * phi3e (l * h) - phi2e (l * h)) - (phi2e (l * h) - 2 * phi3e (l * h))‖
      ≤ ‖l‖ * h * (7 * Real.exp (ω * T) / 12) ∧
    ‖4 * phi2e (l * h) - 8 * phi3e (l * h)‖ ≤ 10 * Real.exp (ω * T) / 3 ∧
    ‖4 * phi3e (l * h) - phi2e (l * h)‖ ≤ 7 * Real.exp (ω * T) / 6 ∧
    ‖phi1e (l * h) - 3 * phi2e (l * h) + 4 * phi3e (l * h)‖ ≤ 19 * Real.exp (ω * T) / 6 := by
  obtain ⟨bp1, bp2, bp3, bp4, bq1, bq2, bq3, bE, bEh⟩ := etd_phi_bounds l ω h T hω hl hh hhT
  have hW0 : 0 ≤ Real.exp (ω * T) := (Real.exp_pos _).le
  have hzn : ‖l * (h : ℂ)‖ = ‖l‖ * h := by
    rw [norm_mul, Complex.norm_real, Real.norm_eq_abs, abs_of_nonneg hh]
  have hzn2 : ‖l * (h : ℂ) / 2‖ = ‖l‖ * h / 2 := by rw [norm_div, hzn]; simp
  have hlh0 : 0 ≤ ‖l‖ * h := mul_nonneg (norm_nonneg l) hh
  have b6 : ‖(6 : ℂ)‖ ≤ 6 := by simp
  have b4 : ‖(4 : ℂ)‖ ≤ 4 := by simp
  have b8 : ‖(8 : ℂ)‖ ≤ 8 := by simp
  have b3 : ‖(3 : ℂ)‖ ≤ 3 := by simp
  have b2 : ‖(2 : ℂ)‖ ≤ 2 := by simp
  refine ⟨?_, ?_, ?_, ?_, ?_, ?_⟩
  · rw [phi2e_sub_half]
    refine (nrm_mul hzn2.le bq3 (by positivity)).trans (le_of_eq ?_); ring
  · rw [phi12_sub_half]
    refine (nrm_mul hzn.le (nrm_sub bp2 bp3) hlh0).trans (le_of_eq ?_); ring
  · rw [phi_gamma_sub_beta]
    refine (nrm_mul hzn.le (nrm_sub (nrm_mul b6 bp4 (by norm_num)) (nrm_mul b2 bp3 (by norm_num)))
      hlh0).trans (le_of_eq ?_)
    ring
  · exact (nrm_sub (nrm_mul b4 bp2 (by norm_num)) (nrm_mul b8 bp3 (by norm_num))).trans
      (le_of_eq (by ring))
  · exact (nrm_sub (nrm_mul b4 bp3 (by norm_num)) bp2).trans (le_of_eq (by ring))
  · exact (nrm_add (nrm_sub bp1 (nrm_mul b3 bp2 (by norm_num))) (nrm_mul b4 bp3 (by norm_num))).trans
      (le_of_eq (by ring))

/-- second-order Taylor bound of `f` from the third-order hypothesis -/
theorem tay2_of_tay3 (N : ℂ → ℂ) (u f1 f2 : ℝ → ℂ) (T M2 G3 : ℝ) (hG3 : 0 ≤ G3)
    (hM2 : ∀ t ∈ Set.Icc (0 : ℝ) T, ‖f2 t‖ ≤ M2)
    (hTay : ∀ t s : ℝ, 0 ≤ t → 0 ≤ s → t + s ≤ T →
      ‖N (u (t + s)) - N (u t) - (s : ℂ) * f1 t - (s : ℂ) ^ 2 / 2 * f2 t‖ ≤ G3 * s ^ 3 / 6)
    (t s : ℝ) (ht : 0 ≤ t) (hs : 0 ≤ s) (hts : t + s ≤ T) :
    ‖N (u (t + s)) - N (u t) - (s : ℂ) * f1 t‖ ≤ (M2 + G3 * T / 3) * s ^ 2 / 2 := by
  have htmem : t ∈ Set.Icc (0 : ℝ) T := ⟨ht, by linarith⟩
  have h1 := hTay t s ht hs hts
  have h2 : ‖(s : ℂ) ^ 2 / 2 * f2 t‖ ≤ s ^ 2 / 2 * M2 := by
    refine nrm_mul ?_ (hM2 t htmem) (by positivity)
    rw [norm_div, norm_pow, Complex.norm_real, Real.norm_eq_abs, abs_of_nonneg hs]; simp
  have h3 : N (u (t + s)) - N (u t) - (s : ℂ) * f1 t
      = (N (u (t + s)) - N (u t) - (s : ℂ) * f1 t - (s : ℂ) ^ 2 / 2 * f2 t)
        + (s : ℂ) ^ 2 / 2 * f2 t := by ring
  rw [h3]
  refine (nrm_add h1 h2).trans ?_
  have hsT : s ≤ T := by linarith
  have h4 : s ^ 3 ≤ T * s ^ 2 := by
    calc s ^ 3 = s * s ^ 2 := by ring
      _ ≤ T * s ^ 2 := mul_le_mul_of_nonneg_right hsT (sq_nonneg s)
  have h5 : G3 * s ^ 3 ≤ G3 * (T * s ^ 2) := mul_le_mul_of_nonneg_left h4 hG3
  linarith

/-- **T8, ETDRK3: local error `O(h⁴)`** of one regenerated `E3step` with the exact coefficients, started on the
    exact solution, for a nonlinear `N` (classical order; the constant involves `‖λ‖`) -/
theorem etd3_local_error (l : ℂ) (N : ℂ → ℂ) (K : NNReal) (hN : LipschitzWith K N) (u : ℝ → ℂ)
    (T ω M1 M2 G3 H HL : ℝ) (hω : 0 ≤ ω) (hl : l.re ≤ ω) (hG3 : 0 ≤ G3) (hH : 0 ≤ H) (hHL : 0 ≤ HL)
    (hu : ∀ t ∈ Set.Icc (0 : ℝ) T, HasDerivAt u (l * u t + N (u t)) t)
    (f1 f2 : ℝ → ℂ) (hM1 : ∀ t ∈ Set.Icc (0 : ℝ) T, ‖f1 t‖ ≤ M1)
    (hM2 : ∀ t ∈ Set.Icc (0 : ℝ) T, ‖f2 t‖ ≤ M2)
    (hTay : ∀ t s : ℝ, 0 ≤ t → 0 ≤ s → t + s ≤ T →
      ‖N (u (t + s)) - N (u t) - (s : ℂ) * f1 t - (s : ℂ) ^ 2 / 2 * f2 t‖ ≤ G3 * s ^ 3 / 6)
    (L : ℝ → ℂ →ₗ[ℝ] ℂ)
    (hLK : ∀ τ ∈ Set.Icc (0 : ℝ) T, ∀ v, ‖L τ v‖ ≤ K * ‖v‖)
    (hLin : ∀ τ ∈ Set.Icc (0 : ℝ) T, ∀ y, ‖N y - N (u τ) - L τ (y - u τ)‖ ≤ H / 2 * ‖y - u τ‖ ^ 2)
    (hLlip : ∀ τ ∈ Set.Icc (0 : ℝ) T, ∀ τ' ∈ Set.Icc (0 : ℝ) T, ∀ v,
      ‖L τ v - L τ' v‖ ≤ HL * |τ - τ'| * ‖v‖)
    (t h : ℝ) (ht : 0 ≤ t) (hh : 0 ≤ h) (hth : t + h ≤ T) :
    ‖u (t + h) - E3step (Complex.exp (l * h)) (Complex.exp (l * h / 2)) (h * (phi1e (l * h / 2) / 2))
        (h * phi1e (l * h)) (h * (phi1e (l * h) - 3 * phi2e (l * h) + 4 * phi3e (l * h)))
        (h * (4 * phi2e (l * h) - 8 * phi3e (l * h))) (h * (4 * phi3e (l * h) - phi2e (l * h))) N (u t)‖
      ≤ NL3.Cloc ⟨K, M1, M2, G3, H, HL, ‖l‖, ω, T⟩ * h ^ 4 := by
  have hT : 0 ≤ T := by linarith
  have hhT : h ≤ T := by linarith
  have h0mem : (0 : ℝ) ∈ Set.Icc (0 : ℝ) T := ⟨le_rfl, hT⟩
  have htmem : t ∈ Set.Icc (0 : ℝ) T := ⟨ht, by linarith⟩
  have hthmem : t + h / 2 ∈ Set.Icc (0 : ℝ) T := ⟨by linarith, by linarith⟩
  have ht1mem : t + h ∈ Set.Icc (0 : ℝ) T := ⟨by linarith, hth⟩
  have hM10 : 0 ≤ M1 := (norm_nonneg _).trans (hM1 0 h0mem)
  have hM20 : 0 ≤ M2 := (norm_nonneg _).trans (hM2 0 h0mem)
  obtain ⟨bp1, bp2, bp3, bp4, bq1, bq2, bq3, bE, bEh⟩ := etd_phi_bounds l ω h T hω hl hh hhT
  obtain ⟨d_q2, d_p12, d_gb, b4β, bγ, bα⟩ := etd3_phi_diffs l ω h T hω hl hh hhT
  have tay2 := tay2_of_tay3 N u f1 f2 T M2 G3 hG3 hM2 hTay
  have hsub : ∀ k : ℝ, 0 ≤ k → t + k ≤ T → Set.Icc t (t + k) ⊆ Set.Icc (0 : ℝ) T :=
    fun k hk hkT s hs => ⟨ht.trans hs.1, hs.2.trans hkT⟩
  have hfc : ∀ k : ℝ, 0 ≤ k → t + k ≤ T → ContinuousOn (fun s => N (u s)) (Set.Icc t (t + k)) :=
    fun k hk hkT => hN.continuous.comp_continuousOn
      (fun s hs => (hu s (hsub k hk hkT hs)).continuousAt.continuousWithinAt)
  have hT2 : ∀ k : ℝ, 0 ≤ k → t + k ≤ T → ∀ s ∈ Set.Icc t (t + k),
      ‖N (u s) - N (u t) - ((s - t : ℝ) : ℂ) * f1 t‖ ≤ (M2 + G3 * T / 3) * (s - t) ^ 2 / 2 := by
    intro k hk hkT s hs
    have := tay2 t (s - t) ht (by linarith [hs.1]) (by linarith [hs.2])
    rwa [show t + (s - t) = s by ring] at this
  -- exact solution at t + h/2 and t + h
  have Fa := etd2_defect l ω (M2 + G3 * T / 3) u (fun s => N (u s)) t (t + h / 2) (by linarith) hω hl
    (fun s hs => hu s (hsub (h / 2) (by linarith) (by linarith) hs))
    (hfc (h / 2) (by linarith) (by linarith)) (f1 t) (hT2 (h / 2) (by linarith) (by linarith))
  rw [show t + h / 2 - t = h / 2 by ring] at Fa
  have ecast : l * ((h / 2 : ℝ) : ℂ) = l * h / 2 := by push_cast; ring
  have ecast' : ((h / 2 : ℝ) : ℂ) = (h : ℂ) / 2 := by push_cast; ring
  rw [ecast, ecast'] at Fa
  have Fb := etd2_defect l ω (M2 + G3 * T / 3) u (fun s => N (u s)) t (t + h) (by linarith) hω hl
    (fun s hs => hu s (hsub h hh hth hs)) (hfc h hh hth) (f1 t) (hT2 h hh hth)
  rw [show t + h - t = h by ring] at Fb
  have F3 := etd_defect3 l ω G3 u (fun s => N (u s)) t (t + h) (by linarith) hω hl
    (fun s hs => hu s (hsub h hh hth hs)) (hfc h hh hth) (f1 t) (f2 t)
    (fun s hs => by
      have := hTay t (s - t) ht (by linarith [hs.1]) (by linarith [hs.2])
      rwa [show t + (s - t) = s by ring] at this)
  rw [show t + h - t = h by ring] at F3
  have Tσ := tay2 t (h / 2) ht (by linarith) (by linarith)
  have Tτh := hTay t (h / 2) ht (by linarith) (by linarith)
  have Tτe := hTay t h ht hh hth
  rw [ecast'] at Tσ Tτh
  have hexpW : Real.exp (ω * h) ≤ Real.exp (ω * T) :=
    Real.exp_le_exp.mpr (mul_le_mul_of_nonneg_left hhT hω)
  have hexpW2 : Real.exp (ω * (h / 2)) ≤ Real.exp (ω * T) :=
    Real.exp_le_exp.mpr (mul_le_mul_of_nonneg_left (by linarith) hω)
  have hG20 : 0 ≤ M2 + G3 * T / 3 := by positivity
  rw [E3step_eq_stages]
  refine etd3_core ⟨K, M1, M2, G3, H, HL, ‖l‖, ω, T⟩ N (L (t + h / 2)) (L (t + h)) h K.coe_nonneg hM10 hM20
    hG3 hH hHL (norm_nonneg l) hω hT hh hhT
    (fun x y => by have := hN.dist_le_mul x y; rwa [dist_eq_norm, dist_eq_norm] at this)
    (u t) (u (t + h / 2)) (u (t + h)) (f1 t) (f2 t) _ _ _ _ _ _ _ bp1 d_q2 d_p12 d_gb b4β bγ (hM1 t htmem)
    ?_ ?_ ?_ ?_ ?_ Tτe (hLK _ hthmem) (hLK _ ht1mem) (hLin _ hthmem) (hLin _ ht1mem) ?_
  · refine Fa.trans ?_
    show _ ≤ Real.exp (ω * T) * (M2 + G3 * T / 3) * h ^ 3 / 48
    calc Real.exp (ω * (h / 2)) * (M2 + G3 * T / 3) * (h / 2) ^ 3 / 6
        ≤ Real.exp (ω * T) * (M2 + G3 * T / 3) * (h / 2) ^ 3 / 6 := by gcongr
      _ = Real.exp (ω * T) * (M2 + G3 * T / 3) * h ^ 3 / 48 := by ring
  · refine Fb.trans ?_
    show _ ≤ Real.exp (ω * T) * (M2 + G3 * T / 3) * h ^ 3 / 6
    gcongr
  · refine F3.trans ?_
    show _ ≤ Real.exp (ω * T) * G3 * h ^ 4 / 24
    gcongr
  · refine Tσ.trans (le_of_eq ?_)
    show _ = (M2 + G3 * T / 3) * h ^ 2 / 8
    ring
  · refine Tτh.trans (le_of_eq ?_)
    show _ = G3 * h ^ 3 / 48
    ring
  · intro v
    have := hLlip (t + h) ht1mem (t + h / 2) hthmem v
    rwa [show t + h - (t + h / 2) = h / 2 by ring, abs_of_nonneg (by linarith)] at this


/-- **T8, ETDRK3: stability** of the step map (`0 ≤ dt ≤ T`) -/
theorem etd3_stable (l : ℂ) (N : ℂ → ℂ) (K : NNReal) (hN : LipschitzWith K N) (ω T dt : ℝ)
    (hω : 0 ≤ ω) (hl : l.re ≤ ω) (hdt : 0 ≤ dt) (hdtT : dt ≤ T) (x y : ℂ) :
    ‖E3step (Complex.exp (l * dt)) (Complex.exp (l * dt / 2)) (dt * (phi1e (l * dt / 2) / 2))
          (dt * phi1e (l * dt)) (dt * (phi1e (l * dt) - 3 * phi2e (l * dt) + 4 * phi3e (l * dt)))
          (dt * (4 * phi2e (l * dt) - 8 * phi3e (l * dt))) (dt * (4 * phi3e (l * dt) - phi2e (l * dt))) N x
        - E3step (Complex.exp (l * dt)) (Complex.exp (l * dt / 2)) (dt * (phi1e (l * dt / 2) / 2))
          (dt * phi1e (l * dt)) (dt * (phi1e (l * dt) - 3 * phi2e (l * dt) + 4 * phi3e (l * dt)))
          (dt * (4 * phi2e (l * dt) - 8 * phi3e (l * dt))) (dt * (4 * phi3e (l * dt) - phi2e (l * dt))) N y‖
      ≤ (Real.exp (ω * dt) + dt * etd3Θ K ω T) * ‖x - y‖ := by
  have hT : 0 ≤ T := hdt.trans hdtT
  have hK0 : (0 : ℝ) ≤ K := K.coe_nonneg
  obtain ⟨bp1, bp2, bp3, bp4, bq1, bq2, bq3, bE, bEh⟩ := etd_phi_bounds l ω dt T hω hl hdt hdtT
  obtain ⟨d_q2, d_p12, d_gb, b4β, bγ, bα⟩ := etd3_phi_diffs l ω dt T hω hl hdt hdtT
  have bE' : ‖Complex.exp (l * dt)‖ ≤ Real.exp (ω * dt) := by
    rw [Complex.norm_exp, Complex.re_mul_ofReal]
    exact Real.exp_le_exp.mpr (mul_le_mul_of_nonneg_right hl hdt)
  set W := Real.exp (ω * T) with hW
  have hW0 : 0 ≤ W := (Real.exp_pos _).le
  have hlip : ∀ x y, ‖N x - N y‖ ≤ K * ‖x - y‖ := fun x y => by
    have := hN.dist_le_mul x y; rwa [dist_eq_norm, dist_eq_norm] at this
  rw [E3step_eq_stages, E3step_eq_stages]
  generalize Complex.exp (l * dt) = E at *
  generalize Complex.exp (l * dt / 2) = Eh at *
  generalize phi1e (l * dt) = p1 at *
  generalize phi2e (l * dt) = p2 at *
  generalize phi3e (l * dt) = p3 at *
  generalize phi1e (l * dt / 2) = q1 at *
  set δ := ‖x - y‖ with hδ
  have hδ0 : 0 ≤ δ := norm_nonneg _
  have bdt : ‖(dt : ℂ)‖ ≤ dt := nrm_ofReal hdt le_rfl
  have b2 : ‖(2 : ℂ)‖ ≤ 2 := by simp
  have bq1h : ‖q1 / 2‖ ≤ W / 2 := by
    rw [norm_div]; simpa using div_le_div_of_nonneg_right bq1 (by norm_num : (0 : ℝ) ≤ 2)
  -- stage a
  obtain ⟨ax, hax⟩ : ∃ a, a = Eh * x + (dt : ℂ) * (q1 / 2) * N x := ⟨_, rfl⟩
  obtain ⟨ay, hay⟩ : ∃ a, a = Eh * y + (dt : ℂ) * (q1 / 2) * N y := ⟨_, rfl⟩
  rw [← hax, ← hay]
  have na : ‖ax - ay‖ ≤ etd3Aa K ω T * δ := by
    have e : ax - ay = Eh * (x - y) + (dt : ℂ) * (q1 / 2) * (N x - N y) := by rw [hax, hay]; ring
    rw [e]
    refine (nrm_add (nrm_mul bEh le_rfl hW0) (nrm_mul (nrm_mul bdt bq1h hdt) (hlip x y)
      (by positivity))).trans ?_
    unfold etd3Aa
    have : dt * (W / 2) * (K * δ) ≤ T * (W / 2) * (K * δ) := by gcongr
    calc W * δ + dt * (W / 2) * (K * δ) ≤ W * δ + T * (W / 2) * (K * δ) := by linarith
      _ = W * (1 + K * T / 2) * δ := by ring
  have hAa0 : 0 ≤ etd3Aa K ω T := by unfold etd3Aa; positivity
  have nNa : ‖N ax - N ay‖ ≤ K * (etd3Aa K ω T * δ) :=
    (hlip ax ay).trans (mul_le_mul_of_nonneg_left na hK0)
  -- stage b
  obtain ⟨bx, hbx⟩ : ∃ b, b = E * x + (dt : ℂ) * p1 * (2 * N ax - N x) := ⟨_, rfl⟩
  obtain ⟨bY, hby⟩ : ∃ b, b = E * y + (dt : ℂ) * p1 * (2 * N ay - N y) := ⟨_, rfl⟩
  rw [← hbx, ← hby]
  have nb : ‖bx - bY‖ ≤ etd3Ab K ω T * δ := by
    have e : bx - bY = E * (x - y) + (dt : ℂ) * p1 * (2 * (N ax - N ay) - (N x - N y)) := by
      rw [hbx, hby]; ring
    rw [e]
    refine (nrm_add (nrm_mul bE le_rfl hW0) (nrm_mul (nrm_mul bdt bp1 hdt)
      (nrm_sub (nrm_mul b2 nNa (by norm_num)) (hlip x y)) (by positivity))).trans ?_
    unfold etd3Ab
    have : dt * W * (2 * (K * (etd3Aa K ω T * δ)) + K * δ)
        ≤ T * W * (2 * (K * (etd3Aa K ω T * δ)) + K * δ) := by gcongr
    calc W * δ + dt * W * (2 * (K * (etd3Aa K ω T * δ)) + K * δ)
        ≤ W * δ + T * W * (2 * (K * (etd3Aa K ω T * δ)) + K * δ) := by linarith
      _ = W * (1 + T * K * (2 * etd3Aa K ω T + 1)) * δ := by ring
  have hAb0 : 0 ≤ etd3Ab K ω T := by unfold etd3Ab; positivity
  have nNb : ‖N bx - N bY‖ ≤ K * (etd3Ab K ω T * δ) :=
    (hlip bx bY).trans (mul_le_mul_of_nonneg_left nb hK0)
  -- final stage
  have e : E * x + (dt : ℂ) * (p1 - 3 * p2 + 4 * p3) * N x + (dt : ℂ) * (4 * p2 - 8 * p3) * N ax
        + (dt : ℂ) * (4 * p3 - p2) * N bx
      - (E * y + (dt : ℂ) * (p1 - 3 * p2 + 4 * p3) * N y + (dt : ℂ) * (4 * p2 - 8 * p3) * N ay
        + (dt : ℂ) * (4 * p3 - p2) * N bY)
      = E * (x - y) + (dt : ℂ) * ((p1 - 3 * p2 + 4 * p3) * (N x - N y)
          + (4 * p2 - 8 * p3) * (N ax - N ay) + (4 * p3 - p2) * (N bx - N bY)) := by ring
  rw [e]
  refine (nrm_add (nrm_mul bE' le_rfl (Real.exp_pos _).le) (nrm_mul bdt
    (nrm_add (nrm_add (nrm_mul bα (hlip x y) (by positivity)) (nrm_mul b4β nNa (by positivity)))
      (nrm_mul bγ nNb (by positivity))) hdt)).trans (le_of_eq ?_)
  unfold etd3Θ
  ring

/-- **T8, ETDRK3: global error `O(dt³)`** for a nonlinear `N` (classical order) -/
theorem etd3_global_error (l : ℂ) (N : ℂ → ℂ) (K : NNReal) (hN : LipschitzWith K N) (u : ℝ → ℂ)
    (T ω M1 M2 G3 H HL : ℝ) (hω : 0 ≤ ω) (hl : l.re ≤ ω) (hG3 : 0 ≤ G3) (hH : 0 ≤ H) (hHL : 0 ≤ HL)
    (hu : ∀ t ∈ Set.Icc (0 : ℝ) T, HasDerivAt u (l * u t + N (u t)) t)
    (f1 f2 : ℝ → ℂ) (hM1 : ∀ t ∈ Set.Icc (0 : ℝ) T, ‖f1 t‖ ≤ M1)
    (hM2 : ∀ t ∈ Set.Icc (0 : ℝ) T, ‖f2 t‖ ≤ M2)
    (hTay : ∀ t s : ℝ, 0 ≤ t → 0 ≤ s → t + s ≤ T →
      ‖N (u (t + s)) - N (u t) - (s : ℂ) * f1 t - (s : ℂ) ^ 2 / 2 * f2 t‖ ≤ G3 * s ^ 3 / 6)
    (L : ℝ → ℂ →ₗ[ℝ] ℂ)
    (hLK : ∀ τ ∈ Set.Icc (0 : ℝ) T, ∀ v, ‖L τ v‖ ≤ K * ‖v‖)
    (hLin : ∀ τ ∈ Set.Icc (0 : ℝ) T, ∀ y, ‖N y - N (u τ) - L τ (y - u τ)‖ ≤ H / 2 * ‖y - u τ‖ ^ 2)
    (hLlip : ∀ τ ∈ Set.Icc (0 : ℝ) T, ∀ τ' ∈ Set.Icc (0 : ℝ) T, ∀ v,
      ‖L τ v - L τ' v‖ ≤ HL * |τ - τ'| * ‖v‖)
    (n : ℕ) (dt : ℝ) (hdt : 0 ≤ dt) (hn : n * dt ≤ T) :
    ‖u (n * dt) - (E3step (Complex.exp (l * dt)) (Complex.exp (l * dt / 2)) (dt * (phi1e (l * dt / 2) / 2))
        (dt * phi1e (l * dt)) (dt * (phi1e (l * dt) - 3 * phi2e (l * dt) + 4 * phi3e (l * dt)))
        (dt * (4 * phi2e (l * dt) - 8 * phi3e (l * dt))) (dt * (4 * phi3e (l * dt) - phi2e (l * dt)))
        N)^[n] (u 0)‖
      ≤ NL3.Cglob ⟨K, M1, M2, G3, H, HL, ‖l‖, ω, T⟩ * dt ^ 3 := by
  have hT : 0 ≤ T := le_trans (mul_nonneg (Nat.cast_nonneg n) hdt) hn
  have h0mem : (0 : ℝ) ∈ Set.Icc (0 : ℝ) T := ⟨le_rfl, hT⟩
  have hM10 : 0 ≤ M1 := (norm_nonneg _).trans (hM1 0 h0mem)
  have hM20 : 0 ≤ M2 := (norm_nonneg _).trans (hM2 0 h0mem)
  have hK0 : (0 : ℝ) ≤ K := K.coe_nonneg
  set c : NL3 := ⟨K, M1, M2, G3, H, HL, ‖l‖, ω, T⟩ with hc
  have hCl0 : 0 ≤ c.Cloc := by
    have hW0 : 0 ≤ c.W := (Real.exp_pos _).le
    have hG20 : 0 ≤ c.G2 := by unfold NL3.G2; positivity
    have hEA0 : 0 ≤ c.EA := by unfold NL3.EA; positivity
    have hEa20 : 0 ≤ c.Ea2 := by unfold NL3.Ea2; positivity
    have hEB0 : 0 ≤ c.EB := by unfold NL3.EB; positivity
    have hEb20 : 0 ≤ c.Eb2 := by unfold NL3.Eb2; positivity
    have h1 : (0 : ℝ) ≤ c.K := hK0
    have h2 : 0 ≤ c.M1 := hM10
    have h3 : 0 ≤ c.G3 := hG3
    have h4 : 0 ≤ c.H := hH
    have h5 : 0 ≤ c.HL := hHL
    have h6 : 0 ≤ c.Lam := norm_nonneg l
    have h7 : 0 ≤ c.T := hT
    unfold NL3.Cloc; positivity
  have hΘ0 : 0 ≤ etd3Θ K ω T := by unfold etd3Θ etd3Ab etd3Aa; positivity
  rcases Nat.eq_zero_or_pos n with rfl | hnpos
  · simp only [Nat.cast_zero, zero_mul, Function.iterate_zero, id_eq, sub_self, norm_zero]
    unfold NL3.Cglob; positivity
  have hn1 : (1 : ℝ) ≤ n := by exact_mod_cast hnpos
  have hdtT : dt ≤ T := le_trans (by nlinarith) hn
  have hA1 : 1 ≤ Real.exp (ω * dt) + dt * etd3Θ K ω T := by
    have := Real.one_le_exp (mul_nonneg hω hdt)
    have := mul_nonneg hdt hΘ0
    linarith
  have hB0 : 0 ≤ c.Cloc * dt ^ 4 := by positivity
  have hfan := fan _ (fun k : ℕ => u (k * dt)) _ _ hA1 hB0 n
    (fun k hk => by
      have hk1 : ((k + 1 : ℕ) : ℝ) * dt ≤ T := by
        have : ((k + 1 : ℕ) : ℝ) ≤ n := by exact_mod_cast hk
        exact (mul_le_mul_of_nonneg_right this hdt).trans hn
      have hkt : ((k + 1 : ℕ) : ℝ) * dt = k * dt + dt := by push_cast; ring
      have hkdt : 0 ≤ (k : ℝ) * dt := mul_nonneg (Nat.cast_nonneg k) hdt
      have hloc := etd3_local_error l N K hN u T ω M1 M2 G3 H HL hω hl hG3 hH hHL hu f1 f2 hM1 hM2 hTay L
        hLK hLin hLlip (k * dt) dt hkdt hdt (by rw [← hkt]; exact hk1)
      simp only [hkt]
      exact hloc)
    (fun x y => etd3_stable l N K hN ω T dt hω hl hdt hdtT x y)
  simp only [Nat.cast_zero, zero_mul] at hfan
  refine hfan.trans ?_
  -- arithmetic
  have hAexp : Real.exp (ω * dt) + dt * etd3Θ K ω T ≤ Real.exp ((ω + etd3Θ K ω T) * dt) := by
    have h1 : 1 ≤ Real.exp (ω * dt) := Real.one_le_exp (mul_nonneg hω hdt)
    have h2 : 1 + dt * etd3Θ K ω T ≤ Real.exp (etd3Θ K ω T * dt) := by
      have := Real.add_one_le_exp (etd3Θ K ω T * dt); linarith
    have h3 : 0 ≤ dt * etd3Θ K ω T := mul_nonneg hdt hΘ0
    calc Real.exp (ω * dt) + dt * etd3Θ K ω T
        ≤ Real.exp (ω * dt) * (1 + dt * etd3Θ K ω T) := by nlinarith
      _ ≤ Real.exp (ω * dt) * Real.exp (etd3Θ K ω T * dt) :=
          mul_le_mul_of_nonneg_left h2 (Real.exp_pos _).le
      _ = Real.exp ((ω + etd3Θ K ω T) * dt) := by rw [← Real.exp_add]; congr 1; ring
  have hAn : (Real.exp (ω * dt) + dt * etd3Θ K ω T) ^ n ≤ Real.exp ((ω + etd3Θ K ω T) * T) := by
    calc (Real.exp (ω * dt) + dt * etd3Θ K ω T) ^ n ≤ Real.exp ((ω + etd3Θ K ω T) * dt) ^ n :=
          pow_le_pow_left₀ (by linarith) hAexp n
      _ = Real.exp (n * ((ω + etd3Θ K ω T) * dt)) := by rw [Real.exp_nat_mul]
      _ ≤ Real.exp ((ω + etd3Θ K ω T) * T) := by
          refine Real.exp_le_exp.mpr ?_
          calc (n : ℝ) * ((ω + etd3Θ K ω T) * dt) = (ω + etd3Θ K ω T) * (n * dt) := by ring
            _ ≤ (ω + etd3Θ K ω T) * T := mul_le_mul_of_nonneg_left hn (by positivity)
  calc (n : ℝ) * (c.Cloc * dt ^ 4) * (Real.exp (ω * dt) + dt * etd3Θ K ω T) ^ n
      = (n * dt) * (c.Cloc * dt ^ 3) * (Real.exp (ω * dt) + dt * etd3Θ K ω T) ^ n := by ring
    _ ≤ T * (c.Cloc * dt ^ 3) * Real.exp ((ω + etd3Θ K ω T) * T) := by gcongr
    _ = NL3.Cglob c * dt ^ 3 := by
        have : NL3.Cglob c = T * c.Cloc * Real.exp ((ω + etd3Θ K ω T) * T) := rfl
        rw [this]; ring


/-! ### non-vacuity: `λ = −100`, `N v = i·v` (so `L τ v = i·v`, `H = HL = 0`), `u t = e^{(−100+i)t}`,
    `f = i u`, `f₁ = i c u`, `f₂ = i c² u`, `G₃ = 101³` -/
example : ∃ (l : ℂ) (N : ℂ → ℂ) (K : NNReal) (u f1 f2 : ℝ → ℂ) (L : ℝ → ℂ →ₗ[ℝ] ℂ)
    (T ω M1 M2 G3 H HL : ℝ), LipschitzWith K N ∧ 0 ≤ ω ∧ l.re ≤ ω ∧ 0 ≤ G3 ∧ 0 ≤ H ∧ 0 ≤ HL ∧ 0 < T ∧
    (∀ t ∈ Set.Icc (0 : ℝ) T, HasDerivAt u (l * u t + N (u t)) t) ∧
    (∀ t ∈ Set.Icc (0 : ℝ) T, ‖f1 t‖ ≤ M1) ∧ (∀ t ∈ Set.Icc (0 : ℝ) T, ‖f2 t‖ ≤ M2) ∧
    (∀ t s : ℝ, 0 ≤ t → 0 ≤ s → t + s ≤ T →
      ‖N (u (t + s)) - N (u t) - (s : ℂ) * f1 t - (s : ℂ) ^ 2 / 2 * f2 t‖ ≤ G3 * s ^ 3 / 6) ∧
    (∀ τ ∈ Set.Icc (0 : ℝ) T, ∀ v, ‖L τ v‖ ≤ K * ‖v‖) ∧
    (∀ τ ∈ Set.Icc (0 : ℝ) T, ∀ y, ‖N y - N (u τ) - L τ (y - u τ)‖ ≤ H / 2 * ‖y - u τ‖ ^ 2) ∧
    (∀ τ ∈ Set.Icc (0 : ℝ) T, ∀ τ' ∈ Set.Icc (0 : ℝ) T, ∀ v,
      ‖L τ v - L τ' v‖ ≤ HL * |τ - τ'| * ‖v‖) := by
  set c : ℂ := -100 + Complex.I with hc
  have hcn : ‖c‖ ≤ 101 := by
    refine (norm_add_le _ _).trans ?_
    simp; norm_num
  have hexp : ∀ t : ℝ, 0 ≤ t → ‖Complex.exp (c * t)‖ ≤ 1 := by
    intro t ht
    rw [Complex.norm_exp, Real.exp_le_one_iff]
    simp [hc]; nlinarith
  have hder : ∀ t : ℝ, HasDerivAt (fun t : ℝ => Complex.exp (c * t)) (c * Complex.exp (c * t)) t :=
    fun t => (hasDerivAt_exp_mul c t).congr_deriv (by ring)
  refine ⟨-100, fun v => Complex.I * v, 1, fun t => Complex.exp (c * t),
    fun t => Complex.I * (c * Complex.exp (c * t)), fun t => Complex.I * (c * (c * Complex.exp (c * t))),
    fun _ => LinearMap.mulLeft ℝ Complex.I, 1, 0, 101, 101 ^ 2, 101 ^ 3, 0, 0,
    ?_, le_rfl, by simp, by norm_num, le_rfl, le_rfl, one_pos, ?_, ?_, ?_, ?_, ?_, ?_, ?_⟩
  · refine LipschitzWith.of_dist_le_mul (fun x y => ?_)
    rw [dist_eq_norm, dist_eq_norm, ← mul_sub, norm_mul, Complex.norm_I]
    simp
  · intro t _
    exact (hder t).congr_deriv (by simp only [hc]; ring)
  · intro t ht
    rw [norm_mul, norm_mul, Complex.norm_I, one_mul]
    calc ‖c‖ * ‖Complex.exp (c * t)‖ ≤ 101 * 1 := by
          gcongr
          exact hexp t ht.1
      _ = 101 := by ring
  · intro t ht
    rw [norm_mul, norm_mul, norm_mul, Complex.norm_I, one_mul]
    calc ‖c‖ * (‖c‖ * ‖Complex.exp (c * t)‖) ≤ 101 * (101 * 1) := by
          gcongr
          exact hexp t ht.1
      _ = 101 ^ 2 := by norm_num
  · intro t s ht hs hts
    have hf : ∀ x ∈ Set.Icc (0 : ℝ) 1,
        HasDerivAt (fun x : ℝ => Complex.I * Complex.exp (c * x))
          (Complex.I * (c * Complex.exp (c * x))) x := fun x _ => (hder x).const_mul _
    have hf1 : ∀ x ∈ Set.Icc (0 : ℝ) 1,
        HasDerivAt (fun x : ℝ => Complex.I * (c * Complex.exp (c * x)))
          (Complex.I * (c * (c * Complex.exp (c * x)))) x :=
      fun x _ => ((hder x).const_mul _).const_mul _
    have hf2 : ∀ x : ℝ, HasDerivAt (fun x : ℝ => Complex.I * (c * (c * Complex.exp (c * x))))
        (Complex.I * (c * (c * (c * Complex.exp (c * x))))) x :=
      fun x => (((hder x).const_mul _).const_mul _).const_mul _
    have hbd : ∀ x ∈ Set.Icc (0 : ℝ) 1,
        ‖Complex.I * (c * (c * (c * Complex.exp (c * x))))‖ ≤ 101 ^ 3 := by
      intro x hx
      rw [norm_mul, norm_mul, norm_mul, norm_mul, Complex.norm_I, one_mul]
      calc ‖c‖ * (‖c‖ * (‖c‖ * ‖Complex.exp (c * x)‖)) ≤ 101 * (101 * (101 * 1)) := by
            gcongr
            exact hexp x hx.1
        _ = 101 ^ 3 := by norm_num
    have hLip : ∀ x ∈ Set.Icc (0 : ℝ) 1, ∀ y ∈ Set.Icc (0 : ℝ) 1,
        ‖Complex.I * (c * (c * Complex.exp (c * x))) - Complex.I * (c * (c * Complex.exp (c * y)))‖
          ≤ 101 ^ 3 * |x - y| := by
      intro x hx y hy
      have := Convex.norm_image_sub_le_of_norm_hasDerivWithin_le
        (f := fun x : ℝ => Complex.I * (c * (c * Complex.exp (c * x))))
        (f' := fun x : ℝ => Complex.I * (c * (c * (c * Complex.exp (c * x))))) (s := Set.Icc (0 : ℝ) 1)
        (fun z _ => (hf2 z).hasDerivWithinAt) hbd (convex_Icc 0 1) hy hx
      simpa [Real.norm_eq_abs] using this
    exact taylor2_of_lipschitz_deriv (fun x : ℝ => Complex.I * Complex.exp (c * x))
      (fun x : ℝ => Complex.I * (c * Complex.exp (c * x)))
      (fun x : ℝ => Complex.I * (c * (c * Complex.exp (c * x)))) 1 (101 ^ 3) hf hf1 hLip t s ht hs hts
  · intro τ _ v
    simp [LinearMap.mulLeft_apply]
  · intro τ _ y
    simp only [LinearMap.mulLeft_apply]
    have : Complex.I * y - Complex.I * Complex.exp (c * τ) - Complex.I * (y - Complex.exp (c * τ)) = 0 := by
      ring
    rw [this]; simp
  · intro τ _ τ' _ v
    simp


end Exponax.LinearOrder
end
