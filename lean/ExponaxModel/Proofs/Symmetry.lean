import ExponaxModel.Proofs.AliasMore
import ExponaxModel.Proofs.SymbolAlgebra
import ExponaxModel.Proofs.LoopsLemmas
import ExponaxModel.Proofs.EtdrkAlgebra
/-
C08 — "steppers commute with the symmetries of the periodic box".

Y1  translation (1-D, every `N ≥ 1`, every state, no band limitation):
    shift theorem forward and INVERSE, pointwise maps commute with `roll`,
    equivariance of the 1-D one-channel pseudo-spectral terms, and preservation of
    equivariance by the regenerated ETDRK stage formulas `E0step … E4step`.
Y2  axis permutations at the symbol level (general `D`).
Y3  embedding of a 1-D mode into `D` dimensions (`a₀` enters as `D·a₀`).

Everything is about the existing model definitions; the only new definitions are
abbreviations used to state the theorems (`shiftPhase`, `shiftSpec`, `liftTerm`, `embedCoefs`).
-/
set_option linter.unusedVariables false
namespace Exponax.Symmetry
open Exponax Exponax.Layout Exponax.Transform Exponax.DFT Exponax.Nonlin Exponax.Alias Finset
open Exponax.Gen.Etdrk

/-! ## Y1 (a) — the shift theorem, forward and inverse -/

/-- the phase `e^{-2πi h s/N}` that a roll by `s` grid points puts on stored mode `h` -/
noncomputable def shiftPhase (N : ℕ) (s : ℤ) (h : ℕ) : ℂ := twiddle N ((h : ℤ) * s)

/-- the stored half spectrum `c` with every mode multiplied by its shift phase -/
noncomputable def shiftSpec (N : ℕ) (s : ℤ) (c : Array ℂ) : Array ℂ :=
  tab (N / 2 + 1) (fun h => shiftPhase N s h * c.getD h 0)

theorem shiftPhase_eq_zpow (N : ℕ) (s : ℤ) (h : ℕ) : shiftPhase N s h = zeta N ^ ((h : ℤ) * s) := by
  rw [shiftPhase, twiddle_eq_zpow]

@[simp] theorem shiftPhase_zero_mode (N : ℕ) (s : ℤ) : shiftPhase N s 0 = 1 := by
  simp [shiftPhase_eq_zpow]

@[simp] theorem shiftPhase_zero_shift (N : ℕ) (h : ℕ) : shiftPhase N 0 h = 1 := by
  simp [shiftPhase_eq_zpow]

theorem norm_shiftPhase (N : ℕ) (s : ℤ) (h : ℕ) : ‖shiftPhase N s h‖ = 1 := norm_twiddle N _

theorem shiftPhase_ne_zero (N : ℕ) (s : ℤ) (h : ℕ) : shiftPhase N s h ≠ 0 := by
  intro h0
  have := norm_shiftPhase N s h
  rw [h0, norm_zero] at this
  exact zero_ne_one this

theorem shiftPhase_add (N : ℕ) (s t : ℤ) (h : ℕ) :
    shiftPhase N (s + t) h = shiftPhase N s h * shiftPhase N t h := by
  rw [shiftPhase, shiftPhase, shiftPhase, mul_add, twiddle_add]

/-- the phase only depends on the shift modulo `N` -/
theorem shiftPhase_periodic (N : ℕ) (s k : ℤ) (h : ℕ) :
    shiftPhase N (s + (N : ℤ) * k) h = shiftPhase N s h := by
  rw [shiftPhase, shiftPhase, show (h : ℤ) * (s + (N : ℤ) * k) = (h : ℤ) * s + (N : ℤ) * ((h : ℤ) * k) by ring,
    twiddle_periodic]

/-- for even `N` the Nyquist phase is the real number `(−1)^s`: it commutes with taking real
    parts in the c2r transform -/
theorem shiftPhase_nyquist (N : ℕ) (hN : 0 < N) (hev : N % 2 = 0) (s : ℤ) :
    shiftPhase N s (N / 2) = (-1) ^ s := by
  rw [shiftPhase_eq_zpow, zpow_mul]
  congr 1
  have hprim := zeta_isPrimitiveRoot N hN
  have h2 : (2 : ℕ) * (N / 2) = N := by omega
  have hsq : (zeta N ^ (((N / 2 : ℕ)) : ℤ)) ^ 2 = 1 := by
    rw [zpow_natCast, ← pow_mul, mul_comm, h2, zeta_pow_self]
  have hne : zeta N ^ (((N / 2 : ℕ)) : ℤ) ≠ 1 := by
    rw [zpow_natCast]
    intro h1
    have hd := (hprim.pow_eq_one_iff_dvd (N / 2)).mp h1
    have := Nat.le_of_dvd (by omega) hd
    omega
  rw [pow_two] at hsq
  rcases mul_self_eq_one_iff.mp hsq with h | h
  · exact absurd h hne
  · exact h

theorem shiftPhase_nyquist_im (N : ℕ) (hN : 0 < N) (hev : N % 2 = 0) (s : ℤ) :
    (shiftPhase N s (N / 2)).im = 0 := by
  rw [shiftPhase_nyquist N hN hev]
  have : ((-1 : ℂ)) ^ s = (((-1 : ℝ) ^ s : ℝ) : ℂ) := by push_cast; rfl
  rw [this, Complex.ofReal_im]

/-- arrays of the same size with the same entries are equal -/
theorem array_ext_getD (a b : Array ℂ) (n : ℕ) (ha : a.size = n) (hb : b.size = n)
    (h : ∀ j < n, a.getD j 0 = b.getD j 0) : a = b := by
  apply Array.ext (by omega)
  intro j h1 h2
  have := h j (by omega)
  simpa [Array.getD, h1, h2] using this

private theorem idx_lt (N : ℕ) (hN : 0 < N) (p : ℤ) : (p % (N : ℤ)).toNat < N := by
  have h1 : 0 ≤ p % (N : ℤ) := Int.emod_nonneg _ (by exact_mod_cast hN.ne')
  have h2 : p % (N : ℤ) < N := Int.emod_lt_of_pos _ (by exact_mod_cast hN)
  omega

private theorem idx_cast (N : ℕ) (hN : 0 < N) (p : ℤ) :
    (((p % (N : ℤ)).toNat : ℕ) : ℤ) = p % (N : ℤ) :=
  Int.toNat_of_nonneg (Int.emod_nonneg _ (by exact_mod_cast hN.ne'))

/-- entry `j` of the rolled array -/
theorem roll_getD (N : ℕ) (u : Array ℂ) (s : ℤ) (j : ℕ) (hj : j < N) :
    (roll N u s).getD j 0 = u.getD (((j : ℤ) - s) % (N : ℤ)).toNat 0 := by
  rw [roll, DFT.tab_getD _ _ _ _ hj]

@[simp] theorem roll_size (N : ℕ) (u : Array ℂ) (s : ℤ) : (roll N u s).size = N := by
  simp [roll]

/-- **Y1(a), forward** (`rfft_roll_1d` restated with `shiftPhase`): rolling the state by `s`
    multiplies stored mode `h` by `e^{-2πi h s/N}`; every `N ≥ 1`, any state. -/
theorem rfft_roll (N : ℕ) (hN : 0 < N) (u : Array ℂ) (s : ℤ) (h : ℕ) (hh : h ≤ N / 2) :
    (rfftnM 1 N (roll N u s)).getD h 0 = shiftPhase N s h * (rfftnM 1 N u).getD h 0 :=
  rfft_roll_1d N hN u s h hh

/-- array form of the forward shift theorem -/
theorem rfft_roll_array (N : ℕ) (hN : 0 < N) (u : Array ℂ) (s : ℤ) :
    rfftnM 1 N (roll N u s) = shiftSpec N s (rfftnM 1 N u) := by
  apply array_ext_getD _ _ (N / 2 + 1) (by simp [numModes_one]) (by simp [shiftSpec])
  intro h hh
  rw [rfft_roll N hN u s h (by omega), shiftSpec, DFT.tab_getD _ _ _ _ hh]

/-- the shift theorem for the periodically extended DFT at the stored modes -/
theorem dft_roll (N : ℕ) (hN : 0 < N) (u : Array ℂ) (s : ℤ) (h : ℕ) (hh : h ≤ N / 2) :
    dft N (roll N u s) h = shiftPhase N s h * dft N u h := by
  rw [← rfft1_getD N hN _ h hh, ← rfft1_getD N hN _ h hh]
  exact rfft_roll N hN u s h hh

/-- **Y1(a), INVERSE (entrywise).**  For ANY stored half spectrum `c` (Hermitian or not, any
    imaginary parts in the DC / Nyquist entries), multiplying mode `h` by `e^{-2πi h s/N}` before
    the c2r transform rolls the result by `s`; every `N ≥ 1`, odd or even. -/
theorem irfft_shiftSpec_getD (N : ℕ) (hN : 0 < N) (c : Array ℂ) (s : ℤ) (j : ℕ) (hj : j < N) :
    (irfftnM 1 N (shiftSpec N s c)).getD j 0 = (roll N (irfftnM 1 N c) s).getD j 0 := by
  have hj' := idx_lt N hN ((j : ℤ) - s)
  rw [roll_getD N _ s j hj, irfft1_getD N hN _ j hj, irfft1_getD N hN _ _ hj']
  congr 1
  apply Finset.sum_congr rfl
  intro h hh
  have hh' := Finset.mem_range.mp hh
  have hm : (h : ℤ) * s + -((h : ℤ) * (j : ℤ)) ≡ -((h : ℤ) * (((j : ℤ) - s) % (N : ℤ))) [ZMOD (N : ℤ)] := by
    have := ((Int.mod_modEq ((j : ℤ) - s) (N : ℤ)).mul_left (h : ℤ)).neg
    rw [show (h : ℤ) * s + -((h : ℤ) * (j : ℤ)) = -((h : ℤ) * ((j : ℤ) - s)) by ring]
    exact this.symm
  have key : (shiftSpec N s c).getD h 0 * zeta N ^ (-((h : ℤ) * (j : ℤ)))
      = c.getD h 0 * zeta N ^ (-((h : ℤ) * (((((j : ℤ) - s) % (N : ℤ)).toNat : ℕ) : ℤ))) := by
    rw [shiftSpec, DFT.tab_getD _ _ _ _ hh', shiftPhase_eq_zpow, idx_cast N hN,
      mul_comm (zeta N ^ _) (c.getD h 0), mul_assoc, ← zpow_add₀ (zeta_ne_zero N),
      zeta_zpow_eq_of_modEq N hm]
  rw [key]

/-- **Y1(a), INVERSE (array form).** -/
theorem irfft_shiftSpec (N : ℕ) (c : Array ℂ) (s : ℤ) :
    irfftnM 1 N (shiftSpec N s c) = roll N (irfftnM 1 N c) s := by
  apply array_ext_getD _ _ N (by simp) (by simp)
  intro j hj
  exact irfft_shiftSpec_getD N (by omega) c s j hj

/-- forward then inverse: the round trip of a rolled real field is the rolled field -/
theorem irfft_rfft_roll (N : ℕ) (hN : 0 < N) (u : Array ℂ) (hu : ∀ j < N, (u.getD j 0).im = 0)
    (s : ℤ) (j : ℕ) (hj : j < N) :
    (irfftnM 1 N (shiftSpec N s (rfftnM 1 N u))).getD j 0 = (roll N u s).getD j 0 := by
  rw [irfft_shiftSpec_getD N hN _ s j hj, roll_getD N _ s j hj, roll_getD N _ s j hj,
    irfft_rfft_1d N hN u hu _ (idx_lt N hN _)]

/-! ## Y1 (b) — diagonal multipliers and pointwise maps -/

/-- a diagonal Fourier multiplier commutes with the shift phases -/
theorem shiftSpec_mul_diag (N : ℕ) (s : ℤ) (m : ℕ → ℂ) (c : Array ℂ) :
    shiftSpec N s (tab (N / 2 + 1) fun h => m h * c.getD h 0)
      = tab (N / 2 + 1) fun h => m h * (shiftSpec N s c).getD h 0 := by
  unfold shiftSpec
  apply Nonlin.tab_congr
  intro h hh
  rw [DFT.tab_getD _ _ _ _ hh, DFT.tab_getD _ _ _ _ hh]
  ring

theorem shiftSpec_getD (N : ℕ) (s : ℤ) (c : Array ℂ) (h : ℕ) (hh : h ≤ N / 2) :
    (shiftSpec N s c).getD h 0 = shiftPhase N s h * c.getD h 0 := by
  rw [shiftSpec, DFT.tab_getD _ _ _ _ (by omega)]

/-- a unary pointwise map commutes with `roll` -/
theorem roll_map (N : ℕ) (g : ℂ → ℂ) (u : Array ℂ) (s : ℤ) :
    roll N (tab N fun j => g (u.getD j 0)) s = tab N fun j => g ((roll N u s).getD j 0) := by
  unfold roll
  apply Nonlin.tab_congr
  intro j hj
  have hN : 0 < N := by omega
  rw [DFT.tab_getD _ _ _ _ (idx_lt N hN _), DFT.tab_getD _ _ _ _ hj]

/-- a pointwise product commutes with `roll` -/
theorem roll_mul (N : ℕ) (u v : Array ℂ) (s : ℤ) :
    roll N (tab N fun j => u.getD j 0 * v.getD j 0) s
      = tab N fun j => (roll N u s).getD j 0 * (roll N v s).getD j 0 := by
  unfold roll
  apply Nonlin.tab_congr
  intro j hj
  have hN : 0 < N := by omega
  rw [DFT.tab_getD _ _ _ _ (idx_lt N hN _), DFT.tab_getD _ _ _ _ hj, DFT.tab_getD _ _ _ _ hj]

/-- a binary pointwise map commutes with `roll` -/
theorem roll_map₂ (N : ℕ) (g : ℂ → ℂ → ℂ) (u v : Array ℂ) (s : ℤ) :
    roll N (tab N fun j => g (u.getD j 0) (v.getD j 0)) s
      = tab N fun j => g ((roll N u s).getD j 0) ((roll N v s).getD j 0) := by
  unfold roll
  apply Nonlin.tab_congr
  intro j hj
  have hN : 0 < N := by omega
  rw [DFT.tab_getD _ _ _ _ (idx_lt N hN _), DFT.tab_getD _ _ _ _ hj, DFT.tab_getD _ _ _ _ hj]

/-- the grid sum (mean) is invariant under `roll` -/
theorem sum_roll (N : ℕ) (u : Array ℂ) (s : ℤ) :
    ∑ j ∈ range N, (roll N u s).getD j 0 = ∑ j ∈ range N, u.getD j 0 := by
  rcases Nat.eq_zero_or_pos N with h0 | hN
  · subst h0; simp
  have h := dft_roll N hN u s 0 (Nat.zero_le _)
  simpa [dft] using h

/-! ## Y1 (c) — equivariance of the 1-D pseudo-spectral pipeline -/

/-- mask, then c2r: the masked inverse transform of the phase-shifted spectrum is the rolled
    field (any spectrum, any dealiasing fraction) -/
theorem nifft_shiftSpec (c : Cfg ℂ) (hD : c.D = 1) (s : ℤ) (uh : Array ℂ) :
    nifft c (shiftSpec c.N s uh) = roll c.N (nifft c uh) s := by
  rw [nifft_one c hD, nifft_one c hD, ← irfft_shiftSpec, shiftSpec_mul_diag]

/-- r2c, then mask: the masked transform of a rolled field carries the shift phases -/
theorem nfft_roll (c : Cfg ℂ) (hD : c.D = 1) (hN : 0 < c.N) (v : Array ℂ) (s : ℤ) (h : ℕ)
    (hh : h ≤ c.N / 2) :
    (nfft c (roll c.N v s)).getD h 0 = shiftPhase c.N s h * (nfft c v).getD h 0 := by
  rw [nfft_one c hD hN _ h hh, nfft_one c hD hN _ h hh, dft_roll c.N hN v s h hh]
  ring

/-- the generic pseudo-spectral term `mask·fft(g(ifft(mask·û)))` with an arbitrary pointwise
    map `g` is translation-equivariant -/
theorem pointwise_term_equivariant (c : Cfg ℂ) (hD : c.D = 1) (hN : 0 < c.N) (g : ℂ → ℂ) (s : ℤ)
    (uh : Array ℂ) (h : ℕ) (hh : h ≤ c.N / 2) :
    (nfft c (tab c.N fun j => g ((nifft c (shiftSpec c.N s uh)).getD j 0))).getD h 0
      = shiftPhase c.N s h * (nfft c (tab c.N fun j => g ((nifft c uh).getD j 0))).getD h 0 := by
  rw [nifft_shiftSpec c hD, ← roll_map, nfft_roll c hD hN _ s h hh]

/-- the same with a binary pointwise map of two fields obtained from the spectrum by diagonal
    multipliers `m₁`, `m₂` (covers `u·∂ₓu`, `(∂ₓu)²`, …) -/
theorem pointwise_term₂_equivariant (c : Cfg ℂ) (hD : c.D = 1) (hN : 0 < c.N) (g : ℂ → ℂ → ℂ)
    (m₁ m₂ : ℕ → ℂ) (s : ℤ) (uh : Array ℂ) (h : ℕ) (hh : h ≤ c.N / 2) :
    (nfft c (tab c.N fun j => g
        ((nifft c (tab (c.N / 2 + 1) fun k => m₁ k * (shiftSpec c.N s uh).getD k 0)).getD j 0)
        ((nifft c (tab (c.N / 2 + 1) fun k => m₂ k * (shiftSpec c.N s uh).getD k 0)).getD j 0))).getD h 0
      = shiftPhase c.N s h * (nfft c (tab c.N fun j => g
        ((nifft c (tab (c.N / 2 + 1) fun k => m₁ k * uh.getD k 0)).getD j 0)
        ((nifft c (tab (c.N / 2 + 1) fun k => m₂ k * uh.getD k 0)).getD j 0))).getD h 0 := by
  rw [← shiftSpec_mul_diag, ← shiftSpec_mul_diag, nifft_shiftSpec c hD, nifft_shiftSpec c hD,
    ← roll_map₂, nfft_roll c hD hN _ s h hh]

/-- **Y1(c), conservative convection** (`ConvectionNonlinearFun(single_channel, conservative)`,
    1-D, one channel): the term evaluated on the phase-shifted spectrum is the phase-shifted term;
    any spectrum `û`, any `N ≥ 1`, any dealiasing fraction, stored `h ≤ N/2`. -/
theorem convection_equivariant (c : Cfg ℂ) (hD : c.D = 1) (hN : 0 < c.N) (scale : ℂ) (s : ℤ)
    (uh : Array ℂ) (h : ℕ) (hh : h ≤ c.N / 2) :
    at2 (convection c 1 scale true true #[shiftSpec c.N s uh]) 0 h
      = shiftPhase c.N s h * at2 (convection c 1 scale true true #[uh]) 0 h := by
  rw [convection_one_readoff c hD hN scale _ h hh, convection_one_readoff c hD hN scale _ h hh,
    ← nfft_one c hD hN _ h hh, ← nfft_one c hD hN _ h hh,
    pointwise_term_equivariant c hD hN (fun x => x * x) s uh h hh]
  ring

/-- the same through the multi-channel code path with one channel -/
theorem convection_multi_equivariant (c : Cfg ℂ) (hD : c.D = 1) (hN : 0 < c.N) (scale : ℂ) (s : ℤ)
    (uh : Array ℂ) (h : ℕ) (hh : h ≤ c.N / 2) :
    at2 (convection c 1 scale false true #[shiftSpec c.N s uh]) 0 h
      = shiftPhase c.N s h * at2 (convection c 1 scale false true #[uh]) 0 h := by
  rw [convection_c_multi_one_readoff c hD hN scale _ h hh,
    convection_c_multi_one_readoff c hD hN scale _ h hh,
    ← nfft_one c hD hN _ h hh, ← nfft_one c hD hN _ h hh,
    pointwise_term_equivariant c hD hN (fun x => x * x) s uh h hh]
  ring

/-- **Y1(c), non-conservative convection** `u ∂ₓ u` -/
theorem convection_nc_equivariant (c : Cfg ℂ) (hD : c.D = 1) (hN : 0 < c.N) (scale : ℂ) (s : ℤ)
    (uh : Array ℂ) (h : ℕ) (hh : h ≤ c.N / 2) :
    at2 (convection c 1 scale true false #[shiftSpec c.N s uh]) 0 h
      = shiftPhase c.N s h * at2 (convection c 1 scale true false #[uh]) 0 h := by
  have e : ∀ w : Array ℂ, nifft c w = nifft c (tab (c.N / 2 + 1) fun k => 1 * w.getD k 0) := by
    intro w
    rw [nifft_one c hD, nifft_one c hD]
    congr 1
    apply Nonlin.tab_congr
    intro k hk
    rw [DFT.tab_getD _ _ _ _ hk, one_mul]
  rw [convection_nc_one_readoff c hD hN scale _ h hh, convection_nc_one_readoff c hD hN scale _ h hh,
    ← nfft_one c hD hN _ h hh, ← nfft_one c hD hN _ h hh, e (shiftSpec c.N s uh), e uh,
    pointwise_term₂_equivariant c hD hN (fun x y => x * y) (fun _ => 1) (fun k => deriv c 0 k) s uh h hh]
  ring

/-- **Y1(c), polynomial nonlinearity** (any coefficient list) -/
theorem polynomial_equivariant (c : Cfg ℂ) (hD : c.D = 1) (hN : 0 < c.N) (coeffs : List ℂ) (s : ℤ)
    (uh : Array ℂ) (h : ℕ) (hh : h ≤ c.N / 2) :
    at2 (polynomial c 1 coeffs #[shiftSpec c.N s uh]) 0 h
      = shiftPhase c.N s h * at2 (polynomial c 1 coeffs #[uh]) 0 h := by
  rw [polynomial_one_readoff c hD hN coeffs _ h hh, polynomial_one_readoff c hD hN coeffs _ h hh,
    ← nfft_one c hD hN _ h hh, ← nfft_one c hD hN _ h hh,
    pointwise_term_equivariant c hD hN (polyEval coeffs) s uh h hh]

/-- **Y1(c), Cahn–Hilliard cubic term** -/
theorem cahnHilliard_equivariant (c : Cfg ℂ) (hD : c.D = 1) (hN : 0 < c.N) (scale : ℂ) (s : ℤ)
    (uh : Array ℂ) (h : ℕ) (hh : h ≤ c.N / 2) :
    at2 (cahnHilliard c scale #[shiftSpec c.N s uh]) 0 h
      = shiftPhase c.N s h * at2 (cahnHilliard c scale #[uh]) 0 h := by
  rw [cahnHilliard_one_readoff c hD hN scale _ h hh, cahnHilliard_one_readoff c hD hN scale _ h hh,
    ← nfft_one c hD hN _ h hh, ← nfft_one c hD hN _ h hh,
    pointwise_term_equivariant c hD hN (fun x => x * x * x) s uh h hh]
  ring

/-- **Y1(c), gradient-norm nonlinearity** `½ (∂ₓu)²`, with or without the zero-mode fix (the
    subtracted grid mean is translation-invariant) -/
theorem gradientNorm_equivariant (c : Cfg ℂ) (hD : c.D = 1) (hN : 0 < c.N) (scale : ℂ)
    (zeroFix : Bool) (s : ℤ) (uh : Array ℂ) (h : ℕ) (hh : h ≤ c.N / 2) :
    at2 (gradientNorm c 1 scale zeroFix #[shiftSpec c.N s uh]) 0 h
      = shiftPhase c.N s h * at2 (gradientNorm c 1 scale zeroFix #[uh]) 0 h := by
  rw [gradientNorm_one_readoff c hD hN scale zeroFix _ h hh,
    gradientNorm_one_readoff c hD hN scale zeroFix _ h hh,
    ← nfft_one c hD hN _ h hh, ← nfft_one c hD hN _ h hh]
  have hW' : nifft c (tab (c.N / 2 + 1) fun k => deriv c 0 k * (shiftSpec c.N s uh).getD k 0)
      = roll c.N (nifft c (tab (c.N / 2 + 1) fun k => deriv c 0 k * uh.getD k 0)) s := by
    rw [← shiftSpec_mul_diag, nifft_shiftSpec c hD]
  rw [hW']
  generalize nifft c (tab (c.N / 2 + 1) fun k => deriv c 0 k * uh.getD k 0) = W
  have hsum : ∑ x ∈ range c.N, (roll c.N W s).getD x 0 * (roll c.N W s).getD x 0
      = ∑ x ∈ range c.N, W.getD x 0 * W.getD x 0 := by
    calc ∑ x ∈ range c.N, (roll c.N W s).getD x 0 * (roll c.N W s).getD x 0
        = ∑ x ∈ range c.N,
            (tab c.N fun j => (roll c.N W s).getD j 0 * (roll c.N W s).getD j 0).getD x 0 :=
          Finset.sum_congr rfl (fun x hx => (DFT.tab_getD c.N
            (fun j => (roll c.N W s).getD j 0 * (roll c.N W s).getD j 0) x 0
            (Finset.mem_range.mp hx)).symm)
      _ = ∑ x ∈ range c.N, (tab c.N fun j => W.getD j 0 * W.getD j 0).getD x 0 := by
          rw [← roll_mul, sum_roll]
      _ = ∑ x ∈ range c.N, W.getD x 0 * W.getD x 0 :=
          Finset.sum_congr rfl (fun x hx => DFT.tab_getD _ _ _ _ (Finset.mem_range.mp hx))
  rw [hsum]
  have key : roll c.N (tab c.N fun j => if zeroFix = true then
        W.getD j 0 * W.getD j 0 - (∑ x ∈ range c.N, W.getD x 0 * W.getD x 0) / (c.N : ℂ)
        else W.getD j 0 * W.getD j 0) s
      = tab c.N fun j => if zeroFix = true then
        (roll c.N W s).getD j 0 * (roll c.N W s).getD j 0
          - (∑ x ∈ range c.N, W.getD x 0 * W.getD x 0) / (c.N : ℂ)
        else (roll c.N W s).getD j 0 * (roll c.N W s).getD j 0 :=
    roll_map c.N (fun y => if zeroFix = true then
      y * y - (∑ x ∈ range c.N, W.getD x 0 * W.getD x 0) / (c.N : ℂ) else y * y) W s
  rw [← key, nfft_roll c hD hN _ s h hh]
  ring

/-- **Y1(c), `GeneralNonlinearFun`** (quadratic polynomial + conservative convection + gradient
    norm), one channel, 1-D -/
theorem general_equivariant (c : Cfg ℂ) (hD : c.D = 1) (hN : 0 < c.N) (s0 s1 s2 : ℂ)
    (zeroFix : Bool) (s : ℤ) (uh : Array ℂ) (h : ℕ) (hh : h ≤ c.N / 2) :
    at2 (general c 1 s0 s1 s2 zeroFix #[shiftSpec c.N s uh]) 0 h
      = shiftPhase c.N s h * at2 (general c 1 s0 s1 s2 zeroFix #[uh]) 0 h := by
  have hM : h < modes c := by rw [modes_one c hD]; omega
  unfold general
  simp only []
  rw [at2_tab2 _ _ _ _ _ Nat.zero_lt_one hM, at2_tab2 _ _ _ _ _ Nat.zero_lt_one hM,
    polynomial_equivariant c hD hN _ s uh h hh, convection_equivariant c hD hN _ s uh h hh,
    gradientNorm_equivariant c hD hN _ zeroFix s uh h hh]
  ring

/-! ## Y1 (d) — the ETDRK stage formulas preserve equivariance

`V` is any commutative ring of "vectors" (`ℕ → ℂ` with pointwise operations in particular),
the coefficient arrays are ARBITRARY elements of `V`, `N : V → V` is an arbitrary nonlinear map.

Two forms of a symmetry `φ : V → V`:
* LINEAR (`φ (c * x) = c * φ x` for every `c`): multiplication by a phase array `P`;
* RING HOMOMORPHISM fixing the coefficient arrays: relabelling of the modes (axis permutations,
  reflections) under which the linear symbol is invariant. -/

section Stage
variable {V : Type} [CommRing V]

theorem E0step_equivariant_linear (φ : V → V) (hmul : ∀ c x, φ (c * x) = c * φ x) (E u : V) :
    E0step E (φ u) = φ (E0step E u) := by
  simp only [E0step, hmul]

theorem E1step_equivariant_linear (φ : V → V) (N : V → V)
    (hadd : ∀ a b, φ (a + b) = φ a + φ b) (hmul : ∀ c x, φ (c * x) = c * φ x)
    (hN : ∀ v, φ (N v) = N (φ v)) (E c1 u : V) :
    E1step E c1 N (φ u) = φ (E1step E c1 N u) := by
  simp only [E1step, hadd, hmul, hN]

theorem E2step_equivariant_linear (φ : V → V) (N : V → V)
    (hadd : ∀ a b, φ (a + b) = φ a + φ b) (hsub : ∀ a b, φ (a - b) = φ a - φ b)
    (hmul : ∀ c x, φ (c * x) = c * φ x) (hN : ∀ v, φ (N v) = N (φ v)) (E c1 c2 u : V) :
    E2step E c1 c2 N (φ u) = φ (E2step E c1 c2 N u) := by
  simp only [E2step, hadd, hsub, hmul, hN]

theorem E3step_equivariant_linear (φ : V → V) (N : V → V)
    (hadd : ∀ a b, φ (a + b) = φ a + φ b) (hsub : ∀ a b, φ (a - b) = φ a - φ b)
    (hmul : ∀ c x, φ (c * x) = c * φ x) (hN : ∀ v, φ (N v) = N (φ v))
    (E Eh c1 c2 c3 c4 c5 u : V) :
    E3step E Eh c1 c2 c3 c4 c5 N (φ u) = φ (E3step E Eh c1 c2 c3 c4 c5 N u) := by
  simp only [E3step, hadd, hsub, hmul, hN]

theorem E4step_equivariant_linear (φ : V → V) (N : V → V)
    (hadd : ∀ a b, φ (a + b) = φ a + φ b) (hsub : ∀ a b, φ (a - b) = φ a - φ b)
    (hmul : ∀ c x, φ (c * x) = c * φ x) (hN : ∀ v, φ (N v) = N (φ v))
    (E Eh c1 c2 c3 c4 c5 c6 u : V) :
    E4step E Eh c1 c2 c3 c4 c5 c6 N (φ u) = φ (E4step E Eh c1 c2 c3 c4 c5 c6 N u) := by
  simp only [E4step, hadd, hsub, hmul, hN]

/-! #### multiplication by a phase array `P` -/

variable (P : V) (N : V → V) (hN : ∀ v, N (P * v) = P * N v)
include hN

omit hN in
/-- **Y1(d), order 0.** -/
theorem E0step_phase (E u : V) : E0step E (P * u) = P * E0step E u :=
  E0step_equivariant_linear (fun x => P * x) (fun c x => mul_left_comm P c x) E u

/-- **Y1(d), order 1.** -/
theorem E1step_phase (E c1 u : V) : E1step E c1 N (P * u) = P * E1step E c1 N u :=
  E1step_equivariant_linear (fun x => P * x) N (fun a b => mul_add P a b)
    (fun c x => mul_left_comm P c x) (fun v => (hN v).symm) E c1 u

/-- **Y1(d), order 2.** -/
theorem E2step_phase (E c1 c2 u : V) : E2step E c1 c2 N (P * u) = P * E2step E c1 c2 N u :=
  E2step_equivariant_linear (fun x => P * x) N (fun a b => mul_add P a b) (fun a b => mul_sub P a b)
    (fun c x => mul_left_comm P c x) (fun v => (hN v).symm) E c1 c2 u

/-- **Y1(d), order 3.** -/
theorem E3step_phase (E Eh c1 c2 c3 c4 c5 u : V) :
    E3step E Eh c1 c2 c3 c4 c5 N (P * u) = P * E3step E Eh c1 c2 c3 c4 c5 N u :=
  E3step_equivariant_linear (fun x => P * x) N (fun a b => mul_add P a b) (fun a b => mul_sub P a b)
    (fun c x => mul_left_comm P c x) (fun v => (hN v).symm) E Eh c1 c2 c3 c4 c5 u

/-- **Y1(d), order 4.** -/
theorem E4step_phase (E Eh c1 c2 c3 c4 c5 c6 u : V) :
    E4step E Eh c1 c2 c3 c4 c5 c6 N (P * u) = P * E4step E Eh c1 c2 c3 c4 c5 c6 N u :=
  E4step_equivariant_linear (fun x => P * x) N (fun a b => mul_add P a b) (fun a b => mul_sub P a b)
    (fun c x => mul_left_comm P c x) (fun v => (hN v).symm) E Eh c1 c2 c3 c4 c5 c6 u

omit hN in
/-- **Y1(d), lift to `n` steps.** any one-step map that commutes with the symmetry does so after
    `n` steps … -/
theorem iterate_equivariant {S : Type} (φ step : S → S) (h : ∀ u, step (φ u) = φ (step u)) (n : ℕ)
    (u : S) : step^[n] (φ u) = φ (step^[n] u) :=
  ((Function.Commute.iterate_left (f := step) (g := φ) (fun u => h u) n) u)

omit hN in
/-- … `repeat(step, n)` … -/
theorem repeatN_equivariant {S : Type} (φ step : S → S) (h : ∀ u, step (φ u) = φ (step u)) (n : ℕ)
    (u : S) : Loops.repeatN step n (φ u) = φ (Loops.repeatN step n u) := by
  rw [Loops.repeatN_eq_iterate, Loops.repeatN_eq_iterate, iterate_equivariant φ step h]

omit hN in
/-- … and the whole `rollout` trajectory is mapped entry by entry -/
theorem rollout_equivariant {S : Type} (φ step : S → S) (h : ∀ u, step (φ u) = φ (step u)) (n : ℕ)
    (incl : Bool) (u : S) :
    Loops.rollout step n incl (φ u) = (Loops.rollout step n incl u).map φ := by
  cases incl
  · rw [Loops.rollout_false, Loops.rollout_false, List.map_map]
    apply List.map_congr_left
    intro i _
    exact iterate_equivariant φ step h (i + 1) u
  · rw [Loops.rollout_true, Loops.rollout_true, List.map_map]
    apply List.map_congr_left
    intro i _
    exact iterate_equivariant φ step h i u

/-- `n` ETDRK4 steps commute with the phase array -/
theorem E4step_phase_iterate (E Eh c1 c2 c3 c4 c5 c6 : V) (n : ℕ) (u : V) :
    (E4step E Eh c1 c2 c3 c4 c5 c6 N)^[n] (P * u) = P * (E4step E Eh c1 c2 c3 c4 c5 c6 N)^[n] u :=
  iterate_equivariant (fun x => P * x) _ (E4step_phase P N hN E Eh c1 c2 c3 c4 c5 c6) n u

theorem E3step_phase_iterate (E Eh c1 c2 c3 c4 c5 : V) (n : ℕ) (u : V) :
    (E3step E Eh c1 c2 c3 c4 c5 N)^[n] (P * u) = P * (E3step E Eh c1 c2 c3 c4 c5 N)^[n] u :=
  iterate_equivariant (fun x => P * x) _ (E3step_phase P N hN E Eh c1 c2 c3 c4 c5) n u

theorem E2step_phase_iterate (E c1 c2 : V) (n : ℕ) (u : V) :
    (E2step E c1 c2 N)^[n] (P * u) = P * (E2step E c1 c2 N)^[n] u :=
  iterate_equivariant (fun x => P * x) _ (E2step_phase P N hN E c1 c2) n u

theorem E1step_phase_iterate (E c1 : V) (n : ℕ) (u : V) :
    (E1step E c1 N)^[n] (P * u) = P * (E1step E c1 N)^[n] u :=
  iterate_equivariant (fun x => P * x) _ (E1step_phase P N hN E c1) n u

omit hN in
theorem E0step_phase_iterate (E : V) (n : ℕ) (u : V) :
    (E0step E)^[n] (P * u) = P * (E0step E)^[n] u :=
  iterate_equivariant (fun x => P * x) _ (E0step_phase P E) n u

end Stage

/-! #### relabelling symmetries (ring homomorphisms fixing the coefficient arrays) -/

section StageHom
variable {V : Type} [CommRing V] (φ : V →+* V) (N : V → V) (hN : ∀ v, φ (N v) = N (φ v))
include hN

omit hN in
theorem E0step_equivariant_hom (E u : V) (hE : φ E = E) : E0step E (φ u) = φ (E0step E u) := by
  simp only [E0step, map_mul, hE]

theorem E1step_equivariant_hom (E c1 u : V) (hE : φ E = E) (h1 : φ c1 = c1) :
    E1step E c1 N (φ u) = φ (E1step E c1 N u) := by
  simp only [E1step, map_add, map_mul, hE, h1, hN]

theorem E2step_equivariant_hom (E c1 c2 u : V) (hE : φ E = E) (h1 : φ c1 = c1) (h2 : φ c2 = c2) :
    E2step E c1 c2 N (φ u) = φ (E2step E c1 c2 N u) := by
  simp only [E2step, map_add, map_sub, map_mul, hE, h1, h2, hN]

theorem E3step_equivariant_hom (E Eh c1 c2 c3 c4 c5 u : V) (hE : φ E = E) (hEh : φ Eh = Eh)
    (h1 : φ c1 = c1) (h2 : φ c2 = c2) (h3 : φ c3 = c3) (h4 : φ c4 = c4) (h5 : φ c5 = c5) :
    E3step E Eh c1 c2 c3 c4 c5 N (φ u) = φ (E3step E Eh c1 c2 c3 c4 c5 N u) := by
  simp only [E3step, lit_eq, map_add, map_sub, map_mul, map_natCast, hE, hEh, h1, h2, h3, h4, h5, hN]

theorem E4step_equivariant_hom (E Eh c1 c2 c3 c4 c5 c6 u : V) (hE : φ E = E) (hEh : φ Eh = Eh)
    (h1 : φ c1 = c1) (h2 : φ c2 = c2) (h3 : φ c3 = c3) (h4 : φ c4 = c4) (h5 : φ c5 = c5)
    (h6 : φ c6 = c6) :
    E4step E Eh c1 c2 c3 c4 c5 c6 N (φ u) = φ (E4step E Eh c1 c2 c3 c4 c5 c6 N u) := by
  simp only [E4step, lit_eq, map_add, map_sub, map_mul, map_natCast, hE, hEh, h1, h2, h3, h4, h5, h6,
    hN]

end StageHom

/-- relabelling the modes by `σ : ι → ι` is a ring homomorphism of `ι → ℂ` -/
def relabel {ι : Type} (σ : ι → ι) : (ι → ℂ) →+* (ι → ℂ) where
  toFun x := x ∘ σ
  map_one' := rfl
  map_mul' _ _ := rfl
  map_zero' := rfl
  map_add' _ _ := rfl

@[simp] theorem relabel_apply {ι : Type} (σ : ι → ι) (x : ι → ℂ) (i : ι) : relabel σ x i = x (σ i) := rfl

/-- **Y2 at the stepper level.** if the coefficient arrays are invariant under a relabelling `σ`
    of the modes (e.g. an axis permutation acting on the wavenumber grid: by Y2 below the isotropic
    symbols, hence `exp_term` and all contour coefficients computed from them, are invariant) and
    the nonlinear term commutes with the relabelling, then so does the ETDRK4 step -/
theorem E4step_relabel {ι : Type} (σ : ι → ι) (N : (ι → ℂ) → (ι → ℂ))
    (hN : ∀ v, (N v) ∘ σ = N (v ∘ σ)) (E Eh c1 c2 c3 c4 c5 c6 u : ι → ℂ)
    (hE : E ∘ σ = E) (hEh : Eh ∘ σ = Eh) (h1 : c1 ∘ σ = c1) (h2 : c2 ∘ σ = c2) (h3 : c3 ∘ σ = c3)
    (h4 : c4 ∘ σ = c4) (h5 : c5 ∘ σ = c5) (h6 : c6 ∘ σ = c6) :
    E4step E Eh c1 c2 c3 c4 c5 c6 N (u ∘ σ) = (E4step E Eh c1 c2 c3 c4 c5 c6 N u) ∘ σ :=
  E4step_equivariant_hom (relabel σ) N hN E Eh c1 c2 c3 c4 c5 c6 u hE hEh h1 h2 h3 h4 h5 h6

/-! #### the model's 1-D nonlinear terms as maps on `ℕ → ℂ`, and the resulting steppers -/

/-- a one-channel model term `T : MC ℂ → MC ℂ` read as a map on mode-indexed functions
    (stored modes `h ≤ N/2`; zero beyond) -/
noncomputable def liftTerm (N : ℕ) (T : MC ℂ → MC ℂ) (v : ℕ → ℂ) : ℕ → ℂ :=
  fun h => if h ≤ N / 2 then at2 (T #[tab (N / 2 + 1) v]) 0 h else 0

theorem tab_phase_mul (N : ℕ) (s : ℤ) (v : ℕ → ℂ) :
    tab (N / 2 + 1) ((fun h => shiftPhase N s h) * v) = shiftSpec N s (tab (N / 2 + 1) v) := by
  unfold shiftSpec
  apply Nonlin.tab_congr
  intro h hh
  rw [DFT.tab_getD _ _ _ _ hh]
  rfl

/-- a term that is equivariant in the sense of Y1(c) satisfies the hypothesis of Y1(d) -/
theorem liftTerm_phase (N : ℕ) (s : ℤ) (T : MC ℂ → MC ℂ)
    (hT : ∀ (uh : Array ℂ) (h : ℕ), h ≤ N / 2 →
      at2 (T #[shiftSpec N s uh]) 0 h = shiftPhase N s h * at2 (T #[uh]) 0 h) (v : ℕ → ℂ) :
    liftTerm N T ((fun h => shiftPhase N s h) * v) = (fun h => shiftPhase N s h) * liftTerm N T v := by
  funext h
  simp only [liftTerm, Pi.mul_apply]
  split_ifs with hh
  · rw [tab_phase_mul, hT _ h hh]
  · rw [mul_zero]

/-- **translation equivariance of the 1-D Burgers-type ETDRK4 stepper**: with the model's
    conservative convection term, arbitrary coefficient arrays, `n` steps, any shift `s`, any
    spectrum `u`, any `N ≥ 1`. -/
theorem E4step_convection_translation (c : Cfg ℂ) (hD : c.D = 1) (hN : 0 < c.N) (scale : ℂ) (s : ℤ)
    (E Eh c1 c2 c3 c4 c5 c6 : ℕ → ℂ) (n : ℕ) (u : ℕ → ℂ) :
    (E4step E Eh c1 c2 c3 c4 c5 c6 (liftTerm c.N (convection c 1 scale true true)))^[n]
        ((fun h => shiftPhase c.N s h) * u)
      = (fun h => shiftPhase c.N s h) *
        (E4step E Eh c1 c2 c3 c4 c5 c6 (liftTerm c.N (convection c 1 scale true true)))^[n] u :=
  E4step_phase_iterate _ _
    (liftTerm_phase c.N s _ (fun uh h hh => convection_equivariant c hD hN scale s uh h hh))
    E Eh c1 c2 c3 c4 c5 c6 n u

/-- the same for the polynomial nonlinearity (reaction-type steppers) -/
theorem E4step_polynomial_translation (c : Cfg ℂ) (hD : c.D = 1) (hN : 0 < c.N) (coeffs : List ℂ)
    (s : ℤ) (E Eh c1 c2 c3 c4 c5 c6 : ℕ → ℂ) (n : ℕ) (u : ℕ → ℂ) :
    (E4step E Eh c1 c2 c3 c4 c5 c6 (liftTerm c.N (polynomial c 1 coeffs)))^[n]
        ((fun h => shiftPhase c.N s h) * u)
      = (fun h => shiftPhase c.N s h) *
        (E4step E Eh c1 c2 c3 c4 c5 c6 (liftTerm c.N (polynomial c 1 coeffs)))^[n] u :=
  E4step_phase_iterate _ _
    (liftTerm_phase c.N s _ (fun uh h hh => polynomial_equivariant c hD hN coeffs s uh h hh))
    E Eh c1 c2 c3 c4 c5 c6 n u

/-- the stored spectrum of a rolled state, as a function of the mode index -/
theorem rfft_roll_fun (N : ℕ) (hN : 0 < N) (u : Array ℂ) (s : ℤ) :
    (fun h => (rfftnM 1 N (roll N u s)).getD h 0)
      = (fun h => shiftPhase N s h) * (fun h => (rfftnM 1 N u).getD h 0) := by
  funext h
  simp only [Pi.mul_apply]
  rcases Nat.lt_or_ge h (N / 2 + 1) with hlt | hge
  · exact rfft_roll N hN u s h (by omega)
  · have e : ∀ a : Array ℂ, a.size = N / 2 + 1 → a.getD h 0 = 0 := by
      intro a ha
      have : ¬ h < a.size := by omega
      simp [Array.getD, this]
    rw [e _ (by simp [numModes_one]), e _ (by simp [numModes_one]), mul_zero]

/-- **translation equivariance in physical space** (capstone of Y1): transform, take `n` ETDRK4
    steps with the model's conservative convection term and ARBITRARY coefficient arrays,
    transform back — rolling the initial state by `s` grid points rolls the result by `s`.
    Every `N ≥ 1`, every (real or complex) state, any dealiasing fraction. -/
theorem E4_convection_physical_translation (c : Cfg ℂ) (hD : c.D = 1) (hN : 0 < c.N) (scale : ℂ)
    (s : ℤ) (E Eh c1 c2 c3 c4 c5 c6 : ℕ → ℂ) (n : ℕ) (u : Array ℂ) :
    irfftnM 1 c.N (tab (c.N / 2 + 1)
        ((E4step E Eh c1 c2 c3 c4 c5 c6 (liftTerm c.N (convection c 1 scale true true)))^[n]
          (fun h => (rfftnM 1 c.N (roll c.N u s)).getD h 0)))
      = roll c.N (irfftnM 1 c.N (tab (c.N / 2 + 1)
        ((E4step E Eh c1 c2 c3 c4 c5 c6 (liftTerm c.N (convection c 1 scale true true)))^[n]
          (fun h => (rfftnM 1 c.N u).getD h 0)))) s := by
  rw [rfft_roll_fun c.N hN u s, E4step_convection_translation c hD hN scale s, tab_phase_mul,
    irfft_shiftSpec]

/-! ## Y2 — axis permutations at the symbol level (general `D`) -/

/-- the power sum `Σ_d κ_d^j` over the entries of a list -/
theorem powerSum_eq_map_sum (κ : List ℂ) (j : ℕ) :
    ∑ d ∈ range κ.length, κ.getD d 0 ^ j = (κ.map (fun z => z ^ j)).sum := by
  induction κ with
  | nil => simp
  | cons a κ ih =>
    rw [List.length_cons, Finset.sum_range_succ', List.map_cons, List.sum_cons, ← ih, add_comm]
    simp

/-- **Y2 (power sums).** `Σ_d κ_{σ d}^j = Σ_d κ_d^j` for every permutation of the axes (list form) -/
theorem powerSum_perm {κ κ' : List ℂ} (hp : List.Perm κ κ') (j : ℕ) :
    ∑ d ∈ range κ.length, κ.getD d 0 ^ j = ∑ d ∈ range κ'.length, κ'.getD d 0 ^ j := by
  rw [powerSum_eq_map_sum, powerSum_eq_map_sum]
  exact (hp.map _).sum_eq

/-- **Y2 (power sums, `Equiv.Perm (Fin D)` form).** -/
theorem powerSum_equiv {D : ℕ} (σ : Equiv.Perm (Fin D)) (k : Fin D → ℂ) (j : ℕ) :
    ∑ d, k (σ d) ^ j = ∑ d, k d ^ j :=
  Equiv.sum_comp σ (fun d => k d ^ j)

/-- **Y2 (general isotropic linear symbol).** `Σ_j a_j Σ_d κ_d^j` is invariant under any
    permutation of the wavenumber vector -/
theorem polyAt_generalLinear_perm {κ κ' : List ℂ} (hp : List.Perm κ κ') (a : List ℂ) :
    polyAt κ (generalLinear κ.length a) = polyAt κ' (generalLinear κ'.length a) := by
  rw [polyAt_generalLinear, polyAt_generalLinear]
  apply Finset.sum_congr rfl
  intro j _
  rw [powerSum_perm hp j]

/-- the same for a wavenumber vector given as a function on the axes and `σ : Equiv.Perm (Fin D)` -/
theorem polyAt_generalLinear_equiv {D : ℕ} (σ : Equiv.Perm (Fin D)) (k : Fin D → ℂ) (a : List ℂ) :
    polyAt (List.ofFn (k ∘ σ)) (generalLinear D a) = polyAt (List.ofFn k) (generalLinear D a) := by
  have h := polyAt_generalLinear_perm (σ.ofFn_comp_perm k) a
  simpa using h

/-- **Y2 (`lap`-type terms).** `coef · Σ_d ∂_d^p` likewise -/
theorem polyAt_lapT_perm {κ κ' : List ℂ} (hp : List.Perm κ κ') (coef : ℂ) (p : ℕ) :
    polyAt κ (lapT κ.length coef p) = polyAt κ' (lapT κ'.length coef p) := by
  rw [polyAt_lapT, polyAt_lapT, powerSum_perm hp p]

/-- the model's vector of derivative symbols is the image of the integer wavenumber vector -/
theorem kappa_eq_map_wnFlat (c : Cfg ℂ) (h : ℕ) :
    kappa c h = (wnFlat c.D c.N h).map (fun k : ℤ => Complex.I * (c.s * (k : ℂ))) := by
  have hw : wnFlat c.D c.N h
      = (List.range c.D).map (fun d => (wnFlat c.D c.N h).getD d 0) := by
    apply List.ext_getElem
    · simp [wnFlat, wnVec]
    · intro d h1 h2
      have hd : d < c.D := by simpa using h2
      rw [List.getElem_map, List.getElem_range, List.getD_eq_getElem?_getD,
        List.getElem?_eq_getElem h1]
      rfl
  unfold kappa
  conv_rhs => rw [hw, List.map_map]
  apply List.map_congr_left
  intro d _
  rfl

/-- **Y2 (model symbols).** two stored modes whose wavenumber vectors are permutations of each
    other carry the same general isotropic linear symbol … -/
theorem polySymbol_generalLinear_perm (c : Cfg ℂ) (a : List ℂ) (h h' : ℕ)
    (hp : List.Perm (wnFlat c.D c.N h) (wnFlat c.D c.N h')) :
    polySymbol c (generalLinear c.D a) h = polySymbol c (generalLinear c.D a) h' := by
  have hk : List.Perm (kappa c h) (kappa c h') := by
    rw [kappa_eq_map_wnFlat, kappa_eq_map_wnFlat]
    exact hp.map _
  have := polyAt_generalLinear_perm hk a
  rw [kappa_length, kappa_length] at this
  rw [polySymbol_eq_polyAt, polySymbol_eq_polyAt, this]

/-- … and the same `build_laplace_operator(order)` entry, for every order -/
theorem laplace_perm (c : Cfg ℂ) (order : ℕ) (h h' : ℕ)
    (hp : List.Perm (wnFlat c.D c.N h) (wnFlat c.D c.N h')) :
    laplace c order h = laplace c order h' := by
  rcases Nat.eq_zero_or_pos order with h0 | h0
  · subst h0; rw [laplace_zero, laplace_zero]
  have hk : List.Perm (kappa c h) (kappa c h') := by
    rw [kappa_eq_map_wnFlat, kappa_eq_map_wnFlat]
    exact hp.map _
  have key : ∀ g : ℕ, laplace c order g
      = ∑ d ∈ range (kappa c g).length, (kappa c g).getD d 0 ^ order := by
    intro g
    rw [laplace_eq_sum c g order (by omega), kappa_length]
    apply Finset.sum_congr rfl
    intro d hd
    rw [kappa_getD c g d (Finset.mem_range.mp hd)]
  rw [key h, key h', powerSum_perm hk]

/-- hence the linear propagator `exp_term dt λ` of the general isotropic stepper is the same at
    the two modes -/
theorem exp_term_generalLinear_perm (c : Cfg ℂ) (a : List ℂ) (dt : ℂ) (h h' : ℕ)
    (hp : List.Perm (wnFlat c.D c.N h) (wnFlat c.D c.N h')) :
    exp_term dt (polySymbol c (generalLinear c.D a) h)
      = exp_term dt (polySymbol c (generalLinear c.D a) h') := by
  rw [polySymbol_generalLinear_perm c a h h' hp]

/-! ## Y3 — embedding a 1-D mode into `D` dimensions -/

section Embed
variable (κ : List ℂ) (d₀ : ℕ) (hd₀ : d₀ < κ.length)
  (hz : ∀ e < κ.length, e ≠ d₀ → κ.getD e 0 = 0)
include hd₀ hz

/-- **Y3 (power sums, `j ≥ 1`).** only the active axis contributes -/
theorem powerSum_embed_pos (j : ℕ) (hj : 1 ≤ j) :
    ∑ d ∈ range κ.length, κ.getD d 0 ^ j = κ.getD d₀ 0 ^ j := by
  rw [Finset.sum_eq_single d₀]
  · intro e he hne
    rw [hz e (Finset.mem_range.mp he) hne, zero_pow (by omega)]
  · intro h; exact absurd (Finset.mem_range.mpr hd₀) h

omit hd₀ hz in
/-- **Y3 (power sums, `j = 0`).** every axis contributes `1`: the sum is `D` -/
theorem powerSum_embed_zero : ∑ d ∈ range κ.length, κ.getD d 0 ^ 0 = (κ.length : ℂ) := by
  simp

/-- the 1-D coefficient list seen by a mode living on one axis of a `D`-dimensional grid:
    `(D·a₀, a₁, a₂, …)` -/
def embedCoefs (D : ℕ) : List ℂ → List ℂ
  | [] => []
  | a0 :: r => ((D : ℂ) * a0) :: r

omit hd₀ hz in
@[simp] theorem embedCoefs_length (D : ℕ) (a : List ℂ) : (embedCoefs D a).length = a.length := by
  cases a <;> rfl

/-- closed form on an embedded mode: `λ = D·a₀ + Σ_{j ≥ 1} a_j κ_{d₀}^j` -/
theorem polyAt_generalLinear_embed_closed (a0 : ℂ) (r : List ℂ) :
    polyAt κ (generalLinear κ.length (a0 :: r))
      = (κ.length : ℂ) * a0 + ∑ j ∈ range r.length, r.getD j 0 * κ.getD d₀ 0 ^ (j + 1) := by
  rw [polyAt_generalLinear, List.length_cons, Finset.sum_range_succ', add_comm]
  congr 1
  · simp [mul_comm]
  · apply Finset.sum_congr rfl
    intro j _
    rw [powerSum_embed_pos κ d₀ hd₀ hz (j + 1) (by omega)]
    simp

/-- **Y3 (symbol).** the `D`-dimensional general linear symbol with coefficients `a` at a mode
    whose wavenumbers vanish off axis `d₀` is the 1-D symbol with coefficients
    `(D·a₀, a₁, a₂, …)` at the wavenumber `κ_{d₀}` — the documented "`a₀` enters as `D·a₀`" -/
theorem polyAt_generalLinear_embed (a : List ℂ) :
    polyAt κ (generalLinear κ.length a)
      = polyAt [κ.getD d₀ 0] (generalLinear 1 (embedCoefs κ.length a)) := by
  cases a with
  | nil =>
    have h1 := polyAt_generalLinear κ []
    have h2 := polyAt_generalLinear [κ.getD d₀ 0] []
    simp only [List.length_nil, Finset.range_zero, Finset.sum_empty] at h1 h2
    rw [h1]
    exact h2.symm
  | cons a0 r =>
    rw [polyAt_generalLinear_embed_closed κ d₀ hd₀ hz a0 r]
    have h2 := polyAt_generalLinear_embed_closed [κ.getD d₀ 0] 0 (by simp)
      (by intro e he hne; simp at he; omega) ((κ.length : ℂ) * a0) r
    simp only [List.length_cons, List.length_nil, Nat.cast_one, one_mul, zero_add] at h2
    rw [embedCoefs]
    rw [h2]
    simp

end Embed

/-- **Y3 (model symbols).** a stored mode `h` of a `D`-dimensional configuration whose
    wavenumbers vanish off axis `d₀` carries the symbol of the 1-D configuration `c₁` (same
    `s = 2π/L`) with coefficients `(D·a₀, a₁, …)` at the 1-D mode `h₁` with the same wavenumber -/
theorem polySymbol_generalLinear_embed (c c₁ : Cfg ℂ) (hD₁ : c₁.D = 1) (hs : c₁.s = c.s)
    (d₀ h h₁ : ℕ) (hd₀ : d₀ < c.D) (hz : ∀ e < c.D, e ≠ d₀ → wnAt c e h = 0)
    (hk : wnAt c₁ 0 h₁ = wnAt c d₀ h) (a : List ℂ) :
    polySymbol c (generalLinear c.D a) h
      = polySymbol c₁ (generalLinear c₁.D (embedCoefs c.D a)) h₁ := by
  have hκ₁ : kappa c₁ h₁ = [(kappa c h).getD d₀ 0] := by
    rw [kappa_getD c h d₀ hd₀]
    unfold kappa
    rw [hD₁]
    simp only [List.range_one, List.map_cons, List.map_nil]
    congr 1
    unfold Nonlin.deriv
    rw [← wnAt_def, ← wnAt_def, hk, hs]
  have h1 := polyAt_generalLinear_embed (kappa c h) d₀ (by rw [kappa_length]; exact hd₀)
    (by
      intro e he hne
      rw [kappa_length] at he
      rw [kappa_getD c h e he, deriv_of_wn_zero c e h (hz e he hne)]) a
  rw [kappa_length] at h1
  rw [polySymbol_eq_polyAt, polySymbol_eq_polyAt, h1, hκ₁, hD₁]

/-- hence the same linear propagator -/
theorem exp_term_generalLinear_embed (c c₁ : Cfg ℂ) (hD₁ : c₁.D = 1) (hs : c₁.s = c.s)
    (d₀ h h₁ : ℕ) (hd₀ : d₀ < c.D) (hz : ∀ e < c.D, e ≠ d₀ → wnAt c e h = 0)
    (hk : wnAt c₁ 0 h₁ = wnAt c d₀ h) (a : List ℂ) (dt : ℂ) :
    exp_term dt (polySymbol c (generalLinear c.D a) h)
      = exp_term dt (polySymbol c₁ (generalLinear c₁.D (embedCoefs c.D a)) h₁) := by
  rw [polySymbol_generalLinear_embed c c₁ hD₁ hs d₀ h h₁ hd₀ hz hk a]

/-- `build_laplace_operator(order)`, `order ≥ 1`, on an embedded mode is the 1-D entry -/
theorem laplace_embed (c : Cfg ℂ) (order : ℕ) (ho : 1 ≤ order) (d₀ h : ℕ) (hd₀ : d₀ < c.D)
    (hz : ∀ e < c.D, e ≠ d₀ → wnAt c e h = 0) :
    laplace c order h = Nonlin.deriv c d₀ h ^ order := by
  rw [laplace_eq_sum c h order (by omega), Finset.sum_eq_single d₀]
  · intro e he hne
    rw [deriv_of_wn_zero c e h (hz e (Finset.mem_range.mp he) hne), zero_pow (by omega)]
  · intro hh; exact absurd (Finset.mem_range.mpr hd₀) hh

end Exponax.Symmetry
