import ExponaxModel.Proofs.DiffTermsCalc
/-
C07 support — T1 for `convection` (all four flag combinations), `gradientNorm` (both zero-fix options) and
`vorticity2d` (with or without the Kolmogorov injection, which is a constant).

For each term we write the JVP ("tangent") in model vocabulary — the same pipeline with the product rule applied at the
pointwise products — and prove ONE generic theorem: the term maps every `FunAlg₂`-related pair `(f, f')` of families of
spectra to the related pair `(term ∘ f, v ↦ termJvp (f u) (f' v))`.  Instantiating the relation gives smoothness
(`ContDiff ℝ n`, `lift₁`) and the Fréchet derivative (`HasFD u`) — see `DiffTermsSpace`.
-/
set_option linter.unusedVariables false
namespace Exponax.DiffTerms
open Exponax Exponax.Layout Exponax.Transform Exponax.Nonlin

/-! ### the tangents -/

/-- JVP of `convection`: `−b·P(u ∂v + v ∂u)` (non-conservative) / `−b/2·∂P(u v + v u)` (conservative);
    `uh` the point, `vh` the direction -/
noncomputable def convectionJvp (c : Cfg ℂ) (C : ℕ) (scale : ℂ) (single conservative : Bool) (uh vh : MC ℂ) : MC ℂ :=
  let G := gridSize c
  let M := modes c
  let u : MC ℂ := tabC C (fun ch => nifft c (uh.getD ch #[]))
  let du : MC ℂ := tabC C (fun ch => nifft c (vh.getD ch #[]))
  if single then
    if conservative then
      let sq : MC ℂ := tabC C (fun ch => nfft c (tab G (fun j => at2 u ch j * at2 du ch j + at2 du ch j * at2 u ch j)))
      tab2 C M (fun ch h =>
        -scale * (qlit 1 2 * sumList ((List.range c.D).map (fun d => deriv c d h)) * at2 sq ch h))
    else
      let nab : MC ℂ := tabC c.D (fun d => nifft c (tab M (fun h => deriv c d h * at2 uh 0 h)))
      let dnab : MC ℂ := tabC c.D (fun d => nifft c (tab M (fun h => deriv c d h * at2 vh 0 h)))
      let conv := nfft c (tab G (fun j => sumList ((List.range c.D).map (fun d =>
        at2 u 0 j * at2 dnab d j + at2 du 0 j * at2 nab d j))))
      tab2 1 M (fun _ h => -scale * conv.getD h 0)
  else
    if conservative then
      let outer : MC ℂ := tabC (C * C) (fun ij => nfft c (tab G (fun x =>
        at2 u (ij % C) x * at2 du (ij / C) x + at2 du (ij % C) x * at2 u (ij / C) x)))
      tab2 C M (fun i h =>
        -scale * (qlit 1 2 * sumList ((List.range C).map (fun j => deriv c j h * at2 outer (i * C + j) h))))
    else
      let nab : MC ℂ := tabC (C * C) (fun ij => nifft c (tab M (fun h => deriv c (ij % C) h * at2 uh (ij / C) h)))
      let dnab : MC ℂ := tabC (C * C) (fun ij => nifft c (tab M (fun h => deriv c (ij % C) h * at2 vh (ij / C) h)))
      let conv : MC ℂ := tabC C (fun i =>
        nfft c (tab G (fun x => sumList ((List.range C).map (fun j =>
          at2 u j x * at2 dnab (i * C + j) x + at2 du j x * at2 nab (i * C + j) x)))))
      tab2 C M (fun i h => -scale * at2 conv i h)

/-- JVP of `gradientNorm`: `−b/2·P(2 ∇u·∇v − mean)` -/
noncomputable def gradientNormJvp (c : Cfg ℂ) (C : ℕ) (scale : ℂ) (zeroFix : Bool) (uh vh : MC ℂ) : MC ℂ :=
  let G := gridSize c
  let M := modes c
  let g : MC ℂ := tabC (C * c.D) (fun cd => nifft c (tab M (fun h => deriv c (cd % c.D) h * at2 uh (cd / c.D) h)))
  let dg : MC ℂ := tabC (C * c.D) (fun cd => nifft c (tab M (fun h => deriv c (cd % c.D) h * at2 vh (cd / c.D) h)))
  let q : MC ℂ := tab2 C G (fun ch x =>
    sumList ((List.range c.D).map (fun d =>
      at2 g (ch * c.D + d) x * at2 dg (ch * c.D + d) x + at2 dg (ch * c.D + d) x * at2 g (ch * c.D + d) x)))
  let mean : Array ℂ := tab C (fun ch => sumRange G (fun x => at2 q ch x) / lit G)
  let q' : MC ℂ := tab2 C G (fun ch x => if zeroFix then at2 q ch x - mean.getD ch 0 else at2 q ch x)
  let qh : MC ℂ := tabC C (fun ch => nfft c (q'.getD ch #[]))
  tab2 C M (fun ch h => -scale * (qlit 1 2 * at2 qh ch h))

/-- JVP of `vorticity2d` (the injection is a constant: it does not appear) -/
noncomputable def vorticity2dJvp (c : Cfg ℂ) (scale : ℂ) (uh vh : MC ℂ) : MC ℂ :=
  let G := gridSize c
  let M := modes c
  let psi : Array ℂ := tab M (fun h => invLapOne c h * at2 uh 0 h)
  let dpsi : Array ℂ := tab M (fun h => invLapOne c h * at2 vh 0 h)
  let u := nifft c (tab M (fun h => deriv c 1 h * psi.getD h 0))
  let du := nifft c (tab M (fun h => deriv c 1 h * dpsi.getD h 0))
  let v := nifft c (tab M (fun h => -(deriv c 0 h) * psi.getD h 0))
  let dv := nifft c (tab M (fun h => -(deriv c 0 h) * dpsi.getD h 0))
  let wx := nifft c (tab M (fun h => deriv c 0 h * at2 uh 0 h))
  let dwx := nifft c (tab M (fun h => deriv c 0 h * at2 vh 0 h))
  let wy := nifft c (tab M (fun h => deriv c 1 h * at2 uh 0 h))
  let dwy := nifft c (tab M (fun h => deriv c 1 h * at2 vh 0 h))
  let conv := nfft c (tab G (fun x =>
    (u.getD x 0 * dwx.getD x 0 + du.getD x 0 * wx.getD x 0) + (v.getD x 0 * dwy.getD x 0 + dv.getD x 0 * wy.getD x 0)))
  tab2 1 M (fun _ h => -scale * conv.getD h 0)

/-! ### the generic theorems -/

section Generic
variable {X Y : Type} {R : (X → ℂ) → (Y → ℂ) → Prop} {u : X}

/-- physical field of channel `ch` -/
theorem phys_rel (hM : FunMod₂ R) (c : Cfg ℂ) (C : ℕ) {f : X → MC ℂ} {f' : Y → MC ℂ} (hf : RelM R f f') (ch j : ℕ) :
    R (fun x => at2 (tabC C (fun ch => nifft c ((f x).getD ch #[]))) ch j)
      (fun v => at2 (tabC C (fun ch => nifft c ((f' v).getD ch #[]))) ch j) :=
  hM.tabC_rel C _ _ (fun ch _ j => hM.nifft_rel c _ _ (fun m => hf ch m) j) ch j

/-- a spectral derivative of a channel, in physical space: entry `j` of `nifft(σ · û_ch)` -/
theorem dphys_rel (hM : FunMod₂ R) (c : Cfg ℂ) (σ : ℕ → ℂ) {f : X → MC ℂ} {f' : Y → MC ℂ} (hf : RelM R f f') (ch j : ℕ) :
    R (fun x => (nifft c (tab (modes c) (fun h => σ h * at2 (f x) ch h))).getD j 0)
      (fun v => (nifft c (tab (modes c) (fun h => σ h * at2 (f' v) ch h))).getD j 0) :=
  hM.nifft_rel c _ _ (fun m => hM.tab_rel _ _ _ (fun h _ => hM.smul _ (hf ch h)) m) j

/-- **convection** maps related families to related families, the tangent being `convectionJvp` at the base point -/
theorem convection_rel (hR : FunAlg₂ R u) (c : Cfg ℂ) (C : ℕ) (scale : ℂ) (single conservative : Bool)
    {f : X → MC ℂ} {f' : Y → MC ℂ} (hf : RelM R f f') :
    RelM R (fun x => convection c C scale single conservative (f x))
      (fun v => convectionJvp c C scale single conservative (f u) (f' v)) := by
  have hM := hR.toFunMod₂
  intro ch h
  cases single <;> cases conservative
  · -- multi-channel, non-conservative
    simp only [convection, convectionJvp, Bool.false_eq_true, if_false]
    refine hM.tab2_rel _ _ _ _ (fun i _ h _ => hM.smul _ ?_) ch h
    refine hM.tabC_rel _ _ _ (fun i _ h => hM.nfft_rel c _ _ (fun x => ?_) h) i h
    refine hM.tab_rel _ _ _ (fun x _ => hM.sumList_range _ _ _ (fun j _ => ?_)) x
    refine hR.mul (phys_rel hM c C hf j x) ?_
    exact hM.tabC_rel _ _ _ (fun ij _ x => dphys_rel hM c _ hf _ x) _ x
  · -- multi-channel, conservative
    simp only [convection, convectionJvp, Bool.false_eq_true, if_false, if_true]
    refine hM.tab2_rel _ _ _ _ (fun i _ h _ => hM.smul _ (hM.smul _ ?_)) ch h
    refine hM.sumList_range _ _ _ (fun j _ => hM.smul _ ?_)
    refine hM.tabC_rel _ _ _ (fun ij _ h => hM.nfft_rel c _ _ (fun x => ?_) h) _ h
    refine hM.tab_rel _ _ _ (fun x _ => ?_) x
    exact hR.mul (phys_rel hM c C hf _ x) (phys_rel hM c C hf _ x)
  · -- single channel, non-conservative
    simp only [convection, convectionJvp, Bool.false_eq_true, if_false, if_true]
    refine hM.tab2_rel _ _ _ _ (fun i _ h _ => hM.smul _ ?_) ch h
    refine hM.nfft_rel c _ _ (fun x => ?_) h
    refine hM.tab_rel _ _ _ (fun x _ => hM.sumList_range _ _ _ (fun d _ => ?_)) x
    refine hR.mul (phys_rel hM c C hf 0 x) ?_
    exact hM.tabC_rel _ _ _ (fun d _ x => dphys_rel hM c _ hf _ x) _ x
  · -- single channel, conservative
    simp only [convection, convectionJvp, if_true]
    refine hM.tab2_rel _ _ _ _ (fun i _ h _ => hM.smul _ (hM.smul _ ?_)) ch h
    refine hM.tabC_rel _ _ _ (fun i _ h => hM.nfft_rel c _ _ (fun x => ?_) h) i h
    refine hM.tab_rel _ _ _ (fun x _ => ?_) x
    exact hR.mul (phys_rel hM c C hf _ x) (phys_rel hM c C hf _ x)

/-- **gradientNorm** maps related families to related families, the tangent being `gradientNormJvp` -/
theorem gradientNorm_rel (hR : FunAlg₂ R u) (c : Cfg ℂ) (C : ℕ) (scale : ℂ) (zeroFix : Bool)
    {f : X → MC ℂ} {f' : Y → MC ℂ} (hf : RelM R f f') :
    RelM R (fun x => gradientNorm c C scale zeroFix (f x))
      (fun v => gradientNormJvp c C scale zeroFix (f u) (f' v)) := by
  have hM := hR.toFunMod₂
  intro ch h
  simp only [gradientNorm, gradientNormJvp]
  -- the squared gradient `q` and its tangent
  have hq : ∀ ch x, R
      (fun y => at2 (tab2 C (gridSize c) (fun ch x => sumList ((List.range c.D).map (fun d =>
        at2 (tabC (C * c.D) (fun cd => nifft c (tab (modes c) (fun h => deriv c (cd % c.D) h * at2 (f y) (cd / c.D) h))))
            (ch * c.D + d) x *
          at2 (tabC (C * c.D) (fun cd => nifft c (tab (modes c) (fun h => deriv c (cd % c.D) h * at2 (f y) (cd / c.D) h))))
            (ch * c.D + d) x)))) ch x)
      (fun v => at2 (tab2 C (gridSize c) (fun ch x => sumList ((List.range c.D).map (fun d =>
        at2 (tabC (C * c.D) (fun cd => nifft c (tab (modes c) (fun h => deriv c (cd % c.D) h * at2 (f u) (cd / c.D) h))))
            (ch * c.D + d) x *
          at2 (tabC (C * c.D) (fun cd => nifft c (tab (modes c) (fun h => deriv c (cd % c.D) h * at2 (f' v) (cd / c.D) h))))
            (ch * c.D + d) x +
        at2 (tabC (C * c.D) (fun cd => nifft c (tab (modes c) (fun h => deriv c (cd % c.D) h * at2 (f' v) (cd / c.D) h))))
            (ch * c.D + d) x *
          at2 (tabC (C * c.D) (fun cd => nifft c (tab (modes c) (fun h => deriv c (cd % c.D) h * at2 (f u) (cd / c.D) h))))
            (ch * c.D + d) x)))) ch x) := by
    intro ch x
    refine hM.tab2_rel _ _ _ _ (fun ch _ x _ => hM.sumList_range _ _ _ (fun d _ => ?_)) ch x
    have hg : ∀ k x, R
        (fun y => at2 (tabC (C * c.D) (fun cd => nifft c (tab (modes c) (fun h => deriv c (cd % c.D) h * at2 (f y) (cd / c.D) h)))) k x)
        (fun v => at2 (tabC (C * c.D) (fun cd => nifft c (tab (modes c) (fun h => deriv c (cd % c.D) h * at2 (f' v) (cd / c.D) h)))) k x) :=
      fun k x => hM.tabC_rel _ _ _ (fun cd _ x => dphys_rel hM c _ hf _ x) k x
    exact hR.mul (hg _ x) (hg _ x)
  refine hM.tab2_rel _ _ _ _ (fun ch _ h _ => hM.smul _ (hM.smul _ ?_)) ch h
  refine hM.tabC_rel _ _ _ (fun ch _ h => hM.nfft_rel c _ _ (fun x => ?_) h) ch h
  refine hM.tab2_rel _ _ _ _ (fun ch _ x _ => ?_) ch x
  cases zeroFix
  · simp only [Bool.false_eq_true, if_false]
    exact hq ch x
  · simp only [if_true]
    refine hM.sub (hq ch x) ?_
    exact hM.tab_rel _ _ _ (fun ch _ => hM.div_const _ (hM.sumRange_rel _ _ _ (fun x _ => hq ch x))) ch

/-- **vorticity2d** (any injection) maps related families to related families, the tangent being `vorticity2dJvp` -/
theorem vorticity2d_rel (hR : FunAlg₂ R u) (c : Cfg ℂ) (scale : ℂ) (inj : Option (ℕ × ℂ))
    {f : X → MC ℂ} {f' : Y → MC ℂ} (hf : RelM R f f') :
    RelM R (fun x => vorticity2d c scale inj (f x)) (fun v => vorticity2dJvp c scale (f u) (f' v)) := by
  have hM := hR.toFunMod₂
  intro ch h
  simp only [vorticity2d, vorticity2dJvp]
  -- stream-function velocities: `nifft(σ · (invLap · ŵ))`
  have hpsi : ∀ (σ : ℕ → ℂ) x, R
      (fun y => (nifft c (tab (modes c) (fun h => σ h *
        (tab (modes c) (fun h => invLapOne c h * at2 (f y) 0 h)).getD h 0))).getD x 0)
      (fun v => (nifft c (tab (modes c) (fun h => σ h *
        (tab (modes c) (fun h => invLapOne c h * at2 (f' v) 0 h)).getD h 0))).getD x 0) :=
    fun σ x => hM.nifft_rel c _ _ (fun m => hM.tab_rel _ _ _ (fun h _ => hM.smul _
      (hM.tab_rel _ _ _ (fun h _ => hM.smul _ (hf 0 h)) h)) m) x
  -- the base term
  have hbase : ∀ h, R
      (fun y => -scale * (nfft c (tab (gridSize c) (fun x =>
        (nifft c (tab (modes c) (fun h => deriv c 1 h * (tab (modes c) (fun h => invLapOne c h * at2 (f y) 0 h)).getD h 0))).getD x 0 *
          (nifft c (tab (modes c) (fun h => deriv c 0 h * at2 (f y) 0 h))).getD x 0 +
        (nifft c (tab (modes c) (fun h => -(deriv c 0 h) * (tab (modes c) (fun h => invLapOne c h * at2 (f y) 0 h)).getD h 0))).getD x 0 *
          (nifft c (tab (modes c) (fun h => deriv c 1 h * at2 (f y) 0 h))).getD x 0))).getD h 0)
      (fun v => -scale * (nfft c (tab (gridSize c) (fun x =>
        ((nifft c (tab (modes c) (fun h => deriv c 1 h * (tab (modes c) (fun h => invLapOne c h * at2 (f u) 0 h)).getD h 0))).getD x 0 *
          (nifft c (tab (modes c) (fun h => deriv c 0 h * at2 (f' v) 0 h))).getD x 0 +
         (nifft c (tab (modes c) (fun h => deriv c 1 h * (tab (modes c) (fun h => invLapOne c h * at2 (f' v) 0 h)).getD h 0))).getD x 0 *
          (nifft c (tab (modes c) (fun h => deriv c 0 h * at2 (f u) 0 h))).getD x 0) +
        ((nifft c (tab (modes c) (fun h => -(deriv c 0 h) * (tab (modes c) (fun h => invLapOne c h * at2 (f u) 0 h)).getD h 0))).getD x 0 *
          (nifft c (tab (modes c) (fun h => deriv c 1 h * at2 (f' v) 0 h))).getD x 0 +
         (nifft c (tab (modes c) (fun h => -(deriv c 0 h) * (tab (modes c) (fun h => invLapOne c h * at2 (f' v) 0 h)).getD h 0))).getD x 0 *
          (nifft c (tab (modes c) (fun h => deriv c 1 h * at2 (f u) 0 h))).getD x 0)))).getD h 0) := by
    intro h
    refine hM.smul _ (hM.nfft_rel c _ _ (fun x => hM.tab_rel _ _ _ (fun x _ => ?_) x) h)
    exact hM.add (hR.mul (hpsi _ x) (dphys_rel hM c _ hf 0 x)) (hR.mul (hpsi _ x) (dphys_rel hM c _ hf 0 x))
  refine hM.tab2_rel _ _ _ _ (fun _ _ h _ => ?_) ch h
  cases inj with
  | none => exact hbase h
  | some mg =>
    obtain ⟨m, gam⟩ := mg
    simp only []
    split_ifs
    · have := hM.add (hbase h) (hR.const
        (-(c.s * (IntCast.intCast ((wnFlat c.D c.N h).getD 1 0) : ℂ)) * gam *
          scaling c.D c.N 2 (unflatten (wavenumberShape c.D c.N) h)))
      simpa only [add_zero] using this
    · have := hM.add (hbase h) (hR.const 0)
      simpa only [add_zero] using this

end Generic

end Exponax.DiffTerms
