import ExponaxModel.Proofs.IncompressibleXY
import ExponaxModel.Proofs.RepeatedPhysicalInvariant
import ExponaxModel.Proofs.SmallGaps4Isometry
/-
`exponax.make_incompressible` (C10) on NYQUIST-FREE real fields, EVERY grid size (even included), over `ℂ`, `D ≥ 2`.

`IncompressibleXY` proves "divergence-free at every stored mode" and "idempotent" for the physical-space result only on
odd grids (or at the stored modes of Hermitian weight 2): on an even grid `irfftn` keeps only the Hermitian part of the
self-conjugate columns, and at a stored mode that mixes a Nyquist and a non-Nyquist wavenumber the conjugate partner does
not carry the opposite wave vector.  A field without content at the modes with a Nyquist wavenumber component does not
see this:

  1. `deriv_conjIdx_of_not_nyq`        off the Nyquist modes the derivative symbol at the partner mode is the conjugate one;
     `at2_leray_zero_of_zero`          the Leray projection of a spectrum vanishing at a mode vanishes at that mode;
     `fixedAt_of_real_nyquist_free`    REAL Nyquist-free field, ANY `N`: the projected spectrum is Hermitian-consistent,
                                       i.e. `FixedAt` at EVERY stored mode;
     `leray_spectrum_nyqFree`          … and it is again Nyquist-free;
  2. `make_incompressible_{xy,ij}_divfree_nyquist_free`, `…_idem_nyquist_free`
                                       the result is divergence-free at EVERY stored mode (also the whole `k_last = 0`
                                       plane and the Nyquist column), and `make_incompressible` is idempotent there;
  3. `make_incompressible_fixes_divfree`   every real field (any `D ≥ 1`, any `N ≥ 1`, any indexing string, NO Nyquist
                                       hypothesis needed) that is spectrally divergence-free at every stored mode is
                                       returned unchanged, as an equality of the whole arrays.
`NyqFreeField` is implied by `ExactLinear.BandLimited` of every component (`nyqFreeField_of_bandLimited`); on odd grids
it is vacuous (`nyqFreeField_of_odd`), so the odd-grid theorems of `IncompressibleXY` are special cases.
-/
set_option linter.unusedVariables false
namespace Exponax.IncompressibleNyquistFree
open Exponax Exponax.Layout Exponax.Transform Exponax.Nonlin Exponax.Gen.SpectralOps Exponax.NonlinFunsEq
  Exponax.SpectralOpsEq Exponax.SmallGaps2 Exponax.Gen.SpectralLayout Exponax.IncompressibleXY

/-! ### Nyquist-free vector fields -/

/-- every one of the first `D` components of the field has a spectrum that vanishes at the stored modes with a Nyquist
    wavenumber component (`C2R.NyqMode`: `N` even and `|k_d| = N/2` for some axis `d`) -/
def NyqFreeField (D N : ℕ) (field : MC ℂ) : Prop :=
  ∀ d < D, C2R.NyqFree D N (rfftnM D N (field.getD d #[]))

/-- a real vector field: the first `D` components have zero imaginary parts on the grid -/
def RealField (D N : ℕ) (field : MC ℂ) : Prop :=
  ∀ d < D, ∀ j < N ^ D, ((field.getD d #[]).getD j 0).im = 0

/-- on odd grids every field is Nyquist-free -/
theorem nyqFreeField_of_odd (D N : ℕ) (hodd : N % 2 = 1) (field : MC ℂ) : NyqFreeField D N field :=
  fun d _ => C2R.odd_grid_nyqFree D N hodd _

/-- `ExactLinear.BandLimited` (no content at the modes that are not strictly below Nyquist) of every component
    implies `NyqFreeField` -/
theorem nyqFreeField_of_bandLimited (D N : ℕ) (field : MC ℂ)
    (hb : ∀ d < D, ExactLinear.BandLimited D N (field.getD d #[])) : NyqFreeField D N field := by
  intro d hd h hh hq
  obtain ⟨hev, e, he, hab⟩ := hq
  exact hb d hd h hh (SmallGaps.not_belowNyquist_of_nyquist_component D N _ e he hev hab)

theorem nyqFreeField_swapCh (D N : ℕ) (hD : 2 ≤ D) (field : MC ℂ) (hf : 2 ≤ field.size)
    (hnf : NyqFreeField D N field) : NyqFreeField D N (swapCh field) := by
  intro d hd
  rw [swapCh_getD field hf]
  exact hnf _ (sw_lt D d hD hd)

/-! ### 1. the projected spectrum of a real Nyquist-free field is Hermitian-consistent -/

/-- **off the Nyquist modes, every `N`**: the derivative symbol at the conjugate partner is the conjugate symbol -/
theorem deriv_conjIdx_of_not_nyq (D N : ℕ) (hD : 0 < D) (hN : 0 < N) (h : ℕ) (hh : h < numModes D N)
    (hw : herm_weight D N h = 1) (hq : ¬ C2R.NyqMode D N h) (d : ℕ) (hd : d < D) :
    deriv (cfg D N 1) d (C2R.conjIdx D N h) = (starRingEnd ℂ) (deriv (cfg D N 1) d h) := by
  rw [deriv_eq_real _ _ (cfg_s_one D N), deriv_eq_real _ _ (cfg_s_one D N)]
  have : (wnFlat D N (C2R.conjIdx D N h)).getD d 0 = -(wnFlat D N h).getD d 0 := by
    rcases C2R.wnFlat_conjIdx_getD D N h d hD hN hh hw hd with h1 | ⟨hev, hab, _⟩
    · exact h1
    · exact absurd ⟨hev, d, hd, hab⟩ hq
  simp only [kInt, cfg_D, cfg_N, this, map_mul, Complex.conj_I, Complex.conj_ofReal]
  push_cast
  ring

/-- the Leray projection acts mode by mode: where the spectrum vanishes (all channels), so does its projection -/
theorem at2_leray_zero_of_zero (c : Cfg ℂ) (uh : MC ℂ) (h : ℕ) (hh : h < modes c)
    (hz : ∀ e < c.D, at2 uh e h = 0) (d : ℕ) (hd : d < c.D) : at2 (leray c uh) d h = 0 := by
  rw [at2_leray_matrix c uh d h hd hh]
  exact Finset.sum_eq_zero (fun e he => by rw [hz e (Finset.mem_range.mp he), mul_zero])

/-- the entries of the channel-swapped spectrum of a field -/
theorem at2_swapCh_specOf (D N : ℕ) (hD : 2 ≤ D) (field : MC ℂ) (e m : ℕ) (he : e < D) :
    at2 (swapCh (specOf D N field)) e m = (rfftnM D N (field.getD (sw e) #[])).getD m 0 := by
  rw [at2_swapCh _ (by rw [specOf_size]; exact hD)]
  unfold at2
  rw [specOf_getD D N _ _ (sw_lt D e hD he)]

/-- **ANY `N`, real Nyquist-free field**: the projected spectrum (`"xy"` convention) is the spectrum of a real field —
    a fixed point of `rfftn ∘ irfftn` at EVERY stored mode -/
theorem fixedAt_of_real_nyquist_free (D N : ℕ) (hD : 2 ≤ D) (hN : 0 < N) (field : MC ℂ) (hf : 2 ≤ field.size)
    (hreal : RealField D N field) (hnf : NyqFreeField D N field) (h : ℕ) (hh : h < numModes D N) :
    FixedAt D N (lerayXY D N (specOf D N field)) h := by
  have hD0 : 0 < D := by omega
  intro d hd
  refine (C2R.c2r_fixed_iff_herm D N hD0 hN _).mpr ?_ h hh
  intro m hm hw
  have hm' := C2R.conjIdx_lt D N m hD0 hN
  have e1 : ∀ x, ((lerayXY D N (specOf D N field)).getD d #[]).getD x 0
      = at2 (leray (cfg D N 1) (swapCh (specOf D N field))) (sw d) x := fun x => at2_lerayXY D N hD _ d x
  rw [e1, e1]
  by_cases hq : C2R.NyqMode D N m
  · -- Nyquist mode: the spectrum vanishes at `m` and at its partner, hence so does the projection
    have hq' : C2R.NyqMode D N (C2R.conjIdx D N m) := (C2R.nyqMode_conjIdx_iff D N m hD0 hN hm hw).mpr hq
    have z1 : ∀ e < (cfg D N 1).D, at2 (swapCh (specOf D N field)) e m = 0 := by
      intro e he
      simp only [cfg_D] at he
      rw [at2_swapCh_specOf D N hD field e m he]
      exact hnf _ (sw_lt D e hD he) m hm hq
    have z2 : ∀ e < (cfg D N 1).D, at2 (swapCh (specOf D N field)) e (C2R.conjIdx D N m) = 0 := by
      intro e he
      simp only [cfg_D] at he
      rw [at2_swapCh_specOf D N hD field e _ he]
      exact hnf _ (sw_lt D e hD he) _ hm' hq'
    rw [at2_leray_zero_of_zero (cfg D N 1) _ m (by simpa only [modes_cfg] using hm) z1 (sw d)
        (by simpa only [cfg_D] using sw_lt D d hD hd),
      at2_leray_zero_of_zero (cfg D N 1) _ (C2R.conjIdx D N m) (by simpa only [modes_cfg] using hm') z2 (sw d)
        (by simpa only [cfg_D] using sw_lt D d hD hd), map_zero]
  · have key := leray_conj_pair (cfg D N 1) (swapCh (specOf D N field)) m (C2R.conjIdx D N m) hm hm'
      (fun e he => deriv_conjIdx_of_not_nyq D N hD0 hN m hm hw hq e he)
      (fun e he => by
        simp only [cfg_D] at he
        rw [at2_swapCh_specOf D N hD field e _ he, at2_swapCh_specOf D N hD field e _ he]
        exact C2R.rfftn_conjIdx_of_real D N hD0 hN _ (hreal _ (sw_lt D e hD he)) m hm hw)
      (sw d) (sw_lt D d hD hd)
    rw [key, Complex.conj_conj]

/-- the projected spectrum of a Nyquist-free field (real or not) is again Nyquist-free, channel by channel -/
theorem leray_spectrum_nyqFree (D N : ℕ) (hD : 2 ≤ D) (hN : 0 < N) (field : MC ℂ) (hf : 2 ≤ field.size)
    (hnf : NyqFreeField D N field) (d : ℕ) (hd : d < D) :
    C2R.NyqFree D N ((lerayXY D N (specOf D N field)).getD d #[]) := by
  intro m hm hq
  have e1 : ((lerayXY D N (specOf D N field)).getD d #[]).getD m 0
      = at2 (leray (cfg D N 1) (swapCh (specOf D N field))) (sw d) m := at2_lerayXY D N hD _ d m
  rw [e1]
  apply at2_leray_zero_of_zero (cfg D N 1) _ m (by simpa only [modes_cfg] using hm) _ (sw d)
    (by simpa only [cfg_D] using sw_lt D d hD hd)
  intro e he
  simp only [cfg_D] at he
  rw [at2_swapCh_specOf D N hD field e m he]
  exact hnf _ (sw_lt D e hD he) m hm hq

/-! ### 2. divergence-free at EVERY stored mode, idempotent — both indexings, every `N` -/

/-- **any `N`, real Nyquist-free field: the result of `make_incompressible(·, "xy")` is divergence-free in the `"xy"`
    convention at EVERY stored mode** -/
theorem make_incompressible_xy_divfree_nyquist_free (D N : ℕ) (hD : 2 ≤ D) (hN : 0 < N) (field : MC ℂ)
    (hf : 2 ≤ field.size) (hreal : RealField D N field) (hnf : NyqFreeField D N field)
    (h : ℕ) (hh : h < numModes D N) :
    sumList ((List.range D).map (fun d => derivative_operator_entry D (1 : ℂ) N "xy" d h *
      (rfftnM D N ((make_incompressible D N D "xy" field).getD d #[])).getD h 0)) = 0 :=
  make_incompressible_xy_divfree_of_fixed D N hD hN field hf h hh
    (fixedAt_of_real_nyquist_free D N hD hN field hf hreal hnf h hh)

/-- **any `N`, real Nyquist-free field: `make_incompressible(·, "xy")` is idempotent** (equality of the arrays) -/
theorem make_incompressible_xy_idem_nyquist_free (D N : ℕ) (hD : 2 ≤ D) (hN : 0 < N) (field : MC ℂ)
    (hf : 2 ≤ field.size) (hreal : RealField D N field) (hnf : NyqFreeField D N field) :
    make_incompressible D N D "xy" (make_incompressible D N D "xy" field)
      = make_incompressible D N D "xy" field :=
  make_incompressible_xy_idem_of_fixed D N hD hN field hf
    (fun h hh => fixedAt_of_real_nyquist_free D N hD hN field hf hreal hnf h hh)

/-- `"ij"`, any `N`, real Nyquist-free field: divergence-free result at EVERY stored mode -/
theorem make_incompressible_ij_divfree_nyquist_free (D N : ℕ) (hD : 2 ≤ D) (hN : 0 < N) (field : MC ℂ)
    (hf : 2 ≤ field.size) (hreal : RealField D N field) (hnf : NyqFreeField D N field)
    (h : ℕ) (hh : h < numModes D N) :
    sumList ((List.range D).map (fun d => derivative_operator_entry D (1 : ℂ) N "ij" d h *
      (rfftnM D N ((make_incompressible D N D "ij" field).getD d #[])).getD h 0)) = 0 :=
  make_incompressible_ij_divfree_of_xy D N hD hN field hf h
    (make_incompressible_xy_divfree_nyquist_free D N hD hN _ (by rw [swapCh_size]; exact hf)
      (swapCh_real D N hD field hf hreal) (nyqFreeField_swapCh D N hD field hf hnf) h hh)

/-- `"ij"`, any `N`, real Nyquist-free field: `make_incompressible` is idempotent -/
theorem make_incompressible_ij_idem_nyquist_free (D N : ℕ) (hD : 2 ≤ D) (hN : 0 < N) (field : MC ℂ)
    (hf : 2 ≤ field.size) (hreal : RealField D N field) (hnf : NyqFreeField D N field) :
    make_incompressible D N D "ij" (make_incompressible D N D "ij" field)
      = make_incompressible D N D "ij" field := by
  have hs : 2 ≤ (make_incompressible D N D "ij" field).size := by rw [make_incompressible_size]; exact hD
  rw [make_incompressible_ij_of_xy D N hD hN _ hs, make_incompressible_ij_of_xy D N hD hN field hf, swapCh_swapCh,
    make_incompressible_xy_idem_nyquist_free D N hD hN _ (by rw [swapCh_size]; exact hf)
      (swapCh_real D N hD field hf hreal) (nyqFreeField_swapCh D N hD field hf hnf)]

/-- the result of `make_incompressible` on a Nyquist-free field is again Nyquist-free (`"xy"`; real field) -/
theorem make_incompressible_xy_nyqFree (D N : ℕ) (hD : 2 ≤ D) (hN : 0 < N) (field : MC ℂ)
    (hf : 2 ≤ field.size) (hreal : RealField D N field) (hnf : NyqFreeField D N field) :
    NyqFreeField D N (make_incompressible D N D "xy" field) := by
  intro d hd m hm hq
  rw [make_incompressible_xy_getD D N hD hN field hf d hd,
    fixedAt_of_real_nyquist_free D N hD hN field hf hreal hnf m hm d hd]
  exact leray_spectrum_nyqFree D N hD hN field hf hnf d hd m hm hq

/-- the result of `make_incompressible` is a real field with `D` channels of `N^D` entries (any field, any indexing) -/
theorem make_incompressible_realState (D N : ℕ) (hN : 0 < N) (ix : String) (field : MC ℂ) (d : ℕ) (hd : d < D) :
    C2R.RealState D N ((make_incompressible D N D ix field).getD d #[]) := by
  rw [make_incompressible_spec, tabC_getD _ _ _ hd]
  exact C2R.irfftn_realState D N hN _

/-! ### 3. spectrally divergence-free real fields are returned unchanged -/

theorem tabC_getD_self (D : ℕ) (u : MC ℂ) (hu : u.size = D) : tabC D (fun i => u.getD i #[]) = u := by
  unfold tabC tab
  apply Array.ext
  · simp [hu]
  · intro i h1 h2
    simp [Array.getD, h2]

/-- **`make_incompressible(u, indexing) = u`** (equality of the whole `(D, N, …, N)` arrays) for every real field `u`
    with `D` channels that is spectrally divergence-free at every stored mode — every `D ≥ 1`, every `N ≥ 1` (even
    included), every indexing string; no hypothesis on the Nyquist modes is needed here -/
theorem make_incompressible_fixes_divfree (D N : ℕ) (hD : 0 < D) (hN : 0 < N) (ix : String) (u : MC ℂ)
    (hsz : u.size = D) (hreal : ∀ d < D, C2R.RealState D N (u.getD d #[]))
    (hdiv : ∀ h < numModes D N,
      sumList ((List.range D).map (fun d => derivative_operator_entry D (1 : ℂ) N ix d h *
        (rfftnM D N (u.getD d #[])).getD h 0)) = 0) :
    make_incompressible D N D ix u = u := by
  rw [make_incompressible_spec]
  conv_rhs => rw [← tabC_getD_self D u hsz]
  apply tabC_congr; intro i hi
  have : tab (numModes D N) (fun h => projSpec D N ix u i h) = rfftnM D N (u.getD i #[]) := by
    apply C2R.array_ext_getD _ _ (numModes D N) (by simp) (Exponax.DFT.rfftnM_size D N _)
    intro h hh
    rw [tab_getD _ _ _ _ hh]
    unfold projSpec
    rw [hdiv h hh, mul_zero, mul_zero, sub_zero]
  rw [this, C2R.irfftn_rfftn_of_realState D N hD hN _ (hreal i hi)]

/-! ### 4. non-vacuity on an EVEN grid -/

/-- the real state `cos(x + y + 0.5)`-type mode `(1, 1)` on the even `4 × 4` grid, used for both channels -/
noncomputable def exState : Array ℂ := ExactLinear.stateOf 2 4 [([1, 1], 2, 0.5)]

/-- an even-grid two-channel field -/
noncomputable def exField : MC ℂ := #[exState, exState]

theorem exField_getD (d : ℕ) (hd : d < 2) : exField.getD d #[] = exState := by
  interval_cases d <;> rfl

theorem exField_real : RealField 2 4 exField := by
  intro d hd j hj
  rw [exField_getD d hd]
  exact ExactLinear.stateOf_real 2 4 _ j hj

theorem exField_nyqFree : NyqFreeField 2 4 exField := by
  apply nyqFreeField_of_bandLimited
  intro d hd
  rw [exField_getD d hd]
  have hms : ∀ m ∈ ([([1, 1], 2, 0.5)] : ExactLinear.Modes), ExactLinear.BelowNyquist 2 4 m.1 := by
    intro m hm
    simp only [List.mem_cons, List.mem_nil_iff, or_false] at hm
    subst hm
    exact ⟨rfl, by intro d hd; interval_cases d <;> simp⟩
  exact ExactLinear.bandLimited_stateOf 2 4 (by norm_num) (by norm_num) _ hms

/-- **non-vacuity, even grid** (`D = 2`, `N = 4`): a real Nyquist-free two-channel field exists; the grid has stored
    modes on the self-conjugate columns that are Nyquist modes (`(1, 2)`, stored index 5, weight 1) and the mode `0` of
    the `k_last = 0` plane (weight 1) — modes that neither the weight-2 nor the odd-grid theorems reach -/
example : ∃ (D N : ℕ) (field : MC ℂ), 2 ≤ D ∧ 0 < N ∧ N % 2 = 0 ∧ 2 ≤ field.size ∧ RealField D N field ∧
    NyqFreeField D N field ∧ (5 : ℕ) < numModes D N ∧ herm_weight D N 5 = 1 ∧ herm_weight D N 0 = 1 :=
  ⟨2, 4, exField, by norm_num, by norm_num, by norm_num, by simp [exField], exField_real, exField_nyqFree,
    by decide, by decide, by decide⟩

/-- **non-vacuity of `make_incompressible_fixes_divfree`, even grid**: every output of `make_incompressible` on a real
    Nyquist-free field satisfies its hypotheses (size, reality, spectrally divergence-free at EVERY stored mode) -/
example : ∃ (u : MC ℂ), u.size = 2 ∧ (∀ d < 2, C2R.RealState 2 4 (u.getD d #[])) ∧
    (∀ h < numModes 2 4,
      sumList ((List.range 2).map (fun d => derivative_operator_entry 2 (1 : ℂ) 4 "ij" d h *
        (rfftnM 2 4 (u.getD d #[])).getD h 0)) = 0) :=
  ⟨make_incompressible 2 4 2 "ij" exField, make_incompressible_size 2 4 "ij" exField,
    fun d hd => make_incompressible_realState 2 4 (by norm_num) "ij" exField d hd,
    fun h hh => make_incompressible_ij_divfree_nyquist_free 2 4 (by norm_num) (by norm_num) exField
      (by simp [exField]) exField_real exField_nyqFree h hh⟩

end Exponax.IncompressibleNyquistFree
