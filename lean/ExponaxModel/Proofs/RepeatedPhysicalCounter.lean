import ExponaxModel.Proofs.RepeatedPhysicalDiag
/-
C14 support, part 3 — COUNTEREXAMPLE: without the hypothesis "`F` preserves `Realisable`" the physical
loop and Fourier-space sub-stepping differ.  `D = 1`, `N = 2`, `F` = multiplication of the Nyquist bin
by `I` (the symbol of one derivative / of an advection step), `u = (1, −1)` (pure Nyquist content),
`n = 2`:  the loop gives `(0, 0)`, sub-stepping gives `(−1, 1)`.
-/
set_option linter.unusedVariables false
set_option linter.unusedSimpArgs false
namespace Exponax.C2R
open Exponax Exponax.Layout Exponax.Transform Exponax.DFT Exponax.Conserve Finset

/-! ### closed forms of the transforms on the 2-point grid -/

theorem rfft2_zero (v : Array ℂ) : (rfftnM 1 2 v).getD 0 0 = v.getD 0 0 + v.getD 1 0 := by
  rw [rfft1_getD 2 (by norm_num) _ 0 (by norm_num), dft, Finset.sum_range_succ, Finset.sum_range_one]
  simp

theorem rfft2_one (v : Array ℂ) : (rfftnM 1 2 v).getD 1 0 = v.getD 0 0 - v.getD 1 0 := by
  rw [rfft1_getD 2 (by norm_num) _ 1 (by norm_num), dft, Finset.sum_range_succ, Finset.sum_range_one,
    zeta_two]
  simp
  ring

theorem irfft2_zero (c : Array ℂ) :
    (irfftnM 1 2 c).getD 0 0 = ((((c.getD 0 0).re + (c.getD 1 0).re) / 2 : ℝ) : ℂ) := by
  rw [irfft1_getD 2 (by norm_num) _ 0 (by norm_num), show 2 / 2 + 1 = 2 from rfl,
    Finset.sum_range_succ, Finset.sum_range_one, herm_weight_one, herm_weight_one,
    if_pos (Or.inl rfl), if_pos (Or.inr ⟨rfl, rfl⟩)]
  simp

theorem irfft2_one (c : Array ℂ) :
    (irfftnM 1 2 c).getD 1 0 = ((((c.getD 0 0).re - (c.getD 1 0).re) / 2 : ℝ) : ℂ) := by
  rw [irfft1_getD 2 (by norm_num) _ 1 (by norm_num), show 2 / 2 + 1 = 2 from rfl,
    Finset.sum_range_succ, Finset.sum_range_one, herm_weight_one, herm_weight_one,
    if_pos (Or.inl rfl), if_pos (Or.inr ⟨rfl, rfl⟩), zeta_two]
  simp
  ring

/-! ### the counterexample -/

/-- the symbol: `I` on the Nyquist bin `h = 1`, identity elsewhere -/
noncomputable def nyqI : ℕ → ℂ := fun h => if h = 1 then Complex.I else 1

/-- the Fourier step of the counterexample -/
noncomputable def FnyqI : Array ℂ → Array ℂ := diagStep 1 2 nyqI

theorem FnyqI_zero (C : Array ℂ) : (FnyqI C).getD 0 0 = C.getD 0 0 := by
  rw [FnyqI, diagStep_getD 1 2 _ _ 0 (by rw [numModes_one]; norm_num)]
  simp [nyqI]

theorem FnyqI_one (C : Array ℂ) : (FnyqI C).getD 1 0 = Complex.I * C.getD 1 0 := by
  rw [FnyqI, diagStep_getD 1 2 _ _ 1 (by rw [numModes_one]; norm_num)]
  simp [nyqI]

/-- `FnyqI` does NOT preserve `Realisable` (its Nyquist factor is not real) -/
theorem FnyqI_not_preserving : ¬ ∀ C, Realisable 1 2 C → Realisable 1 2 (FnyqI C) := by
  intro H
  have := ((diag_preserves_realisable_1d_iff 2 (by norm_num) nyqI).mp H).2 rfl
  simp [nyqI] at this

/-- one physical-space call annihilates the saw-tooth: `irfftn (F (rfftn (1, −1))) = (0, 0)` entrywise -/
theorem loop_one_sawtooth (j : ℕ) (hj : j < 2) :
    (irfftnM 1 2 (FnyqI (rfftnM 1 2 #[(1 : ℂ), -1]))).getD j 0 = 0 := by
  have hj' : j = 0 ∨ j = 1 := by omega
  rcases hj' with rfl | rfl
  · rw [irfft2_zero, FnyqI_zero, FnyqI_one, rfft2_zero, rfft2_one]
    simp
  · rw [irfft2_one, FnyqI_zero, FnyqI_one, rfft2_zero, rfft2_one]
    simp

/-- the physical loop, `n = 2`, at grid point `0`: value `0` -/
theorem loop_two_sawtooth :
    ((fun v => irfftnM 1 2 (FnyqI (rfftnM 1 2 v)))^[2] #[(1 : ℂ), -1]).getD 0 0 = 0 := by
  show (irfftnM 1 2 (FnyqI (rfftnM 1 2 (irfftnM 1 2 (FnyqI (rfftnM 1 2 #[(1 : ℂ), -1])))))).getD 0 0 = 0
  rw [irfft2_zero, FnyqI_zero, FnyqI_one, rfft2_zero, rfft2_one,
    loop_one_sawtooth 0 (by norm_num), loop_one_sawtooth 1 (by norm_num)]
  simp

/-- Fourier-space sub-stepping, `n = 2`, at grid point `0`: value `−1` -/
theorem substep_two_sawtooth :
    (irfftnM 1 2 (FnyqI^[2] (rfftnM 1 2 #[(1 : ℂ), -1]))).getD 0 0 = -1 := by
  show (irfftnM 1 2 (FnyqI (FnyqI (rfftnM 1 2 #[(1 : ℂ), -1])))).getD 0 0 = -1
  rw [irfft2_zero, FnyqI_zero, FnyqI_one, FnyqI_zero, FnyqI_one, rfft2_zero, rfft2_one]
  simp

/-- **COUNTEREXAMPLE.**  `D = 1`, `N = 2`, the real grid state `u = (1, −1)`, the Fourier step that
    multiplies the Nyquist bin by `I`, `n = 2`: the physical-space loop and Fourier-space sub-stepping
    DIFFER (so the hypothesis of `repeated_eq_loop` cannot be dropped). -/
theorem repeated_ne_loop_nyquist :
    (fun v => irfftnM 1 2 (FnyqI (rfftnM 1 2 v)))^[2] #[(1 : ℂ), -1]
      ≠ irfftnM 1 2 (FnyqI^[2] (rfftnM 1 2 #[(1 : ℂ), -1])) := by
  intro heq
  have h1 := loop_two_sawtooth
  rw [heq, substep_two_sawtooth] at h1
  norm_num at h1

/-- the same about the model functions `Loops.repeatN` / `Loops.repeatedStepFourier` -/
theorem repeatedStepper_ne_loop_nyquist :
    Loops.repeatN (fun v => irfftnM 1 2 (FnyqI (rfftnM 1 2 v))) 2 #[(1 : ℂ), -1]
      ≠ irfftnM 1 2 (Loops.repeatedStepFourier FnyqI 2 (rfftnM 1 2 #[(1 : ℂ), -1])) := by
  rw [Loops.repeatedStepFourier, Loops.repeatN_eq_iterate, Loops.repeatN_eq_iterate]
  exact repeated_ne_loop_nyquist

/-- the cause: the spectrum after one Fourier step is not realisable, `rfftn ∘ irfftn` changes it -/
theorem FnyqI_sawtooth_not_realisable : ¬ Realisable 1 2 (FnyqI (rfftnM 1 2 #[(1 : ℂ), -1])) := by
  intro hR
  have h1 := hR.2 1 (by rw [numModes_one]; norm_num) ((herm_weight_one_iff 2 1).mpr (Or.inr ⟨rfl, rfl⟩))
  rw [conjIdx_one 2 1 (by rw [numModes_one]; norm_num), FnyqI_one, rfft2_one] at h1
  have h2 := congrArg Complex.im h1
  simp at h2
  norm_num at h2

end Exponax.C2R
