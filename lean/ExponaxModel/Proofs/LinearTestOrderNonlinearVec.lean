import ExponaxModel.Proofs.LinearTestOrderNonlinear
/-
C02 support — T5 for SYSTEMS: exponential Euler (the regenerated `Gen.Etdrk.E1step` on vectors `ι → ℂ` with
pointwise operations — exactly how the stepper acts on a Fourier coefficient array) for

      u' = L u + N(u),   L = diag(l k)  (the Fourier symbol),   N : (ι → ℂ) → (ι → ℂ)  K-Lipschitz (sup norm),

with the exact coefficients `e^{l k dt}`, `dt·φ₁(l k dt)` per mode.  The error constant depends on the
spectrum only through `ω ≥ max(0, sup_k Re l k)` — NOT on `sup_k |l k|`: the bound is uniform in the stiffness.

 * `expEulerVec_local_error`   `‖u(t+h) − S_h(u t)‖ ≤ e^{ωh} K M h²/2`
 * `expEulerVec_stable`        `‖S x − S y‖ ≤ e^{ω dt}(1 + K dt)‖x − y‖`
 * `expEulerVec_global_error`  `‖u(n dt) − Sⁿ(u 0)‖ ≤ K M T/2 · e^{(2ω+K)T} · dt`   (`n·dt ≤ T`)
   (`M` bounds `‖u'‖ = ‖L u + N(u)‖` on `[0,T]`.)
-/
set_option linter.unusedVariables false
noncomputable section
namespace Exponax.LinearOrder
open Exponax Exponax.Spec Exponax.ContourTail Exponax.Gen.Etdrk

variable {ι : Type} [Fintype ι]

/-- the exponential-Euler step on vectors: the regenerated `E1step` with per-mode exact coefficients -/
def expEulerVec (l : ι → ℂ) (N : (ι → ℂ) → (ι → ℂ)) (dt : ℝ) : (ι → ℂ) → (ι → ℂ) :=
  E1step (fun k => Complex.exp (l k * dt)) (fun k => dt * phi1e (l k * dt)) N

omit [Fintype ι] in
theorem expEulerVec_apply (l : ι → ℂ) (N : (ι → ℂ) → (ι → ℂ)) (dt : ℝ) (x : ι → ℂ) (k : ι) :
    expEulerVec l N dt x k = Complex.exp (l k * dt) * x k + dt * phi1e (l k * dt) * N x k := rfl

/-- abstract Lady Windermere's fan: local defect `≤ B`, stability constant `A ≥ 1` ⟹ `‖eₙ‖ ≤ n B Aⁿ` -/
theorem fan {V : Type} [NormedAddCommGroup V] (S : V → V) (U : ℕ → V) (A B : ℝ) (hA : 1 ≤ A)
    (hB : 0 ≤ B) (n : ℕ) (hloc : ∀ k < n, ‖U (k + 1) - S (U k)‖ ≤ B)
    (hstab : ∀ x y, ‖S x - S y‖ ≤ A * ‖x - y‖) :
    ‖U n - S^[n] (U 0)‖ ≤ n * B * A ^ n := by
  refine discrete_gronwall (fun k => ‖U k - S^[k] (U 0)‖) A B hA hB n (by simp) (fun k hk => ?_) n le_rfl
  rw [Function.iterate_succ_apply']
  calc ‖U (k + 1) - S (S^[k] (U 0))‖
      = ‖(U (k + 1) - S (U k)) + (S (U k) - S (S^[k] (U 0)))‖ := by congr 1; abel
    _ ≤ ‖U (k + 1) - S (U k)‖ + ‖S (U k) - S (S^[k] (U 0))‖ := norm_add_le _ _
    _ ≤ B + A * ‖U k - S^[k] (U 0)‖ := add_le_add (hloc k hk) (hstab _ _)
    _ = A * ‖U k - S^[k] (U 0)‖ + B := by ring

/-- the arithmetic at the end of the convergence proof -/
theorem fan_arith (K M ω T dt : ℝ) (n : ℕ) (hK : 0 ≤ K) (hM : 0 ≤ M) (hω : 0 ≤ ω) (hdt : 0 ≤ dt)
    (hn : n * dt ≤ T) :
    n * (Real.exp (ω * dt) * (K * M) * dt ^ 2 / 2) * (Real.exp (ω * dt) * (1 + K * dt)) ^ n
      ≤ K * M * T / 2 * Real.exp ((2 * ω + K) * T) * dt := by
  have hT : 0 ≤ T := le_trans (mul_nonneg (Nat.cast_nonneg n) hdt) hn
  rcases Nat.eq_zero_or_pos n with rfl | hnpos
  · simp only [Nat.cast_zero, zero_mul, pow_zero]
    positivity
  have hn1 : (1 : ℝ) ≤ n := by exact_mod_cast hnpos
  have hdtT : dt ≤ T := le_trans (by nlinarith) hn
  set A := Real.exp (ω * dt) * (1 + K * dt) with hA
  have hA0 : 0 ≤ A := by positivity
  have hAn : A ^ n ≤ Real.exp ((ω + K) * T) := by
    have h1 : A ≤ Real.exp ((ω + K) * dt) := by
      have : 1 + K * dt ≤ Real.exp (K * dt) := by
        have := Real.add_one_le_exp (K * dt); linarith
      calc A ≤ Real.exp (ω * dt) * Real.exp (K * dt) :=
            mul_le_mul_of_nonneg_left this (Real.exp_pos _).le
        _ = Real.exp ((ω + K) * dt) := by rw [← Real.exp_add]; congr 1; ring
    calc A ^ n ≤ Real.exp ((ω + K) * dt) ^ n := pow_le_pow_left₀ hA0 h1 n
      _ = Real.exp (n * ((ω + K) * dt)) := by rw [Real.exp_nat_mul]
      _ ≤ Real.exp ((ω + K) * T) := by
          refine Real.exp_le_exp.mpr ?_
          calc (n : ℝ) * ((ω + K) * dt) = (ω + K) * (n * dt) := by ring
            _ ≤ (ω + K) * T := mul_le_mul_of_nonneg_left hn (by positivity)
  have hexp : Real.exp (ω * dt) ≤ Real.exp (ω * T) :=
    Real.exp_le_exp.mpr (mul_le_mul_of_nonneg_left hdtT hω)
  calc (n : ℝ) * (Real.exp (ω * dt) * (K * M) * dt ^ 2 / 2) * A ^ n
      = Real.exp (ω * dt) * (K * M / 2 * dt) * (n * dt) * A ^ n := by ring
    _ ≤ Real.exp (ω * T) * (K * M / 2 * dt) * T * Real.exp ((ω + K) * T) := by gcongr
    _ = K * M * T / 2 * (Real.exp (ω * T) * Real.exp ((ω + K) * T)) * dt := by ring
    _ = K * M * T / 2 * Real.exp ((2 * ω + K) * T) * dt := by
        rw [← Real.exp_add]; congr 3; ring

/-- **local error of exponential Euler for systems** -/
theorem expEulerVec_local_error (l : ι → ℂ) (N : (ι → ℂ) → (ι → ℂ)) (K : NNReal)
    (hN : LipschitzWith K N) (u : ℝ → (ι → ℂ)) (T M ω : ℝ) (hω : 0 ≤ ω) (hl : ∀ k, (l k).re ≤ ω)
    (hu : ∀ t ∈ Set.Icc (0 : ℝ) T, HasDerivAt u (l * u t + N (u t)) t)
    (hM : ∀ t ∈ Set.Icc (0 : ℝ) T, ‖l * u t + N (u t)‖ ≤ M)
    (t h : ℝ) (ht : 0 ≤ t) (hh : 0 ≤ h) (hth : t + h ≤ T) :
    ‖u (t + h) - expEulerVec l N h (u t)‖ ≤ Real.exp (ω * h) * (K * M) * h ^ 2 / 2 := by
  have hsub : Set.Icc t (t + h) ⊆ Set.Icc (0 : ℝ) T := fun s hs => ⟨ht.trans hs.1, hs.2.trans hth⟩
  have hT : 0 ≤ T := by linarith
  have hM0 : 0 ≤ M := le_trans (norm_nonneg _) (hM 0 ⟨le_rfl, hT⟩)
  have hucont : ContinuousOn u (Set.Icc t (t + h)) := fun s hs =>
    (hu s (hsub hs)).continuousAt.continuousWithinAt
  have hNu : ContinuousOn (fun s => N (u s)) (Set.Icc t (t + h)) :=
    hN.continuous.comp_continuousOn hucont
  have hlip : ∀ s ∈ Set.Icc t (t + h), ‖u s - u t‖ ≤ M * (s - t) :=
    norm_image_sub_le_of_norm_deriv_le_segment'
      (fun x hx => (hu x (hsub hx)).hasDerivWithinAt)
      (fun x hx => hM x (hsub ⟨hx.1, hx.2.le⟩))
  have hbnd : 0 ≤ Real.exp (ω * h) * (K * M) * h ^ 2 / 2 := by positivity
  refine (pi_norm_le_iff_of_nonneg hbnd).mpr (fun k => ?_)
  have hG : ∀ s ∈ Set.Icc t (t + h), ‖N (u s) k - N (u t) k‖ ≤ K * M * (s - t) := by
    intro s hs
    have h1 := hN.dist_le_mul (u s) (u t)
    rw [dist_eq_norm, dist_eq_norm] at h1
    calc ‖N (u s) k - N (u t) k‖ = ‖(N (u s) - N (u t)) k‖ := rfl
      _ ≤ ‖N (u s) - N (u t)‖ := norm_le_pi_norm _ k
      _ ≤ K * ‖u s - u t‖ := h1
      _ ≤ K * (M * (s - t)) := mul_le_mul_of_nonneg_left (hlip s hs) K.coe_nonneg
      _ = K * M * (s - t) := by ring
  have hd := expEuler_defect (l k) ω (K * M) (fun s => u s k) (fun s => N (u s) k) t (t + h)
    (by linarith) hω (hl k) (fun s hs => hasDerivAt_pi.mp (hu s (hsub hs)) k)
    ((continuous_apply k).comp_continuousOn hNu) hG
  have hb : t + h - t = h := by ring
  rw [hb] at hd
  exact hd

/-- **stability of one exponential-Euler step for systems** -/
theorem expEulerVec_stable (l : ι → ℂ) (N : (ι → ℂ) → (ι → ℂ)) (K : NNReal)
    (hN : LipschitzWith K N) (ω dt : ℝ) (hω : 0 ≤ ω) (hl : ∀ k, (l k).re ≤ ω) (hdt : 0 ≤ dt)
    (x y : ι → ℂ) :
    ‖expEulerVec l N dt x - expEulerVec l N dt y‖ ≤ Real.exp (ω * dt) * (1 + K * dt) * ‖x - y‖ := by
  have hbnd : 0 ≤ Real.exp (ω * dt) * (1 + K * dt) * ‖x - y‖ := by positivity
  refine (pi_norm_le_iff_of_nonneg hbnd).mpr (fun k => ?_)
  have hre : (l k * (dt : ℂ)).re = (l k).re * dt := Complex.re_mul_ofReal (l k) dt
  have hle : (l k).re * dt ≤ ω * dt := mul_le_mul_of_nonneg_right (hl k) hdt
  have h1 : ‖Complex.exp (l k * dt)‖ ≤ Real.exp (ω * dt) := by
    rw [Complex.norm_exp, hre]; exact Real.exp_le_exp.mpr hle
  have h2 : ‖phi1e (l k * dt)‖ ≤ Real.exp (ω * dt) := by
    refine (norm_phi1e_le _).trans (max_le (Real.one_le_exp (mul_nonneg hω hdt)) ?_)
    rw [hre]; exact Real.exp_le_exp.mpr hle
  have h3 : ‖N x k - N y k‖ ≤ K * ‖x - y‖ := by
    have := hN.dist_le_mul x y
    rw [dist_eq_norm, dist_eq_norm] at this
    exact (norm_le_pi_norm (N x - N y) k).trans this
  have h4 : ‖x k - y k‖ ≤ ‖x - y‖ := norm_le_pi_norm (x - y) k
  have heq : (expEulerVec l N dt x - expEulerVec l N dt y) k
      = Complex.exp (l k * dt) * (x k - y k) + dt * phi1e (l k * dt) * (N x k - N y k) := by
    rw [Pi.sub_apply, expEulerVec_apply, expEulerVec_apply]; ring
  rw [heq]
  calc ‖Complex.exp (l k * dt) * (x k - y k) + dt * phi1e (l k * dt) * (N x k - N y k)‖
      ≤ ‖Complex.exp (l k * dt)‖ * ‖x k - y k‖ + dt * ‖phi1e (l k * dt)‖ * ‖N x k - N y k‖ := by
        refine (norm_add_le _ _).trans ?_
        rw [norm_mul, norm_mul, norm_mul, Complex.norm_real, Real.norm_eq_abs, abs_of_nonneg hdt]
    _ ≤ Real.exp (ω * dt) * ‖x - y‖ + dt * Real.exp (ω * dt) * (K * ‖x - y‖) := by gcongr
    _ = Real.exp (ω * dt) * (1 + K * dt) * ‖x - y‖ := by ring

/-- **T5 for systems: global error of exponential Euler**, uniform in the stiffness -/
theorem expEulerVec_global_error (l : ι → ℂ) (N : (ι → ℂ) → (ι → ℂ)) (K : NNReal)
    (hN : LipschitzWith K N) (u : ℝ → (ι → ℂ)) (T M ω : ℝ) (hω : 0 ≤ ω) (hl : ∀ k, (l k).re ≤ ω)
    (hu : ∀ t ∈ Set.Icc (0 : ℝ) T, HasDerivAt u (l * u t + N (u t)) t)
    (hM : ∀ t ∈ Set.Icc (0 : ℝ) T, ‖l * u t + N (u t)‖ ≤ M)
    (n : ℕ) (dt : ℝ) (hdt : 0 ≤ dt) (hn : n * dt ≤ T) :
    ‖u (n * dt) - (expEulerVec l N dt)^[n] (u 0)‖
      ≤ K * M * T / 2 * Real.exp ((2 * ω + K) * T) * dt := by
  have hT : 0 ≤ T := le_trans (mul_nonneg (Nat.cast_nonneg n) hdt) hn
  have hM0 : 0 ≤ M := le_trans (norm_nonneg _) (hM 0 ⟨le_rfl, hT⟩)
  have hA1 : 1 ≤ Real.exp (ω * dt) * (1 + K * dt) := by
    have h1 : 1 ≤ Real.exp (ω * dt) := Real.one_le_exp (mul_nonneg hω hdt)
    have h2 : 1 ≤ 1 + (K : ℝ) * dt := by
      have : 0 ≤ (K : ℝ) * dt := mul_nonneg K.coe_nonneg hdt
      linarith
    calc (1 : ℝ) = 1 * 1 := by ring
      _ ≤ _ := mul_le_mul h1 h2 zero_le_one (by linarith)
  have hB0 : 0 ≤ Real.exp (ω * dt) * (K * M) * dt ^ 2 / 2 := by positivity
  have hfan := fan (expEulerVec l N dt) (fun k : ℕ => u (k * dt)) _ _ hA1 hB0 n
    (fun k hk => by
      have hk1 : ((k + 1 : ℕ) : ℝ) * dt ≤ T := by
        have : ((k + 1 : ℕ) : ℝ) ≤ n := by exact_mod_cast hk
        exact (mul_le_mul_of_nonneg_right this hdt).trans hn
      have hkt : ((k + 1 : ℕ) : ℝ) * dt = k * dt + dt := by push_cast; ring
      have := expEulerVec_local_error l N K hN u T M ω hω hl hu hM (k * dt) dt
        (mul_nonneg (Nat.cast_nonneg k) hdt) hdt (by rw [← hkt]; exact hk1)
      simp only [hkt]
      exact this)
    (fun x y => expEulerVec_stable l N K hN ω dt hω hl hdt x y)
  simp only [Nat.cast_zero, zero_mul] at hfan
  exact hfan.trans (fan_arith K M ω T dt n K.coe_nonneg hM0 hω hdt hn)

/-! ### non-vacuity: two decoupled modes `l = (−1, −100)`, `N v = i·v` (1-Lipschitz), `u_k(t) = e^{(l_k + i)t}` -/
example : ∃ (l : Fin 2 → ℂ) (N : (Fin 2 → ℂ) → (Fin 2 → ℂ)) (K : NNReal) (u : ℝ → (Fin 2 → ℂ))
    (T M ω : ℝ), LipschitzWith K N ∧ 0 ≤ ω ∧ (∀ k, (l k).re ≤ ω) ∧
    (∀ t ∈ Set.Icc (0 : ℝ) T, HasDerivAt u (l * u t + N (u t)) t) ∧
    (∀ t ∈ Set.Icc (0 : ℝ) T, ‖l * u t + N (u t)‖ ≤ M) ∧ 0 < T := by
  refine ⟨![-1, -100], fun v => fun k => Complex.I * v k, 1,
    fun t => fun k => Complex.exp ((![-1, -100] k + Complex.I) * t), 1, 101, 0, ?_, le_rfl, ?_, ?_, ?_,
    one_pos⟩
  · refine LipschitzWith.of_dist_le_mul (fun x y => ?_)
    rw [dist_eq_norm, dist_eq_norm, NNReal.coe_one, one_mul]
    refine (pi_norm_le_iff_of_nonneg (norm_nonneg _)).mpr (fun k => ?_)
    have : ((fun k => Complex.I * x k) - fun k => Complex.I * y k) k = Complex.I * (x - y) k := by
      simp only [Pi.sub_apply]; ring
    rw [this, norm_mul, Complex.norm_I, one_mul]
    exact norm_le_pi_norm _ k
  · intro k; fin_cases k <;> simp
  · intro t _
    refine hasDerivAt_pi.mpr (fun k => ?_)
    have h := hasDerivAt_exp_mul (![-1, -100] k + Complex.I) t
    refine h.congr_deriv ?_
    simp only [Pi.add_apply, Pi.mul_apply]
    ring
  · intro t ht
    refine (pi_norm_le_iff_of_nonneg (by norm_num)).mpr (fun k => ?_)
    have h1 : ∀ z w : ℂ, z * Complex.exp w + Complex.I * Complex.exp w
        = (z + Complex.I) * Complex.exp w := by intros; ring
    simp only [Pi.add_apply, Pi.mul_apply, h1]
    rw [norm_mul, Complex.norm_exp]
    have h2 : ‖(![-1, -100] k + Complex.I : ℂ)‖ ≤ 101 := by
      refine (norm_add_le _ _).trans ?_
      fin_cases k <;> simp <;> norm_num
    have h3 : Real.exp (((![-1, -100] k + Complex.I) * (t : ℂ)).re) ≤ 1 := by
      rw [Real.exp_le_one_iff]
      fin_cases k <;> simp <;> nlinarith [ht.1]
    calc _ ≤ 101 * 1 := mul_le_mul h2 h3 (Real.exp_pos _).le (by norm_num)
      _ = 101 := by ring

end Exponax.LinearOrder
end
