import ExponaxModel.Properties.C02
/-
C09 (part K2, K3) — the ETDRK steppers keep the mean mode and keep equilibria.

Everything is about the regenerated `Gen.Etdrk.E?step` and the hand-written Cox–Matthews
schemes `Spec.cm?`.
-/
set_option linter.unusedVariables false
set_option linter.unusedSimpArgs false
namespace Exponax.Conserve
open Exponax Exponax.Spec Exponax.Gen.Etdrk

/-! ### K2 — the mean mode is kept by every ETDRK order

`V := ℕ → ℂ` are the mode-indexed spectra of one channel, with the pointwise (Pi) ring
structure; the coefficient arrays satisfy `E 0 = 1`, `Eh 0 = 1` (the linear symbol vanishes at the
mean mode) and the nonlinear term has no mean (`N v 0 = 0`). -/

/-- a literal in the function ring is the constant function -/
theorem lit_pi_apply (n i : ℕ) : (lit n : ℕ → ℂ) i = (n : ℂ) := rfl

theorem mean_E0step (E u : ℕ → ℂ) (hE : E 0 = 1) : (E0step E u) 0 = u 0 := by
  simp only [E0step, Pi.mul_apply, hE, one_mul]

theorem mean_E1step (E a1 : ℕ → ℂ) (N : (ℕ → ℂ) → (ℕ → ℂ)) (u : ℕ → ℂ)
    (hE : E 0 = 1) (hN : ∀ v, N v 0 = 0) : (E1step E a1 N u) 0 = u 0 := by
  simp only [E1step, Pi.add_apply, Pi.mul_apply, Pi.sub_apply, hE, hN]
  ring

theorem mean_E2step (E a1 a2 : ℕ → ℂ) (N : (ℕ → ℂ) → (ℕ → ℂ)) (u : ℕ → ℂ)
    (hE : E 0 = 1) (hN : ∀ v, N v 0 = 0) : (E2step E a1 a2 N u) 0 = u 0 := by
  simp only [E2step, Pi.add_apply, Pi.mul_apply, Pi.sub_apply, hE, hN]
  ring

theorem mean_E3step (E Eh a1 a2 a3 a4 a5 : ℕ → ℂ) (N : (ℕ → ℂ) → (ℕ → ℂ)) (u : ℕ → ℂ)
    (hE : E 0 = 1) (hN : ∀ v, N v 0 = 0) : (E3step E Eh a1 a2 a3 a4 a5 N u) 0 = u 0 := by
  simp only [E3step, Pi.add_apply, Pi.mul_apply, Pi.sub_apply, hE, hN]
  ring

theorem mean_E4step (E Eh a1 a2 a3 a4 a5 a6 : ℕ → ℂ) (N : (ℕ → ℂ) → (ℕ → ℂ)) (u : ℕ → ℂ)
    (hE : E 0 = 1) (hN : ∀ v, N v 0 = 0) : (E4step E Eh a1 a2 a3 a4 a5 a6 N u) 0 = u 0 := by
  simp only [E4step, Pi.add_apply, Pi.mul_apply, Pi.sub_apply, hE, hN]
  ring

/-- generic lift: a step that keeps the mean keeps it over any number of steps -/
theorem mean_iterate (step : (ℕ → ℂ) → (ℕ → ℂ)) (hstep : ∀ u, step u 0 = u 0) (n : ℕ) (u : ℕ → ℂ) :
    (step^[n] u) 0 = u 0 := by
  induction n generalizing u with
  | zero => rfl
  | succ n ih => rw [Function.iterate_succ_apply, ih, hstep]

theorem mean_E0step_iterate (E : ℕ → ℂ) (hE : E 0 = 1) (n : ℕ) (u : ℕ → ℂ) :
    ((E0step E)^[n] u) 0 = u 0 :=
  mean_iterate _ (fun u => mean_E0step E u hE) n u

theorem mean_E1step_iterate (E a1 : ℕ → ℂ) (N : (ℕ → ℂ) → (ℕ → ℂ))
    (hE : E 0 = 1) (hN : ∀ v, N v 0 = 0) (n : ℕ) (u : ℕ → ℂ) :
    ((E1step E a1 N)^[n] u) 0 = u 0 :=
  mean_iterate _ (fun u => mean_E1step E a1 N u hE hN) n u

theorem mean_E2step_iterate (E a1 a2 : ℕ → ℂ) (N : (ℕ → ℂ) → (ℕ → ℂ))
    (hE : E 0 = 1) (hN : ∀ v, N v 0 = 0) (n : ℕ) (u : ℕ → ℂ) :
    ((E2step E a1 a2 N)^[n] u) 0 = u 0 :=
  mean_iterate _ (fun u => mean_E2step E a1 a2 N u hE hN) n u

theorem mean_E3step_iterate (E Eh a1 a2 a3 a4 a5 : ℕ → ℂ) (N : (ℕ → ℂ) → (ℕ → ℂ))
    (hE : E 0 = 1) (hN : ∀ v, N v 0 = 0) (n : ℕ) (u : ℕ → ℂ) :
    ((E3step E Eh a1 a2 a3 a4 a5 N)^[n] u) 0 = u 0 :=
  mean_iterate _ (fun u => mean_E3step E Eh a1 a2 a3 a4 a5 N u hE hN) n u

theorem mean_E4step_iterate (E Eh a1 a2 a3 a4 a5 a6 : ℕ → ℂ) (N : (ℕ → ℂ) → (ℕ → ℂ))
    (hE : E 0 = 1) (hN : ∀ v, N v 0 = 0) (n : ℕ) (u : ℕ → ℂ) :
    ((E4step E Eh a1 a2 a3 a4 a5 a6 N)^[n] u) 0 = u 0 :=
  mean_iterate _ (fun u => mean_E4step E Eh a1 a2 a3 a4 a5 a6 N u hE hN) n u

/-- the symbol side: a vanishing linear symbol gives the propagator `1` (and the half-step
    propagators too) -/
theorem exp_term_zero (dt : ℂ) : exp_term dt 0 = 1 := by
  simp [exp_term]

theorem half_exp_term_zero_E3 (dt r : ℂ) (M : ℕ) : E3_half_exp_term dt 0 M r = 1 := by
  simp [E3_half_exp_term]

theorem half_exp_term_zero_E4 (dt r : ℂ) (M : ℕ) : E4_half_exp_term dt 0 M r = 1 := by
  simp [E4_half_exp_term]

/-- mean-mode conservation with the regenerated propagators: `L 0 = 0` (linear symbol array `L`),
    `E = exp_term dt ∘ L`, `Eh = E4_half_exp_term dt (L ·) M r`, any weights -/
theorem mean_E4step_of_symbol (dt r : ℂ) (M : ℕ) (L a1 a2 a3 a4 a5 a6 : ℕ → ℂ)
    (N : (ℕ → ℂ) → (ℕ → ℂ)) (hL : L 0 = 0) (hN : ∀ v, N v 0 = 0) (n : ℕ) (u : ℕ → ℂ) :
    ((E4step (fun h => exp_term dt (L h)) (fun h => E4_half_exp_term dt (L h) M r)
        a1 a2 a3 a4 a5 a6 N)^[n] u) 0 = u 0 :=
  mean_E4step_iterate _ _ a1 a2 a3 a4 a5 a6 N (by simp only [hL, exp_term_zero]) hN n u

/-! ### K3 — equilibria are fixed points (per mode)

`λ u + N u = 0`, `z = dt λ ≠ 0`, exact coefficients.  `N` is ANY map: it is only ever evaluated
at stages that all equal `u`. -/

/-- the one-stage identity behind all of K3: `e^z u + dt φ₁(z) N(u) = u` at an equilibrium -/
theorem stage_fixed (dt lam u Nu : ℂ) (hz : dt * lam ≠ 0) (heq : lam * u + Nu = 0) :
    Complex.exp (dt * lam) * u + dt * phi1 (dt * lam) * Nu = u := by
  have hNu : Nu = -(lam * u) := by linear_combination heq
  have hdt : dt ≠ 0 := left_ne_zero_of_mul hz
  have hl : lam ≠ 0 := right_ne_zero_of_mul hz
  simp only [phi1, hasExp_complex, hNu]
  field_simp
  ring

/-- the half-step stage: `e^{z/2} u + (dt φ₁(z/2)/2) N(u) = u` -/
theorem half_stage_fixed (dt lam u Nu : ℂ) (hz : dt * lam ≠ 0) (heq : lam * u + Nu = 0) :
    Complex.exp (dt * lam / 2) * u + dt * (phi1 (dt * lam / 2) / 2) * Nu = u := by
  have hNu : Nu = -(lam * u) := by linear_combination heq
  have hdt : dt ≠ 0 := left_ne_zero_of_mul hz
  have hl : lam ≠ 0 := right_ne_zero_of_mul hz
  simp only [phi1, hasExp_complex, hNu]
  field_simp
  ring

theorem fixed_cm1 (dt lam u : ℂ) (N : ℂ → ℂ) (hz : dt * lam ≠ 0) (heq : lam * u + N u = 0) :
    cm1 (Complex.exp (dt * lam)) (dt * phi1 (dt * lam)) N u = u := by
  simp only [cm1]
  exact stage_fixed dt lam u (N u) hz heq

theorem fixed_cm2 (dt lam u : ℂ) (N : ℂ → ℂ) (hz : dt * lam ≠ 0) (heq : lam * u + N u = 0) :
    cm2 (Complex.exp (dt * lam)) (dt * phi1 (dt * lam)) (dt * phi2 (dt * lam)) N u = u := by
  simp only [cm2]
  rw [stage_fixed dt lam u (N u) hz heq]
  ring

theorem fixed_cm3 (dt lam u : ℂ) (N : ℂ → ℂ) (hz : dt * lam ≠ 0) (heq : lam * u + N u = 0) :
    let z := dt * lam
    cm3 (Complex.exp z) (Complex.exp (z / 2)) (dt * (phi1 (z / 2) / 2)) (dt * phi1 z)
      (dt * (phi1 z - 3 * phi2 z + 4 * phi3 z)) (dt * (4 * phi2 z - 8 * phi3 z))
      (dt * (4 * phi3 z - phi2 z)) N u = u := by
  intro z
  have ha : Complex.exp (z / 2) * u + dt * (phi1 (z / 2) / 2) * N u = u :=
    half_stage_fixed dt lam u (N u) hz heq
  have hb : Complex.exp z * u + dt * phi1 z * (lit 2 * N u - N u) = u := by
    have := stage_fixed dt lam u (N u) hz heq
    simp only [lit_eq]; push_cast
    linear_combination this
  simp only [cm3]
  rw [ha, hb]
  have := stage_fixed dt lam u (N u) hz heq
  linear_combination this

theorem fixed_cm4 (dt lam u : ℂ) (N : ℂ → ℂ) (hz : dt * lam ≠ 0) (heq : lam * u + N u = 0) :
    let z := dt * lam
    cm4 (Complex.exp z) (Complex.exp (z / 2)) (dt * (phi1 (z / 2) / 2))
      (dt * (phi1 z - 3 * phi2 z + 4 * phi3 z)) (dt * (phi2 z - 2 * phi3 z))
      (dt * (4 * phi3 z - phi2 z)) N u = u := by
  intro z
  have ha : Complex.exp (z / 2) * u + dt * (phi1 (z / 2) / 2) * N u = u :=
    half_stage_fixed dt lam u (N u) hz heq
  have hc : Complex.exp (z / 2) * u + dt * (phi1 (z / 2) / 2) * (lit 2 * N u - N u) = u := by
    simp only [lit_eq]; push_cast
    linear_combination ha
  simp only [cm4]
  rw [ha, ha, hc]
  have := stage_fixed dt lam u (N u) hz heq
  simp only [lit_eq]; push_cast
  linear_combination this

/-- the same for the regenerated stage formulas -/
theorem fixed_E1step (dt lam u : ℂ) (N : ℂ → ℂ) (hz : dt * lam ≠ 0) (heq : lam * u + N u = 0) :
    E1step (Complex.exp (dt * lam)) (dt * phi1 (dt * lam)) N u = u := by
  rw [C02_step_E1]; exact fixed_cm1 dt lam u N hz heq

theorem fixed_E2step (dt lam u : ℂ) (N : ℂ → ℂ) (hz : dt * lam ≠ 0) (heq : lam * u + N u = 0) :
    E2step (Complex.exp (dt * lam)) (dt * phi1 (dt * lam)) (dt * phi2 (dt * lam)) N u = u := by
  rw [C02_step_E2]; exact fixed_cm2 dt lam u N hz heq

theorem fixed_E3step (dt lam u : ℂ) (N : ℂ → ℂ) (hz : dt * lam ≠ 0) (heq : lam * u + N u = 0) :
    let z := dt * lam
    E3step (Complex.exp z) (Complex.exp (z / 2)) (dt * (phi1 (z / 2) / 2)) (dt * phi1 z)
      (dt * (phi1 z - 3 * phi2 z + 4 * phi3 z)) (dt * (4 * phi2 z - 8 * phi3 z))
      (dt * (4 * phi3 z - phi2 z)) N u = u := by
  intro z
  rw [C02_step_E3]; exact fixed_cm3 dt lam u N hz heq

theorem fixed_E4step (dt lam u : ℂ) (N : ℂ → ℂ) (hz : dt * lam ≠ 0) (heq : lam * u + N u = 0) :
    let z := dt * lam
    let ah := dt * (phi1 (z / 2) / 2)
    E4step (Complex.exp z) (Complex.exp (z / 2)) ah ah ah
      (dt * (phi1 z - 3 * phi2 z + 4 * phi3 z)) (dt * (phi2 z - 2 * phi3 z))
      (dt * (4 * phi3 z - phi2 z)) N u = u := by
  intro z ah
  rw [C02_step_E4]; exact fixed_cm4 dt lam u N hz heq

/-- and with the regenerated propagators `exp_term`, `E?_half_exp_term` -/
theorem fixed_E4step_gen (dt lam r u : ℂ) (M : ℕ) (N : ℂ → ℂ) (hz : dt * lam ≠ 0)
    (heq : lam * u + N u = 0) :
    let z := dt * lam
    let ah := dt * (phi1 (z / 2) / 2)
    E4step (exp_term dt lam) (E4_half_exp_term dt lam M r) ah ah ah
      (dt * (phi1 z - 3 * phi2 z + 4 * phi3 z)) (dt * (phi2 z - 2 * phi3 z))
      (dt * (4 * phi3 z - phi2 z)) N u = u := by
  intro z ah
  rw [C02_exp_term, C02_half_exp_term_E4]
  exact fixed_E4step dt lam u N hz heq

theorem fixed_E3step_gen (dt lam r u : ℂ) (M : ℕ) (N : ℂ → ℂ) (hz : dt * lam ≠ 0)
    (heq : lam * u + N u = 0) :
    let z := dt * lam
    E3step (exp_term dt lam) (E3_half_exp_term dt lam M r) (dt * (phi1 (z / 2) / 2)) (dt * phi1 z)
      (dt * (phi1 z - 3 * phi2 z + 4 * phi3 z)) (dt * (4 * phi2 z - 8 * phi3 z))
      (dt * (4 * phi3 z - phi2 z)) N u = u := by
  intro z
  rw [C02_exp_term, C02_half_exp_term_E3]
  exact fixed_E3step dt lam u N hz heq

/-- the case `λ = 0` (e.g. the mean mode): `N u = 0`, `E = Eh = 1`, ANY weights -/
theorem fixed_of_lambda_zero (a1 a2 a3 a4 a5 a6 u : ℂ) (N : ℂ → ℂ) (hN : N u = 0) :
    E0step 1 u = u ∧ E1step 1 a1 N u = u ∧ E2step 1 a1 a2 N u = u ∧
    E3step 1 1 a1 a2 a3 a4 a5 N u = u ∧ E4step 1 1 a1 a2 a3 a4 a5 a6 N u = u := by
  have e1 : (1 : ℂ) * u + a1 * 0 = u := by ring
  have e2 : (1 : ℂ) * u + a2 * 0 = u := by ring
  have e2' : (1 : ℂ) * u + a2 * (lit 2 * 0 - 0) = u := by simp
  have e3 : (1 : ℂ) * u + a3 * (lit 2 * 0 - 0) = u := by simp
  refine ⟨?_, ?_, ?_, ?_, ?_⟩
  · simp only [E0step, one_mul]
  · simp only [E1step, hN, e1]
  · simp only [E2step, hN, e1]; ring
  · simp only [E3step, hN, e1, e2']; ring
  · simp only [E4step, hN, e1, e2, e3]; ring

theorem fixed_cm_of_lambda_zero (ah a1 a2 b1 b2 b3 u : ℂ) (N : ℂ → ℂ) (hN : N u = 0) :
    cm1 1 a1 N u = u ∧ cm2 1 a1 a2 N u = u ∧ cm3 1 1 ah a1 b1 b2 b3 N u = u ∧
    cm4 1 1 ah b1 b2 b3 N u = u := by
  have e1 : ∀ a : ℂ, (1 : ℂ) * u + a * 0 = u := fun a => by ring
  have e2 : ∀ a : ℂ, (1 : ℂ) * u + a * (lit 2 * 0 - 0) = u := fun a => by simp
  refine ⟨?_, ?_, ?_, ?_⟩
  · simp only [cm1, hN, e1]
  · simp only [cm2, hN, e1]; ring
  · simp only [cm3, hN, e1, e2]; ring
  · simp only [cm4, hN, e1, e2]; ring

/-- a whole-spectrum equilibrium (pointwise ring `ℕ → ℂ`): if mode-wise `L h · u h + N(u) h = 0`,
    `dt·L h ≠ 0` off the modes where `L h = 0`, then the exact ETDRK1 stage returns `u`
    (`E = e^{dt L}`, `a1 h = dt φ₁(dt L h)` where `L h ≠ 0`; any value where `L h = 0`) -/
theorem fixed_E1step_spectrum (dt : ℂ) (hdt : dt ≠ 0) (L a1 u : ℕ → ℂ) (N : (ℕ → ℂ) → (ℕ → ℂ))
    (ha1 : ∀ h, L h ≠ 0 → a1 h = dt * phi1 (dt * L h))
    (heq : ∀ h, L h * u h + N u h = 0) :
    E1step (fun h => exp_term dt (L h)) a1 N u = u := by
  funext h
  simp only [E1step, Pi.add_apply, Pi.mul_apply, C02_exp_term]
  rcases eq_or_ne (L h) 0 with h0 | h0
  · have := heq h
    rw [h0, zero_mul, zero_add] at this
    rw [h0, this]; simp
  · rw [ha1 h h0]
    exact stage_fixed dt (L h) (u h) (N u h) (mul_ne_zero hdt h0) (heq h)

/-! ### K3 on the whole spectrum (function ring `ℕ → ℂ`, ANY nonlinear map on spectra)

`L` is the linear symbol array, `u` a spectrum with `L h · u h + N(u) h = 0` at every mode.  The
coefficient arrays are the exact ones wherever `L h ≠ 0`; where `L h = 0` (the mean mode, say) they
are ARBITRARY — there `N(u) h = 0` by the equilibrium condition and `E = Eh = 1`. -/

/-- one stage, whole spectrum: `P·u + a·N(u) = u` as functions -/
theorem stage_fixed_spectrum (dt : ℂ) (hdt : dt ≠ 0) (L a u Nu : ℕ → ℂ)
    (ha : ∀ h, L h ≠ 0 → a h = dt * phi1 (dt * L h))
    (heq : ∀ h, L h * u h + Nu h = 0) :
    (fun h => exp_term dt (L h)) * u + a * Nu = u := by
  funext h
  simp only [Pi.add_apply, Pi.mul_apply, C02_exp_term]
  rcases eq_or_ne (L h) 0 with h0 | h0
  · have := heq h
    rw [h0, zero_mul, zero_add] at this
    rw [h0, this]; simp
  · rw [ha h h0]
    exact stage_fixed dt (L h) (u h) (Nu h) (mul_ne_zero hdt h0) (heq h)

theorem half_stage_fixed_spectrum (dt : ℂ) (hdt : dt ≠ 0) (L Eh a u Nu : ℕ → ℂ)
    (hEh : ∀ h, Eh h = Complex.exp (dt * L h / 2))
    (ha : ∀ h, L h ≠ 0 → a h = dt * (phi1 (dt * L h / 2) / 2))
    (heq : ∀ h, L h * u h + Nu h = 0) :
    Eh * u + a * Nu = u := by
  funext h
  simp only [Pi.add_apply, Pi.mul_apply, hEh]
  rcases eq_or_ne (L h) 0 with h0 | h0
  · have := heq h
    rw [h0, zero_mul, zero_add] at this
    rw [h0, this]; simp
  · rw [ha h h0]
    exact half_stage_fixed dt (L h) (u h) (Nu h) (mul_ne_zero hdt h0) (heq h)

theorem fixed_E2step_spectrum (dt : ℂ) (hdt : dt ≠ 0) (L a1 a2 u : ℕ → ℂ) (N : (ℕ → ℂ) → (ℕ → ℂ))
    (ha1 : ∀ h, L h ≠ 0 → a1 h = dt * phi1 (dt * L h))
    (heq : ∀ h, L h * u h + N u h = 0) :
    E2step (fun h => exp_term dt (L h)) a1 a2 N u = u := by
  have hs := stage_fixed_spectrum dt hdt L a1 u (N u) ha1 heq
  simp only [E2step]
  rw [hs]
  funext h
  simp only [Pi.add_apply, Pi.mul_apply, Pi.sub_apply]
  ring

/-- **K3, whole spectrum, ETDRK4.**  A spectrum that is an equilibrium of `u' = L u + N(u)` is a
    fixed point of the regenerated ETDRK4 step with the exact coefficient arrays. -/
theorem fixed_E4step_spectrum (dt r : ℂ) (M : ℕ) (hdt : dt ≠ 0) (L ah b1 b2 b3 u : ℕ → ℂ)
    (N : (ℕ → ℂ) → (ℕ → ℂ))
    (hah : ∀ h, L h ≠ 0 → ah h = dt * (phi1 (dt * L h / 2) / 2))
    (hb1 : ∀ h, L h ≠ 0 → b1 h = dt * (phi1 (dt * L h) - 3 * phi2 (dt * L h) + 4 * phi3 (dt * L h)))
    (hb2 : ∀ h, L h ≠ 0 → b2 h = dt * (phi2 (dt * L h) - 2 * phi3 (dt * L h)))
    (hb3 : ∀ h, L h ≠ 0 → b3 h = dt * (4 * phi3 (dt * L h) - phi2 (dt * L h)))
    (heq : ∀ h, L h * u h + N u h = 0) :
    E4step (fun h => exp_term dt (L h)) (fun h => E4_half_exp_term dt (L h) M r)
      ah ah ah b1 b2 b3 N u = u := by
  have hs := half_stage_fixed_spectrum dt hdt L (fun h => E4_half_exp_term dt (L h) M r) ah u (N u)
    (fun h => C02_half_exp_term_E4 dt (L h) r M) hah heq
  have hs3 : (fun h => E4_half_exp_term dt (L h) M r) * u + ah * (lit 2 * N u - N u) = u := by
    have e : (lit 2 * N u - N u : ℕ → ℂ) = N u := by
      funext h
      simp only [Pi.sub_apply, Pi.mul_apply]
      rw [lit_pi_apply]; push_cast; ring
    rw [e]; exact hs
  simp only [E4step]
  rw [hs, hs, hs3]
  funext h
  simp only [Pi.add_apply, Pi.mul_apply, Pi.sub_apply, C02_exp_term]
  rw [lit_pi_apply]
  rcases eq_or_ne (L h) 0 with h0 | h0
  · have := heq h
    rw [h0, zero_mul, zero_add] at this
    rw [h0, this]; simp
  · have hst := stage_fixed dt (L h) (u h) (N u h) (mul_ne_zero hdt h0) (heq h)
    rw [hb1 h h0, hb2 h h0, hb3 h h0]
    push_cast
    linear_combination hst

/-- **K3, whole spectrum, ETDRK3.** -/
theorem fixed_E3step_spectrum (dt r : ℂ) (M : ℕ) (hdt : dt ≠ 0) (L ah a1 b1 b2 b3 u : ℕ → ℂ)
    (N : (ℕ → ℂ) → (ℕ → ℂ))
    (hah : ∀ h, L h ≠ 0 → ah h = dt * (phi1 (dt * L h / 2) / 2))
    (ha1 : ∀ h, L h ≠ 0 → a1 h = dt * phi1 (dt * L h))
    (hb1 : ∀ h, L h ≠ 0 → b1 h = dt * (phi1 (dt * L h) - 3 * phi2 (dt * L h) + 4 * phi3 (dt * L h)))
    (hb2 : ∀ h, L h ≠ 0 → b2 h = dt * (4 * phi2 (dt * L h) - 8 * phi3 (dt * L h)))
    (hb3 : ∀ h, L h ≠ 0 → b3 h = dt * (4 * phi3 (dt * L h) - phi2 (dt * L h)))
    (heq : ∀ h, L h * u h + N u h = 0) :
    E3step (fun h => exp_term dt (L h)) (fun h => E3_half_exp_term dt (L h) M r)
      ah a1 b1 b2 b3 N u = u := by
  have hs := half_stage_fixed_spectrum dt hdt L (fun h => E3_half_exp_term dt (L h) M r) ah u (N u)
    (fun h => C02_half_exp_term_E3 dt (L h) r M) hah heq
  have hs2 : (fun h => exp_term dt (L h)) * u + a1 * (lit 2 * N u - N u) = u := by
    have e : (lit 2 * N u - N u : ℕ → ℂ) = N u := by
      funext h
      simp only [Pi.sub_apply, Pi.mul_apply]
      rw [lit_pi_apply]; push_cast; ring
    rw [e]; exact stage_fixed_spectrum dt hdt L a1 u (N u) ha1 heq
  simp only [E3step]
  rw [hs, hs2]
  funext h
  simp only [Pi.add_apply, Pi.mul_apply, Pi.sub_apply, C02_exp_term]
  rcases eq_or_ne (L h) 0 with h0 | h0
  · have := heq h
    rw [h0, zero_mul, zero_add] at this
    rw [h0, this]; simp
  · have hst := stage_fixed dt (L h) (u h) (N u h) (mul_ne_zero hdt h0) (heq h)
    rw [hb1 h h0, hb2 h h0, hb3 h h0]
    linear_combination hst

end Exponax.Conserve
