import ExponaxModel.Proofs.LerayBasic
import ExponaxModel.Generated.NonlinFuns
/-
Read-off and congruence lemmas used by `Proofs/NonlinFunsEq.lean` to compare the definitions regenerated from
the source (`Generated/NonlinFuns.lean`) with the hand-written model (`Model/Nonlin.lean`) at `K := ℂ`.

Only the entries below the static extents matter: `tab`, `tab2`, `tabC`, `nfft`, `nifft`, `sumList ∘ map ∘ range`
are all congruent in that sense.
-/
set_option linter.unusedVariables false
namespace Exponax.NonlinFunsEq
open Exponax Exponax.Layout Exponax.Transform Exponax.Nonlin

/-! ### congruence -/

theorem tabC_congr (nc : ℕ) (f g : ℕ → Array ℂ) (h : ∀ i, i < nc → f i = g i) : tabC nc f = tabC nc g :=
  tab_congr nc f g h

theorem sumList_range_congr (n : ℕ) (f g : ℕ → ℂ) (h : ∀ d, d < n → f d = g d) :
    sumList (List.map f (List.range n)) = sumList (List.map g (List.range n)) := by
  congr 1
  apply List.map_congr_left
  intro d hd
  exact h d (List.mem_range.mp hd)

theorem sumRange_congr (n : ℕ) (f g : ℕ → ℂ) (h : ∀ d, d < n → f d = g d) : sumRange n f = sumRange n g :=
  sumList_range_congr n f g h

/-! congruence lemmas in the form `simp` uses (`attribute [local congr]`): inside `tab n f` the index is `< n` -/

theorem tab_congr' {α : Type} {n : ℕ} {f g : ℕ → α} (h : ∀ i, i < n → f i = g i) : tab n f = tab n g :=
  tab_congr n f g h

theorem tab2_congr' {nc n : ℕ} {f g : ℕ → ℕ → ℂ} (h : ∀ ch, ch < nc → ∀ i, i < n → f ch i = g ch i) :
    tab2 nc n f = tab2 nc n g := tab2_congr nc n f g (fun ch i h1 h2 => h ch h1 i h2)

theorem tabC_congr' {nc : ℕ} {f g : ℕ → Array ℂ} (h : ∀ i, i < nc → f i = g i) : tabC nc f = tabC nc g :=
  tabC_congr nc f g h

theorem sumRange_congr' {n : ℕ} {f g : ℕ → ℂ} (h : ∀ i, i < n → f i = g i) : sumRange n f = sumRange n g :=
  sumRange_congr n f g h

/-- `nifft` only reads the stored modes -/
theorem nifft_congr (c : Cfg ℂ) (a b : Array ℂ) (h : ∀ m, m < modes c → a.getD m 0 = b.getD m 0) :
    nifft c a = nifft c b := by
  unfold nifft
  congr 1
  apply tab_congr
  intro m hm
  rw [h m hm]

theorem rfftnM_congr (D N : ℕ) (a b : Array ℂ) (h : ∀ j, j < N ^ D → a.getD j 0 = b.getD j 0) :
    rfftnM D N a = rfftnM D N b := by
  unfold rfftnM
  apply tab_congr
  intro m hm
  apply sumRange_congr
  intro j hj
  rw [h j hj]

/-- `nfft` only reads the grid points -/
theorem nfft_congr (c : Cfg ℂ) (a b : Array ℂ) (h : ∀ x, x < gridSize c → a.getD x 0 = b.getD x 0) :
    nfft c a = nfft c b := by
  unfold nfft
  rw [rfftnM_congr c.D c.N a b h]

theorem nifft_tab (c : Cfg ℂ) (a : Array ℂ) : nifft c (tab (modes c) (fun h => a.getD h 0)) = nifft c a :=
  nifft_congr c _ _ (fun m hm => tab_getD _ _ _ _ hm)

theorem nfft_tab (c : Cfg ℂ) (a : Array ℂ) : nfft c (tab (gridSize c) (fun x => a.getD x 0)) = nfft c a :=
  nfft_congr c _ _ (fun x hx => tab_getD _ _ _ _ hx)

/-- re-tabulating a channel of a stored array before `nifft` is the identity -/
theorem nifft_at2 (c : Cfg ℂ) (u : MC ℂ) (i : ℕ) :
    nifft c (tab (modes c) (fun h => at2 u i h)) = nifft c (u.getD i #[]) := nifft_tab c _

theorem nfft_at2 (c : Cfg ℂ) (u : MC ℂ) (i : ℕ) :
    nfft c (tab (gridSize c) (fun x => at2 u i x)) = nfft c (u.getD i #[]) := nfft_tab c _

theorem tabC_getD (nc : ℕ) (f : ℕ → Array ℂ) (i : ℕ) (hi : i < nc) : (tabC nc f).getD i #[] = f i :=
  tab_getD _ _ _ _ hi

theorem tab2_getD (nc n : ℕ) (f : ℕ → ℕ → ℂ) (i : ℕ) (hi : i < nc) :
    (tab2 nc n f).getD i #[] = tab n (f i) := tab_getD _ _ _ _ hi

/-- `tab2` as `tabC` of rows -/
theorem tab2_eq_tabC (nc n : ℕ) (f : ℕ → ℕ → ℂ) : tab2 nc n f = tabC nc (fun i => tab n (f i)) := rfl

/-! ### flat index arithmetic for two leading axes -/

theorem flat_div (i j B : ℕ) (hj : j < B) : (i * B + j) / B = i := by
  have hB : 0 < B := by omega
  rw [Nat.add_comm, Nat.add_mul_div_right _ _ hB, Nat.div_eq_of_lt hj, Nat.zero_add]

theorem flat_mod (i j B : ℕ) (hj : j < B) : (i * B + j) % B = j := by
  rw [Nat.add_comm, Nat.add_mul_mod_self_right, Nat.mod_eq_of_lt hj]

theorem flat_lt (i j A B : ℕ) (hi : i < A) (hj : j < B) : i * B + j < A * B := by
  calc i * B + j < i * B + B := by omega
    _ = (i + 1) * B := by ring
    _ ≤ A * B := Nat.mul_le_mul_right B hi

theorem div_lt_of_lt_mul (p A B : ℕ) (hp : p < A * B) : p / B < A := by
  apply Nat.div_lt_of_lt_mul
  rwa [Nat.mul_comm]

theorem mod_lt_of_lt_mul (p A B : ℕ) (hp : p < A * B) : p % B < B := by
  apply Nat.mod_lt
  rcases Nat.eq_zero_or_pos B with h | h
  · subst h; simp at hp
  · exact h

theorem div_mul_add_mod (p B : ℕ) : p / B * B + p % B = p := by
  rw [Nat.mul_comm]; exact Nat.div_add_mod p B

theorem map_range_two {α : Type} (f : ℕ → α) : List.map f (List.range 2) = [f 0, f 1] := by
  simp [List.range_succ]

theorem map_range_three {α : Type} (f : ℕ → α) : List.map f (List.range 3) = [f 0, f 1, f 2] := by
  simp [List.range_succ]

theorem at2_tab2_flat (A B n : ℕ) (f : ℕ → ℕ → ℂ) (i j x : ℕ) (hi : i < A) (hj : j < B) (hx : x < n) :
    at2 (tab2 (A * B) n f) (i * B + j) x = f (i * B + j) x :=
  at2_tab2 _ _ _ _ _ (flat_lt i j A B hi hj) hx

theorem at2_tabC_flat (A B : ℕ) (f : ℕ → Array ℂ) (i j x : ℕ) (hi : i < A) (hj : j < B) :
    at2 (tabC (A * B) f) (i * B + j) x = (f (i * B + j)).getD x 0 :=
  at2_tabC _ _ _ _ (flat_lt i j A B hi hj)

/-- re-reading a flat-stored two-axis array at `(p / B, p % B)` -/
theorem at2_flat_self (u : MC ℂ) (p B x : ℕ) : at2 u (p / B * B + p % B) x = at2 u p x := by
  rw [div_mul_add_mod]

theorem tab_getD_self {α : Type} (n : ℕ) (F : ℕ → α) (d : α) : tab n (fun h => (tab n F).getD h d) = tab n F :=
  tab_congr _ _ _ (fun h hh => tab_getD _ _ _ _ hh)

theorem rfftnM_at2 (c : Cfg ℂ) (u : MC ℂ) (i : ℕ) :
    rfftnM c.D c.N (tab (gridSize c) (fun x => at2 u i x)) = rfftnM c.D c.N (u.getD i #[]) :=
  rfftnM_congr _ _ _ _ (fun j hj => tab_getD _ _ _ _ hj)

theorem rfftnM_retab (D N : ℕ) (a : Array ℂ) :
    tab (numModes D N) (fun h => (rfftnM D N a).getD h 0) = rfftnM D N a := by
  unfold rfftnM
  exact tab_getD_self _ _ _

/-! ### storing an array before transforming its rows changes nothing -/

theorem fft_rows (c : Cfg ℂ) (A : ℕ) (f : ℕ → ℕ → ℂ) :
    tabC A (fun p => nfft c (tab (gridSize c) (fun x => at2 (tab2 A (gridSize c) f) p x)))
      = tabC A (fun p => nfft c (tab (gridSize c) (f p))) := by
  apply tabC_congr; intro p hp
  apply nfft_congr; intro x hx
  rw [tab_getD _ _ _ _ hx, tab_getD _ _ _ _ hx, at2_tab2 _ _ _ _ _ hp hx]

theorem ifft_rows (c : Cfg ℂ) (A : ℕ) (f : ℕ → ℕ → ℂ) :
    tabC A (fun p => nifft c (tab (modes c) (fun h => at2 (tab2 A (modes c) f) p h)))
      = tabC A (fun p => nifft c (tab (modes c) (f p))) := by
  apply tabC_congr; intro p hp
  apply nifft_congr; intro x hx
  rw [tab_getD _ _ _ _ hx, tab_getD _ _ _ _ hx, at2_tab2 _ _ _ _ _ hp hx]

theorem fft_rows' (c : Cfg ℂ) (A : ℕ) (f : ℕ → ℕ → ℂ) :
    tabC A (fun p => nfft c ((tab2 A (gridSize c) f).getD p #[])) = tabC A (fun p => nfft c (tab (gridSize c) (f p))) := by
  apply tabC_congr; intro p hp
  rw [tab2_getD _ _ _ _ hp]

/-- the physical channels, as the generated code and the model compute them -/
theorem ifft_channels (c : Cfg ℂ) (C : ℕ) (uh : MC ℂ) :
    tabC C (fun i0 => nifft c (tab (modes c) (fun h => at2 uh i0 h))) = tabC C (fun ch => nifft c (uh.getD ch #[])) :=
  tabC_congr _ _ _ (fun i _ => nifft_at2 c uh i)

theorem fft_channels (c : Cfg ℂ) (C : ℕ) (u : MC ℂ) :
    tabC C (fun i0 => nfft c (tab (gridSize c) (fun x => at2 u i0 x))) = tabC C (fun ch => nfft c (u.getD ch #[])) :=
  tabC_congr _ _ _ (fun i _ => nfft_at2 c u i)

theorem getD_two (a b : ℂ) (i : ℕ) (hi : i < 2) : [a, b].getD i 0 = if i = 0 then a else b := by
  interval_cases i <;> rfl

theorem getD_three (a b c : ℂ) (i : ℕ) (hi : i < 3) :
    [a, b, c].getD i 0 = if i = 0 then a else if i = 1 then b else c := by
  interval_cases i <;> rfl

theorem two_ne_zero' : ¬ (2 : ℕ) = 0 := by decide
theorem two_ne_one' : ¬ (2 : ℕ) = 1 := by decide
theorem one_ne_zero' : ¬ (1 : ℕ) = 0 := by decide

theorem ite_bnot (b : Bool) (x y : ℂ) : (if (!b) = true then x else y) = if b = true then y else x := by
  cases b <;> rfl

/-! ### small algebra -/

theorem npow_two (x : ℂ) : npow x 2 = x * x := by simp [npow]
theorem npow_three (x : ℂ) : npow x 3 = x * x * x := by simp [npow]
theorem lit_zero : (lit 0 : ℂ) = 0 := by simp
theorem lit_one : (lit 1 : ℂ) = 1 := by simp

/-- the regenerated `build_laplace_operator` on the derivative operator of `c` is the model's `laplace` -/
theorem laplace_op_deriv (c : Cfg ℂ) (order h : ℕ) :
    Gen.Steppers.laplace_op (List.map (fun k => deriv c k h) (List.range c.D)) order = laplace c order h := by
  unfold Gen.Steppers.laplace_op laplace
  split_ifs
  · rfl
  · rw [List.map_map]; rfl

end Exponax.NonlinFunsEq
