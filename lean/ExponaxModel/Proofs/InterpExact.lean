import ExponaxModel.Proofs.InterpMean
import ExponaxModel.Proofs.InterpRoundTrip
import ExponaxModel.Proofs.InterpND
import ExponaxModel.Proofs.InterpNDOne
/-
C15 — "Fourier interpolation and `map_between_resolutions` are exact on band-limited states and
preserve the mean".  Entry point: headline theorems about the MODEL definitions
`Interp.mapBetween`, `Interp.interpolate` (`K := ℂ`, `HasPi/HasExp/HasI/HasRe` as in `Instances.lean`),
with non-vacuity examples.  Helper files:

  * `InterpBasic`     : `srcAxis` closed forms, pointwise formula of `mapSpectrum`
  * `InterpOneD`      : 1-D new spectrum, general 1-D formula of `mapBetween`, I2
  * `InterpGrid`      : general formula of `interpolate`, I3, 1-D link `interpolate = trigInterp1`
  * `InterpMean`      : grid sum of `irfftnM`, DC entry of `mapSpectrum`, I1
  * `InterpRoundTrip` : `rfft ∘ irfft` in 1-D, spectrum of the mapped field, I2 (a) round trip,
                        I2 (b) sub-sampling with the exact Nyquist defect
  * `InterpNDSpec`    : `srcIndex` in any dimension, new spectrum of a band-limited state
  * `InterpNDSum`     : in-band sums over the half layout do not depend on the resolution
  * `InterpND`        : I4 for `min(N_old, N_new) ≥ 2`
  * `InterpNDOne`     : I4 for `min(N_old, N_new) = 1`; full-strength I4

Range of validity found:
  I1  holds for all `D ≥ 1`, `N_old ≥ 1`, `N_new ≥ 1` (no `≥ 2` needed in the model), both flags;
      it FAILS for `N_new = 0` (example below); real input is needed (for complex input the mapped
      mean is the real part of the mean: `mapBetween_sum`).
  I2  needs only `N_new ≥ 1`, `N_old ≠ N_new`; realness of `u` is not needed for exactness itself,
      only for the round trip / sub-sampling corollaries.
  I2b odd `N_old`: no hypothesis.  Even `N_old`: exact iff `û_{N/2} = 0`; otherwise the Nyquist mode
      is removed (`oddballZero = true`) or DOUBLED (`oddballZero = false`).
  I3  all `D ≥ 1`, `N ≥ 1`, `s ≠ 0`, real `u`.
  I4  all `D ≥ 1`, `N_old ≠ N_new`, both `≥ 1`.  (For `min(N_old, N_new) = 1` and `D ≥ 2` the slice
      `-0:` of `get_modes_slices` is the whole axis; in the MODEL the out-of-range source entries
      read as `0` (`Array.getD`) and exactness still holds — proved separately in `InterpNDOne`.
      The Python code would instead broadcast / fail there; not covered by this model.)
-/
set_option linter.unusedVariables false
set_option linter.unusedSimpArgs false
namespace Exponax.Interp
open Exponax Exponax.Layout Exponax.Transform Exponax.DFT Finset

/-! ## I1 — the mean is preserved -/

/-- **I1.** -/
theorem I1_mean (D Nold Nnew : ℕ) (hD : 0 < D) (hNo : 0 < Nold) (hNn : 0 < Nnew)
    (ob : Bool) (u : Array ℂ) (hu : ∀ j < Nold ^ D, (u.getD j 0).im = 0) :
    (∑ j ∈ range (Nnew ^ D), (mapBetween D Nold Nnew ob u).getD j 0) / (Nnew : ℂ) ^ D
      = (∑ j ∈ range (Nold ^ D), u.getD j 0) / (Nold : ℂ) ^ D :=
  mapBetween_mean D Nold Nnew hD hNo hNn ob u hu

/-- non-vacuity of I1 (and of every `real input` hypothesis below): real samples -/
theorem real_tab (n : ℕ) (x : ℕ → ℝ) : ∀ j < n, ((tab n (fun j => ((x j : ℝ) : ℂ))).getD j 0).im = 0 := by
  intro j hj
  rw [tab_getD _ _ _ _ hj]
  simp

example : ∃ (D Nold Nnew : ℕ) (u : Array ℂ), 0 < D ∧ 0 < Nold ∧ 0 < Nnew ∧ Nold ≠ Nnew ∧
    ∀ j < Nold ^ D, (u.getD j 0).im = 0 :=
  ⟨2, 4, 6, tab (4 ^ 2) (fun j => (((j : ℝ)) : ℂ)), by norm_num, by norm_num, by norm_num, by norm_num,
    real_tab _ _⟩

/-- I1 is FALSE for `N_new = 0` (the model then returns the empty field, of "mean" `0/0 = 0`) -/
example : (∑ j ∈ range (0 ^ 1), (mapBetween 1 1 0 false #[(1 : ℂ)]).getD j 0) / ((0 : ℕ) : ℂ) ^ 1
    ≠ (∑ j ∈ range (1 ^ 1), (#[(1 : ℂ)]).getD j 0) / ((1 : ℕ) : ℂ) ^ 1 := by
  simp

/-! ## I2 — 1-D exactness -/

/-- **I2** (explicit trigonometric interpolant). -/
theorem I2_exact_1d (Nold Nnew : ℕ) (hne : Nold ≠ Nnew) (hNn : 0 < Nnew) (ob : Bool)
    (u : Array ℂ) (hbl : BandLimited1 Nold (min Nold Nnew) u) (j : ℕ) (hj : j < Nnew) :
    (mapBetween 1 Nold Nnew ob u).getD j 0 =
      (∑ h ∈ range (Nold / 2 + 1), (herm_weight 1 Nold h : ℂ) *
        ((((rfftnM 1 Nold u).getD h 0 *
            Complex.exp (2 * Real.pi * Complex.I * (h : ℂ) * (((j : ℝ) / (Nnew : ℝ) : ℝ) : ℂ))).re : ℝ) : ℂ))
        / (Nold : ℂ) :=
  mapBetween_one_exact Nold Nnew hne hNn ob u hbl j hj

/-- **I2** (in terms of the model's `FourierInterpolator`). -/
theorem I2_exact_1d_interpolate (Nold Nnew : ℕ) (hne : Nold ≠ Nnew) (hNo : 0 < Nold) (hNn : 0 < Nnew)
    (ob : Bool) (s : ℂ) (hs : s ≠ 0) (u : Array ℂ) (hbl : BandLimited1 Nold (min Nold Nnew) u)
    (j : ℕ) (hj : j < Nnew) :
    (mapBetween 1 Nold Nnew ob u).getD j 0 = interpolate 1 Nold s u (gridPoint 1 Nnew s j) :=
  mapBetween_one_eq_interpolate Nold Nnew hne hNo hNn ob s hs u hbl j hj

/-- the band-limit hypothesis is EMPTY when up-sampling from an odd grid: I2 then holds for every `u` -/
theorem bandLimited1_of_odd_up (Nold Nnew : ℕ) (hodd : Nold % 2 = 1) (hlt : Nold < Nnew) (u : Array ℂ) :
    BandLimited1 Nold (min Nold Nnew) u := by
  intro h hh hm
  have : min Nold Nnew = Nold := by omega
  omega

/-- when up-sampling from an even grid it says exactly: the Nyquist coefficient vanishes -/
theorem bandLimited1_even_up_iff (Nold Nnew : ℕ) (hev : Nold % 2 = 0) (hlt : Nold < Nnew) (u : Array ℂ) :
    BandLimited1 Nold (min Nold Nnew) u ↔ (rfftnM 1 Nold u).getD (Nold / 2) 0 = 0 := by
  have hmin : min Nold Nnew = Nold := by omega
  rw [hmin]
  constructor
  · intro hbl; exact hbl (Nold / 2) le_rfl (by omega)
  · intro hz h hh hm
    have : h = Nold / 2 := by omega
    rw [this]; exact hz

/-- the constant field is band-limited in every dimension (non-vacuity of `BandLimitedN`) -/
theorem bandLimitedN_ones (D N m : ℕ) (hD : 0 < D) (hN : 0 < N) (hm : 1 ≤ m) :
    BandLimitedN D N m (tab (N ^ D) (fun _ => (1 : ℂ))) := by
  intro h hh hnb
  rw [rfftnM_ones D N hD hN h hh, if_neg]
  rintro rfl
  apply hnb
  rw [inBand_wnFlat_iff]
  intro d _
  rw [wnFlat_zero]
  simp
  omega

/-- non-vacuity of `BandLimited1` when down-sampling: the constant field -/
example : BandLimited1 6 (min 6 4) (tab (6 ^ 1) (fun _ => (1 : ℂ))) :=
  (bandLimitedN_one_iff 6 (min 6 4) _).mp (bandLimitedN_ones 1 6 (min 6 4) (by norm_num) (by norm_num) (by norm_num))

/-- **I2 (a)** round trip (up-then-down and down-then-up). -/
theorem I2a_roundtrip (Nold Nnew : ℕ) (hne : Nold ≠ Nnew) (hNo : 0 < Nold) (hNn : 0 < Nnew)
    (ob ob' : Bool) (u : Array ℂ) (hu : ∀ j < Nold, (u.getD j 0).im = 0)
    (hbl : BandLimited1 Nold (min Nold Nnew) u) (j : ℕ) (hj : j < Nold) :
    (mapBetween 1 Nnew Nold ob' (mapBetween 1 Nold Nnew ob u)).getD j 0 = u.getD j 0 :=
  mapBetween_one_roundtrip Nold Nnew hne hNo hNn ob ob' u hu hbl j hj

/-- up-then-down from an odd grid is the identity on EVERY real field -/
theorem I2a_roundtrip_odd_up (Nold Nnew : ℕ) (hodd : Nold % 2 = 1) (hlt : Nold < Nnew)
    (ob ob' : Bool) (u : Array ℂ) (hu : ∀ j < Nold, (u.getD j 0).im = 0) (j : ℕ) (hj : j < Nold) :
    (mapBetween 1 Nnew Nold ob' (mapBetween 1 Nold Nnew ob u)).getD j 0 = u.getD j 0 :=
  mapBetween_one_roundtrip Nold Nnew (by omega) (by omega) (by omega) ob ob' u hu
    (bandLimited1_of_odd_up Nold Nnew hodd hlt u) j hj

/-- **I2 (b)** exact form, see `mapBetween_one_subsample`; odd case and even-case criterion: -/
theorem I2b_subsample_odd (Nold p : ℕ) (hNo : 0 < Nold) (hp : 2 ≤ p) (hodd : Nold % 2 = 1)
    (ob : Bool) (u : Array ℂ) (hu : ∀ j < Nold, (u.getD j 0).im = 0) (j : ℕ) (hj : j < Nold) :
    (mapBetween 1 Nold (p * Nold) ob u).getD (p * j) 0 = u.getD j 0 :=
  mapBetween_one_subsample_odd Nold p hNo hp hodd ob u hu j hj

theorem I2b_subsample_even_iff (Nold p : ℕ) (hNo : 0 < Nold) (hp : 2 ≤ p) (hev : Nold % 2 = 0)
    (ob : Bool) (u : Array ℂ) (hu : ∀ j < Nold, (u.getD j 0).im = 0) :
    (∀ j < Nold, (mapBetween 1 Nold (p * Nold) ob u).getD (p * j) 0 = u.getD j 0)
      ↔ (rfftnM 1 Nold u).getD (Nold / 2) 0 = 0 :=
  mapBetween_one_subsample_even_iff Nold p hNo hp hev ob u hu

/-- non-vacuity of the hypotheses of I2 (a)/(b): a real field on an odd grid (any such field is
    admissible), and a real field on an even grid whose Nyquist coefficient vanishes -/
example : ∃ (Nold Nnew : ℕ) (u : Array ℂ), Nold ≠ Nnew ∧ 0 < Nold ∧ 0 < Nnew ∧
    (∀ j < Nold, (u.getD j 0).im = 0) ∧ BandLimited1 Nold (min Nold Nnew) u :=
  ⟨5, 8, tab 5 (fun j => (((j : ℝ)) : ℂ)), by norm_num, by norm_num, by norm_num, real_tab _ _,
    bandLimited1_of_odd_up 5 8 (by norm_num) (by norm_num) _⟩

example : ∃ (Nold : ℕ) (u : Array ℂ), 0 < Nold ∧ Nold % 2 = 0 ∧
    (∀ j < Nold, (u.getD j 0).im = 0) ∧ (rfftnM 1 Nold u).getD (Nold / 2) 0 = 0 :=
  ⟨4, tab (4 ^ 1) (fun _ => (1 : ℂ)), by norm_num, by norm_num,
    by intro j hj; rw [tab_getD _ _ _ _ (by simpa using hj)]; simp,
    by rw [rfftnM_ones 1 4 (by norm_num) (by norm_num) _ (by rw [numModes_one]; norm_num)]; norm_num⟩

/-! ## I3 — the interpolator at the grid points -/

/-- **I3.** -/
theorem I3_interpolate_grid (D N : ℕ) (hD : 0 < D) (hN : 0 < N) (s : ℂ) (hs : s ≠ 0) (u : Array ℂ)
    (hu : ∀ j < N ^ D, (u.getD j 0).im = 0) (j : ℕ) (hj : j < N ^ D) :
    interpolate D N s u (gridPoint D N s j) = u.getD j 0 :=
  interpolate_gridPoint D N hD hN s hs u hu j hj

/-- the 1-D instance with the coordinate written out: `x_j = (2π/s)·j/N` -/
theorem I3_interpolate_grid_1d (N : ℕ) (hN : 0 < N) (s : ℂ) (hs : s ≠ 0) (u : Array ℂ)
    (hu : ∀ j < N, (u.getD j 0).im = 0) (j : ℕ) (hj : j < N) :
    interpolate 1 N s u [(2 * (Real.pi : ℂ) / s) * (j : ℂ) / (N : ℂ)] = u.getD j 0 := by
  have := interpolate_gridPoint 1 N Nat.one_pos hN s hs u (by simpa using hu) j (by simpa using hj)
  simpa [gridPoint, digit_one_of_lt N j hj] using this

example : ∃ (s : ℂ), s ≠ 0 := ⟨1, one_ne_zero⟩

/-! ## I4 — exactness in any dimension -/

/-- **I4** (full strength: any `D ≥ 1`, any `N_old ≠ N_new`, both `≥ 1`). -/
theorem I4_exact_nd (D Nold Nnew : ℕ) (hD : 0 < D) (hNo : 0 < Nold) (hNn : 0 < Nnew) (hne : Nold ≠ Nnew)
    (ob : Bool) (s : ℂ) (hs : s ≠ 0) (u : Array ℂ)
    (hbl : BandLimitedN D Nold (min Nold Nnew) u) (j : ℕ) (hj : j < Nnew ^ D) :
    (mapBetween D Nold Nnew ob u).getD j 0 = interpolate D Nold s u (gridPoint D Nnew s j) :=
  mapBetween_nd_exact_full D Nold Nnew hD hNo hNn hne ob s hs u hbl j hj

/-- I4 with the band-limit hypothesis written out per axis -/
theorem I4_exact_nd' (D Nold Nnew : ℕ) (hD : 0 < D) (hNo : 0 < Nold) (hNn : 0 < Nnew) (hne : Nold ≠ Nnew)
    (ob : Bool) (s : ℂ) (hs : s ≠ 0) (u : Array ℂ)
    (hbl : ∀ h, h < numModes D Nold →
      (∃ d, d < D ∧ ((min Nold Nnew : ℕ) : ℤ) ≤ 2 * |(wnFlat D Nold h).getD d 0|) →
        (rfftnM D Nold u).getD h 0 = 0)
    (j : ℕ) (hj : j < Nnew ^ D) :
    (mapBetween D Nold Nnew ob u).getD j 0 = interpolate D Nold s u (gridPoint D Nnew s j) :=
  mapBetween_nd_exact_full D Nold Nnew hD hNo hNn hne ob s hs u
    ((bandLimitedN_iff D Nold (min Nold Nnew) u).mpr hbl) j hj

/-- the band-limit hypothesis is EMPTY when up-sampling from an odd grid, in any dimension -/
theorem bandLimitedN_of_odd_up (D Nold Nnew : ℕ) (hD : 0 < D) (hodd : Nold % 2 = 1) (hlt : Nold < Nnew)
    (u : Array ℂ) : BandLimitedN D Nold (min Nold Nnew) u := by
  intro h hh hnb
  exfalso
  apply hnb
  have hmin : min Nold Nnew = Nold := by omega
  rw [hmin, inBand_wnFlat_iff]
  intro d hd
  have := wnFlat_abs_le D Nold h hD (by omega) hh d hd
  rw [← wnFlat_getD D Nold h d hd] at this
  generalize |(wnFlat D Nold h).getD d 0| = a at this
  omega

/-- **I4 for odd `N_old`, up-sampling: no hypothesis on `u` at all** — the up-sampled field IS the
    interpolant sampled on the fine grid -/
theorem I4_upsample_odd (D Nold Nnew : ℕ) (hD : 0 < D) (hodd : Nold % 2 = 1) (hlt : Nold < Nnew)
    (ob : Bool) (s : ℂ) (hs : s ≠ 0) (u : Array ℂ) (j : ℕ) (hj : j < Nnew ^ D) :
    (mapBetween D Nold Nnew ob u).getD j 0 = interpolate D Nold s u (gridPoint D Nnew s j) :=
  mapBetween_nd_exact_full D Nold Nnew hD (by omega) (by omega) (by omega) ob s hs u
    (bandLimitedN_of_odd_up D Nold Nnew hD hodd hlt u) j hj

/-- non-vacuity of I4 -/
example : ∃ (D Nold Nnew : ℕ) (u : Array ℂ), 0 < D ∧ 0 < Nold ∧ 0 < Nnew ∧ Nold ≠ Nnew ∧
    BandLimitedN D Nold (min Nold Nnew) u :=
  ⟨3, 4, 6, _, by norm_num, by norm_num, by norm_num, by norm_num,
    bandLimitedN_ones 3 4 (min 4 6) (by norm_num) (by norm_num) (by norm_num)⟩

end Exponax.Interp
