import ExponaxModel.Proofs.OperatorAlgebra
import ExponaxModel.Proofs.DFT
import ExponaxModel.Proofs.ReadOffND
import ExponaxModel.Proofs.SpectralOpsEq
import ExponaxModel.Proofs.SmallGaps2Poisson
/-
C05 — spectral differential operators are exact on band-limited fields.
`Nonlin.deriv`, `Nonlin.laplace`, `Nonlin.poissonStep`, `Nonlin.derivativeM` mirror `exponax/_spectral.py`
and `_poisson.py` (tied by the correspondence); `s = 2π/L` real, non-zero.
-/
set_option linter.unusedVariables false
namespace Exponax
open Exponax.Nonlin Exponax.Operator

/-- the derivative symbol of order `m` along axis `d`: `(i s k_d)^m` -/
theorem C05_derivative_symbol (c : Cfg ℂ) (s : ℝ) (hs : c.s = (s : ℂ)) (d h m : ℕ) :
    deriv c d h ^ m = Complex.I ^ m * (((s * (wnAt c d h : ℝ)) ^ m : ℝ) : ℂ) :=
  deriv_pow_symbol c s hs d h m

/-- multiplying a mode by `(i s k_d)^m` IS the `m`-th derivative of the corresponding plane wave (any order) -/
theorem C05_derivative_exact_on_modes (c : Cfg ℂ) (d h m : ℕ) :
    (iteratedDeriv m fun x : ℝ => Complex.exp (deriv c d h * x)) =
      fun x : ℝ => deriv c d h ^ m * Complex.exp (deriv c d h * x) :=
  iteratedDeriv_mode c d h m

/-- Laplace operator of even order `2n ≥ 2`: `(−1)^n s^{2n} Σ_d k_d^{2n}` (real) -/
theorem C05_laplace_symbol (c : Cfg ℂ) (s : ℝ) (hs : c.s = (s : ℂ)) (h n : ℕ) (hn : 1 ≤ n) :
    laplace c (2 * n) h = (((-1) ^ n * s ^ (2 * n) * ∑ d ∈ Finset.range c.D, (wnAt c d h : ℝ) ^ (2 * n) : ℝ) : ℂ) :=
  laplace_even c s hs h n hn

/-- gradient inner product of odd order: `i (−1)^n s^{2n+1} Σ_d v_d k_d^{2n+1}` (purely imaginary) -/
theorem C05_gradinner_symbol (c : Cfg ℂ) (s : ℝ) (hs : c.s = (s : ℂ)) (h n : ℕ) (v : ℕ → ℝ) :
    ∑ d ∈ Finset.range c.D, ((v d : ℝ) : ℂ) * deriv c d h ^ (2 * n + 1) =
      Complex.I * (((-1) ^ n * s ^ (2 * n + 1) * ∑ d ∈ Finset.range c.D, v d * (wnAt c d h : ℝ) ^ (2 * n + 1) : ℝ) : ℂ) :=
  gradInner_odd c s hs h n v

theorem poissonStep_eq (c : Cfg ℂ) (order h : ℕ) (f : ℂ) : poissonStep c order h f = poissonMode order c h f := by
  simp only [poissonStep, poissonMode]
  by_cases hl : laplace c order h = 0 <;> simp [HasIsZero.isZero, hl]

/-- POISSON, order 2: the solution has zero mean and its Laplacian is minus the right-hand side on every
    other stored mode (so `Δu = −(f − mean f)`) -/
theorem C05_poisson2 (c : Cfg ℂ) (s : ℝ) (hs : c.s = (s : ℂ)) (hs0 : s ≠ 0) (h : ℕ) (hD : 1 ≤ c.D) (hN : 0 < c.N)
    (hh : h < Layout.numModes c.D c.N) (f : ℂ) :
    poissonStep c 2 0 f = 0 ∧ (h ≠ 0 → laplace c 2 h * poissonStep c 2 h f = -f) := by
  rw [poissonStep_eq, poissonStep_eq]
  exact poisson_two_index c s hs hs0 h hD hN hh f

/-- POISSON, order 4: the same with the sum of pure fourth derivatives `Σ_d ∂_d⁴` (symbol `s⁴ Σ k_d⁴`) -/
theorem C05_poisson4 (c : Cfg ℂ) (s : ℝ) (hs : c.s = (s : ℂ)) (hs0 : s ≠ 0) (h : ℕ) (hD : 1 ≤ c.D) (hN : 0 < c.N)
    (hh : h < Layout.numModes c.D c.N) (f : ℂ) :
    (poissonStep c 4 0 f = 0 ∧ (h ≠ 0 → laplace c 4 h * poissonStep c 4 h f = -f)) ∧
    laplace c 4 h = ((s ^ 4 * ∑ d ∈ Finset.range c.D, (wnAt c d h : ℝ) ^ 4 : ℝ) : ℂ) := by
  rw [poissonStep_eq, poissonStep_eq]
  exact ⟨poisson_four_index c s hs hs0 h hD hN hh f, laplace_four c s hs h⟩

/-- the guard fires only at the mean mode -/
theorem C05_guard_only_dc (c : Cfg ℂ) (s : ℝ) (hs : c.s = (s : ℂ)) (hs0 : s ≠ 0) (h n : ℕ) (hn : 1 ≤ n) :
    laplace c (2 * n) h = 0 ↔ ∀ d < c.D, wnAt c d h = 0 :=
  laplace_even_eq_zero_iff c s hs hs0 h n hn

/-- transform pair used by `derivative`: exact on every real grid function (all `D ≥ 1`, `N ≥ 1`) -/
theorem C05_transform_roundtrip (D N : ℕ) (hD : 0 < D) (hN : 0 < N) (x : ℕ → ℝ) :
    Transform.irfftnM D N (Transform.rfftnM D N (Transform.tab (N ^ D) (fun j => ((x j : ℝ) : ℂ))))
      = Transform.tab (N ^ D) (fun j => ((x j : ℝ) : ℂ)) :=
  DFT.irfftn_rfftn_ofReal D N hD hN x

example : ∃ c : Cfg ℂ, ∃ s : ℝ, c.s = (s : ℂ) ∧ s ≠ 0 ∧ 1 ≤ c.D ∧ 0 < c.N :=
  ⟨{ D := 2, N := 6, s := ((2 : ℝ) : ℂ), fp := 0, fq := 0 }, 2, rfl, by norm_num, by decide, by decide⟩

/-! ### physical space, every dimension: the model routines on Nyquist-free states (`Proofs/ReadOff*.lean`)

`ExactLinear.stateOf D N ms` is the grid sample of `Σ a cos(2π κ·j/N + φ)`; `ReadOff.diffModes s m d` maps each mode to
its analytic `m`-th derivative along axis `d`: amplitude `a (s κ_d)^m`, phase `φ + mπ/2`. -/

/-- SPECTRAL DERIVATIVES ARE EXACT ON RESOLVED MODES: any order `m ≥ 0`, any axis, every D ≥ 1, odd or even N -/
theorem C05_derivative_exact (c : Cfg ℂ) (s : ℝ) (hs : c.s = (s : ℂ)) (hD : 0 < c.D) (hN : 0 < c.N) (m d : ℕ)
    (ms : ExactLinear.Modes) (hms : ∀ q ∈ ms, ExactLinear.BelowNyquist c.D c.N q.1) :
    derivativeM c m d (ExactLinear.stateOf c.D c.N ms) = ExactLinear.stateOf c.D c.N (ReadOff.diffModes s m d ms) :=
  ReadOff.derivativeM_stateOf c s hs hD hN m d ms hms

theorem C05_derivative_exact_single_mode (c : Cfg ℂ) (s : ℝ) (hs : c.s = (s : ℂ)) (hD : 0 < c.D) (hN : 0 < c.N)
    (κ : List ℤ) (hκ : ExactLinear.BelowNyquist c.D c.N κ) (m d : ℕ) (a φ : ℝ) :
    derivativeM c m d (ExactLinear.modeField c.D c.N κ a φ) =
      ExactLinear.modeField c.D c.N κ (a * (s * (κ.getD d 0 : ℤ)) ^ m) (φ + m * (Real.pi / 2)) :=
  ReadOff.derivativeM_modeField c s hs hD hN κ hκ m d a φ

/-- POISSON in physical space: the solver returns, for every Nyquist-free right-hand side, the field whose modes are
    divided by `s²|κ|²` (constant part dropped) … -/
theorem C05_poisson_physical (c : Cfg ℂ) (s : ℝ) (hs : c.s = (s : ℂ)) (hs0 : s ≠ 0) (hD : 0 < c.D) (hN : 0 < c.N)
    (ms : ExactLinear.Modes) (hms : ∀ q ∈ ms, ExactLinear.BelowNyquist c.D c.N q.1) :
    Transform.irfftnM c.D c.N (ReadOff.poissonSpec c 2 (Transform.rfftnM c.D c.N (ExactLinear.stateOf c.D c.N ms))) =
      ExactLinear.stateOf c.D c.N (ReadOff.poissonModes c.D s ms) :=
  ReadOff.poisson_stateOf_physical c s hs hs0 hD hN ms hms

/-- … which solves `∇²u = −f` (apply the model Laplacian to the solution: `−f` comes back), with zero mean -/
theorem C05_poisson_solves (c : Cfg ℂ) (s : ℝ) (hs : c.s = (s : ℂ)) (hs0 : s ≠ 0) (hD : 0 < c.D) (hN : 0 < c.N)
    (κ : List ℤ) (hκ : ExactLinear.BelowNyquist c.D c.N κ) (hne : ∃ d < c.D, κ.getD d 0 ≠ 0) (a φ : ℝ) (fh : Array ℂ) :
    ReadOff.specApply c.D c.N (laplace c 2) (Transform.irfftnM c.D c.N
        (ReadOff.poissonSpec c 2 (Transform.rfftnM c.D c.N (ExactLinear.modeField c.D c.N κ a φ)))) =
      ExactLinear.modeField c.D c.N κ (-a) φ ∧ (ReadOff.poissonSpec c 2 fh).getD 0 0 = 0 :=
  ⟨ReadOff.poisson_solves_neg_f c s hs hs0 hD hN κ hκ hne a φ, ReadOff.poissonSpec_mean_zero c s hs fh⟩

/-! ### the spectral-derivative and Poisson code itself, regenerated from `_spectral.py::derivative` and `_poisson.py`
on every run (`Gen.SpectralOps.*`), is the model operator the theorems above are about -/
open Exponax.SpectralOpsEq in
/-- `exponax.derivative` (single channel: one output row per axis; multi-channel: row `c·D + d`) is the model's
    spectral derivative `(i k_d 2π/L)^order` applied between the model transforms -/
theorem C05_generated_derivative (D N C : ℕ) (hD : 1 ≤ D) (hN : 0 < N) (L : ℂ) (order : ℕ) (field : MC ℂ) :
    Gen.SpectralOps.derivative D N 1 L order "ij" field =
        tabC D (fun d => derivativeM (cfg D N L) order d (field.getD 0 #[])) ∧
      (C ≠ 1 → Gen.SpectralOps.derivative D N C L order "ij" field =
        tabC (C * D) (fun p => derivativeM (cfg D N L) order (p % D) (field.getD (p / D) #[]))) :=
  ⟨derivative_single_eq D N hD hN L order field, fun hC => derivative_multi_eq D N C hC hD hN L order field⟩

open Exponax.SpectralOpsEq in
/-- `Poisson.__init__` stores `1/Δ̂` with `0` at every mode where the symbol vanishes, and `Poisson.step` divides by it
    between the transforms: the model's `poissonStep` -/
theorem C05_generated_poisson (D N C : ℕ) (hD : 1 ≤ D) (hN : 0 < N) (L : ℂ) (order : ℕ) (f : MC ℂ) :
    Gen.SpectralOps.Poisson_init_inv_operator D N L order =
        tab2 1 (Layout.numModes D N) (fun _ h =>
          if laplace (cfg D N L) order h = 0 then 0 else 1 / laplace (cfg D N L) order h) ∧
      Gen.SpectralOps.Poisson_step D N C L order f =
        tabC C (fun ch => Transform.irfftnM D N (Transform.tab (Layout.numModes D N) (fun h =>
          poissonStep (cfg D N L) order h ((Transform.rfftnM D N (f.getD ch #[])).getD h 0)))) :=
  ⟨Poisson_init_inv_operator_eq D N hD hN L order, Poisson_step_eq D N C hD hN L order f⟩



/-! ### Poisson of every even order in physical space (order 4: gain −1/(s⁴Σκ_d⁴), opposite sign to order 2; the operator
applied to the solution always returns −(f − mean f)), also through the regenerated `Poisson_step` -/

open Exponax.SmallGaps2 in
theorem C05_poisson4_physical :
    ∀ (c : Nonlin.Cfg ℂ) (s : ℝ),
      c.s = ↑s →
        s ≠ 0 →
          0 < c.D →
            0 < c.N →
              ∀ (ms : ExactLinear.Modes),
                (∀ q ∈ ms, ExactLinear.BelowNyquist c.D c.N q.1) →
                  Transform.irfftnM c.D c.N
                      (ReadOff.poissonSpec c 4 (Transform.rfftnM c.D c.N (ExactLinear.stateOf c.D c.N ms))) =
                    ExactLinear.stateOf c.D c.N (poissonModes4 c.D s ms) :=
  @Exponax.SmallGaps2.poisson4_physical

open Exponax.SmallGaps2 in
theorem C05_poisson_even_order_solves :
    ∀ (c : Nonlin.Cfg ℂ) (s : ℝ),
      c.s = ↑s →
        s ≠ 0 →
          0 < c.D →
            0 < c.N →
              ∀ (n : ℕ),
                1 ≤ n →
                  ∀ (ms : ExactLinear.Modes),
                    (∀ q ∈ ms, ExactLinear.BelowNyquist c.D c.N q.1) →
                      ReadOff.specApply c.D c.N (Nonlin.laplace c (2 * n))
                          (Transform.irfftnM c.D c.N
                            (ReadOff.poissonSpec c (2 * n) (Transform.rfftnM c.D c.N (ExactLinear.stateOf c.D c.N ms)))) =
                        ExactLinear.stateOf c.D c.N (negOffMean c.D (2 * n) ms) :=
  @Exponax.SmallGaps2.poisson_even_solves

open Exponax.SmallGaps2 in
theorem C05_generated_poisson_even_physical :
    ∀ (D N C n : ℕ),
      1 ≤ n →
        1 ≤ D →
          0 < N →
            ∀ (L : ℝ),
              L ≠ 0 →
                ∀ (f : Nonlin.MC ℂ) (ms : ℕ → ExactLinear.Modes),
                  (∀ ch < C, ∀ q ∈ ms ch, ExactLinear.BelowNyquist D N q.1) →
                    (∀ ch < C, Array.getD f ch #[] = ExactLinear.stateOf D N (ms ch)) →
                      Gen.SpectralOps.Poisson_step D N C (↑L) (2 * n) f =
                        Nonlin.tabC C fun ch ↦ ExactLinear.stateOf D N (poissonModesEven D (2 * Real.pi / L) n (ms ch)) :=
  @Exponax.SmallGaps2.generated_poisson_even_physical


end Exponax
