import ExponaxModel.Properties.C01
import ExponaxModel.Proofs.BaseStepperExact
import ExponaxModel.Proofs.StepperWiringArgs
/-
C01 (continued) — "ONE CALL returns the exact analytic solution": the capstones of `Properties/C01.lean`
(`C01_exact_state`, `C01_exact_every_band_limited_state`) are about `ExactLinear.linStep`, the ETDRK0 update between the model
transforms.  Here they are tied to the REGENERATED `BaseStepper.__call__` (`Gen.Base.BaseStepper_call`: shape guard → `step`
= regenerated `fft` → `step_fourier` → regenerated `ifft`; `Generated/BaseStepperGen.lean`, regenerated from
`exponax/_base_stepper.py` on every run) with the regenerated constructor dispatch `Gen.Base.BaseStepper_step_fourier`
(order 0 builds `ETDRK0(dt, linear_operator)`).

WHAT `sf` IS.  `BaseStepper_call a sf shape u` takes the stepper's `step_fourier` as a map on stored arrays
`MC ℂ = Array (Array ℂ)`; the regenerated `BaseStepper_step_fourier a (entrywiseOf lam) Nl : Spec → Option Spec` acts on
spectra as functions `Spec = ℕ → ℕ → ℂ` of (channel, stored mode).  Throughout

  sf = BaseStepperExact.liftStepFourier 1 (numModes D N) (BaseStepper_step_fourier a (entrywiseOf (fun _ h => lam h)) Nl)
     = fun uh => (BaseStepper_step_fourier a … (fun ch h => at2 uh ch h)).map (tab2 1 (numModes D N))

i.e. read the stored array entry by entry, run the regenerated step, tabulate the result to one channel of
`numModes D N` stored modes (`specOfMC` / `mcOfSpec`; their round trip is the identity on stored entries,
`BaseStepperExact.specOfMC_mcOfSpec`).  `lam : ℕ → ℂ` is the array `linear_operator` over stored modes (the same for the one
channel), `Nl` the stepper's nonlinear function (irrelevant at order 0).
-/
set_option linter.unusedVariables false
namespace Exponax
open Exponax.Layout Exponax.Transform Exponax.Nonlin Exponax.Gen.Etdrk Exponax.Gen.StepperWiring Exponax.Gen.Base
open Exponax.Interface Exponax.BaseStepperGenEq Exponax.BaseStepperExact Exponax.StepperWiringEq
open Exponax.EquivND (liftTermND)

/-- **the regenerated `__call__` of a one-channel, order-0 stepper IS `ExactLinear.linStep`**, for ANY symbol array
    `lam` over stored modes, any nonlinear function, any contour parameters, any complex `dt`, `L`, every `D ≥ 1`, every
    `N`: on a state of the configured shape `(1,) + (N,)*D` the call returns `irfftn(exp(dt·lam) ⊙ rfftn(u))` -/
theorem C01_call_is_exact_linear_step (a : BaseStepperArgs ℂ) (h0 : a.order = 0) (hC : a.num_channels = 1)
    (hD : 1 ≤ a.num_spatial_dims) (lam : ℕ → ℂ) (Nl : Spec → Spec) (u : Array ℂ) :
    BaseStepper_call a
        (liftStepFourier 1 (numModes a.num_spatial_dims a.num_points)
          (BaseStepper_step_fourier a (entrywiseOf (fun _ h => lam h)) Nl))
        (1 :: List.replicate a.num_spatial_dims a.num_points) #[u]
      = some #[ExactLinear.linStep a.num_spatial_dims a.num_points lam a.dt u] :=
  BaseStepper_call_linear a h0 hC hD lam Nl u

/-- … and it refuses every other shape -/
theorem C01_call_refuses_other_shapes (a : BaseStepperArgs ℂ) (hC : a.num_channels = 1)
    (sf : MC ℂ → Option (MC ℂ)) (shape : List ℕ)
    (hs : shape ≠ 1 :: List.replicate a.num_spatial_dims a.num_points) (u : MC ℂ) :
    BaseStepper_call a sf shape u = none :=
  BaseStepper_call_linear_refuses a hC sf shape hs u

/-- **ONE CALL returns the analytic solution.**  A one-channel order-0 stepper on a real domain `L = ℓ` with real `dt = t`
    whose `_build_linear_operator` (`linop`, applied to the derivative operator `kappa (baseCfg D N L)` that `__init__`
    hands to it) is the symbol of the documented operator `Σ coef·∂^α` (`terms`, real coefficients): the regenerated
    `__call__` maps the grid sample of `Σ_m a_m cos(2π κ_m·j/N + φ_m)` (all `κ_m` strictly below Nyquist) to the grid
    sample of `Σ_m a_m e^{t Re λ_m} cos(2π κ_m·j/N + φ_m + t Im λ_m)`, `λ_m = P(i·(2π/ℓ)·κ_m)` the eigenvalue of
    `C01_symbol_is_eigenvalue` — every `D ≥ 1`, `N ≥ 1`, every real `t` (no CFL restriction; negative too) -/
theorem C01_call_returns_the_analytic_solution (a : BaseStepperArgs ℂ) (h0 : a.order = 0) (hC : a.num_channels = 1)
    (hD : 1 ≤ a.num_spatial_dims) (hN : 1 ≤ a.num_points) (ℓ t : ℝ) (hL : a.domain_extent = (ℓ : ℂ))
    (hdt : a.dt = (t : ℂ)) (linop : List ℂ → ℂ) (terms : List (ℂ × List ℕ))
    (hsym : ∀ h, linop (kappa (baseCfg a.num_spatial_dims a.num_points a.domain_extent) h)
        = polySymbol (baseCfg a.num_spatial_dims a.num_points a.domain_extent) terms h)
    (hre : ∀ q ∈ terms, q.1.im = 0) (Nl : Spec → Spec) (ms : ExactLinear.Modes)
    (hms : ∀ m ∈ ms, ExactLinear.BelowNyquist a.num_spatial_dims a.num_points m.1) :
    BaseStepper_call a
        (liftStepFourier 1 (numModes a.num_spatial_dims a.num_points)
          (BaseStepper_step_fourier a
            (entrywiseOf (fun _ h => linop (kappa (baseCfg a.num_spatial_dims a.num_points a.domain_extent) h))) Nl))
        (1 :: List.replicate a.num_spatial_dims a.num_points)
        #[ExactLinear.stateOf a.num_spatial_dims a.num_points ms]
      = some #[ExactLinear.stateOf a.num_spatial_dims a.num_points (ms.map fun m =>
          (m.1,
           m.2.1 * Real.exp (t * (polyAt (imagVec a.num_spatial_dims
              fun d => 2 * Real.pi / ℓ * (m.1.getD d 0 : ℤ)) terms).re),
           m.2.2 + t * (polyAt (imagVec a.num_spatial_dims
              fun d => 2 * Real.pi / ℓ * (m.1.getD d 0 : ℤ)) terms).im))] := by
  rw [C01_call_is_exact_linear_step a h0 hC hD
    (fun h => linop (kappa (baseCfg a.num_spatial_dims a.num_points a.domain_extent) h)) Nl]
  have hlam : (fun h => linop (kappa (baseCfg a.num_spatial_dims a.num_points a.domain_extent) h))
      = polySymbol (baseCfg a.num_spatial_dims a.num_points a.domain_extent) terms := funext hsym
  have hs : (baseCfg a.num_spatial_dims a.num_points a.domain_extent).s = ((2 * Real.pi / ℓ : ℝ) : ℂ) := by
    show 2 * (Real.pi : ℂ) / a.domain_extent = _
    rw [hL]
    push_cast
    rfl
  rw [hlam, hdt]
  exact congrArg (fun x => some #[x])
    (C01_exact_state (baseCfg a.num_spatial_dims a.num_points a.domain_extent) hD hN (2 * Real.pi / ℓ) hs terms hre
      t ms hms)

/-- the same for EVERY real grid state whose transform vanishes at and above Nyquist (it is such a superposition), and
    any symbol array with the Hermitian symmetry of a real operator: the call returns the mode-by-mode evolved state -/
theorem C01_call_every_band_limited_state (a : BaseStepperArgs ℂ) (h0 : a.order = 0) (hC : a.num_channels = 1)
    (hD : 1 ≤ a.num_spatial_dims) (hN : 1 ≤ a.num_points) (t : ℝ) (hdt : a.dt = (t : ℂ)) (lam : ℕ → ℂ)
    (hΛ : ExactLinear.HermSym a.num_spatial_dims a.num_points lam) (Nl : Spec → Spec) (u : Array ℂ)
    (hsz : u.size = a.num_points ^ a.num_spatial_dims)
    (hu : ∀ j < a.num_points ^ a.num_spatial_dims, (u.getD j 0).im = 0)
    (hb : ExactLinear.BandLimited a.num_spatial_dims a.num_points u) :
    ∃ ms, (∀ m ∈ ms, ExactLinear.BelowNyquist a.num_spatial_dims a.num_points m.1) ∧
      u = ExactLinear.stateOf a.num_spatial_dims a.num_points ms ∧
      BaseStepper_call a
          (liftStepFourier 1 (numModes a.num_spatial_dims a.num_points)
            (BaseStepper_step_fourier a (entrywiseOf (fun _ h => lam h)) Nl))
          (1 :: List.replicate a.num_spatial_dims a.num_points) #[u]
        = some #[ExactLinear.stateOf a.num_spatial_dims a.num_points
            (ExactLinear.evolve a.num_spatial_dims a.num_points lam t ms)] := by
  obtain ⟨ms, h1, h2, h3⟩ :=
    C01_exact_every_band_limited_state a.num_spatial_dims a.num_points hD hN lam hΛ u hsz hu hb
  refine ⟨ms, h1, h2, ?_⟩
  rw [C01_call_is_exact_linear_step a h0 hC hD lam Nl, hdt, h3 t]

/-! ### `Advection`: constructor arguments → regenerated `super().__init__` arguments, stored velocity, regenerated
`_build_linear_operator` and `_build_nonlinear_fun` → regenerated `__call__` -/

/-- the real velocity list as the stored complex attribute -/
noncomputable def realVec (w : List ℝ) : List ℂ := w.map (fun r : ℝ => (r : ℂ))

/-- **`Advection(D, ℓ, N, t, velocity=…)(u)` translates `u` by `t·w`**: whenever the STORED velocity is the real vector
    `w` of length `D` (a scalar argument is stored as `v·ones(D)`, see the corollary), the regenerated `__call__` — with
    the `step_fourier` that the regenerated `__init__` builds from `Advection_base_args` (one channel, order 0), the
    regenerated `Advection_linear_operator` on the stepper's own derivative operator and the regenerated nonlinear-function
    wiring — maps `Σ_m a_m cos(2π κ_m·j/N + φ_m)` to `Σ_m a_m cos(2π κ_m·j/N + φ_m − t·(2π/ℓ)·w·κ_m)`, the solution of
    `u_t + w·∇u = 0` after time `t`: amplitudes untouched, every `D ≥ 1`, `N ≥ 1`, every real `t`, `ℓ` -/
theorem C01_advection_call_returns_the_analytic_solution (a : AdvectionArgs ℂ) (hD : 1 ≤ a.num_spatial_dims)
    (hN : 1 ≤ a.num_points) (ℓ t : ℝ) (hL : a.domain_extent = (ℓ : ℂ)) (hdt : a.dt = (t : ℂ)) (w : List ℝ)
    (hw : w.length = a.num_spatial_dims) (hv : (Advection_attrs a).velocity = some (realVec w))
    (ms : ExactLinear.Modes) (hms : ∀ m ∈ ms, ExactLinear.BelowNyquist a.num_spatial_dims a.num_points m.1) :
    BaseStepper_call (Advection_base_args a)
        (liftStepFourier 1 (numModes a.num_spatial_dims a.num_points)
          (BaseStepper_step_fourier (Advection_base_args a)
            (entrywiseOf (fun _ h => Gen.Steppers.Advection_linear_operator
              (kappa (baseCfg a.num_spatial_dims a.num_points a.domain_extent) h)
              ((Advection_attrs a).velocity.getD [])))
            (liftTermND (baseCfg a.num_spatial_dims a.num_points a.domain_extent) (Advection_base_args a).num_channels
              (Advection_stepper_nonlinear_fun (baseCfg a.num_spatial_dims a.num_points a.domain_extent) a))))
        (1 :: List.replicate a.num_spatial_dims a.num_points)
        #[ExactLinear.stateOf a.num_spatial_dims a.num_points ms]
      = some #[ExactLinear.stateOf a.num_spatial_dims a.num_points (ms.map fun m =>
          (m.1, m.2.1,
           m.2.2 - t * (2 * Real.pi / ℓ *
             ∑ d ∈ Finset.range a.num_spatial_dims, w.getD d 0 * ((m.1.getD d 0 : ℤ) : ℝ))))] := by
  have hb := Advection_base_args_eq a
  have key := C01_call_returns_the_analytic_solution (Advection_base_args a) (by rw [hb]) (by rw [hb])
    (by rw [hb]; exact hD) (by rw [hb]; exact hN) ℓ t (by rw [hb]; exact hL) (by rw [hb]; exact hdt)
    (fun κ => Gen.Steppers.Advection_linear_operator κ (realVec w))
    (pscale (-1) (gradInner a.num_spatial_dims (fun d => ((w.getD d 0 : ℝ) : ℂ)) 1))
    (by
      intro h
      rw [hb]
      have hvf : vfun (realVec w) = fun d => ((w.getD d 0 : ℝ) : ℂ) := by
        funext d
        unfold vfun realVec
        rcases Nat.lt_or_ge d w.length with hd | hd
        · simp [List.getD_eq_getElem?_getD, hd]
        · simp [List.getD_eq_getElem?_getD, hd]
      have := (C01_generated_symbols (baseCfg a.num_spatial_dims a.num_points a.domain_extent) h (realVec w)
        (List.replicate a.num_spatial_dims 0) (List.replicate a.num_spatial_dims (List.replicate a.num_spatial_dims 0))
        0 false [] (by simp [realVec]; exact hw) (by simp; rfl) (by simp; rfl)
        (by intro r hr; rw [List.eq_of_mem_replicate hr]; simp; rfl)).1
      rw [hvf] at this
      exact this)
    (by
      intro q hq
      simp only [pscale, gradInner, List.map_map, List.mem_map, List.mem_range] at hq
      obtain ⟨d, _, rfl⟩ := hq
      simp)
    (liftTermND (baseCfg a.num_spatial_dims a.num_points a.domain_extent) (Advection_base_args a).num_channels
      (Advection_stepper_nonlinear_fun (baseCfg a.num_spatial_dims a.num_points a.domain_extent) a))
    ms (by rw [hb]; exact hms)
  rw [hv]
  simp only [Option.getD_some]
  rw [hb] at key ⊢
  simp only at key ⊢
  rw [key]
  congr 3
  congr 1
  apply List.map_congr_left
  intro m hm
  have hp : polyAt (imagVec a.num_spatial_dims fun d => 2 * Real.pi / ℓ * ((m.1.getD d 0 : ℤ) : ℝ))
      (pscale (-1) (gradInner a.num_spatial_dims (fun d => ((w.getD d 0 : ℝ) : ℂ)) 1))
      = -(Complex.I * ((∑ d ∈ Finset.range a.num_spatial_dims,
          w.getD d 0 * (2 * Real.pi / ℓ * ((m.1.getD d 0 : ℤ) : ℝ)) : ℝ) : ℂ)) := by
    rw [polyAt_pscale, polyAt_imag_gradInner]
    simp only [pow_one]
    ring
  rw [hp]
  have hre0 : (-(Complex.I * ((∑ d ∈ Finset.range a.num_spatial_dims,
          w.getD d 0 * (2 * Real.pi / ℓ * ((m.1.getD d 0 : ℤ) : ℝ)) : ℝ) : ℂ))).re = 0 := by
    simp
  have him0 : (-(Complex.I * ((∑ d ∈ Finset.range a.num_spatial_dims,
          w.getD d 0 * (2 * Real.pi / ℓ * ((m.1.getD d 0 : ℤ) : ℝ)) : ℝ) : ℂ))).im
      = -(∑ d ∈ Finset.range a.num_spatial_dims, w.getD d 0 * (2 * Real.pi / ℓ * ((m.1.getD d 0 : ℤ) : ℝ))) := by
    simp
  rw [hre0, him0, mul_zero, Real.exp_zero, mul_one]
  have hsum : (∑ d ∈ Finset.range a.num_spatial_dims, w.getD d 0 * (2 * Real.pi / ℓ * ((m.1.getD d 0 : ℤ) : ℝ)))
      = 2 * Real.pi / ℓ * ∑ d ∈ Finset.range a.num_spatial_dims, w.getD d 0 * ((m.1.getD d 0 : ℤ) : ℝ) := by
    rw [Finset.mul_sum]
    apply Finset.sum_congr rfl
    intro d _
    ring
  rw [hsum]
  refine Prod.ext rfl (Prod.ext rfl ?_)
  dsimp only
  ring

/-- a SCALAR velocity `v` (the default form; stored as `v·ones(D)`): translation of every mode by `t·v` along every axis -/
theorem C01_advection_scalar_call_returns_the_analytic_solution (a : AdvectionArgs ℂ) (hD : 1 ≤ a.num_spatial_dims)
    (hN : 1 ≤ a.num_points) (ℓ t : ℝ) (hL : a.domain_extent = (ℓ : ℂ)) (hdt : a.dt = (t : ℂ)) (v : ℝ)
    (hvel : a.velocity = .scalar (v : ℂ))
    (ms : ExactLinear.Modes) (hms : ∀ m ∈ ms, ExactLinear.BelowNyquist a.num_spatial_dims a.num_points m.1) :
    BaseStepper_call (Advection_base_args a)
        (liftStepFourier 1 (numModes a.num_spatial_dims a.num_points)
          (BaseStepper_step_fourier (Advection_base_args a)
            (entrywiseOf (fun _ h => Gen.Steppers.Advection_linear_operator
              (kappa (baseCfg a.num_spatial_dims a.num_points a.domain_extent) h)
              ((Advection_attrs a).velocity.getD [])))
            (liftTermND (baseCfg a.num_spatial_dims a.num_points a.domain_extent) (Advection_base_args a).num_channels
              (Advection_stepper_nonlinear_fun (baseCfg a.num_spatial_dims a.num_points a.domain_extent) a))))
        (1 :: List.replicate a.num_spatial_dims a.num_points)
        #[ExactLinear.stateOf a.num_spatial_dims a.num_points ms]
      = some #[ExactLinear.stateOf a.num_spatial_dims a.num_points (ms.map fun m =>
          (m.1, m.2.1,
           m.2.2 - t * (2 * Real.pi / ℓ *
             (v * ∑ d ∈ Finset.range a.num_spatial_dims, ((m.1.getD d 0 : ℤ) : ℝ)))))] := by
  have hv : (Advection_attrs a).velocity = some (realVec (List.replicate a.num_spatial_dims v)) := by
    rw [Advection_attrs_eq, hvel]
    simp [realVec]
  rw [C01_advection_call_returns_the_analytic_solution a hD hN ℓ t hL hdt (List.replicate a.num_spatial_dims v)
    (by simp) hv ms hms]
  congr 3
  congr 1
  apply List.map_congr_left
  intro m _
  have hsum : (∑ d ∈ Finset.range a.num_spatial_dims,
        (List.replicate a.num_spatial_dims v).getD d 0 * ((m.1.getD d 0 : ℤ) : ℝ))
      = v * ∑ d ∈ Finset.range a.num_spatial_dims, ((m.1.getD d 0 : ℤ) : ℝ) := by
    rw [Finset.mul_sum]
    apply Finset.sum_congr rfl
    intro d hd
    have hd' : d < a.num_spatial_dims := Finset.mem_range.mp hd
    simp [List.getD_eq_getElem?_getD, hd']
  rw [hsum]

/-! non-vacuity: a 2-D `Advection` with an anisotropic real velocity on a real domain, a state with two modes below
Nyquist; a general order-0 one-channel configuration whose operator is a documented polynomial -/
example : ∃ (a : AdvectionArgs ℂ) (ℓ t : ℝ) (w : List ℝ) (ms : ExactLinear.Modes),
    1 ≤ a.num_spatial_dims ∧ 1 ≤ a.num_points ∧ a.domain_extent = (ℓ : ℂ) ∧ a.dt = (t : ℂ) ∧
      w.length = a.num_spatial_dims ∧ (Advection_attrs a).velocity = some (realVec w) ∧ ms ≠ [] ∧
      ∀ m ∈ ms, ExactLinear.BelowNyquist a.num_spatial_dims a.num_points m.1 := by
  refine ⟨(⟨2, ((3 : ℝ) : ℂ), 8, ((5 : ℝ) : ℂ), .vector [((1 : ℝ) : ℂ), ((-2 : ℝ) : ℂ)]⟩ : AdvectionArgs ℂ), 3, 5, [1, -2], [([1, -3], 2, 0), ([0, 2], 1, 1)],
    by decide, by decide, rfl, rfl, rfl, ?_, by simp, ?_⟩
  · rw [Advection_attrs_eq]
    rfl
  · intro m hm
    simp only [List.mem_cons, List.not_mem_nil, or_false] at hm
    rcases hm with rfl | rfl
    · refine ⟨rfl, ?_⟩
      intro d hd
      interval_cases d <;> simp
    · refine ⟨rfl, ?_⟩
      intro d hd
      interval_cases d <;> simp

example : ∃ (a : BaseStepperArgs ℂ) (ℓ t : ℝ) (linop : List ℂ → ℂ) (terms : List (ℂ × List ℕ)),
    a.order = 0 ∧ a.num_channels = 1 ∧ 1 ≤ a.num_spatial_dims ∧ 1 ≤ a.num_points ∧ a.domain_extent = (ℓ : ℂ) ∧
      a.dt = (t : ℂ) ∧ terms ≠ [] ∧ (∀ q ∈ terms, q.1.im = 0) ∧
      ∀ h, linop (kappa (baseCfg a.num_spatial_dims a.num_points a.domain_extent) h)
        = polySymbol (baseCfg a.num_spatial_dims a.num_points a.domain_extent) terms h :=
  ⟨⟨2, ((3 : ℝ) : ℂ), 8, ((5 : ℝ) : ℂ), 1, 0, 16, 1⟩, 3, 5, fun κ => polyAt κ [(((7 : ℝ) : ℂ), [2, 0])],
    [(((7 : ℝ) : ℂ), [2, 0])], rfl, rfl, by decide, by decide, rfl, rfl, by simp, by simp,
    fun h => (polySymbol_eq_polyAt _ _ h).symm⟩

end Exponax
