import ExponaxModel.Proofs.Instances
import ExponaxModel.Model.IC
import ExponaxModel.Model.Guards
/-
C18 — initial-condition generators honour their documented contract (deterministic post-processing;
the random draws are inputs of the model — `jax.random` is not modelled).
(Normalisation / clamping theorems live in `Proofs/ICAlgebra.lean`.)
-/
set_option linter.unusedVariables false
namespace Exponax
open Exponax.IC Exponax.Guards

/-- the post-processing keeps the number of entries (one channel of `N^D` points in, the same out) -/
theorem C18_normalize_size {K : Type} [Add K] [Sub K] [Mul K] [Div K] [Neg K] [Zero K] [One K] [NatCast K]
    [IntCast K] [HasSqrt K] [HasAbs K] [HasLtB K] (z s m : Bool) (u : Array K) :
    (normalizeIc z s m u).size = u.size := by
  unfold normalizeIc
  cases z <;> cases s <;> cases m <;> simp

theorem C18_scale_entries (a : ℝ) (u : Array ℝ) (i : ℕ) (hi : i < u.size) :
    (IC.scale a u).getD i 0 = a * u.getD i 0 := by
  simp [IC.scale, Array.getD, hi]

/-- invalid normalisation combinations are exactly the documented ones -/
theorem C18_invalid_options (z s m : Bool) :
    icNormOk z s m = false ↔ (z = false ∧ s = true) ∨ (s = true ∧ m = true) := by
  cases z <;> cases s <;> cases m <;> simp [icNormOk]

example : icNormOk true true false = true ∧ icNormOk false true false = false := by decide

end Exponax
