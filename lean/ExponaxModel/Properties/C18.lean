import ExponaxModel.Proofs.ICAlgebra
import ExponaxModel.Model.Guards
import ExponaxModel.Proofs.ICGenEq
import ExponaxModel.Proofs.ICGen2Eq
/-
C18 — initial-condition generators honour their documented contract (deterministic post-processing;
the random draws are inputs of the model — `jax.random` is not modelled).
-/
set_option linter.unusedVariables false
namespace Exponax
open Exponax.IC Exponax.Guards

/-- `zero_mean`: the result has mean 0 -/
theorem C18_zero_mean (u : Array ℝ) (hu : 0 < u.size) : mean (normalizeIc true false false u) = 0 :=
  mean_normalizeIc_center u hu

/-- `std_one` (with `zero_mean`): mean 0 and standard deviation exactly 1 -/
theorem C18_std_one (u : Array ℝ) (hu : 0 < u.size) (hs : std (normalizeIc true false false u) ≠ 0) :
    std (normalizeIc true true false u) = 1 ∧ mean (normalizeIc true true false u) = 0 :=
  normalizeIc_center_std u hu hs

/-- `max_one`: maximum absolute value exactly 1 (for either `zero_mean` setting) -/
theorem C18_max_one (z s : Bool) (u : Array ℝ) (h : maxAbs (normalizeIc z s false u) ≠ 0) :
    maxAbs (normalizeIc z s true u) = 1 :=
  maxAbs_normalizeIc z s u h

/-- clamping: all values inside `[lo, hi]` and BOTH limits are reached -/
theorem C18_clamp (lo hi : ℝ) (hlh : lo ≤ hi) (u : Array ℝ) (hlt : minOf u < maxOf u) :
    (∀ y ∈ (clamp lo hi u).toList, lo ≤ y ∧ y ≤ hi) ∧ minOf (clamp lo hi u) = lo ∧ maxOf (clamp lo hi u) = hi :=
  ⟨clamp_mem_Icc lo hi hlh u hlt, minOf_clamp lo hi hlh u hlt, maxOf_clamp lo hi hlh u hlt⟩

/-- scale factor -/
theorem C18_scale (a : ℝ) (u : Array ℝ) (j : ℕ) :
    (IC.scale a u).getD j 0 = a * u.getD j 0 ∧ mean (IC.scale a u) = a * mean u :=
  ⟨scale_getD a u j, mean_scale a u⟩

/-- truncated Fourier series: the spectrum handed to the inverse transform carries the requested offset in the
    mean mode (`offset·N^D` in the unnormalised layout), the noise inside the cutoff, and ZERO outside it -/
theorem C18_band_confined (D N cutoff : ℕ) (offset : ℂ) (noise : Array ℂ) (h : ℕ) (hh : h < Layout.numModes D N) :
    truncatedSeries D N cutoff offset noise = Transform.irfftnM D N (truncatedSpectrum D N cutoff offset noise) ∧
    (truncatedSpectrum D N cutoff offset noise).getD h 0 =
      if h = 0 then offset * (N : ℂ) ^ D
      else if ∀ kd ∈ Layout.wnFlat D N h, |kd| ≤ (cutoff : ℤ) then (Transform.rfftnM D N noise).getD h 0 else 0 :=
  ⟨truncatedSeries_eq D N cutoff offset noise, truncatedSpectrum_getD D N cutoff offset noise h hh⟩

/-- the post-processing keeps the number of entries -/
theorem C18_normalize_size (z s m : Bool) (u : Array ℝ) : (normalizeIc z s m u).size = u.size := by
  unfold normalizeIc
  cases z <;> cases s <;> cases m <;> simp

/-- invalid normalisation combinations are exactly the documented ones -/
theorem C18_invalid_options (z s m : Bool) :
    icNormOk z s m = false ↔ (z = false ∧ s = true) ∨ (s = true ∧ m = true) := by
  cases z <;> cases s <;> cases m <;> simp [icNormOk]

example : icNormOk true true false = true ∧ icNormOk false true false = false := by decide
example : (0 : ℕ) < (#[1.0, 2.0] : Array ℝ).size := by simp

/-! ### the deterministic post-processing REGENERATED from `exponax/ic/_base_ic.py`, `_clamping.py`, `_scaled.py` and
`_truncated_fourier_series.py` (random draws as inputs) is the model the theorems above are about -/
open Exponax.Gen.ICGen in
theorem C18_generated_postprocessing (u : Array ℝ) (zm so mo : Bool) (lo hi a : ℝ) :
    normalize_ic u zm so mo = IC.normalizeIc zm so mo u ∧
    ClampingICGenerator_call (lo, hi) u = IC.clamp lo hi u ∧
    ScaledICGenerator_call a u = IC.scale a u :=
  ⟨normalize_ic_real u zm so mo, ClampingICGenerator_call_real lo hi u, ScaledICGenerator_call_real a u⟩

open Exponax.Gen.ICGen in
theorem C18_generated_truncated_series (D cutoff : ℕ) (orange : ℂ × ℂ) (so mo : Bool) (N : ℕ) (noise : Array ℂ)
    (offset : ℂ) :
    RandomTruncatedFourierSeries_call D cutoff orange so mo N noise offset
      = IC.normalizeIc (HasIsZero.isZero orange.1 && HasIsZero.isZero orange.2) so mo
          (IC.truncatedSeries D N cutoff offset noise) :=
  RandomTruncatedFourierSeries_call_complex D cutoff orange so mo N noise offset


/-! ### the remaining generators, REGENERATED from `ic/*.py` with every random draw as an explicit input
(`harness/translate_ic2.py` → `Generated/ICGen2.lean`; keys are abstract, `split` is a parameter): spectrum shaping of the
Gaussian random field (noise × |k|^(−e/2), mean mode untouched) and of diffused noise (noise × exp(−ν(2π/L)²|k|²)), with the
normalisation flags reaching `normalize_ic` unchanged; a discontinuity block takes exactly two values; sine-wave value formula;
`one_complement` = 1 − blob; for the three generators with a function form the sampled form IS the function form on the
regenerated grid; and the multi-channel wrapper's function form equals its sampled form channel by channel because both code paths
hand sub-generator c the key `(split key n)[c]` -/

open Exponax.Gen.IC2 in
theorem C18_gaussian_random_field_contract :
    ∀ {Key : Type} (wn : ℕ → Key → Array ℂ) (D N : ℕ) (L e : ℂ) (zm so mo : Bool)
      (key : Key),
      1 ≤ D →
        0 < N →
          GaussianRandomField_call wn (GaussianRandomField_init D L e zm so mo) N key =
              IC.normalizeIc zm so mo (Transform.irfftnM D N (IC2.grfSpectrum D N L e (wn N key))) ∧
            ∀ h < Layout.numModes D N,
              (IC2.grfSpectrum D N L e (wn N key)).getD h 0 =
                (Transform.rfftnM D N (wn N key)).getD h 0 * if h = 0 then 1 else HasRpow.rpow (IC2.wnNorm D N L h) (-e / 2) :=
  @Exponax.Gen.IC2.GaussianRandomField_contract

open Exponax.Gen.IC2 in
theorem C18_diffused_noise_contract :
    ∀ {Key : Type} (wn : ℕ → Key → Array ℂ) (D N : ℕ) (L ν : ℂ) (zm so mo : Bool) (key : Key),
      1 ≤ D →
        0 < N →
          DiffusedNoise_call wn (DiffusedNoise_init D L ν zm so mo) N key =
              IC.normalizeIc zm so mo (Transform.irfftnM D N (IC2.diffusedSpectrum D N L ν (wn N key))) ∧
            (∀ h < Layout.numModes D N,
                (IC2.diffusedSpectrum D N L ν (wn N key)).getD h 0 =
                  Complex.exp (-(ν * (2 * ↑Real.pi / L * (2 * ↑Real.pi / L)) * ↑(Layout.normSq (Layout.wnFlat D N h)))) *
                    (Transform.rfftnM D N (wn N key)).getD h 0) ∧
              ∀ (h : ℕ), IC2.diffusionKernel D N L ν h ≠ 0 :=
  @Exponax.Gen.IC2.DiffusedNoise_contract

open Exponax.Gen.IC2 in
theorem C18_discontinuity_two_values :
    ∀ {K : Type} [inst : Field K] [inst_1 : HasLtB K] [HasSqrt K] [HasAbs K]
      (self : Discontinuity K) (x : List (Array K)),
      ∀ j < IC2.gridPoints x,
        (Discontinuity_call self x).getD j 0 =
          if IC2.inBox self.lower_limits self.upper_limits x j = true then self.value else 0 :=
  @Exponax.Gen.IC2.Discontinuity_two_values

open Exponax.Gen.IC2 in
theorem C18_sine_waves_value :
    ∀ {K : Type} [inst : Field K] [inst_1 : HasLtB K] [inst_2 : HasSqrt K] [inst_3 : HasAbs K]
      [inst_4 : HasSin K] [inst_5 : HasPi K],
      Gen.ICGen.AbsLaw K →
        ∀ (self : SineWaves1d K) (x : Array K),
          SineWaves1d_call self x =
              IC.normalizeIc false self.std_one self.max_one
                (IC2.sineSum self.domain_extent self.amplitudes self.wavenumbers self.phases self.offset x) ∧
            ∀ j < x.size,
              (IC2.sineSum self.domain_extent self.amplitudes self.wavenumbers self.phases self.offset x).getD j 0 =
                (List.map (fun t ↦ t.1 * HasSin.sin (t.2.1 * (2 * HasPi.pi / self.domain_extent) * x.getD j 0 + t.2.2))
                      (self.amplitudes.zip (self.wavenumbers.zip self.phases))).sum +
                  self.offset :=
  @Exponax.Gen.IC2.SineWaves1d_contract

open Exponax.Gen.IC2 in
theorem C18_gaussian_blob_one_complement :
    ∀ {K : Type} [inst : Field K] [inst_1 : HasExp K] (self : GaussianBlob K)
      (x : List (Array K)) (j : ℕ),
      self.position.length = x.length →
        (∀ a ∈ x, a.size = IC2.gridPoints x) →
          j < IC2.gridPoints x →
            (GaussianBlob_call
                    { position := self.position, covariance := self.covariance,
                      priv_inv_covariance := self.priv_inv_covariance, one_complement := true }
                    x).getD
                j 0 =
              1 -
                (GaussianBlob_call
                      { position := self.position, covariance := self.covariance,
                        priv_inv_covariance := self.priv_inv_covariance, one_complement := false }
                      x).getD
                  j 0 :=
  @Exponax.Gen.IC2.GaussianBlob_one_complement

open Exponax.Gen.IC2 in
theorem C18_discontinuities_sampled_is_function_form :
    ∀ {Key K : Type} [inst : Field K] [inst_1 : HasLtB K]
      [inst_2 : HasSqrt K] [inst_3 : HasAbs K] [inst_4 : Inhabited Key] (split : Key → ℕ → List Key)
      (d1 d2 dv : Key → K → K → K) (self : RandomDiscontinuities K) (N : ℕ) (key : Key),
      RandomDiscontinuities_call split d1 d2 dv self N key =
        Discontinuities_call (RandomDiscontinuities_gen_ic_fun split d1 d2 dv self key)
          (ext_make_grid self.num_spatial_dims self.domain_extent N self.indexing) :=
  @Exponax.Gen.IC2.RandomDiscontinuities_sampled_eq_function_form

open Exponax.Gen.IC2 in
theorem C18_sine_waves_sampled_is_function_form :
    ∀ {Key K : Type} [inst : Field K] [inst_1 : HasLtB K] [inst_2 : HasSqrt K]
      [inst_3 : HasAbs K] [inst_4 : HasSin K] [inst_5 : HasPi K] [inst_6 : Inhabited Key] (split : Key → ℕ → List Key)
      (da dp : Key → ℕ → K → K → List K) (doff : Key → K → K → K) (self : RandomSineWaves1d K) (N : ℕ) (key : Key),
      RandomSineWaves1d_call split da dp doff self N key =
        SineWaves1d_call (RandomSineWaves1d_gen_ic_fun split da dp doff self key)
          ((ext_make_grid self.num_spatial_dims self.domain_extent N self.indexing).getD 0 #[]) :=
  @Exponax.Gen.IC2.RandomSineWaves1d_sampled_eq_function_form

open Exponax.Gen.IC2 in
theorem C18_gaussian_blobs_sampled_is_function_form :
    ∀ {Key K : Type} [inst : Field K] [inst_1 : HasExp K]
      [inst_2 : Inhabited Key] (split : Key → ℕ → List Key) (dp dv : Key → ℕ → K → K → List K)
      (inv : List (List K) → List (List K)) (self : RandomGaussianBlobs K) (N : ℕ) (key : Key),
      RandomGaussianBlobs_call split dp dv inv self N key =
        GaussianBlobs_call (RandomGaussianBlobs_gen_ic_fun split dp dv inv self key)
          (ext_make_grid self.num_spatial_dims self.domain_extent N self.indexing) :=
  @Exponax.Gen.IC2.RandomGaussianBlobs_sampled_eq_function_form

open Exponax.Gen.IC2 in
theorem C18_multi_channel_function_form_is_sampled_form :
    ∀ {Key K : Type} (split : Key → ℕ → List Key)
      (self : RandomMultiChannelICGenerator Key K) (N : ℕ) (key : Key) (x : List (Array K)),
      (∀ g ∈ self.ic_generators, ∀ (k : Key), g.call N k = g.gen_ic_fun k x) →
        MultiChannelIC_call (RandomMultiChannelICGenerator_gen_ic_fun split self key) x =
          RandomMultiChannelICGenerator_call split self N key :=
  @Exponax.Gen.IC2.multi_channel_function_form_eq_sampled

open Exponax.Gen.IC2 in
theorem C18_multi_channel_channel_count :
    ∀ {Key K : Type} (split : Key → ℕ → List Key)
      (self : RandomMultiChannelICGenerator Key K) (N : ℕ) (key : Key),
      (split key self.ic_generators.length).length = self.ic_generators.length →
        (RandomMultiChannelICGenerator_call split self N key).length = self.ic_generators.length ∧
          (RandomMultiChannelICGenerator_gen_ic_fun split self key).initial_conditions.length = self.ic_generators.length :=
  @Exponax.Gen.IC2.multi_channel_channel_count

open Exponax.Gen.IC2 in
theorem C18_generated_draw_sites :
    generated_draw_sites =
      [("GaussianRandomField.__init__", ["white_noise : self.white_noise = WhiteNoise(num_spatial_dims)"]),
        ("GaussianRandomField.__call__", ["white_noise : self.white_noise(num_points, key=key)"]),
        ("DiffusedNoise.__init__", ["white_noise : self.white_noise = WhiteNoise(num_spatial_dims)"]),
        ("DiffusedNoise.__call__", ["white_noise : self.white_noise(num_points, key=key)"]),
        ("RandomDiscontinuities.gen_one_ic_fn",
          ["draw_lim_1 : lim_1 = jr.uniform(key_1, (), minval=0.0, maxval=self.domain_extent)",
            "draw_lim_2 : lim_2 = jr.uniform(key_2, (), minval=0.0, maxval=self.domain_extent)",
            "draw_value : value = jr.uniform(key, (), minval=self.value_range[0], maxval=self.value_range[1])"]),
        ("RandomSineWaves1d.gen_ic_fun",
          ["draw_amplitudes : amplitudes = jr.uniform(amplitude_key, shape=(self.cutoff,), minval=self.amplitude_range[0], maxval=self.amplitude_range[1])",
            "draw_phases : phases = jr.uniform(phase_key, shape=(self.cutoff,), minval=self.phase_range[0], maxval=self.phase_range[1])",
            "draw_offset : offset = jr.uniform(offset_key, shape=(), minval=self.offset_range[0], maxval=self.offset_range[1])"]),
        ("RandomGaussianBlobs.gen_blob",
          ["draw_position : position = jr.uniform(position_key, shape=(self.num_spatial_dims,), minval=self.position_range[0] * self.domain_extent, maxval=self.position_range[1] * self.domain_extent)",
            "draw_variances : variances = jr.uniform(variance_key, shape=(self.num_spatial_dims,), minval=self.variance_range[0] * self.domain_extent, maxval=self.variance_range[1] * self.domain_extent)"])] :=
  @Exponax.Gen.IC2.generated_draw_sites_pinned


end Exponax
