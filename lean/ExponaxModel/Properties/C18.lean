import ExponaxModel.Proofs.ICAlgebra
import ExponaxModel.Model.Guards
import ExponaxModel.Proofs.ICGenEq
/-
C18 — initial-condition generators honour their documented contract (deterministic post-processing;
the random draws are inputs of the model — `jax.random` is not modelled).
-/
set_option linter.unusedVariables false
namespace Exponax
open Exponax.IC Exponax.Guards

/-- `zero_mean`: the result has mean 0 -/
theorem C18_zero_mean (u : Array ℝ) (hu : 0 < u.size) : mean (normalizeIc true false false u) = 0 :=
  mean_normalizeIc_center u hu

/-- `std_one` (with `zero_mean`): mean 0 and standard deviation exactly 1 -/
theorem C18_std_one (u : Array ℝ) (hu : 0 < u.size) (hs : std (normalizeIc true false false u) ≠ 0) :
    std (normalizeIc true true false u) = 1 ∧ mean (normalizeIc true true false u) = 0 :=
  normalizeIc_center_std u hu hs

/-- `max_one`: maximum absolute value exactly 1 (for either `zero_mean` setting) -/
theorem C18_max_one (z s : Bool) (u : Array ℝ) (h : maxAbs (normalizeIc z s false u) ≠ 0) :
    maxAbs (normalizeIc z s true u) = 1 :=
  maxAbs_normalizeIc z s u h

/-- clamping: all values inside `[lo, hi]` and BOTH limits are reached -/
theorem C18_clamp (lo hi : ℝ) (hlh : lo ≤ hi) (u : Array ℝ) (hlt : minOf u < maxOf u) :
    (∀ y ∈ (clamp lo hi u).toList, lo ≤ y ∧ y ≤ hi) ∧ minOf (clamp lo hi u) = lo ∧ maxOf (clamp lo hi u) = hi :=
  ⟨clamp_mem_Icc lo hi hlh u hlt, minOf_clamp lo hi hlh u hlt, maxOf_clamp lo hi hlh u hlt⟩

/-- scale factor -/
theorem C18_scale (a : ℝ) (u : Array ℝ) (j : ℕ) :
    (IC.scale a u).getD j 0 = a * u.getD j 0 ∧ mean (IC.scale a u) = a * mean u :=
  ⟨scale_getD a u j, mean_scale a u⟩

/-- truncated Fourier series: the spectrum handed to the inverse transform carries the requested offset in the
    mean mode (`offset·N^D` in the unnormalised layout), the noise inside the cutoff, and ZERO outside it -/
theorem C18_band_confined (D N cutoff : ℕ) (offset : ℂ) (noise : Array ℂ) (h : ℕ) (hh : h < Layout.numModes D N) :
    truncatedSeries D N cutoff offset noise = Transform.irfftnM D N (truncatedSpectrum D N cutoff offset noise) ∧
    (truncatedSpectrum D N cutoff offset noise).getD h 0 =
      if h = 0 then offset * (N : ℂ) ^ D
      else if ∀ kd ∈ Layout.wnFlat D N h, |kd| ≤ (cutoff : ℤ) then (Transform.rfftnM D N noise).getD h 0 else 0 :=
  ⟨truncatedSeries_eq D N cutoff offset noise, truncatedSpectrum_getD D N cutoff offset noise h hh⟩

/-- the post-processing keeps the number of entries -/
theorem C18_normalize_size (z s m : Bool) (u : Array ℝ) : (normalizeIc z s m u).size = u.size := by
  unfold normalizeIc
  cases z <;> cases s <;> cases m <;> simp

/-- invalid normalisation combinations are exactly the documented ones -/
theorem C18_invalid_options (z s m : Bool) :
    icNormOk z s m = false ↔ (z = false ∧ s = true) ∨ (s = true ∧ m = true) := by
  cases z <;> cases s <;> cases m <;> simp [icNormOk]

example : icNormOk true true false = true ∧ icNormOk false true false = false := by decide
example : (0 : ℕ) < (#[1.0, 2.0] : Array ℝ).size := by simp

/-! ### the deterministic post-processing REGENERATED from `exponax/ic/_base_ic.py`, `_clamping.py`, `_scaled.py` and
`_truncated_fourier_series.py` (random draws as inputs) is the model the theorems above are about -/
open Exponax.Gen.ICGen in
theorem C18_generated_postprocessing (u : Array ℝ) (zm so mo : Bool) (lo hi a : ℝ) :
    normalize_ic u zm so mo = IC.normalizeIc zm so mo u ∧
    ClampingICGenerator_call (lo, hi) u = IC.clamp lo hi u ∧
    ScaledICGenerator_call a u = IC.scale a u :=
  ⟨normalize_ic_real u zm so mo, ClampingICGenerator_call_real lo hi u, ScaledICGenerator_call_real a u⟩

open Exponax.Gen.ICGen in
theorem C18_generated_truncated_series (D cutoff : ℕ) (orange : ℂ × ℂ) (so mo : Bool) (N : ℕ) (noise : Array ℂ)
    (offset : ℂ) :
    RandomTruncatedFourierSeries_call D cutoff orange so mo N noise offset
      = IC.normalizeIc (HasIsZero.isZero orange.1 && HasIsZero.isZero orange.2) so mo
          (IC.truncatedSeries D N cutoff offset noise) :=
  RandomTruncatedFourierSeries_call_complex D cutoff orange so mo N noise offset

end Exponax
