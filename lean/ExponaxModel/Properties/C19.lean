import ExponaxModel.Proofs.SymbolAlgebra
import ExponaxModel.Proofs.Stiffness
import ExponaxModel.Properties.C02
import ExponaxModel.Proofs.ContourComplexNodes
import ExponaxModel.Proofs.SmallGapsZero
/-
C19 — steps stay finite and precision-faithful across stiffness and dtype — PARTIAL.
Proved in exact arithmetic about the REGENERATED coefficient definitions: for real `z = λ dt ≤ 0` and even `M`
(the code's M = 16/32) every contour node has non-zero imaginary part, hence is at distance ≥ r·sin(π/M) from 0,
for z = 0, tiny z and every stiff z alike; every contour integrand and every stored ETDRK1–4 coefficient is bounded
by `|dt|·C(r, M)` UNIFORMLY in the stiffness; the propagators are bounded by 1; one step is bounded in terms of the
state and the nonlinear evaluations.  IEEE overflow / underflow / NaN semantics and JAX dtype promotion are not
modelled: they are observed in a default (float32) and an x64 subprocess by the check.
-/
set_option linter.unusedVariables false
namespace Exponax
open Exponax.Gen.Etdrk Exponax.Stiffness

theorem C19_node_distance (M j : ℕ) (r z : ℂ) : ‖r * root_of_unity M j + z - z‖ = ‖r‖ := by
  rw [add_sub_cancel_right, norm_mul, norm_root_of_unity, mul_one]

theorem C19_contour_avoids_singularity (M j : ℕ) (r z : ℂ) (h : ‖z‖ ≠ ‖r‖) : r * root_of_unity M j + z ≠ 0 :=
  C02_contour_avoids_zero M j r z h

/-- for REAL z (every dissipative symbol) and even M no node is zero — for every z, including |z| = r -/
theorem C19_real_symbol_nodes_nonzero (M j : ℕ) (hM : 0 < M) (hev : M % 2 = 0) (r z : ℝ) (hr : r ≠ 0) :
    (r : ℂ) * root_of_unity M j + (z : ℂ) ≠ 0 := node_ne_zero M j hM hev r z hr

/-- quantitatively: distance at least `|r| sin(π/M)` from the singularity, uniformly in `z` -/
theorem C19_node_norm_lower (M j : ℕ) (hev : M % 2 = 0) (hM : 2 ≤ M) (hj : 1 ≤ j) (hj' : j ≤ M) (r z : ℝ) :
    |r| * Real.sin (Real.pi / M) ≤ ‖(r : ℂ) * root_of_unity M j + (z : ℂ)‖ ∧ 0 < Real.sin (Real.pi / M) :=
  ⟨node_norm_ge M j hev hM hj hj' r z, sin_pi_div_pos M hM⟩

theorem C19_exp_term_bounded (dt : ℝ) (lam : ℂ) (hdt : 0 ≤ dt) (hl : lam.re ≤ 0) : ‖exp_term (dt : ℂ) lam‖ ≤ 1 :=
  norm_exp_term_le_one dt lam hdt hl

/-- every stored coefficient of the regenerated ETDRK1 / ETDRK4 definitions is bounded uniformly in the stiffness
    (the twelve others are in `Proofs/Stiffness.lean`) -/
theorem C19_coefficients_bounded (dt lam r : ℝ) (M : ℕ) (hev : M % 2 = 0) (hM : 2 ≤ M) (hr : 0 < r)
    (hz : lam * dt ≤ 0) :
    ‖E1_coef_1 (dt : ℂ) (lam : ℂ) M (r : ℂ)‖ ≤ |dt| * ((Real.exp r + 1) / nodeDist r M) ∧
    ‖E4_coef_4 (dt : ℂ) (lam : ℂ) M (r : ℂ)‖ ≤ |dt| * (4 * (1 + Real.exp r) / nodeDist r M ^ 3
        + (1 + 3 * Real.exp r) / nodeDist r M ^ 2 + Real.exp r / nodeDist r M) ∧ 0 < nodeDist r M :=
  ⟨E1_coef_1_bounded dt lam r M hev hM hr hz, E4_coef_4_bounded dt lam r M hev hM hr hz,
   nodeDist_pos r M hr hM⟩

/-- one ETDRK4 step per mode is bounded by the state plus `K` times four nonlinear evaluations -/
theorem C19_step_bounded (E Eh c1 c2 c3 c4 c5 c6 : ℂ) (N : ℂ → ℂ) (u : ℂ) (K : ℝ) (hE : ‖E‖ ≤ 1)
    (h4 : ‖c4‖ ≤ K) (h5 : ‖c5‖ ≤ K) (h6 : ‖c6‖ ≤ K) :
    ∃ a b c, ‖E4step E Eh c1 c2 c3 c4 c5 c6 N u‖ ≤ ‖u‖ + K * (‖N u‖ + 2 * (‖N a‖ + ‖N b‖) + ‖N c‖) :=
  norm_E4step_le E Eh c1 c2 c3 c4 c5 c6 N u K hE h4 h5 h6

example : (16 : ℕ) % 2 = 0 ∧ 2 ≤ 16 ∧ (0 : ℝ) < 1 ∧ (-1e15 : ℝ) * 1 ≤ 0 := by norm_num


/-! ### boundedness for COMPLEX symbols with Re λdt ≤ 0 (and a strip to the right), all fourteen coefficients, and a
bound on one step of every order for a bounded nonlinear term; what happens exactly ON a contour node -/

open Exponax.ContourComplex in
theorem C19_coefficients_bounded_complex :
    ∀ (dt lam : ℂ),
      (lam * dt).re ≤ 0 →
        (∀ ζ ∈ Gen.Etdrk.roots_of_unity 16, lam * dt ≠ -(1 * ζ)) →
          ‖Gen.Etdrk.E1_coef_1 dt lam 16 1‖ ≤ ‖dt‖ * (1 + 17e-13) ∧
            ‖Gen.Etdrk.E2_coef_1 dt lam 16 1‖ ≤ ‖dt‖ * (1 + 17e-13) ∧
              ‖Gen.Etdrk.E2_coef_2 dt lam 16 1‖ ≤ ‖dt‖ * (1 / 2 + 17e-13) ∧
                ‖Gen.Etdrk.E3_coef_1 dt lam 16 1‖ ≤ ‖dt‖ * (1 / 2 + 17e-13) ∧
                  ‖Gen.Etdrk.E3_coef_2 dt lam 16 1‖ ≤ ‖dt‖ * (1 + 17e-13) ∧
                    ‖Gen.Etdrk.E3_coef_3 dt lam 16 1‖ ≤ ‖dt‖ * (19 / 6 + 17e-13) ∧
                      ‖Gen.Etdrk.E3_coef_4 dt lam 16 1‖ ≤ ‖dt‖ * (10 / 3 + 17e-13) ∧
                        ‖Gen.Etdrk.E3_coef_5 dt lam 16 1‖ ≤ ‖dt‖ * (7 / 6 + 17e-13) ∧
                          ‖Gen.Etdrk.E4_coef_1 dt lam 16 1‖ ≤ ‖dt‖ * (1 / 2 + 17e-13) ∧
                            ‖Gen.Etdrk.E4_coef_2 dt lam 16 1‖ ≤ ‖dt‖ * (1 / 2 + 17e-13) ∧
                              ‖Gen.Etdrk.E4_coef_3 dt lam 16 1‖ ≤ ‖dt‖ * (1 / 2 + 17e-13) ∧
                                ‖Gen.Etdrk.E4_coef_4 dt lam 16 1‖ ≤ ‖dt‖ * (19 / 6 + 17e-13) ∧
                                  ‖Gen.Etdrk.E4_coef_5 dt lam 16 1‖ ≤ ‖dt‖ * (5 / 6 + 17e-13) ∧
                                    ‖Gen.Etdrk.E4_coef_6 dt lam 16 1‖ ≤ ‖dt‖ * (7 / 6 + 17e-13) :=
  @Exponax.ContourComplex.coefs_bounded_halfplane

open Exponax.ContourComplex in
theorem C19_coefficients_bounded_strip :
    ∀ (dt lam : ℂ) (c : ℝ),
      0 ≤ c →
        (lam * dt).re ≤ c →
          (∀ ζ ∈ Gen.Etdrk.roots_of_unity 16, lam * dt ≠ -(1 * ζ)) →
            ∀ (i : Fin 14), ‖storedCoef dt lam 16 1 i‖ ≤ ‖dt‖ * ((coefWeight i + 17e-13) * Real.exp c) :=
  @Exponax.ContourComplex.norm_storedCoef_le_strip

open Exponax.ContourComplex in
theorem C19_step_bounded_E1 :
    ∀ {ι : Type} (dt : ℂ) (lam : ι → ℂ) (N : (ι → ℂ) → ι → ℂ) (u : ι → ℂ) (B : ℝ),
      (∀ (i : ι), (lam i * dt).re ≤ 0) →
        (∀ (i : ι), ∀ ζ ∈ Gen.Etdrk.roots_of_unity 16, lam i * dt ≠ -(1 * ζ)) →
          (∀ (v : ι → ℂ) (i : ι), ‖N v i‖ ≤ B) →
            ∀ (i : ι),
              ‖Gen.Etdrk.E1step (fun i ↦ Gen.Etdrk.exp_term dt (lam i)) (fun i ↦ Gen.Etdrk.E1_coef_1 dt (lam i) 16 1) N u
                    i‖ ≤
                ‖u i‖ + ‖dt‖ * (1.001 * B) :=
  @Exponax.ContourComplex.norm_E1step_stored_le

open Exponax.ContourComplex in
theorem C19_step_bounded_E2 :
    ∀ {ι : Type} (dt : ℂ) (lam : ι → ℂ) (N : (ι → ℂ) → ι → ℂ) (u : ι → ℂ) (B : ℝ),
      (∀ (i : ι), (lam i * dt).re ≤ 0) →
        (∀ (i : ι), ∀ ζ ∈ Gen.Etdrk.roots_of_unity 16, lam i * dt ≠ -(1 * ζ)) →
          (∀ (v : ι → ℂ) (i : ι), ‖N v i‖ ≤ B) →
            ∀ (i : ι),
              ‖Gen.Etdrk.E2step (fun i ↦ Gen.Etdrk.exp_term dt (lam i)) (fun i ↦ Gen.Etdrk.E2_coef_1 dt (lam i) 16 1)
                    (fun i ↦ Gen.Etdrk.E2_coef_2 dt (lam i) 16 1) N u i‖ ≤
                ‖u i‖ + ‖dt‖ * (2.001 * B) :=
  @Exponax.ContourComplex.norm_E2step_stored_le

open Exponax.ContourComplex in
theorem C19_step_bounded_E3 :
    ∀ {ι : Type} (dt : ℂ) (lam : ι → ℂ) (N : (ι → ℂ) → ι → ℂ) (u : ι → ℂ) (B : ℝ),
      (∀ (i : ι), (lam i * dt).re ≤ 0) →
        (∀ (i : ι), ∀ ζ ∈ Gen.Etdrk.roots_of_unity 16, lam i * dt ≠ -(1 * ζ)) →
          (∀ (v : ι → ℂ) (i : ι), ‖N v i‖ ≤ B) →
            ∀ (i : ι),
              ‖Gen.Etdrk.E3step (fun i ↦ Gen.Etdrk.exp_term dt (lam i)) (fun i ↦ Gen.Etdrk.E3_half_exp_term dt (lam i) 16 1)
                    (fun i ↦ Gen.Etdrk.E3_coef_1 dt (lam i) 16 1) (fun i ↦ Gen.Etdrk.E3_coef_2 dt (lam i) 16 1)
                    (fun i ↦ Gen.Etdrk.E3_coef_3 dt (lam i) 16 1) (fun i ↦ Gen.Etdrk.E3_coef_4 dt (lam i) 16 1)
                    (fun i ↦ Gen.Etdrk.E3_coef_5 dt (lam i) 16 1) N u i‖ ≤
                ‖u i‖ + ‖dt‖ * (7.67 * B) :=
  @Exponax.ContourComplex.norm_E3step_stored_le

open Exponax.ContourComplex in
theorem C19_step_bounded_E4_complex :
    ∀ {ι : Type} (dt : ℂ) (lam : ι → ℂ) (N : (ι → ℂ) → ι → ℂ) (u : ι → ℂ) (B : ℝ),
      (∀ (i : ι), (lam i * dt).re ≤ 0) →
        (∀ (i : ι), ∀ ζ ∈ Gen.Etdrk.roots_of_unity 16, lam i * dt ≠ -(1 * ζ)) →
          (∀ (v : ι → ℂ) (i : ι), ‖N v i‖ ≤ B) →
            ∀ (i : ι),
              ‖Gen.Etdrk.E4step (fun i ↦ Gen.Etdrk.exp_term dt (lam i)) (fun i ↦ Gen.Etdrk.E4_half_exp_term dt (lam i) 16 1)
                    (fun i ↦ Gen.Etdrk.E4_coef_1 dt (lam i) 16 1) (fun i ↦ Gen.Etdrk.E4_coef_2 dt (lam i) 16 1)
                    (fun i ↦ Gen.Etdrk.E4_coef_3 dt (lam i) 16 1) (fun i ↦ Gen.Etdrk.E4_coef_4 dt (lam i) 16 1)
                    (fun i ↦ Gen.Etdrk.E4_coef_5 dt (lam i) 16 1) (fun i ↦ Gen.Etdrk.E4_coef_6 dt (lam i) 16 1) N u i‖ ≤
                ‖u i‖ + ‖dt‖ * (7.67 * B) :=
  @Exponax.ContourComplex.norm_E4step_stored_le

open Exponax.ContourComplex in
theorem C19_on_a_node_the_closed_form_fails :
    ∀ (dt lam ζ0 : ℂ),
      ζ0 ∈ Gen.Etdrk.roots_of_unity 16 →
        lam * dt = -(1 * ζ0) → ∀ (i : Fin 14), ‖dt‖ * 1e-2 ≤ ‖storedCoef dt lam 16 1 i - dt * exactPhi (lam * dt) i‖ :=
  @Exponax.ContourComplex.storedCoef_error_at_node'



/-! ### the zero state: every model term without injection / source maps the zero spectrum to zero, hence every ETDRK
order keeps the zero state zero over any rollout -/

open Exponax.SmallGaps in
theorem C19_terms_map_zero_to_zero :
    ∀ (c : Nonlin.Cfg ℂ) (C : ℕ) (scale s0 s1 s2 kill : ℂ) (single conservative zeroFix : Bool)
      (coeffs : List ℂ),
      coeffs.getD 0 0 = 0 →
        ∀ (react : List ℂ → List ℂ),
          (∀ (ch : ℕ), (react (List.replicate C 0)).getD ch 0 = 0) →
            ZeroPreserving (Nonlin.convection c C scale single conservative) ∧
              ZeroPreserving (Nonlin.gradientNorm c C scale zeroFix) ∧
                ZeroPreserving (Nonlin.polynomial c C coeffs) ∧
                  ZeroPreserving (Nonlin.general c C s0 s1 s2 zeroFix) ∧
                    ZeroPreserving (Nonlin.vorticity2d c scale none) ∧
                      ZeroPreserving (Nonlin.projected3d c none) ∧
                        ZeroPreserving (Nonlin.leray c) ∧
                          ZeroPreserving (Nonlin.cahnHilliard c scale) ∧
                            ZeroPreserving (Nonlin.reaction c C react) ∧
                              ZeroPreserving (Nonlin.reaction c 2 (Nonlin.grayScottReact 0 kill)) ∧
                                ZeroPreserving (Nonlin.reaction c 3 Nonlin.bzReact) :=
  @Exponax.SmallGaps.zeroPreserving_terms

open Exponax.SmallGaps in
theorem C19_zero_state_stays_zero :
    ∀ (c : Nonlin.Cfg ℂ) (C : ℕ) (T : Nonlin.MC ℂ → Nonlin.MC ℂ),
      ZeroPreserving T →
        ∀ (e eh a1 a2 a3 a4 a5 a6 : ℕ → ℕ → ℂ) (n : ℕ),
          have N := EquivND.liftTermND c C T;
          (Gen.Etdrk.E0step e)^[n] 0 = 0 ∧
            (Gen.Etdrk.E1step e a1 N)^[n] 0 = 0 ∧
              (Gen.Etdrk.E2step e a1 a2 N)^[n] 0 = 0 ∧
                (Gen.Etdrk.E3step e eh a1 a2 a3 a4 a5 N)^[n] 0 = 0 ∧ (Gen.Etdrk.E4step e eh a1 a2 a3 a4 a5 a6 N)^[n] 0 = 0 :=
  @Exponax.SmallGaps.etdrk_zero_state_fixed


end Exponax
