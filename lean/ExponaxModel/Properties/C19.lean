import ExponaxModel.Proofs.SymbolAlgebra
import ExponaxModel.Proofs.Stiffness
import ExponaxModel.Properties.C02
/-
C19 — steps stay finite and precision-faithful across stiffness and dtype — PARTIAL.
Proved in exact arithmetic about the REGENERATED coefficient definitions: for real `z = λ dt ≤ 0` and even `M`
(the code's M = 16/32) every contour node has non-zero imaginary part, hence is at distance ≥ r·sin(π/M) from 0,
for z = 0, tiny z and every stiff z alike; every contour integrand and every stored ETDRK1–4 coefficient is bounded
by `|dt|·C(r, M)` UNIFORMLY in the stiffness; the propagators are bounded by 1; one step is bounded in terms of the
state and the nonlinear evaluations.  IEEE overflow / underflow / NaN semantics and JAX dtype promotion are not
modelled: they are observed in a default (float32) and an x64 subprocess by the check.
-/
set_option linter.unusedVariables false
namespace Exponax
open Exponax.Gen.Etdrk Exponax.Stiffness

theorem C19_node_distance (M j : ℕ) (r z : ℂ) : ‖r * root_of_unity M j + z - z‖ = ‖r‖ := by
  rw [add_sub_cancel_right, norm_mul, norm_root_of_unity, mul_one]

theorem C19_contour_avoids_singularity (M j : ℕ) (r z : ℂ) (h : ‖z‖ ≠ ‖r‖) : r * root_of_unity M j + z ≠ 0 :=
  C02_contour_avoids_zero M j r z h

/-- for REAL z (every dissipative symbol) and even M no node is zero — for every z, including |z| = r -/
theorem C19_real_symbol_nodes_nonzero (M j : ℕ) (hM : 0 < M) (hev : M % 2 = 0) (r z : ℝ) (hr : r ≠ 0) :
    (r : ℂ) * root_of_unity M j + (z : ℂ) ≠ 0 := node_ne_zero M j hM hev r z hr

/-- quantitatively: distance at least `|r| sin(π/M)` from the singularity, uniformly in `z` -/
theorem C19_node_norm_lower (M j : ℕ) (hev : M % 2 = 0) (hM : 2 ≤ M) (hj : 1 ≤ j) (hj' : j ≤ M) (r z : ℝ) :
    |r| * Real.sin (Real.pi / M) ≤ ‖(r : ℂ) * root_of_unity M j + (z : ℂ)‖ ∧ 0 < Real.sin (Real.pi / M) :=
  ⟨node_norm_ge M j hev hM hj hj' r z, sin_pi_div_pos M hM⟩

theorem C19_exp_term_bounded (dt : ℝ) (lam : ℂ) (hdt : 0 ≤ dt) (hl : lam.re ≤ 0) : ‖exp_term (dt : ℂ) lam‖ ≤ 1 :=
  norm_exp_term_le_one dt lam hdt hl

/-- every stored coefficient of the regenerated ETDRK1 / ETDRK4 definitions is bounded uniformly in the stiffness
    (the twelve others are in `Proofs/Stiffness.lean`) -/
theorem C19_coefficients_bounded (dt lam r : ℝ) (M : ℕ) (hev : M % 2 = 0) (hM : 2 ≤ M) (hr : 0 < r)
    (hz : lam * dt ≤ 0) :
    ‖E1_coef_1 (dt : ℂ) (lam : ℂ) M (r : ℂ)‖ ≤ |dt| * ((Real.exp r + 1) / nodeDist r M) ∧
    ‖E4_coef_4 (dt : ℂ) (lam : ℂ) M (r : ℂ)‖ ≤ |dt| * (4 * (1 + Real.exp r) / nodeDist r M ^ 3
        + (1 + 3 * Real.exp r) / nodeDist r M ^ 2 + Real.exp r / nodeDist r M) ∧ 0 < nodeDist r M :=
  ⟨E1_coef_1_bounded dt lam r M hev hM hr hz, E4_coef_4_bounded dt lam r M hev hM hr hz,
   nodeDist_pos r M hr hM⟩

/-- one ETDRK4 step per mode is bounded by the state plus `K` times four nonlinear evaluations -/
theorem C19_step_bounded (E Eh c1 c2 c3 c4 c5 c6 : ℂ) (N : ℂ → ℂ) (u : ℂ) (K : ℝ) (hE : ‖E‖ ≤ 1)
    (h4 : ‖c4‖ ≤ K) (h5 : ‖c5‖ ≤ K) (h6 : ‖c6‖ ≤ K) :
    ∃ a b c, ‖E4step E Eh c1 c2 c3 c4 c5 c6 N u‖ ≤ ‖u‖ + K * (‖N u‖ + 2 * (‖N a‖ + ‖N b‖) + ‖N c‖) :=
  norm_E4step_le E Eh c1 c2 c3 c4 c5 c6 N u K hE h4 h5 h6

example : (16 : ℕ) % 2 = 0 ∧ 2 ≤ 16 ∧ (0 : ℝ) < 1 ∧ (-1e15 : ℝ) * 1 ≤ 0 := by norm_num

end Exponax
