import ExponaxModel.Properties.C10_xy
import ExponaxModel.Proofs.IncompressibleNyquistFree
/-
C10 (continued) — the EVEN-grid Nyquist-free case of `exponax.make_incompressible` (regenerated
`Gen.SpectralOps.make_incompressible`), both indexings.  `C10_make_incompressible_divfree` reaches only the stored modes
of Hermitian weight 2 (not the `k_last = 0` plane, not the Nyquist column) and the `…_odd_grid` theorems need `N` odd.
Here, for every REAL field whose components have no content at the stored modes with a Nyquist wavenumber component
(`C2R.NyqMode`: `N` even and `|k_d| = N/2` on some axis; on odd grids there are none), every `D ≥ 2`, EVERY `N ≥ 1`:
the Leray-projected spectrum is Hermitian-consistent at every stored mode, so the spectrum of the physical-space result
IS the Leray-projected spectrum, the result is divergence-free at EVERY stored mode, and `make_incompressible` is
idempotent.  Moreover every real field that is spectrally divergence-free at every stored mode is returned unchanged
(whole arrays; every `D ≥ 1`, `N ≥ 1`, any indexing string; needs no Nyquist hypothesis).
-/
set_option linter.unusedVariables false
namespace Exponax

open Exponax.IncompressibleXY Exponax.IncompressibleNyquistFree Exponax.SmallGaps2 in
/-- **Hermitian consistency of the projected spectrum, every grid.**  For a real field whose components are
    Nyquist-free, any `D ≥ 2`, any `N ≥ 1` (even included), the Leray-projected spectrum (`"xy"` convention,
    `lerayXY (specOf field)`) survives `rfftn ∘ irfftn` at EVERY stored mode `h` and every channel. -/
theorem C10_leray_spectrum_fixed_nyquist_free (D N : ℕ) (hD : 2 ≤ D) (hN : 0 < N) (field : Nonlin.MC ℂ)
    (hf : 2 ≤ field.size)
    (hreal : ∀ d < D, ∀ j < N ^ D, ((field.getD d #[]).getD j 0).im = 0)
    (hnf : ∀ d < D, ∀ h < Layout.numModes D N, C2R.NyqMode D N h →
      (Transform.rfftnM D N (field.getD d #[])).getD h 0 = 0)
    (h : ℕ) (hh : h < Layout.numModes D N) :
    FixedAt D N (lerayXY D N (specOf D N field)) h :=
  fixedAt_of_real_nyquist_free D N hD hN field hf hreal hnf h hh

open Exponax.IncompressibleXY Exponax.IncompressibleNyquistFree Exponax.SmallGaps2 in
/-- **`make_incompressible` agrees with the Leray projection in Fourier space at EVERY stored mode** (`"xy"`): for a real
    Nyquist-free field the spectrum of the physical-space result is exactly the projected spectrum — also on the
    self-conjugate columns of an even grid. -/
theorem C10_make_incompressible_xy_spectrum_is_leray_nyquist_free (D N : ℕ) (hD : 2 ≤ D) (hN : 0 < N)
    (field : Nonlin.MC ℂ) (hf : 2 ≤ field.size)
    (hreal : ∀ d < D, ∀ j < N ^ D, ((field.getD d #[]).getD j 0).im = 0)
    (hnf : ∀ d < D, ∀ h < Layout.numModes D N, C2R.NyqMode D N h →
      (Transform.rfftnM D N (field.getD d #[])).getD h 0 = 0)
    (d : ℕ) (hd : d < D) (h : ℕ) (hh : h < Layout.numModes D N) :
    (Transform.rfftnM D N ((Gen.SpectralOps.make_incompressible D N D "xy" field).getD d #[])).getD h 0
      = Nonlin.at2 (lerayXY D N (specOf D N field)) d h := by
  rw [make_incompressible_xy_getD D N hD hN field hf d hd]
  exact fixedAt_of_real_nyquist_free D N hD hN field hf hreal hnf h hh d hd

open Exponax.IncompressibleXY Exponax.IncompressibleNyquistFree Exponax.SmallGaps2 in
/-- … and for the default `"ij"`: the spectrum of the result is the model's `Nonlin.leray` of the spectrum of the field,
    at EVERY stored mode, every real Nyquist-free field, every `N`. -/
theorem C10_make_incompressible_spectrum_is_leray_nyquist_free (D N : ℕ) (hD : 2 ≤ D) (hN : 0 < N)
    (field : Nonlin.MC ℂ) (hf : 2 ≤ field.size)
    (hreal : ∀ d < D, ∀ j < N ^ D, ((field.getD d #[]).getD j 0).im = 0)
    (hnf : ∀ d < D, ∀ h < Layout.numModes D N, C2R.NyqMode D N h →
      (Transform.rfftnM D N (field.getD d #[])).getD h 0 = 0)
    (d : ℕ) (hd : d < D) (h : ℕ) (hh : h < Layout.numModes D N) :
    (Transform.rfftnM D N ((Gen.SpectralOps.make_incompressible D N D "ij" field).getD d #[])).getD h 0
      = Nonlin.at2 (Nonlin.leray (SpectralOpsEq.cfg D N 1) (specOf D N field)) d h := by
  have hf' : 2 ≤ (swapCh field).size := by rw [swapCh_size]; exact hf
  rw [make_incompressible_ij_of_xy D N hD hN field hf,
    swapCh_getD _ (by rw [make_incompressible_size]; exact hD),
    C10_make_incompressible_xy_spectrum_is_leray_nyquist_free D N hD hN (swapCh field) hf'
      (swapCh_real D N hD field hf hreal) (nyqFreeField_swapCh D N hD field hf hnf) (sw d) (sw_lt D d hD hd) h hh,
    at2_lerayXY D N hD, sw_sw, ← swapCh_specOf D N hD field hf, swapCh_swapCh]

open Exponax.IncompressibleXY Exponax.IncompressibleNyquistFree Exponax.SmallGaps2 in
/-- **divergence-free at EVERY stored mode, default `"ij"`, every grid.**  For every real field with Nyquist-free
    components, `D ≥ 2`, `N ≥ 1` (even included), the result of `make_incompressible` has zero spectral divergence
    `Σ_d build_derivative_operator(D, 1, N)[d, h] · rfftn(result)[d, h]` at every stored mode `h` — including the whole
    `k_last = 0` plane and the Nyquist column. -/
theorem C10_make_incompressible_divfree_nyquist_free (D N : ℕ) (hD : 2 ≤ D) (hN : 0 < N) (field : Nonlin.MC ℂ)
    (hf : 2 ≤ field.size)
    (hreal : ∀ d < D, ∀ j < N ^ D, ((field.getD d #[]).getD j 0).im = 0)
    (hnf : ∀ d < D, ∀ h < Layout.numModes D N, C2R.NyqMode D N h →
      (Transform.rfftnM D N (field.getD d #[])).getD h 0 = 0)
    (h : ℕ) (hh : h < Layout.numModes D N) :
    sumList ((List.range D).map (fun d => Gen.SpectralOps.derivative_operator_entry D (1 : ℂ) N "ij" d h *
      (Transform.rfftnM D N ((Gen.SpectralOps.make_incompressible D N D "ij" field).getD d #[])).getD h 0)) = 0 :=
  make_incompressible_ij_divfree_nyquist_free D N hD hN field hf hreal hnf h hh

open Exponax.IncompressibleXY Exponax.IncompressibleNyquistFree Exponax.SmallGaps2 in
/-- **idempotence, default `"ij"`, every grid**: `make_incompressible (make_incompressible u) = make_incompressible u`
    (equality of the arrays) for every real field with Nyquist-free components, `D ≥ 2`, `N ≥ 1`. -/
theorem C10_make_incompressible_idempotent_nyquist_free (D N : ℕ) (hD : 2 ≤ D) (hN : 0 < N) (field : Nonlin.MC ℂ)
    (hf : 2 ≤ field.size)
    (hreal : ∀ d < D, ∀ j < N ^ D, ((field.getD d #[]).getD j 0).im = 0)
    (hnf : ∀ d < D, ∀ h < Layout.numModes D N, C2R.NyqMode D N h →
      (Transform.rfftnM D N (field.getD d #[])).getD h 0 = 0) :
    Gen.SpectralOps.make_incompressible D N D "ij" (Gen.SpectralOps.make_incompressible D N D "ij" field)
      = Gen.SpectralOps.make_incompressible D N D "ij" field :=
  make_incompressible_ij_idem_nyquist_free D N hD hN field hf hreal hnf

open Exponax.IncompressibleXY Exponax.IncompressibleNyquistFree Exponax.SmallGaps2 in
/-- **divergence-free at EVERY stored mode, `indexing="xy"`, every grid** (divergence in the `"xy"` convention). -/
theorem C10_make_incompressible_xy_divfree_nyquist_free (D N : ℕ) (hD : 2 ≤ D) (hN : 0 < N) (field : Nonlin.MC ℂ)
    (hf : 2 ≤ field.size)
    (hreal : ∀ d < D, ∀ j < N ^ D, ((field.getD d #[]).getD j 0).im = 0)
    (hnf : ∀ d < D, ∀ h < Layout.numModes D N, C2R.NyqMode D N h →
      (Transform.rfftnM D N (field.getD d #[])).getD h 0 = 0)
    (h : ℕ) (hh : h < Layout.numModes D N) :
    sumList ((List.range D).map (fun d => Gen.SpectralOps.derivative_operator_entry D (1 : ℂ) N "xy" d h *
      (Transform.rfftnM D N ((Gen.SpectralOps.make_incompressible D N D "xy" field).getD d #[])).getD h 0)) = 0 :=
  make_incompressible_xy_divfree_nyquist_free D N hD hN field hf hreal hnf h hh

open Exponax.IncompressibleXY Exponax.IncompressibleNyquistFree Exponax.SmallGaps2 in
/-- **idempotence, `indexing="xy"`, every grid.** -/
theorem C10_make_incompressible_xy_idempotent_nyquist_free (D N : ℕ) (hD : 2 ≤ D) (hN : 0 < N)
    (field : Nonlin.MC ℂ) (hf : 2 ≤ field.size)
    (hreal : ∀ d < D, ∀ j < N ^ D, ((field.getD d #[]).getD j 0).im = 0)
    (hnf : ∀ d < D, ∀ h < Layout.numModes D N, C2R.NyqMode D N h →
      (Transform.rfftnM D N (field.getD d #[])).getD h 0 = 0) :
    Gen.SpectralOps.make_incompressible D N D "xy" (Gen.SpectralOps.make_incompressible D N D "xy" field)
      = Gen.SpectralOps.make_incompressible D N D "xy" field :=
  make_incompressible_xy_idem_nyquist_free D N hD hN field hf hreal hnf

open Exponax.IncompressibleXY Exponax.IncompressibleNyquistFree Exponax.SmallGaps2 in
/-- the result of `make_incompressible(·, "xy")` on a real Nyquist-free field is again Nyquist-free (and real, see
    `C10_make_incompressible_result_real`), so the theorems above apply to it again. -/
theorem C10_make_incompressible_xy_keeps_nyquist_free (D N : ℕ) (hD : 2 ≤ D) (hN : 0 < N) (field : Nonlin.MC ℂ)
    (hf : 2 ≤ field.size)
    (hreal : ∀ d < D, ∀ j < N ^ D, ((field.getD d #[]).getD j 0).im = 0)
    (hnf : ∀ d < D, ∀ h < Layout.numModes D N, C2R.NyqMode D N h →
      (Transform.rfftnM D N (field.getD d #[])).getD h 0 = 0) :
    ∀ d < D, ∀ h < Layout.numModes D N, C2R.NyqMode D N h →
      (Transform.rfftnM D N ((Gen.SpectralOps.make_incompressible D N D "xy" field).getD d #[])).getD h 0 = 0 :=
  make_incompressible_xy_nyqFree D N hD hN field hf hreal hnf

open Exponax.IncompressibleXY Exponax.IncompressibleNyquistFree in
/-- every channel of the result of `make_incompressible` is a real grid state of `N^D` entries (any complex input, any
    indexing string) -/
theorem C10_make_incompressible_result_real (D N : ℕ) (hN : 0 < N) (ix : String) (field : Nonlin.MC ℂ)
    (d : ℕ) (hd : d < D) :
    C2R.RealState D N ((Gen.SpectralOps.make_incompressible D N D ix field).getD d #[]) :=
  make_incompressible_realState D N hN ix field d hd

open Exponax.IncompressibleXY Exponax.IncompressibleNyquistFree in
/-- **divergence-free fields are left unchanged — whole arrays.**  `make_incompressible(u, indexing) = u` for every real
    field `u` with `D` channels of `N^D` entries whose spectral divergence
    `Σ_d build_derivative_operator(D, 1, N, indexing)[d, h] · rfftn(u)[d, h]` vanishes at every stored mode: every
    `D ≥ 1`, every `N ≥ 1` (even included), every indexing string.  No hypothesis on the Nyquist modes is needed. -/
theorem C10_make_incompressible_fixes_divfree (D N : ℕ) (hD : 0 < D) (hN : 0 < N) (ix : String) (u : Nonlin.MC ℂ)
    (hsz : u.size = D) (hreal : ∀ d < D, C2R.RealState D N (u.getD d #[]))
    (hdiv : ∀ h < Layout.numModes D N,
      sumList ((List.range D).map (fun d => Gen.SpectralOps.derivative_operator_entry D (1 : ℂ) N ix d h *
        (Transform.rfftnM D N (u.getD d #[])).getD h 0)) = 0) :
    Gen.SpectralOps.make_incompressible D N D ix u = u :=
  make_incompressible_fixes_divfree D N hD hN ix u hsz hreal hdiv

open Exponax.IncompressibleXY Exponax.IncompressibleNyquistFree in
/-- the special case named in the task: real, Nyquist-free, spectrally divergence-free `u` is returned unchanged
    (the Nyquist-free hypothesis `hnf` is not used — see `C10_make_incompressible_fixes_divfree`) -/
theorem C10_make_incompressible_fixes_divfree_nyquist_free (D N : ℕ) (hD : 2 ≤ D) (hN : 0 < N) (ix : String)
    (u : Nonlin.MC ℂ) (hsz : u.size = D) (hreal : ∀ d < D, C2R.RealState D N (u.getD d #[]))
    (hnf : ∀ d < D, ∀ h < Layout.numModes D N, C2R.NyqMode D N h →
      (Transform.rfftnM D N (u.getD d #[])).getD h 0 = 0)
    (hdiv : ∀ h < Layout.numModes D N,
      sumList ((List.range D).map (fun d => Gen.SpectralOps.derivative_operator_entry D (1 : ℂ) N ix d h *
        (Transform.rfftnM D N (u.getD d #[])).getD h 0)) = 0) :
    Gen.SpectralOps.make_incompressible D N D ix u = u :=
  make_incompressible_fixes_divfree D N (by omega) hN ix u hsz hreal hdiv

open Exponax.IncompressibleNyquistFree in
/-- the Nyquist-free hypothesis above follows from `ExactLinear.BandLimited` of every component (no content at the stored
    modes that are not strictly below Nyquist) … -/
theorem C10_nyquist_free_of_band_limited (D N : ℕ) (field : Nonlin.MC ℂ)
    (hb : ∀ d < D, ExactLinear.BandLimited D N (field.getD d #[])) :
    ∀ d < D, ∀ h < Layout.numModes D N, C2R.NyqMode D N h →
      (Transform.rfftnM D N (field.getD d #[])).getD h 0 = 0 :=
  nyqFreeField_of_bandLimited D N field hb

open Exponax.IncompressibleNyquistFree in
/-- … and is vacuous on odd grids (the `…_odd_grid` theorems are special cases) -/
theorem C10_nyquist_free_of_odd_grid (D N : ℕ) (hodd : N % 2 = 1) (field : Nonlin.MC ℂ) :
    ∀ d < D, ∀ h < Layout.numModes D N, C2R.NyqMode D N h →
      (Transform.rfftnM D N (field.getD d #[])).getD h 0 = 0 :=
  nyqFreeField_of_odd D N hodd field

open Exponax.IncompressibleXY Exponax.IncompressibleNyquistFree in
/-- **non-vacuity on an EVEN grid** (`D = 2`, `N = 4`): a real two-channel field with Nyquist-free components exists
    (both channels the below-Nyquist cosine mode `(1, 1)`), on a grid that has Nyquist modes on the self-conjugate
    columns (stored index 5 = mode `(1, 2)`, Hermitian weight 1) — where `C10_make_incompressible_divfree` and the
    odd-grid theorems say nothing. -/
example : ∃ (field : Nonlin.MC ℂ), 2 ≤ field.size ∧
    (∀ d < 2, ∀ j < 4 ^ 2, ((field.getD d #[]).getD j 0).im = 0) ∧
    (∀ d < 2, ∀ h < Layout.numModes 2 4, C2R.NyqMode 2 4 h →
      (Transform.rfftnM 2 4 (field.getD d #[])).getD h 0 = 0) ∧
    (4 : ℕ) % 2 = 0 ∧ (5 : ℕ) < Layout.numModes 2 4 ∧ Transform.herm_weight 2 4 5 = 1 :=
  ⟨exField, by simp [exField], exField_real, exField_nyqFree, by decide, by decide, by decide⟩

open Exponax.IncompressibleXY Exponax.IncompressibleNyquistFree in
/-- **non-vacuity of `C10_make_incompressible_fixes_divfree` on the even `4 × 4` grid**: the output of
    `make_incompressible` on that field has the right size, is real and is spectrally divergence-free at every stored
    mode (by `C10_make_incompressible_divfree_nyquist_free`). -/
example : ∃ (u : Nonlin.MC ℂ), u.size = 2 ∧ (∀ d < 2, C2R.RealState 2 4 (u.getD d #[])) ∧
    (∀ h < Layout.numModes 2 4,
      sumList ((List.range 2).map (fun d => Gen.SpectralOps.derivative_operator_entry 2 (1 : ℂ) 4 "ij" d h *
        (Transform.rfftnM 2 4 (u.getD d #[])).getD h 0)) = 0) :=
  ⟨Gen.SpectralOps.make_incompressible 2 4 2 "ij" exField, make_incompressible_size 2 4 "ij" exField,
    fun d hd => C10_make_incompressible_result_real 2 4 (by norm_num) "ij" exField d hd,
    fun h hh => C10_make_incompressible_divfree_nyquist_free 2 4 (by norm_num) (by norm_num) exField
      (by simp [exField]) exField_real exField_nyqFree h hh⟩

end Exponax
