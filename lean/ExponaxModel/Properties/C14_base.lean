import ExponaxModel.Proofs.BaseStepperGenEq
/-
C14 (continued) — the premise of "a repeated stepper equals n applications of its inner stepper".  `RepeatedStepper` sub-steps
in FOURIER space (`step_fourier` of the inner stepper, regenerated in `Generated/LoopsGen.lean`), a user's loop calls the inner
stepper in PHYSICAL space (`__call__` → `step`).  The two agree (Properties/C14_physical.lean, C14_nyquist_free.lean) because
the physical step of every stepper class is `irfftn ∘ step_fourier ∘ rfftn`: `BaseStepper.step` and `__call__` are regenerated
from the source on every run (`Generated/BaseStepperGen.lean`) and NO class deriving from `BaseStepper` defines its own `step`
or `__call__` (found by walking exponax/**/*.py on every run; pinned here, so a class that starts to do part of its step
outside `step_fourier` breaks this file).
-/
set_option linter.unusedVariables false
namespace Exponax
open Exponax.Layout Exponax.Transform Exponax.Nonlin Exponax.Gen.StepperWiring Exponax.Gen.Base Exponax.BaseStepperGenEq

/-- no stepper class does any part of its step outside `step_fourier`; `Wave` is the only class with its own `step_fourier` -/
theorem C14_every_stepper_steps_through_step_fourier :
    stepper_overrides = [("Wave", ["step_fourier"])] ∧
      ∀ p ∈ stepper_overrides, "step" ∉ p.2 ∧ "__call__" ∉ p.2 :=
  ⟨stepper_overrides_pinned, no_stepper_overrides_step_or_call⟩

/-- the physical step every stepper class inherits is the model transform pair around its `step_fourier` -/
theorem C14_inherited_step_is_between_transforms (a : BaseStepperArgs ℂ) (hD : 1 ≤ a.num_spatial_dims)
    (sf : MC ℂ → Option (MC ℂ)) (u : MC ℂ) :
    BaseStepper_step a sf u
      = (sf (tabC a.num_channels (fun i => rfftnM a.num_spatial_dims a.num_points (u.getD i #[])))).map
          (fun v => tabC a.num_channels (fun i => irfftnM a.num_spatial_dims a.num_points (v.getD i #[]))) :=
  BaseStepper_step_eq a hD sf u

end Exponax
