import ExponaxModel.Proofs.LaminarWholeExact
import ExponaxModel.Proofs.Laminar3DSteps
import ExponaxModel.Proofs.EquilibriaStored
/-
C12 (continuation) — the laminar trajectory of the Kolmogorov-forced steppers for EVERY ETDRK order.
`Properties/C12.lean` states the whole-spectrum laminar theorems for the ETDRK4 stage formulas (`C12_laminar_whole_spectrum_
any_coefficients`, `C12_laminar_from_rest_exact`, `C12_laminar_from_rest_stored`) and, in 3-D with stored coefficients, for
orders 1, 3, 4 (`C12_laminar_3d_stored`).  The library (`Proofs/LaminarWhole.lean`, `Proofs/LaminarWholeExact.lean`,
`Proofs/Laminar3DSteps.lean`) proves the same for orders 1, 2, 3; they are surfaced here, together with the ETDRK2 case that
is missing from the statement of `C12_laminar_3d_stored`.
-/
set_option linter.unusedVariables false
namespace Exponax
open Exponax.Spec Exponax.Gen.Etdrk Exponax.Laminar Exponax.Laminar3D

/-- 2-D, ANY coefficient arrays, every order: from any shear state `v` (support on `k₀ = 0`; in particular from rest) the
    `n`-fold ETDRK-p iterate of the forced vorticity stepper is `E^n v + (Σ_{i<n} E^i) · κ_p · F` on ALL stored modes, with
    `F` the forcing spectrum and `κ₁ = κ₂ = a₁`, `κ₃ = a₃+a₄+a₅`, `κ₄ = a₄+4a₅+a₆`. -/
theorem C12_laminar_every_order (c : Nonlin.Cfg ℂ) (hN : 0 < c.N) (scale : ℂ) (inj : Option (ℕ × ℂ))
    (E Eh a1 a2 a3 a4 a5 a6 v : ℕ → ℂ) (hv : ShearSpec c v) (n : ℕ) :
    (E1step E a1 (Conserve.liftNl c (Nonlin.vorticity2d c scale inj)))^[n] v
        = E ^ n * v + (∑ i ∈ Finset.range n, E ^ i) * (a1 * forcing c scale inj) ∧
    (E2step E a1 a2 (Conserve.liftNl c (Nonlin.vorticity2d c scale inj)))^[n] v
        = E ^ n * v + (∑ i ∈ Finset.range n, E ^ i) * (a1 * forcing c scale inj) ∧
    (E3step E Eh a1 a2 a3 a4 a5 (Conserve.liftNl c (Nonlin.vorticity2d c scale inj)))^[n] v
        = E ^ n * v + (∑ i ∈ Finset.range n, E ^ i) * ((a3 + a4 + a5) * forcing c scale inj) ∧
    (E4step E Eh a1 a2 a3 a4 a5 a6 (Conserve.liftNl c (Nonlin.vorticity2d c scale inj)))^[n] v
        = E ^ n * v + (∑ i ∈ Finset.range n, E ^ i) * ((a4 + 4 * a5 + a6) * forcing c scale inj) :=
  ⟨laminar_E1 c hN scale inj E a1 v hv n, laminar_E2 c hN scale inj E a1 a2 v hv n,
   laminar_E3 c hN scale inj E Eh a1 a2 a3 a4 a5 v hv n, laminar_E4 c hN scale inj E Eh a1 a2 a3 a4 a5 a6 v hv n⟩

/-- 2-D, from rest, EXACT coefficients at the forced mode (any coefficients elsewhere), orders 1, 2, 3 (order 4 is
    `C12_laminar_from_rest_exact`): the spectrum after `n` steps is `f̂ (e^{nσdt} − 1)/σ` at the forced mode, `0` elsewhere. -/
theorem C12_laminar_every_order_exact (c : Nonlin.Cfg ℂ) (hD : c.D = 2) (scale γ : ℂ) (m : ℕ) (hm0 : 0 < m)
    (hm : 2 * m < c.N) (σ dt : ℂ) (hσ : σ ≠ 0) (hdt : dt ≠ 0) (E Eh a1 a2 a3 a4 a5 : ℕ → ℂ)
    (hE : E m = Complex.exp (σ * dt)) (n : ℕ) :
    (a1 m = dt * phi1 (σ * dt) →
      (E1step E a1 (Conserve.liftNl c (Nonlin.vorticity2d c scale (some (m, γ)))))^[n] 0
        = laminarSpectrum c γ m σ dt n) ∧
    (a1 m = dt * phi1 (σ * dt) →
      (E2step E a1 a2 (Conserve.liftNl c (Nonlin.vorticity2d c scale (some (m, γ)))))^[n] 0
        = laminarSpectrum c γ m σ dt n) ∧
    (a3 m = dt * (phi1 (σ * dt) - 3 * phi2 (σ * dt) + 4 * phi3 (σ * dt)) →
      a4 m = dt * (4 * phi2 (σ * dt) - 8 * phi3 (σ * dt)) →
      a5 m = dt * (4 * phi3 (σ * dt) - phi2 (σ * dt)) →
      (E3step E Eh a1 a2 a3 a4 a5 (Conserve.liftNl c (Nonlin.vorticity2d c scale (some (m, γ)))))^[n] 0
        = laminarSpectrum c γ m σ dt n) :=
  ⟨fun h1 => laminar_exact_E1 c hD scale γ m hm0 hm σ dt hσ hdt E a1 hE h1 n,
   fun h1 => laminar_exact_E2 c hD scale γ m hm0 hm σ dt hσ hdt E a1 a2 hE h1 n,
   fun h3 h4 h5 => laminar_exact_E3 c hD scale γ m hm0 hm σ dt hσ hdt E Eh a1 a2 a3 a4 a5 hE h3 h4 h5 n⟩

/-- 2-D, from rest, ALL coefficients STORED (contour means, any `M`, `r`), every order: the four orders produce one and the
    same spectrum `laminarStored` = `(Σ_{i<n} e^{i dt L_m}) · E1_coef_1 · f̂` at the forced mode and `0` elsewhere. -/
theorem C12_laminar_every_order_stored (c : Nonlin.Cfg ℂ) (hD : c.D = 2) (scale γ : ℂ) (m : ℕ) (hm0 : 0 < m)
    (hm : 2 * m < c.N) (dt r : ℂ) (M : ℕ) (L : ℕ → ℂ) (n : ℕ) :
    (E1step (fun h => exp_term dt (L h)) (fun h => E1_coef_1 dt (L h) M r)
      (Conserve.liftNl c (Nonlin.vorticity2d c scale (some (m, γ)))))^[n] 0 = laminarStored c γ m dt (L m) r M n ∧
    (E2step (fun h => exp_term dt (L h)) (fun h => E2_coef_1 dt (L h) M r) (fun h => E2_coef_2 dt (L h) M r)
      (Conserve.liftNl c (Nonlin.vorticity2d c scale (some (m, γ)))))^[n] 0 = laminarStored c γ m dt (L m) r M n ∧
    (E3step (fun h => exp_term dt (L h)) (fun h => E3_half_exp_term dt (L h) M r)
      (fun h => E3_coef_1 dt (L h) M r) (fun h => E3_coef_2 dt (L h) M r) (fun h => E3_coef_3 dt (L h) M r)
      (fun h => E3_coef_4 dt (L h) M r) (fun h => E3_coef_5 dt (L h) M r)
      (Conserve.liftNl c (Nonlin.vorticity2d c scale (some (m, γ)))))^[n] 0 = laminarStored c γ m dt (L m) r M n ∧
    (E4step (fun h => exp_term dt (L h)) (fun h => E4_half_exp_term dt (L h) M r)
      (fun h => E4_coef_1 dt (L h) M r) (fun h => E4_coef_2 dt (L h) M r) (fun h => E4_coef_3 dt (L h) M r)
      (fun h => E4_coef_4 dt (L h) M r) (fun h => E4_coef_5 dt (L h) M r) (fun h => E4_coef_6 dt (L h) M r)
      (Conserve.liftNl c (Nonlin.vorticity2d c scale (some (m, γ)))))^[n] 0 = laminarStored c γ m dt (L m) r M n :=
  ⟨laminar_stored_E1 c hD scale γ m hm0 hm dt r M L n, laminar_stored_E2 c hD scale γ m hm0 hm dt r M L n,
   laminar_stored_E3 c hD scale γ m hm0 hm dt r M L n, laminar_stored_E4 c hD scale γ m hm0 hm dt r M L n⟩

/-- 3-D, ANY coefficient arrays, every order: from any two-mode shear state (channel 0 carried by the stored modes
    `(0, ±m, 0)`, channels 1, 2 zero; in particular from rest) the whole (channel, mode) spectrum after `n` steps. -/
theorem C12_laminar_3d_every_order (c : Nonlin.Cfg ℂ) (hD : c.D = 3) (s : ℝ) (hs : c.s = (s : ℂ)) (hs0 : s ≠ 0) (m : ℕ)
    (hm0 : 0 < m) (hm : 2 * m < c.N) (inj : Option (ℕ × ℂ)) (hinj : inj = none ∨ ∃ gam, inj = some (m, gam))
    (E Eh a1 a2 a3 a4 a5 a6 v : ℕ → ℕ → ℂ) (hv : TwoModeSpec c m v) (n : ℕ) :
    (E1step E a1 (liftNl3 c (Nonlin.projected3d c inj)))^[n] v
        = E ^ n * v + (∑ i ∈ Finset.range n, E ^ i) * (a1 * forcing3 c inj) ∧
    (E2step E a1 a2 (liftNl3 c (Nonlin.projected3d c inj)))^[n] v
        = E ^ n * v + (∑ i ∈ Finset.range n, E ^ i) * (a1 * forcing3 c inj) ∧
    (E3step E Eh a1 a2 a3 a4 a5 (liftNl3 c (Nonlin.projected3d c inj)))^[n] v
        = E ^ n * v + (∑ i ∈ Finset.range n, E ^ i) * ((a3 + a4 + a5) * forcing3 c inj) ∧
    (E4step E Eh a1 a2 a3 a4 a5 a6 (liftNl3 c (Nonlin.projected3d c inj)))^[n] v
        = E ^ n * v + (∑ i ∈ Finset.range n, E ^ i) * ((a4 + 4 * a5 + a6) * forcing3 c inj) :=
  laminar3d_all c hD s hs hs0 m hm0 hm inj hinj E Eh a1 a2 a3 a4 a5 a6 v hv n

/-- 3-D, from rest, ALL coefficients STORED, ETDRK2 — the order missing from `C12_laminar_3d_stored`: entrywise the same
    trajectory `(Σ_{j<n} e^{j dt L}) · E1_coef_1 dt L M r · f̂` as orders 1, 3, 4 (the stored `E2_coef_1` IS `E1_coef_1`). -/
theorem C12_laminar_3d_stored_E2 (c : Nonlin.Cfg ℂ) (hD : c.D = 3) (s : ℝ) (hs : c.s = (s : ℂ)) (hs0 : s ≠ 0) (m : ℕ)
    (hm0 : 0 < m) (hm : 2 * m < c.N) (gam dt r : ℂ) (M : ℕ) (L : ℕ → ℕ → ℂ) (n i h : ℕ) :
    (E2step (fun i h => exp_term dt (L i h)) (fun i h => E2_coef_1 dt (L i h) M r)
      (fun i h => E2_coef_2 dt (L i h) M r) (liftNl3 c (Nonlin.projected3d c (some (m, gam)))))^[n] 0 i h
        = (∑ j ∈ Finset.range n, exp_term dt (L i h) ^ j)
          * (E1_coef_1 dt (L i h) M r * forcing3 c (some (m, gam)) i h) := by
  have hinj : (some (m, gam) : Option (ℕ × ℂ)) = none ∨ ∃ g, (some (m, gam) : Option (ℕ × ℂ)) = some (m, g) :=
    Or.inr ⟨gam, rfl⟩
  rw [(laminar3d_all c hD s hs hs0 m hm0 hm _ hinj _ 0 _ _ 0 0 0 0 0 (fun _ _ _ => rfl) n).2.1]
  simp only [Pi.add_apply, Pi.mul_apply, Pi.zero_apply, mul_zero, zero_add, Finset.sum_apply, Pi.pow_apply]
  rw [EquilibriaStored.stored_E2_1]

/-! ### non-vacuity -/

example : ∃ c : Nonlin.Cfg ℂ, c.D = 2 ∧ 0 < 4 ∧ 2 * 4 < c.N := ⟨⟨2, 16, 1, 2, 3⟩, rfl, by norm_num, by norm_num⟩
example (c : Nonlin.Cfg ℂ) : ShearSpec c 0 := shearSpec_zero c
example : ∃ c : Nonlin.Cfg ℂ, c.D = 3 ∧ c.s = ((1 : ℝ) : ℂ) ∧ (1 : ℝ) ≠ 0 ∧ 0 < 2 ∧ 2 * 2 < c.N :=
  ⟨⟨3, 8, ((1 : ℝ) : ℂ), 2, 3⟩, rfl, rfl, one_ne_zero, by norm_num, by norm_num⟩
example (c : Nonlin.Cfg ℂ) (m : ℕ) : TwoModeSpec c m 0 := fun _ _ _ => rfl
example : ((-0.3 : ℂ)) ≠ 0 ∧ ((0.01 : ℂ)) ≠ 0 := by norm_num

end Exponax
