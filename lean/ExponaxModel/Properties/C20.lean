import Mathlib.Tactic
import ExponaxModel.Model.Guards
/-
C20 — malformed states and unsupported configurations are rejected, not accepted.
Decision logic only (the accept/reject behaviour of every exported class is compared
exactly with these functions by the check).
-/
set_option linter.unusedVariables false
namespace Exponax
open Exponax.Layout Exponax.Guards

/-- a state is accepted iff its shape is exactly `(C, N, …, N)` with `D` spatial axes -/
theorem C20_accept_iff (C D N : ℕ) (shape : List ℕ) :
    acceptsShape C D N shape = true ↔ shape = C :: List.replicate D N := by
  simp [acceptsShape, spatialShape]

/-- no broadcasting: a different channel count is rejected -/
theorem C20_reject_channels (C C' D N : ℕ) (h : C' ≠ C) :
    acceptsShape C D N (C' :: List.replicate D N) = false := by
  simp [acceptsShape, spatialShape, h]

/-- an extra leading (batch) axis is rejected -/
theorem C20_reject_batch_axis (B C D N : ℕ) :
    acceptsShape C D N (B :: C :: List.replicate D N) = false := by
  have : (B :: C :: List.replicate D N).length ≠ (C :: List.replicate D N).length := by simp
  simp only [acceptsShape, spatialShape, beq_eq_false_iff_ne, ne_eq]
  intro h
  exact this (congrArg List.length h)

/-- a missing spatial axis is rejected -/
theorem C20_reject_missing_axis (C D N : ℕ) :
    acceptsShape C (D + 1) N (C :: List.replicate D N) = false := by
  have : (C :: List.replicate D N).length ≠ (C :: List.replicate (D + 1) N).length := by simp
  simp only [acceptsShape, spatialShape, beq_eq_false_iff_ne, ne_eq]
  intro h
  exact this (congrArg List.length h)

/-- any axis with a different number of points is rejected -/
theorem C20_reject_unequal_axis (C D N : ℕ) (sp : List ℕ) (h : ∃ n ∈ sp, n ≠ N) :
    acceptsShape C D N (C :: sp) = false := by
  obtain ⟨n, hn, hne⟩ := h
  simp only [acceptsShape, spatialShape, beq_eq_false_iff_ne, ne_eq, List.cons.injEq, true_and]
  intro hsp
  rw [hsp] at hn
  exact hne (List.eq_of_mem_replicate hn)

/-- accepted shapes are returned unchanged (the step is shape preserving by construction: the
    output has the shape the check accepted) -/
theorem C20_accepted_shape (C D N : ℕ) (shape : List ℕ) (h : acceptsShape C D N shape = true) :
    shape.length = D + 1 ∧ shape.head? = some C ∧ ∀ n ∈ shape.tail, n = N := by
  rw [C20_accept_iff] at h
  subst h
  refine ⟨by simp, rfl, ?_⟩
  intro n hn
  exact List.eq_of_mem_replicate hn

theorem C20_poisson_iff (D N : ℕ) (shape : List ℕ) :
    acceptsPoisson D N shape = true ↔ shape.drop 1 = List.replicate D N := by
  simp [acceptsPoisson, spatialShape]

theorem C20_dim_restriction (d D : ℕ) : dimOk (some d) D = true ↔ D = d := by simp [dimOk]
theorem C20_dim_unrestricted (D : ℕ) : dimOk none D = true := rfl

theorem C20_order_parity (order : ℕ) :
    (laplaceOrderOk order = true ↔ Even order) ∧ (gradInnerOrderOk order = true ↔ Odd order) := by
  simp [laplaceOrderOk, gradInnerOrderOk, Nat.even_iff, Nat.odd_iff]

/-- exactly one of the two operator families accepts a given order -/
theorem C20_order_exclusive (order : ℕ) : laplaceOrderOk order = !gradInnerOrderOk order := by
  simp only [laplaceOrderOk, gradInnerOrderOk]
  rcases Nat.mod_two_eq_zero_or_one order with h | h <;> simp [h]

/-- documented-invalid normalisation combinations of the generators -/
theorem C20_ic_options (zeroMean stdOne maxOne : Bool) :
    icNormOk zeroMean stdOne maxOne = false ↔ (zeroMean = false ∧ stdOne = true) ∨ (stdOne = true ∧ maxOne = true) := by
  cases zeroMean <;> cases stdOne <;> cases maxOne <;> simp [icNormOk]

theorem C20_metric_mode (mode : ℕ) (hasRef : Bool) :
    metricModeOk mode hasRef = false ↔ (hasRef = false ∧ mode ≠ 0) := by
  cases hasRef <;> simp [metricModeOk]

theorem C20_conv_channels (single : Bool) (C D : ℕ) :
    convChannelsOk single C D = true ↔ (single = true ∨ C = D) := by
  cases single <;> simp [convChannelsOk]

/-! non-vacuity -/
example : acceptsShape 2 3 16 [2, 16, 16, 16] = true := by decide
example : acceptsShape 2 3 16 [1, 16, 16, 16] = false := by decide
example : acceptsShape 1 2 16 [1, 16, 15] = false := by decide

end Exponax
