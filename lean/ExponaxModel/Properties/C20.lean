import Mathlib.Tactic
import ExponaxModel.Model.Guards
import ExponaxModel.Proofs.GuardsGenEq
/-
C20 — malformed states and unsupported configurations are rejected, not accepted.
Decision logic only (the accept/reject behaviour of every exported class is compared
exactly with these functions by the check).
-/
set_option linter.unusedVariables false
namespace Exponax
open Exponax.Layout Exponax.Guards

/-- a state is accepted iff its shape is exactly `(C, N, …, N)` with `D` spatial axes -/
theorem C20_accept_iff (C D N : ℕ) (shape : List ℕ) :
    acceptsShape C D N shape = true ↔ shape = C :: List.replicate D N := by
  simp [acceptsShape, spatialShape]

/-- no broadcasting: a different channel count is rejected -/
theorem C20_reject_channels (C C' D N : ℕ) (h : C' ≠ C) :
    acceptsShape C D N (C' :: List.replicate D N) = false := by
  simp [acceptsShape, spatialShape, h]

/-- an extra leading (batch) axis is rejected -/
theorem C20_reject_batch_axis (B C D N : ℕ) :
    acceptsShape C D N (B :: C :: List.replicate D N) = false := by
  have : (B :: C :: List.replicate D N).length ≠ (C :: List.replicate D N).length := by simp
  simp only [acceptsShape, spatialShape, beq_eq_false_iff_ne, ne_eq]
  intro h
  exact this (congrArg List.length h)

/-- a missing spatial axis is rejected -/
theorem C20_reject_missing_axis (C D N : ℕ) :
    acceptsShape C (D + 1) N (C :: List.replicate D N) = false := by
  have : (C :: List.replicate D N).length ≠ (C :: List.replicate (D + 1) N).length := by simp
  simp only [acceptsShape, spatialShape, beq_eq_false_iff_ne, ne_eq]
  intro h
  exact this (congrArg List.length h)

/-- any axis with a different number of points is rejected -/
theorem C20_reject_unequal_axis (C D N : ℕ) (sp : List ℕ) (h : ∃ n ∈ sp, n ≠ N) :
    acceptsShape C D N (C :: sp) = false := by
  obtain ⟨n, hn, hne⟩ := h
  simp only [acceptsShape, spatialShape, beq_eq_false_iff_ne, ne_eq, List.cons.injEq, true_and]
  intro hsp
  rw [hsp] at hn
  exact hne (List.eq_of_mem_replicate hn)

/-- accepted shapes are returned unchanged (the step is shape preserving by construction: the
    output has the shape the check accepted) -/
theorem C20_accepted_shape (C D N : ℕ) (shape : List ℕ) (h : acceptsShape C D N shape = true) :
    shape.length = D + 1 ∧ shape.head? = some C ∧ ∀ n ∈ shape.tail, n = N := by
  rw [C20_accept_iff] at h
  subst h
  refine ⟨by simp, rfl, ?_⟩
  intro n hn
  exact List.eq_of_mem_replicate hn

theorem C20_poisson_iff (D N : ℕ) (shape : List ℕ) :
    acceptsPoisson D N shape = true ↔ shape.drop 1 = List.replicate D N := by
  simp [acceptsPoisson, spatialShape]

theorem C20_dim_restriction (d D : ℕ) : dimOk (some d) D = true ↔ D = d := by simp [dimOk]
theorem C20_dim_unrestricted (D : ℕ) : dimOk none D = true := rfl

theorem C20_order_parity (order : ℕ) :
    (laplaceOrderOk order = true ↔ Even order) ∧ (gradInnerOrderOk order = true ↔ Odd order) := by
  simp [laplaceOrderOk, gradInnerOrderOk, Nat.even_iff, Nat.odd_iff]

/-- exactly one of the two operator families accepts a given order -/
theorem C20_order_exclusive (order : ℕ) : laplaceOrderOk order = !gradInnerOrderOk order := by
  simp only [laplaceOrderOk, gradInnerOrderOk]
  rcases Nat.mod_two_eq_zero_or_one order with h | h <;> simp [h]

/-- documented-invalid normalisation combinations of the generators -/
theorem C20_ic_options (zeroMean stdOne maxOne : Bool) :
    icNormOk zeroMean stdOne maxOne = false ↔ (zeroMean = false ∧ stdOne = true) ∨ (stdOne = true ∧ maxOne = true) := by
  cases zeroMean <;> cases stdOne <;> cases maxOne <;> simp [icNormOk]

theorem C20_metric_mode (mode : ℕ) (hasRef : Bool) :
    metricModeOk mode hasRef = false ↔ (hasRef = false ∧ mode ≠ 0) := by
  cases hasRef <;> simp [metricModeOk]

theorem C20_conv_channels (single : Bool) (C D : ℕ) :
    convChannelsOk single C D = true ↔ (single = true ∨ C = D) := by
  cases single <;> simp [convChannelsOk]

/-! ### the guards themselves, REGENERATED from every `if …: raise` of the source on every run
(`Gen.Guards.<Owner>_<function>_accepts` is `true` exactly when no raise site of that function is reached;
`harness/translate_guards.py`, 56 guarded functions, 77 raise sites) -/
open Exponax.Gen.Guards in
/-- every class with the stepper protocol accepts a state iff it has exactly the configured shape `(C, N, …, N)`;
    the forced stepper requires it of the state AND of the forcing -/
theorem C20_generated_call_guards (C D N : ℕ) (shape fshape : List ℕ) :
    (BaseStepper_call_accepts D N C shape = true ↔ shape = C :: List.replicate D N) ∧
    (RepeatedStepper_call_accepts D N C shape = true ↔ shape = C :: List.replicate D N) ∧
    (ForcedStepper_call_accepts D N C shape fshape = true ↔
      shape = C :: List.replicate D N ∧ fshape = C :: List.replicate D N) ∧
    (Poisson_call_accepts D N shape = true ↔ shape.drop 1 = List.replicate D N) :=
  ⟨BaseStepper_call_accepts_iff C D N shape, RepeatedStepper_call_accepts_iff C D N shape,
   ForcedStepper_call_accepts_iff D N C shape fshape, Poisson_call_accepts_iff shape D N⟩

open Exponax.Gen.Guards in
/-- no broadcasting over channels, no batch axis, no missing axis, no unequal axis — about the regenerated check -/
theorem C20_generated_rejects (C D N : ℕ) :
    (∀ C', C' ≠ C → BaseStepper_call_accepts D N C (C' :: List.replicate D N) = false) ∧
    (∀ B, BaseStepper_call_accepts D N C (B :: C :: List.replicate D N) = false) ∧
    (BaseStepper_call_accepts (D + 1) N C (C :: List.replicate D N) = false) ∧
    (∀ sp, (∃ n ∈ sp, n ≠ N) → BaseStepper_call_accepts D N C (C :: sp) = false) :=
  BaseStepper_call_rejects C D N

open Exponax.Gen.Guards in
/-- the dimension-restricted constructors and nonlinear terms accept exactly their documented dimension -/
theorem C20_generated_dimension_restrictions (D : ℕ) :
    (NavierStokesVorticity_init_accepts D = true ↔ D = 2) ∧
    (KolmogorovFlowVorticity_init_accepts D = true ↔ D = 2) ∧
    (GeneralVorticityConvectionStepper_init_accepts D = true ↔ D = 2) ∧
    (VorticityConvection2d_init_accepts D = true ↔ D = 2) ∧
    (NavierStokesVelocity_init_accepts D = true ↔ D = 3) ∧
    (KolmogorovFlowVelocity_init_accepts D = true ↔ D = 3) ∧
    (ProjectedConvection3d_init_accepts D = true ↔ D = 3) :=
  dimension_restrictions_iff D

open Exponax.Gen.Guards in
/-- operator order parity, generator option validation, convection channel count — regenerated = documented -/
theorem C20_generated_option_guards (order : ℕ) (zeroMean stdOne maxOne single conservative : Bool) (C D : ℕ)
    (rest : List ℕ) :
    (build_laplace_operator_accepts order = true ↔ order % 2 = 0) ∧
    (validate_normalization_options_accepts zeroMean stdOne maxOne = false ↔
      (zeroMean = false ∧ stdOne = true) ∨ (stdOne = true ∧ maxOne = true)) ∧
    (RandomTruncatedFourierSeries_init_accepts stdOne maxOne zeroMean = icNormOk zeroMean stdOne maxOne) ∧
    (ConvectionNonlinearFun_call_accepts single conservative D (C :: rest) = true ↔ (single = true ∨ C = D)) :=
  ⟨build_laplace_operator_accepts_iff order, validate_normalization_options_rejects_iff zeroMean stdOne maxOne,
   RandomTruncatedFourierSeries_init_accepts_eq zeroMean stdOne maxOne,
   ConvectionNonlinearFun_call_accepts_iff single conservative C D rest⟩

/-- coverage is pinned: 77 raise sites, and each of the four stepper-protocol classes guards its `__call__`
    (a guard that is deleted, or a new unguarded entry point, breaks this) -/
theorem C20_generated_coverage :
    Gen.Guards.generated_raise_sites = 77 ∧
      Gen.Guards.stepper_call_guards = [("BaseStepper", 1), ("ForcedStepper", 2), ("Poisson", 1), ("RepeatedStepper", 1)] :=
  ⟨generated_raise_sites_eq, stepper_call_guards_eq⟩

/-! non-vacuity -/
example : acceptsShape 2 3 16 [2, 16, 16, 16] = true := by decide
example : acceptsShape 2 3 16 [1, 16, 16, 16] = false := by decide
example : acceptsShape 1 2 16 [1, 16, 15] = false := by decide

end Exponax
