import ExponaxModel.Properties.C02
import ExponaxModel.Proofs.ContourTailETDRK
/-
C02 (continued) — accuracy of the contour rule.  Separate file because the tail-bound library builds on the
coefficient theorems of `Properties/C02.lean` (no import cycle); audited together with it.
-/
set_option linter.unusedVariables false
namespace Exponax
open Exponax.Gen.Etdrk

/-! ### accuracy of the contour rule: the stored coefficients are the exact φ-combinations up to an explicit,
stiffness-uniform quadrature error (Kassam–Trefethen), proved about the REGENERATED coefficient definitions

`ContourTail.phi1e/phi2e/phi3e` are the entire extensions of `Spec.phi1..3` (value 1, 1/2, 1/6 at 0; integral
representations; differentiable on ℂ; equal to the closed forms off 0). -/

/-- aliasing identity: the M-point mean of a power series about `z` picks exactly the coefficients `b_{mM}` -/
theorem C02_contour_aliasing (M : ℕ) (hM : 0 < M) (r z : ℂ) (f : ℂ → ℂ) (b : ℕ → ℂ)
    (h : ∀ ζ ∈ roots_of_unity M, HasSum (fun n => b n * (r * ζ) ^ n) (f (r * ζ + z))) :
    HasSum (fun m => (-1) ^ m * b (m * M) * r ^ (m * M)) (Spec.contourMean (roots_of_unity M) r f z) :=
  ContourTail.contourMean_hasSum M hM r z f b h

/-- Cauchy-estimate form: for `f` holomorphic on a disc of radius `R > |r|` about `z` and bounded by `S` on its
    boundary, the rule errs by at most `S q^M/(1 − q^M)`, `q = |r|/R` -/
theorem C02_contour_error (M : ℕ) (hM : 0 < M) (r z : ℂ) (f : ℂ → ℂ) (R S : ℝ) (hr : ‖r‖ < R)
    (hf : DiffContOnCl ℂ f (Metric.ball z R)) (hS : ∀ w ∈ Metric.sphere z R, ‖f w‖ ≤ S) :
    ‖Spec.contourMean (roots_of_unity M) r f z - f z‖ ≤ S * (‖r‖ / R) ^ M / (1 - (‖r‖ / R) ^ M) :=
  ContourTail.norm_contourMean_sub_le_cauchy M hM r z f R S hr hf hS

/-- the entire φ functions: limit values, agreement with the closed forms off zero, differentiability -/
theorem C02_entire_phi :
    ContourTail.phi1e 0 = 1 ∧ ContourTail.phi2e 0 = 1 / 2 ∧ ContourTail.phi3e 0 = 1 / 6 ∧
    (∀ w : ℂ, w ≠ 0 → ContourTail.phi1e w = Spec.phi1 w ∧ ContourTail.phi2e w = Spec.phi2 w ∧
      ContourTail.phi3e w = Spec.phi3 w) ∧
    Differentiable ℂ ContourTail.phi1e ∧ Differentiable ℂ ContourTail.phi2e ∧ Differentiable ℂ ContourTail.phi3e :=
  ⟨ContourTail.phi1e_zero, ContourTail.phi2e_zero, ContourTail.phi3e_zero,
   fun w hw => ⟨ContourTail.phi1e_of_ne w hw, ContourTail.phi2e_of_ne w hw, ContourTail.phi3e_of_ne w hw⟩,
   ContourTail.differentiable_phi1e, ContourTail.differentiable_phi2e, ContourTail.differentiable_phi3e⟩

/-- a stored coefficient for every real `z = λ dt` (zero, tiny, stiff — no case distinction), any even `M`, any
    `0 < r < R`: ETDRK4's `coef_4` as an instance (all fourteen are in `Proofs/ContourTailETDRK.lean`) -/
theorem C02_coefficient_error (dt lam r R : ℝ) (M : ℕ) (hM : 0 < M) (hev : M % 2 = 0) (hr : 0 < r) (hR : r < R) :
    ‖E4_coef_4 (dt : ℂ) (lam : ℂ) M (r : ℂ) - (dt : ℂ) * (ContourTail.phi1e ((lam : ℂ) * dt)
        - 3 * ContourTail.phi2e ((lam : ℂ) * dt) + 4 * ContourTail.phi3e ((lam : ℂ) * dt))‖ ≤
      |dt| * (19 / 6 * Real.exp (max 0 (lam * dt + R)) * (r / R) ^ M / (1 - (r / R) ^ M)) :=
  ContourTail.E4_coef_4_error_real dt lam r R M hM hev hr hR

/-- with the code's defaults `M = 16`, `r = 1`: EVERY stored ETDRK1–4 coefficient is within `5·10⁻⁸·|dt|` of the exact
    Cox–Matthews value, for every `λ dt ≤ 0` -/
theorem C02_coefficients_default_accuracy (dt lam : ℝ) (hz : lam * dt ≤ 0) :
    ‖E1_coef_1 (dt : ℂ) (lam : ℂ) 16 1 - (dt : ℂ) * ContourTail.phi1e ((lam : ℂ) * dt)‖ ≤ |dt| * 5e-8 ∧
    ‖E2_coef_2 (dt : ℂ) (lam : ℂ) 16 1 - (dt : ℂ) * ContourTail.phi2e ((lam : ℂ) * dt)‖ ≤ |dt| * 5e-8 ∧
    ‖E4_coef_1 (dt : ℂ) (lam : ℂ) 16 1 - (dt : ℂ) * (ContourTail.phi1e ((lam : ℂ) * dt / 2) / 2)‖ ≤ |dt| * 5e-8 ∧
    ‖E4_coef_4 (dt : ℂ) (lam : ℂ) 16 1 - (dt : ℂ) * (ContourTail.phi1e ((lam : ℂ) * dt)
        - 3 * ContourTail.phi2e ((lam : ℂ) * dt) + 4 * ContourTail.phi3e ((lam : ℂ) * dt))‖ ≤ |dt| * 5e-8 ∧
    ‖E4_coef_5 (dt : ℂ) (lam : ℂ) 16 1 - (dt : ℂ) * (ContourTail.phi2e ((lam : ℂ) * dt)
        - 2 * ContourTail.phi3e ((lam : ℂ) * dt))‖ ≤ |dt| * 5e-8 ∧
    ‖E4_coef_6 (dt : ℂ) (lam : ℂ) 16 1 - (dt : ℂ) * (4 * ContourTail.phi3e ((lam : ℂ) * dt)
        - ContourTail.phi2e ((lam : ℂ) * dt))‖ ≤ |dt| * 5e-8 := by
  have h := ContourTail.coef_errors_default dt lam hz
  exact ⟨h.1, h.2.2.1, h.2.2.2.2.2.2.2.2.1, h.2.2.2.2.2.2.2.2.2.2.2.1, h.2.2.2.2.2.2.2.2.2.2.2.2.1,
         h.2.2.2.2.2.2.2.2.2.2.2.2.2⟩

end Exponax
