import ExponaxModel.Properties.C02
import ExponaxModel.Proofs.ContourTailETDRK
import ExponaxModel.Proofs.ContourComplexNodes
/-
C02 (continued) — accuracy of the contour rule.  Separate file because the tail-bound library builds on the
coefficient theorems of `Properties/C02.lean` (no import cycle); audited together with it.
-/
set_option linter.unusedVariables false
namespace Exponax
open Exponax.Gen.Etdrk

/-! ### accuracy of the contour rule: the stored coefficients are the exact φ-combinations up to an explicit,
stiffness-uniform quadrature error (Kassam–Trefethen), proved about the REGENERATED coefficient definitions

`ContourTail.phi1e/phi2e/phi3e` are the entire extensions of `Spec.phi1..3` (value 1, 1/2, 1/6 at 0; integral
representations; differentiable on ℂ; equal to the closed forms off 0). -/

/-- aliasing identity: the M-point mean of a power series about `z` picks exactly the coefficients `b_{mM}` -/
theorem C02_contour_aliasing (M : ℕ) (hM : 0 < M) (r z : ℂ) (f : ℂ → ℂ) (b : ℕ → ℂ)
    (h : ∀ ζ ∈ roots_of_unity M, HasSum (fun n => b n * (r * ζ) ^ n) (f (r * ζ + z))) :
    HasSum (fun m => (-1) ^ m * b (m * M) * r ^ (m * M)) (Spec.contourMean (roots_of_unity M) r f z) :=
  ContourTail.contourMean_hasSum M hM r z f b h

/-- Cauchy-estimate form: for `f` holomorphic on a disc of radius `R > |r|` about `z` and bounded by `S` on its
    boundary, the rule errs by at most `S q^M/(1 − q^M)`, `q = |r|/R` -/
theorem C02_contour_error (M : ℕ) (hM : 0 < M) (r z : ℂ) (f : ℂ → ℂ) (R S : ℝ) (hr : ‖r‖ < R)
    (hf : DiffContOnCl ℂ f (Metric.ball z R)) (hS : ∀ w ∈ Metric.sphere z R, ‖f w‖ ≤ S) :
    ‖Spec.contourMean (roots_of_unity M) r f z - f z‖ ≤ S * (‖r‖ / R) ^ M / (1 - (‖r‖ / R) ^ M) :=
  ContourTail.norm_contourMean_sub_le_cauchy M hM r z f R S hr hf hS

/-- the entire φ functions: limit values, agreement with the closed forms off zero, differentiability -/
theorem C02_entire_phi :
    ContourTail.phi1e 0 = 1 ∧ ContourTail.phi2e 0 = 1 / 2 ∧ ContourTail.phi3e 0 = 1 / 6 ∧
    (∀ w : ℂ, w ≠ 0 → ContourTail.phi1e w = Spec.phi1 w ∧ ContourTail.phi2e w = Spec.phi2 w ∧
      ContourTail.phi3e w = Spec.phi3 w) ∧
    Differentiable ℂ ContourTail.phi1e ∧ Differentiable ℂ ContourTail.phi2e ∧ Differentiable ℂ ContourTail.phi3e :=
  ⟨ContourTail.phi1e_zero, ContourTail.phi2e_zero, ContourTail.phi3e_zero,
   fun w hw => ⟨ContourTail.phi1e_of_ne w hw, ContourTail.phi2e_of_ne w hw, ContourTail.phi3e_of_ne w hw⟩,
   ContourTail.differentiable_phi1e, ContourTail.differentiable_phi2e, ContourTail.differentiable_phi3e⟩

/-- a stored coefficient for every real `z = λ dt` (zero, tiny, stiff — no case distinction), any even `M`, any
    `0 < r < R`: ETDRK4's `coef_4` as an instance (all fourteen are in `Proofs/ContourTailETDRK.lean`) -/
theorem C02_coefficient_error (dt lam r R : ℝ) (M : ℕ) (hM : 0 < M) (hev : M % 2 = 0) (hr : 0 < r) (hR : r < R) :
    ‖E4_coef_4 (dt : ℂ) (lam : ℂ) M (r : ℂ) - (dt : ℂ) * (ContourTail.phi1e ((lam : ℂ) * dt)
        - 3 * ContourTail.phi2e ((lam : ℂ) * dt) + 4 * ContourTail.phi3e ((lam : ℂ) * dt))‖ ≤
      |dt| * (19 / 6 * Real.exp (max 0 (lam * dt + R)) * (r / R) ^ M / (1 - (r / R) ^ M)) :=
  ContourTail.E4_coef_4_error_real dt lam r R M hM hev hr hR

/-- with the code's defaults `M = 16`, `r = 1`: EVERY stored ETDRK1–4 coefficient is within `5·10⁻⁸·|dt|` of the exact
    Cox–Matthews value, for every `λ dt ≤ 0` -/
theorem C02_coefficients_default_accuracy (dt lam : ℝ) (hz : lam * dt ≤ 0) :
    ‖E1_coef_1 (dt : ℂ) (lam : ℂ) 16 1 - (dt : ℂ) * ContourTail.phi1e ((lam : ℂ) * dt)‖ ≤ |dt| * 5e-8 ∧
    ‖E2_coef_2 (dt : ℂ) (lam : ℂ) 16 1 - (dt : ℂ) * ContourTail.phi2e ((lam : ℂ) * dt)‖ ≤ |dt| * 5e-8 ∧
    ‖E4_coef_1 (dt : ℂ) (lam : ℂ) 16 1 - (dt : ℂ) * (ContourTail.phi1e ((lam : ℂ) * dt / 2) / 2)‖ ≤ |dt| * 5e-8 ∧
    ‖E4_coef_4 (dt : ℂ) (lam : ℂ) 16 1 - (dt : ℂ) * (ContourTail.phi1e ((lam : ℂ) * dt)
        - 3 * ContourTail.phi2e ((lam : ℂ) * dt) + 4 * ContourTail.phi3e ((lam : ℂ) * dt))‖ ≤ |dt| * 5e-8 ∧
    ‖E4_coef_5 (dt : ℂ) (lam : ℂ) 16 1 - (dt : ℂ) * (ContourTail.phi2e ((lam : ℂ) * dt)
        - 2 * ContourTail.phi3e ((lam : ℂ) * dt))‖ ≤ |dt| * 5e-8 ∧
    ‖E4_coef_6 (dt : ℂ) (lam : ℂ) 16 1 - (dt : ℂ) * (4 * ContourTail.phi3e ((lam : ℂ) * dt)
        - ContourTail.phi2e ((lam : ℂ) * dt))‖ ≤ |dt| * 5e-8 := by
  have h := ContourTail.coef_errors_default dt lam hz
  exact ⟨h.1, h.2.2.1, h.2.2.2.2.2.2.2.2.1, h.2.2.2.2.2.2.2.2.2.2.2.1, h.2.2.2.2.2.2.2.2.2.2.2.2.1,
         h.2.2.2.2.2.2.2.2.2.2.2.2.2⟩


/-! ### the whole closed left half-plane and the growing strip (library `Proofs/ContourComplex*.lean`): for COMPLEX
z = λ·dt (advection, dispersion, damped waves) with the defaults M = 16, r = 1, all fourteen stored coefficients are
within 1.7·10⁻¹²·|dt| of dt × the exact φ-combination for Re z ≤ 0 (Cauchy radius R = 16), within 8.3·10⁻⁴·|dt| for
Re z ≤ 20 — PROVIDED z is none of the sixteen points −ζ_j (a contour node then sits on the removable singularity and the
closed form is 0/0); that condition is necessary and sufficient (`C02_accuracy_iff_off_the_nodes`), real and purely
imaginary symbols never meet it, and the stored coefficient is continuous (holomorphic) in λ everywhere else -/

open Exponax.ContourComplex in
theorem C02_contour_node_vanishes_iff :
    ∀ (M : ℕ) (r z : ℂ),
      (∃ ζ ∈ Gen.Etdrk.roots_of_unity M, r * ζ + z = 0) ↔ ∃ j < M, z = -(r * Gen.Etdrk.root_of_unity M (j + 1)) :=
  @Exponax.ContourComplex.exists_node_eq_zero_iff

open Exponax.ContourComplex in
theorem C02_coefficients_complex_halfplane_accuracy :
    ∀ (dt lam : ℂ),
      (lam * dt).re ≤ 0 →
        (∀ ζ ∈ Gen.Etdrk.roots_of_unity 16, lam * dt ≠ -(1 * ζ)) →
          ‖Gen.Etdrk.E1_coef_1 dt lam 16 1 - dt * ContourTail.phi1e (lam * dt)‖ ≤ ‖dt‖ * 17e-13 ∧
            ‖Gen.Etdrk.E2_coef_1 dt lam 16 1 - dt * ContourTail.phi1e (lam * dt)‖ ≤ ‖dt‖ * 17e-13 ∧
              ‖Gen.Etdrk.E2_coef_2 dt lam 16 1 - dt * ContourTail.phi2e (lam * dt)‖ ≤ ‖dt‖ * 17e-13 ∧
                ‖Gen.Etdrk.E3_coef_1 dt lam 16 1 - dt * (ContourTail.phi1e (lam * dt / 2) / 2)‖ ≤ ‖dt‖ * 17e-13 ∧
                  ‖Gen.Etdrk.E3_coef_2 dt lam 16 1 - dt * ContourTail.phi1e (lam * dt)‖ ≤ ‖dt‖ * 17e-13 ∧
                    ‖Gen.Etdrk.E3_coef_3 dt lam 16 1 -
                            dt *
                              (ContourTail.phi1e (lam * dt) - 3 * ContourTail.phi2e (lam * dt) +
                                4 * ContourTail.phi3e (lam * dt))‖ ≤
                        ‖dt‖ * 17e-13 ∧
                      ‖Gen.Etdrk.E3_coef_4 dt lam 16 1 -
                              dt * (4 * ContourTail.phi2e (lam * dt) - 8 * ContourTail.phi3e (lam * dt))‖ ≤
                          ‖dt‖ * 17e-13 ∧
                        ‖Gen.Etdrk.E3_coef_5 dt lam 16 1 -
                                dt * (4 * ContourTail.phi3e (lam * dt) - ContourTail.phi2e (lam * dt))‖ ≤
                            ‖dt‖ * 17e-13 ∧
                          ‖Gen.Etdrk.E4_coef_1 dt lam 16 1 - dt * (ContourTail.phi1e (lam * dt / 2) / 2)‖ ≤ ‖dt‖ * 17e-13 ∧
                            ‖Gen.Etdrk.E4_coef_2 dt lam 16 1 - dt * (ContourTail.phi1e (lam * dt / 2) / 2)‖ ≤
                                ‖dt‖ * 17e-13 ∧
                              ‖Gen.Etdrk.E4_coef_3 dt lam 16 1 - dt * (ContourTail.phi1e (lam * dt / 2) / 2)‖ ≤
                                  ‖dt‖ * 17e-13 ∧
                                ‖Gen.Etdrk.E4_coef_4 dt lam 16 1 -
                                        dt *
                                          (ContourTail.phi1e (lam * dt) - 3 * ContourTail.phi2e (lam * dt) +
                                            4 * ContourTail.phi3e (lam * dt))‖ ≤
                                    ‖dt‖ * 17e-13 ∧
                                  ‖Gen.Etdrk.E4_coef_5 dt lam 16 1 -
                                          dt * (ContourTail.phi2e (lam * dt) - 2 * ContourTail.phi3e (lam * dt))‖ ≤
                                      ‖dt‖ * 17e-13 ∧
                                    ‖Gen.Etdrk.E4_coef_6 dt lam 16 1 -
                                          dt * (4 * ContourTail.phi3e (lam * dt) - ContourTail.phi2e (lam * dt))‖ ≤
                                      ‖dt‖ * 17e-13 :=
  @Exponax.ContourComplex.coef_errors_halfplane

open Exponax.ContourComplex in
theorem C02_coefficients_growing_modes_accuracy :
    ∀ (dt lam : ℂ),
      (lam * dt).re ≤ 20 →
        (∀ ζ ∈ Gen.Etdrk.roots_of_unity 16, lam * dt ≠ -(1 * ζ)) →
          ∀ (i : Fin 14), ‖storedCoef dt lam 16 1 i - dt * exactPhi (lam * dt) i‖ ≤ ‖dt‖ * 83e-5 :=
  @Exponax.ContourComplex.storedCoef_error_re_le_20

open Exponax.ContourComplex in
theorem C02_coefficients_imaginary_symbol_accuracy :
    ∀ (dt ω : ℝ) (i : Fin 14),
      ‖storedCoef (↑dt) (Complex.I * ↑ω) 16 1 i - ↑dt * exactPhi (Complex.I * ↑ω * ↑dt) i‖ ≤ |dt| * 17e-13 :=
  @Exponax.ContourComplex.storedCoef_error_advection

open Exponax.ContourComplex in
theorem C02_accuracy_iff_off_the_nodes :
    ∀ (dt lam : ℂ),
      dt ≠ 0 →
        (lam * dt).re ≤ 0 →
          ((∀ (i : Fin 14), ‖storedCoef dt lam 16 1 i - dt * exactPhi (lam * dt) i‖ ≤ ‖dt‖ * 17e-13) ↔
            ∀ ζ ∈ Gen.Etdrk.roots_of_unity 16, lam * dt ≠ -(1 * ζ)) :=
  @Exponax.ContourComplex.halfplane_accuracy_iff

open Exponax.ContourComplex in
theorem C02_real_symbols_never_on_a_node :
    ∀ (M : ℕ), 0 < M → M % 2 = 0 → ∀ (x : ℝ), ∀ ζ ∈ (Gen.Etdrk.roots_of_unity M : List ℂ), (x : ℂ) ≠ -(1 * ζ) :=
  @Exponax.ContourComplex.excluded_of_real

open Exponax.ContourComplex in
theorem C02_imaginary_symbols_never_on_a_node :
    ∀ (M : ℕ),
      0 < M → M % 4 = 0 → ∀ (z : ℂ), z.re = 0 → ∀ ζ ∈ Gen.Etdrk.roots_of_unity M, z ≠ -(1 * ζ) :=
  @Exponax.ContourComplex.excluded_of_re_eq_zero

open Exponax.ContourComplex in
theorem C02_coefficients_continuous_off_the_nodes :
    ∀ (dt r : ℂ) (M : ℕ) (lam0 : ℂ),
      (∀ ζ ∈ Gen.Etdrk.roots_of_unity M, lam0 * dt ≠ -(r * ζ)) →
        ∀ (i : Fin 14), ContinuousAt (fun lam ↦ storedCoef dt lam M r i) lam0 :=
  @Exponax.ContourComplex.continuousAt_storedCoef


end Exponax
