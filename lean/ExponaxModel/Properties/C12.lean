import ExponaxModel.Proofs.Contour
import ExponaxModel.Generated.Misc
import ExponaxModel.Model.EtdrkSpec
import ExponaxModel.Proofs.ReadOffForcing
import ExponaxModel.Proofs.NonlinFunsEq
import ExponaxModel.Proofs.LaminarEquilibriaExamples
import ExponaxModel.Proofs.SmallGaps3Shear
import ExponaxModel.Proofs.SpectralLayoutEq
/-
C12 — forcing terms inject exactly the documented field.
`Gen.Misc.forced_step*` are regenerated from `exponax/_forced_stepper.py`; `Gen.Etdrk.*` from `etdrk/`.
The injected coefficients themselves (`Nonlin.vorticity2d`, `Nonlin.projected3d`) are treated in
`Proofs/LerayAlgebra.lean` (`*_injection_documented`) and compared exactly with the implementation.
-/
set_option linter.unusedVariables false
namespace Exponax
open Exponax.Spec Exponax.Gen.Etdrk Exponax.Gen.Misc

/-- a forced stepper with forcing `f` equals the unforced step of `u + dt·f` … -/
theorem C12_forced_stepper {V : Type} [CommRing V] (inner : V → V) (dt u f : V) :
    forced_step inner dt u f = inner (u + dt * f) ∧ forced_step_fourier inner dt u f = inner (u + dt * f) :=
  ⟨rfl, rfl⟩

/-- … and with zero forcing equals the unforced stepper -/
theorem C12_forced_zero {V : Type} [CommRing V] (inner : V → V) (dt u : V) :
    forced_step inner dt u 0 = inner u ∧ forced_step_fourier inner dt u 0 = inner u := by
  simp [forced_step, forced_step_fourier]

/-- LAMINAR RECURRENCE.  On the forced mode the nonlinear term is the constant injection `f` (the convection
    term vanishes there), so every ETDRK order updates `a ↦ e^z a + dt φ₁(z) f` (C02: constant nonlinearity
    is integrated exactly by every order).  From rest, after `n` steps: `a_n = f (e^{n z} − 1)/σ`, `z = σ dt`:
    the laminar solution of the forced linear equation `a' = σ a + f`, for every `dt`, `n`, `σ ≠ 0`. -/
theorem C12_laminar_solution (σ dt f : ℂ) (hσ : σ ≠ 0) (hdt : dt ≠ 0) (n : ℕ) :
    (fun a => Complex.exp (σ * dt) * a + dt * phi1 (σ * dt) * f)^[n] 0
      = f * (Complex.exp (n * (σ * dt)) - 1) / σ := by
  have hz : σ * dt ≠ 0 := mul_ne_zero hσ hdt
  induction n with
  | zero => simp
  | succ n ih =>
    rw [Function.iterate_succ_apply', ih]
    simp only [phi1, hasExp_complex]
    have e : Complex.exp (((n + 1 : ℕ) : ℂ) * (σ * dt)) = Complex.exp (n * (σ * dt)) * Complex.exp (σ * dt) := by
      rw [← Complex.exp_add]; congr 1; push_cast; ring
    rw [e]
    field_simp
    ring

/-- the same update written with the four regenerated stage formulas (constant nonlinearity `N ≡ f`, exact
    coefficients): each order produces `e^z a + dt φ₁(z) f` -/
theorem C12_forced_mode_update (dt z f a : ℂ) (hz : z ≠ 0) :
    cm1 (Complex.exp z) (dt * phi1 z) (fun _ => f) a = Complex.exp z * a + dt * phi1 z * f ∧
    cm2 (Complex.exp z) (dt * phi1 z) (dt * phi2 z) (fun _ => f) a = Complex.exp z * a + dt * phi1 z * f := by
  simp only [cm1, cm2]
  refine ⟨trivial, ?_⟩
  ring

/-- the steady laminar amplitude `−f/σ` (for `Re σ < 0`, `n → ∞`) is a fixed point of the update -/
theorem C12_laminar_steady (σ dt f : ℂ) (hσ : σ ≠ 0) (hdt : dt ≠ 0) :
    Complex.exp (σ * dt) * (-f / σ) + dt * phi1 (σ * dt) * f = -f / σ := by
  simp only [phi1, hasExp_complex]
  field_simp
  ring

example : ((-0.3 : ℂ)) ≠ 0 ∧ ((0.01 : ℂ)) ≠ 0 := by norm_num

/-! ### the injected spectra ARE the transforms of the documented forcing fields (every N with 2m < N) -/

/-- 2-D: at rest the vorticity term returns exactly `rfftn` of `−m s γ cos(m s x₁)`, the curl of `γ sin(m s x₁) e₀`,
    whatever the convection scale and dealiasing fraction -/
theorem C12_vorticity_forcing_field (c : Nonlin.Cfg ℂ) (s γ : ℝ) (hs : c.s = (s : ℂ)) (hD : c.D = 2) (scale : ℂ) (m : ℕ)
    (hm : 2 * m < c.N) (uh : Nonlin.MC ℂ) (h0 : ∀ h, Nonlin.at2 uh 0 h = 0) :
    (Nonlin.vorticity2d c scale (some (m, (γ : ℂ))) uh).getD 0 #[] =
      Transform.rfftnM 2 c.N (ReadOff.kolmogorovVorticity c.N m s γ) :=
  ReadOff.vorticity2d_injection_is_forcing_array c s γ hs hD scale m hm uh h0

/-- 3-D: at rest the velocity term returns `rfftn` of `γ sin(m s x₁)` in channel 0 and zero in channels 1, 2 -/
theorem C12_velocity_forcing_field (c : Nonlin.Cfg ℂ) (γ : ℝ) (hD : c.D = 3) (m : ℕ) (hm0 : 0 < m) (hm : 2 * m < c.N)
    (uh : Nonlin.MC ℂ) (h0 : ∀ i h, Nonlin.at2 uh i h = 0) :
    (Nonlin.projected3d c (some (m, (γ : ℂ))) uh).getD 0 #[] = Transform.rfftnM 3 c.N (ReadOff.kolmogorovVelocity c.N m γ) ∧
    (Nonlin.projected3d c (some (m, (γ : ℂ))) uh).getD 1 #[] = ExactLinear.vzero (Layout.numModes 3 c.N) ∧
    (Nonlin.projected3d c (some (m, (γ : ℂ))) uh).getD 2 #[] = ExactLinear.vzero (Layout.numModes 3 c.N) :=
  ReadOff.projected3d_injection_is_forcing_array c γ hD m hm0 hm uh h0

/-! ### the forced nonlinear functions REGENERATED from `_vorticity_convection.py` / `_projected_convection.py` (their
`__init__` builds the injection array) are the model terms of the theorems above -/
theorem C12_generated_forced_terms (c : Nonlin.Cfg ℂ) (s : ℝ) (hs : c.s = (s : ℂ)) (scale gam : ℂ) (m : ℕ)
    (uh : Nonlin.MC ℂ) :
    Gen.NonlinFuns.VorticityConvection2dKolmogorov_call c scale m gam uh = Nonlin.vorticity2d c scale (some (m, gam)) uh ∧
    (c.D = 3 → 0 < m →
      Gen.NonlinFuns.ProjectedConvection3dKolmogorov_call c m gam uh = Nonlin.projected3d c (some (m, gam)) uh) :=
  ⟨NonlinFunsEq.VorticityConvection2dKolmogorov_call_eq c s hs scale m gam uh,
   fun hD hm => NonlinFunsEq.ProjectedConvection3dKolmogorov_call_eq c hD m hm gam uh⟩


/-! ### the WHOLE spectrum along the laminar trajectory (library `Proofs/Laminar*.lean`): the 2-D vorticity convection term
vanishes identically on every shear spectrum (support on k₀ = 0), so from ANY shear state — in particular from rest — every
ETDRK order evolves the forced stepper by the scalar recurrence on the forced mode and leaves all other modes alone; with exact
coefficients the n-th iterate is f̂ (e^{nσdt} − 1)/σ at the forced mode and 0 elsewhere, and with the STORED contour
coefficients all four orders give one and the same trajectory Σ_i E^i · c₁ f̂ (any M, r).  3-D: the same for the two
Kolmogorov modes (`_partial`: the 3-D term is shown to vanish for the two-mode shear spectra the trajectory visits, not for an
arbitrary real profile f(x₁), where an even-N Nyquist entry would need Hermitian symmetry). -/

open Exponax.Laminar Exponax.Laminar3D in
theorem C12_shear_flow_has_no_convection :
    ∀ (c : Nonlin.Cfg ℂ),
      0 < c.N →
        ∀ (scale : ℂ) (uh : Nonlin.MC ℂ),
          IsShear c uh → Nonlin.vorticity2d c scale none uh = Nonlin.tab2 1 (Nonlin.modes c) fun x x_1 ↦ 0 :=
  @Exponax.Laminar.vorticity2d_shear_zero

open Exponax.Laminar Exponax.Laminar3D in
theorem C12_injection_is_documented_field :
    ∀ (c : Nonlin.Cfg ℂ) (s γ : ℝ),
      c.s = ↑s →
        c.D = 2 →
          ∀ (scale : ℂ) (m : ℕ),
            2 * m < c.N →
              ∀ (h : ℕ),
                forcing c scale (some (m, ↑γ)) h = (Transform.rfftnM 2 c.N (ReadOff.kolmogorovVorticity c.N m s γ)).getD h 0 :=
  @Exponax.Laminar.forcing_is_field

open Exponax.Laminar Exponax.Laminar3D in
theorem C12_laminar_whole_spectrum_any_coefficients :
    ∀ (c : Nonlin.Cfg ℂ),
      0 < c.N →
        ∀ (scale : ℂ) (inj : Option (ℕ × ℂ)) (E Eh a1 a2 a3 a4 a5 a6 v : ℕ → ℂ),
          ShearSpec c v →
            ∀ (n : ℕ),
              (Gen.Etdrk.E4step E Eh a1 a2 a3 a4 a5 a6 (Conserve.liftNl c (Nonlin.vorticity2d c scale inj)))^[n] v =
                E ^ n * v + (∑ i ∈ Finset.range n, E ^ i) * ((a4 + 4 * a5 + a6) * forcing c scale inj) :=
  @Exponax.Laminar.laminar_E4

open Exponax.Laminar Exponax.Laminar3D in
theorem C12_laminar_from_rest_exact :
    ∀ (c : Nonlin.Cfg ℂ),
      c.D = 2 →
        ∀ (scale γ : ℂ) (m : ℕ),
          0 < m →
            2 * m < c.N →
              ∀ (σ dt : ℂ),
                σ ≠ 0 →
                  dt ≠ 0 →
                    ∀ (E Eh a1 a2 a3 a4 a5 a6 : ℕ → ℂ),
                      E m = Complex.exp (σ * dt) →
                        a4 m = dt * (Spec.phi1 (σ * dt) - 3 * Spec.phi2 (σ * dt) + 4 * Spec.phi3 (σ * dt)) →
                          a5 m = dt * (Spec.phi2 (σ * dt) - 2 * Spec.phi3 (σ * dt)) →
                            a6 m = dt * (4 * Spec.phi3 (σ * dt) - Spec.phi2 (σ * dt)) →
                              ∀ (n : ℕ),
                                (Gen.Etdrk.E4step E Eh a1 a2 a3 a4 a5 a6
                                        (Conserve.liftNl c (Nonlin.vorticity2d c scale (some (m, γ)))))^[n]
                                    0 =
                                  laminarSpectrum c γ m σ dt n :=
  @Exponax.Laminar.laminar_exact_E4

open Exponax.Laminar Exponax.Laminar3D in
theorem C12_laminar_from_rest_stored :
    ∀ (c : Nonlin.Cfg ℂ),
      c.D = 2 →
        ∀ (scale γ : ℂ) (m : ℕ),
          0 < m →
            2 * m < c.N →
              ∀ (dt r : ℂ) (M : ℕ) (L : ℕ → ℂ) (n : ℕ),
                (Gen.Etdrk.E4step (fun h ↦ Gen.Etdrk.exp_term dt (L h)) (fun h ↦ Gen.Etdrk.E4_half_exp_term dt (L h) M r)
                        (fun h ↦ Gen.Etdrk.E4_coef_1 dt (L h) M r) (fun h ↦ Gen.Etdrk.E4_coef_2 dt (L h) M r)
                        (fun h ↦ Gen.Etdrk.E4_coef_3 dt (L h) M r) (fun h ↦ Gen.Etdrk.E4_coef_4 dt (L h) M r)
                        (fun h ↦ Gen.Etdrk.E4_coef_5 dt (L h) M r) (fun h ↦ Gen.Etdrk.E4_coef_6 dt (L h) M r)
                        (Conserve.liftNl c (Nonlin.vorticity2d c scale (some (m, γ)))))^[n]
                    0 =
                  laminarStored c γ m dt (L m) r M n :=
  @Exponax.Laminar.laminar_stored_E4

open Exponax.Laminar Exponax.Laminar3D in
theorem C12_laminar_stored_is_exact_when_coefficient_is :
    ∀ (c : Nonlin.Cfg ℂ) (γ : ℂ) (m : ℕ) (dt σ r : ℂ) (M n : ℕ),
      σ ≠ 0 →
        dt ≠ 0 →
          Gen.Etdrk.E1_coef_1 dt σ M r = dt * Spec.phi1 (σ * dt) →
            laminarStored c γ m dt σ r M n = laminarSpectrum c γ m σ dt n :=
  @Exponax.Laminar.laminarStored_eq_exact

open Exponax.Laminar Exponax.Laminar3D in
theorem C12_unforced_shear_is_linear :
    ∀ (c : Nonlin.Cfg ℂ),
      0 < c.N →
        ∀ (scale : ℂ) (E Eh a1 a2 a3 a4 a5 a6 v : ℕ → ℂ),
          ShearSpec c v →
            ∀ (n : ℕ),
              (Gen.Etdrk.E4step E Eh a1 a2 a3 a4 a5 a6 (Conserve.liftNl c (Nonlin.vorticity2d c scale none)))^[n] v =
                E ^ n * v :=
  @Exponax.Laminar.shear_unforced_linear

open Exponax.Laminar Exponax.Laminar3D in
theorem C12_laminar_3d_stored :
    ∀ (c : Nonlin.Cfg ℂ),
      c.D = 3 →
        ∀ (s : ℝ),
          c.s = ↑s →
            s ≠ 0 →
              ∀ (m : ℕ),
                0 < m →
                  2 * m < c.N →
                    ∀ (gam dt r : ℂ) (M : ℕ) (L : ℕ → ℕ → ℂ) (n i h : ℕ),
                      (Gen.Etdrk.E1step (fun i h ↦ Gen.Etdrk.exp_term dt (L i h))
                                (fun i h ↦ Gen.Etdrk.E1_coef_1 dt (L i h) M r)
                                (liftNl3 c (Nonlin.projected3d c (some (m, gam)))))^[n]
                            0 i h =
                          (∑ j ∈ Finset.range n, Gen.Etdrk.exp_term dt (L i h) ^ j) *
                            (Gen.Etdrk.E1_coef_1 dt (L i h) M r * forcing3 c (some (m, gam)) i h) ∧
                        (Gen.Etdrk.E3step (fun i h ↦ Gen.Etdrk.exp_term dt (L i h))
                                  (fun i h ↦ Gen.Etdrk.E3_half_exp_term dt (L i h) M r)
                                  (fun i h ↦ Gen.Etdrk.E3_coef_1 dt (L i h) M r)
                                  (fun i h ↦ Gen.Etdrk.E3_coef_2 dt (L i h) M r)
                                  (fun i h ↦ Gen.Etdrk.E3_coef_3 dt (L i h) M r)
                                  (fun i h ↦ Gen.Etdrk.E3_coef_4 dt (L i h) M r)
                                  (fun i h ↦ Gen.Etdrk.E3_coef_5 dt (L i h) M r)
                                  (liftNl3 c (Nonlin.projected3d c (some (m, gam)))))^[n]
                              0 i h =
                            (∑ j ∈ Finset.range n, Gen.Etdrk.exp_term dt (L i h) ^ j) *
                              (Gen.Etdrk.E1_coef_1 dt (L i h) M r * forcing3 c (some (m, gam)) i h) ∧
                          (Gen.Etdrk.E4step (fun i h ↦ Gen.Etdrk.exp_term dt (L i h))
                                  (fun i h ↦ Gen.Etdrk.E4_half_exp_term dt (L i h) M r)
                                  (fun i h ↦ Gen.Etdrk.E4_coef_1 dt (L i h) M r)
                                  (fun i h ↦ Gen.Etdrk.E4_coef_2 dt (L i h) M r)
                                  (fun i h ↦ Gen.Etdrk.E4_coef_3 dt (L i h) M r)
                                  (fun i h ↦ Gen.Etdrk.E4_coef_4 dt (L i h) M r)
                                  (fun i h ↦ Gen.Etdrk.E4_coef_5 dt (L i h) M r)
                                  (fun i h ↦ Gen.Etdrk.E4_coef_6 dt (L i h) M r)
                                  (liftNl3 c (Nonlin.projected3d c (some (m, gam)))))^[n]
                              0 i h =
                            (∑ j ∈ Finset.range n, Gen.Etdrk.exp_term dt (L i h) ^ j) *
                              (Gen.Etdrk.E1_coef_1 dt (L i h) M r * forcing3 c (some (m, gam)) i h) :=
  @Exponax.Laminar3D.laminar3d_stored

open Exponax.Laminar Exponax.Laminar3D in
theorem C12_shear_3d_no_convection_partial :
    ∀ (c : Nonlin.Cfg ℂ),
      c.D = 3 →
        ∀ (s : ℝ),
          c.s = ↑s →
            s ≠ 0 →
              ∀ (m : ℕ),
                0 < m →
                  2 * m < c.N →
                    ∀ (uh : Nonlin.MC ℂ),
                      TwoMode c m uh →
                        ∀ (i h : ℕ), i < 3 → h < Nonlin.modes c → Nonlin.at2 (Nonlin.projected3d c none uh) i h = 0 :=
  @Exponax.Laminar3D.projected3d_shear_none_partial



/-! ### 3-D: the rotational term vanishes on EVERY real shear profile (f(x₁), 0, 0), any N, any mask, Nyquist content included
(discrete ∫u∂u = 0 for real grid fields) — supersedes the two-mode `_partial` statement at term level -/

open Exponax.SmallGaps3 in
theorem C12_shear_3d_no_convection_every_profile :
    ∀ (c : Nonlin.Cfg ℂ),
      c.D = 3 →
        0 < c.N →
          ∀ (s : ℝ),
            c.s = ↑s →
              s ≠ 0 →
                ∀ (f : ℕ → ℝ) (i h : ℕ),
                  Nonlin.at2 (Nonlin.projected3d c none #[Transform.rfftnM c.D c.N (profileField c f), #[], #[]]) i h = 0 :=
  @Exponax.SmallGaps3.projected3d_shear_profile

open Exponax.SmallGaps3 in
theorem C12_discrete_integration_by_parts :
    ∀ (c : Nonlin.Cfg ℂ),
      0 < c.N →
        ∀ (x : Array ℂ),
          AliasND.IsRealND c.D c.N x →
            ∀ (ρ1 ρ2 : ℕ → ℂ),
              (∀ (h : ℕ), (Nonlin.mask c h * ρ1 h).im = 0) →
                (∀ (h : ℕ), (Nonlin.mask c h * ρ2 h).re = 0) →
                  ∑ j ∈ Finset.range (c.N ^ c.D),
                      (Nonlin.nifft c
                              (Transform.tab (Nonlin.modes c) fun h ↦ ρ1 h * (Transform.rfftnM c.D c.N x).getD h 0)).getD
                          j 0 *
                        (Nonlin.nifft c
                              (Transform.tab (Nonlin.modes c) fun h ↦ ρ2 h * (Transform.rfftnM c.D c.N x).getD h 0)).getD
                          j 0 =
                    0 :=
  @Exponax.SmallGaps3.sum_real_imag_mul_zero



/-! ### the scaling the injection is multiplied with: `build_scaling_array(mode="coef_extraction")`, REGENERATED from
`_spectral.py` on every run, is the model's `Layout.scaling … 2` that the regenerated injection arrays above use, and at the
forced 2-D mode `(0, m)` it is `N·N/2` for EVERY `0 < m` with `2m < N` — also the highest wavenumber `(N−1)/2` of an odd
grid, which carries no Nyquist special case -/
theorem C12_generated_injection_scaling (D N : ℕ) (hD : 1 ≤ D) (hN : 0 < N) (h : List ℕ) :
    Gen.SpectralLayout.build_scaling_array D N "coef_extraction" "ij" h = some (Layout.scaling D N 2 h : ℚ) :=
  build_scaling_array_coef_extraction D N hD hN h

theorem C12_injection_scaling_value_2d (c : Nonlin.Cfg ℂ) (hD : c.D = 2) (h m : ℕ) (hm : 0 < m) (hmN : 2 * m < c.N)
    (hk0 : Nonlin.kInt c 0 h = 0) (hk1 : Nonlin.kInt c 1 h = (m : ℤ)) :
    (Layout.scaling c.D c.N 2 (Layout.unflatten (Layout.wavenumberShape c.D c.N) h) : ℂ) = (c.N : ℂ) * ((c.N : ℂ) / 2) :=
  Nonlin.scaling_at_kolmogorov_2d c hD h m hm hmN hk0 hk1

/-- non-vacuity: an odd grid and its highest wavenumber -/
example : (0 : ℕ) < 4 ∧ 2 * 4 < 9 := by decide

end Exponax
