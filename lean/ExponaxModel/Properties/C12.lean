import ExponaxModel.Proofs.Contour
import ExponaxModel.Generated.Misc
import ExponaxModel.Model.EtdrkSpec
import ExponaxModel.Proofs.ReadOffForcing
import ExponaxModel.Proofs.NonlinFunsEq
/-
C12 — forcing terms inject exactly the documented field.
`Gen.Misc.forced_step*` are regenerated from `exponax/_forced_stepper.py`; `Gen.Etdrk.*` from `etdrk/`.
The injected coefficients themselves (`Nonlin.vorticity2d`, `Nonlin.projected3d`) are treated in
`Proofs/LerayAlgebra.lean` (`*_injection_documented`) and compared exactly with the implementation.
-/
set_option linter.unusedVariables false
namespace Exponax
open Exponax.Spec Exponax.Gen.Etdrk Exponax.Gen.Misc

/-- a forced stepper with forcing `f` equals the unforced step of `u + dt·f` … -/
theorem C12_forced_stepper {V : Type} [CommRing V] (inner : V → V) (dt u f : V) :
    forced_step inner dt u f = inner (u + dt * f) ∧ forced_step_fourier inner dt u f = inner (u + dt * f) :=
  ⟨rfl, rfl⟩

/-- … and with zero forcing equals the unforced stepper -/
theorem C12_forced_zero {V : Type} [CommRing V] (inner : V → V) (dt u : V) :
    forced_step inner dt u 0 = inner u ∧ forced_step_fourier inner dt u 0 = inner u := by
  simp [forced_step, forced_step_fourier]

/-- LAMINAR RECURRENCE.  On the forced mode the nonlinear term is the constant injection `f` (the convection
    term vanishes there), so every ETDRK order updates `a ↦ e^z a + dt φ₁(z) f` (C02: constant nonlinearity
    is integrated exactly by every order).  From rest, after `n` steps: `a_n = f (e^{n z} − 1)/σ`, `z = σ dt`:
    the laminar solution of the forced linear equation `a' = σ a + f`, for every `dt`, `n`, `σ ≠ 0`. -/
theorem C12_laminar_solution (σ dt f : ℂ) (hσ : σ ≠ 0) (hdt : dt ≠ 0) (n : ℕ) :
    (fun a => Complex.exp (σ * dt) * a + dt * phi1 (σ * dt) * f)^[n] 0
      = f * (Complex.exp (n * (σ * dt)) - 1) / σ := by
  have hz : σ * dt ≠ 0 := mul_ne_zero hσ hdt
  induction n with
  | zero => simp
  | succ n ih =>
    rw [Function.iterate_succ_apply', ih]
    simp only [phi1, hasExp_complex]
    have e : Complex.exp (((n + 1 : ℕ) : ℂ) * (σ * dt)) = Complex.exp (n * (σ * dt)) * Complex.exp (σ * dt) := by
      rw [← Complex.exp_add]; congr 1; push_cast; ring
    rw [e]
    field_simp
    ring

/-- the same update written with the four regenerated stage formulas (constant nonlinearity `N ≡ f`, exact
    coefficients): each order produces `e^z a + dt φ₁(z) f` -/
theorem C12_forced_mode_update (dt z f a : ℂ) (hz : z ≠ 0) :
    cm1 (Complex.exp z) (dt * phi1 z) (fun _ => f) a = Complex.exp z * a + dt * phi1 z * f ∧
    cm2 (Complex.exp z) (dt * phi1 z) (dt * phi2 z) (fun _ => f) a = Complex.exp z * a + dt * phi1 z * f := by
  simp only [cm1, cm2]
  refine ⟨trivial, ?_⟩
  ring

/-- the steady laminar amplitude `−f/σ` (for `Re σ < 0`, `n → ∞`) is a fixed point of the update -/
theorem C12_laminar_steady (σ dt f : ℂ) (hσ : σ ≠ 0) (hdt : dt ≠ 0) :
    Complex.exp (σ * dt) * (-f / σ) + dt * phi1 (σ * dt) * f = -f / σ := by
  simp only [phi1, hasExp_complex]
  field_simp
  ring

example : ((-0.3 : ℂ)) ≠ 0 ∧ ((0.01 : ℂ)) ≠ 0 := by norm_num

/-! ### the injected spectra ARE the transforms of the documented forcing fields (every N with 2m < N) -/

/-- 2-D: at rest the vorticity term returns exactly `rfftn` of `−m s γ cos(m s x₁)`, the curl of `γ sin(m s x₁) e₀`,
    whatever the convection scale and dealiasing fraction -/
theorem C12_vorticity_forcing_field (c : Nonlin.Cfg ℂ) (s γ : ℝ) (hs : c.s = (s : ℂ)) (hD : c.D = 2) (scale : ℂ) (m : ℕ)
    (hm : 2 * m < c.N) (uh : Nonlin.MC ℂ) (h0 : ∀ h, Nonlin.at2 uh 0 h = 0) :
    (Nonlin.vorticity2d c scale (some (m, (γ : ℂ))) uh).getD 0 #[] =
      Transform.rfftnM 2 c.N (ReadOff.kolmogorovVorticity c.N m s γ) :=
  ReadOff.vorticity2d_injection_is_forcing_array c s γ hs hD scale m hm uh h0

/-- 3-D: at rest the velocity term returns `rfftn` of `γ sin(m s x₁)` in channel 0 and zero in channels 1, 2 -/
theorem C12_velocity_forcing_field (c : Nonlin.Cfg ℂ) (γ : ℝ) (hD : c.D = 3) (m : ℕ) (hm0 : 0 < m) (hm : 2 * m < c.N)
    (uh : Nonlin.MC ℂ) (h0 : ∀ i h, Nonlin.at2 uh i h = 0) :
    (Nonlin.projected3d c (some (m, (γ : ℂ))) uh).getD 0 #[] = Transform.rfftnM 3 c.N (ReadOff.kolmogorovVelocity c.N m γ) ∧
    (Nonlin.projected3d c (some (m, (γ : ℂ))) uh).getD 1 #[] = ExactLinear.vzero (Layout.numModes 3 c.N) ∧
    (Nonlin.projected3d c (some (m, (γ : ℂ))) uh).getD 2 #[] = ExactLinear.vzero (Layout.numModes 3 c.N) :=
  ReadOff.projected3d_injection_is_forcing_array c γ hD m hm0 hm uh h0

/-! ### the forced nonlinear functions REGENERATED from `_vorticity_convection.py` / `_projected_convection.py` (their
`__init__` builds the injection array) are the model terms of the theorems above -/
theorem C12_generated_forced_terms (c : Nonlin.Cfg ℂ) (s : ℝ) (hs : c.s = (s : ℂ)) (scale gam : ℂ) (m : ℕ)
    (uh : Nonlin.MC ℂ) :
    Gen.NonlinFuns.VorticityConvection2dKolmogorov_call c scale m gam uh = Nonlin.vorticity2d c scale (some (m, gam)) uh ∧
    (c.D = 3 → 0 < m →
      Gen.NonlinFuns.ProjectedConvection3dKolmogorov_call c m gam uh = Nonlin.projected3d c (some (m, gam)) uh) :=
  ⟨NonlinFunsEq.VorticityConvection2dKolmogorov_call_eq c s hs scale m gam uh,
   fun hD hm => NonlinFunsEq.ProjectedConvection3dKolmogorov_call_eq c hD m hm gam uh⟩

end Exponax
