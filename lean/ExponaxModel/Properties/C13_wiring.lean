import ExponaxModel.Properties.C13
import ExponaxModel.Proofs.StepperWiringEq
/-
C13 (continued) — the wiring of the stepper classes.  Separate file because the wiring library builds on the
conversion-formula theorems of `Properties/C13.lean` (no import cycle); audited together with it.
-/
set_option linter.unusedVariables false
namespace Exponax

/-! ### the WIRING of the stepper classes, regenerated from their `__init__` / `_build_nonlinear_fun` source
(`Gen.StepperWiring.*`, 37 classes): which nonlinear function is instantiated with which arguments, how the difficulty
and normalized interfaces convert their arguments, and that every option is forwarded unchanged -/
open Exponax.Gen.StepperWiring in
/-- the difficulty interface hands its parent exactly the documented conversions and EVERY option unchanged … -/
theorem C13_difficulty_interface_forwards (a : DifficultyConvectionStepperArgs ℂ) :
    DifficultyConvectionStepper_super_args a =
      { num_spatial_dims := a.num_spatial_dims, num_points := a.num_points,
        normalized_linear_coefficients :=
          Gen.Convert.extract_normalized_coefficients_from_difficulty a.linear_difficulties a.num_spatial_dims a.num_points,
        normalized_convection_scale :=
          Gen.Convert.extract_normalized_convection_scale_from_difficulty a.convection_difficulty a.num_spatial_dims
            a.num_points a.maximum_absolute,
        single_channel := a.single_channel, conservative := a.conservative, order := a.order,
        dealiasing_fraction := a.dealiasing_fraction, num_circle_points := a.num_circle_points,
        circle_radius := a.circle_radius } :=
  StepperWiringEq.DifficultyConvectionStepper_super_args_eq a

open Exponax.Gen.StepperWiring in
/-- … the normalized interface is the physical one at `L = 1`, `dt = 1` with the documented denormalisation … -/
theorem C13_normalized_interface (a : NormalizedConvectionStepperArgs ℂ) :
    let g := NormalizedConvectionStepper_super_args a
    g.domain_extent = 1 ∧ g.dt = 1 ∧
      g.linear_coefficients = Gen.Convert.denormalize_coefficients a.normalized_linear_coefficients g.domain_extent g.dt ∧
      g.convection_scale = Gen.Convert.denormalize_convection_scale a.normalized_convection_scale g.domain_extent g.dt :=
  StepperWiringEq.NormalizedConvectionStepper_parent_receives_denormalized a

open Exponax.Gen.StepperWiring in
/-- … and, end to end on the constructor arguments, the three interfaces and the specific steppers run the same
    documented convection term with the user's flags (Burgers, KdV, difficulty interface shown; all 37 classes are in
    `Proofs/StepperWiringEq.lean`) -/
theorem C13_same_nonlinear_term (c : Nonlin.Cfg ℂ) (b : BurgersArgs ℂ) (k : KortewegDeVriesArgs ℂ)
    (d : DifficultyConvectionStepperArgs ℂ) (uh : Nonlin.MC ℂ) (hb : b.num_spatial_dims = c.D)
    (hk : k.num_spatial_dims = c.D) (hd : d.num_spatial_dims = c.D) :
    Burgers_stepper_nonlinear_fun c b uh =
      Nonlin.convection (StepperWiringEq.withDF c b.dealiasing_fraction) (if b.single_channel = true then 1 else c.D)
        b.convection_scale b.single_channel b.conservative uh ∧
    KortewegDeVries_stepper_nonlinear_fun c k uh =
      Nonlin.convection (StepperWiringEq.withDF c k.dealiasing_fraction) (if k.single_channel = true then 1 else c.D)
        k.convection_scale k.single_channel k.conservative uh ∧
    DifficultyConvectionStepper_stepper_nonlinear_fun c d uh =
      Nonlin.convection (StepperWiringEq.withDF c d.dealiasing_fraction) (if d.single_channel = true then 1 else c.D)
        (d.convection_difficulty / (d.maximum_absolute * (d.num_points : ℂ) * (d.num_spatial_dims : ℂ))) d.single_channel
        d.conservative uh :=
  ⟨StepperWiringEq.Burgers_stepper_nonlinear_fun_eq c b uh hb,
   StepperWiringEq.KortewegDeVries_stepper_nonlinear_fun_eq c k uh hk,
   StepperWiringEq.DifficultyConvectionStepper_stepper_nonlinear_fun_eq c d uh hd⟩

/-- argument normalisation: a full matrix diffusivity is stored as given, a scalar as ν·I -/
theorem C13_argument_normalisation (A : List (List ℂ)) (D : ℕ) (ν : ℂ) :
    Gen.StepperWiring.AdvectionDiffusion_init_diffusivity_matrix A = A ∧
      Gen.StepperWiring.Diffusion_init_diffusivity_scalar D ν = StepperWiringEq.scalarM D ν :=
  ⟨StepperWiringEq.AdvectionDiffusion_init_diffusivity_matrix_eq A, StepperWiringEq.Diffusion_init_diffusivity_scalar_eq D ν⟩

theorem C13_wiring_coverage : Gen.StepperWiring.generated_classes.length = 37 := by
  rw [StepperWiringEq.generated_classes_pinned]; rfl

end Exponax
