import ExponaxModel.Proofs.MetricsGenAxioms
/-
C16 (continuation) — the metric laws for the NAMED metrics REGENERATED from `exponax/metrics/_spatial.py`
(`Gen.MetricsGen.MSE`, `RMSE`, `MAE`, `nMSE`, `nRMSE`, `nMAE`, `sMSE`, `sRMSE`, `sMAE`), over `ℝ`, whole multi-channel
states `List (Array ℝ)`, with the argument conventions of the generated definitions (`some r` / `none` reference,
`domain_extent` last).  `C16_zero_iff`, `C16_symmetric`, `C16_homogeneous`, `C16_scale_free` (C16.lean) are about the
hand-written model; here they are transferred through `MetricsGenEq.*_eq`.  None of the statements needs `D ≥ 1`
(they hold for every `D`); `N > 0`, `L > 0` are needed for positivity only, `L ≥ 0` for homogeneity.
-/
set_option linter.unusedVariables false
namespace Exponax
open Exponax.Metrics Exponax.Gen.MetricsGen Exponax.MetricsGenAxioms

/-- the vocabulary of this file: `scaleState a u` is `a • u`, `OnGrid D N u` says every channel is a whole `(N,)*D`
    array, `ChannelsNonzero r` says no channel of `r` is identically zero -/
theorem C16_generated_metric_vocabulary (D N : ℕ) (a : ℝ) (u r : List (Array ℝ)) :
    scaleState a u = u.map (fun c => c.map (fun x => a * x)) ∧
    (OnGrid D N u ↔ ∀ c ∈ u, c.size = N ^ D) ∧
    (ChannelsNonzero r ↔ ∀ b ∈ r, ∃ x ∈ b.toList, x ≠ 0) := ⟨rfl, Iff.rfl, Iff.rfl⟩

/-! ### zero for identical inputs -/

/-- `MSE(u, u) = 0` -/
theorem C16_generated_MSE_zero_for_identical (D N : ℕ) (L : ℝ) (u : List (Array ℝ)) :
    MSE D N u (some u) L = some 0 := by
  rw [MSE_eq, spatialModel_self 0 D N L _ _ lit_two_pos.ne' lit_one_pos.ne' u]

/-- every named spatial metric of a state against itself is zero.  (For the normalized / symmetric variants of a
    state with an identically-zero channel the Python value is `0/0 = nan`; over `ℝ` the quotient is Lean's
    `0 / 0 = 0`.  `C16_generated_relative_denominators_positive` gives the denominators otherwise.) -/
theorem C16_generated_metrics_zero_for_identical (D N : ℕ) (L : ℝ) (u : List (Array ℝ)) :
    MSE D N u (some u) L = some 0 ∧ RMSE D N u (some u) L = some 0 ∧ MAE D N u (some u) L = some 0 ∧
    nMSE D N u u L = some 0 ∧ nRMSE D N u u L = some 0 ∧ nMAE D N u u L = some 0 ∧
    sMSE D N u u L = some 0 ∧ sRMSE D N u u L = some 0 ∧ sMAE D N u u L = some 0 := by
  have h2 := lit_two_pos.ne'
  have h1 := lit_one_pos.ne'
  have hh := qlit_half_pos.ne'
  refine ⟨?_, ?_, ?_, ?_, ?_, ?_, ?_, ?_, ?_⟩
  · rw [MSE_eq, spatialModel_self 0 D N L _ _ h2 h1 u]
  · rw [RMSE_eq, spatialModel_self 0 D N L _ _ h2 hh u]
  · rw [MAE_eq, spatialModel_self 0 D N L _ _ h1 h1 u]
  · rw [nMSE_eq, spatialModel_self 1 D N L _ _ h2 h1 u]
  · rw [nRMSE_eq, spatialModel_self 1 D N L _ _ h2 hh u]
  · rw [nMAE_eq, spatialModel_self 1 D N L _ _ h1 h1 u]
  · rw [sMSE_eq, spatialModel_self 2 D N L _ _ h2 h1 u]
  · rw [sRMSE_eq, spatialModel_self 2 D N L _ _ h2 hh u]
  · rw [sMAE_eq, spatialModel_self 2 D N L _ _ h1 h1 u]

/-- the per-channel denominators of the normalized metrics (reference aggregates; the symmetric ones add the
    non-negative state aggregates) are positive when no reference channel vanishes identically -/
theorem C16_generated_relative_denominators_positive (D N : ℕ) (hN : 0 < N) (L : ℝ) (hL : 0 < L) (p q : ℝ) (hp : 0 < p)
    (hq : 0 < q) (r : List (Array ℝ)) (hr : ChannelsNonzero r) :
    ∀ x ∈ chanAgg D N L p q r, 0 < x := by
  intro x hx
  simp only [chanAgg, List.mem_map] at hx
  obtain ⟨b, hb, rfl⟩ := hx
  exact spatialAggregator_pos D N L p q hp hq hL hN b (hr b hb)

/-! ### symmetry -/

/-- `MSE`, `RMSE`, `MAE` and the symmetric variants `sMSE`, `sRMSE`, `sMAE` are symmetric in prediction and reference
    (whole arrays on the same grid, same number of channels) -/
theorem C16_generated_metrics_symmetric (D N : ℕ) (L : ℝ) (u r : List (Array ℝ)) (hlen : u.length = r.length)
    (hu : OnGrid D N u) (hr : OnGrid D N r) :
    MSE D N u (some r) L = MSE D N r (some u) L ∧ RMSE D N u (some r) L = RMSE D N r (some u) L ∧
    MAE D N u (some r) L = MAE D N r (some u) L ∧
    sMSE D N u r L = sMSE D N r u L ∧ sRMSE D N u r L = sRMSE D N r u L ∧ sMAE D N u r L = sMAE D N r u L := by
  have h := sameShape_of_grid D N u r hlen hu hr
  refine ⟨?_, ?_, ?_, ?_, ?_, ?_⟩
  · rw [MSE_eq, MSE_eq, spatialModel_zero_symm D N L _ _ u r h]
  · rw [RMSE_eq, RMSE_eq, spatialModel_zero_symm D N L _ _ u r h]
  · rw [MAE_eq, MAE_eq, spatialModel_zero_symm D N L _ _ u r h]
  · rw [sMSE_eq, sMSE_eq, spatialModel_two_symm D N L _ _ u r h]
  · rw [sRMSE_eq, sRMSE_eq, spatialModel_two_symm D N L _ _ u r h]
  · rw [sMAE_eq, sMAE_eq, spatialModel_two_symm D N L _ _ u r h]

/-- the normalized variants are NOT symmetric: on every grid (`N > 0`, `L > 0`, any `D`) the constant one-channel
    states `1` and `2` give `nMSE(1, 2) = 1/4` but `nMSE(2, 1) = 1`, and `nMAE(1, 2) = 1/2` but `nMAE(2, 1) = 1` -/
theorem C16_generated_normalized_not_symmetric (D N : ℕ) (hN : 0 < N) (L : ℝ) (hL : 0 < L) :
    OnGrid D N [constChan (N ^ D) 1] ∧ OnGrid D N [constChan (N ^ D) 2] ∧
    nMSE D N [constChan (N ^ D) 1] [constChan (N ^ D) 2] L = some (1 / 4) ∧
    nMSE D N [constChan (N ^ D) 2] [constChan (N ^ D) 1] L = some 1 ∧
    nMAE D N [constChan (N ^ D) 1] [constChan (N ^ D) 2] L = some (1 / 2) ∧
    nMAE D N [constChan (N ^ D) 2] [constChan (N ^ D) 1] L = some 1 := by
  have hK : (L / (N : ℝ)) ^ D ≠ 0 := (cell_pos D N L hL hN).ne'
  have hn : ((N ^ D : ℕ) : ℝ) ≠ 0 := by
    have : 0 < N ^ D := Nat.pow_pos hN
    exact_mod_cast this.ne'
  refine ⟨onGrid_const D N 1, onGrid_const D N 2, ?_, ?_, ?_, ?_⟩
  · rw [nMSE_eq, lit_one_real, lit_two_real, spatialModel_one_const, Real.rpow_two, Real.rpow_two]
    congr 1
    field_simp
    norm_num
  · rw [nMSE_eq, lit_one_real, lit_two_real, spatialModel_one_const, Real.rpow_two, Real.rpow_two]
    congr 1
    field_simp
    norm_num
  · rw [nMAE_eq, lit_one_real, spatialModel_one_const, Real.rpow_one, Real.rpow_one]
    congr 1
    field_simp
    norm_num
  · rw [nMAE_eq, lit_one_real, spatialModel_one_const, Real.rpow_one, Real.rpow_one]
    congr 1
    field_simp
    norm_num

/-! ### homogeneity under common scaling -/

/-- `MSE(a•u, a•r) = a² · MSE(u, r)`, with and without a reference state -/
theorem C16_generated_MSE_homogeneous (D N : ℕ) (L : ℝ) (hL : 0 ≤ L) (a : ℝ) (u r : List (Array ℝ)) :
    MSE D N (scaleState a u) (some (scaleState a r)) L = (MSE D N u (some r) L).map (fun v => a ^ 2 * v) ∧
    MSE D N (scaleState a u) none L = (MSE D N u none L).map (fun v => a ^ 2 * v) := by
  constructor
  · rw [MSE_eq, MSE_eq, Option.map_some, spatialModel_zero_scale D N L _ _ a hL, abs_rpow_two_one]
  · rw [MSE_none, MSE_none, Option.map_some, combine_zero_scale D N L _ _ a hL, abs_rpow_two_one]

/-- `RMSE` and `MAE` scale with `|a|`, with and without a reference state -/
theorem C16_generated_RMSE_homogeneous (D N : ℕ) (L : ℝ) (hL : 0 ≤ L) (a : ℝ) (u r : List (Array ℝ)) :
    RMSE D N (scaleState a u) (some (scaleState a r)) L = (RMSE D N u (some r) L).map (fun v => |a| * v) ∧
    RMSE D N (scaleState a u) none L = (RMSE D N u none L).map (fun v => |a| * v) ∧
    MAE D N (scaleState a u) (some (scaleState a r)) L = (MAE D N u (some r) L).map (fun v => |a| * v) ∧
    MAE D N (scaleState a u) none L = (MAE D N u none L).map (fun v => |a| * v) := by
  refine ⟨?_, ?_, ?_, ?_⟩
  · rw [RMSE_eq, RMSE_eq, Option.map_some, spatialModel_zero_scale D N L _ _ a hL, abs_rpow_two_half]
  · rw [RMSE_none, RMSE_none, Option.map_some, combine_zero_scale D N L _ _ a hL, abs_rpow_two_half]
  · rw [MAE_eq, MAE_eq, Option.map_some, spatialModel_zero_scale D N L _ _ a hL, abs_rpow_one_one]
  · rw [MAE_none, MAE_none, Option.map_some, combine_zero_scale D N L _ _ a hL, abs_rpow_one_one]

/-- the normalized and the symmetric variants are scale-free: a common factor `a ≠ 0` does not change them -/
theorem C16_generated_normalized_scale_free (D N : ℕ) (L : ℝ) (hL : 0 ≤ L) (a : ℝ) (ha : a ≠ 0)
    (u r : List (Array ℝ)) :
    nMSE D N (scaleState a u) (scaleState a r) L = nMSE D N u r L ∧
    nRMSE D N (scaleState a u) (scaleState a r) L = nRMSE D N u r L ∧
    nMAE D N (scaleState a u) (scaleState a r) L = nMAE D N u r L ∧
    sMSE D N (scaleState a u) (scaleState a r) L = sMSE D N u r L ∧
    sRMSE D N (scaleState a u) (scaleState a r) L = sRMSE D N u r L ∧
    sMAE D N (scaleState a u) (scaleState a r) L = sMAE D N u r L := by
  refine ⟨?_, ?_, ?_, ?_, ?_, ?_⟩
  · rw [nMSE_eq, nMSE_eq, spatialModel_one_scale D N L _ _ a hL ha]
  · rw [nRMSE_eq, nRMSE_eq, spatialModel_one_scale D N L _ _ a hL ha]
  · rw [nMAE_eq, nMAE_eq, spatialModel_one_scale D N L _ _ a hL ha]
  · rw [sMSE_eq, sMSE_eq, spatialModel_two_scale D N L _ _ a hL ha]
  · rw [sRMSE_eq, sRMSE_eq, spatialModel_two_scale D N L _ _ a hL ha]
  · rw [sMAE_eq, sMAE_eq, spatialModel_two_scale D N L _ _ a hL ha]

/-! ### positivity -/

/-- `m` is a value `v ≥ 0` that vanishes exactly when `u = r` (so `v > 0` for `u ≠ r`) -/
def C16PositiveDefinite (m : Option ℝ) (u r : List (Array ℝ)) : Prop :=
  ∃ v, m = some v ∧ 0 ≤ v ∧ (v = 0 ↔ u = r) ∧ (u ≠ r → 0 < v)

theorem C16_positiveDefinite_of (x : ℝ) (u r : List (Array ℝ)) (h : 0 ≤ x ∧ (x = 0 ↔ u = r)) :
    C16PositiveDefinite (some x) u r :=
  ⟨x, rfl, h.1, h.2, fun hne => lt_of_le_of_ne h.1 (fun he => hne (h.2.mp he.symm))⟩

/-- `MSE(u, r) > 0` when `u ≠ r` on the grid (and it is `0` only for `u = r`) -/
theorem C16_generated_MSE_positive (D N : ℕ) (hN : 0 < N) (L : ℝ) (hL : 0 < L) (u r : List (Array ℝ))
    (hlen : u.length = r.length) (hu : OnGrid D N u) (hr : OnGrid D N r) :
    ∃ v, MSE D N u (some r) L = some v ∧ 0 ≤ v ∧ (v = 0 ↔ u = r) ∧ (u ≠ r → 0 < v) := by
  rw [MSE_eq]
  exact C16_positiveDefinite_of _ u r (spatialModel_zero_nonneg_eq_zero_iff D N L _ _ lit_two_pos lit_one_pos hL hN u r
    (sameShape_of_grid D N u r hlen hu hr))

/-- all three absolute metrics are non-negative, zero exactly for `u = r`, positive otherwise -/
theorem C16_generated_absolute_positive (D N : ℕ) (hN : 0 < N) (L : ℝ) (hL : 0 < L) (u r : List (Array ℝ))
    (hlen : u.length = r.length) (hu : OnGrid D N u) (hr : OnGrid D N r) :
    C16PositiveDefinite (MSE D N u (some r) L) u r ∧ C16PositiveDefinite (RMSE D N u (some r) L) u r ∧
    C16PositiveDefinite (MAE D N u (some r) L) u r := by
  have h := sameShape_of_grid D N u r hlen hu hr
  refine ⟨?_, ?_, ?_⟩
  · rw [MSE_eq]
    exact C16_positiveDefinite_of _ u r
      (spatialModel_zero_nonneg_eq_zero_iff D N L _ _ lit_two_pos lit_one_pos hL hN u r h)
  · rw [RMSE_eq]
    exact C16_positiveDefinite_of _ u r
      (spatialModel_zero_nonneg_eq_zero_iff D N L _ _ lit_two_pos qlit_half_pos hL hN u r h)
  · rw [MAE_eq]
    exact C16_positiveDefinite_of _ u r
      (spatialModel_zero_nonneg_eq_zero_iff D N L _ _ lit_one_pos lit_one_pos hL hN u r h)

/-- the normalized and symmetric variants too, when no channel of the reference vanishes identically -/
theorem C16_generated_relative_positive (D N : ℕ) (hN : 0 < N) (L : ℝ) (hL : 0 < L) (u r : List (Array ℝ))
    (hlen : u.length = r.length) (hu : OnGrid D N u) (hr : OnGrid D N r) (hnz : ChannelsNonzero r) :
    C16PositiveDefinite (nMSE D N u r L) u r ∧ C16PositiveDefinite (nRMSE D N u r L) u r ∧
    C16PositiveDefinite (nMAE D N u r L) u r ∧ C16PositiveDefinite (sMSE D N u r L) u r ∧
    C16PositiveDefinite (sRMSE D N u r L) u r ∧ C16PositiveDefinite (sMAE D N u r L) u r := by
  have h := sameShape_of_grid D N u r hlen hu hr
  refine ⟨?_, ?_, ?_, ?_, ?_, ?_⟩
  · rw [nMSE_eq]
    exact C16_positiveDefinite_of _ u r
      (spatialModel_one_nonneg_eq_zero_iff D N L _ _ lit_two_pos lit_one_pos hL hN u r h hnz)
  · rw [nRMSE_eq]
    exact C16_positiveDefinite_of _ u r
      (spatialModel_one_nonneg_eq_zero_iff D N L _ _ lit_two_pos qlit_half_pos hL hN u r h hnz)
  · rw [nMAE_eq]
    exact C16_positiveDefinite_of _ u r
      (spatialModel_one_nonneg_eq_zero_iff D N L _ _ lit_one_pos lit_one_pos hL hN u r h hnz)
  · rw [sMSE_eq]
    exact C16_positiveDefinite_of _ u r
      (spatialModel_two_nonneg_eq_zero_iff D N L _ _ lit_two_pos lit_one_pos hL hN u r h hnz)
  · rw [sRMSE_eq]
    exact C16_positiveDefinite_of _ u r
      (spatialModel_two_nonneg_eq_zero_iff D N L _ _ lit_two_pos qlit_half_pos hL hN u r h hnz)
  · rw [sMAE_eq]
    exact C16_positiveDefinite_of _ u r
      (spatialModel_two_nonneg_eq_zero_iff D N L _ _ lit_one_pos lit_one_pos hL hN u r h hnz)

/-! ### non-vacuity: two different whole one-channel states on the `D = 1`, `N = 2` grid with a nowhere-vanishing
reference satisfy all hypotheses, so their `MSE` is positive -/

example : OnGrid 1 2 [#[1, 2]] ∧ OnGrid 1 2 [#[1, 3]] ∧ ChannelsNonzero [#[1, 3]] ∧
    ([#[1, 2]] : List (Array ℝ)) ≠ [#[1, 3]] ∧ ([#[1, 2]] : List (Array ℝ)).length = [#[1, 3]].length := by
  refine ⟨?_, ?_, ?_, ?_, rfl⟩
  · intro a ha; rw [List.mem_singleton] at ha; rw [ha]; rfl
  · intro a ha; rw [List.mem_singleton] at ha; rw [ha]; rfl
  · intro b hb; rw [List.mem_singleton] at hb; rw [hb]; exact ⟨1, by simp, one_ne_zero⟩
  · intro h; norm_num at h

example : ∃ v, MSE 1 2 [#[1, 2]] (some [#[1, 3]]) (1 : ℝ) = some v ∧ 0 < v := by
  obtain ⟨v, hv, _, _, hpos⟩ := C16_generated_MSE_positive 1 2 (by norm_num) 1 one_pos [#[1, 2]] [#[1, 3]] rfl
    (by intro a ha; rw [List.mem_singleton] at ha; rw [ha]; rfl)
    (by intro a ha; rw [List.mem_singleton] at ha; rw [ha]; rfl)
  exact ⟨v, hv, hpos (by intro h; norm_num at h)⟩

end Exponax
