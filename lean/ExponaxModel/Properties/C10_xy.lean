import ExponaxModel.Properties.C10
import ExponaxModel.Proofs.IncompressibleXY
/-
C10 (continued) — `exponax.make_incompressible(field, indexing="xy")` (regenerated `Gen.SpectralOps.make_incompressible`): for
D ≥ 2 the "xy" derivative operator is the "ij" one with components 0 and 1 exchanged, so the "xy" projection is the "ij"
projection of the field with channels 0 and 1 exchanged (exchanged back) — the Leray projection in the numpy.meshgrid
convention: divergence-free in that convention and idempotent in Fourier space for every spectrum; for the physical-space
result at every stored mode of Hermitian weight 2, and at every mode for real fields on odd grids (on even grids `irfftn`
keeps only the Hermitian part of the self-conjugate columns — the Nyquist caveat of the property).  The same physical-space
facts for the default "ij".  "xy" is NOT "all components reversed" in 3-D (concrete witness).
-/
set_option linter.unusedVariables false
namespace Exponax

open Exponax.IncompressibleXY Exponax.SmallGaps2 in
theorem C10_derivative_operator_xy :
    ∀ (D N : ℕ),
      2 ≤ D →
        0 < N →
          ∀ (L : ℂ) (d h : ℕ),
            Gen.SpectralOps.derivative_operator_entry D L N "xy" d h =
              Gen.SpectralOps.derivative_operator_entry D L N "ij" (sw d) h :=
  @Exponax.IncompressibleXY.derivative_operator_entry_xy

open Exponax.IncompressibleXY Exponax.SmallGaps2 in
theorem C10_make_incompressible_xy_is_swapped_ij :
    ∀ (D N : ℕ),
      2 ≤ D →
        0 < N →
          ∀ (field : Nonlin.MC ℂ),
            2 ≤ Array.size field →
              Gen.SpectralOps.make_incompressible D N D "xy" field =
                swapCh (Gen.SpectralOps.make_incompressible D N D "ij" (swapCh field)) :=
  @Exponax.IncompressibleXY.make_incompressible_xy

open Exponax.IncompressibleXY Exponax.SmallGaps2 in
theorem C10_make_incompressible_xy_is_leray :
    ∀ (D N : ℕ),
      2 ≤ D →
        0 < N →
          ∀ (field : Nonlin.MC ℂ),
            2 ≤ Array.size field →
              Gen.SpectralOps.make_incompressible D N D "xy" field =
                Nonlin.tabC D fun i ↦ Transform.irfftnM D N (Array.getD (lerayXY D N (specOf D N field)) i #[]) :=
  @Exponax.IncompressibleXY.make_incompressible_xy_leray

open Exponax.IncompressibleXY Exponax.SmallGaps2 in
theorem C10_leray_xy_divfree :
    ∀ (D N : ℕ),
      2 ≤ D →
        0 < N →
          ∀ (uh : Nonlin.MC ℂ),
            ∀ h < Layout.numModes D N,
              sumList
                  (List.map
                    (fun d ↦ Gen.SpectralOps.derivative_operator_entry D 1 N "xy" d h * Nonlin.at2 (lerayXY D N uh) d h)
                    (List.range D)) =
                0 :=
  @Exponax.IncompressibleXY.lerayXY_divfree

open Exponax.IncompressibleXY Exponax.SmallGaps2 in
theorem C10_leray_xy_idem :
    ∀ (D N : ℕ), 2 ≤ D → ∀ (uh : Nonlin.MC ℂ), lerayXY D N (lerayXY D N uh) = lerayXY D N uh :=
  @Exponax.IncompressibleXY.lerayXY_idem

open Exponax.IncompressibleXY Exponax.SmallGaps2 in
theorem C10_make_incompressible_xy_divfree :
    ∀ (D N : ℕ),
      2 ≤ D →
        0 < N →
          ∀ (field : Nonlin.MC ℂ),
            2 ≤ Array.size field →
              ∀ h < Layout.numModes D N,
                Transform.herm_weight D N h = 2 →
                  sumList
                      (List.map
                        (fun d ↦
                          Gen.SpectralOps.derivative_operator_entry D 1 N "xy" d h *
                            (Transform.rfftnM D N
                                  (Array.getD (Gen.SpectralOps.make_incompressible D N D "xy" field) d #[])).getD
                              h 0)
                        (List.range D)) =
                    0 :=
  @Exponax.IncompressibleXY.make_incompressible_xy_divfree

open Exponax.IncompressibleXY Exponax.SmallGaps2 in
theorem C10_make_incompressible_xy_divfree_odd_grid :
    ∀ (D N : ℕ),
      2 ≤ D →
        N % 2 = 1 →
          ∀ (field : Nonlin.MC ℂ),
            2 ≤ Array.size field →
              (∀ d < D, ∀ j < N ^ D, ((Array.getD field d #[]).getD j 0).im = 0) →
                ∀ h < Layout.numModes D N,
                  sumList
                      (List.map
                        (fun d ↦
                          Gen.SpectralOps.derivative_operator_entry D 1 N "xy" d h *
                            (Transform.rfftnM D N
                                  (Array.getD (Gen.SpectralOps.make_incompressible D N D "xy" field) d #[])).getD
                              h 0)
                        (List.range D)) =
                    0 :=
  @Exponax.IncompressibleXY.make_incompressible_xy_divfree_real_odd

open Exponax.IncompressibleXY Exponax.SmallGaps2 in
theorem C10_make_incompressible_xy_idem_odd_grid :
    ∀ (D N : ℕ),
      2 ≤ D →
        N % 2 = 1 →
          ∀ (field : Nonlin.MC ℂ),
            2 ≤ Array.size field →
              (∀ d < D, ∀ j < N ^ D, ((Array.getD field d #[]).getD j 0).im = 0) →
                Gen.SpectralOps.make_incompressible D N D "xy" (Gen.SpectralOps.make_incompressible D N D "xy" field) =
                  Gen.SpectralOps.make_incompressible D N D "xy" field :=
  @Exponax.IncompressibleXY.make_incompressible_xy_idem_real_odd

open Exponax.IncompressibleXY Exponax.SmallGaps2 in
theorem C10_make_incompressible_divfree_odd_grid :
    ∀ (D N : ℕ),
      2 ≤ D →
        N % 2 = 1 →
          ∀ (field : Nonlin.MC ℂ),
            2 ≤ Array.size field →
              (∀ d < D, ∀ j < N ^ D, ((Array.getD field d #[]).getD j 0).im = 0) →
                ∀ h < Layout.numModes D N,
                  sumList
                      (List.map
                        (fun d ↦
                          Gen.SpectralOps.derivative_operator_entry D 1 N "ij" d h *
                            (Transform.rfftnM D N
                                  (Array.getD (Gen.SpectralOps.make_incompressible D N D "ij" field) d #[])).getD
                              h 0)
                        (List.range D)) =
                    0 :=
  @Exponax.IncompressibleXY.make_incompressible_ij_divfree_real_odd

open Exponax.IncompressibleXY Exponax.SmallGaps2 in
theorem C10_make_incompressible_idem_odd_grid :
    ∀ (D N : ℕ),
      2 ≤ D →
        N % 2 = 1 →
          ∀ (field : Nonlin.MC ℂ),
            2 ≤ Array.size field →
              (∀ d < D, ∀ j < N ^ D, ((Array.getD field d #[]).getD j 0).im = 0) →
                Gen.SpectralOps.make_incompressible D N D "ij" (Gen.SpectralOps.make_incompressible D N D "ij" field) =
                  Gen.SpectralOps.make_incompressible D N D "ij" field :=
  @Exponax.IncompressibleXY.make_incompressible_ij_idem_real_odd

open Exponax.IncompressibleXY Exponax.SmallGaps2 in
theorem C10_make_incompressible_divfree :
    ∀ (D N : ℕ),
      2 ≤ D →
        0 < N →
          ∀ (field : Nonlin.MC ℂ),
            2 ≤ Array.size field →
              ∀ h < Layout.numModes D N,
                Transform.herm_weight D N h = 2 →
                  sumList
                      (List.map
                        (fun d ↦
                          Gen.SpectralOps.derivative_operator_entry D 1 N "ij" d h *
                            (Transform.rfftnM D N
                                  (Array.getD (Gen.SpectralOps.make_incompressible D N D "ij" field) d #[])).getD
                              h 0)
                        (List.range D)) =
                    0 :=
  @Exponax.IncompressibleXY.make_incompressible_ij_divfree

open Exponax.IncompressibleXY Exponax.SmallGaps2 in
theorem C10_xy_is_not_reversed_ij :
    Gen.SpectralLayout.build_wavenumbers 3 4 "xy" [1, 0, 0] ≠
      (Gen.SpectralLayout.build_wavenumbers 3 4 "ij" [1, 0, 0]).reverse :=
  @Exponax.IncompressibleXY.build_wavenumbers_xy_ne_reverse


end Exponax
