import ExponaxModel.Proofs.BaseStepperGenEq
/-
C18 (continued) — `build_ic_set` (regenerated from `exponax/_utils.py`): a deterministic function of the key; `S`
samples; sample `i` is the generator called with the second half of the split of the key carried after `i` samples —
so it does not depend on `num_samples`, and every sample sees the requested `num_points`.
-/
set_option linter.unusedVariables false
namespace Exponax
open Exponax.Gen.Base Exponax.BaseStepperGenEq

theorem C18_build_ic_set_samples {Key IC : Type} (split : Key → Key × Key) (g : ℕ → Key → IC) (n S : ℕ) (key : Key) :
    build_ic_set split g n S key = (List.range S).map (fun i => g n (split (carried split key i)).2) :=
  build_ic_set_eq split g n S key

theorem C18_build_ic_set_count {Key IC : Type} (split : Key → Key × Key) (g : ℕ → Key → IC) (n S : ℕ) (key : Key) :
    (build_ic_set split g n S key).length = S :=
  build_ic_set_length split g n S key

theorem C18_build_ic_set_prefix_stable {Key IC : Type} (split : Key → Key × Key) (g : ℕ → Key → IC) (n S S' : ℕ)
    (h : S ≤ S') (key : Key) :
    (build_ic_set split g n S' key).take S = build_ic_set split g n S key :=
  build_ic_set_prefix split g n S S' h key

/-- non-vacuity with a concrete splitting: keys are numbers, `split k = (2k, 2k+1)` -/
example : build_ic_set (fun k : ℕ => (2 * k, 2 * k + 1)) (fun n k => (n, k)) 7 3 1 = [(7, 3), (7, 5), (7, 9)] := by
  decide

end Exponax
