import ExponaxModel.Proofs.ZeroStateAssembled2
/-
C19 (continuation of `Properties/C19_assembled.lean`) — "the zero state maps to a finite state (zero for unforced
equations)" on the assembled regenerated steps not yet instantiated there: `NavierStokesVorticity` (no injection),
`FisherKPP` (`u = 0` is a fixed point of `u' = r u (1 − u)`: the regenerated polynomial list is `(0, 0, −r)`), and the
Normalized / Difficulty wrappers of the convection, gradient-norm, general-nonlinear and linear families (the generic
step on the regenerated `super().__init__` arguments); the polynomial wrappers under the hypothesis that the constant
coefficient handed to the parent vanishes.  Exact complex arithmetic; IEEE semantics are observed by the check.
-/
set_option linter.unusedVariables false
namespace Exponax
open Exponax.Interface Exponax.Gen.Etdrk Exponax.Gen.StepperWiring Exponax.Gen.Steppers

/-- **zero state, more regenerated steppers.**  For ALL constructor arguments (every order, `dt`, extent, resolution,
    coefficients / difficulties, scales, flags, dealiasing fraction, contour) the assembled steps of
    `NavierStokesVorticity`, `FisherKPP` and of the Normalized / Difficulty wrappers of the convection, gradient-norm,
    general-nonlinear and linear families keep the zero state zero over any number of steps. -/
theorem C19_zero_state_fixed_by_more_assembled_steppers (n : ℕ) :
    (∀ a : NavierStokesVorticityArgs ℂ, (NavierStokesVorticity_step a)^[n] 0 = 0) ∧
    (∀ a : FisherKPPArgs ℂ, (FisherKPP_step a)^[n] 0 = 0) ∧
    (∀ a : NormalizedConvectionStepperArgs ℂ, (NormalizedConvectionStepper_step a)^[n] 0 = 0) ∧
    (∀ a : DifficultyConvectionStepperArgs ℂ, (DifficultyConvectionStepper_step a)^[n] 0 = 0) ∧
    (∀ a : NormalizedGradientNormStepperArgs ℂ, (NormalizedGradientNormStepper_step a)^[n] 0 = 0) ∧
    (∀ a : DifficultyGradientNormStepperArgs ℂ, (DifficultyGradientNormStepper_step a)^[n] 0 = 0) ∧
    (∀ a : NormalizedNonlinearStepperArgs ℂ, (NormalizedNonlinearStepper_step a)^[n] 0 = 0) ∧
    (∀ a : DifficultyNonlinearStepperArgs ℂ, (DifficultyNonlinearStepper_step a)^[n] 0 = 0) ∧
    (∀ a : NormalizedLinearStepperArgs ℂ, (NormalizedLinearStepper_step a)^[n] 0 = 0) ∧
    (∀ a : DifficultyLinearStepperArgs ℂ, (DifficultyLinearStepper_step a)^[n] 0 = 0) :=
  ⟨fun a => Function.iterate_fixed (NavierStokesVorticity_step_zero a) n,
   fun a => Function.iterate_fixed (FisherKPP_step_zero a) n,
   fun a => Function.iterate_fixed (NormalizedConvectionStepper_step_zero a) n,
   fun a => Function.iterate_fixed (DifficultyConvectionStepper_step_zero a) n,
   fun a => Function.iterate_fixed (NormalizedGradientNormStepper_step_zero a) n,
   fun a => Function.iterate_fixed (DifficultyGradientNormStepper_step_zero a) n,
   fun a => Function.iterate_fixed (NormalizedNonlinearStepper_step_zero a) n,
   fun a => Function.iterate_fixed (DifficultyNonlinearStepper_step_zero a) n,
   fun a => Function.iterate_fixed (NormalizedLinearStepper_step_zero a) n,
   fun a => Function.iterate_fixed (DifficultyLinearStepper_step_zero a) n⟩

/-- the polynomial wrappers: zero is kept when the constant coefficient of the list the wrapper hands to
    `GeneralPolynomialStepper` (the regenerated `super().__init__` arguments) vanishes.  The hypothesis is stated on the
    regenerated parent arguments, not on the user's normalised coefficients / difficulties (the rescaling of the
    constant coefficient is not unfolded here). -/
theorem C19_zero_state_fixed_by_polynomial_wrappers_partial (n : ℕ) :
    (∀ a : NormalizedPolynomialStepperArgs ℂ,
      (NormalizedPolynomialStepper_super_args a).polynomial_coefficients.getD 0 0 = 0 →
        (NormalizedPolynomialStepper_step a)^[n] 0 = 0) ∧
    (∀ a : DifficultyPolynomialStepperArgs ℂ,
      (NormalizedPolynomialStepper_super_args
        (DifficultyPolynomialStepper_super_args a)).polynomial_coefficients.getD 0 0 = 0 →
        (DifficultyPolynomialStepper_step a)^[n] 0 = 0) :=
  ⟨fun a h0 => Function.iterate_fixed (NormalizedPolynomialStepper_step_zero a h0) n,
   fun a h0 => Function.iterate_fixed (DifficultyPolynomialStepper_step_zero a h0) n⟩

/-! non-vacuity: argument records exist (Fisher–KPP with a non-zero reactivity, order 2); the polynomial list of
Fisher–KPP has no constant term and is not the zero polynomial -/
example : ∃ a : FisherKPPArgs ℂ, a.reactivity ≠ 0 ∧ a.order = 2 :=
  ⟨{ num_spatial_dims := 1, domain_extent := 1, num_points := 8, dt := 1, diffusivity := 0.01, reactivity := 1,
     order := 2, dealiasing_fraction := (2, 3), num_circle_points := 16, circle_radius := 1 }, one_ne_zero, rfl⟩
example (r : ℂ) : ([0, 0, -r] : List ℂ).getD 0 0 = 0 := rfl

end Exponax
