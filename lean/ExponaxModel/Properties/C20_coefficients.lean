import ExponaxModel.Properties.C20
import ExponaxModel.Proofs.StepperWiringArgs
/-
C20 (continued) — vector-valued coefficients are not broadcast.  The constructors of `Advection`, `AdvectionDiffusion` and
`Dispersion` (regenerated from their `__init__` by the wiring translator on every run) store a vector argument UNCHANGED and
expand only a scalar to `D` equal entries; the stored vector then meets the velocity-shape guard of
`build_gradient_inner_product_operator` (regenerated from `_spectral.py`), which accepts exactly the shape `(D,)`.  Hence a
coefficient vector of any length other than `D` — length 1 included — is refused, never spread over the axes.
Separate file because `Proofs/StepperWiringArgs.lean` builds on `Properties/C13.lean`.
-/
set_option linter.unusedVariables false
namespace Exponax

open Exponax.StepperWiringEq Exponax.Gen.StepperWiring in
/-- a vector argument is stored as it is (all three classes) -/
theorem C20_vector_coefficient_stored_unchanged (v : List ℂ) :
    Advection_init_velocity_vector v = v ∧ AdvectionDiffusion_init_velocity_vector v = v ∧
      Dispersion_init_dispersivity_vector v = v :=
  ⟨Advection_init_velocity_vector_eq v, AdvectionDiffusion_init_velocity_vector_eq v,
   Dispersion_init_dispersivity_vector_eq v⟩

open Exponax.StepperWiringEq Exponax.Gen.StepperWiring in
/-- only a scalar is expanded, to `D` equal entries -/
theorem C20_scalar_coefficient_replicated (D : ℕ) (v : ℂ) :
    Advection_init_velocity_scalar D v = List.replicate D v ∧
      AdvectionDiffusion_init_velocity_scalar D v = List.replicate D v ∧
      Dispersion_init_dispersivity_scalar D v = List.replicate D v :=
  ⟨Advection_init_velocity_scalar_eq D v, AdvectionDiffusion_init_velocity_scalar_eq D v,
   Dispersion_init_dispersivity_scalar_eq D v⟩

open Exponax.Guards Exponax.Gen.Guards Exponax.StepperWiringEq Exponax.Gen.StepperWiring in
/-- the stored vector of length `n` passes the regenerated guard (odd order) iff `n = D` -/
theorem C20_vector_coefficient_guard (D n order : ℕ) (rest : List ℕ) (v : List ℂ) (hv : v.length = n)
    (ho : order % 2 = 1) :
    build_gradient_inner_product_operator_accepts (D :: rest) [(Advection_init_velocity_vector v).length] order = true
      ↔ n = D := by
  rw [Advection_init_velocity_vector_eq, hv, build_gradient_inner_product_operator_accepts_cons]
  simp [gradInnerOrderOk, velocityShapeOk, ho]

/-- non-vacuity: a length-1 vector in D = 2 is refused, a length-2 vector accepted -/
example : Exponax.Gen.Guards.build_gradient_inner_product_operator_accepts [2, 6, 4] [1] 1 = false ∧
    Exponax.Gen.Guards.build_gradient_inner_product_operator_accepts [2, 6, 4] [2] 1 = true := by decide

end Exponax
