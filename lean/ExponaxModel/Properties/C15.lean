import Mathlib.Tactic
import ExponaxModel.Model.Interp
import ExponaxModel.Proofs.LayoutLemmas
import ExponaxModel.Proofs.DFT
import ExponaxModel.Proofs.InterpExact
import ExponaxModel.Proofs.InterpQuery
import ExponaxModel.Proofs.SpectralOpsEq
import ExponaxModel.Proofs.SmallGapsInterp
/-
C15 — Fourier interpolation and resolution changes.
Index part of `map_between_resolutions`: the block copy preserves wavenumbers (all parity
combinations of `N_old`, `N_new`, including `±1`).  `Interp.srcAxis` mirrors the slices of
`get_modes_slices(D, min(N_old, N_new))` resolved on the target and on the source axis.
-/
set_option linter.unusedVariables false
namespace Exponax
open Exponax.Layout Exponax.Interp

/-- closed form of the leading-axis block copy (`m = min(N_old, N_new) ≥ 2`): the last `m/2` target entries
    come from the last `m/2` source entries, the first `⌈m/2⌉` from themselves, nothing else is written -/
theorem srcAxis_leading (m Nnew Nold i : ℕ) (hm : 2 ≤ m) (hn : m ≤ Nnew) (ho : m ≤ Nold) :
    srcAxis m Nnew Nold false i =
      if Nnew - m / 2 ≤ i ∧ i < Nnew then some (Nold - m / 2 + (i - (Nnew - m / 2)))
      else if i < (m + 1) / 2 then some i else none := by
  have hnyq : 0 < m / 2 := by omega
  unfold srcAxis
  simp only [Bool.false_eq_true, if_false]
  rw [pySlice_someNeg_none Nnew (m / 2) hnyq, pySlice_someNeg_none Nold (m / 2) hnyq]
  have hleft : (pySlice Nnew none (some (if m % 2 = 0 then ((m / 2 : ℕ) : ℤ) else ((m / 2 : ℕ) : ℤ) + 1))).2 = (m + 1) / 2 := by
    split_ifs with he
    · rw [pySlice_none_some]; simp only; omega
    · have : (((m / 2 : ℕ) : ℤ) + 1) = ((m / 2 + 1 : ℕ) : ℤ) := by push_cast; ring
      rw [this, pySlice_none_some]; simp only; omega
  rw [hleft]
  have e1 : min (m / 2) Nnew = m / 2 := by omega
  have e2 : min (m / 2) Nold = m / 2 := by omega
  simp only [e1, e2]

/-- leading axes: whenever target entry `i` is written, its source entry carries the SAME wavenumber -/
theorem C15_copy_preserves_wavenumber (Nold Nnew i j : ℕ) (ho : 2 ≤ Nold) (hn : 2 ≤ Nnew) (hi : i < Nnew)
    (h : srcAxis (min Nold Nnew) Nnew Nold false i = some j) :
    j < Nold ∧ fftfreq Nold j = fftfreq Nnew i := by
  rw [srcAxis_leading _ _ _ _ (by omega) (by omega) (by omega)] at h
  unfold fftfreq
  split_ifs at h <;> simp only [Option.some.injEq] at h <;> subst h <;>
    (constructor <;> (try split_ifs) <;> omega)

/-- exactly the wavenumbers `−m/2 ≤ k ≤ (m−1)/2`, `m = min(N_old, N_new)`, are copied -/
theorem C15_copy_band (Nold Nnew i : ℕ) (ho : 2 ≤ Nold) (hn : 2 ≤ Nnew) (hi : i < Nnew) :
    (srcAxis (min Nold Nnew) Nnew Nold false i).isSome ↔
      (-(((min Nold Nnew) / 2 : ℕ) : ℤ) ≤ fftfreq Nnew i ∧ fftfreq Nnew i ≤ ((((min Nold Nnew) - 1) / 2 : ℕ) : ℤ)) := by
  rw [srcAxis_leading _ _ _ _ (by omega) (by omega) (by omega)]
  unfold fftfreq
  split_ifs <;> simp <;> omega

/-- last (rfft) axis: entries `0 … m/2` are copied to themselves -/
theorem C15_copy_last_axis (Nold Nnew i : ℕ) (hi : i < Nnew / 2 + 1) :
    srcAxis (min Nold Nnew) (Nnew / 2 + 1) (Nold / 2 + 1) true i =
      if i < (min Nold Nnew) / 2 + 1 then some i else none := by
  have e : (((min Nold Nnew / 2 : ℕ) : ℤ) + 1) = ((min Nold Nnew / 2 + 1 : ℕ) : ℤ) := by push_cast; ring
  have hs : (pySlice (Nnew / 2 + 1) none (some (((min Nold Nnew / 2 : ℕ) : ℤ) + 1))).2
      = min (min Nold Nnew / 2 + 1) (Nnew / 2 + 1) := by
    rw [e, pySlice_none_some]
  unfold srcAxis
  simp only [if_true, hs]
  have : min (min Nold Nnew / 2 + 1) (Nnew / 2 + 1) = min Nold Nnew / 2 + 1 := by omega
  rw [this]

/-- same resolution: identity -/
theorem C15_same_resolution {K : Type} [Add K] [Sub K] [Mul K] [Div K] [Neg K] [Zero K] [One K] [NatCast K]
    [IntCast K] [HasExp K] [HasI K] [HasPi K] [HasRe K] (D N : ℕ) (b : Bool) (u : Array K) :
    mapBetween D N N b u = u := by
  simp [mapBetween]

/-- the interpolant's transform pair reproduces every real state on its own grid (all `D ≥ 1`, `N ≥ 1`) -/
theorem C15_grid_reproduction (D N : ℕ) (hD : 0 < D) (hN : 0 < N) (x : ℕ → ℝ) :
    Transform.irfftnM D N (Transform.rfftnM D N (Transform.tab (N ^ D) (fun j => ((x j : ℝ) : ℂ))))
      = Transform.tab (N ^ D) (fun j => ((x j : ℝ) : ℂ)) :=
  DFT.irfftn_rfftn_ofReal D N hD hN x

/-! non-vacuity -/
example : srcAxis 8 9 8 false 7 = some 6 := by decide
example : (List.range 9).map (srcAxis 8 9 8 false) = [some 0, some 1, some 2, some 3, none, some 4, some 5, some 6, some 7] := by decide
example : (List.range 8).map (srcAxis 7 8 9 false) = [some 0, some 1, some 2, some 3, none, some 6, some 7, some 8] := by decide

/-! ### exactness and mean preservation, through the model routines themselves (`Proofs/Interp*.lean`)

`Interp.BandLimitedN D Nold m u`: the transform of `u` vanishes at every stored mode with some `2|k_d| ≥ m`
(`m = min Nold Nnew`: strictly below BOTH Nyquist wavenumbers).  `Interp.gridPoint D N s j` is the physical point
`L·j_d/N` (`s = 2π/L`). -/

/-- every resolution change preserves the mean of ANY real state — every D ≥ 1, every pair of resolutions ≥ 1, both
    values of the Nyquist ("oddball") option -/
theorem C15_mean_preserved (D Nold Nnew : ℕ) (hD : 0 < D) (ho : 0 < Nold) (hn : 0 < Nnew) (ob : Bool) (u : Array ℂ)
    (hu : ∀ j < Nold ^ D, (u.getD j 0).im = 0) :
    (∑ j ∈ Finset.range (Nnew ^ D), (Interp.mapBetween D Nold Nnew ob u).getD j 0) / (Nnew : ℂ) ^ D =
      (∑ j ∈ Finset.range (Nold ^ D), u.getD j 0) / (Nold : ℂ) ^ D :=
  Interp.I1_mean D Nold Nnew hD ho hn ob u hu

/-- the Fourier interpolant reproduces every real state at its own grid points — every D, N -/
theorem C15_interpolant_at_grid_points (D N : ℕ) (hD : 0 < D) (hN : 0 < N) (s : ℂ) (hs : s ≠ 0) (u : Array ℂ)
    (hu : ∀ j < N ^ D, (u.getD j 0).im = 0) (j : ℕ) (hj : j < N ^ D) :
    Interp.interpolate D N s u (Interp.gridPoint D N s j) = u.getD j 0 :=
  Interp.I3_interpolate_grid D N hD hN s hs u hu j hj

/-- mapping a band-limited state to ANY other resolution (finer or coarser, all parity combinations, N ± 1 included)
    samples its own Fourier interpolant on the new grid — every D -/
theorem C15_map_is_exact (D Nold Nnew : ℕ) (hD : 0 < D) (ho : 0 < Nold) (hn : 0 < Nnew) (hne : Nold ≠ Nnew) (ob : Bool)
    (s : ℂ) (hs : s ≠ 0) (u : Array ℂ) (hb : Interp.BandLimitedN D Nold (min Nold Nnew) u) (j : ℕ)
    (hj : j < Nnew ^ D) :
    (Interp.mapBetween D Nold Nnew ob u).getD j 0
      = Interp.interpolate D Nold s u (Interp.gridPoint D Nnew s j) :=
  Interp.I4_exact_nd D Nold Nnew hD ho hn hne ob s hs u hb j hj

/-- up-sampling from an odd grid needs no hypothesis on the state at all -/
theorem C15_upsample_from_odd (D Nold Nnew : ℕ) (hD : 0 < D) (hodd : Nold % 2 = 1) (hlt : Nold < Nnew) (ob : Bool)
    (s : ℂ) (hs : s ≠ 0) (u : Array ℂ) (j : ℕ) (hj : j < Nnew ^ D) :
    (Interp.mapBetween D Nold Nnew ob u).getD j 0
      = Interp.interpolate D Nold s u (Interp.gridPoint D Nnew s j) :=
  Interp.I4_upsample_odd D Nold Nnew hD hodd hlt ob s hs u j hj

/-- mapping there and back returns the original (1-D; up-then-down and down-then-up) -/
theorem C15_round_trip_1d (Nold Nnew : ℕ) (hne : Nold ≠ Nnew) (ho : 0 < Nold) (hn : 0 < Nnew) (ob ob' : Bool)
    (u : Array ℂ) (hu : ∀ j < Nold, (u.getD j 0).im = 0) (hb : Interp.BandLimited1 Nold (min Nold Nnew) u) (j : ℕ)
    (hj : j < Nold) :
    (Interp.mapBetween 1 Nnew Nold ob' (Interp.mapBetween 1 Nold Nnew ob u)).getD j 0 = u.getD j 0 :=
  Interp.I2a_roundtrip Nold Nnew hne ho hn ob ob' u hu hb j hj

/-- integer refinement of an odd grid keeps every original sample, for any real state -/
theorem C15_refinement_keeps_samples (Nold p : ℕ) (ho : 0 < Nold) (hp : 2 ≤ p) (hodd : Nold % 2 = 1) (ob : Bool)
    (u : Array ℂ) (hu : ∀ j < Nold, (u.getD j 0).im = 0) (j : ℕ) (hj : j < Nold) :
    (Interp.mapBetween 1 Nold (p * Nold) ob u).getD (p * j) 0 = u.getD j 0 :=
  Interp.I2b_subsample_odd Nold p ho hp hodd ob u hu j hj

/-! ### arbitrary query points, inside or outside the domain (`Proofs/InterpQuery*.lean`) -/

/-- THE ANALYTIC VALUE AT ANY REAL QUERY POINT: the Fourier interpolant of a superposition of modes strictly below
    Nyquist returns `Σ a cos(Σ_d s κ_d x_d + φ)` at every real `x` — every D ≥ 1, every N -/
theorem C15_interpolant_is_analytic (D N : ℕ) (hD : 0 < D) (hN : 0 < N) (s : ℝ) (ms : ExactLinear.Modes)
    (hms : ∀ m ∈ ms, ExactLinear.BelowNyquist D N m.1) (x : List ℝ) :
    Interp.interpolate D N (s : ℂ) (ExactLinear.stateOf D N ms) (Interp.cx x) =
      ((ms.map fun m => m.2.1 * Real.cos (∑ d ∈ Finset.range D, s * (m.1.getD d 0 : ℤ) * x.getD d 0 + m.2.2)).sum : ℝ) :=
  Interp.U2_interpolate_stateOf D N hD hN s ms hms x

/-- periodic extension: shifting the query point by whole periods `L = 2π/s` along any axes does not change the value,
    for EVERY state; in particular the value outside the domain is the value at the wrapped point -/
theorem C15_interpolant_periodic (D N : ℕ) (s : ℂ) (hs : s ≠ 0) (u : Array ℂ) (x x' : List ℂ) (m : ℕ → ℤ)
    (h : ∀ d < D, x'.getD d 0 = x.getD d 0 + (m d : ℂ) * (2 * (Real.pi : ℂ) / s)) :
    Interp.interpolate D N s u x' = Interp.interpolate D N s u x :=
  Interp.U3_interpolate_periodic D N s hs u x x' m h

/-- every real band-limited grid state IS the sampling of a trigonometric polynomial, and the interpolant returns that
    polynomial at every real point -/
theorem C15_every_band_limited_state (D N : ℕ) (hD : 0 < D) (hN : 0 < N) (s : ℝ) (hs : s ≠ 0) (u : Array ℂ)
    (hsz : u.size = N ^ D) (hu : ∀ j < N ^ D, (u.getD j 0).im = 0) (hb : ExactLinear.BandLimited D N u) :
    ∃ ms, (∀ m ∈ ms, ExactLinear.BelowNyquist D N m.1) ∧ u = ExactLinear.stateOf D N ms ∧
      ∀ x : List ℝ, Interp.interpolate D N (s : ℂ) u (Interp.cx x) = ((Interp.trigPoly D s ms (Interp.cx x) : ℝ) : ℂ) ∧
        Interp.trigPoly D s ms (Interp.cx x) = Interp.trigPoly D s ms (Interp.cx (Interp.wrapPt s x)) :=
  Interp.U4_interpolate_bandLimited_wrap D N hD hN s hs u hsz hu hb

/-- the Nyquist-free hypothesis is sharp: at the Nyquist wavenumber the interpolant differs from the analytic value -/
theorem C15_fails_at_nyquist :
    Interp.interpolate 1 2 ((1 : ℝ) : ℂ) (ExactLinear.modeField 1 2 [1] 1 (Real.pi / 2)) (Interp.cx [Real.pi / 2]) ≠
      ((1 * Real.cos (∑ d ∈ Finset.range 1, 1 * (([1] : List ℤ).getD d 0 : ℤ) * ([Real.pi / 2] : List ℝ).getD d 0
        + Real.pi / 2) : ℝ) : ℂ) := Interp.U1_fails_at_nyquist

/-! ### the interpolation code itself (`map_between_resolutions`, `FourierInterpolator`), regenerated from
`_interpolation.py` on every run, is the model the theorems above are about -/
open Exponax.SpectralOpsEq in
theorem C15_generated_map_between (D N Nnew C : ℕ) (hD : 1 ≤ D) (hN : 0 < N) (hNn : 0 < Nnew) (ob : Bool)
    (state : Nonlin.MC ℂ) :
    (N ≠ Nnew → Gen.SpectralOps.map_between_resolutions D N C Nnew ob state =
        Nonlin.tabC C (fun ch => Interp.mapBetween D N Nnew ob (state.getD ch #[]))) ∧
      Gen.SpectralOps.map_between_resolutions D N C N ob state = state :=
  ⟨fun h => map_between_resolutions_eq D N Nnew C h hD hN hNn ob state, map_between_resolutions_same D N C ob state⟩

open Exponax.SpectralOpsEq in
theorem C15_generated_interpolator (D N C : ℕ) (hD : 1 ≤ D) (hN : 0 < N) (L : ℂ) (state : Nonlin.MC ℂ) (x : List ℂ) :
    Gen.SpectralOps.FourierInterpolator_call D N C L "ij" state x =
      Transform.tab C (fun ch => Interp.interpolate D N (2 * Real.pi / L) (state.getD ch #[]) x) :=
  FourierInterpolator_call_eq D N C hD hN L state x



/-! ### there-and-back in EVERY dimension: for a real state band-limited below both Nyquist wavenumbers, mapping to another
resolution and back is the identity (both oddball options); from an odd grid upwards for every real state; real-valuedness is
needed (`irfftn` discards imaginary parts — counterexample) -/

open Exponax.SmallGaps in
theorem C15_round_trip_nd :
    ∀ (D Nold Nnew : ℕ),
      0 < D →
        0 < Nold →
          0 < Nnew →
            ∀ (ob ob' : Bool) (u : Array ℂ),
              u.size = Nold ^ D →
                (∀ j < Nold ^ D, (u.getD j 0).im = 0) →
                  Interp.BandLimitedN D Nold (min Nold Nnew) u →
                    Interp.mapBetween D Nnew Nold ob' (Interp.mapBetween D Nold Nnew ob u) = u :=
  @Exponax.SmallGaps.mapBetween_round_trip

open Exponax.SmallGaps in
theorem C15_round_trip_from_odd_grid :
    ∀ (D Nold Nnew : ℕ),
      0 < D →
        Nold % 2 = 1 →
          Nold ≤ Nnew →
            ∀ (ob ob' : Bool) (u : Array ℂ),
              u.size = Nold ^ D →
                (∀ j < Nold ^ D, (u.getD j 0).im = 0) →
                  Interp.mapBetween D Nnew Nold ob' (Interp.mapBetween D Nold Nnew ob u) = u :=
  @Exponax.SmallGaps.mapBetween_round_trip_upsample_odd

open Exponax.SmallGaps in
theorem C15_round_trip_needs_real_state :
    ∀ (ob ob' : Bool),
      Interp.mapBetween 1 2 1 ob' (Interp.mapBetween 1 1 2 ob #[Complex.I]) ≠ #[Complex.I] :=
  @Exponax.SmallGaps.mapBetween_round_trip_fails_nonreal


end Exponax
