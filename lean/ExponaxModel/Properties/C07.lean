import ExponaxModel.Proofs.SymbolAlgebra
import ExponaxModel.Proofs.WaveAlgebra
import ExponaxModel.Proofs.LerayBasic
/-
C07 — steppers are differentiable with correct derivatives — PARTIAL.
JAX's AD engine and IEEE NaN propagation are not modelled.  What is proved: the per-mode maps of the model are
(real-)linear in the state for the linear steppers (so the Jacobian is the map itself — the correspondence compares
`jax.jvp` with the model step of the tangent), smooth in `dt` and in the symbol with the stated derivatives, and the
guarded inverses are independent of the state and of every coefficient the property lists.
-/
set_option linter.unusedVariables false
namespace Exponax
open Exponax.Gen.Etdrk Exponax.Nonlin

/-- linear steppers: one step is linear in the state, so its Fréchet derivative is the step itself -/
theorem C07_linear_jacobian (E a b u v : ℂ) : E0step E (a * u + b * v) = a * E0step E u + b * E0step E v := by
  simp [E0step]; ring

/-- derivative of the propagator w.r.t. `dt`: `∂_dt e^{dt λ} = λ e^{dt λ}` … -/
theorem C07_dt_derivative (lam : ℂ) (dt : ℝ) :
    HasDerivAt (fun t : ℝ => exp_term (t : ℂ) lam) (lam * exp_term (dt : ℂ) lam) dt := by
  simp only [exp_term, hasExp_complex]
  have h1 : HasDerivAt (fun t : ℝ => Complex.exp ((t : ℂ) * lam)) (Complex.exp ((dt : ℂ) * lam) * (1 * lam)) dt :=
    ((Complex.ofRealCLM.hasDerivAt (x := dt)).mul_const lam).cexp
  simpa [mul_comm] using h1

/-- … and w.r.t. the symbol (hence, by the chain rule, w.r.t. every PDE coefficient the symbol is polynomial in) -/
theorem C07_symbol_derivative (dt lam : ℂ) :
    HasDerivAt (fun l : ℂ => exp_term dt l) (dt * exp_term dt lam) lam := by
  simp only [exp_term, hasExp_complex]
  have h1 : HasDerivAt (fun l : ℂ => Complex.exp (dt * l)) (Complex.exp (dt * lam) * (dt * 1)) lam :=
    ((hasDerivAt_id lam).const_mul dt).cexp
  simpa [mul_comm] using h1

/-- the guarded inverse Laplacians depend on the grid and on `2π/L` only: not on the state, `dt` or any PDE
    coefficient, so no derivative the property lists flows through a guarded division -/
theorem C07_guards_parameter_free (c c' : Cfg ℂ) (hD : c.D = c'.D) (hN : c.N = c'.N) (hs : c.s = c'.s) (h : ℕ) :
    invLapZero c h = invLapZero c' h ∧ invLapOne c h = invLapOne c' h :=
  invLap_depends_only_on_D_N_s c c' hD hN hs h

example : (1 : ℂ) ≠ 0 := one_ne_zero

end Exponax
