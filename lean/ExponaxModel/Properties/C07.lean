import ExponaxModel.Proofs.SymbolAlgebra
import ExponaxModel.Proofs.WaveAlgebra
import ExponaxModel.Proofs.LerayBasic
import ExponaxModel.Proofs.Differentiability
import ExponaxModel.Proofs.DifferentiabilityCoef
import ExponaxModel.Proofs.DifferentiabilityParam
import ExponaxModel.Proofs.DifferentiabilityVec
import ExponaxModel.Proofs.DiffTermsExamples
import ExponaxModel.Proofs.DiffTermsInterface
import ExponaxModel.Proofs.DiffTermsAdjointConv
/-
C07 — steppers are differentiable with correct derivatives — PARTIAL.
JAX's AD engine and IEEE NaN propagation are not modelled.  What is proved: the per-mode maps of the model are
(real-)linear in the state for the linear steppers (so the Jacobian is the map itself — the correspondence compares
`jax.jvp` with the model step of the tangent), smooth in `dt` and in the symbol with the stated derivatives, and the
guarded inverses are independent of the state and of every coefficient the property lists.
-/
set_option linter.unusedVariables false
namespace Exponax
open Exponax.Gen.Etdrk Exponax.Nonlin

/-- linear steppers: one step is linear in the state, so its Fréchet derivative is the step itself -/
theorem C07_linear_jacobian (E a b u v : ℂ) : E0step E (a * u + b * v) = a * E0step E u + b * E0step E v := by
  simp [E0step]; ring

/-- derivative of the propagator w.r.t. `dt`: `∂_dt e^{dt λ} = λ e^{dt λ}` … -/
theorem C07_dt_derivative (lam : ℂ) (dt : ℝ) :
    HasDerivAt (fun t : ℝ => exp_term (t : ℂ) lam) (lam * exp_term (dt : ℂ) lam) dt := by
  simp only [exp_term, hasExp_complex]
  have h1 : HasDerivAt (fun t : ℝ => Complex.exp ((t : ℂ) * lam)) (Complex.exp ((dt : ℂ) * lam) * (1 * lam)) dt :=
    ((Complex.ofRealCLM.hasDerivAt (x := dt)).mul_const lam).cexp
  simpa [mul_comm] using h1

/-- … and w.r.t. the symbol (hence, by the chain rule, w.r.t. every PDE coefficient the symbol is polynomial in) -/
theorem C07_symbol_derivative (dt lam : ℂ) :
    HasDerivAt (fun l : ℂ => exp_term dt l) (dt * exp_term dt lam) lam := by
  simp only [exp_term, hasExp_complex]
  have h1 : HasDerivAt (fun l : ℂ => Complex.exp (dt * l)) (Complex.exp (dt * lam) * (dt * 1)) lam :=
    ((hasDerivAt_id lam).const_mul dt).cexp
  simpa [mul_comm] using h1

/-- the guarded inverse Laplacians depend on the grid and on `2π/L` only: not on the state, `dt` or any PDE
    coefficient, so no derivative the property lists flows through a guarded division -/
theorem C07_guards_parameter_free (c c' : Cfg ℂ) (hD : c.D = c'.D) (hN : c.N = c'.N) (hs : c.s = c'.s) (h : ℕ) :
    invLapZero c h = invLapZero c' h ∧ invLapOne c h = invLapOne c' h :=
  invLap_depends_only_on_D_N_s c c' hD hN hs h

example : (1 : ℂ) ≠ 0 := one_ne_zero

/-! ### the model maps ARE differentiable with the stated derivatives (`Proofs/Differentiability*.lean`), so an AD result
that differs from them — or is NaN — is a defect of the implementation, not of the mathematics -/

/-- one ETDRK1 step: derivative `E + c₁ N'(u)` -/
theorem C07_step_state_derivative {𝕜 : Type} [NontriviallyNormedField 𝕜] (E c1 : 𝕜) (N : 𝕜 → 𝕜) (u N'u : 𝕜)
    (hN : HasDerivAt N N'u u) : HasDerivAt (E1step E c1 N) (E + c1 * N'u) u :=
  Diff.E1step_hasDerivAt E c1 N u N'u hN

/-- n ETDRK4 steps (a rollout): differentiable, derivative = product of the per-step derivatives (chain rule) -/
theorem C07_rollout_state_derivative {𝕜 : Type} [NontriviallyNormedField 𝕜] (E Eh c1 c2 c3 c4 c5 c6 : 𝕜)
    (N N' : 𝕜 → 𝕜) (hN : ∀ x, HasDerivAt N (N' x) x) (u : 𝕜) (n : ℕ) :
    HasDerivAt (E4step E Eh c1 c2 c3 c4 c5 c6 N)^[n]
      (∏ k ∈ Finset.range n, Diff.E4step' E Eh c1 c2 c3 c4 c5 c6 N N' ((E4step E Eh c1 c2 c3 c4 c5 c6 N)^[k] u)) u :=
  Diff.E4_rollout_hasDerivAt E Eh c1 c2 c3 c4 c5 c6 N N' hN u n

/-- the same for vector states (any finite-dimensional normed algebra, e.g. the spectrum `Fin n → ℂ`): Fréchet
    derivative of an n-step rollout -/
theorem C07_rollout_frechet {𝕜 : Type} [NontriviallyNormedField 𝕜] {V : Type} [NormedRing V] [NormedAlgebra 𝕜 V]
    (E Eh c1 c2 c3 c4 c5 c6 : V) (N : V → V) (N' : V → V →L[𝕜] V) (hN : ∀ x, HasFDerivAt N (N' x) x) (u : V)
    (n : ℕ) :
    HasFDerivAt (E4step E Eh c1 c2 c3 c4 c5 c6 N)^[n]
      (Diff.iterFDeriv (E4step E Eh c1 c2 c3 c4 c5 c6 N) (Diff.E4stepV' E Eh c1 c2 c3 c4 c5 c6 N N') u n) u :=
  Diff.E4V_rollout_hasFDerivAt E Eh c1 c2 c3 c4 c5 c6 N N' hN u n

/-- polynomial nonlinearities are differentiable everywhere, at `u = 0` too (derivative = the linear coefficient) -/
theorem C07_polynomial_derivative {𝕜 : Type} [NontriviallyNormedField 𝕜] (cs : List 𝕜) (u : 𝕜) :
    HasDerivAt (polyEval cs) (Diff.polyDeriv cs u) u ∧ HasDerivAt (polyEval cs) (cs.getD 1 0) 0 :=
  ⟨Diff.polyEval_hasDerivAt cs u, Diff.polyEval_hasDerivAt_zero cs⟩

/-- THE GUARDED POINT λ = 0: every stored coefficient (regenerated definitions) is differentiable in λ at 0 and in dt,
    because the contour formulation never evaluates the removable singularity -/
theorem C07_coefficients_differentiable_at_zero_symbol (M : ℕ) (r : ℂ) (hr : r ≠ 0) (dt₀ : ℂ) :
    DifferentiableAt ℂ (fun lam => E1_coef_1 dt₀ lam M r) 0 ∧ DifferentiableAt ℂ (fun lam => E2_coef_2 dt₀ lam M r) 0 ∧
    DifferentiableAt ℂ (fun lam => E4_coef_4 dt₀ lam M r) 0 ∧ DifferentiableAt ℂ (fun lam => E4_coef_6 dt₀ lam M r) 0 ∧
    DifferentiableAt ℂ (fun dt => E4_coef_4 dt 0 M r) dt₀ :=
  ⟨Diff.E1_coef_1_differentiableAt_lam_zero M r hr dt₀, Diff.E2_coef_2_differentiableAt_lam_zero M r hr dt₀,
   Diff.E4_coef_4_differentiableAt_lam_zero M r hr dt₀, Diff.E4_coef_6_differentiableAt_lam_zero M r hr dt₀,
   Diff.E4_coef_4_differentiableAt_dt_zero M r hr dt₀⟩

/-- the whole ETDRK4 step, built from the regenerated propagators and coefficients, is jointly differentiable in
    `(dt, λ)` wherever no contour node is zero (every real `λ dt`, by `C19_real_symbol_nodes_nonzero`) -/
theorem C07_step_differentiable_in_dt_and_symbol (M : ℕ) (r dt₀ lam₀ : ℂ) (hn : Diff.NodesAvoidZero M r (lam₀ * dt₀))
    (N : ℂ → ℂ) (hN : Differentiable ℂ N) (u : ℂ) :
    DifferentiableAt ℂ (fun p : ℂ × ℂ =>
      E4step (exp_term p.1 p.2) (E4_half_exp_term p.1 p.2 M r) (E4_coef_1 p.1 p.2 M r) (E4_coef_2 p.1 p.2 M r)
        (E4_coef_3 p.1 p.2 M r) (E4_coef_4 p.1 p.2 M r) (E4_coef_5 p.1 p.2 M r) (E4_coef_6 p.1 p.2 M r) N u)
      (dt₀, lam₀) :=
  Diff.E4step_model_differentiableAt_joint M r dt₀ lam₀ hn N hN u

/-- a PDE coefficient: the linear step with `λ = λ(θ)` has derivative `dt λ'(θ) e^{dt λ(θ)} u` -/
theorem C07_coefficient_derivative (dt u : ℂ) (lamf : ℂ → ℂ) (lam' θ₀ : ℂ) (h : HasDerivAt lamf lam' θ₀) :
    HasDerivAt (fun θ => E0step (exp_term dt (lamf θ)) u) (dt * lam' * exp_term dt (lamf θ₀) * u) θ₀ :=
  Diff.linear_step_hasDerivAt_param dt u lamf lam' θ₀ h

/-- GUARDED DIVISIONS: the model's `if d = 0 then 0 else x/d` is linear in `x` for every fixed `d` (also `d = 0`), so
    its derivative exists and is finite at the zero mean mode; the Poisson solve is linear in the right-hand side -/
theorem C07_guarded_division (d x : ℂ) (c : Cfg ℂ) (order h : ℕ) (f : ℂ) :
    HasDerivAt (Diff.guardedDiv d) (Diff.guardedDiv d 1) x ∧ HasDerivAt (Diff.guardedDiv 0) 0 x ∧
    HasDerivAt (poissonStep c order h) (poissonStep c order h 1) f :=
  ⟨Diff.guardedDiv_hasDerivAt d x, Diff.guardedDiv_hasDerivAt_at_zero_divisor x, Diff.poissonStep_hasDerivAt c order h f⟩


/-! ### the nonlinear TERMS are smooth, every order, whole states (library `Proofs/DiffTerms*.lean`): `physMap c C C' term` is
irfftn ∘ term ∘ rfftn on physical states `Fin C → Fin N^D → ℝ`; every model term is `ContDiff ℝ n` for every n with Fréchet
derivative equal to an explicit JVP in model vocabulary; the regenerated stage formulas of every order are differentiable with the
chain-rule derivative, whole rollouts are smooth (also the regenerated `GeneralConvectionStepper` wiring); a linear stepper is an
ℝ-linear map of the whole state, so its Jacobian is the stepper itself; and the transposes that reverse mode must realise -/

open Exponax.DiffTerms Exponax.Nonlin in
theorem C07_convection_smooth :
    ∀ (c : Nonlin.Cfg ℂ) (C C' : ℕ) (scale : ℂ) (single conservative : Bool) (n : WithTop ℕ∞),
      ContDiff ℝ n (physMap c C C' (Nonlin.convection c C scale single conservative)) :=
  @Exponax.DiffTerms.convection_phys_contDiff

open Exponax.DiffTerms Exponax.Nonlin in
theorem C07_gradient_norm_smooth :
    ∀ (c : Nonlin.Cfg ℂ) (C C' : ℕ) (scale : ℂ) (zeroFix : Bool) (n : WithTop ℕ∞),
      ContDiff ℝ n (physMap c C C' (Nonlin.gradientNorm c C scale zeroFix)) :=
  @Exponax.DiffTerms.gradientNorm_phys_contDiff

open Exponax.DiffTerms Exponax.Nonlin in
theorem C07_vorticity_smooth :
    ∀ (c : Nonlin.Cfg ℂ) (C C' : ℕ) (scale : ℂ) (inj : Option (ℕ × ℂ)) (n : WithTop ℕ∞),
      ContDiff ℝ n (physMap c C C' (Nonlin.vorticity2d c scale inj)) :=
  @Exponax.DiffTerms.vorticity2d_phys_contDiff

open Exponax.DiffTerms Exponax.Nonlin in
theorem C07_general_smooth :
    ∀ (c : Nonlin.Cfg ℂ) (C C' : ℕ) (s0 s1 s2 : ℂ) (zeroFix : Bool) (n : WithTop ℕ∞),
      ContDiff ℝ n (physMap c C C' (Nonlin.general c C s0 s1 s2 zeroFix)) :=
  @Exponax.DiffTerms.general_phys_contDiff

open Exponax.DiffTerms Exponax.Nonlin in
theorem C07_projected3d_smooth :
    ∀ (c : Nonlin.Cfg ℂ) (C C' : ℕ) (inj : Option (ℕ × ℂ)) (n : WithTop ℕ∞),
      ContDiff ℝ n (physMap c C C' (Nonlin.projected3d c inj)) :=
  @Exponax.DiffTerms.projected3d_phys_contDiff

open Exponax.DiffTerms Exponax.Nonlin in
theorem C07_cahn_hilliard_smooth :
    ∀ (c : Nonlin.Cfg ℂ) (C C' : ℕ) (scale : ℂ) (n : WithTop ℕ∞),
      ContDiff ℝ n (physMap c C C' (Nonlin.cahnHilliard c scale)) :=
  @Exponax.DiffTerms.cahnHilliard_phys_contDiff

open Exponax.DiffTerms Exponax.Nonlin in
theorem C07_gray_scott_smooth :
    ∀ (c : Nonlin.Cfg ℂ) (C C' : ℕ) (feed kill : ℂ) (n : WithTop ℕ∞),
      ContDiff ℝ n (physMap c C C' (Nonlin.reaction c C (Nonlin.grayScottReact feed kill))) :=
  @Exponax.DiffTerms.reaction_grayScott_phys_contDiff

open Exponax.DiffTerms Exponax.Nonlin in
theorem C07_convection_derivative_is_jvp :
    ∀ (c : Nonlin.Cfg ℂ) (C C' : ℕ) (scale : ℂ) (single conservative : Bool)
      (u v : Phys C (Nonlin.gridSize c)),
      (fderiv ℝ (physMap c C C' (Nonlin.convection c C scale single conservative)) u) v =
        physJvp c C C' (convectionJvp c C scale single conservative) u v :=
  @Exponax.DiffTerms.convection_phys_fderiv

open Exponax.DiffTerms Exponax.Nonlin in
theorem C07_convection_jvp_formula :
    ∀ (c : Nonlin.Cfg ℂ) (C : ℕ) (scale : ℂ) (uh vh : Nonlin.MC ℂ),
      convectionJvp c C scale true false uh vh =
        Nonlin.tab2 1 (Nonlin.modes c) fun x h ↦
          -scale *
            (Nonlin.nfft c
                  (Transform.tab (Nonlin.gridSize c) fun j ↦
                    sumList
                      (List.map
                        (fun d ↦
                          Nonlin.at2 (Nonlin.tabC C fun ch ↦ Nonlin.nifft c (Array.getD uh ch #[])) 0 j *
                              Nonlin.at2
                                (Nonlin.tabC c.D fun d ↦
                                  Nonlin.nifft c
                                    (Transform.tab (Nonlin.modes c) fun h ↦ Nonlin.deriv c d h * Nonlin.at2 vh 0 h))
                                d j +
                            Nonlin.at2 (Nonlin.tabC C fun ch ↦ Nonlin.nifft c (Array.getD vh ch #[])) 0 j *
                              Nonlin.at2
                                (Nonlin.tabC c.D fun d ↦
                                  Nonlin.nifft c
                                    (Transform.tab (Nonlin.modes c) fun h ↦ Nonlin.deriv c d h * Nonlin.at2 uh 0 h))
                                d j)
                        (List.range c.D)))).getD
              h 0 :=
  @Exponax.DiffTerms.convectionJvp_single_nc

open Exponax.DiffTerms Exponax.Nonlin in
theorem C07_order2_state_derivative :
    ∀ {𝕜 : Type} [inst : NontriviallyNormedField 𝕜] {V : Type} [inst_1 : NormedRing V]
      [inst_2 : NormedAlgebra 𝕜 V] (E c1 c2 : V) (N : V → V),
      Differentiable 𝕜 N → ∀ (u : V), fderiv 𝕜 (Gen.Etdrk.E2step E c1 c2 N) u = E2stepV' E c1 c2 N (fderiv 𝕜 N) u :=
  @Exponax.DiffTerms.E2step_fderiv

open Exponax.DiffTerms Exponax.Nonlin in
theorem C07_order3_state_derivative :
    ∀ {𝕜 : Type} [inst : NontriviallyNormedField 𝕜] {V : Type} [inst_1 : NormedRing V]
      [inst_2 : NormedAlgebra 𝕜 V] (E Eh c1 c2 c3 c4 c5 : V) (N : V → V),
      Differentiable 𝕜 N →
        ∀ (u : V), fderiv 𝕜 (Gen.Etdrk.E3step E Eh c1 c2 c3 c4 c5 N) u = Diff.E3stepV' E Eh c1 c2 c3 c4 c5 N (fderiv 𝕜 N) u :=
  @Exponax.DiffTerms.E3step_fderiv

open Exponax.DiffTerms Exponax.Nonlin in
theorem C07_rollout_smooth_every_order_every_term :
    ∀ {term : Nonlin.MC ℂ → Nonlin.MC ℂ} {jvp : Nonlin.MC ℂ → Nonlin.MC ℂ → Nonlin.MC ℂ},
      TermCalc term jvp →
        ∀ (c : Nonlin.Cfg ℂ) (C : ℕ) {n : WithTop ℕ∞} (p : ℕ) (dt : ℂ) (lam : Spec C (Nonlin.modes c)) (Mc : ℕ) (r : ℂ)
          (k : ℕ), ContDiff ℝ n (physStep c C (etdrkStepF p dt lam Mc r (specMap c C C term)))^[k] :=
  @Exponax.DiffTerms.TermCalc.phys_rollout_contDiff

open Exponax.DiffTerms Exponax.Nonlin in
theorem C07_generated_convection_stepper_rollout_smooth :
    ∀ (g : Gen.StepperWiring.GeneralConvectionStepperArgs ℂ) (n : WithTop ℕ∞)
      (k : ℕ),
      ContDiff ℝ n fun x ↦
        res (if g.single_channel = true then 1 else g.num_spatial_dims)
          (Nonlin.modes (Interface.cfgOf g.num_spatial_dims g.num_points g.domain_extent g.dealiasing_fraction))
          ((Interface.GeneralConvectionStepper_step g)^[k]
            (ext (if g.single_channel = true then 1 else g.num_spatial_dims)
              (Nonlin.modes (Interface.cfgOf g.num_spatial_dims g.num_points g.domain_extent g.dealiasing_fraction)) x)) :=
  @Exponax.DiffTerms.GeneralConvectionStepper_rollout_contDiff

open Exponax.DiffTerms Exponax.Nonlin in
theorem C07_linear_jacobian_whole_state :
    ∀ (c : Nonlin.Cfg ℂ) (C : ℕ) (E : ℕ → ℕ → ℂ) (u : Phys C (Nonlin.gridSize c)),
      ∃ L,
        (∀ (v : Phys C (Nonlin.gridSize c)), L v = physMap c C C (linearStepTerm c C E) v) ∧
          HasFDerivAt (physMap c C C (linearStepTerm c C E)) L u ∧ fderiv ℝ (physMap c C C (linearStepTerm c C E)) u = L :=
  @Exponax.DiffTerms.linearStep_phys_jacobian

open Exponax.DiffTerms Exponax.Nonlin in
theorem C07_linear_rollout_jacobian :
    ∀ (c : Nonlin.Cfg ℂ) (C : ℕ) (E : ℕ → ℕ → ℂ) (k : ℕ)
      (u v : Phys C (Nonlin.gridSize c)),
      (fderiv ℝ (physMap c C C (linearStepTerm c C E))^[k] u) v = (physMap c C C (linearStepTerm c C E))^[k] v :=
  @Exponax.DiffTerms.linearStep_phys_rollout_fderiv

open Exponax.DiffTerms Exponax.Nonlin in
theorem C07_derivative_adjoint :
    ∀ (c : Nonlin.Cfg ℂ),
      0 < c.N →
        ∀ (s : ℝ),
          c.s = ↑s →
            ∀ (order d : ℕ) (f g : Fin (Nonlin.gridSize c) → ℝ),
              ip g (derivOp c order d f) = (-1) ^ order * ip (derivOp c order d g) f :=
  @Exponax.DiffTerms.derivativeM_adjoint

open Exponax.DiffTerms Exponax.Nonlin in
theorem C07_linear_step_adjoint :
    ∀ (c : Nonlin.Cfg ℂ),
      0 < c.N →
        ∀ (C : ℕ) (E : ℕ → ℕ → ℂ) (u w : Phys C (Nonlin.gridSize c)),
          ipP w (physMap c C C (linearStepTerm c C E) u) =
            ipP (physMap c C C (linearStepTerm c C fun ch h ↦ (starRingEnd ℂ) (E ch h)) w) u :=
  @Exponax.DiffTerms.linearStep_adjoint

open Exponax.DiffTerms Exponax.Nonlin in
theorem C07_convection_reverse_mode :
    ∀ (c : Nonlin.Cfg ℂ),
      0 < c.N →
        ∀ (s : ℝ),
          c.s = ↑s →
            ∀ (scale : ℂ) (u v : Phys 1 (Nonlin.gridSize c)) (w : Fin (Nonlin.gridSize c) → ℝ),
              ip w ((fderiv ℝ (physMap c 1 1 (Nonlin.convection c 1 scale true false)) u) v 0) =
                ip (convVjp c scale (u 0) w) (v 0) :=
  @Exponax.DiffTerms.convection_vjp


end Exponax
