import ExponaxModel.Proofs.ZeroStateAssembled
/-
C19 (continuation) — the zero state and the zero symbol on the REGENERATED assembled steps.

`Properties/C19.lean` states "the zero state stays zero" for the five stage formulas with arbitrary coefficient arrays and
the model terms.  Here the same clause is tied to the assembled steps `etdrkStep` / `baseStep` / `X_step` of
`Proofs/InterfaceAssembly*.lean`, `Proofs/SmallGaps2Specific.lean`, `Proofs/SmallGaps4Linear.lean` (regenerated linear
operator, regenerated `_build_nonlinear_fun`, regenerated ETDRK coefficients, every order `p : ℕ`), and the clause
"coefficients are finite at λ = 0 exactly" to the regenerated stored coefficients evaluated at the symbol `0`.
Exact complex arithmetic; IEEE semantics are observed by the check, not modelled.
-/
set_option linter.unusedVariables false
namespace Exponax
open Exponax.Interface Exponax.Gen.Etdrk Exponax.Gen.StepperWiring Exponax.Gen.Steppers

/-- **zero state, every order.**  For every order `p : ℕ`, every time step, every symbol array `lam`, every contour
    `(M, r)` (no hypothesis on either: the coefficients may be anything) and every nonlinear map on spectra with
    `N 0 = 0`, the assembled ETDRK step maps the zero spectrum to the zero spectrum, and so does every rollout. -/
theorem C19_zero_state_fixed_by_every_order (p : ℕ) (dt : ℂ) (lam : Spec) (M : ℕ) (r : ℂ) (N : Spec → Spec)
    (hN : N 0 = 0) :
    etdrkStep p dt lam M r N 0 = 0 ∧ ∀ n : ℕ, (etdrkStep p dt lam M r N)^[n] 0 = 0 :=
  ⟨etdrkStep_zero p dt lam M r N hN, etdrkStep_rollout_zero p dt lam M r N hN⟩

/-- the same for `BaseStepper` with ANY class pieces: linear operator arbitrary, nonlinear function zero-preserving on
    the derivative operator `BaseStepper.__init__` hands to `_build_nonlinear_fun` -/
theorem C19_zero_state_fixed_by_base_stepper (b : BaseStepperArgs ℂ) (linop : List ℂ → ℂ)
    (nonlin : Nonlin.Cfg ℂ → Nonlin.MC ℂ → Nonlin.MC ℂ)
    (h : SmallGaps.ZeroPreserving (nonlin (baseCfg b.num_spatial_dims b.num_points b.domain_extent))) (n : ℕ) :
    (baseStep b linop nonlin)^[n] 0 = 0 :=
  baseStep_rollout_zero b linop nonlin h n

/-- **zero state, the regenerated steppers.**  For ALL constructor arguments (every order, `dt`, extent, resolution,
    coefficients, scales, flags, dealiasing fraction, contour) the assembled steps of the convection, gradient-norm,
    general-nonlinear and linear generic steppers, of Burgers, Korteweg–de Vries, both Kuramoto–Sivashinsky forms and of
    the five linear steppers keep the zero state zero over any number of steps: their regenerated nonlinear functions
    map the zero spectrum to the zero spectrum (`*_stepper_nonlinear_fun_eq` + the model terms). -/
theorem C19_zero_state_fixed_by_assembled_steppers (n : ℕ) :
    (∀ g : GeneralConvectionStepperArgs ℂ, (GeneralConvectionStepper_step g)^[n] 0 = 0) ∧
    (∀ g : GeneralGradientNormStepperArgs ℂ, (GeneralGradientNormStepper_step g)^[n] 0 = 0) ∧
    (∀ g : GeneralNonlinearStepperArgs ℂ, (GeneralNonlinearStepper_step g)^[n] 0 = 0) ∧
    (∀ g : GeneralLinearStepperArgs ℂ, (GeneralLinearStepper_step g)^[n] 0 = 0) ∧
    (∀ a : BurgersArgs ℂ, (Burgers_step a)^[n] 0 = 0) ∧
    (∀ a : KortewegDeVriesArgs ℂ, (KortewegDeVries_step a)^[n] 0 = 0) ∧
    (∀ a : KuramotoSivashinskyConservativeArgs ℂ, (KuramotoSivashinskyConservative_step a)^[n] 0 = 0) ∧
    (∀ a : KuramotoSivashinskyArgs ℂ, (KuramotoSivashinsky_step a)^[n] 0 = 0) ∧
    (∀ a : AdvectionArgs ℂ, (Advection_step a)^[n] 0 = 0) ∧
    (∀ a : DiffusionArgs ℂ, (Diffusion_step a)^[n] 0 = 0) ∧
    (∀ a : AdvectionDiffusionArgs ℂ, (AdvectionDiffusion_step a)^[n] 0 = 0) ∧
    (∀ a : DispersionArgs ℂ, (Dispersion_step a)^[n] 0 = 0) ∧
    (∀ a : HyperDiffusionArgs ℂ, (HyperDiffusion_step a)^[n] 0 = 0) :=
  ⟨fun g => Function.iterate_fixed (GeneralConvectionStepper_step_zero g) n,
   fun g => Function.iterate_fixed (GeneralGradientNormStepper_step_zero g) n,
   fun g => Function.iterate_fixed (GeneralNonlinearStepper_step_zero g) n,
   fun g => Function.iterate_fixed (GeneralLinearStepper_step_zero g) n,
   fun a => Function.iterate_fixed (Burgers_step_zero a) n,
   fun a => Function.iterate_fixed (KortewegDeVries_step_zero a) n,
   fun a => Function.iterate_fixed (KuramotoSivashinskyConservative_step_zero a) n,
   fun a => Function.iterate_fixed (KuramotoSivashinsky_step_zero a) n,
   fun a => Function.iterate_fixed (Advection_step_zero a) n,
   fun a => Function.iterate_fixed (Diffusion_step_zero a) n,
   fun a => Function.iterate_fixed (AdvectionDiffusion_step_zero a) n,
   fun a => Function.iterate_fixed (Dispersion_step_zero a) n,
   fun a => Function.iterate_fixed (HyperDiffusion_step_zero a) n⟩

/-- **polynomial family — PARTIAL** (the `←` half of "zero is a fixed point iff the constant coefficient vanishes").
    (i) if `c₀ = polynomial_coefficients[0]` is `0` (or the list is empty) the assembled `GeneralPolynomialStepper` step
    keeps the zero state zero over any rollout; (ii) the nonlinear term evaluated on the zero field is the CONSTANT field
    `c₀` (`polyEval cs 0 = c₀`), which is what a non-zero `c₀` injects; (iii) the converse cannot hold without
    non-degeneracy hypotheses: with `order = 0` the step is the exact linear propagator and fixes zero whatever `c₀`.
    NOT proved: for `1 ≤ order ≤ 4`, `dt ≠ 0`, at least one grid point and a non-vanishing mean-mode coefficient, a
    non-zero `c₀` moves the zero state (needs the forward transform of a constant field through `liftTermND`). -/
theorem C19_polynomial_zero_state_iff_no_constant_term_partial (g : GeneralPolynomialStepperArgs ℂ) :
    (g.polynomial_coefficients.getD 0 0 = 0 → ∀ n : ℕ, (GeneralPolynomialStepper_step g)^[n] 0 = 0) ∧
    Nonlin.polyEval g.polynomial_coefficients (0 : ℂ) = g.polynomial_coefficients.getD 0 0 ∧
    (g.order = 0 → ∀ n : ℕ, (GeneralPolynomialStepper_step g)^[n] 0 = 0) :=
  ⟨fun h0 n => Function.iterate_fixed (GeneralPolynomialStepper_step_zero g h0) n,
   Diff.polyEval_zero _,
   fun ho n => Function.iterate_fixed (GeneralPolynomialStepper_step_zero_of_order0 g ho) n⟩

open Exponax.ContourComplex in
/-- **λ = 0 exactly.**  At a mode whose linear symbol is exactly `0` (the mean mode of every equation without a
    zeroth-order term): the propagators are exactly `1`; for every contour with `r ≠ 0` no node `r ζ_j + 0·dt` is `0`,
    so no closed form is evaluated at its removable singularity (no division by zero); every one of the fourteen stored
    coefficients is within the contour error `|dt| k_i e^R q^M/(1 − q^M)`, `q = |r|/R < 1`, of `dt · φ_i(0)`,
    `φ_i(0) ∈ {1, 1/2, 1/6, 2/3}` (`phiAtZero`); with the code's defaults `M = 16`, `r = 1` within `1.7·10⁻¹² |dt|`. -/
theorem C19_stored_coefficients_at_zero_symbol (dt : ℂ) :
    (∀ (M : ℕ) (r : ℂ), exp_term dt 0 = 1 ∧ E3_half_exp_term dt 0 M r = 1 ∧ E4_half_exp_term dt 0 M r = 1) ∧
    (∀ (M : ℕ) (r : ℂ), r ≠ 0 → ∀ ζ ∈ (roots_of_unity M : List ℂ), r * ζ + 0 * dt ≠ 0) ∧
    (∀ (M : ℕ) (r : ℂ) (R : ℝ), 0 < M → r ≠ 0 → ‖r‖ < R → ∀ i : Fin 14,
      ‖storedCoef dt 0 M r i - dt * phiAtZero i‖
        ≤ ‖dt‖ * (coefWeight i * Real.exp R * (‖r‖ / R) ^ M / (1 - (‖r‖ / R) ^ M))) ∧
    (∀ i : Fin 14, ‖storedCoef dt 0 16 1 i - dt * phiAtZero i‖ ≤ ‖dt‖ * 1.7e-12) ∧
    phiAtZero = ![1, 1, 1 / 2, 1 / 2, 1, 1 / 6, 2 / 3, 1 / 6, 1 / 2, 1 / 2, 1 / 2, 1 / 6, 1 / 6, 1 / 6] :=
  ⟨fun M r => exp_terms_at_zero_symbol dt r M,
   fun M r hr => nodes_ne_zero_at_zero_symbol M r dt hr,
   fun M r R hM hr hrR i => storedCoef_at_zero_symbol dt r M hM hr R hrR i,
   fun i => storedCoef_at_zero_symbol_default dt i,
   rfl⟩

/-- written out for the ETDRK1 / ETDRK2 / ETDRK4 weights at the defaults: `dt`, `dt/2`, `dt/6` up to `1.7·10⁻¹² |dt|` -/
theorem C19_stored_coefficients_at_zero_symbol_explicit (dt : ℂ) :
    ‖E1_coef_1 dt 0 16 1 - dt‖ ≤ ‖dt‖ * 1.7e-12 ∧
    ‖E2_coef_2 dt 0 16 1 - dt / 2‖ ≤ ‖dt‖ * 1.7e-12 ∧
    ‖E4_coef_4 dt 0 16 1 - dt / 6‖ ≤ ‖dt‖ * 1.7e-12 ∧
    ‖E4_coef_5 dt 0 16 1 - dt / 6‖ ≤ ‖dt‖ * 1.7e-12 ∧
    ‖E4_coef_6 dt 0 16 1 - dt / 6‖ ≤ ‖dt‖ * 1.7e-12 := by
  have h0 := storedCoef_at_zero_symbol_default dt 0
  have h2 := storedCoef_at_zero_symbol_default dt 2
  have h11 := storedCoef_at_zero_symbol_default dt 11
  have h12 := storedCoef_at_zero_symbol_default dt 12
  have h13 := storedCoef_at_zero_symbol_default dt 13
  rw [ContourComplex.storedCoef_0] at h0
  rw [ContourComplex.storedCoef_2] at h2
  rw [ContourComplex.storedCoef_11] at h11
  rw [ContourComplex.storedCoef_12] at h12
  rw [ContourComplex.storedCoef_13] at h13
  have e0 : dt * ContourComplex.phiAtZero 0 = dt := by simp [ContourComplex.phiAtZero]
  have e2 : dt * ContourComplex.phiAtZero 2 = dt / 2 := by simp [ContourComplex.phiAtZero]; ring
  have e11 : dt * ContourComplex.phiAtZero 11 = dt / 6 := by simp [ContourComplex.phiAtZero]; ring
  have e12 : dt * ContourComplex.phiAtZero 12 = dt / 6 := by simp [ContourComplex.phiAtZero]; ring
  have e13 : dt * ContourComplex.phiAtZero 13 = dt / 6 := by simp [ContourComplex.phiAtZero]; ring
  rw [e0] at h0; rw [e2] at h2; rw [e11] at h11; rw [e12] at h12; rw [e13] at h13
  exact ⟨h0, h2, h11, h12, h13⟩

/-! non-vacuity: a nonlinear map with `N 0 = 0` that is not zero; a polynomial list without constant term (Fisher–KPP's
`[0, 0, −r]`); a contour satisfying the hypotheses (`M = 16`, `r = 1`, `R = 2`); a non-zero time step -/
example : ∃ N : Spec → Spec, N 0 = 0 ∧ N 1 ≠ 0 := ⟨fun u => u * u, by simp, by simp⟩
example : ([0, 0, -1] : List ℂ).getD 0 0 = 0 := rfl
example : (0 : ℕ) < 16 ∧ (1 : ℂ) ≠ 0 ∧ ‖(1 : ℂ)‖ < (2 : ℝ) := ⟨by norm_num, one_ne_zero, by norm_num⟩
example : ∃ g : GeneralPolynomialStepperArgs ℂ, g.polynomial_coefficients.getD 0 0 = 0 ∧ g.order = 2 :=
  ⟨{ num_spatial_dims := 1, domain_extent := 1, num_points := 8, dt := 1, linear_coefficients := [0, 0, 1],
     polynomial_coefficients := [0, 0, -1], order := 2, dealiasing_fraction := (2, 3), num_circle_points := 16,
     circle_radius := 1 }, rfl, rfl⟩

end Exponax
