import ExponaxModel.Proofs.BaseStepperGenEq
import ExponaxModel.Proofs.DFTBasic
/-
C20 (continued) — "Every correctly shaped state is accepted and returns the same shape", on the REGENERATED
`Gen.Base.BaseStepper_call` (guard of `__call__`, then `step` = `ifft ∘ step_fourier ∘ fft`):

* whenever `__call__` returns a value `v`, the argument had the configured shape `(C,) + (N,)*D` AND `v` has that very shape:
  `C` channels of `N^D` grid values each — whatever `step_fourier` does (no hypothesis on it: the inverse transform of the
  regenerated `ifft` is asked for `num_points` output points per axis and for `num_channels` channels);
* a state of the configured shape is accepted: `__call__` returns a value as soon as `step_fourier` does on the transformed state
  (for the ETDRK integrators of order ≤ 4 it always does: `BaseStepperGenEq.BaseStepper_step_fourier_isSome_iff`).
-/
set_option linter.unusedVariables false
namespace Exponax
open Exponax.Layout Exponax.Transform Exponax.Nonlin Exponax.Gen.StepperWiring Exponax.Gen.Base Exponax.BaseStepperGenEq

/-- a returned state has exactly the configured shape (and the argument had it too) -/
theorem C20_base_call_returns_the_configured_shape (a : BaseStepperArgs ℂ) (hD : 1 ≤ a.num_spatial_dims)
    (sf : MC ℂ → Option (MC ℂ)) (shape : List ℕ) (u v : MC ℂ) (h : BaseStepper_call a sf shape u = some v) :
    shape = a.num_channels :: List.replicate a.num_spatial_dims a.num_points ∧
    v.size = a.num_channels ∧
    ∀ ch < a.num_channels, (v.getD ch #[]).size = a.num_points ^ a.num_spatial_dims := by
  rw [BaseStepper_call_eq] at h
  split at h
  · rename_i hs
    rw [BaseStepper_step_eq a hD] at h
    obtain ⟨w, hw, rfl⟩ := Option.map_eq_some_iff.mp h
    refine ⟨hs, ?_, fun ch hch => ?_⟩
    · exact Exponax.DFT.tab_size _ _
    · have : (tabC a.num_channels
          (fun i => irfftnM a.num_spatial_dims a.num_points (w.getD i #[]))).getD ch #[]
          = irfftnM a.num_spatial_dims a.num_points (w.getD ch #[]) :=
        Exponax.DFT.tab_getD _ _ _ _ hch
      rw [this]
      exact Exponax.DFT.irfftnM_size _ _ _
  · exact absurd h (by simp)

/-- the configured shape is accepted: the only way `__call__` can fail on it is `step_fourier` failing -/
theorem C20_base_call_accepts_the_configured_shape (a : BaseStepperArgs ℂ) (hD : 1 ≤ a.num_spatial_dims)
    (sf : MC ℂ → Option (MC ℂ)) (u : MC ℂ)
    (hsf : (sf (tabC a.num_channels (fun i => rfftnM a.num_spatial_dims a.num_points (u.getD i #[])))).isSome = true) :
    ∃ v, BaseStepper_call a sf (a.num_channels :: List.replicate a.num_spatial_dims a.num_points) u = some v ∧
      v.size = a.num_channels ∧
      ∀ ch < a.num_channels, (v.getD ch #[]).size = a.num_points ^ a.num_spatial_dims := by
  obtain ⟨w, hw⟩ := Option.isSome_iff_exists.mp hsf
  have hc : BaseStepper_call a sf (a.num_channels :: List.replicate a.num_spatial_dims a.num_points) u
      = some (tabC a.num_channels (fun i => irfftnM a.num_spatial_dims a.num_points (w.getD i #[]))) := by
    rw [BaseStepper_call_eq, if_pos rfl, BaseStepper_step_eq a hD, hw]; rfl
  exact ⟨_, hc, (C20_base_call_returns_the_configured_shape a hD sf _ u _ hc).2⟩

/-! ### non-vacuity: a 2-channel 1-D stepper with 4 points and the identity as `step_fourier` -/
example : ∃ (a : BaseStepperArgs ℂ) (sf : MC ℂ → Option (MC ℂ)) (u v : MC ℂ),
    1 ≤ a.num_spatial_dims ∧ BaseStepper_call a sf [2, 4] u = some v := by
  let a : BaseStepperArgs ℂ :=
    { num_spatial_dims := 1, domain_extent := 1, num_points := 4, dt := 1, num_channels := 2, order := 2,
      num_circle_points := 16, circle_radius := 1 }
  obtain ⟨v, hv, -⟩ := C20_base_call_accepts_the_configured_shape a (le_refl 1) some #[] rfl
  exact ⟨a, some, #[], v, le_refl 1, hv⟩

end Exponax
