import ExponaxModel.Proofs.ListLemmas
import ExponaxModel.Generated.Convert
import ExponaxModel.Generated.Etdrk
import ExponaxModel.Proofs.StepperSymbols
/-
C13 — specific / generic / normalized / difficulty interfaces give the same dynamics.

The conversion functions are the definitions regenerated from
`exponax/stepper/generic/_utils.py`; the scaling covariance is proved on the
regenerated ETDRK definitions.
-/
set_option linter.unusedVariables false
namespace Exponax
open Exponax.Gen.Convert Exponax.Gen.Etdrk

variable {K : Type} [Field K]

/-! ### documented formulas -/

/-- α_j = a_j · dt / L^j -/
theorem C13_normalize_coefficients_formula (cs : List K) (L dt : K) :
    normalize_coefficients cs L dt = cs.mapIdx (fun j a => a * dt / L ^ j) := by
  simp only [normalize_coefficients, npow_eq]
  exact zipIdx_map_eq_mapIdx (fun j a => a * dt / L ^ j) cs

/-- a_j = α_j / dt · L^j -/
theorem C13_denormalize_coefficients_formula (cs : List K) (L dt : K) :
    denormalize_coefficients cs L dt = cs.mapIdx (fun j a => a / dt * L ^ j) := by
  simp only [denormalize_coefficients, npow_eq]
  exact zipIdx_map_eq_mapIdx (fun j a => a / dt * L ^ j) cs

theorem C13_convection_scale_formula (b L dt : K) :
    normalize_convection_scale b L dt = b * dt / L ∧ denormalize_convection_scale b L dt = b / dt * L :=
  ⟨rfl, rfl⟩

theorem C13_gradient_norm_scale_formula (b L dt : K) :
    normalize_gradient_norm_scale b L dt = b * dt / L ^ 2 ∧
    denormalize_gradient_norm_scale b L dt = b / dt * L ^ 2 := by
  simp [normalize_gradient_norm_scale, denormalize_gradient_norm_scale]

theorem C13_polynomial_scales_formula (cs : List K) (L dt : K) :
    normalize_polynomial_scales cs L dt = cs.map (· * dt) ∧
    denormalize_polynomial_scales cs L dt = cs.map (· / dt) := ⟨rfl, rfl⟩

/-- γ₀ = α₀, γ_j = α_j · N^j · 2^{j−1} · D -/
theorem C13_difficulty_coefficients_formula (cs : List K) (D N : ℕ) :
    reduce_normalized_coefficients_to_difficulty cs D N
      = cs.mapIdx (fun j a => if j = 0 then a else a * (N : K) ^ j * 2 ^ (j - 1) * (D : K)) := by
  simp only [reduce_normalized_coefficients_to_difficulty]
  apply List.ext_getElem
  · simp
  · intro i h1 h2
    simp only [List.length_set, List.length_map, List.length_zip, List.length_range, min_self] at h1
    rw [List.getElem_set]
    rcases Nat.eq_zero_or_pos i with h | h
    · subst h
      simp [List.getD_eq_getElem?_getD, List.getElem?_eq_getElem h1]
    · have hne : ¬ (0 = i) := by omega
      have hne' : ¬ (i = 0) := by omega
      simp only [hne, if_false, List.getElem_map, List.getElem_zip, List.getElem_range, List.getElem_mapIdx, hne']
      rw [zpowK_eq]
      have : ((i : ℤ) - 1) = ((i - 1 : ℕ) : ℤ) := by omega
      rw [this, zpow_natCast]
      simp

/-- α₀ = γ₀, α_j = γ_j / (N^j · 2^{j−1} · D) -/
theorem C13_extract_coefficients_formula (cs : List K) (D N : ℕ) :
    extract_normalized_coefficients_from_difficulty cs D N
      = cs.mapIdx (fun j g => if j = 0 then g else g / ((N : K) ^ j * 2 ^ (j - 1) * (D : K))) := by
  simp only [extract_normalized_coefficients_from_difficulty]
  apply List.ext_getElem
  · simp
  · intro i h1 h2
    simp only [List.length_set, List.length_map, List.length_zip, List.length_range, min_self] at h1
    rw [List.getElem_set]
    rcases Nat.eq_zero_or_pos i with h | h
    · subst h
      simp [List.getD_eq_getElem?_getD, List.getElem?_eq_getElem h1]
    · have hne : ¬ (0 = i) := by omega
      have hne' : ¬ (i = 0) := by omega
      simp only [hne, if_false, List.getElem_map, List.getElem_zip, List.getElem_range, List.getElem_mapIdx, hne']
      rw [zpowK_eq]
      have : ((i : ℤ) - 1) = ((i - 1 : ℕ) : ℤ) := by omega
      rw [this, zpow_natCast]
      simp

/-- δ = β · M · N · D (convection), δ = β · M · N² · D (gradient norm) -/
theorem C13_difficulty_scales_formula (b M : K) (D N : ℕ) :
    reduce_normalized_convection_scale_to_difficulty b D N M = b * M * N * D ∧
    extract_normalized_convection_scale_from_difficulty b D N M = b / (M * N * D) ∧
    reduce_normalized_gradient_norm_scale_to_difficulty b D N M = b * M * (N : K) ^ 2 * D ∧
    extract_normalized_gradient_norm_scale_from_difficulty b D N M = b / (M * (N : K) ^ 2 * D) := by
  simp [reduce_normalized_convection_scale_to_difficulty, extract_normalized_convection_scale_from_difficulty,
    reduce_normalized_gradient_norm_scale_to_difficulty, extract_normalized_gradient_norm_scale_from_difficulty]

/-! ### the conversions are mutual inverses -/

theorem C13_coefficients_inverse (cs : List K) (L dt : K) (hL : L ≠ 0) (hdt : dt ≠ 0) :
    denormalize_coefficients (normalize_coefficients cs L dt) L dt = cs ∧
    normalize_coefficients (denormalize_coefficients cs L dt) L dt = cs := by
  rw [C13_normalize_coefficients_formula, C13_denormalize_coefficients_formula,
    C13_normalize_coefficients_formula, C13_denormalize_coefficients_formula]
  constructor <;>
  · apply List.ext_getElem
    · simp
    · intro i h1 h2
      simp
      field_simp

theorem C13_convection_scale_inverse (b L dt : K) (hL : L ≠ 0) (hdt : dt ≠ 0) :
    denormalize_convection_scale (normalize_convection_scale b L dt) L dt = b ∧
    normalize_convection_scale (denormalize_convection_scale b L dt) L dt = b := by
  simp only [normalize_convection_scale, denormalize_convection_scale]
  constructor <;> field_simp

theorem C13_gradient_norm_scale_inverse (b L dt : K) (hL : L ≠ 0) (hdt : dt ≠ 0) :
    denormalize_gradient_norm_scale (normalize_gradient_norm_scale b L dt) L dt = b ∧
    normalize_gradient_norm_scale (denormalize_gradient_norm_scale b L dt) L dt = b := by
  simp only [normalize_gradient_norm_scale, denormalize_gradient_norm_scale, npow_eq]
  constructor <;> field_simp

theorem C13_polynomial_scales_inverse (cs : List K) (L dt : K) (hdt : dt ≠ 0) :
    denormalize_polynomial_scales (normalize_polynomial_scales cs L dt) L dt = cs ∧
    normalize_polynomial_scales (denormalize_polynomial_scales cs L dt) L dt = cs := by
  simp only [normalize_polynomial_scales, denormalize_polynomial_scales, List.map_map]
  constructor <;>
  · conv_rhs => rw [← List.map_id cs]
    apply List.map_congr_left
    intro a _
    simp [Function.comp]
    field_simp

theorem C13_difficulty_coefficients_inverse (cs : List K) (D N : ℕ) (hD : (D : K) ≠ 0) (hN : (N : K) ≠ 0)
    (h2 : (2 : K) ≠ 0) :
    extract_normalized_coefficients_from_difficulty (reduce_normalized_coefficients_to_difficulty cs D N) D N = cs ∧
    reduce_normalized_coefficients_to_difficulty (extract_normalized_coefficients_from_difficulty cs D N) D N = cs := by
  rw [C13_difficulty_coefficients_formula, C13_extract_coefficients_formula,
    C13_difficulty_coefficients_formula, C13_extract_coefficients_formula]
  constructor <;>
  · apply List.ext_getElem
    · simp
    · intro i h1 h2
      simp only [List.getElem_mapIdx]
      split_ifs
      · rfl
      · field_simp

theorem C13_difficulty_scales_inverse (b M : K) (D N : ℕ) (hD : (D : K) ≠ 0) (hN : (N : K) ≠ 0) (hM : M ≠ 0) :
    extract_normalized_convection_scale_from_difficulty
      (reduce_normalized_convection_scale_to_difficulty b D N M) D N M = b ∧
    reduce_normalized_convection_scale_to_difficulty
      (extract_normalized_convection_scale_from_difficulty b D N M) D N M = b ∧
    extract_normalized_gradient_norm_scale_from_difficulty
      (reduce_normalized_gradient_norm_scale_to_difficulty b D N M) D N M = b ∧
    reduce_normalized_gradient_norm_scale_to_difficulty
      (extract_normalized_gradient_norm_scale_from_difficulty b D N M) D N M = b := by
  simp only [reduce_normalized_convection_scale_to_difficulty, extract_normalized_convection_scale_from_difficulty,
    reduce_normalized_gradient_norm_scale_to_difficulty, extract_normalized_gradient_norm_scale_from_difficulty, lit_eq]
  push_cast
  refine ⟨?_, ?_, ?_, ?_⟩ <;> field_simp

theorem C13_nonlinear_scales_inverse (s : K × K × K) (M : K) (D N : ℕ) (hD : (D : K) ≠ 0) (hN : (N : K) ≠ 0)
    (hM : M ≠ 0) :
    extract_normalized_nonlinear_scales_from_difficulty
      (reduce_normalized_nonlinear_scales_to_difficulty s D N M) D N M = s ∧
    reduce_normalized_nonlinear_scales_to_difficulty
      (extract_normalized_nonlinear_scales_from_difficulty s D N M) D N M = s := by
  obtain ⟨a, b, c⟩ := s
  have h := C13_difficulty_scales_inverse b M D N hD hN hM
  have h' := C13_difficulty_scales_inverse c M D N hD hN hM
  simp only [extract_normalized_nonlinear_scales_from_difficulty, reduce_normalized_nonlinear_scales_to_difficulty]
  exact ⟨by rw [h.1, h'.2.2.1], by rw [h.2.1, h'.2.2.2]⟩

/-! ### only the non-dimensional groups matter: scaling covariance of the regenerated ETDRK code -/

/-- `_exp_term(dt, λ) = _exp_term(1, dt·λ)`: the propagator depends on `dt·λ` only -/
theorem C13_exp_term_scaling (dt lam : ℂ) : exp_term dt lam = exp_term 1 (dt * lam) := by
  simp [exp_term]

/-- each coefficient is `dt ×` the coefficient of the normalised problem (`dt = 1`, symbol `dt·λ`) -/
theorem C13_coef_scaling (dt lam r : ℂ) (M : ℕ) :
    E1_coef_1 dt lam M r = dt * E1_coef_1 1 (lam * dt) M r ∧
    E2_coef_1 dt lam M r = dt * E2_coef_1 1 (lam * dt) M r ∧
    E2_coef_2 dt lam M r = dt * E2_coef_2 1 (lam * dt) M r ∧
    E4_coef_1 dt lam M r = dt * E4_coef_1 1 (lam * dt) M r ∧
    E4_coef_4 dt lam M r = dt * E4_coef_4 1 (lam * dt) M r ∧
    E4_coef_5 dt lam M r = dt * E4_coef_5 1 (lam * dt) M r ∧
    E4_coef_6 dt lam M r = dt * E4_coef_6 1 (lam * dt) M r := by
  simp [E1_coef_1, E2_coef_1, E2_coef_2, E4_coef_1, E4_coef_4, E4_coef_5, E4_coef_6]

/-- a step with coefficients `dt·c` and nonlinearity `N` equals the step with coefficients `c`
    and nonlinearity `dt·N` — together with the two lemmas above: `step(dt, λ, N) = step(1, dtλ, dt·N)` -/
theorem C13_step_scaling {V : Type} [CommRing V] (dt E Eh c1 c2 c3 c4 c5 c6 : V) (N : V → V) (u : V) :
    E1step E (dt * c1) N u = E1step E c1 (fun v => dt * N v) u ∧
    E2step E (dt * c1) (dt * c2) N u = E2step E c1 c2 (fun v => dt * N v) u ∧
    E3step E Eh (dt * c1) (dt * c2) (dt * c3) (dt * c4) (dt * c5) N u
      = E3step E Eh c1 c2 c3 c4 c5 (fun v => dt * N v) u ∧
    E4step E Eh (dt * c1) (dt * c2) (dt * c3) (dt * c4) (dt * c5) (dt * c6) N u
      = E4step E Eh c1 c2 c3 c4 c5 c6 (fun v => dt * N v) u := by
  have e1 : ∀ a b : V, dt * a * b = a * (dt * b) := fun a b => by ring
  refine ⟨?_, ?_, ?_, ?_⟩
  · simp only [E1step, e1]
  · simp only [E2step, e1, ← mul_sub]
  · simp only [E3step, e1, lit_eq]
    have e2 : ∀ a b : V, (2 : V) * (dt * a) - dt * b = dt * (2 * a - b) := fun a b => by ring
    simp only [Nat.cast_ofNat, e2]
  · simp only [E4step, e1, lit_eq]
    have e2 : ∀ a b : V, (2 : V) * (dt * a) - dt * b = dt * (2 * a - b) := fun a b => by ring
    have e3 : ∀ a b : V, dt * a + dt * b = dt * (a + b) := fun a b => by ring
    simp only [Nat.cast_ofNat, e2, e3]
    ring

/-- symbol side of the normalisation: `dt · a·(s/L·κ)^j = (a·dt/L^j)·(s·κ)^j` -/
theorem C13_symbol_term_scaling (a dt L s κ : K) (j : ℕ) (hL : L ≠ 0) :
    dt * (a * (s / L * κ) ^ j) = (a * dt / L ^ j) * (s * κ) ^ j := by
  rw [div_mul_eq_mul_div, div_pow]
  field_simp

/-! ### non-vacuity -/
/-! ### one linear symbol for the whole generic family, regenerated from the six `_build_linear_operator` sources; the
Normalized… / Difficulty… classes inherit it (they only convert their arguments) -/
open Exponax.Gen.Steppers Exponax.Nonlin in
theorem C13_generated_family_symbol (c : Cfg ℂ) (h : ℕ) (a : List ℂ) :
    GeneralLinearStepper_linear_operator (kappa c h) a = polySymbol c (generalLinear c.D a) h ∧
    GeneralConvectionStepper_linear_operator (kappa c h) a = polySymbol c (generalLinear c.D a) h ∧
    GeneralGradientNormStepper_linear_operator (kappa c h) a = polySymbol c (generalLinear c.D a) h ∧
    GeneralPolynomialStepper_linear_operator (kappa c h) a = polySymbol c (generalLinear c.D a) h ∧
    GeneralNonlinearStepper_linear_operator (kappa c h) a = polySymbol c (generalLinear c.D a) h ∧
    GeneralVorticityConvectionStepper_linear_operator (kappa c h) a = polySymbol c (generalLinear c.D a) h :=
  ⟨GeneralLinearStepper_linear_operator_polySymbol c h a, GeneralConvectionStepper_linear_operator_polySymbol c h a,
   GeneralGradientNormStepper_linear_operator_polySymbol c h a, GeneralPolynomialStepper_linear_operator_polySymbol c h a,
   GeneralNonlinearStepper_linear_operator_polySymbol c h a,
   GeneralVorticityConvectionStepper_linear_operator_polySymbol c h a⟩

theorem C13_generated_inheritance : Gen.Steppers.inherited_classes =
    [("DifficultyConvectionStepper", "GeneralConvectionStepper"),
     ("DifficultyGradientNormStepper", "GeneralGradientNormStepper"),
     ("DifficultyLinearStepper", "GeneralLinearStepper"),
     ("DifficultyLinearStepperSimple", "GeneralLinearStepper"),
     ("DifficultyNonlinearStepper", "GeneralNonlinearStepper"),
     ("DifficultyPolynomialStepper", "GeneralPolynomialStepper"),
     ("NormalizedConvectionStepper", "GeneralConvectionStepper"),
     ("NormalizedGradientNormStepper", "GeneralGradientNormStepper"),
     ("NormalizedLinearStepper", "GeneralLinearStepper"),
     ("NormalizedNonlinearStepper", "GeneralNonlinearStepper"),
     ("NormalizedPolynomialStepper", "GeneralPolynomialStepper")] := coverage_inherited

/-- the specific steppers of the overview against their generic equivalents, on the regenerated symbols:
    Burgers = general(0, 0, ν), KS = general(0, 0, −a, 0, −b), Fisher-KPP's linear part = general(r/D, 0, ν) -/
theorem C13_generated_specific_vs_generic (c : Nonlin.Cfg ℂ) (h : ℕ) (ν a b : ℂ) :
    Gen.Steppers.Burgers_linear_operator (Exponax.kappa c h) ν
      = Gen.Steppers.GeneralLinearStepper_linear_operator (Exponax.kappa c h) [0, 0, ν] ∧
    Gen.Steppers.KuramotoSivashinsky_linear_operator (Exponax.kappa c h) a b
      = Gen.Steppers.GeneralLinearStepper_linear_operator (Exponax.kappa c h) [0, 0, -a, 0, -b] := by
  constructor
  · rw [Burgers_linear_operator_eq, GeneralLinearStepper_linear_operator_eq]
    simp [Finset.sum_range_succ]
  · rw [KuramotoSivashinsky_linear_operator_eq, GeneralLinearStepper_linear_operator_eq]
    simp [Finset.sum_range_succ]; ring

example : ((3 : ℕ) : ℚ) ≠ 0 ∧ ((16 : ℕ) : ℚ) ≠ 0 ∧ (2 : ℚ) ≠ 0 := by norm_num
example : normalize_coefficients [(1 : ℚ), 2, 3] 2 (1 / 2) = [1 / 2, 1 / 2, 3 / 8] := by
  rw [C13_normalize_coefficients_formula]; norm_num [List.mapIdx_cons]

end Exponax
