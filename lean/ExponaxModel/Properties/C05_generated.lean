import ExponaxModel.Properties.C05
import ExponaxModel.Proofs.StepperSymbols
import ExponaxModel.Proofs.SpectralOpsBasic
/-
C05 (continued) — "the Laplace and gradient-inner-product operators equal their analytic symbols", for the REGENERATED
`Gen.Steppers.laplace_op` / `Gen.Steppers.grad_inner` (translations of `build_laplace_operator` /
`build_gradient_inner_product_operator` in exponax/_spectral.py; Generated/Steppers.lean), evaluated at
κ = the derivative-operator column of a stored mode h:

* κ = `kappa c h` = `(i s k_d(h))_d`, the model's derivative symbols (`C05_derivative_symbol`), and
* κ = the column of the REGENERATED `build_derivative_operator` array (`Gen.SpectralOps.derivative_operator_entry`, default
  "ij" indexing) for a real domain extent `L` (`s = 2π/L`),

are tied to the analytic symbols of `C05_laplace_symbol` / `C05_gradinner_symbol`:
`(−1)^n s^{2n} Σ_d k_d^{2n}` (real) and `i (−1)^n s^{2n+1} Σ_d v_d k_d^{2n+1}` (purely imaginary).  A change of the regenerated
operator builders (a dropped power, a wrong contraction) breaks these theorems, not only the hand-written model's.
-/
set_option linter.unusedVariables false
namespace Exponax
open Exponax.Layout Exponax.Nonlin Exponax.Operator Exponax.Gen.Steppers

/-- regenerated `build_laplace_operator(order = 2n)`, n ≥ 1, on the derivative column of mode h:
    `(−1)^n s^{2n} Σ_d k_d^{2n}` -/
theorem C05_generated_laplace_operator_symbol (c : Cfg ℂ) (s : ℝ) (hs : c.s = (s : ℂ)) (h n : ℕ) (hn : 1 ≤ n) :
    laplace_op (kappa c h) (2 * n) =
      (((-1) ^ n * s ^ (2 * n) * ∑ d ∈ Finset.range c.D, (wnAt c d h : ℝ) ^ (2 * n) : ℝ) : ℂ) := by
  rw [laplace_op_kappa]
  exact C05_laplace_symbol c s hs h n hn

/-- regenerated `build_gradient_inner_product_operator(velocity = v, order = 2n+1)` on the derivative column of mode h, real
    velocity of the guarded shape `(D,)`: `i (−1)^n s^{2n+1} Σ_d v_d k_d^{2n+1}` -/
theorem C05_generated_gradient_inner_product_symbol (c : Cfg ℂ) (s : ℝ) (hs : c.s = (s : ℂ)) (h n : ℕ) (v : List ℝ)
    (hv : v.length = c.D) :
    grad_inner (kappa c h) (ofRealL v) (2 * n + 1) =
      Complex.I * (((-1) ^ n * s ^ (2 * n + 1) *
        ∑ d ∈ Finset.range c.D, v.getD d 0 * (wnAt c d h : ℝ) ^ (2 * n + 1) : ℝ) : ℂ) := by
  rw [grad_inner_eq _ _ _ (by simp [hv]), ← C05_gradinner_symbol c s hs h n (fun d => v.getD d 0)]
  unfold vdot
  rw [kappa_length]
  apply Finset.sum_congr rfl
  intro d hd
  rw [kappa_getD c h d (Finset.mem_range.mp hd)]
  have := congrFun (vfun_ofRealL v) d
  simp only [vfun] at this
  rw [this]

/-! ### the same with the column of the REGENERATED derivative-operator array -/

open Exponax.SpectralOpsEq Exponax.Gen.SpectralOps in
/-- the column of the regenerated `build_derivative_operator(D, L, N)` at mode h is `kappa` of the model configuration -/
theorem C05_generated_derivative_column (D N : ℕ) (hD : 1 ≤ D) (hN : 0 < N) (L : ℂ) (h : ℕ) :
    List.map (fun k => derivative_operator_entry D L N "ij" k h) (List.range D) = kappa (cfg D N L) h :=
  map_derivative_operator_entry D N hD hN L h

open Exponax.SpectralOpsEq Exponax.Gen.SpectralOps in
/-- regenerated Laplace builder on the regenerated derivative operator, real domain extent `L`, `s = 2π/L` -/
theorem C05_generated_laplace_operator_symbol_on_generated_derivative (D N : ℕ) (hD : 1 ≤ D) (hN : 0 < N) (L : ℝ)
    (h n : ℕ) (hn : 1 ≤ n) :
    laplace_op (List.map (fun k => derivative_operator_entry D (L : ℂ) N "ij" k h) (List.range D)) (2 * n) =
      (((-1) ^ n * (2 * Real.pi / L) ^ (2 * n) *
        ∑ d ∈ Finset.range D, (wnAt (cfg D N (L : ℂ)) d h : ℝ) ^ (2 * n) : ℝ) : ℂ) := by
  rw [C05_generated_derivative_column D N hD hN]
  exact C05_generated_laplace_operator_symbol (cfg D N (L : ℂ)) (2 * Real.pi / L)
    (by rw [cfg_s]; push_cast; ring) h n hn

open Exponax.SpectralOpsEq Exponax.Gen.SpectralOps in
/-- regenerated gradient-inner-product builder on the regenerated derivative operator -/
theorem C05_generated_gradient_inner_product_symbol_on_generated_derivative (D N : ℕ) (hD : 1 ≤ D) (hN : 0 < N) (L : ℝ)
    (h n : ℕ) (v : List ℝ) (hv : v.length = D) :
    grad_inner (List.map (fun k => derivative_operator_entry D (L : ℂ) N "ij" k h) (List.range D)) (ofRealL v)
        (2 * n + 1) =
      Complex.I * (((-1) ^ n * (2 * Real.pi / L) ^ (2 * n + 1) *
        ∑ d ∈ Finset.range D, v.getD d 0 * (wnAt (cfg D N (L : ℂ)) d h : ℝ) ^ (2 * n + 1) : ℝ) : ℂ) := by
  rw [C05_generated_derivative_column D N hD hN]
  exact C05_generated_gradient_inner_product_symbol (cfg D N (L : ℂ)) (2 * Real.pi / L)
    (by rw [cfg_s]; push_cast; ring) h n v hv

/-! ### non-vacuity: 2-D, 8 points, L = 2π (s = 1), velocity (1, −2) -/
open Exponax.SpectralOpsEq in
example : (cfg 2 8 ((2 * Real.pi : ℝ) : ℂ)).s = ((1 : ℝ) : ℂ) ∧ ([1, -2] : List ℝ).length = (cfg 2 8 ((2 * Real.pi : ℝ) : ℂ)).D ∧
    (1 : ℕ) ≤ 1 := by
  refine ⟨?_, rfl, le_refl 1⟩
  rw [cfg_s]
  have : (Real.pi : ℂ) ≠ 0 := by exact_mod_cast Real.pi_ne_zero
  push_cast
  field_simp

end Exponax
