import ExponaxModel.Proofs.EquivarianceAssembled
/-
C08 (continuation) — "stepping a state translated by whole grid cells gives the translated result for every autonomous
stepper and every state … every ETDRK order", for the ASSEMBLED, REGENERATED whole step.

`C08_translation_nd` / `C08_convection_translation_nd` (Properties/C08.lean) are stated for the ETDRK4 stage formulas with
abstract coefficient arrays.  Here the statement is made for the step the library actually assembles
(`Interface.X_step = baseStep`: regenerated `BaseStepper.__init__` + `step_fourier`, the class's regenerated
`_build_linear_operator` and `__init__ → _build_nonlinear_fun` wiring, the regenerated ETDRK coefficients — contour means with
the user's `num_circle_points`, `circle_radius` — and stage formulas of the REQUESTED order), for every order (0–4; for any other
`order` the model's `etdrkStep` is the identity, so no hypothesis on the order is needed), every dimension `D`, every grid
`N ≥ 1`, every integer shift vector `s` (entries beyond `D` are ignored, missing ones are `0`), every number of steps `n`, and
every multi-channel state `u : MC ℂ` — real or complex, any channel count (so in particular every real state).

  physCh D N v ch  = irfftn of channel `ch` of the spectral state `v`,      specMC D N u = rfftn of every channel of `u`,
  rollMC D N s u   = every channel rolled by `s`,                           rollND D N x s = the array `x` rolled by `s`.
-/
set_option linter.unusedVariables false
namespace Exponax
open Exponax.Nonlin Exponax.Interface Exponax.EquivND Exponax.EquivAssembled Exponax.SymmetryND
open Exponax.Gen.StepperWiring

/-- **GeneralConvectionStepper, whole regenerated step, every order, physical space.**
    `irfftn(step^n(rfftn(roll_s u))) = roll_s(irfftn(step^n(rfftn u)))` for every channel. -/
theorem C08_general_convection_stepper_commutes_with_translations (g : GeneralConvectionStepperArgs ℂ)
    (hN : 0 < g.num_points) (s : List ℤ) (n : ℕ) (u : MC ℂ) (ch : ℕ) :
    physCh g.num_spatial_dims g.num_points
        ((GeneralConvectionStepper_step g)^[n]
          (specMC g.num_spatial_dims g.num_points (rollMC g.num_spatial_dims g.num_points s u))) ch
      = rollND g.num_spatial_dims g.num_points
          (physCh g.num_spatial_dims g.num_points
            ((GeneralConvectionStepper_step g)^[n] (specMC g.num_spatial_dims g.num_points u)) ch) s :=
  GeneralConvectionStepper_physical_translation g hN s n u ch

/-- Fourier-space form: the whole regenerated step commutes with the multiplication of every stored mode of every channel by
    the shift phase `exp(−2πi k·s/N)`, for ANY spectral state (Hermitian or not) -/
theorem C08_general_convection_stepper_commutes_with_shift_phases (g : GeneralConvectionStepperArgs ℂ)
    (hN : 0 < g.num_points) (s : List ℤ) (u : ℕ → ℕ → ℂ) :
    GeneralConvectionStepper_step g (phaseMC g.num_spatial_dims g.num_points s * u)
      = phaseMC g.num_spatial_dims g.num_points s * GeneralConvectionStepper_step g u :=
  GeneralConvectionStepper_step_translation g hN s u

/-- the engine: one assembled ETDRK step of ANY order `p : ℕ`, coefficient arrays computed from ANY symbol array `lam`
    (diagonal symbols commute with shifts), ANY translation-equivariant term -/
theorem C08_assembled_etdrk_step_commutes_with_shift_phases (c : Cfg ℂ) (s : List ℤ) (C : ℕ) (T : MC ℂ → MC ℂ)
    (hT : TermEquivariant c s T) (p : ℕ) (dt : ℂ) (lam : ℕ → ℕ → ℂ) (M : ℕ) (r : ℂ) (u : ℕ → ℕ → ℂ) :
    etdrkStep p dt lam M r (liftTermND c C T) (phaseMC c.D c.N s * u)
      = phaseMC c.D c.N s * etdrkStep p dt lam M r (liftTermND c C T) u :=
  etdrkStep_translation_nd c s C T hT p dt lam M r u

/-- **Burgers**, whole regenerated step, every order and flag -/
theorem C08_burgers_commutes_with_translations (a : BurgersArgs ℂ) (hN : 0 < a.num_points) (s : List ℤ) (n : ℕ)
    (u : MC ℂ) (ch : ℕ) :
    physCh a.num_spatial_dims a.num_points
        ((Burgers_step a)^[n] (specMC a.num_spatial_dims a.num_points (rollMC a.num_spatial_dims a.num_points s u))) ch
      = rollND a.num_spatial_dims a.num_points
          (physCh a.num_spatial_dims a.num_points
            ((Burgers_step a)^[n] (specMC a.num_spatial_dims a.num_points u)) ch) s :=
  Burgers_physical_translation a hN s n u ch

/-- **Korteweg–de Vries**, whole regenerated step, every order, EVERY combination of the mixing flags, every `D` -/
theorem C08_kdv_commutes_with_translations (a : KortewegDeVriesArgs ℂ) (hN : 0 < a.num_points) (s : List ℤ) (n : ℕ)
    (u : MC ℂ) (ch : ℕ) :
    physCh a.num_spatial_dims a.num_points
        ((KortewegDeVries_step a)^[n]
          (specMC a.num_spatial_dims a.num_points (rollMC a.num_spatial_dims a.num_points s u))) ch
      = rollND a.num_spatial_dims a.num_points
          (physCh a.num_spatial_dims a.num_points
            ((KortewegDeVries_step a)^[n] (specMC a.num_spatial_dims a.num_points u)) ch) s :=
  KortewegDeVries_physical_translation a hN s n u ch

/-- **Kuramoto–Sivashinsky (conservative form)**, whole regenerated step, every order -/
theorem C08_ks_conservative_commutes_with_translations (a : KuramotoSivashinskyConservativeArgs ℂ)
    (hN : 0 < a.num_points) (s : List ℤ) (n : ℕ) (u : MC ℂ) (ch : ℕ) :
    physCh a.num_spatial_dims a.num_points
        ((KuramotoSivashinskyConservative_step a)^[n]
          (specMC a.num_spatial_dims a.num_points (rollMC a.num_spatial_dims a.num_points s u))) ch
      = rollND a.num_spatial_dims a.num_points
          (physCh a.num_spatial_dims a.num_points
            ((KuramotoSivashinskyConservative_step a)^[n] (specMC a.num_spatial_dims a.num_points u)) ch) s :=
  KuramotoSivashinskyConservative_physical_translation a hN s n u ch

/-- what "commutes with translations" means for a step map on `D`-dimensional `N`-point grids (the statement of the
    theorems above, for a generic step) -/
theorem C08_physically_equivariant_iff (D N : ℕ) (step : (ℕ → ℕ → ℂ) → (ℕ → ℕ → ℂ)) :
    PhysicallyEquivariant D N step ↔
      ∀ (s : List ℤ) (n : ℕ) (u : MC ℂ) (ch : ℕ),
        physCh D N (step^[n] (specMC D N (rollMC D N s u))) ch
          = rollND D N (physCh D N (step^[n] (specMC D N u)) ch) s :=
  Iff.rfl

/-- **every other assembled stepper of the tree**: the gradient-norm, general-nonlinear, polynomial and linear generic
    steppers, Kuramoto–Sivashinsky (combustion form), Fisher–KPP, Navier–Stokes in vorticity form, and the five linear
    steppers with ANY velocity vector / diffusivity matrix / mixing flag — every order, `n` steps, physical space -/
theorem C08_assembled_steppers_commute_with_translations :
    (∀ g : GeneralGradientNormStepperArgs ℂ, 0 < g.num_points →
      PhysicallyEquivariant g.num_spatial_dims g.num_points (GeneralGradientNormStepper_step g)) ∧
    (∀ g : GeneralNonlinearStepperArgs ℂ, 0 < g.num_points →
      PhysicallyEquivariant g.num_spatial_dims g.num_points (GeneralNonlinearStepper_step g)) ∧
    (∀ g : GeneralPolynomialStepperArgs ℂ, 0 < g.num_points →
      PhysicallyEquivariant g.num_spatial_dims g.num_points (GeneralPolynomialStepper_step g)) ∧
    (∀ g : GeneralLinearStepperArgs ℂ, 0 < g.num_points →
      PhysicallyEquivariant g.num_spatial_dims g.num_points (GeneralLinearStepper_step g)) ∧
    (∀ a : KuramotoSivashinskyArgs ℂ, 0 < a.num_points →
      PhysicallyEquivariant a.num_spatial_dims a.num_points (KuramotoSivashinsky_step a)) ∧
    (∀ a : FisherKPPArgs ℂ, 0 < a.num_points →
      PhysicallyEquivariant a.num_spatial_dims a.num_points (FisherKPP_step a)) ∧
    (∀ a : NavierStokesVorticityArgs ℂ, 0 < a.num_points →
      PhysicallyEquivariant a.num_spatial_dims a.num_points (NavierStokesVorticity_step a)) ∧
    (∀ a : AdvectionArgs ℂ, 0 < a.num_points →
      PhysicallyEquivariant a.num_spatial_dims a.num_points (Advection_step a)) ∧
    (∀ a : DiffusionArgs ℂ, 0 < a.num_points →
      PhysicallyEquivariant a.num_spatial_dims a.num_points (Diffusion_step a)) ∧
    (∀ a : AdvectionDiffusionArgs ℂ, 0 < a.num_points →
      PhysicallyEquivariant a.num_spatial_dims a.num_points (AdvectionDiffusion_step a)) ∧
    (∀ a : DispersionArgs ℂ, 0 < a.num_points →
      PhysicallyEquivariant a.num_spatial_dims a.num_points (Dispersion_step a)) ∧
    (∀ a : HyperDiffusionArgs ℂ, 0 < a.num_points →
      PhysicallyEquivariant a.num_spatial_dims a.num_points (HyperDiffusion_step a)) :=
  ⟨GeneralGradientNormStepper_physical_translation, GeneralNonlinearStepper_physical_translation,
   GeneralPolynomialStepper_physical_translation, GeneralLinearStepper_physical_translation,
   KuramotoSivashinsky_physical_translation, FisherKPP_physical_translation,
   NavierStokesVorticity_physical_translation, Advection_physical_translation, Diffusion_physical_translation,
   AdvectionDiffusion_physical_translation, Dispersion_physical_translation, HyperDiffusion_physical_translation⟩

/-- **the NON-autonomous case is delimited**: the generic vorticity stepper with a Kolmogorov injection
    `γ sin(m·2πx₁/L)` commutes with exactly the shifts under which the theorem's hypothesis holds — `N ∣ m·s₁`, i.e. every
    shift along `x₀` and the forcing-preserving shifts along `x₁`; with a number `injection_scale = 0` (no injection) with
    every shift.  Real domain extent, `D = 2`; `n` steps, physical space. -/
theorem C08_vorticity_stepper_commutes_with_forcing_preserving_translations
    (g : GeneralVorticityConvectionStepperArgs ℂ) (isNumber : Bool) (ℓ : ℝ) (hL : g.domain_extent = (ℓ : ℂ))
    (hD : g.num_spatial_dims = 2) (hN : 0 < g.num_points) (s : List ℤ)
    (hs : (isNumber = true ∧ g.injection_scale = 0) ∨ (g.num_points : ℤ) ∣ (g.injection_mode : ℤ) * s.getD 1 0)
    (n : ℕ) (u : MC ℂ) (ch : ℕ) :
    physCh g.num_spatial_dims g.num_points
        ((GeneralVorticityConvectionStepper_step g isNumber)^[n]
          (specMC g.num_spatial_dims g.num_points (rollMC g.num_spatial_dims g.num_points s u))) ch
      = rollND g.num_spatial_dims g.num_points
          (physCh g.num_spatial_dims g.num_points
            ((GeneralVorticityConvectionStepper_step g isNumber)^[n] (specMC g.num_spatial_dims g.num_points u)) ch) s :=
  physical_translation_nd _ _ hN s _
    (GeneralVorticityConvectionStepper_step_translation g isNumber ℓ hL hD hN s hs) n u ch

/-! ### non-vacuity -/

/-- a 2-D, two-channel, ETDRK3 convection stepper on 8 points -/
example : ∃ g : GeneralConvectionStepperArgs ℂ, 0 < g.num_points ∧ g.order = 3 ∧ g.num_spatial_dims = 2 :=
  ⟨{ num_spatial_dims := 2, domain_extent := 1, num_points := 8, dt := 1, linear_coefficients := [0, 0, 1],
     convection_scale := 1, single_channel := false, conservative := false, order := 3,
     dealiasing_fraction := (2, 3), num_circle_points := 16, circle_radius := 1 }, by decide, rfl, rfl⟩

/-- equivariant terms exist (hypothesis of `C08_assembled_etdrk_step_commutes_with_shift_phases`) -/
example (c : Cfg ℂ) (hN : 0 < c.N) (s : List ℤ) : ∃ T : MC ℂ → MC ℂ, TermEquivariant c s T :=
  ⟨convection c 2 1 false true, convection_termEquivariant c hN 2 1 false true s⟩

/-- a forcing-preserving shift that is not trivial: `N = 8`, `m = 4`, shift `(3, 2)` -/
example : ((8 : ℕ) : ℤ) ∣ ((4 : ℕ) : ℤ) * ([3, 2] : List ℤ).getD 1 0 := by decide

end Exponax
