import Mathlib.Tactic
import ExponaxModel.Model.Loops
import ExponaxModel.Proofs.LoopsGenEq
import ExponaxModel.Properties.C14
/-
C14 (continuation) — `repeat(..., takes_aux=True)` and `RepeatedStepper.dt`, as REGENERATED from `exponax/_utils.py` and
`exponax/_repeated_stepper.py` (`Generated/LoopsGen.lean`), are the naive fold / the product `dt · num_sub_steps`.
Surfaces `repeat_aux_constant_eq`, `repeat_aux_sequence_eq_partial`, `repeat_aux_sequence_none`, `RepeatedStepper_dt_eq`
of `Proofs/LoopsGenEq.lean`, which `C14_generated_utilities` does not list.
-/
set_option linter.unusedVariables false
namespace Exponax
open Exponax.Loops

/-- the regenerated `repeat(f, n, takes_aux=True, constant_aux=…)`:
    * constant aux `a`: the model's `repeatAux`, i.e. the `n`-fold application of `u ↦ f u a`;
    * aux sequence with exactly `n` entries: the model's `repeatAux`, i.e. the left fold of `f` over the sequence, in order;
    * aux sequence of any other length: rejected (`jax.lax.scan(..., length=n)` raises). -/
theorem C14_repeat_with_aux_is_the_fold {S A : Type} (f : S → A → S) (n : ℕ) (u0 : S) (a : A) (aux : List A) :
    (Gen.LoopsGen.repeat_aux_constant f n u0 a = some (Loops.repeatAux f n true u0 [a]) ∧
      Gen.LoopsGen.repeat_aux_constant f n u0 a = some (Loops.repeatN (fun v => f v a) n u0)) ∧
    (aux.length = n →
      Gen.LoopsGen.repeat_aux_sequence f n u0 aux = some (Loops.repeatAux f n false u0 aux) ∧
      Gen.LoopsGen.repeat_aux_sequence f n u0 aux = some (aux.foldl f u0)) ∧
    (aux.length ≠ n → Gen.LoopsGen.repeat_aux_sequence f n u0 aux = none) := by
  refine ⟨⟨Gen.LoopsGen.repeat_aux_constant_eq f n u0 a, ?_⟩, fun h => ⟨?_, ?_⟩,
    Gen.LoopsGen.repeat_aux_sequence_none f n u0 aux⟩
  · rw [Gen.LoopsGen.repeat_aux_constant_eq f n u0 a, C14_repeat_aux_constant]
  · exact Gen.LoopsGen.repeat_aux_sequence_eq_partial f n u0 aux h
  · rw [Gen.LoopsGen.repeat_aux_sequence_eq_partial f n u0 aux h, C14_repeat_aux, ← h, List.take_length]

/-- the regenerated `RepeatedStepper.dt` is the model's `repeatedDt`, i.e. `dt · num_sub_steps` -/
theorem C14_repeated_stepper_dt {K : Type} [Semiring K] (dt : K) (numSubSteps : ℕ) :
    Gen.LoopsGen.RepeatedStepper_dt dt numSubSteps = Loops.repeatedDt dt numSubSteps ∧
    Gen.LoopsGen.RepeatedStepper_dt dt numSubSteps = dt * (numSubSteps : K) :=
  ⟨Gen.LoopsGen.RepeatedStepper_dt_eq dt numSubSteps, rfl⟩

/-! non-vacuity -/
example : Gen.LoopsGen.repeat_aux_sequence (fun (u a : ℕ) => 2 * u + a) 3 0 [1, 2, 3] = some 11 := by
  rw [(C14_repeat_with_aux_is_the_fold (fun (u a : ℕ) => 2 * u + a) 3 0 0 [1, 2, 3]).2.1 rfl |>.2]; rfl
example : ([1, 2, 3] : List ℕ).length = 3 ∧ ([1, 2] : List ℕ).length ≠ 3 := by decide
example : Gen.LoopsGen.RepeatedStepper_dt (2 : ℚ) 5 = 10 := by
  rw [(C14_repeated_stepper_dt (2 : ℚ) 5).2]; norm_num

end Exponax
