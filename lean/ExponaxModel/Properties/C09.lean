import ExponaxModel.Proofs.SymbolAlgebra
import ExponaxModel.Proofs.Aliasing
import ExponaxModel.Proofs.MeanMode
import ExponaxModel.Properties.C02
import ExponaxModel.Proofs.Conservation
import ExponaxModel.Proofs.InvariantsVort
import ExponaxModel.Proofs.InvariantsRot3dLeray
import ExponaxModel.Proofs.LaminarEquilibriaExamples
import ExponaxModel.Proofs.SmallGaps3MeanSteps
import ExponaxModel.Proofs.SmallGaps3MeanCounter
/-
C09 — conserved quantities and equilibria survive the discretisation exactly.
Mean: zero mean-mode output of the conservative / Cahn–Hilliard / gradient-norm(zero-fix) terms in every dimension and
of the 2-D vorticity term for EVERY input spectrum; hence n ETDRK steps of any order keep the mean mode.  Equilibria:
fixed points of every regenerated stage formula.  Energy: the dealiased 1-D convection term does no work (spectral
triad identity and grid form); the dealiased 2-D vorticity term conserves enstrophy and energy; the 3-D rotational term
does no work on divergence-free velocities.  The 3-D mean read-off is stated as it is (it vanishes for divergence-free
input only).
-/
set_option linter.unusedVariables false
namespace Exponax
open Exponax.Nonlin Exponax.Gen.Etdrk Exponax.Spec

/-- conservation-form linear operators (every term carries a derivative) have symbol 0 at the mean mode … -/
theorem C09_symbol_zero_mean_mode (c : Cfg ℂ) (terms : List (ℂ × List ℕ)) (h : ℕ)
    (hk : ∀ d < c.D, wnAt c d h = 0) (hpos : ∀ t ∈ terms, ∃ d < c.D, 0 < t.2.getD d 0) :
    polySymbol c terms h = 0 :=
  polySymbol_zero_mode_eq_zero c terms h hk hpos

/-- … so the propagator leaves the mean mode alone -/
theorem C09_exp_term_zero (dt : ℂ) : exp_term dt 0 = 1 := by simp [exp_term]

/-- ETDRK keeps the mean: if the linear symbol vanishes at the mean mode (`E 0 = Eh 0 = 1`) and the nonlinear term
    has zero mean mode for every input, then every order returns `u 0` at mode 0 (spectra `ℕ → ℂ`, any
    coefficient arrays) -/
theorem C09_mean_preserved (E Eh a1 a2 a3 a4 a5 a6 : ℕ → ℂ) (hE : E 0 = 1) (hEh : Eh 0 = 1)
    (N : (ℕ → ℂ) → (ℕ → ℂ)) (hN : ∀ v, N v 0 = 0) (u : ℕ → ℂ) :
    (E0step E u) 0 = u 0 ∧ (E1step E a1 N u) 0 = u 0 ∧ (E2step E a1 a2 N u) 0 = u 0 ∧
    (E3step E Eh a1 a2 a3 a4 a5 N u) 0 = u 0 ∧ (E4step E Eh a1 a2 a3 a4 a5 a6 N u) 0 = u 0 := by
  refine ⟨?_, ?_, ?_, ?_, ?_⟩ <;>
    simp [E0step, E1step, E2step, E3step, E4step, Pi.mul_apply, Pi.add_apply, Pi.sub_apply, hE, hEh, hN]

/-- … over any number of steps -/
theorem C09_mean_preserved_rollout (step : (ℕ → ℂ) → (ℕ → ℂ)) (hstep : ∀ u, step u 0 = u 0) (n : ℕ) (u : ℕ → ℂ) :
    (step^[n] u) 0 = u 0 := by
  induction n generalizing u with
  | zero => rfl
  | succ n ih => rw [Function.iterate_succ_apply, ih, hstep]

/-- the nonlinear model terms vanish outside the band and (Alias library) at the mean mode for the gradient norm
    with zero-mode fix (1-D read-off) -/
theorem C09_gradient_norm_mean (c : Cfg ℂ) (hD : c.D = 1) (hq : c.fq ≠ 0) (hK : 3 * Alias.Kc c < (c.N : ℤ)) (hN : 0 < c.N)
    (s : ℝ) (hs : c.s = (s : ℂ)) (scale : ℂ) (x : Array ℂ) (hx : Alias.IsRealField c.N x) (hm : mask c 0 = 1) :
    at2 (gradientNorm c 1 scale true #[Transform.rfftnM 1 c.N x]) 0 0 = 0 := by
  have h := (Alias.gradientNorm_one_alias_free_of_cutoff c hD hq hK hN s hs scale true x hx 0 (Nat.zero_le _)).1 hm
  simpa using h

/-- FIXED POINTS (per mode, `z = dt·λ ≠ 0`, exact φ coefficients): an equilibrium `λ u + N(u) = 0` is a fixed point of
    every ETDRK order, for ANY nonlinear map `N` -/
theorem C09_fixed_point (dt lam u : ℂ) (N : ℂ → ℂ) (hdt : dt ≠ 0) (hlam : lam ≠ 0) (heq : lam * u + N u = 0) :
    let z := dt * lam
    let E := Complex.exp z
    let Eh := Complex.exp (z / 2)
    let ah := dt * (phi1 (z / 2) / 2)
    cm1 E (dt * phi1 z) N u = u ∧
    cm2 E (dt * phi1 z) (dt * phi2 z) N u = u ∧
    cm3 E Eh ah (dt * phi1 z) (dt * (phi1 z - 3 * phi2 z + 4 * phi3 z)) (dt * (4 * phi2 z - 8 * phi3 z))
        (dt * (4 * phi3 z - phi2 z)) N u = u ∧
    cm4 E Eh ah (dt * (phi1 z - 3 * phi2 z + 4 * phi3 z)) (dt * (phi2 z - 2 * phi3 z))
        (dt * (4 * phi3 z - phi2 z)) N u = u := by
  intro z E Eh ah
  have hz : z ≠ 0 := mul_ne_zero hdt hlam
  have hNu : N u = -(lam * u) := by linear_combination heq
  have hsq : Complex.exp z = Complex.exp (z / 2) * Complex.exp (z / 2) := by
    rw [← Complex.exp_add]; congr 1; ring
  -- first stage of every scheme returns u itself
  have h1 : E * u + dt * phi1 z * N u = u := by
    simp only [E, phi1, hasExp_complex, hNu, z]
    field_simp
    ring
  have hh : Eh * u + ah * N u = u := by
    simp only [Eh, ah, phi1, hasExp_complex, hNu, z]
    field_simp
    ring
  refine ⟨?_, ?_, ?_, ?_⟩
  · simpa [cm1] using h1
  · simp only [cm2]
    rw [h1]; ring
  · simp only [cm3, lit_eq]
    rw [hh]
    have h2 : E * u + dt * phi1 z * ((2 : ℕ) * N u - N u) = u := by
      have : ((2 : ℕ) : ℂ) * N u - N u = N u := by push_cast; ring
      rw [this]; exact h1
    rw [h2]
    simp only [E, phi1, phi2, phi3, hasExp_complex, hNu, lit_eq, z]
    push_cast
    field_simp
    ring
  · simp only [cm4, lit_eq]
    rw [hh, hh]
    have h3 : Eh * u + ah * ((2 : ℕ) * N u - N u) = u := by
      have : ((2 : ℕ) : ℂ) * N u - N u = N u := by push_cast; ring
      rw [this]; exact hh
    rw [h3]
    simp only [E, phi1, phi2, phi3, hasExp_complex, hNu, lit_eq, z]
    push_cast
    field_simp
    ring

/-- the `λ = 0` case: if `N(u) = 0` every order with `E = Eh = 1` fixes `u`, whatever the coefficients -/
theorem C09_fixed_point_zero_symbol (a1 a2 a3 a4 a5 a6 u : ℂ) (N : ℂ → ℂ) (hN : N u = 0) :
    E1step 1 a1 N u = u ∧ E2step 1 a1 a2 N u = u ∧ E3step 1 1 a1 a2 a3 a4 a5 N u = u ∧
    E4step 1 1 a1 a2 a3 a4 a5 a6 N u = u := by
  simp [E1step, E2step, E3step, E4step, hN]

example : ((0.1 : ℂ)) ≠ 0 ∧ ((-2 : ℂ)) ≠ 0 ∧ (-2 : ℂ) * 1 + 2 = 0 := by norm_num

/-- MEAN of the nonlinear model terms, every dimension, every channel count, every input spectrum, every mask -/
theorem C09_conservative_terms_zero_mean (c : Cfg ℂ) (C : ℕ) (scale : ℂ) (single : Bool) (uh : MC ℂ) (ch : ℕ) :
    at2 (convection c C scale single true uh) ch 0 = 0 ∧ at2 (cahnHilliard c scale uh) ch 0 = 0 :=
  ⟨Conserve.convection_conservative_mean c C scale single uh ch, Conserve.cahnHilliard_mean c scale uh ch⟩

theorem C09_gradient_norm_zero_fix_mean (c : Cfg ℂ) (hN : 0 < c.N) (C : ℕ) (scale : ℂ) (uh : MC ℂ) (ch : ℕ) :
    at2 (gradientNorm c C scale true uh) ch 0 = 0 := Conserve.gradientNorm_zeroFix_mean c hN C scale uh ch

/-- the non-conservative 1-D form `u u_x` has zero mean on dealiased real states (it is `½(u²)_x` only without
    aliasing) -/
theorem C09_nonconservative_1d_mean (c : Cfg ℂ) (hD : c.D = 1) (hq : c.fq ≠ 0) (hK : 3 * Alias.Kc c < (c.N : ℤ))
    (hN : 0 < c.N) (s : ℝ) (hs : c.s = (s : ℂ)) (scale : ℂ) (x : Array ℂ) (hx : Alias.IsRealField c.N x)
    (single : Bool) :
    at2 (convection c 1 scale single false #[Transform.rfftnM 1 c.N x]) 0 0 = 0 :=
  Conserve.convection_nc_mean_1d c hD hq hK hN s hs scale x hx single

/-- the 2-D vorticity convection term has zero mean for EVERY input spectrum, every `N ≥ 1`, any mask -/
theorem C09_vorticity_zero_mean (c : Cfg ℂ) (hD : c.D = 2) (hN : 0 < c.N) (s : ℝ) (hs : c.s = (s : ℂ)) (scale : ℂ)
    (uh : MC ℂ) : at2 (vorticity2d c scale none uh) 0 0 = 0 := Conserve.vorticity2d_mean c hD hN s hs scale uh

/-- the Leray projection keeps the mean mode; the mean of the 3-D rotational term is the grid sum of `u × ω`
    (which vanishes for divergence-free `u` only — the stepper's contract) -/
theorem C09_projection_mean (c : Cfg ℂ) (hN : 0 < c.N) (uh : MC ℂ) (d : ℕ) (hd : d < c.D) :
    at2 (leray c uh) d 0 = at2 uh d 0 := Conserve.leray_mean c hN uh d hd

/-- n steps of every ETDRK order keep the mean mode … -/
theorem C09_mean_all_orders_all_steps (E Eh a1 a2 a3 a4 a5 a6 : ℕ → ℂ) (Nl : (ℕ → ℂ) → ℕ → ℂ) (hE : E 0 = 1)
    (hN : ∀ v, Nl v 0 = 0) (n : ℕ) (u : ℕ → ℂ) :
    (E0step E)^[n] u 0 = u 0 ∧ (E1step E a1 Nl)^[n] u 0 = u 0 ∧ (E2step E a1 a2 Nl)^[n] u 0 = u 0 ∧
      (E3step E Eh a1 a2 a3 a4 a5 Nl)^[n] u 0 = u 0 ∧ (E4step E Eh a1 a2 a3 a4 a5 a6 Nl)^[n] u 0 = u 0 :=
  Conserve.etdrk_mean_all_orders E Eh a1 a2 a3 a4 a5 a6 Nl hE hN n u

/-- … in particular with the regenerated propagators of a symbol vanishing at the mean mode, and with the concrete
    model terms (Burgers / KdV / KS-conservative; Cahn–Hilliard; Navier–Stokes vorticity with or without injection) -/
theorem C09_mean_concrete (c : Cfg ℂ) (scale : ℂ) (single : Bool) (dt r : ℂ) (M : ℕ) (L a1 a2 a3 a4 a5 a6 : ℕ → ℂ)
    (hL : L 0 = 0) (n : ℕ) (u : ℕ → ℂ) :
    ((E4step (fun h => exp_term dt (L h)) (fun h => E4_half_exp_term dt (L h) M r) a1 a2 a3 a4 a5 a6
        (Conserve.liftNl c (convection c 1 scale single true)))^[n] u) 0 = u 0 ∧
    ((E4step (fun h => exp_term dt (L h)) (fun h => E4_half_exp_term dt (L h) M r) a1 a2 a3 a4 a5 a6
        (Conserve.liftNl c (cahnHilliard c scale)))^[n] u) 0 = u 0 := by
  have hE : (fun h => exp_term dt (L h)) 0 = 1 := by simp [hL, exp_term]
  exact ⟨Conserve.etdrk_mean_convection c scale single _ _ a1 a2 a3 a4 a5 a6 hE n u,
         Conserve.etdrk_mean_cahnHilliard c scale _ _ a1 a2 a3 a4 a5 a6 hE n u⟩

theorem C09_mean_vorticity_stepper (c : Cfg ℂ) (hD : c.D = 2) (hN : 0 < c.N) (s : ℝ) (hs : c.s = (s : ℂ))
    (scale : ℂ) (inj : Option (ℕ × ℂ)) (E Eh a1 a2 a3 a4 a5 a6 : ℕ → ℂ) (hE : E 0 = 1) (n : ℕ) (u : ℕ → ℂ) :
    ((E4step E Eh a1 a2 a3 a4 a5 a6 (Conserve.liftNl c (vorticity2d c scale inj)))^[n] u) 0 = u 0 :=
  Conserve.etdrk_mean_vorticity2d c hD hN s hs scale inj E Eh a1 a2 a3 a4 a5 a6 hE n u

/-- EQUILIBRIA of the whole spectrum: `L u + N(u) = 0` mode by mode is a fixed point of the regenerated ETDRK4 step
    (coefficients exact where `L ≠ 0`, arbitrary where `L = 0`) -/
theorem C09_fixed_point_spectrum (dt r : ℂ) (M : ℕ) (hdt : dt ≠ 0) (L ah b1 b2 b3 u : ℕ → ℂ)
    (N : (ℕ → ℂ) → ℕ → ℂ)
    (hah : ∀ h, L h ≠ 0 → ah h = dt * (phi1 (dt * L h / 2) / 2))
    (hb1 : ∀ h, L h ≠ 0 → b1 h = dt * (phi1 (dt * L h) - 3 * phi2 (dt * L h) + 4 * phi3 (dt * L h)))
    (hb2 : ∀ h, L h ≠ 0 → b2 h = dt * (phi2 (dt * L h) - 2 * phi3 (dt * L h)))
    (hb3 : ∀ h, L h ≠ 0 → b3 h = dt * (4 * phi3 (dt * L h) - phi2 (dt * L h)))
    (heq : ∀ h, L h * u h + N u h = 0) :
    E4step (fun h => exp_term dt (L h)) (fun h => E4_half_exp_term dt (L h) M r) ah ah ah b1 b2 b3 N u = u :=
  Conserve.fixed_E4step_spectrum dt r M hdt L ah b1 b2 b3 u N hah hb1 hb2 hb3 heq

/-- ENERGY: the dealiased Burgers term does no work — triad identity on any truncated spectrum … -/
theorem C09_convection_no_work_spectral (K : ℤ) (X : ℤ → ℂ) :
    ∑ h ∈ Finset.Icc (-K) K, Alias.trunc K X (-h) * (h : ℂ) *
      ∑ m ∈ Finset.Icc (-K) K, Alias.trunc K X m * Alias.trunc K X (h - m) = 0 :=
  Conserve.convection_energy_spectral K X

/-- … and on the grid, through the model pipeline: `Σ_j u_j · N(u)_j = 0` for the conservative single-channel term
    with the 2/3 rule, any `N`, any real state -/
theorem C09_convection_no_work_grid (c : Cfg ℂ) (hD : c.D = 1) (hq : c.fq ≠ 0) (hK : 3 * Alias.Kc c < (c.N : ℤ))
    (hN : 0 < c.N) (s : ℝ) (hs : c.s = (s : ℂ)) (b : ℝ) (x : Array ℂ) (hx : Alias.IsRealField c.N x) :
    ∑ j ∈ Finset.range c.N, (nifft c (Transform.rfftnM 1 c.N x)).getD j 0 *
      (Transform.irfftnM 1 c.N ((convection c 1 (b : ℂ) true true #[Transform.rfftnM 1 c.N x]).getD 0 #[])).getD j 0
      = 0 := Conserve.convection_energy_grid c hD hq hK hN s hs b x hx

/-! ### 2-D vorticity form: enstrophy and energy; 3-D rotational form: energy (`Proofs/Invariants*.lean`) -/

/-- ENSTROPHY: the dealiased 2-D vorticity convection term does no work against the (truncated) vorticity -/
theorem C09_vorticity_enstrophy (c : Cfg ℂ) (hD : c.D = 2) (hq : c.fq ≠ 0) (hK : 3 * Alias.Kc c < (c.N : ℤ))
    (hN : 0 < c.N) (s : ℝ) (hs : c.s = (s : ℂ)) (b : ℝ) (x : Array ℂ) (hx : AliasND.IsRealND c.D c.N x) :
    ∑ j ∈ Finset.range (c.N ^ c.D), (nifft c (Transform.rfftnM c.D c.N x)).getD j 0 *
      (Transform.irfftnM c.D c.N ((vorticity2d c (b : ℂ) none #[Transform.rfftnM c.D c.N x]).getD 0 #[])).getD j 0 = 0 :=
  Invariants.vorticity2d_enstrophy_grid c hD hq hK hN s hs b x hx

/-- ENERGY: nor against the stream function `ψ = Δ⁻¹ω` -/
theorem C09_vorticity_energy (c : Cfg ℂ) (hD : c.D = 2) (hq : c.fq ≠ 0) (hK : 3 * Alias.Kc c < (c.N : ℤ))
    (hN : 0 < c.N) (s : ℝ) (hs : c.s = (s : ℂ)) (b : ℝ) (x : Array ℂ) (hx : AliasND.IsRealND c.D c.N x) :
    ∑ j ∈ Finset.range (c.N ^ c.D), (Invariants.psiGrid c (Transform.rfftnM c.D c.N x)).getD j 0 *
      (Transform.irfftnM c.D c.N ((vorticity2d c (b : ℂ) none #[Transform.rfftnM c.D c.N x]).getD 0 #[])).getD j 0 = 0 :=
  Invariants.vorticity2d_energy_grid c hD hq hK hN s hs b x hx

/-- the triad identities behind them hold for ANY truncated spectrum and any cut-off -/
theorem C09_vorticity_triads (c : Cfg ℂ) (K : ℤ) (X : (Fin c.D → ℤ) → ℂ) :
    (Invariants.triV K X fun _ q r => Invariants.vortWeight c q r) = 0 ∧
      (Invariants.triV K X fun p q r => AliasND.invLapSym c p * Invariants.vortWeight c q r) = 0 :=
  ⟨Invariants.vorticity2d_enstrophy_triad c K X, Invariants.vorticity2d_energy_triad c K X⟩

/-- 3-D ROTATIONAL FORM: `⟨u, P(u × ω)⟩ = 0` for every real velocity that is divergence-free on the retained modes
    (pointwise orthogonality survives aliasing: only `2K < N` is needed) … -/
theorem C09_rotational_no_work (c : Cfg ℂ) (hD : c.D = 3) (hq : c.fq ≠ 0) (hK : 2 * Alias.Kc c < (c.N : ℤ)) (hN : 0 < c.N)
    (s : ℝ) (hs : c.s = (s : ℂ)) (v : ℕ → Array ℂ) (hv : ∀ i < 3, AliasND.IsRealND c.D c.N (v i))
    (hdiv : ∀ h < modes c, mask c h = 1 →
      ∑ d ∈ Finset.range c.D, deriv c d h * (Transform.rfftnM c.D c.N (v d)).getD h 0 = 0) :
    ∑ i ∈ Finset.range 3, ∑ j ∈ Finset.range (c.N ^ c.D), (v i).getD j 0 *
      (Transform.irfftnM c.D c.N ((projected3d c none #[Transform.rfftnM c.D c.N (v 0), Transform.rfftnM c.D c.N (v 1),
        Transform.rfftnM c.D c.N (v 2)]).getD i #[])).getD j 0 = 0 :=
  Invariants.projected3d_no_work_real_full c hD hq hK hN s hs v hv hdiv

/-- … in particular for the Leray projection of ANY real field (no divergence hypothesis) -/
theorem C09_rotational_no_work_projected (c : Cfg ℂ) (hD : c.D = 3) (hq : c.fq ≠ 0) (hK : 2 * Alias.Kc c < (c.N : ℤ))
    (hN : 0 < c.N) (s : ℝ) (hs : c.s = (s : ℂ)) (hs0 : s ≠ 0) (w : ℕ → Array ℂ)
    (hw : ∀ e < 3, AliasND.IsRealND c.D c.N (w e)) :
    ∑ i ∈ Finset.range 3, ∑ j ∈ Finset.range (c.N ^ c.D),
      (nifft c ((leray c #[Transform.rfftnM c.D c.N (w 0), Transform.rfftnM c.D c.N (w 1),
        Transform.rfftnM c.D c.N (w 2)]).getD i #[])).getD j 0 *
      (Transform.irfftnM c.D c.N ((projected3d c none (leray c #[Transform.rfftnM c.D c.N (w 0),
        Transform.rfftnM c.D c.N (w 1), Transform.rfftnM c.D c.N (w 2)])).getD i #[])).getD j 0 = 0 :=
  Invariants.projected3d_no_work_leray c hD hq hK hN s hs hs0 w hw


/-! ### constant equilibria on the model terms and the regenerated wiring (library `Proofs/Equilibria*.lean`): transport terms
vanish on constant states, reaction terms map constants to constants, so L(0)û + N(û) = 0 at the documented equilibria of
Fisher–KPP, Allen–Cahn, Swift–Hohenberg and Gray–Scott (regenerated operators and nonlinear functions); with the STORED contour
coefficients a constant equilibrium is a fixed point of every order exactly when the scalar defect e^z − 1 − z·mean φ₁ vanishes
at the mean-mode symbol — always for transport equations (L(0) = 0), and up to |λdt|·5·10⁻⁸ otherwise; the naive statement
"every equilibrium is exactly fixed with stored coefficients" is FALSE (counterexample with M = 1), because the contour mean
of φ₁ telescopes node by node with the node, not with z. -/

open Exponax.Equilibria Exponax.EquilibriaStored in
theorem C09_convection_vanishes_on_constants :
    ∀ (c : Nonlin.Cfg ℂ),
      0 < c.D →
        0 < c.N →
          ∀ (C : ℕ) (scale : ℂ) (single conservative : Bool) (uh : Nonlin.MC ℂ),
            MeanSpec c uh → ∀ (ch h : ℕ), Nonlin.at2 (Nonlin.convection c C scale single conservative uh) ch h = 0 :=
  @Exponax.Equilibria.convection_const

open Exponax.Equilibria Exponax.EquilibriaStored in
theorem C09_gradient_norm_vanishes_on_constants :
    ∀ (c : Nonlin.Cfg ℂ),
      0 < c.N →
        ∀ (C : ℕ) (scale : ℂ) (zeroFix : Bool) (uh : Nonlin.MC ℂ),
          MeanSpec c uh → ∀ (ch h : ℕ), Nonlin.at2 (Nonlin.gradientNorm c C scale zeroFix uh) ch h = 0 :=
  @Exponax.Equilibria.gradientNorm_const

open Exponax.Equilibria Exponax.EquilibriaStored in
theorem C09_reaction_maps_constants_to_constants :
    ∀ (c : Nonlin.Cfg ℂ),
      0 < c.D →
        0 < c.N →
          Nonlin.mask c 0 = 1 →
            ∀ (C : ℕ) (react : List ℂ → List ℂ) (u0 : ℕ → ℝ),
              Nonlin.reaction c C react (constSpec c C fun k ↦ ↑(u0 k)) =
                constSpec c C fun ch ↦ (react (List.map (fun k ↦ ↑(u0 k)) (List.range C))).getD ch 0 :=
  @Exponax.Equilibria.reaction_const

open Exponax.Equilibria Exponax.EquilibriaStored in
theorem C09_fisher_kpp_equilibria :
    ∀ (c : Nonlin.Cfg ℂ),
      0 < c.D →
        0 < c.N →
          ∀ (a : Gen.StepperWiring.FisherKPPArgs ℂ),
            Nonlin.mask (StepperWiringEq.withDF c a.dealiasing_fraction) 0 = 1 →
              ∀ (u0 : ℝ),
                u0 = 0 ∨ u0 = 1 →
                  ∀ (h : ℕ),
                    Gen.Steppers.FisherKPP_linear_operator (kappa c h) a.diffusivity a.reactivity *
                          Nonlin.at2 (constSpec c 1 fun x ↦ ↑u0) 0 h +
                        Nonlin.at2 (Gen.StepperWiring.FisherKPP_stepper_nonlinear_fun c a (constSpec c 1 fun x ↦ ↑u0)) 0 h =
                      0 :=
  @Exponax.Equilibria.FisherKPP_equilibria

open Exponax.Equilibria Exponax.EquilibriaStored in
theorem C09_allen_cahn_equilibria :
    ∀ (c : Nonlin.Cfg ℂ),
      0 < c.D →
        0 < c.N →
          ∀ (a : Gen.StepperWiring.AllenCahnArgs ℂ),
            Nonlin.mask (StepperWiringEq.withDF c a.dealiasing_fraction) 0 = 1 →
              ∀ (u0 : ℝ),
                u0 = 0 ∨ a.first_order_coefficient + a.third_order_coefficient * ↑u0 ^ 2 = 0 →
                  ∀ (h : ℕ),
                    Gen.Steppers.AllenCahn_linear_operator (kappa c h) a.diffusivity a.first_order_coefficient *
                          Nonlin.at2 (constSpec c 1 fun x ↦ ↑u0) 0 h +
                        Nonlin.at2 (Gen.StepperWiring.AllenCahn_stepper_nonlinear_fun c a (constSpec c 1 fun x ↦ ↑u0)) 0 h =
                      0 :=
  @Exponax.Equilibria.AllenCahn_equilibria

open Exponax.Equilibria Exponax.EquilibriaStored in
theorem C09_swift_hohenberg_equilibria :
    ∀ (c : Nonlin.Cfg ℂ),
      0 < c.D →
        0 < c.N →
          ∀ (a : Gen.StepperWiring.SwiftHohenbergArgs ℂ),
            Nonlin.mask (StepperWiringEq.withDF c a.dealiasing_fraction) 0 = 1 →
              ∀ (u0 : ℝ),
                (a.reactivity - a.critical_number ^ 2) * ↑u0 + Nonlin.polyEval a.polynomial_coefficients ↑u0 = 0 →
                  ∀ (h : ℕ),
                    Gen.Steppers.SwiftHohenberg_linear_operator (kappa c h) a.reactivity a.critical_number *
                          Nonlin.at2 (constSpec c 1 fun x ↦ ↑u0) 0 h +
                        Nonlin.at2 (Gen.StepperWiring.SwiftHohenberg_stepper_nonlinear_fun c a (constSpec c 1 fun x ↦ ↑u0))
                          0 h =
                      0 :=
  @Exponax.Equilibria.SwiftHohenberg_equilibria

open Exponax.Equilibria Exponax.EquilibriaStored in
theorem C09_gray_scott_equilibria :
    ∀ (c : Nonlin.Cfg ℂ),
      0 < c.D →
        0 < c.N →
          ∀ (g : Gen.StepperWiring.GrayScottArgs ℂ),
            Nonlin.mask (StepperWiringEq.withDF c g.dealiasing_fraction) 0 = 1 →
              ∀ (a b : ℝ),
                g.feed_rate * (1 - ↑a) = ↑a * (↑b * ↑b) →
                  (g.feed_rate + g.kill_rate) * ↑b = ↑a * (↑b * ↑b) →
                    ∀ (ch h : ℕ),
                      ch < 2 →
                        (Gen.Steppers.GrayScott_linear_operator (kappa c h) g.diffusivity_1 g.diffusivity_2).getD ch 0 *
                              Nonlin.at2 (constSpec c 2 fun k ↦ ↑([a, b].getD k 0)) ch h +
                            Nonlin.at2
                              (Gen.StepperWiring.GrayScott_stepper_nonlinear_fun c g
                                (constSpec c 2 fun k ↦ ↑([a, b].getD k 0)))
                              ch h =
                          0 :=
  @Exponax.Equilibria.GrayScott_equilibria

open Exponax.Equilibria Exponax.EquilibriaStored in
theorem C09_constants_fixed_by_transport_steppers_stored :
    ∀ (c : Nonlin.Cfg ℂ),
      0 < c.D →
        0 < c.N →
          ∀ (F : Nonlin.MC ℂ → Nonlin.MC ℂ) (u0 : ℂ),
            (∀ (h : ℕ), Nonlin.at2 (F (constSpec c 1 fun x ↦ u0)) 0 h = 0) →
              ∀ (L : ℕ → ℂ),
                L 0 = 0 →
                  ∀ (dt r : ℂ) (M : ℕ),
                    Gen.Etdrk.E1step (fun h ↦ Gen.Etdrk.exp_term dt (L h)) (fun h ↦ Gen.Etdrk.E1_coef_1 dt (L h) M r)
                          (Conserve.liftNl c F) (constSpectrum c u0) =
                        constSpectrum c u0 ∧
                      Gen.Etdrk.E2step (fun h ↦ Gen.Etdrk.exp_term dt (L h)) (fun h ↦ Gen.Etdrk.E2_coef_1 dt (L h) M r)
                            (fun h ↦ Gen.Etdrk.E2_coef_2 dt (L h) M r) (Conserve.liftNl c F) (constSpectrum c u0) =
                          constSpectrum c u0 ∧
                        Gen.Etdrk.E3step (fun h ↦ Gen.Etdrk.exp_term dt (L h))
                              (fun h ↦ Gen.Etdrk.E3_half_exp_term dt (L h) M r) (fun h ↦ Gen.Etdrk.E3_coef_1 dt (L h) M r)
                              (fun h ↦ Gen.Etdrk.E3_coef_2 dt (L h) M r) (fun h ↦ Gen.Etdrk.E3_coef_3 dt (L h) M r)
                              (fun h ↦ Gen.Etdrk.E3_coef_4 dt (L h) M r) (fun h ↦ Gen.Etdrk.E3_coef_5 dt (L h) M r)
                              (Conserve.liftNl c F) (constSpectrum c u0) =
                            constSpectrum c u0 ∧
                          Gen.Etdrk.E4step (fun h ↦ Gen.Etdrk.exp_term dt (L h))
                              (fun h ↦ Gen.Etdrk.E4_half_exp_term dt (L h) M r) (fun h ↦ Gen.Etdrk.E4_coef_1 dt (L h) M r)
                              (fun h ↦ Gen.Etdrk.E4_coef_2 dt (L h) M r) (fun h ↦ Gen.Etdrk.E4_coef_3 dt (L h) M r)
                              (fun h ↦ Gen.Etdrk.E4_coef_4 dt (L h) M r) (fun h ↦ Gen.Etdrk.E4_coef_5 dt (L h) M r)
                              (fun h ↦ Gen.Etdrk.E4_coef_6 dt (L h) M r) (Conserve.liftNl c F) (constSpectrum c u0) =
                            constSpectrum c u0 :=
  @Exponax.Equilibria.transport_const_fixed_stored

open Exponax.Equilibria Exponax.EquilibriaStored in
theorem C09_constant_equilibrium_fixed_stored :
    ∀ (c : Nonlin.Cfg ℂ),
      0 < c.D →
        0 < c.N →
          Nonlin.mask c 0 = 1 →
            ∀ (coeffs : List ℂ) (L : ℕ → ℂ) (u0 : ℝ),
              L 0 * ↑u0 + Nonlin.polyEval coeffs ↑u0 = 0 →
                ∀ (dt r : ℂ) (M : ℕ),
                  fpDefect dt (L 0) M r = 0 →
                    fpDefectHalf dt (L 0) M r = 0 →
                      Gen.Etdrk.E3step (fun h ↦ Gen.Etdrk.exp_term dt (L h))
                            (fun h ↦ Gen.Etdrk.E3_half_exp_term dt (L h) M r) (fun h ↦ Gen.Etdrk.E3_coef_1 dt (L h) M r)
                            (fun h ↦ Gen.Etdrk.E3_coef_2 dt (L h) M r) (fun h ↦ Gen.Etdrk.E3_coef_3 dt (L h) M r)
                            (fun h ↦ Gen.Etdrk.E3_coef_4 dt (L h) M r) (fun h ↦ Gen.Etdrk.E3_coef_5 dt (L h) M r)
                            (Conserve.liftNl c (Nonlin.polynomial c 1 coeffs)) (constSpectrum c ↑u0) =
                          constSpectrum c ↑u0 ∧
                        Gen.Etdrk.E4step (fun h ↦ Gen.Etdrk.exp_term dt (L h))
                            (fun h ↦ Gen.Etdrk.E4_half_exp_term dt (L h) M r) (fun h ↦ Gen.Etdrk.E4_coef_1 dt (L h) M r)
                            (fun h ↦ Gen.Etdrk.E4_coef_2 dt (L h) M r) (fun h ↦ Gen.Etdrk.E4_coef_3 dt (L h) M r)
                            (fun h ↦ Gen.Etdrk.E4_coef_4 dt (L h) M r) (fun h ↦ Gen.Etdrk.E4_coef_5 dt (L h) M r)
                            (fun h ↦ Gen.Etdrk.E4_coef_6 dt (L h) M r) (Conserve.liftNl c (Nonlin.polynomial c 1 coeffs))
                            (constSpectrum c ↑u0) =
                          constSpectrum c ↑u0 :=
  @Exponax.Equilibria.const_equilibrium_stored

open Exponax.Equilibria Exponax.EquilibriaStored in
theorem C09_fixed_point_stored_coefficients :
    ∀ (dt r : ℂ) (M : ℕ) (L u : ℕ → ℂ) (N : (ℕ → ℂ) → ℕ → ℂ),
      (∀ (h : ℕ), L h * u h + N u h = 0) →
        (∀ (h : ℕ), u h ≠ 0 → fpDefect dt (L h) M r = 0) →
          (∀ (h : ℕ), u h ≠ 0 → fpDefectHalf dt (L h) M r = 0) →
            Gen.Etdrk.E4step (fun h ↦ Gen.Etdrk.exp_term dt (L h)) (fun h ↦ Gen.Etdrk.E4_half_exp_term dt (L h) M r)
                (fun h ↦ Gen.Etdrk.E4_coef_1 dt (L h) M r) (fun h ↦ Gen.Etdrk.E4_coef_2 dt (L h) M r)
                (fun h ↦ Gen.Etdrk.E4_coef_3 dt (L h) M r) (fun h ↦ Gen.Etdrk.E4_coef_4 dt (L h) M r)
                (fun h ↦ Gen.Etdrk.E4_coef_5 dt (L h) M r) (fun h ↦ Gen.Etdrk.E4_coef_6 dt (L h) M r) N u =
              u :=
  @Exponax.EquilibriaStored.stored_fixed_point_E4

open Exponax.Equilibria Exponax.EquilibriaStored in
theorem C09_fixed_point_stored_needs_defect_hypothesis :
    ¬∀ (dt lam r : ℂ) (M : ℕ) (N : ℂ → ℂ) (u : ℂ),
        (∀ ζ ∈ Gen.Etdrk.roots_of_unity M, r * ζ + lam * dt ≠ 0) →
          lam * u + N u = 0 → Gen.Etdrk.E1step (Gen.Etdrk.exp_term dt lam) (Gen.Etdrk.E1_coef_1 dt lam M r) N u = u :=
  @Exponax.EquilibriaStored.stored_fixed_point_false

open Exponax.Equilibria Exponax.EquilibriaStored in
theorem C09_fixed_point_defect_default :
    ∀ (dt lam : ℝ),
      lam * dt ≤ 0 → ‖fpDefect (↑dt) (↑lam) 16 1‖ ≤ |lam * dt| * 5e-8 ∧ ‖fpDefectHalf (↑dt) (↑lam) 16 1‖ ≤ |lam * dt| * 5e-8 :=
  @Exponax.EquilibriaStored.norm_fpDefect_default

open Exponax.Equilibria Exponax.EquilibriaStored in
theorem C09_equilibrium_almost_fixed_default :
    ∀ (dt : ℝ) (L : ℕ → ℝ) (u : ℕ → ℂ) (N : (ℕ → ℂ) → ℕ → ℂ),
      (∀ (h : ℕ), ↑(L h) * u h + N u h = 0) →
        (∀ (h : ℕ), L h * dt ≤ 0) →
          ∀ (h : ℕ),
            ‖Gen.Etdrk.E1step (fun h ↦ Gen.Etdrk.exp_term ↑dt ↑(L h)) (fun h ↦ Gen.Etdrk.E1_coef_1 (↑dt) (↑(L h)) 16 1) N u
                    h -
                  u h‖ ≤
              |L h * dt| * 5e-8 * ‖u h‖ :=
  @Exponax.EquilibriaStored.stored_E1_almost_fixed_default

open Exponax.Equilibria Exponax.EquilibriaStored in
theorem C09_stored_weights_telescope :
    ∀ (dt lam r : ℂ) (M : ℕ),
      Gen.Etdrk.E4_coef_4 dt lam M r + 4 * Gen.Etdrk.E4_coef_5 dt lam M r + Gen.Etdrk.E4_coef_6 dt lam M r =
        Gen.Etdrk.E1_coef_1 dt lam M r :=
  @Exponax.EquilibriaStored.stored_E4_sum



/-! ### mean of the 3-D velocity stepper: the mean mode of the rotational term is mask(0)·Σ_x u_i (∇·u) — zero exactly on
divergence-free spectra (Nyquist-free retained band), so every ETDRK order and rollout of the velocity stepper keeps the mean of
each channel on divergence-free states; for a general (not divergence-free) spectrum it is NOT zero (counterexample) -/

open Exponax.SmallGaps3 in
theorem C09_velocity_term_mean_is_u_div_u :
    ∀ (c : Nonlin.Cfg ℂ),
      c.D = 3 →
        0 < c.N →
          ∀ (K : ℤ),
            MaskIn c K →
              2 * K < ↑c.N →
                ∀ (s : ℝ),
                  c.s = ↑s →
                    ∀ (uh : Nonlin.MC ℂ),
                      ∀ i < 3,
                        Nonlin.at2 (Nonlin.projected3d c none uh) i 0 =
                          Nonlin.mask c 0 * ∑ x ∈ Finset.range (c.N ^ c.D), Conserve.velGrid c uh i x * divGrid c uh x :=
  @Exponax.SmallGaps3.projected3d_mean_eq_div

open Exponax.SmallGaps3 in
theorem C09_velocity_term_zero_mean_on_divfree :
    ∀ (c : Nonlin.Cfg ℂ),
      c.D = 3 →
        0 < c.N →
          ∀ (K : ℤ),
            MaskIn c K →
              2 * K < ↑c.N →
                ∀ (s : ℝ),
                  c.s = ↑s →
                    ∀ (uh : Nonlin.MC ℂ),
                      (∀ h < Nonlin.modes c,
                          Nonlin.mask c h = 1 →
                            Nonlin.deriv c 0 h * Nonlin.at2 uh 0 h + Nonlin.deriv c 1 h * Nonlin.at2 uh 1 h +
                                Nonlin.deriv c 2 h * Nonlin.at2 uh 2 h =
                              0) →
                        ∀ (i : ℕ), Nonlin.at2 (Nonlin.projected3d c none uh) i 0 = 0 :=
  @Exponax.SmallGaps3.projected3d_mean_zero

open Exponax.SmallGaps3 in
theorem C09_mean_velocity_stepper :
    ∀ (c : Nonlin.Cfg ℂ),
      c.D = 3 →
        0 < c.N →
          ∀ (K : ℤ),
            MaskIn c K →
              2 * K < ↑c.N →
                ∀ (s : ℝ),
                  c.s = ↑s →
                    s ≠ 0 →
                      ∀ (inj : Option (ℕ × ℂ)),
                        (∀ (m : ℕ) (gam : ℂ), inj = some (m, gam) → 0 < m) →
                          ∀ (e eh a1 a2 a3 a4 a5 a6 : ℕ → ℂ),
                            e 0 = 1 →
                              ∀ (n : ℕ) (U : ℕ → ℕ → ℂ),
                                DivFree c U →
                                  ∀ (d : ℕ),
                                    have b := fun x h x_1 ↦ x h;
                                    have N := SmallGaps.liftModeFirst c 3 (Nonlin.projected3d c inj);
                                    (Gen.Etdrk.E0step (b e))^[n] U 0 d = U 0 d ∧
                                      (Gen.Etdrk.E1step (b e) (b a1) N)^[n] U 0 d = U 0 d ∧
                                        (Gen.Etdrk.E2step (b e) (b a1) (b a2) N)^[n] U 0 d = U 0 d ∧
                                          (Gen.Etdrk.E3step (b e) (b eh) (b a1) (b a2) (b a3) (b a4) (b a5) N)^[n] U 0 d =
                                              U 0 d ∧
                                            (Gen.Etdrk.E4step (b e) (b eh) (b a1) (b a2) (b a3) (b a4) (b a5) (b a6) N)^[n]
                                                U 0 d =
                                              U 0 d :=
  @Exponax.SmallGaps3.velocity_rollout_mean

open Exponax.SmallGaps3 in
theorem C09_velocity_mean_needs_divfree :
    Nonlin.at2 (Nonlin.projected3d c8 none uhC) 0 0 ≠ 0 :=
  @Exponax.SmallGaps3.projected3d_mean_counter


end Exponax
