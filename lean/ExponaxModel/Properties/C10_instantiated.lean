import ExponaxModel.Properties.C10
import ExponaxModel.Proofs.SmallGapsDivFree
/-
C10 (continued) — `C10_step_preserves` / `C10_rollout_preserves` instantiated with the 3-D rotational term itself (with or
without Kolmogorov injection): every ETDRK order and every rollout of the velocity stepper maps divergence-free spectra to
divergence-free spectra.  Separate file because the bridge lemma builds on `Properties/C10.lean` (no import cycle).
-/
set_option linter.unusedVariables false
namespace Exponax

open Exponax.SmallGaps in
theorem C10_proj3d_divfree_every_index :
    ∀ (c : Nonlin.Cfg ℂ) (s : ℝ),
      c.s = ↑s →
        s ≠ 0 →
          c.D ≤ 3 →
            ∀ (inj : Option (ℕ × ℂ)) (uh : Nonlin.MC ℂ) (h : ℕ),
              sumList
                  (List.map (fun d ↦ Nonlin.deriv c d h * Nonlin.at2 (Nonlin.projected3d c inj uh) d h) (List.range c.D)) =
                0 :=
  @Exponax.SmallGaps.projected3d_divfree_all

open Exponax.SmallGaps in
theorem C10_velocity_step_preserves :
    ∀ (c : Nonlin.Cfg ℂ) (s : ℝ),
      c.s = ↑s →
        s ≠ 0 →
          c.D ≤ 3 →
            ∀ (inj : Option (ℕ × ℂ)) (e eh a1 a2 a3 a4 a5 a6 : ℕ → ℂ) (U : ℕ → ℕ → ℂ),
              DivFree c U →
                have b := fun x h x_1 ↦ x h;
                have N := liftModeFirst c 3 (Nonlin.projected3d c inj);
                DivFree c (Gen.Etdrk.E0step (b e) U) ∧
                  DivFree c (Gen.Etdrk.E1step (b e) (b a1) N U) ∧
                    DivFree c (Gen.Etdrk.E2step (b e) (b a1) (b a2) N U) ∧
                      DivFree c (Gen.Etdrk.E3step (b e) (b eh) (b a1) (b a2) (b a3) (b a4) (b a5) N U) ∧
                        DivFree c (Gen.Etdrk.E4step (b e) (b eh) (b a1) (b a2) (b a3) (b a4) (b a5) (b a6) N U) :=
  @Exponax.SmallGaps.velocity_step_preserves

open Exponax.SmallGaps in
theorem C10_velocity_rollout_preserves :
    ∀ (c : Nonlin.Cfg ℂ) (s : ℝ),
      c.s = ↑s →
        s ≠ 0 →
          c.D ≤ 3 →
            ∀ (inj : Option (ℕ × ℂ)) (e eh a1 a2 a3 a4 a5 a6 : ℕ → ℂ) (n : ℕ) (U : ℕ → ℕ → ℂ),
              DivFree c U →
                have b := fun x h x_1 ↦ x h;
                have N := liftModeFirst c 3 (Nonlin.projected3d c inj);
                DivFree c ((Gen.Etdrk.E0step (b e))^[n] U) ∧
                  DivFree c ((Gen.Etdrk.E1step (b e) (b a1) N)^[n] U) ∧
                    DivFree c ((Gen.Etdrk.E2step (b e) (b a1) (b a2) N)^[n] U) ∧
                      DivFree c ((Gen.Etdrk.E3step (b e) (b eh) (b a1) (b a2) (b a3) (b a4) (b a5) N)^[n] U) ∧
                        DivFree c ((Gen.Etdrk.E4step (b e) (b eh) (b a1) (b a2) (b a3) (b a4) (b a5) (b a6) N)^[n] U) :=
  @Exponax.SmallGaps.velocity_rollout_preserves

end Exponax
