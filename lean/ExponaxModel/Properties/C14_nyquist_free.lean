import ExponaxModel.Proofs.RepeatedPhysicalInvariant
/-
C14 (continued) — the NYQUIST-FREE positive case of "RepeatedStepper(stepper, n)(u) = n applications of the inner stepper".
`C14_repeated_stepper_is_the_physical_loop` (C14_physical.lean) asks the Fourier step to map EVERY realisable spectrum to a
realisable one; a linear step with an odd-order symbol on an even grid does not (`C14_repeated_differs_from_loop_at_nyquist`).
Here the hypothesis is weakened to an INVARIANT: the step only has to preserve `Realisable ∧ P` for a property `P` of the
spectrum that holds initially.  With `P` = Nyquist-free (`NyqFree`: the spectrum vanishes at every stored mode that has a
wavenumber component `|k_d| = N/2`, `N` even) every symbol `g(−k) = conj g(k)` qualifies on EVERY grid — odd-order symbols
(advection, dispersion) on even grids included — because off the Nyquist modes the Hermitian partner of a stored mode carries
exactly the wavenumber vector `−k`.  Also for ETD-type steps whose nonlinear coefficient removes the Nyquist modes
(dealiasing mask).  General D ≥ 1, N ≥ 1, n ≥ 0.
-/
set_option linter.unusedVariables false
namespace Exponax

open Exponax.C2R in
/-- **Invariant form of C14.**  If the Fourier step `F` maps every realisable spectrum with property `P` to a realisable
    spectrum with property `P`, then for every real grid state `u` whose spectrum has `P` and every `n ≥ 0` the `n`-fold
    physical-space loop `repeat(ifft ∘ F ∘ fft, n)(u)` equals `RepeatedStepper`: `ifft (F^n (fft u))`. -/
theorem C14_repeated_stepper_is_the_loop_under_invariant :
    ∀ (D N : ℕ),
      0 < D →
        0 < N →
          ∀ (F : Array ℂ → Array ℂ) (P : Array ℂ → Prop),
            (∀ (C : Array ℂ), Realisable D N C → P C → Realisable D N (F C) ∧ P (F C)) →
              ∀ (u : Array ℂ),
                RealState D N u →
                  P (Transform.rfftnM D N u) →
                    ∀ (n : ℕ),
                      Loops.repeatN (fun v ↦ Transform.irfftnM D N (F (Transform.rfftnM D N v))) n u =
                        Transform.irfftnM D N (Loops.repeatedStepFourier F n (Transform.rfftnM D N u)) :=
  @Exponax.C2R.repeatedStepper_eq_loop_of_invariant

open Exponax.C2R in
/-- Under the same hypotheses the invariant holds for the spectrum of every intermediate state of the physical loop. -/
theorem C14_invariant_holds_along_the_loop :
    ∀ (D N : ℕ),
      0 < D →
        0 < N →
          ∀ (F : Array ℂ → Array ℂ) (P : Array ℂ → Prop),
            (∀ (C : Array ℂ), Realisable D N C → P C → Realisable D N (F C) ∧ P (F C)) →
              ∀ (u : Array ℂ),
                RealState D N u →
                  P (Transform.rfftnM D N u) →
                    ∀ (n : ℕ),
                      P (Transform.rfftnM D N
                        ((fun v ↦ Transform.irfftnM D N (F (Transform.rfftnM D N v)))^[n] u)) :=
  @Exponax.C2R.loop_spectrum_invariant

open Exponax.C2R in
/-- What "Nyquist-free" means: `NyqMode D N h` — `N` is even and some wavenumber component of the stored mode `h` has
    `|k_d| = N/2`; `NyqFree D N C` — the stored spectrum `C` vanishes at all such modes. -/
theorem C14_nyquist_free_def :
    ∀ (D N : ℕ) (C : Array ℂ),
      NyqFree D N C ↔
        ∀ h < Layout.numModes D N,
          (N % 2 = 0 ∧ ∃ d < D, ((Layout.wnFlat D N h).getD d 0).natAbs = N / 2) → C.getD h 0 = 0 :=
  fun _ _ _ => Iff.rfl

open Exponax.C2R in
/-- Off the Nyquist modes, on every grid, the Hermitian partner `conjIdx D N h` of a stored mode on a self-conjugate column
    carries exactly the wavenumber vector `−k(h)`. -/
theorem C14_partner_wavenumber_off_nyquist :
    ∀ (D N h : ℕ),
      0 < D →
        0 < N →
          h < Layout.numModes D N →
            Transform.herm_weight D N h = 1 →
              ¬NyqMode D N h →
                Layout.wnFlat D N (conjIdx D N h) = List.map (fun k ↦ -k) (Layout.wnFlat D N h) :=
  @Exponax.C2R.wnFlat_conjIdx_of_not_nyq

open Exponax.C2R in
/-- A linear step whose symbol is Hermitian on the self-conjugate columns off the Nyquist modes (`HermOffNyq`; nothing is
    required AT the Nyquist modes) maps realisable Nyquist-free spectra to realisable Nyquist-free spectra. -/
theorem C14_linear_step_preserves_realisable_nyquist_free :
    ∀ (D N : ℕ),
      0 < D →
        0 < N →
          ∀ (e : ℕ → ℂ),
            HermOffNyq D N e →
              ∀ (C : Array ℂ),
                Realisable D N C →
                  NyqFree D N C → Realisable D N (diagStep D N e C) ∧ NyqFree D N (diagStep D N e C) :=
  @Exponax.C2R.diag_preserves_realisable_nyqFree

open Exponax.C2R in
/-- Every symbol that is a function of the wavenumber vector with `g(−k) = conj g(k)` (all linear operators with real
    coefficients, odd orders included, and their exponentials / ETDRK coefficients) is `HermOffNyq`, on every grid. -/
theorem C14_wavenumber_symbols_qualify_off_nyquist :
    ∀ (D N : ℕ),
      0 < D →
        0 < N →
          ∀ (g : List ℤ → ℂ),
            (∀ (k : List ℤ), g (List.map (fun x ↦ -x) k) = (starRingEnd ℂ) (g k)) →
              HermOffNyq D N fun h ↦ g (Layout.wnFlat D N h) :=
  @Exponax.C2R.hermOffNyq_of_wavenumber

open Exponax.C2R in
/-- **C14 on Nyquist-free states, every grid (even `N` included), every symbol `g(−k) = conj g(k)` (odd-order symbols
    included).**  For every real grid state whose spectrum vanishes at the Nyquist modes and every `n ≥ 0`, the repeated
    stepper of the linear step `û ↦ g(k) ⊙ û` equals the `n`-fold physical-space loop of that step. -/
theorem C14_repeated_linear_nyquist_free_even_grid :
    ∀ (D N : ℕ),
      0 < D →
        0 < N →
          ∀ (g : List ℤ → ℂ),
            (∀ (k : List ℤ), g (List.map (fun x ↦ -x) k) = (starRingEnd ℂ) (g k)) →
              ∀ (u : Array ℂ),
                RealState D N u →
                  NyqFree D N (Transform.rfftnM D N u) →
                    ∀ (n : ℕ),
                      Loops.repeatN
                          (fun v ↦
                            Transform.irfftnM D N
                              (diagStep D N (fun h ↦ g (Layout.wnFlat D N h)) (Transform.rfftnM D N v)))
                          n u =
                        Transform.irfftnM D N
                          (Loops.repeatedStepFourier (diagStep D N fun h ↦ g (Layout.wnFlat D N h)) n
                            (Transform.rfftnM D N u)) :=
  @Exponax.C2R.repeated_loop_wavenumber_nyqFree

open Exponax.C2R in
/-- The same for an arbitrary stored symbol `e` that is Hermitian off the Nyquist modes. -/
theorem C14_repeated_linear_nyquist_free :
    ∀ (D N : ℕ),
      0 < D →
        0 < N →
          ∀ (e : ℕ → ℂ),
            HermOffNyq D N e →
              ∀ (u : Array ℂ),
                RealState D N u →
                  NyqFree D N (Transform.rfftnM D N u) →
                    ∀ (n : ℕ),
                      Loops.repeatN (fun v ↦ Transform.irfftnM D N (diagStep D N e (Transform.rfftnM D N v))) n u =
                        Transform.irfftnM D N
                          (Loops.repeatedStepFourier (diagStep D N e) n (Transform.rfftnM D N u)) :=
  @Exponax.C2R.repeated_loop_diag_nyqFree

open Exponax.C2R in
/-- Every intermediate state of the physical loop of such a linear step is again Nyquist-free. -/
theorem C14_linear_loop_stays_nyquist_free :
    ∀ (D N : ℕ),
      0 < D →
        0 < N →
          ∀ (g : List ℤ → ℂ),
            (∀ (k : List ℤ), g (List.map (fun x ↦ -x) k) = (starRingEnd ℂ) (g k)) →
              ∀ (u : Array ℂ),
                RealState D N u →
                  NyqFree D N (Transform.rfftnM D N u) →
                    ∀ (n : ℕ),
                      NyqFree D N
                        (Transform.rfftnM D N
                          ((fun v ↦
                              Transform.irfftnM D N
                                (diagStep D N (fun h ↦ g (Layout.wnFlat D N h)) (Transform.rfftnM D N v)))^[n]
                            u)) :=
  @Exponax.C2R.loop_wavenumber_stays_nyqFree

open Exponax.C2R in
/-- On odd grids there are no Nyquist modes: every spectrum is Nyquist-free, so `C14_repeated_linear_odd_grid` is a special
    case of `C14_repeated_linear_nyquist_free_even_grid`. -/
theorem C14_odd_grid_is_nyquist_free :
    ∀ (D N : ℕ), N % 2 = 1 → ∀ (C : Array ℂ), NyqFree D N C :=
  @Exponax.C2R.odd_grid_nyqFree

open Exponax.C2R in
/-- **ETD-type steps, general form.**  `F û = e ⊙ û + c ⊙ rfftn (𝒩 (irfftn û))` with `e`, `c` Hermitian off the Nyquist modes,
    `𝒩` real on real states and a nonlinear contribution that is empty at the Nyquist modes whenever `û` is realisable and
    Nyquist-free: on Nyquist-free real states the repeated stepper equals the physical-space loop, every `n`. -/
theorem C14_repeated_etd_step_nyquist_free :
    ∀ (D N : ℕ),
      0 < D →
        0 < N →
          ∀ (e c : ℕ → ℂ),
            HermOffNyq D N e →
              HermOffNyq D N c →
                ∀ (𝒩 : Array ℂ → Array ℂ),
                  (∀ (v : Array ℂ), RealState D N v → ∀ j < N ^ D, ((𝒩 v).getD j 0).im = 0) →
                    (∀ (C : Array ℂ),
                        Realisable D N C →
                          NyqFree D N C →
                            ∀ h < Layout.numModes D N,
                              NyqMode D N h →
                                c h * (Transform.rfftnM D N (𝒩 (Transform.irfftnM D N C))).getD h 0 = 0) →
                      ∀ (u : Array ℂ),
                        RealState D N u →
                          NyqFree D N (Transform.rfftnM D N u) →
                            ∀ (n : ℕ),
                              Loops.repeatN
                                  (fun v ↦
                                    Transform.irfftnM D N
                                      ((fun C ↦
                                          addSpec D N (diagStep D N e C)
                                            (diagStep D N c (Transform.rfftnM D N (𝒩 (Transform.irfftnM D N C)))))
                                        (Transform.rfftnM D N v)))
                                  n u =
                                Transform.irfftnM D N
                                  (Loops.repeatedStepFourier
                                    (fun C ↦
                                      addSpec D N (diagStep D N e C)
                                        (diagStep D N c (Transform.rfftnM D N (𝒩 (Transform.irfftnM D N C)))))
                                    n (Transform.rfftnM D N u)) :=
  @Exponax.C2R.repeated_loop_etd_nyqFree

open Exponax.C2R in
/-- **ETD-type steps with wavenumber symbols and a Nyquist-removing mask on the nonlinear coefficient**
    (`maskNyq D N c h = 0` at the Nyquist modes, `c h` elsewhere — a dealiasing mask with cut-off below `N/2`):
    `F û = g_e(k) ⊙ û + mask ⊙ g_c(k) ⊙ rfftn (𝒩 (irfftn û))`, `g_e`, `g_c` with `g(−k) = conj g(k)` (odd orders included),
    `𝒩` real on real states; every grid, Nyquist-free real states, every `n`. -/
theorem C14_repeated_etd_step_nyquist_free_masked :
    ∀ (D N : ℕ),
      0 < D →
        0 < N →
          ∀ (ge gc : List ℤ → ℂ),
            (∀ (k : List ℤ), ge (List.map (fun x ↦ -x) k) = (starRingEnd ℂ) (ge k)) →
              (∀ (k : List ℤ), gc (List.map (fun x ↦ -x) k) = (starRingEnd ℂ) (gc k)) →
                ∀ (𝒩 : Array ℂ → Array ℂ),
                  (∀ (v : Array ℂ), RealState D N v → ∀ j < N ^ D, ((𝒩 v).getD j 0).im = 0) →
                    ∀ (u : Array ℂ),
                      RealState D N u →
                        NyqFree D N (Transform.rfftnM D N u) →
                          ∀ (n : ℕ),
                            Loops.repeatN
                                (fun v ↦
                                  Transform.irfftnM D N
                                    ((fun C ↦
                                        addSpec D N (diagStep D N (fun h ↦ ge (Layout.wnFlat D N h)) C)
                                          (diagStep D N (maskNyq D N fun h ↦ gc (Layout.wnFlat D N h))
                                            (Transform.rfftnM D N (𝒩 (Transform.irfftnM D N C)))))
                                      (Transform.rfftnM D N v)))
                                n u =
                              Transform.irfftnM D N
                                (Loops.repeatedStepFourier
                                  (fun C ↦
                                    addSpec D N (diagStep D N (fun h ↦ ge (Layout.wnFlat D N h)) C)
                                      (diagStep D N (maskNyq D N fun h ↦ gc (Layout.wnFlat D N h))
                                        (Transform.rfftnM D N (𝒩 (Transform.irfftnM D N C)))))
                                  n (Transform.rfftnM D N u)) :=
  @Exponax.C2R.repeated_loop_etd_nyqFree_masked

/-! ### non-vacuity on an even grid with an odd-order symbol -/

open Exponax.C2R in
/-- the hypotheses of `C14_repeated_linear_nyquist_free_even_grid` are jointly satisfiable on the EVEN grid `D = 1`, `N = 4`
    with the ODD-order symbol `g(k) = i·k` (one derivative) and the real state `u = (1, 0, −1, 0)` (`cos(2πx)` sampled), whose
    spectrum is Nyquist-free but not zero (`û_1 = 2`); the conclusion then holds for every `n` -/
example :
    (4 : ℕ) % 2 = 0 ∧
    (∀ k : List ℤ, (fun k : List ℤ => Complex.I * ((k.getD 0 0 : ℤ) : ℂ)) (k.map (fun x => -x))
        = (starRingEnd ℂ) ((fun k : List ℤ => Complex.I * ((k.getD 0 0 : ℤ) : ℂ)) k)) ∧
    RealState 1 4 #[(1 : ℂ), 0, -1, 0] ∧
    NyqFree 1 4 (Transform.rfftnM 1 4 #[(1 : ℂ), 0, -1, 0]) ∧
    NyqMode 1 4 2 ∧
    (Transform.rfftnM 1 4 #[(1 : ℂ), 0, -1, 0]).getD 1 0 = 2 ∧
    ∀ n : ℕ,
      Loops.repeatN (fun v ↦ Transform.irfftnM 1 4
          (diagStep 1 4 (fun h ↦ Complex.I * (((Layout.wnFlat 1 4 h).getD 0 0 : ℤ) : ℂ)) (Transform.rfftnM 1 4 v))) n
          #[(1 : ℂ), 0, -1, 0]
        = Transform.irfftnM 1 4
          (Loops.repeatedStepFourier (diagStep 1 4 fun h ↦ Complex.I * (((Layout.wnFlat 1 4 h).getD 0 0 : ℤ) : ℂ)) n
            (Transform.rfftnM 1 4 #[(1 : ℂ), 0, -1, 0])) :=
  ⟨rfl, deriv_symbol_herm, realState_cos4, nyqFree_cos4,
    (nyqMode_1_4 2 (by rw [DFT.numModes_one]; norm_num)).mpr rfl, rfft_cos4_one,
    fun n => C14_repeated_linear_nyquist_free_even_grid 1 4 (by norm_num) (by norm_num)
      (fun k : List ℤ => Complex.I * ((k.getD 0 0 : ℤ) : ℂ)) deriv_symbol_herm _ realState_cos4 nyqFree_cos4 n⟩

open Exponax.C2R in
/-- the symbol of that example is NOT Hermitian at the Nyquist mode (its Nyquist factor `2i` is not real), so
    `C14_repeated_linear_is_the_loop` does not apply to it: the Nyquist-free theorem covers a genuinely new case -/
example : ¬ HermSymbol 1 4 (fun h ↦ Complex.I * (((Layout.wnFlat 1 4 h).getD 0 0 : ℤ) : ℂ)) := by
  intro H
  have h2 := ((hermSymbol_1d_iff 4 (by norm_num) _).mp H).2 rfl
  have hk : (Layout.wnFlat 1 4 (4 / 2)).getD 0 0 = ((2 : ℕ) : ℤ) := by
    rw [wnFlat_getD_last 0 4 (4 / 2) (by rw [DFT.numModes_one]; norm_num)]
  simp only [hk] at h2
  norm_num at h2

end Exponax
