import ExponaxModel.Proofs.BaseStepperGenEq
/-
C20 (continued) — `BaseStepper.__call__` as a whole (regenerated: the guard of `Generated/GuardsGen.lean`, then
`self.step(u)`): every shape but `(C,) + (N,)*D` is refused, the configured shape is stepped; unsupported orders are
refused by the constructor.
-/
set_option linter.unusedVariables false
namespace Exponax
open Exponax.Nonlin Exponax.Gen.StepperWiring Exponax.Gen.Base Exponax.BaseStepperGenEq

theorem C20_base_call_refuses_or_steps (a : BaseStepperArgs ℂ) (sf : MC ℂ → Option (MC ℂ)) (shape : List ℕ)
    (u : MC ℂ) :
    BaseStepper_call a sf shape u
      = if shape = a.num_channels :: List.replicate a.num_spatial_dims a.num_points then BaseStepper_step a sf u
        else none :=
  BaseStepper_call_eq a sf shape u

/-- a batch axis, a wrong channel count, a missing axis: all refused -/
theorem C20_base_call_refuses_wrong_shapes (a : BaseStepperArgs ℂ) (sf : MC ℂ → Option (MC ℂ)) (u : MC ℂ) (B C' : ℕ)
    (hC : C' ≠ a.num_channels) :
    BaseStepper_call a sf (B :: a.num_channels :: List.replicate a.num_spatial_dims a.num_points) u = none ∧
    BaseStepper_call a sf (C' :: List.replicate a.num_spatial_dims a.num_points) u = none ∧
    BaseStepper_call a sf (List.replicate a.num_spatial_dims a.num_points) u = none := by
  refine ⟨?_, ?_, ?_⟩
  · rw [BaseStepper_call_eq, if_neg]
    intro h
    have := congrArg List.length h
    simp at this
  · rw [BaseStepper_call_eq, if_neg]
    intro h
    exact hC (List.cons.inj h).1
  · rw [BaseStepper_call_eq, if_neg]
    intro h
    have := congrArg List.length h
    simp at this

theorem C20_base_unsupported_order_refused (a : BaseStepperArgs ℂ) (h : 4 < a.order) (lam : Interface.Spec)
    (N : Interface.Spec → Interface.Spec) (u : Interface.Spec) :
    BaseStepper_step_fourier a (entrywiseOf lam) N u = none :=
  BaseStepper_step_fourier_raises a h lam N u

end Exponax
